package main

import (
	"fmt"
	"reflect"
)

// Types that carry methods. The documented semantics looks at a value's kind and content only: a String, Error,
// MarshalText, MarshalJSON or GoString method must not change what an operator sees (and must not be a way for the
// content of hidden fields to reach an outcome).

type Dur int64

func (d Dur) String() string { return fmt.Sprintf("%ds", int64(d)/1000000000) }

type Lvl string

func (l Lvl) String() string { return "level-" + string(l) }

type LvlI int

func (l LvlI) String() string { return [...]string{"debug", "info", "warn"}[((int(l)%3)+3)%3] }

type BoolM bool

func (b BoolM) String() string { return map[bool]string{true: "on", false: "off"}[bool(b)] }

type F64M float64

func (f F64M) String() string { return "f" }

type PtS struct{ X, Y int }

func (p PtS) String() string { return "origin" }

// Leaky prints its hidden fields through every conventional textual method.
type Leaky struct {
	Name string
	Sec  string `bexpr:"-" alt:"-"`
	priv string
}

func (l Leaky) text() string                 { return l.Name + " " + l.Sec + " " + l.priv }
func (l Leaky) String() string               { return l.text() }
func (l Leaky) Error() string                { return l.text() }
func (l Leaky) MarshalText() ([]byte, error) { return []byte(l.text()), nil }
func (l Leaky) MarshalJSON() ([]byte, error) { return []byte(`"` + l.text() + `"`), nil }

// S9 gathers them.
type S9 struct {
	D   Dur
	L   Lvl
	E   LvlI
	B   BoolM
	F   F64M
	P   PtS
	K   Leaky
	PD  *Dur
	LD  []Dur
	LK  []Leaky
	MK  map[string]Leaky
	I   interface{}
	PK  *Leaky
	LL  []Lvl
	MLv map[string]Lvl
}

// S10: a hidden field whose Go name is the tag name of a visible map (C08)
type S10 struct {
	Labels map[string]string `bexpr:"Meta" alt:"Meta"`
	Meta   interface{}       `bexpr:"-" alt:"-"`
	Items  []int             `bexpr:"Hidden" alt:"Hidden"`
	Hidden interface{}       `bexpr:"-" alt:"-"`
}

// Outer/Inner: a pointer to a struct and a pointer to its first field are the same address with different types
type Inner struct{ X int }
type Outer struct {
	Head Inner
	X    int
}

var methodScalarTypes = []reflect.Type{reflect.TypeOf(Dur(0)), reflect.TypeOf(Lvl("")), reflect.TypeOf(LvlI(0)), reflect.TypeOf(BoolM(false)), reflect.TypeOf(F64M(0))}
