package main

import (
	"fmt"
	"math"
	"strings"
	"time"

	bexpr "github.com/hashicorp/go-bexpr"
	"github.com/hashicorp/go-bexpr/grammar"
)

// ---------- corpora ----------

var tokenAlphabet = []string{"(", ")", "{", "}", ",", "_", "==", "!=", "in", "not", "is", "empty", "contains", "matches", "and", "or", "any", "all", "as",
	"a", "b", "x.y", `a["k"]`, "a.0", `"/p/q"`, `"/p~1q~0"`, `"/a~01b"`, "1", "-1.5", "01", `"s t"`, "`r`", `"`, "[", "]", ".", "/", `"\x41é"`, `""`, "é", "a/b"}

var handCorpus = []string{`"/a/./b" == 1`, `"/a/../b" == 1`, `"/./x" is empty`, `"/.." == 1`, `1 in "/a/."`, `"/a/b/../../c" != 1`, `any "/m/." as x { x == 1 }`, `"/a//b" == 1`, `"/a/b/" == 1`, "a==1", "a == 1", "a == 1 and b == 2", "not a == 1", "(a==1)", "((a==1))", "(((a==1)))", "a", "", "any a as x { x == 1 }",
	"all a as i, v { v == 1 and i != 0 }", "any m as _, v { v.x == 1 }", "all m as k, _ { k matches `^a` }", "( any a as x { x == 1 } ) and b == 2",
	"a == 1 or b == 2 and not c == 3", "not not a == 1", "not (not a == 1)", "a is empty", "a is not empty", "x in a", "x not in a", "a contains x", "a not contains x",
	`a matches "^b"`, `a not matches "^b"`, `"/a/b" == 1`, `"" == 5`, `x == "/usr/bin"`, `x == "/a/"`, `x == "a\"b"`, "x == \"a\nb\"", `x == "\'"`, "x == `a\rb`",
	"a == 1x", "a == ", "a[", "a[1]", `a["b"`, "1 in ", "not", "a is", `"a" == 1`, "nota==1", "not(a==1)", "a==1 and(b==1)", "a==1and b==1", "((a==1)",
	"\xff", "a == \xff", "a == \"\xff\"", "é == 1", `"/é" == 1`, `a == "é"`, "a == 1 }", "all a as _ { _ == 1 }", "any x as y { y == 1}", "any x as y {y==1}", "any x as y { y == 1.5}",
	"any x as y { y == -2}", "any x as y { 1 in y}", "any x as y { y == 1}}", "any x as y { y == 1 } }", "any in as x { x == 1 }", "not == 1", "not in x",
	" ( a == 1 ) ", "(a == 1) or (b == 2)", "a.b.c == d.e", `a["b"].0["c"] == 1`, "a == -0.50", "a == 00", "a\t==\n1", `a == "é\U0001F600\101\x7f"`, `a == "\ud800"`, `a == "\400"`,
	"a == \x00", "a == \"\x00\"", "a == `\x00`", "a == \"unterminated", "a == `unterminated", "a[\"k\"", "a[`k`]", "a[ \"k\" ]", "a.b[", "a == 1 and", "and", "or a == 1", "a == 1 or",
	"any a as { x == 1 }", "any a as x, { x == 1 }", "any a as x, y, z { x == 1 }", "all a as _, _ { a == 1 }", "any a as x { }", "any a as x {", "any a as x { x == 1", "any as x { x == 1 }",
	"a == 1 ) ", "( a == 1", "()", "( )", "not ( a == 1 )", "not\ta == 1", "a  is   not    empty", "a is  empty", "a isempty", "a is notempty", "\"/a\" is empty", "\"/\" == 1", "\"//\" == 1",
	"a == \"\ufffd\"", "a == `\ufffd`", "a[\"\ufffd\"] == 1", "\ufffd == 1", "a == \"x\ufffdy\" and b == 1", "a == \"s t\"", "a == \"s  t\"", "a == \"s\tt\"", "a  ==  \"s t\"", "a[\"k k\"] == 1", "a[\"k  k\"] == 1", "a\f== 1", "a\v== 1", "a\u00a0== 1", "a\u0085== 1", "a == \"/p~2\"", "\"/p~2\" == 1", "\"/p~\" == 1", "\"/a~01b\" == 1", "\"/~0~1~01~10\" is empty", "a == \"/x~01\"", "a matches b", "a not matches `[`", "1 == 1", "-1 in a", "1.5 not in a", "`raw` in a", "\"q\" not in a", "a == b.c[\"d\"]", "a == \"\\u00e9\"",
	"a==1 and b==2 and c==3", "a==1 or b==2 or c==3", "a==1 and b==2 or c==3 and d==4", "not a==1 and not b==2", "(a==1 or b==2) and c==3", "a==1 and (b==2 or c==3)",
	strings.Repeat("(", 6) + "a==1" + strings.Repeat(")", 6), strings.Repeat("(", 7) + "foo == 3" + strings.Repeat(")", 7), "a matches `(`", "b.c matches \"[z-a]\"", "m.k not matches `a{2,1}`", "l.0 matches `*x`", "any l as x { x matches `(` }", strings.Repeat("not ", 5) + "a==1", "a == " + strings.Repeat("9", 40), "a == 1.", "a == .5", "a == -", "a == 1e3", "a == +1",
	`foo == "-"`, "foo != `-`", `"-" in foo`, `"+" not in foo`, `any foo as x { x == "-" }`, `a == "."`, `a == "e"`, `a == "0x"`, `a == "_"`, `a == "-."`, `a == "+."`, `a == "-0x"`, `a == "1e"`, `a == "1e+"`, `a == "Inf"`, `a == "nan"`, `a == " "`, `a == "-_"`,
	"ids.9223372036854775807 == 1", "ids.9223372036854775808 == 1", "ids.20260101093000123456 == 1", "x == ids.18446744073709551616", "1 in ids.99999999999999999999", "any ids.9223372036854775808 as v { v == 1 }", "a.00000000000000000000001 == 1",
	"a == 1 and b == 2 and c == 3 and d == 4 and e == 5 and f == 6 and g == 7 and h == 8 and i == 9 and j == 10 and k == 11 and l == 12 and m == 13 and n == 14 and o == 15 and p == 16 and q == 17 and r == 18 and s == 19",
	`(X == "\\") or (Y == "\\")`, "(X == `a\\`) and (Y == `b\\`)", `(X == "\\") or Z == 1 or (Y == "C:\\d\\")`, `(a == "(") or (b == ")")`, `(a == ")") and (b == "(")`, "(a == `)`) or (b == `(`)",
	"foo.\nbar == 1", "foo == -\n1", "foo.\n", "a == 1 and\nb.\n== 2", "foo[\n\"k\"] == 1", "a ==\n", "\na == 1", "a == 1\n\n", "a.\r\nb == 1", "foo == \"x\ny\"", "foo\n.bar == 1", "-\n",
	`any l as x { "" == 1 }`, `all l as i, x { "" is empty }`, `any l as x { any "" as y { y == 1 } }`, `any m as k, v { "" in v }`, `any l as x { "/" == 1 }`, `any l as x { x[""] == 1 }`,
	`foo contains "-"`, `a == "0b"`, `a == "0o"`, `a == "--"`, `a == "+-"`, "a == `+`", `a["-"] == 1`, `a["+"] == "+"`, `"/-" == 1`, `"/+" == "-"`}

var gSels = []string{"a", "b.c", `m["k"]`, `"/x/y"`, "l.0", "foo.bar.baz", "m[`r`]", `"/p~1q"`}
var gVals = []string{"1", "-2.5", "foo", `"s t"`, "`raw`", `"/p"`, "x.y", `""`, "0", `"\x41"`, `"-"`, `"+"`, "`.`", `"0x"`, `"1e"`}
var gOps = []string{" == ", "==", " != ", " in ", " not in ", " contains ", " not contains ", " matches ", " not matches "}

func gAtom() string {
	switch rng.Intn(5) {
	case 0:
		return pick(rng, gSels) + " is empty"
	case 1:
		return pick(rng, gSels) + " is not empty"
	case 2:
		return pick(rng, gVals) + pick(rng, []string{" in ", " not in "}) + pick(rng, gSels)
	default:
		op := pick(rng, gOps)
		if op == " in " || op == " not in " {
			op = " == "
		}
		return pick(rng, gSels) + op + pick(rng, gVals)
	}
}

func gDerive(d int) string {
	if d == 0 {
		return gAtom()
	}
	switch rng.Intn(7) {
	case 0:
		return gDerive(d-1) + " and " + gDerive(d-1)
	case 1:
		return gDerive(d-1) + " or " + gDerive(d-1)
	case 2:
		return "not " + gDerive(d-1)
	case 3:
		return "(" + gDerive(d-1) + ")"
	case 4:
		b := pick(rng, []string{"x", "i, v", "_, v", "i, _"})
		return "( " + pick(rng, []string{"any", "all"}) + " " + pick(rng, gSels) + " as " + b + " { " + gDerive(d-1) + " } )"
	default:
		return gAtom()
	}
}

// token-level mutation of a derivation: insert / delete / swap / duplicate
func mutateTokens(s string) string {
	toks := strings.Fields(s)
	if len(toks) == 0 {
		return s
	}
	i := rng.Intn(len(toks))
	switch rng.Intn(4) {
	case 0:
		toks = append(toks[:i], append([]string{pick(rng, tokenAlphabet)}, toks[i:]...)...)
	case 1:
		toks = append(toks[:i], toks[i+1:]...)
	case 2:
		j := rng.Intn(len(toks))
		toks[i], toks[j] = toks[j], toks[i]
	default:
		toks = append(toks[:i+1], toks[i:]...)
	}
	sep := " "
	if rng.Pct(10) {
		sep = ""
	}
	return strings.Join(toks, sep)
}

func malformed() string {
	switch rng.Intn(6) {
	case 0: // random bytes
		n := rng.Intn(12)
		b := make([]byte, n)
		for i := range b {
			b[i] = byte(rng.Intn(256))
		}
		return string(b)
	case 1: // a derivation with one byte replaced
		s := []byte(gDerive(rng.Intn(3)))
		if len(s) > 0 {
			s[rng.Intn(len(s))] = byte(rng.Intn(256))
		}
		return string(s)
	case 2: // truncated derivation
		s := gDerive(rng.Intn(3))
		return s[:rng.Intn(len(s)+1)]
	case 3: // bad escapes / unterminated quotes
		return "a == " + pick(rng, []string{`"\q"`, `"\x4"`, `"\u12"`, `"\U0011FFFF"`, `"\777"`, `"abc`, "`abc", `"a` + "\n" + `b"`, `'a'`, `"\ud800"`, `"\xff"`, "\"\xc3\"", "\"\xe2\x82\"", "\"\xf0\x90\x80\"", "\"\xed\xa0\x80\""})
	case 4: // NULs and control characters between tokens
		return strings.Join(strings.Fields(gDerive(rng.Intn(2))), pick(rng, []string{"\x00", "\x0b", "\x0c", "\u00a0", "\u2028", "\ufeff"}))
	default: // invalid UTF-8 inside an identifier or literal
		return pick(rng, []string{"a\xff == 1", "a == b\xc0", "\xe9 == 1", "a.\xff == 1", "a[\"\xff\"] == 1", "\"/\xff\" == 1", "a == `\xff`", "any a\xff as x { x == 1 }", "any a as x\xff { x == 1 }"})
	}
}

type sizes struct{ tok2, tok3, randSeq, derive, mutated, malformed int }

func corpusSizes(tier string) sizes {
	if tier == "thorough" {
		return sizes{tok2: 1, tok3: 1, randSeq: 40000, derive: 20000, mutated: 40000, malformed: 20000}
	}
	return sizes{tok2: 1, tok3: 0, randSeq: 1500, derive: 800, mutated: 1500, malformed: 800}
}

// parserCorpus yields the strings the parser properties are checked on, with the stream each belongs to.
func parserCorpus(tier string, seed uint64, f func(stream, s string)) {
	sz := corpusSizes(tier)
	for _, s := range handCorpus {
		f("hand", s)
	}
	for _, t := range tokenAlphabet {
		f("tok1", t)
	}
	if sz.tok2 > 0 {
		for _, t1 := range tokenAlphabet {
			for _, t2 := range tokenAlphabet {
				f("tok2", t1+" "+t2)
				f("tok2-nosep", t1+t2)
			}
		}
	}
	if sz.tok3 > 0 {
		for _, t1 := range tokenAlphabet {
			for _, t2 := range tokenAlphabet {
				for _, t3 := range tokenAlphabet {
					f("tok3", t1+" "+t2+" "+t3)
				}
			}
		}
	}
	for i := 0; i < sz.randSeq; i++ {
		rng = NewRng(mix(seed, strHash("randseq"), uint64(i)))
		n := 3 + rng.Intn(5)
		var parts []string
		for j := 0; j < n; j++ {
			parts = append(parts, pick(rng, tokenAlphabet))
		}
		sep := " "
		if rng.Pct(25) {
			sep = ""
		}
		f("randseq", strings.Join(parts, sep))
	}
	for i := 0; i < sz.derive; i++ {
		rng = NewRng(mix(seed, strHash("derive"), uint64(i)))
		f("derive", gDerive(rng.Intn(4)))
	}
	for i := 0; i < sz.derive/2; i++ {
		rng = NewRng(mix(seed, strHash("render"), uint64(i)))
		f("render", renderTop(genTree(rng.Intn(4))))
	}
	for i := 0; i < sz.mutated; i++ {
		rng = NewRng(mix(seed, strHash("mutated"), uint64(i)))
		f("mutated", mutateTokens(gDerive(rng.Intn(3))))
	}
	for i := 0; i < sz.malformed; i++ {
		rng = NewRng(mix(seed, strHash("malformed"), uint64(i)))
		f("malformed", malformed())
	}
	// flat chains of 33 to 140 terms (one level of the tree per term)
	for _, n := range []int{33, 40, 65, 70, 129, 140} {
		var terms []string
		for i := 0; i < n; i++ {
			terms = append(terms, fmt.Sprintf("f%d == %d", i, i))
		}
		f("long-chains", strings.Join(terms, " and "))
		f("long-chains", strings.Join(terms, " or "))
	}
	// values written as selectors (the literal text of such a value is the selector's dotted rendering), selectors that begin like a keyword
	for _, sel := range []string{`bar["a.b"]`, `tags["x-y"]`, `a["b c"].d`, `a[""]`, "a[`r.s`]", `a.b["c"]`, `a["é"]`, `a["b"]["c.d"].e`, `a.0["x.y"]`, `a["b/c"]`, `a["~"]`, `a["0"]`, `a.b.c`, `a["b"]`, `x["\""]`, `x["\\"]`, `x["\n"]`,
		"notes", "note.x", "notBefore", "nothing", "android.os", "order", "orbit", "anyone", "allow", "inner", "island", "asx", "emptyx", "matchesx", "containsx", "nota", "inn", "iss", "andy", "ore"} {
		for _, form := range []string{"foo == %s", "%s in foo.list", "foo != %s", "foo contains %s", "foo matches %s", "%s == 1", "%s is empty", "x in %s", "not %s == 1", "a == 1 and %s != 2", "any %s as v { v == 1 }", "all xs as v { %s == v }"} {
			f("selector-values", fmt.Sprintf(form, sel))
		}
	}
	// texts the grammar accepts with something put before or after them that a lenient reader might strip
	for i := 0; i < sz.derive/4; i++ {
		rng = NewRng(mix(seed, strHash("decorated"), uint64(i)))
		s := gDerive(rng.Intn(3))
		if i < len(handCorpus) {
			s = handCorpus[i]
		}
		deco := pick(rng, decorations)
		switch rng.Intn(4) {
		case 0:
			f("decorated", s+deco)
		case 1:
			f("decorated", deco+s+deco)
		default:
			f("decorated", deco+s)
		}
	}
	for _, deco := range decorations {
		for _, s := range []string{"a == 1", "foo == 1", "a == 1 and b == 2", "any a as x { x == 1 }", "((((((a == 1))))))", "a ==", ""} {
			f("decorated", deco+s)
			f("decorated", s+deco)
		}
	}
}

var decorations = []string{"\ufeff", "\ufeff\ufeff", "\xef\xbb", "\ufffe", "\x00", "\u00a0", "\u2028", "\u200b", "\v", "\f", "\r\n", "#", "//", "\x1a", "\u3000", ";", "\\", "\x7f", "\u0085"}

func parseCmd(which string, budget uint64, s string) string {
	b := "none"
	if budget != 0 {
		b = fmt.Sprint(budget)
	}
	return fmt.Sprintf("(parse %s %s %s)", which, b, hx(s))
}

func verdictOf(obs string) string {
	if strings.HasPrefix(obs, "A ") {
		return "accept"
	}
	return "reject"
}

// C15: the real parser against the reference (the engine model run on the table read from grammar.peg).
func runC15(r *Run) {
	c15BlankKinds(r)
	r.Rule = "hand corpus + every 1- and 2-token sequence of a 40-token alphabet with and without blanks (thorough: also every 3-token sequence) + random token sequences + grammar derivations + rendered random trees + token mutations + malformed bytes; non-trivial = distinct string; compared: verdict, tree and step count of grammar.Parse vs the engine model on the table read from grammar.peg"
	nth := 0
	parserCorpus(r.Tier, r.Seed, func(stream, s string) {
		if r.Distinct[s] > 0 {
			return
		}
		nth++
		if nth%25 == 0 {
			// other callers use the parser with options in between: a budget that runs out, a budget that suffices, invalid UTF-8 allowed
			func() {
				defer func() { recover() }()
				grammar.Parse("", []byte("a == 1 and b == 2"), grammar.MaxExpressions(uint64(5+nth%700)))
				grammar.Parse("", []byte("a == \"\xff\""), grammar.AllowInvalidUTF8(true))
				grammar.Parse("x", []byte("a =="), grammar.MaxExpressions(1000), grammar.Recover(true))
				if _, err := bexpr.CreateEvaluator("a == 1", bexpr.WithMaxExpressions(1000)); err != nil {
					r.Violate("create-evaluator-verdict", "budgeted-between|"+s, map[string]string{"input": "a == 1", "before": s}, "a budget of 1000 steps does not suffice for `a == 1` after other parses: "+err.Error())
				}
			}()
		}
		o := parseObs([]byte(s), 0)
		r.Evaluations++
		r.Seen(s)
		r.Count("stream:" + stream)
		r.Count("impl:" + verdictOf(o))
		if verdictOf(o) == "accept" {
			if t, ok := parseTree(s); ok {
				r.Count("accepted-shape:" + truncate(shapeKey(t), 40))
			}
		}
		if o == "PANIC" {
			r.Violate("parse-panics", s, map[string]string{"input": s, "input_hex": hx(s)}, "grammar.Parse panicked")
		}
		// CreateEvaluator accepts exactly what Parse accepts and holds the same tree
		func() {
			defer func() { recover() }()
			ev, err := bexpr.CreateEvaluator(s)
			if (err == nil) != (verdictOf(o) == "accept") {
				r.Violate("create-evaluator-verdict", s, map[string]string{"input": s, "input_hex": hx(s)}, fmt.Sprintf("Parse: %s, CreateEvaluator error: %v", verdictOf(o), err))
			} else if err == nil {
				var p1 []string
				if t := sExpr(ev.VerifAST(), &p1); !strings.HasSuffix(o, " "+t) {
					r.Violate("create-evaluator-tree", s, map[string]string{"input": s, "input_hex": hx(s)}, "CreateEvaluator holds "+truncate(t, 200)+" but Parse returned "+truncate(o, 200))
				}
			}
		}()
		r.Model(parseCmd("peg", 0, s), o, map[string]string{"input": s, "stream": stream})
		if len(r.Samples) < 12 && (stream == "derive" || stream == "hand" || stream == "mutated") && rng != nil && r.Evaluations%97 == 0 {
			r.Sample(map[string]string{"input": s, "impl": truncate(o, 160)})
		}
	})
	r.Sample(map[string]string{"input": "a == 1", "impl": parseObs([]byte("a == 1"), 0)})
}

func truncate(s string, n int) string {
	if len(s) > n {
		return s[:n] + "..."
	}
	return s
}

// C20 (search half): the same corpus through the engine on BOTH tables and the real parser.
func runC20(r *Run) {
	r.Rule = "the C15 corpus, each string parsed by the real parser and by the engine model on the table read from grammar.go and on the table read from grammar.peg; a string on which they differ separates the two grammars"
	parserCorpus(r.Tier, r.Seed, func(stream, s string) {
		if r.Distinct[s] > 0 || (r.Tier == "quick" && stream != "hand" && stream != "derive" && stream != "tok1" && stream != "render") {
			return
		}
		o := parseObs([]byte(s), 0)
		r.Evaluations++
		r.Seen(s)
		r.Count("stream:" + stream)
		r.Model(parseCmd("peg", 0, s), o, map[string]string{"input": s, "table": "grammar.peg"})
		r.Model(parseCmd("go", 0, s), o, map[string]string{"input": s, "table": "grammar.go"})
	})
	r.Sample(map[string]string{"input": "a == 1", "impl": parseObs([]byte("a == 1"), 0)})
}

// C10: CreateEvaluator / CreateFilter / Parse are total and return evaluator xor error.
func runC10(r *Run) {
	r.Rule = "the parser corpus with the malformed stream tripled; per string: CreateEvaluator, CreateFilter and grammar.Parse under recover, result shapes, agreement of the three, then Evaluate on three data and ExpressionDump of the tree under recover; non-trivial = distinct string; the model's verdict is compared as well"
	data := []interface{}{map[string]interface{}{"a": 1, "b": map[string]interface{}{"c": "x"}, "m": map[string]interface{}{"k": []interface{}{1, "s"}}, "l": []interface{}{1, 2}}, nil, S1{A: 1},
		// every name of the corpus resolves to a string somewhere: operators that need a string (matches) are reached
		map[string]interface{}{"a": "abc", "b": map[string]interface{}{"c": "x"}, "m": map[string]interface{}{"k": "s", "r": "t"}, "l": []interface{}{"x", "y"}, "x": map[string]interface{}{"y": "z"}, "foo": map[string]interface{}{"bar": map[string]interface{}{"baz": "q"}}, "p": map[string]interface{}{"q": "v"}}}
	check := func(stream, s string) {
		if r.Distinct[s] > 0 {
			return
		}
		r.Seen(s)
		r.Evaluations++
		r.Count("stream:" + stream)
		c := map[string]string{"input": s, "input_hex": hx(s)}
		var ev *bexpr.Evaluator
		var everr error
		if r.Evaluations%20 == 0 {
			// a creation under a budget that suffices for it, right before: nothing of that budget may be left for the next creation
			if _, err := bexpr.CreateEvaluator("a == 1", bexpr.WithMaxExpressions(1000)); err != nil {
				r.Violate("create-evaluator-verdict", "budgeted-before|"+s, map[string]string{"input": "a == 1"}, "a budget of 1000 steps does not suffice for `a == 1`: "+err.Error())
			}
		}
		if r.Evaluations%3 == 0 {
			// the same text attempted first under a budget of one step (and of two): whatever that attempt returns, the creation
			// without a budget that follows is judged on the text alone (round 13: verdicts cached by text across budgets)
			func() {
				defer func() {
					if p := recover(); p != nil {
						r.Violate("create-evaluator-panics", "budget-1|"+s, c, fmt.Sprint(p))
					}
				}()
				for _, b := range []uint64{1, 2} {
					if e1, err1 := bexpr.CreateEvaluator(s, bexpr.WithMaxExpressions(b)); (e1 == nil) == (err1 == nil) {
						r.Violate("evaluator-xor-error", "budget-1|"+s, c, fmt.Sprintf("under a budget of %d: evaluator nil=%v error nil=%v", b, e1 == nil, err1 == nil))
					}
				}
			}()
		}
		func() {
			defer func() {
				if p := recover(); p != nil {
					r.Violate("create-evaluator-panics", s, c, fmt.Sprint(p))
				}
			}()
			ev, everr = bexpr.CreateEvaluator(s)
		}()
		if (ev == nil) == (everr == nil) {
			r.Violate("evaluator-xor-error", s, c, fmt.Sprintf("evaluator nil=%v error nil=%v", ev == nil, everr == nil))
		}
		var flt *bexpr.Filter
		var ferr error
		func() {
			defer func() {
				if p := recover(); p != nil {
					r.Violate("create-filter-panics", s, c, fmt.Sprint(p))
				}
			}()
			flt, ferr = bexpr.CreateFilter(s)
		}()
		if s == "" {
			if flt != nil || ferr != nil {
				r.Violate("empty-filter", s, c, "CreateFilter(\"\") is not (nil, nil)")
			}
		} else if (flt == nil) == (ferr == nil) {
			r.Violate("filter-xor-error", s, c, fmt.Sprintf("filter nil=%v error nil=%v", flt == nil, ferr == nil))
		}
		if s != "" && (ferr == nil) != (everr == nil) {
			r.Violate("filter-evaluator-agree", s, c, "CreateFilter and CreateEvaluator disagree")
		}
		var ast interface{}
		var perr error
		func() {
			defer func() {
				if p := recover(); p != nil {
					r.Violate("parse-panics", s, c, fmt.Sprint(p))
				}
			}()
			ast, perr = grammar.Parse("", []byte(s))
		}()
		if (perr == nil) != (everr == nil) {
			r.Violate("parse-create-agree", s, c, fmt.Sprintf("Parse error nil=%v, CreateEvaluator error nil=%v", perr == nil, everr == nil))
		}
		if perr == nil {
			e, ok := ast.(grammar.Expression)
			if !ok || e == nil {
				r.Violate("accepted-without-expression", s, c, fmt.Sprintf("Parse returned %T with nil error", ast))
			} else {
				func() {
					defer func() {
						if p := recover(); p != nil {
							r.Violate("dump-panics", s, c, fmt.Sprint(p))
						}
					}()
					var sb strings.Builder
					e.ExpressionDump(&sb, "  ", 0)
				}()
			}
		}
		if ev != nil {
			for _, d := range data {
				if o := evalObs(ev, d); o == "P" {
					r.Violate("evaluate-panics", s, c, "Evaluate panicked on "+describe(d))
				} else {
					r.Count("eval:" + o)
				}
			}
			r.Count("impl:accept")
		} else {
			r.Count("impl:reject")
		}
		r.Model(parseCmd("go", 0, s), parseObs([]byte(s), 0), map[string]string{"input": s, "stream": stream})
		if r.Evaluations%211 == 0 {
			r.Sample(map[string]interface{}{"input": s, "stream": stream, "accepted": ev != nil})
		}
	}
	c10BudgetedFaults(r)
	c10KindsSweep(r)
	// a returned evaluator can be evaluated without panicking: expressions fitted to typed data (every kind of the universe, boundary
	// literals, all binding modes), besides the corpus on fixed documents below
	ng := 3000
	if r.Tier == "thorough" {
		ng = 120000
	}
	genericCases(r, "fitted", ng, func(c *evalCase) {
		o := c.obs()
		r.Evaluations++
		r.Count("stream:fitted")
		r.Seen("fitted|" + opSig(c.ast) + "|" + kindSig(c.d) + "|" + o)
		if o == "P" {
			r.Violate("evaluate-panics", opSig(c.ast)+"|"+kindSig(c.d), c.desc(), "Evaluate panicked")
		}
		if flt, err := bexpr.CreateFilter(c.expr); err == nil && flt != nil && len(c.opts()) == 0 {
			func() {
				defer func() {
					if p := recover(); p != nil {
						r.Violate("execute-panics", opSig(c.ast)+"|"+kindSig(c.d), c.desc(), fmt.Sprint("Execute panicked on a one-element list of the datum: ", p))
					}
				}()
				flt.Execute([]interface{}{c.d, c.d})
			}()
		}
	})
	parserCorpus(r.Tier, r.Seed, check)
	extra := corpusSizes(r.Tier).malformed * 2
	for i := 0; i < extra; i++ {
		rng = NewRng(mix(r.Seed, strHash("malformed2"), uint64(i)))
		check("malformed", malformed())
	}
}

// budgetTime is the wall-clock allowance of a parse limited to b steps: a fixed part plus a generous microsecond per
// step (a step costs some tens of nanoseconds; the allowance only has to separate "stops at the budget" from "runs on").
func budgetTime(b uint64) time.Duration {
	return 2*time.Second + time.Duration(b)*time.Microsecond
}

// C11: WithMaxExpressions is an exact, monotone budget.
func runC11(r *Run) {
	c11ReusedOptionAndLastBudget(r)
	r.Rule = "inputs: hand corpus, derivations, rendered trees, mutations, malformed strings and nested parentheses (depth 1..9); per input the step count N of the unlimited parse (VerifParse) and budgets {1, 2, N/2, N-1, N, N+1, 2N, geometric sweep}; predicate on the implementation: n >= N or n = 0 gives the unlimited result, 0 < n < N gives the max-expressions error after exactly n+1 steps; CreateEvaluator with WithMaxExpressions agrees; the model is compared on the same (input, budget) pairs; non-trivial = distinct (input, budget)"
	var inputs []string
	seen := map[string]bool{}
	n := 400
	geo := 8
	if r.Tier == "thorough" {
		n, geo = 20000, 22
	}
	parserCorpus("quick", r.Seed, func(stream, s string) {
		if seen[s] || (stream != "hand" && stream != "derive" && stream != "render" && stream != "mutated" && stream != "malformed" && stream != "decorated") {
			return
		}
		seen[s] = true
		inputs = append(inputs, s)
	})
	// keep a deterministic subset
	if len(inputs) > n {
		step := len(inputs) / n
		var sub []string
		for i := 0; i < len(inputs) && len(sub) < n; i += step {
			sub = append(sub, inputs[i])
		}
		inputs = append(handCorpus[:0:0], sub...)
		for _, s := range handCorpus {
			inputs = append(inputs, s)
		}
	}
	maxd := 7
	if r.Tier == "thorough" {
		maxd = 9
	}
	for d := 1; d <= maxd; d++ {
		inputs = append(inputs, strings.Repeat("(", d)+"a==1"+strings.Repeat(")", d))
		inputs = append(inputs, strings.Repeat("( ", d)+"a == 1 and b == 2"+strings.Repeat(" )", d))
	}
	for _, k := range []int{9, 10, 11, 14} { // many distinct recorded errors before the end of the input
		var t1, t2, t3 []string
		for i := 0; i < k; i++ {
			t1 = append(t1, fmt.Sprintf(`f%d == "\q"`, i))
			t2 = append(t2, fmt.Sprintf(`"/f%d~2" == 1`, i))
			t3 = append(t3, fmt.Sprintf("f%d == %dx", i, i))
		}
		inputs = append(inputs, strings.Join(t1, " and "), strings.Join(t2, " or "), strings.Join(t3, " and "))
	}
	for _, deco := range decorations {
		inputs = append(inputs, deco+"a == 1", deco+"a ==", deco+strings.Repeat("(", maxd)+"a == 1"+strings.Repeat(")", maxd), "a == 1"+deco)
	}
	for _, k := range []int{300, 450} {
		key := strings.Repeat("\U00020000", k)
		inputs = append(inputs, `"/`+key+`" == 1`, `"/`+key+`" == 1 and b == 2 or c == 3`, `a == 1 or "/`+key+`" == 1`, "a == `"+strings.Repeat("é", 2*k)+"`", "a == 1 "+strings.Repeat("#", 10*k))
	}
	// every budget below N on a few inputs, each followed by an unlimited parse of other texts: what an aborted parse leaves
	// behind must not show in the next result (verdict, step count and the text of the syntax error)
	{
		probes := []string{`name == "web" and`, "a == 1", "a ==", `x == "\q"`, "any a as x { x == 1", "((a == 1)"}
		pristine := map[string]string{}
		for _, p := range probes {
			pristine[p] = parseObs([]byte(p), 0) + " | " + parseErrText([]byte(p), 0)
		}
		for _, s := range []string{`name == "web" and port != 80`, "not a == `r` or ( b.c[\"d\"] in x )", `any m as k, v { v matches "^a" and "/p/q" is empty }`, "a == 1.5 and b != -2 and c is not empty", `x == "\q" and y == "\q"`} {
			var N uint64
			fmt.Sscanf(parseObs([]byte(s), 0)[2:], "%d", &N)
			for b := uint64(1); b < N; b++ {
				o := parseObs([]byte(s), b)
				r.Evaluations++
				if want := fmt.Sprintf("R %d 1", b+1); o != want {
					r.Violate("small-budget-not-exact", fmt.Sprintf("sweep|%s|%d", s, b), map[string]interface{}{"input": s, "N": N, "budget": b}, "expected "+want+" got "+truncate(o, 120))
				}
				p := probes[int(b)%len(probes)]
				if got := parseObs([]byte(p), 0) + " | " + parseErrText([]byte(p), 0); got != pristine[p] {
					r.Violate("aborted-parse-leaves-state", "sweep-state|"+s, map[string]interface{}{"aborted_input": s, "budget": b, "next_input": p}, "after the aborted parse: "+truncate(got, 200)+"; before: "+truncate(pristine[p], 200))
				}
			}
			r.Seen("sweep|" + s)
		}
	}
	// nesting so deep that the unlimited parse is out of reach: every practical budget must stop it, exactly
	for _, depth := range []int{40, 600, 2500, 5000} {
		s := strings.Repeat("(", depth) + "a == 1" + strings.Repeat(")", depth)
		for _, b := range []uint64{10, 1000, 65536, 1 << 20} {
			t0 := time.Now()
			o := parseObs([]byte(s), b)
			r.Evaluations++
			r.Seen(fmt.Sprintf("deep|%d|%d", depth, b))
			c := map[string]interface{}{"input": fmt.Sprintf("%d opening parentheses, a == 1, %d closing ones", depth, depth), "budget": b}
			if want := fmt.Sprintf("R %d 1", b+1); o != want {
				r.Violate("small-budget-not-exact", fmt.Sprintf("deep|%d|%d", depth, b), c, "expected "+want+" got "+truncate(o, 120))
			}
			if _, err := bexpr.CreateEvaluator(s, bexpr.WithMaxExpressions(b)); err == nil || !strings.Contains(err.Error(), "max number of expresssions parsed") {
				r.Violate("option-small-budget", fmt.Sprintf("deep-option|%d|%d", depth, b), c, fmt.Sprintf("CreateEvaluator: err=%v", err))
			}
			if el := time.Since(t0); el > 2*budgetTime(b) {
				r.Violate("budget-not-bounding-time", fmt.Sprintf("deep-time|%d|%d", depth, b), c, el.String())
			}
		}
	}
	// the grammar package's own option, given explicitly: MaxExpressions(0) is "no limit", alone and after another budget; the Option an
	// Option returns restores the previous setting
	for _, s := range []string{"a == 1", "a == 1 and b == 2 or c == 3", "a ==", `x == "\q"`, "((a == 1))", "", "any a as x { x == 1 }"} {
		unl := parseObs([]byte(s), 0)
		for name, opts := range map[string][]grammar.Option{
			"zero": {grammar.MaxExpressions(0)}, "small-then-zero": {grammar.MaxExpressions(3), grammar.MaxExpressions(0)}, "zero-with-other-options": {grammar.AllowInvalidUTF8(false), grammar.MaxExpressions(0), grammar.Recover(true)},
			"maxuint64": {grammar.MaxExpressions(math.MaxUint64)},
		} {
			var got string
			func() {
				defer func() {
					if p := recover(); p != nil {
						got = "PANIC"
					}
				}()
				ast, err, n := grammar.VerifParse("", []byte(s), opts...)
				if err != nil {
					mx := 0
					if strings.Contains(err.Error(), "max number of expresssions parsed") {
						mx = 1
					}
					got = fmt.Sprintf("R %d %d", n, mx)
				} else if e, ok := ast.(grammar.Expression); ok && e != nil {
					var pats []string
					got = fmt.Sprintf("A %d %s", n, sExpr(e, &pats))
				} else {
					got = fmt.Sprintf("A %d NOTEXPR", n)
				}
			}()
			r.Evaluations++
			r.Seen("explicit-option|" + name + "|" + s)
			if got != unl {
				r.Violate("zero-budget-not-unlimited", "explicit|"+name+"|"+s, map[string]interface{}{"input": s, "grammar_options": name}, "with the explicit option(s): "+truncate(got, 160)+"; without: "+truncate(unl, 160))
			}
		}
	}
	// the budget option given more than once: the last one counts, whatever came before
	for _, s := range []string{"a == 1", "a == 1 and b == 2 or c == 3", "a ==", `x == "\q"`} {
		var N uint64
		fmt.Sscanf(parseObs([]byte(s), 0)[2:], "%d", &N)
		_, e0 := bexpr.CreateEvaluator(s)
		for _, seq := range [][]uint64{{3, 0}, {3, N}, {3, 1 << 40}, {1, 2, 0}, {N, 3}, {0, 3}, {1 << 40, 3, N + 1}, {3, math.MaxUint64}, {3, 3, 0}} {
			var opts []bexpr.Option
			for _, b := range seq {
				opts = append(opts, bexpr.WithMaxExpressions(b))
			}
			_, err := bexpr.CreateEvaluator(s, opts...)
			last := seq[len(seq)-1]
			r.Evaluations++
			r.Seen(fmt.Sprintf("repeated-budget|%s|%v", s, seq))
			c := map[string]interface{}{"input": s, "budgets_in_order": seq, "N": N}
			if last == 0 || last >= N {
				if (err == nil) != (e0 == nil) || (err != nil && err.Error() != e0.Error()) {
					r.Violate("option-large-budget", fmt.Sprintf("repeated-budget|%s|%v", s, seq), c, fmt.Sprintf("the last budget suffices, yet: %v (without any budget: %v)", err, e0))
				}
			} else if err == nil || !strings.Contains(err.Error(), "max number of expresssions parsed") {
				r.Violate("option-small-budget", fmt.Sprintf("repeated-budget|%s|%v", s, seq), c, fmt.Sprintf("the last budget is too small, yet: %v", err))
			}
		}
	}
	for _, s := range inputs {
		unl := parseObs([]byte(s), 0)
		unlText := parseErrText([]byte(s), 0)
		var N uint64
		fmt.Sscanf(unl[2:], "%d", &N)
		budgets := []uint64{1, 2, N / 2, N - 1, N, N + 1, 2 * N, uint64(len(s)) - 1, uint64(len(s)), uint64(len(s)) + 1, (N + uint64(len(s))) / 2}
		for k := 0; k < geo; k++ {
			budgets = append(budgets, uint64(1)<<uint(2*k+1))
		}
		c := map[string]interface{}{"input": s, "input_hex": hx(s), "N": N}
		for _, b := range budgets {
			if b == 0 {
				continue
			}
			key := fmt.Sprintf("%s|%d", s, b)
			if r.Distinct[key] > 0 {
				continue
			}
			r.Seen(key)
			r.Evaluations++
			t0 := time.Now()
			o := parseObs([]byte(s), b)
			el := time.Since(t0)
			c2 := map[string]interface{}{"input": s, "input_hex": hx(s), "N": N, "budget": b}
			if b >= N {
				r.Count("budget>=N")
				if o != unl {
					r.Violate("large-budget-changes-result", key, c2, "unlimited: "+truncate(unl, 120)+" limited: "+truncate(o, 120))
				}
				if t := parseErrText([]byte(s), b); t != unlText {
					r.Violate("large-budget-changes-result", key+"|text", c2, "syntax error of the unlimited parse: "+truncate(unlText, 200)+"; limited: "+truncate(t, 200))
				}
			} else {
				r.Count("budget<N")
				want := fmt.Sprintf("R %d 1", b+1)
				if o != want {
					r.Violate("small-budget-not-exact", key, c2, "expected "+want+" got "+truncate(o, 120))
				}
				if el > budgetTime(b) {
					r.Violate("budget-not-bounding-time", key, c2, el.String())
				}
			}
			// public API
			t1 := time.Now()
			_, err := bexpr.CreateEvaluator(s, bexpr.WithMaxExpressions(b))
			if el1 := time.Since(t1); b < N && el1 > budgetTime(b) {
				r.Violate("budget-not-bounding-time", key, c2, "CreateEvaluator: "+el1.String())
			}
			_, err0 := bexpr.CreateEvaluator(s)
			if b >= N && (err == nil) != (err0 == nil) {
				r.Violate("option-large-budget", key, c2, "CreateEvaluator with a sufficient budget differs from no budget")
			}
			if b < N && (err == nil || !strings.Contains(err.Error(), "max number of expresssions parsed")) {
				r.Violate("option-small-budget", key, c2, fmt.Sprintf("CreateEvaluator under budget %d < N=%d: err=%v", b, N, err))
			}
			r.Model(parseCmd("go", b, s), o, c2)
		}
		// the unlimited result is the same after the limited parses of this input
		if o := parseObs([]byte(s), 0); o != unl || parseErrText([]byte(s), 0) != unlText {
			r.Violate("aborted-parse-leaves-state", s, c, "the unlimited parse repeated after the limited ones: "+truncate(o, 120)+" / "+truncate(parseErrText([]byte(s), 0), 160))
		}
		// budget 0 = unlimited through the public option
		_, e0 := bexpr.CreateEvaluator(s, bexpr.WithMaxExpressions(0))
		_, e1 := bexpr.CreateEvaluator(s)
		if (e0 == nil) != (e1 == nil) {
			r.Violate("zero-budget", s, c, "WithMaxExpressions(0) differs from no option")
		}
		r.Model(parseCmd("go", 0, s), unl, c)
		if len(r.Samples) < 8 && N > 600 {
			r.Sample(c)
		}
	}
}
