package main

import (
	"encoding/json"
	"reflect"
)

// The static type universe. reflect cannot create named types, unexported fields or tags on
// unexported fields, so the struct and named types are declared here and closed under
// pointer/slice/array/map constructors at generation time.

type NInt int
type NI8 int8
type NU16 uint16
type NStr string
type NBool bool
type NF64 float64
type NF32 float32

type S1 struct {
	A int
	B string `bexpr:"bee" alt:"B2"`
	H string `bexpr:"-"`
	u int
	P *int
	I interface{}
	M map[string]int
	L []string
	N NStr `alt:"enn"`
}

type S2 struct {
	X      S1
	PX     *S1
	LS     []S1
	MS     map[string]S1
	Tagged int    `bexpr:"A"`
	A      string `bexpr:"-"`
	hidden S1
}

type S3 struct {
	F32  float32
	F64  float64
	U8   uint8
	U64  uint64
	I8   int8
	I64  int64
	Bo   bool
	JN   json.Number
	By   []byte
	Ch   chan int
	Fn   func()
	Cx   complex128
	UP   uintptr
	Arr  [2]int
	PArr *[2]int
	PP   **int
	MI   map[int]string
	MNS  map[NStr]int
	MIf  map[interface{}]interface{}
	LI   []interface{}
	LP   []*int
	MB   map[bool]int
	MF   map[float64]int
	NI   NInt
	NB   NBool
	NF   NF64
	NS   NStr
	LNS  []NStr
	LF   []float32
	LB   []bool
	LU   []uint16
	MSS  map[string][]string
	MSI  map[string]interface{}
}

type Emb struct{ E int }
type S4 struct {
	Emb
	Z   string `bexpr:"z,omitempty"`
	Bad int    `bexpr:"a|b"`
	Y   int
}

// S5/S5b: hidden and unexported fields of every shape, for the non-interference property (C08).
// (The model's type universe has no recursive types, so the nesting is spelled out.)
type S5b struct {
	V    int
	Name string
	Sec  string `bexpr:"-"`
	SecL []int  `bexpr:"-" alt:"secl"`
	priv string
	Ren  string `bexpr:"renamed" alt:"-"`
}

type S5 struct {
	V    int
	Name string
	Sec  string            `bexpr:"-"`
	SecM map[string]string `bexpr:"-"`
	SecL []int             `bexpr:"-" alt:"secl"`
	priv string
	pm   map[string]int
	In   *S5b
	Kids []S5b
	ByK  map[string]S5b
	Ren  string `bexpr:"renamed" alt:"-"`
	SecS S5b    `bexpr:"-"`
	ps   S5b
}

// Wrap is what the "unwrap" value-transformation hook replaces by its field (C18).
type Wrap struct{ V interface{} }

// S6 holds wrapped values.
type S6 struct {
	W  Wrap
	WL []Wrap
	WM map[string]Wrap
	A  int
}

// named element / container types (reflect distinguishes them from their underlying types)
type Octet uint8
type Octets []Octet
type NBytes []byte
type NStrMap map[string]string

// S7: a map and a list reached only through a field renamed by the tag (C05: absent keys below a renamed field)
type S7 struct {
	Labels map[string]string `bexpr:"labels" alt:"lab"`
	Items  []S1              `bexpr:"items"`
	W      Wrap
	Oc     []Octet
	NB     NBytes
	Meta   NStrMap `bexpr:"meta"`
}

// S8: an exported embedded struct hidden as a whole (tagged "-" under both tag names)
type Creds struct {
	Token string
	Level int
}
type S8acc struct {
	ID    int
	Creds `bexpr:"-" alt:"-"`
}
type S8 struct {
	Name     string
	Creds    `bexpr:"-" alt:"-"`
	Accounts []S8acc
	ByName   map[string]S8acc
}

var structTypes = []reflect.Type{reflect.TypeOf(S1{}), reflect.TypeOf(S2{}), reflect.TypeOf(S3{}), reflect.TypeOf(S4{}), reflect.TypeOf(S5{}), reflect.TypeOf(S6{}), reflect.TypeOf(S7{}), reflect.TypeOf(S9{}), reflect.TypeOf(S10{}), reflect.TypeOf(S11{})}

var ifaceT = reflect.TypeOf((*interface{})(nil)).Elem()
var strT = reflect.TypeOf("")
var jsonNumT = reflect.TypeOf(json.Number(""))
