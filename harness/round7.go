package main

import (
	"fmt"
	"reflect"
	"strings"

	bexpr "github.com/hashicorp/go-bexpr"
)

// Families added after the eleventh round of seeded changes ("a library call that is almost the right one").

// ---------- C05: keys holding "/" or "~" under a value binding: the alias names the entry, whatever the key is ----------

func c05EscapyKeys(r *Run) {
	labels := map[string]interface{}{"app.kubernetes.io/name": "web", "team/core": "web", "a~b": "web", "~": "web", "/": "web", "~1": "web", "plain": "web"}
	owners := map[string]interface{}{"team/core": map[string]interface{}{"name": "x"}, "a~0b": map[string]interface{}{"name": "x"}, "p": map[string]interface{}{"name": "x"}}
	typed := map[string]string{"x/y": "web", "t~u": "web"}
	d := map[string]interface{}{"labels": labels, "owners": owners, "typed": typed}
	cases := []struct {
		e, want string
		unk     interface{}
		unkSet  bool
	}{
		{`all labels as _, v { v == "web" }`, "T", nil, false},
		{`any labels as _, v { v != "web" }`, "F", nil, false},
		{`all labels as k, v { v == "web" and k is not empty }`, "T", nil, false},
		{`all typed as _, v { v == "web" }`, "T", nil, false},
		{`any typed as k, v { v matches "^w" and k == "x/y" }`, "T", nil, false},
		{`all owners as _, o { o.backup is empty }`, "T", nil, false},
		{`any owners as _, o { o.backup == x }`, "F", nil, false},
		{`all owners as _, o { o.name == x }`, "T", nil, false},
		{`all owners as k, o { o.name == x and o.backup != x }`, "T", nil, false},
		{`any labels as _, v { v == "none" }`, "F", "none", true},
		{`all owners as _, o { o.name == x }`, "T", "none", true},
		{`any owners as _, o { o.backup == "none" }`, "T", "none", true},
		{`all typed as _, v { v != "none" }`, "T", "none", true},
	}
	for _, c := range cases {
		ec := evalCase{expr: c.e, d: d, tag: "bexpr", unk: c.unk, unkSet: c.unkSet}
		o := classOf(ec.obs())
		r.Evaluations++
		r.Seen("escapy-keys|" + c.e + "|" + o)
		if o != c.want {
			kind := "absent-leaf-table"
			if c.unkSet {
				kind = "unknown-value-substitution"
			}
			r.Violate(kind, "escapy-keys|"+c.e, ec.desc(), "keys holding / or ~ under a value binding: expected "+c.want+" got "+o)
		}
	}
}

// ---------- C07: JSON-Pointer parts "." and ".." are keys like any other ----------

func c07DotSegments(r *Run) {
	d := map[string]interface{}{"entries": map[string]interface{}{".": map[string]interface{}{"mode": 1, "..": 4}, "..": map[string]interface{}{"mode": 2}, "mode": 3, "a..b": 5, "...": []interface{}{1}}, "mode": 9, "l": []interface{}{1}}
	pairs := [][]string{
		{`entries["."].mode`, `"/entries/./mode"`}, {`entries[".."].mode`, `"/entries/../mode"`}, {`entries.mode`, `"/entries/mode"`},
		{`entries["."][".."]`, `"/entries/./.."`}, {`entries["a..b"]`, `"/entries/a..b"`}, {`entries["..."]`, `"/entries/..."`}, {`entries["."].nope`, `"/entries/./nope"`},
		{`entries[".."]["."]`, `"/entries/../."`},
	}
	for _, tpl := range []string{"%s == 1", "%s != 2", "%s == 3", "%s is empty", "1 in %s", "any %s as x { x == 1 }", "all %s as k { k == mode }", "any l as x { %s == 4 }"} {
		for _, p := range pairs {
			var outs []string
			for _, sp := range p {
				e := fmt.Sprintf(tpl, sp)
				outs = append(outs, exprObs(e, d))
				r.Evaluations++
			}
			r.Seen("dot-segments|" + tpl + "|" + p[0] + "|" + outs[0])
			if outs[0] != outs[1] {
				r.Violate("spelling-outcome", "dot-segments|"+tpl+"|"+p[0], map[string]interface{}{"expression": fmt.Sprintf(tpl, p[1]), "expression_b": fmt.Sprintf(tpl, p[0]), "datum": describe(d)}, "bracket spelling "+outs[0]+", JSON-Pointer spelling "+outs[1])
			}
		}
	}
}

// ---------- C08: rows equal on their visible fields, whatever the hidden fields hold (nothing, strings, maps, slices, counters) ----------

// HidRow has hidden fields of interface type: what they hold need not be comparable.
type HidRow struct {
	Service string
	Port    int
	Meta    interface{} `bexpr:"-" alt:"-"`
	origin  interface{}
}

func c08HiddenRows(r *Run) {
	base := []HidRow{{Service: "db", Port: 5432}, {Service: "web", Port: 8080}, {Service: "web", Port: 8080}, {Service: "web", Port: 22}, {}, {}, {Service: "", Port: 0}, {Service: "web", Port: 8080}}
	fill := map[string]func(i int) (interface{}, interface{}){
		"same-strings":   func(i int) (interface{}, interface{}) { return "rack-7", "cat" },
		"maps":           func(i int) (interface{}, interface{}) { return map[string]string{"rack": "7"}, nil },
		"slices":         func(i int) (interface{}, interface{}) { return nil, []string{"catalog"} },
		"counters":       func(i int) (interface{}, interface{}) { return i, -i },
		"funcs":          func(i int) (interface{}, interface{}) { return func() {}, nil },
		"every-other":    func(i int) (interface{}, interface{}) { return []interface{}{nil, "x"}[i%2], nil },
		"nested-hidden":  func(i int) (interface{}, interface{}) { return HidRow{Meta: []int{i}}, &HidRow{origin: map[string]int{}} },
		"only-zero-rows": func(i int) (interface{}, interface{}) { return []interface{}{nil, nil, nil, nil, "set", 7, []int{1}, nil}[i%8], nil },
	}
	with := func(name string) []HidRow {
		rows := append([]HidRow(nil), base...)
		for i := range rows {
			rows[i].Meta, rows[i].origin = fill[name](i)
		}
		return rows
	}
	exprs := []string{`Service == "web" and Port != 22`, "Port == 0", "Service is empty", `Service != "db"`, "Port != 8080 or Service is empty", `not Service matches "^w"`, "Meta is empty", "origin == 1"}
	for _, tag := range []string{"bexpr", "alt"} {
		for _, e := range exprs {
			flt, err := bexpr.CreateFilter(e) // a Filter takes no options: the default tag name throughout
			ev, err2 := bexpr.CreateEvaluator(e, bexpr.WithTagName(tag))
			if err != nil || err2 != nil {
				r.Count("hidden-rows:nocreate")
				continue
			}
			wantList := filterKeptRows(flt, base)
			wantArr := filterKeptRows(flt, [8]HidRow{base[0], base[1], base[2], base[3], base[4], base[5], base[6], base[7]})
			wantMap := filterKept(flt, rowMap(base))
			var wantEach []string
			for _, row := range base {
				wantEach = append(wantEach, evalObs(ev, row), evalObs(ev, &row))
			}
			for name := range fill {
				rows := with(name)
				desc := map[string]interface{}{"expression": e, "tag": tag, "datum": "rows " + describe(base), "datum_b": "the same rows with hidden fields filled: " + name}
				var arr [8]HidRow
				copy(arr[:], rows)
				if got := filterKeptRows(flt, rows); got != wantList {
					r.Violate("hidden-field-observable", "hidden-rows|list|"+name+"|"+e, desc, "Filter over the list keeps "+got+"; with the hidden fields unset "+wantList)
				}
				if got := filterKeptRows(flt, arr); got != wantArr {
					r.Violate("hidden-field-observable", "hidden-rows|array|"+name+"|"+e, desc, "Filter over the array keeps "+got+"; with the hidden fields unset "+wantArr)
				}
				if got := filterKept(flt, rowMap(rows)); got != wantMap {
					r.Violate("hidden-field-observable", "hidden-rows|map|"+name+"|"+e, desc, "Filter over the map keeps "+got+"; with the hidden fields unset "+wantMap)
				}
				for i, row := range rows {
					row := row
					if got := evalObs(ev, row); got != wantEach[2*i] {
						r.Violate("hidden-field-observable", fmt.Sprintf("hidden-rows|evaluate|%s|%s|%d", name, e, i), desc, fmt.Sprintf("Evaluate on row %d: %s; with the hidden fields unset %s", i, got, wantEach[2*i]))
					}
					if got := evalObs(ev, &row); got != wantEach[2*i+1] {
						r.Violate("hidden-field-observable", fmt.Sprintf("hidden-rows|evaluate-ptr|%s|%s|%d", name, e, i), desc, fmt.Sprintf("Evaluate on a pointer to row %d: %s; with the hidden fields unset %s", i, got, wantEach[2*i+1]))
					}
				}
				r.Evaluations += 3 + 2*len(rows)
				r.Seen("hidden-rows|" + tag + "|" + e + "|" + name + "|" + wantList)
			}
		}
	}
}

func rowMap(rows []HidRow) map[string]HidRow {
	m := map[string]HidRow{}
	for i, row := range rows {
		m[fmt.Sprintf("k%d", i)] = row
	}
	return m
}

// filterKeptRows renders the positions Execute keeps, matching kept rows to input rows on their visible fields only
// (hidden fields may hold values reflect.DeepEqual treats as unequal to themselves, such as funcs).
func filterKeptRows(f *bexpr.Filter, data interface{}) (out string) {
	enter("Execute", "(a filter)", data)
	defer leave()
	defer func() {
		if p := recover(); p != nil {
			out = "panic"
		}
	}()
	res, err := f.Execute(data)
	if err != nil {
		return "err"
	}
	rv, in := reflect.ValueOf(res), reflect.ValueOf(data)
	if rv.Kind() != reflect.Slice {
		return "other:" + rv.Kind().String()
	}
	var pos []string
	j := 0
	for i := 0; i < in.Len() && j < rv.Len(); i++ {
		a, b := in.Index(i).Interface().(HidRow), rv.Index(j).Interface().(HidRow)
		if a.Service == b.Service && a.Port == b.Port {
			pos = append(pos, fmt.Sprint(i))
			j++
		}
	}
	if j != rv.Len() {
		return "kept-elements-not-a-subsequence"
	}
	return "n=" + fmt.Sprint(rv.Len()) + " pos:" + strings.Join(pos, ",")
}
