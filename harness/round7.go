package main

import (
	"fmt"
	"reflect"
	"strings"

	bexpr "github.com/hashicorp/go-bexpr"
	"github.com/hashicorp/go-bexpr/grammar"
)

// Families added after the eleventh round of seeded changes ("a library call that is almost the right one").

// ---------- C05: keys holding "/" or "~" under a value binding: the alias names the entry, whatever the key is ----------

func c05EscapyKeys(r *Run) {
	labels := map[string]interface{}{"app.kubernetes.io/name": "web", "team/core": "web", "a~b": "web", "~": "web", "/": "web", "~1": "web", "plain": "web"}
	owners := map[string]interface{}{"team/core": map[string]interface{}{"name": "x"}, "a~0b": map[string]interface{}{"name": "x"}, "p": map[string]interface{}{"name": "x"}}
	typed := map[string]string{"x/y": "web", "t~u": "web"}
	d := map[string]interface{}{"labels": labels, "owners": owners, "typed": typed}
	cases := []struct {
		e, want string
		unk     interface{}
		unkSet  bool
	}{
		{`all labels as _, v { v == "web" }`, "T", nil, false},
		{`any labels as _, v { v != "web" }`, "F", nil, false},
		{`all labels as k, v { v == "web" and k is not empty }`, "T", nil, false},
		{`all typed as _, v { v == "web" }`, "T", nil, false},
		{`any typed as k, v { v matches "^w" and k == "x/y" }`, "T", nil, false},
		{`all owners as _, o { o.backup is empty }`, "T", nil, false},
		{`any owners as _, o { o.backup == x }`, "F", nil, false},
		{`all owners as _, o { o.name == x }`, "T", nil, false},
		{`all owners as k, o { o.name == x and o.backup != x }`, "T", nil, false},
		{`any labels as _, v { v == "none" }`, "F", "none", true},
		{`all owners as _, o { o.name == x }`, "T", "none", true},
		{`any owners as _, o { o.backup == "none" }`, "T", "none", true},
		{`all typed as _, v { v != "none" }`, "T", "none", true},
	}
	for _, c := range cases {
		ec := evalCase{expr: c.e, d: d, tag: "bexpr", unk: c.unk, unkSet: c.unkSet}
		o := classOf(ec.obs())
		r.Evaluations++
		r.Seen("escapy-keys|" + c.e + "|" + o)
		if o != c.want {
			kind := "absent-leaf-table"
			if c.unkSet {
				kind = "unknown-value-substitution"
			}
			r.Violate(kind, "escapy-keys|"+c.e, ec.desc(), "keys holding / or ~ under a value binding: expected "+c.want+" got "+o)
		}
	}
}

// ---------- C07: JSON-Pointer parts "." and ".." are keys like any other ----------

func c07DotSegments(r *Run) {
	d := map[string]interface{}{"entries": map[string]interface{}{".": map[string]interface{}{"mode": 1, "..": 4}, "..": map[string]interface{}{"mode": 2}, "mode": 3, "a..b": 5, "...": []interface{}{1}}, "mode": 9, "l": []interface{}{1}}
	pairs := [][]string{
		{`entries["."].mode`, `"/entries/./mode"`}, {`entries[".."].mode`, `"/entries/../mode"`}, {`entries.mode`, `"/entries/mode"`},
		{`entries["."][".."]`, `"/entries/./.."`}, {`entries["a..b"]`, `"/entries/a..b"`}, {`entries["..."]`, `"/entries/..."`}, {`entries["."].nope`, `"/entries/./nope"`},
		{`entries[".."]["."]`, `"/entries/../."`},
	}
	for _, tpl := range []string{"%s == 1", "%s != 2", "%s == 3", "%s is empty", "1 in %s", "any %s as x { x == 1 }", "all %s as k { k == mode }", "any l as x { %s == 4 }"} {
		for _, p := range pairs {
			var outs []string
			for _, sp := range p {
				e := fmt.Sprintf(tpl, sp)
				outs = append(outs, exprObs(e, d))
				r.Evaluations++
			}
			r.Seen("dot-segments|" + tpl + "|" + p[0] + "|" + outs[0])
			if outs[0] != outs[1] {
				r.Violate("spelling-outcome", "dot-segments|"+tpl+"|"+p[0], map[string]interface{}{"expression": fmt.Sprintf(tpl, p[1]), "expression_b": fmt.Sprintf(tpl, p[0]), "datum": describe(d)}, "bracket spelling "+outs[0]+", JSON-Pointer spelling "+outs[1])
			}
		}
	}
}

// ---------- C08: rows equal on their visible fields, whatever the hidden fields hold (nothing, strings, maps, slices, counters) ----------

// HidRow has hidden fields of interface type: what they hold need not be comparable.
type HidRow struct {
	Service string
	Port    int
	Meta    interface{} `bexpr:"-" alt:"-"`
	origin  interface{}
}

func c08HiddenRows(r *Run) {
	base := []HidRow{{Service: "db", Port: 5432}, {Service: "web", Port: 8080}, {Service: "web", Port: 8080}, {Service: "web", Port: 22}, {}, {}, {Service: "", Port: 0}, {Service: "web", Port: 8080}}
	fill := map[string]func(i int) (interface{}, interface{}){
		"same-strings":   func(i int) (interface{}, interface{}) { return "rack-7", "cat" },
		"maps":           func(i int) (interface{}, interface{}) { return map[string]string{"rack": "7"}, nil },
		"slices":         func(i int) (interface{}, interface{}) { return nil, []string{"catalog"} },
		"counters":       func(i int) (interface{}, interface{}) { return i, -i },
		"funcs":          func(i int) (interface{}, interface{}) { return func() {}, nil },
		"every-other":    func(i int) (interface{}, interface{}) { return []interface{}{nil, "x"}[i%2], nil },
		"nested-hidden":  func(i int) (interface{}, interface{}) { return HidRow{Meta: []int{i}}, &HidRow{origin: map[string]int{}} },
		"only-zero-rows": func(i int) (interface{}, interface{}) { return []interface{}{nil, nil, nil, nil, "set", 7, []int{1}, nil}[i%8], nil },
	}
	with := func(name string) []HidRow {
		rows := append([]HidRow(nil), base...)
		for i := range rows {
			rows[i].Meta, rows[i].origin = fill[name](i)
		}
		return rows
	}
	exprs := []string{`Service == "web" and Port != 22`, "Port == 0", "Service is empty", `Service != "db"`, "Port != 8080 or Service is empty", `not Service matches "^w"`, "Meta is empty", "origin == 1"}
	for _, tag := range []string{"bexpr", "alt"} {
		for _, e := range exprs {
			flt, err := bexpr.CreateFilter(e) // a Filter takes no options: the default tag name throughout
			ev, err2 := bexpr.CreateEvaluator(e, bexpr.WithTagName(tag))
			if err != nil || err2 != nil {
				r.Count("hidden-rows:nocreate")
				continue
			}
			wantList := filterKeptRows(flt, base)
			wantArr := filterKeptRows(flt, [8]HidRow{base[0], base[1], base[2], base[3], base[4], base[5], base[6], base[7]})
			wantMap := filterKept(flt, rowMap(base))
			var wantEach []string
			for _, row := range base {
				wantEach = append(wantEach, evalObs(ev, row), evalObs(ev, &row))
			}
			for name := range fill {
				rows := with(name)
				desc := map[string]interface{}{"expression": e, "tag": tag, "datum": "rows " + describe(base), "datum_b": "the same rows with hidden fields filled: " + name}
				var arr [8]HidRow
				copy(arr[:], rows)
				if got := filterKeptRows(flt, rows); got != wantList {
					r.Violate("hidden-field-observable", "hidden-rows|list|"+name+"|"+e, desc, "Filter over the list keeps "+got+"; with the hidden fields unset "+wantList)
				}
				if got := filterKeptRows(flt, arr); got != wantArr {
					r.Violate("hidden-field-observable", "hidden-rows|array|"+name+"|"+e, desc, "Filter over the array keeps "+got+"; with the hidden fields unset "+wantArr)
				}
				if got := filterKept(flt, rowMap(rows)); got != wantMap {
					r.Violate("hidden-field-observable", "hidden-rows|map|"+name+"|"+e, desc, "Filter over the map keeps "+got+"; with the hidden fields unset "+wantMap)
				}
				for i, row := range rows {
					row := row
					if got := evalObs(ev, row); got != wantEach[2*i] {
						r.Violate("hidden-field-observable", fmt.Sprintf("hidden-rows|evaluate|%s|%s|%d", name, e, i), desc, fmt.Sprintf("Evaluate on row %d: %s; with the hidden fields unset %s", i, got, wantEach[2*i]))
					}
					if got := evalObs(ev, &row); got != wantEach[2*i+1] {
						r.Violate("hidden-field-observable", fmt.Sprintf("hidden-rows|evaluate-ptr|%s|%s|%d", name, e, i), desc, fmt.Sprintf("Evaluate on a pointer to row %d: %s; with the hidden fields unset %s", i, got, wantEach[2*i+1]))
					}
				}
				r.Evaluations += 3 + 2*len(rows)
				r.Seen("hidden-rows|" + tag + "|" + e + "|" + name + "|" + wantList)
			}
		}
	}
}

func rowMap(rows []HidRow) map[string]HidRow {
	m := map[string]HidRow{}
	for i, row := range rows {
		m[fmt.Sprintf("k%d", i)] = row
	}
	return m
}

// filterKeptRows renders the positions Execute keeps, matching kept rows to input rows on their visible fields only
// (hidden fields may hold values reflect.DeepEqual treats as unequal to themselves, such as funcs).
func filterKeptRows(f *bexpr.Filter, data interface{}) (out string) {
	enter("Execute", "(a filter)", data)
	defer leave()
	defer func() {
		if p := recover(); p != nil {
			out = "panic"
		}
	}()
	res, err := f.Execute(data)
	if err != nil {
		return "err"
	}
	rv, in := reflect.ValueOf(res), reflect.ValueOf(data)
	if rv.Kind() != reflect.Slice {
		return "other:" + rv.Kind().String()
	}
	var pos []string
	j := 0
	for i := 0; i < in.Len() && j < rv.Len(); i++ {
		a, b := in.Index(i).Interface().(HidRow), rv.Index(j).Interface().(HidRow)
		if a.Service == b.Service && a.Port == b.Port {
			pos = append(pos, fmt.Sprint(i))
			j++
		}
	}
	if j != rv.Len() {
		return "kept-elements-not-a-subsequence"
	}
	return "n=" + fmt.Sprint(rv.Len()) + " pos:" + strings.Join(pos, ",")
}

// ---------- Families added after the twelfth round ("routine upkeep": regressions of earlier repairs, modernisation, simplification, error paths) ----------

// C08: arrays whose rows are zero in every visible field, hidden fields unset or set
func c08ZeroArrays(r *Run) {
	blank := [3]HidRow{}
	filled := [3]HidRow{{Meta: 1}, {origin: "x"}, {Meta: []int{1}, origin: map[string]int{}}}
	for _, e := range []string{"Port == 0", `Service == "web"`, "Service is empty", "Port != 0"} {
		flt, err := bexpr.CreateFilter(e)
		if err != nil {
			continue
		}
		for _, pair := range [][2]interface{}{{blank, filled}, {blank[:], filled[:]}, {&blank, &filled}, {map[string]HidRow{"a": blank[0]}, map[string]HidRow{"a": filled[0]}}} {
			var a, b string
			if _, isMap := pair[0].(map[string]HidRow); isMap {
				a, b = filterKept(flt, pair[0]), filterKept(flt, pair[1])
			} else {
				a, b = filterKeptRows(flt, pair[0]), filterKeptRows(flt, pair[1])
			}
			r.Evaluations += 2
			r.Seen(fmt.Sprintf("zero-arrays|%s|%T|%s", e, pair[0], a))
			if a != b {
				r.Violate("hidden-field-observable", fmt.Sprintf("zero-arrays|%s|%T", e, pair[0]), map[string]interface{}{"expression": e, "datum": describe(pair[0]), "datum_b": "the same rows with hidden fields set"}, "Filter keeps "+a+" with the hidden fields unset and "+b+" with them set")
			}
		}
	}
}

// C11: one grammar option value serves many parses, and the last budget among the options is the budget
func c11ReusedOptionAndLastBudget(r *Run) {
	inputs := []string{"a == 1", "a == 1 and b == 2 or not c == 3", "any xs as x { x == 1 and x != 2 }", "((((a == 1))))", "a == \"\\q\" and b == 1", "a =="}
	for _, s := range inputs {
		_, err0, n := grammar.VerifParse("", []byte(s))
		if n < 4 {
			continue
		}
		for _, budget := range []uint64{uint64(n) / 2, uint64(n) - 1, 1} {
			opt := grammar.MaxExpressions(budget)
			for call := 1; call <= 3; call++ {
				_, err, steps := grammar.VerifParse("", []byte(s), opt)
				r.Evaluations++
				r.Seen(fmt.Sprintf("reused-option|%s|%d|%d", s, budget, call))
				if err == nil || !strings.Contains(err.Error(), "max number of expresssions parsed") {
					r.Violate("budget-not-enforced", fmt.Sprintf("reused-option|%s|%d", s, budget), map[string]interface{}{"input": s, "budget": budget, "N": n, "call": call}, fmt.Sprintf("parse %d with one MaxExpressions(%d) option value (N = %d) did not fail with the max-expressions error: %v", call, budget, n, err))
					break
				}
				if uint64(steps) > budget+1 {
					r.Violate("budget-overrun", fmt.Sprintf("reused-option|%s|%d", s, budget), map[string]interface{}{"input": s, "budget": budget, "N": n, "call": call}, fmt.Sprintf("parse %d executed %d steps under a budget of %d", call, steps, budget))
					break
				}
			}
		}
		// the last WithMaxExpressions of the list is the budget: 0 after m lifts the limit, m after 0 sets it
		m := uint64(n) / 2
		_, errLift := bexpr.CreateEvaluator(s, bexpr.WithMaxExpressions(m), bexpr.WithMaxExpressions(0))
		_, errSet := bexpr.CreateEvaluator(s, bexpr.WithMaxExpressions(0), bexpr.WithMaxExpressions(m))
		_, errBig := bexpr.CreateEvaluator(s, bexpr.WithMaxExpressions(m), bexpr.WithTagName("x"), bexpr.WithMaxExpressions(uint64(n)+5))
		r.Evaluations += 3
		same := func(a, b error) bool { return (a == nil) == (b == nil) && (a == nil || a.Error() == b.Error()) }
		if !same(errLift, err0) {
			r.Violate("threshold", "last-budget|lift|"+s, map[string]interface{}{"input": s, "budgets": fmt.Sprintf("[%d, 0]", m), "N": n}, fmt.Sprintf("[WithMaxExpressions(%d), WithMaxExpressions(0)] should give the unlimited result (%v), got %v", m, err0, errLift))
		}
		if !same(errBig, err0) {
			r.Violate("threshold", "last-budget|raise|"+s, map[string]interface{}{"input": s, "budgets": fmt.Sprintf("[%d, %d]", m, n+5), "N": n}, fmt.Sprintf("a sufficient budget given after an insufficient one should give the unlimited result (%v), got %v", err0, errBig))
		}
		if errSet == nil || !strings.Contains(errSet.Error(), "max number of expresssions parsed") {
			r.Violate("threshold", "last-budget|set|"+s, map[string]interface{}{"input": s, "budgets": fmt.Sprintf("[0, %d]", m), "N": n}, fmt.Sprintf("[WithMaxExpressions(0), WithMaxExpressions(%d)] with N = %d should fail with the max-expressions error, got %v", m, n, errSet))
		}
	}
}

// C13: body selectors of three to seven parts that begin with the bound name (the parser leaves spare capacity behind
// such paths), on a top-level collection, called repeatedly on one evaluator; the tree is compared before and after
func c13LongAliasPaths(r *Run) {
	leaf := func(v interface{}) interface{} {
		return map[string]interface{}{"Meta": map[string]interface{}{"Env": v, "Tags": []interface{}{"x", "y"}, "D": map[string]interface{}{"E": map[string]interface{}{"F": map[string]interface{}{"G": v}}}}}
	}
	d1 := map[string]interface{}{"Items": []interface{}{leaf("prod")}, "M": map[string]interface{}{"k": leaf("prod")}}
	d2 := map[string]interface{}{"Items": []interface{}{leaf("dev"), leaf("prod")}, "M": map[string]interface{}{"a": leaf("dev"), "b": leaf("prod")}}
	for _, e := range []string{`any Items as it { it.Meta.Env == "prod" }`, `all Items as it { it.Meta.Env == "prod" }`, `any Items as it { "y" in it.Meta.Tags }`, `any Items as _, it { it.Meta.D.E.F.G == "prod" }`,
		`any M as _, v { v.Meta.Env == "prod" }`, `any M as k, v { v.Meta.D.E == "prod" or v.Meta.D.E.F.G == "prod" }`, `any Items as it { it.Meta.D.E.F == 1 or it.Meta.Env == "prod" }`} {
		ev, err := bexpr.CreateEvaluator(e)
		if err != nil {
			r.Count("long-alias:nocreate")
			continue
		}
		tree0 := treeSnapshot(ev.VerifAST())
		for k, datum := range []interface{}{d1, d1, d2, d1, d2, d2} {
			got := evalObs(ev, datum)
			fresh := exprObsOnce(e, datum)
			r.Evaluations += 2
			r.Seen(fmt.Sprintf("long-alias|%s|%d|%s", e, k, got))
			if got != fresh {
				r.Violate("history-dependent", "long-alias|"+e, map[string]interface{}{"expression": e, "datum": describe(datum), "call": k + 1}, fmt.Sprintf("call %d on a used evaluator: %s, on a fresh one: %s", k+1, got, fresh))
				break
			}
		}
		if treeSnapshot(ev.VerifAST()) != tree0 {
			r.Violate("tree-modified", "long-alias|"+e, map[string]interface{}{"expression": e}, "the evaluator's syntax tree changed during Evaluate")
		}
	}
}

// C15: a blank of the language is any of space, tab, CR, LF wherever a blank may stand: replacing the spaces of an accepted
// text that holds no quoted or raw literal by another blank keeps it accepted, with the same tree
func c15BlankKinds(r *Run) {
	texts := []string{"foo == 1", "foo == 1 and bar == 2", "foo == -1.5 or bar != 2", "not foo == 1", "( foo == 1 )", "any xs as x { x == 1 }", "all xs as i, x { x != 2 and i == 0 }", "1 in xs", "xs contains 2.5", "foo is empty", "foo is not empty",
		"a.b.0 == 7 and ( c == 8 )", "foo not in bar", "foo matches bar", "foo == 1 or ( bar == 2 and baz == 3 )"}
	tree := func(o string) string {
		if !strings.HasPrefix(o, "A ") {
			return o
		}
		parts := strings.SplitN(o, " ", 3)
		if len(parts) < 3 {
			return o
		}
		return "A " + parts[2]
	}
	for _, s := range texts {
		want := tree(parseObs([]byte(s), 0))
		if !strings.HasPrefix(want, "A ") {
			r.Violate("blank-kind", "plain|"+s, map[string]string{"input": s}, "a text of the language written with single spaces is refused: "+want)
			continue
		}
		for _, b := range []string{"\t", "\n", "\r", "\r\n", "  ", " \r", "\n\t "} {
			for _, ends := range []bool{false, true} {
				t := strings.ReplaceAll(s, " ", b)
				if ends {
					t = b + t + b
				}
				got := tree(parseObs([]byte(t), 0))
				r.Evaluations++
				r.Seen(fmt.Sprintf("blank-kinds|%s|%q|%v", s, b, ends))
				if got != want {
					r.Violate("blank-kind", fmt.Sprintf("%s|%q", s, b), map[string]string{"input": t, "input_hex": hx(t), "with_spaces": s}, "with single spaces: "+truncate(want, 160)+"; with this blank: "+truncate(got, 160))
				}
				if _, err := bexpr.CreateEvaluator(t); err != nil {
					r.Violate("create-evaluator-verdict", fmt.Sprintf("blank-kinds|%s|%q", s, b), map[string]string{"input": t, "input_hex": hx(t)}, "CreateEvaluator refuses a text of the language: "+err.Error())
				}
			}
		}
	}
}

// C14: string-keyed maps of every static type (plain, named, with struct values holding interface fields), some entries
// decisive and others failing: the outcome is the one the sorted key order gives, call after call
type NIfaceMap map[string]interface{}
type CheckT struct {
	V interface{}
	N int
}

func c14TypedMaps(r *Run, reps int) {
	plain := map[string]interface{}{"m": map[string]interface{}{"a": map[string]interface{}{"V": 1}, "b": map[string]interface{}{"V": []int{1}}, "c": map[string]interface{}{"V": 1}}}
	shapes := []struct {
		name string
		d    interface{}
	}{
		{"named-map", map[string]interface{}{"m": NIfaceMap{"a": map[string]interface{}{"V": 1}, "b": map[string]interface{}{"V": []int{1}}, "c": map[string]interface{}{"V": 1}}}},
		{"struct-values", map[string]interface{}{"m": map[string]CheckT{"a": {V: 1}, "b": {V: []int{1}}, "c": {V: 1}}}},
		{"ptr-struct-values", map[string]interface{}{"m": map[string]*CheckT{"a": {V: 1}, "b": {V: []int{1}}, "c": {V: 1}}}},
		{"named-in-struct", struct{ m NIfaceMap }{}}, // unexported: never reached, an error whatever the order
		{"in-struct", struct{ M map[string]CheckT }{M: map[string]CheckT{"a": {V: 1}, "b": {V: []int{1}}, "c": {V: 1}}}},
	}
	for _, e := range []string{"any m as _, c { c.V == 1 }", "all m as _, c { c.V != 1 }", "any m as k, c { k == c and c.V == 1 }", "all m as k, c { c.V == 1 or k == zz }"} {
		want := exprObsOnce(e, plain)
		for _, sh := range shapes {
			ex := e
			if sh.name == "in-struct" {
				ex = strings.Replace(e, " m as", " M as", 1)
			}
			first := ""
			for k := 0; k < reps; k++ {
				got := exprObsOnce(ex, sh.d)
				r.Evaluations++
				if k == 0 {
					first = got
					r.Seen("typed-maps|" + sh.name + "|" + e + "|" + got)
					if sh.name != "named-in-struct" && got != want {
						r.Violate("order-dependent-evaluate", "typed-maps|"+sh.name+"|"+e, map[string]interface{}{"expression": ex, "datum": describe(sh.d)}, "this map gives "+got+"; a map[string]interface{} with the same entries gives "+want)
						break
					}
				}
				if got != first {
					r.Violate("order-dependent-evaluate", "typed-maps|"+sh.name+"|"+e, map[string]interface{}{"expression": ex, "datum": describe(sh.d), "repetition": k + 1}, "the same call gave "+first+" and then "+got)
					break
				}
			}
		}
	}
}

// C14: a value hook that calls back into the SAME evaluator on another datum while a quantifier of the outer call is under way:
// the outer call still returns what it returns without the detour (nothing of a call lives in the evaluator)
func c14ReentrantHook(r *Run) {
	mk := func(keys map[string]interface{}) interface{} {
		return map[string]interface{}{"svc": map[string]interface{}{"node": map[string]interface{}{"meta": keys, "list": []interface{}{keys}}}, "top": keys}
	}
	a := mk(map[string]interface{}{"a": 0, "b": 1, "c": map[string]interface{}{"x": 1}})
	b := mk(map[string]interface{}{"zz": 5, "zy": 6, "zx": 7, "zw": 8})
	for _, e := range []string{"any svc.node.meta as k, v { v == 1 }", "all svc.node.meta as _, v { v != 1 }", "any svc.node.list as i, v { v.b == 1 }", "any svc.node.meta as k { k == b }", "any top as _, v { v == 1 }", "any svc.node.meta as _, v { v.x == 1 or v == 1 }"} {
		plainEv, err := bexpr.CreateEvaluator(e, bexpr.WithHookFn(func(v reflect.Value) reflect.Value { return v }))
		if err != nil {
			r.Count("reentrant:nocreate")
			continue
		}
		want := evalObs(plainEv, a)
		var ev *bexpr.Evaluator
		depth, detours := 0, 0
		hook := func(v reflect.Value) reflect.Value {
			if depth == 0 && detours < 50 {
				depth++
				detours++
				func() {
					defer func() { recover() }()
					ev.Evaluate(b)
				}()
				depth--
			}
			return v
		}
		ev, err = bexpr.CreateEvaluator(e, bexpr.WithHookFn(hook))
		if err != nil {
			continue
		}
		for k := 0; k < 3; k++ {
			detours = 0
			got := evalObs(ev, a)
			r.Evaluations += 2
			r.Seen(fmt.Sprintf("reentrant-hook|%s|%d|%s", e, k, got))
			if got != want {
				r.Violate("order-dependent-evaluate", "reentrant-hook|"+e, map[string]interface{}{"expression": e, "datum": describe(a), "datum_b": describe(b)}, fmt.Sprintf("Evaluate(A) gives %s; with a hook that evaluates B on the same evaluator in between (%d detours) it gives %s", want, detours, got))
				break
			}
		}
	}
}

// C16: `not not e` is `e`, and redundant parentheses change nothing - together: a negation inside parentheses under a negation
func c16NotThroughParens(r *Run) {
	tree := func(s string) string {
		o := parseObs([]byte(s), 0)
		if parts := strings.SplitN(o, " ", 3); strings.HasPrefix(o, "A ") && len(parts) == 3 {
			return parts[2]
		}
		return o
	}
	for _, e := range []string{"foo == 1", "foo is empty", "1 in foo", "any xs as x { x == 1 }", "foo == 1 and bar == 2"} {
		pe := e
		if strings.Contains(e, " and ") || strings.HasPrefix(e, "any ") { // a conjunction or a quantifier is the operand of `not` only inside parentheses
			pe = "(" + e + ")"
		}
		even := []string{"not not " + pe, "not (not " + pe + ")", "not ((not " + pe + "))", "not (not (" + e + "))", "not not not (not " + pe + ")", "not (not not (not " + pe + "))", "( not ( not " + pe + " ) )"}
		odd := []string{"not " + pe, "not (not (not " + pe + "))", "not not (not " + pe + ")", "not (not not " + pe + ")", "(not (not (not (" + e + "))))"}
		wantEven, wantOdd := tree(pe), tree("not "+pe)
		for i, group := range [][]string{even, odd} {
			want := []string{wantEven, wantOdd}[i]
			for _, s := range group {
				got := tree(s)
				r.Evaluations++
				r.Seen("not-through-parens|" + s)
				if got != want {
					r.Violate("tree-fidelity", "not-through-parens|"+s, map[string]interface{}{"input": s}, "parses to "+truncate(got, 200)+"; the same negations written side by side give "+truncate(want, 200))
				}
			}
			for _, and := range []string{" and bar == 2", " or bar == 2"} {
				s := group[1] + and
				if got, want2 := tree(s), tree("("+[]string{pe, "not " + pe}[i]+")"+and); got != want2 {
					r.Violate("tree-fidelity", "not-through-parens|"+s, map[string]interface{}{"input": s}, "parses to "+truncate(got, 200)+"; with the negations cancelled by hand "+truncate(want2, 200))
				}
			}
		}
	}
}
