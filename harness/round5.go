package main

import (
	"encoding/json"
	"fmt"
	"math"
	"reflect"
	"strings"
	"sync"
	"sync/atomic"
	"time"

	bexpr "github.com/hashicorp/go-bexpr"
	"github.com/hashicorp/go-bexpr/grammar"
)

// Families added after the fifth round of seeded changes.

// ---- distinct types that print alike (types declared inside function bodies share one qualified name) ----

func localT1() (interface{}, interface{}) {
	type T int
	type L []T
	return T(1), L{1, 2}
}
func localT2() (interface{}, interface{}) {
	type T string
	type L []T
	return T("1"), L{"1", "2"}
}
func localT3() (interface{}, interface{}) {
	type T float32
	type L []T
	return T(0.1), L{0.1, 1}
}
func localT4() (interface{}, interface{}) {
	type T float64
	type L []T
	return T(0.1), L{0.1, 1}
}
func localT5() (interface{}, interface{}) {
	type T struct{ A int }
	type L []T
	return T{1}, L{{1}}
}
func localT6() (interface{}, interface{}) {
	type T bool
	type L [2]T
	return T(true), L{true, false}
}

// sameNameTypes: evaluations on values of types that are different but have one name, in every order of first contact.
func sameNameTypes(r *Run, direct func(o string, c *evalCase)) {
	mks := []func() (interface{}, interface{}){localT1, localT2, localT3, localT4, localT5, localT6}
	exprs := []string{"V == 1", "V != 1", "V == 0.1", `V == "0x10"`, "V == true", "1 in L", "L contains 0.1", "1 not in L", "true in L", "any L as x { x == 1 }", "V is empty", "L is empty", "V matches `1`", "V.A == 1", "L.0 == 1", "L.0.A == 1"}
	for shift := 0; shift < len(mks); shift++ {
		for k := range mks {
			v, l := mks[(k+shift)%len(mks)]()
			d := map[string]interface{}{"V": v, "L": l}
			for _, e := range exprs {
				c := evalCase{expr: e, d: d, tag: "bexpr"}
				if !c.parse() {
					continue
				}
				o := c.obs()
				r.Evaluations++
				r.Count("stream:same-name-types")
				r.Seen(fmt.Sprintf("same-name|%s|%T|%s", e, v, o))
				if direct != nil {
					direct(o, &c)
				}
				r.Model(c.cmd(), o, c.desc())
			}
		}
	}
}

// ---- paths whose "/"- or "."-joined spellings coincide, used in ONE expression ----

func collidingJoins(r *Run, stream string) {
	d := map[string]interface{}{"m": map[string]interface{}{"b/c": 1, "b": map[string]interface{}{"c": 2}, "x.y": 3, "x": map[string]interface{}{"y": 4}},
		"a/b": 5, "a": map[string]interface{}{"b": 6}, "L": []interface{}{map[string]interface{}{"a/b": 1, "a": map[string]interface{}{"b": 2}}, map[string]interface{}{"a/b": 7, "a": map[string]interface{}{"b": 8}}},
		"k": map[string]interface{}{"v": "nested"}, "k/v": "flat"}
	type docT struct {
		AB  int            `bexpr:"a/b"`
		A   map[string]int `bexpr:"a"`
		Dot int            `bexpr:"x.y"`
		X   map[string]int `bexpr:"x"`
	}
	ds := docT{AB: 5, A: map[string]int{"b": 6}, Dot: 3, X: map[string]int{"y": 4}}
	cases := []struct {
		e    string
		d    interface{}
		want string
	}{
		{`m["b/c"] == 1 and m.b.c == 2`, d, "T"}, {`m.b.c == 2 and m["b/c"] == 1`, d, "T"}, {`m["b/c"] == 2 or m.b.c == 1`, d, "F"}, {`"/m/b~1c" == 1 and "/m/b/c" == 2`, d, "T"}, {`m["x.y"] == 3 and m.x.y == 4`, d, "T"},
		{`a/b == 5 and a.b == 6`, d, "T"}, {`a.b == 6 and a/b == 5`, d, "T"}, {`a/b == 6 or a.b == 5`, d, "F"}, {`"/a~1b" == 5 and "/a/b" == 6`, d, "T"}, {`m["b/zz"] == 1 or m.b.zz == 1`, d, "F"}, {`m["zz/c"] != 1 and m.zz.c != 1`, d, "E"},
		{`m["b/c"] is empty or m.b.c == 2`, d, "E"}, {`all L as x { x.a.b != 99 and x["a/b"] != 99 }`, d, "T"}, {`all L as x { x.a.b == 2 and x["a/b"] == 1 }`, d, "F"}, {`any L as x { x["a/b"] == 1 and x.a.b == 2 }`, d, "T"}, {`any L as x { x.a.b == 1 or x["a/b"] == 2 }`, d, "F"},
		{`any L as i, x { x["a/b"] == 7 and x.a.b == 8 and i == 1 }`, d, "T"}, {`k/v == flat and k.v == nested`, d, "T"}, {`all L as x { k/v == flat and k.v == nested }`, d, "T"},
		{`a/b == 5 and a.b == 6`, ds, "T"}, {`a.b == 6 and a/b == 5`, ds, "T"}, {`a/b == 6 or a.b == 5`, ds, "F"}, {`x.y == 4`, ds, "T"}, {`a/b == 5 and a.b == 6`, &ds, "T"},
	}
	for _, t := range cases {
		for _, unk := range []bool{false, true} {
			c := evalCase{expr: t.e, d: t.d, tag: "bexpr", unkSet: unk, unk: 7}
			if !c.parse() {
				r.Count("generator:unparseable")
				continue
			}
			o := c.obs()
			r.Evaluations++
			r.Count("stream:" + stream)
			r.Seen(stream + "|" + t.e + fmt.Sprint(unk) + "|" + o)
			if !unk && o != t.want {
				r.Violate("colliding-spellings", stream+"|"+t.e, c.desc(), "expected "+t.want+" got "+o)
			}
			r.Model(c.cmd(), o, c.desc())
		}
	}
}

// ---- C10 / C12: the very first parses of the process happen at the same time ----

var coldStartDone int32

// coldStart must be the first use of the library in the process: G goroutines create evaluators and filters for texts that
// together use every rule of the grammar, at the same moment.
func coldStart(r *Run) {
	if !atomic.CompareAndSwapInt32(&coldStartDone, 0, 1) {
		return
	}
	texts := []string{"any Tags as _, v { v == `a` and Meta[\"k\"] != `w` }", `all m as k, _ { k matches "^a" or "/p/q~0" is not empty }`, "not ( a.b.0 in x ) and y not contains -1.5", `"/a/b" == "s t" or c is empty`, "x not matches `z` and 1 not in l",
		"any l as i, v { v == 1 }", "a == 1", `a["k"].b == "\x41é"`, "a == 1 }", "((a == 1", "a == 1x"}
	const G = 16
	var wg sync.WaitGroup
	start := make(chan struct{})
	bad := make([]string, G)
	for g := 0; g < G; g++ {
		wg.Add(1)
		go func(g int) {
			defer wg.Done()
			<-start
			for i := range texts {
				t := texts[(i+g)%len(texts)]
				_, err := bexpr.CreateEvaluator(t)
				_, err2 := grammar.Parse("", []byte(t))
				if (err == nil) != (err2 == nil) {
					bad[g] = t
				}
				bexpr.CreateFilter(t)
			}
		}(g)
	}
	close(start)
	wg.Wait()
	r.Evaluations += G * len(texts)
	r.Seen("cold-start")
	for _, b := range bad {
		if b != "" {
			r.Violate("concurrent-result-differs", "cold-start", map[string]interface{}{"text": b}, "CreateEvaluator and Parse disagree during concurrent first use")
		}
	}
}

// ---- C13: calls that end in a panic of the caller's hook; many calls in flight at once ----

func c13PanickingHooksAndCrowds(r *Run) {
	d := map[string]interface{}{"a": 1, "l": []interface{}{1, 2}}
	for _, e := range []string{"a == 1", "any l as x { x == 2 }", "a == 1 and l is not empty"} {
		boom := int32(1)
		hook := func(v reflect.Value) reflect.Value {
			if atomic.LoadInt32(&boom) == 1 {
				panic("hook failure")
			}
			return v
		}
		ev, err := bexpr.CreateEvaluator(e, bexpr.WithHookFn(hook))
		if err != nil {
			continue
		}
		for i := 0; i < 300; i++ { // the caller recovers from its own hook's panic 300 times
			func() {
				defer func() { recover() }()
				ev.Evaluate(d)
			}()
		}
		atomic.StoreInt32(&boom, 0)
		o, want := evalObs(ev, d), exprObs(e, d)
		r.Evaluations += 301
		r.Seen("after-panics|" + e)
		if o != want {
			r.Violate("history-dependent", "after-panics|"+e, map[string]interface{}{"expression": e, "datum": describe(d)}, "after 300 calls that ended in a panic of the caller's hook the evaluator returns "+o+", a fresh one "+want)
		}
		// 300 calls in flight at the same moment (parked in the hook), then released
		var inFlightN int32
		release := make(chan struct{})
		park := func(v reflect.Value) reflect.Value {
			if atomic.AddInt32(&inFlightN, 1) <= 300 {
				<-release
			}
			return v
		}
		ev2, err := bexpr.CreateEvaluator(e, bexpr.WithHookFn(park))
		if err != nil {
			continue
		}
		outs := make([]string, 300)
		var wg sync.WaitGroup
		for g := 0; g < 300; g++ {
			wg.Add(1)
			go func(g int) { defer wg.Done(); outs[g] = evalObs(ev2, d) }(g)
		}
		for deadline := time.Now().Add(5 * time.Second); atomic.LoadInt32(&inFlightN) < 300 && time.Now().Before(deadline); {
			runtimeGosched() // wait until all are parked (or until it is clear that some never will be)
		}
		close(release)
		wg.Wait()
		r.Evaluations += 300
		r.Seen("crowd|" + e)
		for g, og := range outs {
			if og != want {
				r.Violate("history-dependent", "crowd|"+e, map[string]interface{}{"expression": e, "calls_in_flight": 300}, fmt.Sprintf("call %d of 300 simultaneous calls returned %s, alone %s", g, og, want))
				break
			}
		}
	}
}

// ---- C14 / C13: one evaluator meeting data of ONE struct type whose dynamic content differs ----

type shapeDoc struct {
	Labels map[string]map[string]string
	Any    interface{}
	Name   string
}

func sameTypeDifferentShape(r *Run, kind string) {
	docs := []shapeDoc{
		{Labels: map[string]map[string]string{"env": {"zone": "a"}}, Any: map[string]interface{}{"k": map[string]interface{}{"z": 1}}},            // last segment missing under a map
		{Labels: map[string]map[string]string{"other": {"tier": "gold"}}, Any: map[string]interface{}{"j": 1}},                                    // an intermediate key missing
		{Labels: map[string]map[string]string{"env": {"tier": "gold"}}, Any: map[string]interface{}{"k": map[string]interface{}{"tier": "gold"}}}, // resolves
		{Labels: nil, Any: 5}, // not a map at all
		{Labels: map[string]map[string]string{"env": nil}, Any: map[string]interface{}{"k": []interface{}{1}}}, // nil / list parent
	}
	exprs := []string{`Labels.env.tier != "gold"`, `Labels.env.tier == "gold"`, "Labels.env.tier is empty", `Any.k.tier != "gold"`, "Any.k.tier is not empty", `gold in Labels.env.tier`, `Labels.env.tier matches "^g"`, "all Labels as k, v { v.tier != x }"}
	perms := permutations([]int{0, 1, 2, 3, 4})
	for _, e := range exprs {
		fresh := make([]string, len(docs))
		for i := range docs {
			fresh[i] = exprObs(e, docs[i])
		}
		for pi, perm := range perms {
			if pi%4 != 0 {
				continue
			}
			ev, err := bexpr.CreateEvaluator(e)
			if err != nil {
				break
			}
			for _, i := range perm {
				o := evalObs(ev, docs[i])
				r.Evaluations++
				if o != fresh[i] {
					r.Violate(kind, "same-type|"+e, map[string]interface{}{"expression": e, "datum": describe(docs[i]), "earlier_data_of_the_same_type": fmt.Sprint(perm)}, "an evaluator that met other data of this struct type first returns "+o+", a fresh one "+fresh[i])
				}
			}
			// Filter over a map of such documents: Go ranges it in random order
			if flt, err := bexpr.CreateFilter(e); err == nil {
				m := map[string]shapeDoc{"a": docs[perm[0]], "b": docs[perm[1]], "c": docs[perm[2]]}
				f0 := filterKept(flt, m)
				for k := 0; k < 8; k++ {
					f2, _ := bexpr.CreateFilter(e)
					if f1 := filterKept(f2, m); f1 != f0 {
						r.Violate("order-dependent-filter", "same-type-filter|"+e, map[string]interface{}{"expression": e, "datum": describe(m)}, f0+" vs "+f1)
						break
					}
				}
			}
		}
		r.Seen("same-type|" + e)
		for i := range docs {
			c := evalCase{expr: e, d: docs[i], tag: "bexpr"}
			if c.parse() {
				r.Model(c.cmd(), fresh[i], c.desc())
			}
		}
	}
}

// ---- C14: evaluators created again and again for one text ----

func c14RepeatedCreation(r *Run, reps int) {
	m := map[string]interface{}{"a": map[string]interface{}{"x": "bad"}, "b": map[string]interface{}{"x": 1}, "c": map[string]interface{}{"x": 2}}
	d := map[string]interface{}{"m": m, "n": 1, "s": "x"}
	exprs := []string{`any m as k, v { v.x == 1 or k == "a" or v.x == 1 }`, `all m as k, v { v.x != 1 and k != "a" and v.x != 1 }`, "n == bad or n == 1 or n == bad", "n == 1 or s == 1 or n == 1 or zz.q == 2", "s == x and n == bad and s == x and n == bad",
		"n == bad or s == x or n == 1 or n == bad or s == x", "not ( n == bad and s == x and n == bad )"}
	for _, e := range exprs {
		counts := map[string]int{}
		for k := 0; k < reps; k++ {
			counts[exprObsOnce(e, d)]++
		}
		r.Evaluations += reps
		r.Seen("repeated-creation|" + e)
		if len(counts) != 1 {
			r.Violate("order-dependent-evaluate", "repeated-creation|"+e, map[string]interface{}{"expression": e, "datum": describe(d)}, "evaluators created for the same text disagree: "+fmt.Sprint(counts))
		}
		c := evalCase{expr: e, d: d, tag: "bexpr"}
		if c.parse() {
			for o := range counts {
				r.Model(c.cmd(), o, c.desc())
				break
			}
		}
	}
}

// ---- C18: texts and budgets whose spellings run together; positions spelled with leading zeros ----

func c18TextBudgetRunTogether(r *Run) {
	d1, d1500 := map[string]interface{}{"Value": 1}, map[string]interface{}{"Value": 1500}
	for _, t := range []struct {
		first  string
		budget uint64
		second string
	}{{"Value == 1", 5000, "Value == 1500"}, {"Value == 1", 5000, "Value == 15000"}, {"Value == 1", 50000, "Value == 15000"}, {"Value == 1", 50000, "Value == 150000"}, {"Value == 15", 0, "Value == 150"}, {"Value != 1", 1000000, "Value != 11000000"}, {"Value == 1500", 0, "Value == 1"}, {"Value == 1 ", 5000, "Value == 1 5000"}} {
		var opts []bexpr.Option
		if t.budget != 0 {
			opts = append(opts, bexpr.WithMaxExpressions(t.budget))
		}
		if o, want := exprObsOnce(t.first, d1, opts...), exprObsOnce(strings.TrimSpace(t.first)+" ", d1); o != want && want != "NOCREATE" {
			r.Violate("options-not-fixed-at-creation", "run-together-first|"+t.first, map[string]interface{}{"expression": t.first, "budget": t.budget}, "with the (sufficient) budget "+o+", the same text with a trailing blank and no budget "+want)
		}
		for _, d := range []interface{}{d1, d1500} {
			o := exprObsOnce(t.second, d)
			if want := exprObsOnce(" "+t.second, d); o != want && want != "NOCREATE" {
				r.Violate("options-not-fixed-at-creation", "run-together|"+t.second, map[string]interface{}{"expression": t.second, "created_before": t.first, "budget_before": t.budget}, "after another evaluator was created with a budget: "+o+"; the same text with a leading blank: "+want)
			}
			// the reference: the same text in a process that never saw the first one is not available; the model is
			c := evalCase{expr: t.second, d: d, tag: "bexpr"}
			r.Evaluations++
			r.Seen("run-together|" + t.first + "|" + t.second)
			if c.parse() {
				r.Model(c.cmd(), o, c.desc())
			} else if o != "NOCREATE" {
				r.Violate("options-not-fixed-at-creation", "run-together|"+t.second, map[string]interface{}{"expression": t.second, "created_before": t.first, "budget_before": t.budget}, "a text the parser rejects was accepted after another evaluator had been created: "+o)
			}
		}
	}
}

func runtimeGosched() { var wg sync.WaitGroup; wg.Add(1); go func() { wg.Done() }(); wg.Wait() }

var _ = json.Number("")
var _ = math.Pi
var _ = strings.Join

// ---- C08: a tag name with an upper-case letter; comparable element types with a hidden interface field ----

type UpTag struct {
	Name   string
	Secret string `Filter:"-" filter:"sec"`
	Ren    string `Filter:"renamed"`
	In     UpIn
}
type UpIn struct {
	Hid string `Filter:"-"`
	V   int
}
type CmpH struct {
	Name string
	Hid  interface{} `bexpr:"-" alt:"-"`
	priv interface{}
	In   CmpIn
}
type CmpIn struct {
	X    int
	hide interface{}
}

func c08TagCaseAndComparable(r *Run) {
	a := UpTag{Name: "n", Secret: "h1", Ren: "r", In: UpIn{Hid: "h2", V: 1}}
	b := UpTag{Name: "n", Secret: "", Ren: "r", In: UpIn{Hid: "", V: 1}}
	for _, e := range []string{"Secret == h1", "Secret is empty", "h1 in Secret", "Secret matches `h`", "In.Hid == h2", "In.Hid is not empty", "renamed == r", "Ren == r", "sec == h1", "Name == n and Secret != h1", "In.V == 1 or In.Hid == h2"} {
		for _, tag := range []string{"Filter", "filter", "FILTER", "bexpr"} {
			if tag == "filter" || tag == "bexpr" || tag == "FILTER" {
				continue // under these names Secret is not hidden (a different or no tag applies): not a pair
			}
			c1 := evalCase{expr: e, d: a, tag: tag}
			if !c1.parse() {
				continue
			}
			c2 := c1
			c2.d = b
			o1, o2 := c1.obs(), c2.obs()
			r.Evaluations += 2
			r.Seen("tag-case|" + e + "|" + tag + "|" + o1)
			if o1 != o2 {
				m := c1.desc()
				m["datum_b"] = describe(b)
				r.Violate("hidden-field-observable", "tag-case|"+e, m, o1+" vs "+o2)
			}
			r.Model(c1.cmd(), o1, c1.desc())
			r.Model(c2.cmd(), o2, c2.desc())
		}
	}
	// Filter over elements of a comparable struct type: the hidden interface fields hold unhashable values in one list only
	la := []CmpH{{Name: "a", Hid: []string{"x"}, priv: map[string]int{"k": 1}, In: CmpIn{X: 1, hide: []int{1}}}, {Name: "b", Hid: 1, In: CmpIn{X: 2}}, {Name: "a", Hid: []string{"x"}, In: CmpIn{X: 1, hide: func() {}}}}
	lb := []CmpH{{Name: "a", Hid: 1, In: CmpIn{X: 1}}, {Name: "b", Hid: 1, In: CmpIn{X: 2}}, {Name: "a", Hid: 2, In: CmpIn{X: 1}}}
	for _, e := range []string{"Name == a", "In.X == 1", "Name != a or In.X == 2", "Name matches `^a`", "Name is not empty"} {
		flt, err := bexpr.CreateFilter(e)
		if err != nil {
			continue
		}
		k1, k2 := filterKept2(flt, la), filterKept2(flt, lb)
		r.Evaluations += 2
		r.Seen("comparable|" + e)
		if k1 != k2 {
			r.Violate("hidden-field-changes-filter", "comparable|"+e, map[string]interface{}{"expression": e, "list_a": describe(la), "list_b": describe(lb)}, k1+" vs "+k2)
		}
		ma, mb := map[string]CmpH{"p": la[0], "q": la[1]}, map[string]CmpH{"p": lb[0], "q": lb[1]}
		if k1, k2 := filterKept2(flt, ma), filterKept2(flt, mb); k1 != k2 {
			r.Violate("hidden-field-changes-filter", "comparable-map|"+e, map[string]interface{}{"expression": e}, k1+" vs "+k2)
		}
		c := evalCase{expr: e, d: la[0], tag: "bexpr"}
		if c.parse() {
			r.Model(c.cmd(), c.obs(), c.desc())
		}
	}
}

// ---- C03: a chain long enough for 16-bit offsets to wrap ----

func c03VeryLongChain(r *Run) {
	var terms []string
	for i := 0; i < 33000; i++ {
		switch i % 3 {
		case 0:
			terms = append(terms, "b == 1")
		case 1:
			terms = append(terms, "not b == 2")
		default:
			terms = append(terms, "zz.q == 1")
		}
	}
	for _, t := range []struct{ op, left, want string }{{"or", "a == 1", "T"}, {"and", "a == 2", "F"}} {
		right := strings.Join(terms, " "+map[string]string{"or": "and", "and": "or"}[t.op]+" ")
		e := t.left + " " + t.op + " ( " + right + " )"
		d := map[string]interface{}{"a": 1, "b": 5}
		o := exprObsOnce(e, d)
		r.Evaluations++
		r.Seen("very-long-chain|" + t.op)
		if o != t.want {
			r.Violate("short-circuit:"+t.op, "very-long-chain|"+t.op, map[string]interface{}{"expression": t.left + " " + t.op + " ( 33000 further terms that would error or decide otherwise )", "datum": describe(d)}, "expected "+t.want+" got "+o)
		}
	}
}

// ---- C01: every pattern of the pool against every string of the pool ----

func c01RegexpCross(r *Run) {
	subjects := append([]string{"webserver", "my-web", "a web b", "web", "cobweb", "xa.by", "a.b", "DEF", "def", "abc", "ABC", "x y", "x yz", "1.5", "11.5", "foo", "FOO", "food", "\n", "a\nb"}, strPool...)
	pats := append([]string{"^web$", `\Aweb\z`, `^a\.b$`, "^def$", "(?i)^abc", "^DEF", "(?i)^abc|^DEF", `\Qa.b`, `\Qa.b\E$`}, patterns...)
	for _, p := range pats {
		for _, s := range subjects {
			for _, d := range []interface{}{map[string]interface{}{"s": s}, map[string]interface{}{"s": []byte(s)}} {
				for _, f := range []string{"s matches %s", "s not matches %s"} {
					c := evalCase{expr: fmt.Sprintf(f, quoteDouble(p)), d: d, tag: "bexpr"}
					if !c.parse() {
						continue
					}
					addEval(r, &c, "regexp-cross")
				}
			}
		}
	}
}

// ---- C03: two `matches` on one selector side by side ----

func c03MatchPairs(r *Run) {
	pats := []string{"(?i)^abc", "^DEF", "^def", `\Qa`, "a|b", "(?s)^a.c", "(?m)^c$", "^abc$", "[", "(?i)x", ""}
	subjects := []interface{}{"def", "DEF", "abc", "ABC", "a\nc", "x", "", 5, nil}
	for _, p := range pats {
		for _, q := range pats {
			for _, s := range subjects {
				d := map[string]interface{}{"s": s, "l": []interface{}{s, "abc"}}
				for _, tpl := range []string{"s matches %s or s matches %s", "s not matches %s and s not matches %s", "s matches %s or s matches %s or s == zz", "any l as x { x matches %s or x matches %s }"} {
					e := fmt.Sprintf(tpl, quoteDouble(p), quoteDouble(q))
					c := evalCase{expr: e, d: d, tag: "bexpr"}
					if !c.parse() {
						continue
					}
					o := c.obs()
					r.Evaluations++
					r.Seen("match-pairs|" + tpl + "|" + p + "|" + q + "|" + o)
					if !strings.HasPrefix(tpl, "any") && !strings.Contains(tpl, "zz") {
						op, a1, b1 := "or", "s matches "+quoteDouble(p), "s matches "+quoteDouble(q)
						if strings.Contains(tpl, " and ") {
							op, a1, b1 = "and", "s not matches "+quoteDouble(p), "s not matches "+quoteDouble(q)
						}
						if want := table3(op, exprObs(a1, d), exprObs(b1, d)); o != want {
							r.Violate("truth-table:"+op, "match-pairs|"+p+"|"+q, c.desc(), "operands alone give "+exprObs(a1, d)+", "+exprObs(b1, d)+": expected "+want+" got "+o)
						}
					}
					r.Model(c.cmd(), o, c.desc())
				}
			}
		}
	}
}

// ---- C12: a crowd of deep evaluations ----

func c12DeepCrowd(r *Run) {
	var terms []string
	for i := 0; i < 40; i++ {
		terms = append(terms, "A == 1")
	}
	terms = append(terms, "Z == 2") // chains group to the right: the last term is evaluated 40 levels down
	e := strings.Join(terms, " and ")
	d := map[string]interface{}{"A": 1, "Z": 2}
	var parked int32
	release := make(chan struct{})
	hook := func(v reflect.Value) reflect.Value {
		w := v
		for w.IsValid() && w.Kind() == reflect.Interface && !w.IsNil() {
			w = w.Elem()
		}
		if w.IsValid() && w.Kind() == reflect.Int && w.Int() == 2 && atomic.AddInt32(&parked, 1) <= 600 {
			<-release // every call waits at its deepest point until all of them are there
		}
		return v
	}
	ev, err := bexpr.CreateEvaluator(e, bexpr.WithHookFn(hook))
	if err != nil {
		return
	}
	want := exprObs(e, d)
	outs := make([]string, 600)
	var wg sync.WaitGroup
	for g := 0; g < 600; g++ {
		wg.Add(1)
		go func(g int) { defer wg.Done(); outs[g] = evalObs(ev, d) }(g)
	}
	for deadline := time.Now().Add(10 * time.Second); atomic.LoadInt32(&parked) < 600 && time.Now().Before(deadline); {
		runtimeGosched()
	}
	close(release)
	wg.Wait()
	r.Evaluations += 600
	r.Seen("deep-crowd")
	for g, o := range outs {
		if o != want {
			r.Violate("concurrent-result-differs", "deep-crowd", map[string]interface{}{"expression": "41 terms joined by and, all calls held at the last one", "calls_in_flight": 600}, fmt.Sprintf("call %d of 600 simultaneous calls returned %s, alone %s", g, o, want))
			break
		}
	}
}

// ---- C17: several elements fail, far apart: the error returned is the FIRST one's ----

func c17FirstError(r *Run) {
	for _, n := range []int{12, 300, 3000, 9000} {
		for _, at := range [][3]int{{n * 7 / 30, n / 2, n * 23 / 30}, {n - 1, n / 2, n/2 + 1}, {n / 4, n/4 + 1, n - 1}} {
			l := make([]interface{}, n)
			for i := range l {
				l[i] = map[string]interface{}{"X": "1.5"}
			}
			l[at[0]] = map[string]interface{}{"X": 7}
			l[at[1]] = map[string]interface{}{"X": true}
			l[at[2]] = map[string]interface{}{"X": uint(1)}
			first := at[0]
			for _, k := range at[1:] {
				if k < first {
					first = k
				}
			}
			e := "X == 1.5"
			flt, err := bexpr.CreateFilter(e)
			ev, err2 := bexpr.CreateEvaluator(e)
			if err != nil || err2 != nil {
				return
			}
			var wantErr error
			func() {
				defer func() { recover() }()
				_, wantErr = ev.Evaluate(l[first])
			}()
			for rep := 0; rep < 6; rep++ {
				res, gotErr, pan := safeExecute(flt, l)
				r.Evaluations++
				c := map[string]interface{}{"expression": e, "elements": n, "failing_positions": at}
				switch {
				case pan != "":
					r.Violate("execute-panics", fmt.Sprintf("first-error|%d", n), c, "Execute panicked: "+pan)
				case gotErr == nil:
					r.Violate("element-error-not-returned", fmt.Sprintf("first-error|%d", n), c, "no error although three elements fail")
				case res != nil:
					r.Violate("error-with-result", fmt.Sprintf("first-error|%d", n), c, "an error came with a non-nil result")
				case wantErr != nil && gotErr.Error() != wantErr.Error():
					r.Violate("not-the-first-error", fmt.Sprintf("first-error|%d", n), c, "Execute returned `"+truncate(gotErr.Error(), 120)+"`; the first failing element (position "+fmt.Sprint(first)+") fails with `"+truncate(wantErr.Error(), 120)+"`")
				}
			}
			r.Seen(fmt.Sprintf("first-error|%d|%v", n, at))
		}
	}
}
