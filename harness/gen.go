package main

import (
	"encoding/json"
	"fmt"
	"math"
	"reflect"
	"regexp"
	"strconv"
	"strings"
)

// rng is the generator state of the case being generated; the driver loop re-seeds it per case.
var rng *Rng

// ---------- value generation ----------
var strPool = []string{"", "a", "b", "ab", "foo", "x y", "1", "-1", "true", "0x10", "1.5", "/usr/bin", "é", "a\"b", "zz", "k", "10"}
var intPool = []int64{0, 1, -1, 2, 10, 16, 127, -128, 255, 65535, math.MaxInt64, math.MinInt64, 1 << 53, 1<<53 + 1}
var fltPool = []float64{0, math.Copysign(0, -1), 1, 1.5, -2.5, 0.1, 1e3, math.MaxFloat64, 5e-324, math.NaN(), math.Inf(1), 16777217}

func genValue(t reflect.Type, depth int) reflect.Value {
	v := reflect.New(t).Elem()
	if depth < -1 {
		switch t.Kind() {
		case reflect.Slice, reflect.Map, reflect.Ptr, reflect.Interface, reflect.Struct, reflect.Array:
			return v // recursive types (S5) stop here with the zero value
		}
	}
	switch t.Kind() {
	case reflect.Bool:
		v.SetBool(rng.Intn(2) == 0)
	case reflect.Int, reflect.Int8, reflect.Int16, reflect.Int32, reflect.Int64:
		x := intPool[rng.Intn(len(intPool))]
		v.SetInt(x) // truncates to width
	case reflect.Uint, reflect.Uint8, reflect.Uint16, reflect.Uint32, reflect.Uint64, reflect.Uintptr:
		x := intPool[rng.Intn(len(intPool))]
		if rng.Intn(6) == 0 {
			v.SetUint(math.MaxUint64)
		} else {
			v.SetUint(uint64(x))
		}
	case reflect.Float32, reflect.Float64:
		v.SetFloat(fltPool[rng.Intn(len(fltPool))])
	case reflect.String:
		if t == reflect.TypeOf(json.Number("")) {
			v.SetString([]string{"3", "1.5", "1e3", "12345678901234567890", "-0", "1e999", "x"}[rng.Intn(7)])
		} else {
			v.SetString(strPool[rng.Intn(len(strPool))])
		}
	case reflect.Complex128:
		v.SetComplex(complex(1, 2))
	case reflect.Chan:
		if rng.Intn(2) == 0 {
			v.Set(reflect.MakeChan(t, 1))
		}
	case reflect.Func:
		// leave nil
	case reflect.Ptr:
		if depth > 0 && rng.Intn(4) != 0 {
			p := reflect.New(t.Elem())
			p.Elem().Set(genValue(t.Elem(), depth-1))
			v.Set(p)
		}
	case reflect.Interface:
		if depth > 0 && rng.Intn(5) != 0 {
			v.Set(genValue(randomConcreteType(depth-1), depth-1))
		}
	case reflect.Slice:
		if rng.Intn(10) != 0 {
			n := 1 + rng.Intn(3)
			if rng.Intn(8) == 0 {
				n = 0
			}
			s := reflect.MakeSlice(t, n, n)
			for i := 0; i < n; i++ {
				s.Index(i).Set(genValue(t.Elem(), depth-1))
				if i > 0 && t.Elem().Kind() == reflect.Interface && rng.Intn(4) == 0 && !s.Index(i-1).IsNil() {
					// a neighbour of the same dynamic type holding its zero value
					s.Index(i).Set(reflect.Zero(s.Index(i - 1).Elem().Type()))
				}
			}
			v.Set(s)
		}
	case reflect.Array:
		for i := 0; i < t.Len(); i++ {
			v.Index(i).Set(genValue(t.Elem(), depth-1))
		}
	case reflect.Map:
		if rng.Intn(6) != 0 {
			m := reflect.MakeMap(t)
			n := 1 + rng.Intn(3)
			if rng.Intn(8) == 0 {
				n = 0
			}
			for i := 0; i < n; i++ {
				k := genValue(t.Key(), depth-1)
				if t.Key().Kind() == reflect.Interface && !k.IsNil() && !k.Elem().Type().Comparable() {
					continue
				}
				if t.Key().Kind() == reflect.Interface && k.IsNil() {
					continue
				}
				m.SetMapIndex(k, genValue(t.Elem(), depth-1))
			}
			v.Set(m)
		}
	case reflect.Struct:
		for i := 0; i < t.NumField(); i++ {
			f := v.Field(i)
			if !f.CanSet() {
				continue // unexported: stays zero (contents irrelevant here)
			}
			if depth <= 0 && (f.Kind() == reflect.Struct || f.Kind() == reflect.Slice || f.Kind() == reflect.Map) && rng.Intn(2) == 0 {
				continue
			}
			f.Set(genValue(f.Type(), depth-1))
		}
	}
	return v
}

var scalarTypes = []reflect.Type{
	reflect.TypeOf(int(0)), reflect.TypeOf(int8(0)), reflect.TypeOf(int64(0)), reflect.TypeOf(uint(0)), reflect.TypeOf(uint8(0)), reflect.TypeOf(uint64(0)),
	reflect.TypeOf(float32(0)), reflect.TypeOf(float64(0)), reflect.TypeOf(true), reflect.TypeOf(""), reflect.TypeOf(NInt(0)), reflect.TypeOf(NStr("")),
	reflect.TypeOf(NBool(false)), reflect.TypeOf(json.Number("")),
	reflect.TypeOf(Dur(0)), reflect.TypeOf(Lvl("")), reflect.TypeOf(LvlI(0)), reflect.TypeOf(BoolM(false)), reflect.TypeOf(F64M(0)),
}

func randomConcreteType(depth int) reflect.Type {
	if depth <= 0 || rng.Intn(3) == 0 {
		return scalarTypes[rng.Intn(len(scalarTypes))]
	}
	switch rng.Intn(9) {
	case 0:
		return reflect.SliceOf(randomConcreteType(depth - 1))
	case 1:
		return reflect.MapOf(reflect.TypeOf(""), randomConcreteType(depth-1))
	case 2:
		return reflect.PtrTo(randomConcreteType(depth - 1))
	case 3:
		return structTypes[rng.Intn(len(structTypes))]
	case 4:
		return reflect.SliceOf(ifaceT)
	case 5:
		return reflect.MapOf(reflect.TypeOf(""), ifaceT)
	case 6:
		return reflect.ArrayOf(2, randomConcreteType(depth-1))
	case 7:
		kt := []reflect.Type{reflect.TypeOf(0), reflect.TypeOf(NStr("")), reflect.TypeOf(true), reflect.TypeOf(uint8(0)), ifaceT, reflect.TypeOf(float64(0))}[rng.Intn(6)]
		return reflect.MapOf(kt, randomConcreteType(depth-1))
	default:
		return scalarTypes[rng.Intn(len(scalarTypes))]
	}
}

func genDatum() interface{} {
	r := rng.Intn(100)
	switch {
	case r < 1:
		return nil
	case r < 45:
		t := structTypes[[]int{0, 1, 2, 0, 1, 2, 4, 5, 6, 7, 8, 9}[rng.Intn(12)]] // S4 (whose bad tag poisons every lookup) only rarely
		if rng.Intn(25) == 0 {
			t = structTypes[3]
		}
		v := genValue(t, 3)
		if rng.Intn(3) == 0 {
			p := reflect.New(t)
			p.Elem().Set(v)
			return p.Interface()
		}
		return v.Interface()
	case r < 80:
		return genValue(reflect.MapOf(reflect.TypeOf(""), ifaceT), 4).Interface()
	default:
		x := genValue(randomConcreteType(3), 3).Interface()
		if rng.Intn(12) != 0 {
			return map[string]interface{}{"d": x, "e": genValue(randomConcreteType(2), 2).Interface()}
		}
		return x
	}
}

// ---------- paths and expressions ----------
type pathInfo struct {
	parts []string
	leaf  reflect.Value // may be invalid for absent paths
}

// walk the datum randomly, returning a path of available steps
func randomPath(d interface{}, tag string) pathInfo {
	cur := reflect.ValueOf(d)
	var parts []string
	steps := 1 + rng.Intn(4)
	for i := 0; i < steps; i++ {
		for cur.IsValid() && (cur.Kind() == reflect.Interface || cur.Kind() == reflect.Ptr) {
			if cur.IsNil() {
				return pathInfo{parts, reflect.Value{}}
			}
			cur = cur.Elem()
		}
		if !cur.IsValid() {
			break
		}
		switch cur.Kind() {
		case reflect.Struct:
			t := cur.Type()
			i := rng.Intn(t.NumField())
			for try := 0; try < 6; try++ {
				ft := t.Field(i)
				tg, _ := ft.Tag.Lookup(tag)
				if ft.PkgPath == "" && tg != "-" {
					break
				}
				if rng.Intn(10) == 0 {
					break
				}
				i = rng.Intn(t.NumField())
			}
			f := t.Field(i)
			name := f.Name
			if tg, ok := f.Tag.Lookup(tag); ok && rng.Intn(20) != 0 {
				if idx := strings.Index(tg, ","); idx >= 0 {
					tg = tg[:idx]
				}
				if tg != "-" && tg != "" {
					name = tg
				}
			}
			parts = append(parts, name)
			cur = cur.Field(i)
		case reflect.Map:
			keys := cur.MapKeys()
			if len(keys) == 0 {
				parts = append(parts, "zz")
				return pathInfo{parts, reflect.Value{}}
			}
			k := keys[rng.Intn(len(keys))]
			parts = append(parts, keyText(k))
			cur = cur.MapIndex(k)
		case reflect.Slice, reflect.Array:
			if cur.Len() == 0 {
				parts = append(parts, "0")
				return pathInfo{parts, reflect.Value{}}
			}
			i := rng.Intn(cur.Len())
			parts = append(parts, strconv.Itoa(i))
			cur = cur.Index(i)
		default:
			return pathInfo{parts, cur}
		}
	}
	return pathInfo{parts, cur}
}

func keyText(k reflect.Value) string {
	for k.Kind() == reflect.Interface && !k.IsNil() {
		k = k.Elem()
	}
	switch k.Kind() {
	case reflect.Bool:
		return fmt.Sprint(k.Bool())
	case reflect.Int, reflect.Int8, reflect.Int16, reflect.Int32, reflect.Int64:
		return fmt.Sprint(k.Int())
	case reflect.Uint, reflect.Uint8, reflect.Uint16, reflect.Uint32, reflect.Uint64:
		return fmt.Sprint(k.Uint())
	case reflect.Float32, reflect.Float64:
		return strconv.FormatFloat(k.Float(), 'g', -1, 64)
	case reflect.String:
		return k.String()
	}
	return "zz"
}

var identRe = regexp.MustCompile(`^[a-zA-Z][a-zA-Z0-9_/]*$`)
var digitsRe = regexp.MustCompile(`^[0-9]+$`)
var numRe = regexp.MustCompile(`^-?(0|[1-9][0-9]*)(\.[0-9]+)?$`)

func quote(s string) string {
	var sb strings.Builder
	sb.WriteByte('"')
	for i := 0; i < len(s); i++ {
		c := s[i]
		if c < 0x20 || c >= 0x7f || c == '"' || c == '\\' {
			fmt.Fprintf(&sb, `\x%02x`, c)
		} else {
			sb.WriteByte(c)
		}
	}
	sb.WriteByte('"')
	return sb.String()
}

var segRe = regexp.MustCompile(`^[\pL\pN\-_.~:|]+$`)

func renderPath(parts []string) (string, bool) {
	if len(parts) == 0 {
		return "", false
	}
	allSeg := true
	for _, p := range parts {
		if !segRe.MatchString(strings.NewReplacer("~", "", "/", "").Replace(p)+"x") || strings.ContainsAny(p, " \"") {
			allSeg = false
		}
	}
	if allSeg && (!identRe.MatchString(parts[0]) || rng.Intn(5) == 0) {
		var esc []string
		for _, p := range parts {
			esc = append(esc, strings.NewReplacer("~", "~0", "/", "~1").Replace(p))
		}
		ok := true
		for _, e := range esc {
			if e == "" {
				ok = false
			}
		}
		if ok {
			return `"/` + strings.Join(esc, "/") + `"`, true
		}
	}
	if !identRe.MatchString(parts[0]) {
		return "", false
	}
	out := parts[0]
	for _, p := range parts[1:] {
		switch {
		case identRe.MatchString(p) && rng.Intn(3) != 0:
			out += "." + p
		case digitsRe.MatchString(p) && rng.Intn(3) != 0:
			out += "." + p
		default:
			out += "[" + quote(p) + "]"
		}
	}
	return out, true
}

func renderLit(s string) string {
	if numRe.MatchString(s) && rng.Intn(2) == 0 {
		return s
	}
	if identRe.MatchString(s) && rng.Intn(2) == 0 && s != "not" && s != "in" {
		return s
	}
	return quote(s)
}

func leafLiteral(v reflect.Value) string {
	pool := []string{"1", "0", "-1", "true", "false", "a", "foo", "zz", "1.5", "0x10", "10", "x y", "", "9223372036854775808", "1e3", "ab", "k", "T", "255", "0.1"}
	if v.IsValid() && rng.Intn(16) == 0 {
		// literals at and just beyond the edges of the numeric widths (an out-of-range literal is an error, not a mismatch)
		return pick(rng, boundaryLits)
	}
	if v.IsValid() && rng.Intn(10) != 0 {
		for v.Kind() == reflect.Interface || v.Kind() == reflect.Ptr {
			if v.IsNil() {
				return pool[rng.Intn(len(pool))]
			}
			v = v.Elem()
		}
		switch v.Kind() {
		case reflect.Bool:
			return fmt.Sprint(v.Bool())
		case reflect.Int, reflect.Int8, reflect.Int16, reflect.Int32, reflect.Int64:
			return fmt.Sprint(v.Int())
		case reflect.Uint, reflect.Uint8, reflect.Uint16, reflect.Uint32, reflect.Uint64:
			return fmt.Sprint(v.Uint())
		case reflect.String:
			return v.String()
		case reflect.Float32:
			return strconv.FormatFloat(v.Float(), 'f', -1, 32)
		case reflect.Float64:
			if !math.IsNaN(v.Float()) && !math.IsInf(v.Float(), 0) && math.Abs(v.Float()) < 1e15 && (v.Float() == 0 || math.Abs(v.Float()) > 1e-6) {
				return strconv.FormatFloat(v.Float(), 'f', -1, 64)
			}
		case reflect.Slice, reflect.Array:
			if v.Len() > 0 {
				return leafLiteral(v.Index(rng.Intn(v.Len())))
			}
		case reflect.Map:
			if ks := v.MapKeys(); len(ks) > 0 {
				return leafLiteral(ks[rng.Intn(len(ks))])
			}
		}
	}
	return pool[rng.Intn(len(pool))]
}

var boundaryLits = []string{"9223372036854775807", "9223372036854775808", "-9223372036854775808", "-9223372036854775809", "18446744073709551615", "18446744073709551616", "127", "128", "-129", "255", "256", "65536",
	"1e999", "-1e999", "340282346638528859811704183484516925440", "3.5e38", "1e39", "4294967296", "2147483648", "-", "+", ".", "1e", "0x", "_", "Inf", "NaN"}

var patterns = []string{"^a", "b+", "[", "", "o$", "^a$", `\\Aa\\z`, "^ab$", "^foo$", "(?i)^A", "(?i)ab", "a|b", "^x y$", "(?s).", `^1\\.5$`, "(?i)^FOO|zz", `\\Qa`, "(?m)^a$", "^$"}

// genSelLit picks a selector (mostly resolving, sometimes absent), a literal drawn from the selected leaf most of the
// time, and a regexp pattern; leaf is the selected value (invalid when unknown).
func genSelLit(d interface{}, tag string, prefix string, leafOf reflect.Value) (ps, lit, pat string, leaf reflect.Value) {
	absentPct = absentPctDefault
	return genSelLitP(d, tag, prefix, leafOf)
}

var absentPctDefault = 8
var absentPct = 8

func genSelLitP(d interface{}, tag string, prefix string, leafOf reflect.Value) (ps, lit, pat string, leaf reflect.Value) {
	var pi pathInfo
	ok := false
	for try := 0; try < 10 && !ok; try++ {
		pi = randomPath(d, tag)
		if rng.Intn(100) < absentPct && len(pi.parts) > 0 { // make it absent somewhere
			j := rng.Intn(len(pi.parts))
			pi.parts[j] = []string{"zz", "Nope", "99", "H", "u"}[rng.Intn(5)]
			pi.parts = pi.parts[:j+1+rng.Intn(len(pi.parts)-j)]
			pi.leaf = reflect.Value{}
		}
		ps, ok = renderPath(pi.parts)
	}
	if !ok {
		ps = "zz"
	}
	if prefix != "" { // inside a quantifier: sometimes talk about the bound variable
		switch rng.Intn(3) {
		case 0:
			ps = prefix
			pi.leaf = leafOf
		case 1:
			sub := randomPath(derefIface(leafOf), tag)
			if s, ok2 := renderPath(append([]string{prefix}, sub.parts...)); ok2 {
				ps = s
				pi.leaf = sub.leaf
			}
		}
	}
	leaf = pi.leaf
	for leaf.IsValid() && (leaf.Kind() == reflect.Interface || leaf.Kind() == reflect.Ptr) && !leaf.IsNil() {
		leaf = leaf.Elem()
	}
	lit = renderLit(leafLiteral(pi.leaf))
	pat = quote(patterns[rng.Intn(len(patterns))])
	return
}

func genMatch(d interface{}, tag string, prefix string, leafOf reflect.Value) string {
	ps, lit, pat, leaf := genSelLit(d, tag, prefix, leafOf)
	// choose an operator that fits the selected leaf most of the time
	fit := rng.Intn(100) < 85
	kind := reflect.Invalid
	if leaf.IsValid() {
		kind = leaf.Kind()
	}
	if fit {
		switch kind {
		case reflect.String:
			switch rng.Intn(9) {
			case 0, 1:
				return ps + " == " + lit
			case 2:
				return ps + " != " + lit
			case 3:
				sub := leaf.String()
				if len(sub) > 1 {
					sub = sub[:1+rng.Intn(len(sub)-1)]
				}
				return renderLit(sub) + " in " + ps
			case 4:
				return ps + " contains " + lit
			case 5:
				return ps + " is empty"
			case 6:
				return ps + " is not empty"
			case 7:
				return ps + " matches " + pat
			default:
				return ps + " not matches " + pat
			}
		case reflect.Slice, reflect.Array, reflect.Map:
			switch rng.Intn(6) {
			case 0, 1:
				return lit + " in " + ps
			case 2:
				return lit + " not in " + ps
			case 3:
				return ps + " contains " + lit
			case 4:
				return ps + " is empty"
			default:
				return ps + " is not empty"
			}
		case reflect.Bool, reflect.Int, reflect.Int8, reflect.Int16, reflect.Int32, reflect.Int64,
			reflect.Uint, reflect.Uint8, reflect.Uint16, reflect.Uint32, reflect.Uint64, reflect.Float32, reflect.Float64:
			if rng.Intn(3) == 0 {
				return ps + " != " + lit
			}
			return ps + " == " + lit
		}
	}
	switch rng.Intn(12) {
	case 0, 1, 2:
		return ps + " == " + lit
	case 3:
		return ps + " != " + lit
	case 4, 5:
		return lit + " in " + ps
	case 6:
		return lit + " not in " + ps
	case 7:
		return ps + " is empty"
	case 8:
		return ps + " is not empty"
	case 9:
		return ps + " contains " + lit
	case 10:
		return ps + " matches " + pat
	default:
		return ps + " not matches " + pat
	}
}

func derefIface(v reflect.Value) interface{} {
	if !v.IsValid() || !v.CanInterface() {
		return nil
	}
	return v.Interface()
}

func genExpr(d interface{}, tag string, depth int, prefix string, leafOf reflect.Value) string {
	if depth == 0 {
		return genMatch(d, tag, prefix, leafOf)
	}
	switch rng.Intn(8) {
	case 0, 1:
		op := []string{" and ", " or "}[rng.Intn(2)]
		a, b := genExpr(d, tag, depth-1, prefix, leafOf), genExpr(d, tag, depth-1, prefix, leafOf)
		switch rng.Intn(10) {
		case 0: // an operand written twice in one chain, another one in between
			return parenIfQuant(a) + op + parenIfQuant(b) + op + parenIfQuant(a)
		case 1:
			return parenIfQuant(a) + op + parenIfQuant(a)
		case 2: // siblings: the same quantifier header with two bodies
			if h, b1, ok := splitQuant(a); ok {
				return "( " + h + " { " + b1 + " } )" + op + "( " + h + " { " + genExpr(d, tag, 0, quantVar(h), reflect.Value{}) + " } )"
			}
		}
		return parenIfQuant(a) + op + parenIfQuant(b)
	case 2:
		return "not " + genExpr(d, tag, depth-1, prefix, leafOf)
	case 3:
		return "(" + genExpr(d, tag, depth-1, prefix, leafOf) + ")"
	case 4, 5:
		// inside a quantifier: sometimes quantify over (a part of) the bound element, reusing the binder's name (shadowing)
		if prefix != "" && leafOf.IsValid() && rng.Intn(2) == 0 {
			sub := randomPath(derefIface(leafOf), tag)
			v := sub.leaf
			for v.IsValid() && (v.Kind() == reflect.Interface || v.Kind() == reflect.Ptr) && !v.IsNil() {
				v = v.Elem()
			}
			if ps, ok := renderPath(append([]string{prefix}, sub.parts...)); ok && v.IsValid() && (v.Kind() == reflect.Slice || v.Kind() == reflect.Array || v.Kind() == reflect.Map) && v.Len() > 0 {
				var elem reflect.Value
				if v.Kind() == reflect.Map {
					elem = v.MapIndex(v.MapKeys()[0])
				} else {
					elem = v.Index(0)
				}
				name := prefix // shadow the outer binder
				if rng.Intn(3) == 0 {
					name = "w"
				}
				op := []string{"any", "all"}[rng.Intn(2)]
				body := genExpr(d, tag, depth-1, name, elem)
				// a sibling use of the OUTER binding after the inner quantifier checks that shadowing ends at the brace
				return "( " + op + " " + ps + " as _, " + name + " { " + body + " } ) and " + genMatch(d, tag, prefix, leafOf)
			}
		}
		// quantifier over some path
		for try := 0; try < 10; try++ {
			pi := randomPath(d, tag)
			ps, ok := renderPath(pi.parts)
			if !ok {
				continue
			}
			v := pi.leaf
			for v.IsValid() && (v.Kind() == reflect.Interface || v.Kind() == reflect.Ptr) && !v.IsNil() {
				v = v.Elem()
			}
			if !v.IsValid() || (v.Kind() != reflect.Slice && v.Kind() != reflect.Map && v.Kind() != reflect.Array) {
				if rng.Intn(5) != 0 {
					continue
				}
			}
			var elem reflect.Value
			if v.IsValid() && (v.Kind() == reflect.Slice || v.Kind() == reflect.Array) && v.Len() > 0 {
				elem = v.Index(0)
			} else if v.IsValid() && v.Kind() == reflect.Map && v.Len() > 0 {
				elem = v.MapIndex(v.MapKeys()[0])
			}
			op := []string{"any", "all"}[rng.Intn(2)]
			names := []string{"x", "y", "v", "A", "M"}
			n1, n2 := names[rng.Intn(len(names))], names[rng.Intn(len(names))]
			if first := firstSegment(pi.parts); first != "" && rng.Intn(8) == 0 {
				n1 = first // the index / key name is the name the selector starts with
			}
			var bind, use string
			switch rng.Intn(4) {
			case 0:
				bind, use = n1, n1
			case 1:
				bind, use = n1+", "+n2, n2
			case 2:
				bind, use = "_, "+n2, n2
			default:
				bind, use = n1+", _", n1
				elem = reflect.Value{}
			}
			body := genExpr(d, tag, depth-1, use, elem)
			if rng.Intn(12) == 0 { // the same collection quantified again inside, under other names
				inner := genExpr(d, tag, 0, "w", elem)
				body = "( " + []string{"any", "all"}[rng.Intn(2)] + " " + ps + " as q, w { " + inner + " } ) " + []string{"and", "or"}[rng.Intn(2)] + " " + body
			}
			return "( " + op + " " + ps + " as " + bind + " { " + body + " } )"
		}
		return genMatch(d, tag, prefix, leafOf)
	default:
		return genMatch(d, tag, prefix, leafOf)
	}
}

// ---- helpers of the enriched generator ----

func firstSegment(parts []string) string {
	if len(parts) > 0 && identRe.MatchString(parts[0]) && !strings.Contains(parts[0], "/") {
		return parts[0]
	}
	return ""
}

// parenIfQuant: a quantifier as an operand of and/or must be parenthesised (the generator already does so; kept for safety).
func parenIfQuant(e string) string {
	t := strings.TrimSpace(e)
	if strings.HasPrefix(t, "any ") || strings.HasPrefix(t, "all ") {
		return "( " + t + " )"
	}
	return e
}

// splitQuant splits "( any S as b { body } )" into its header and body.
func splitQuant(e string) (header, body string, ok bool) {
	t := strings.TrimSpace(e)
	if !strings.HasPrefix(t, "( any ") && !strings.HasPrefix(t, "( all ") {
		return "", "", false
	}
	i := strings.Index(t, " { ")
	if i < 0 || !strings.HasSuffix(t, " } )") {
		return "", "", false
	}
	return t[2:i], t[i+3 : len(t)-4], true
}

// quantVar: the value (or, failing that, the first) binder of a quantifier header.
func quantVar(h string) string {
	i := strings.LastIndex(h, " as ")
	if i < 0 {
		return "x"
	}
	names := strings.Split(h[i+4:], ",")
	v := strings.TrimSpace(names[len(names)-1])
	if v == "_" {
		v = strings.TrimSpace(names[0])
	}
	return v
}
