package main

import (
	"bufio"
	"encoding/json"
	"fmt"
	"os"
	"path/filepath"
	"sort"
)

// Run collects what one property's harness run produces:
//
//	model_in.sexp  one command per line for ocaml/mdriver
//	expect.txt     the implementation's observation for the same line, in the driver's canonical output form
//	desc.jsonl     a human-readable description of every line (for replays)
//	summary.json   counts, distribution, samples, direct violations (property predicate evaluated on the implementation)
type Run struct {
	Prop    string
	Tier    string
	Seed    uint64
	Dir     string
	min, ex *bufio.Writer
	de      *bufio.Writer
	files   []*os.File
	lines   int

	Evaluations int            // property-predicate evaluations on the implementation
	Distinct    map[string]int // key of a non-trivial case -> count
	Dist        map[string]int // measured distribution (free-form keys)
	Samples     []interface{}
	Violations  []Violation
	Notes       []string
	Rule        string
	typesSeen   int // number of deftype lines already written
}

type Violation struct {
	Kind   string      `json:"kind"`   // which clause of the property failed
	Case   interface{} `json:"case"`   // the failing input, replayable
	Detail string      `json:"detail"` // what was observed vs expected
	Key    string      `json:"key"`    // identity used to match KNOWN_FINDINGS entries
}

func NewRun(prop, tier string, seed uint64, dir string) *Run {
	os.MkdirAll(dir, 0o755)
	r := &Run{Prop: prop, Tier: tier, Seed: seed, Dir: dir, Distinct: map[string]int{}, Dist: map[string]int{}}
	open := func(n string) *bufio.Writer {
		f, err := os.Create(filepath.Join(dir, n))
		if err != nil {
			panic(err)
		}
		r.files = append(r.files, f)
		return bufio.NewWriterSize(f, 1<<20)
	}
	r.min, r.ex, r.de = open("model_in.sexp"), open("expect.txt"), open("desc.jsonl")
	return r
}

// flushTypes writes the struct type definitions the serialiser has produced since the last call.
func (r *Run) flushTypes() {
	for ; r.typesSeen < len(sexpTypeDefs); r.typesSeen++ {
		r.raw(sexpTypeDefs[r.typesSeen], "-", nil)
	}
}

func (r *Run) raw(cmd, expect string, desc interface{}) {
	fmt.Fprintln(r.min, cmd)
	fmt.Fprintln(r.ex, expect)
	b, _ := json.Marshal(desc)
	r.de.Write(b)
	r.de.WriteByte('\n')
	r.lines++
}

// Model adds one model command together with the implementation's observation.
func (r *Run) Model(cmd, expect string, desc interface{}) {
	r.flushTypes()
	r.raw(cmd, expect, desc)
}

func (r *Run) Count(key string) { r.Dist[key]++ }

// Seen records a case for the distinct/non-trivial count.
func (r *Run) Seen(key string) { r.Distinct[key]++ }

func (r *Run) Sample(x interface{}) {
	if len(r.Samples) < 12 {
		r.Samples = append(r.Samples, x)
	}
}

func (r *Run) Violate(kind, key string, c interface{}, detail string) {
	if len(r.Violations) < 50 {
		r.Violations = append(r.Violations, Violation{Kind: kind, Case: c, Detail: detail, Key: key})
	}
	r.Dist["violation:"+kind]++
}

func (r *Run) Finish() {
	for _, t := range bufferAliasing {
		r.Violate("tree-aliases-the-input-buffer", "alias|"+truncate(t, 60), map[string]interface{}{"text": t}, "the tree returned by grammar.Parse changed when the caller overwrote the []byte it had passed")
	}
	bufferAliasing = nil
	r.min.Flush()
	r.ex.Flush()
	r.de.Flush()
	for _, f := range r.files {
		f.Close()
	}
	type kv struct {
		K string
		V int
	}
	var top []kv
	for k, v := range r.Dist {
		top = append(top, kv{k, v})
	}
	sort.Slice(top, func(i, j int) bool { return top[i].K < top[j].K })
	dist := map[string]int{}
	for _, e := range top {
		dist[e.K] = e.V
	}
	sum := map[string]interface{}{
		"property":            r.Prop,
		"tier":                r.Tier,
		"seed":                r.Seed,
		"evaluations":         r.Evaluations,
		"distinct_nontrivial": len(r.Distinct),
		"model_lines":         r.lines,
		"rule":                r.Rule,
		"distribution":        dist,
		"samples":             r.Samples,
		"violations":          r.Violations,
		"notes":               r.Notes,
	}
	b, _ := json.MarshalIndent(sum, "", " ")
	os.WriteFile(filepath.Join(r.Dir, "summary.json"), b, 0o644)
}
