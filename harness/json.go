package main

import (
	"bytes"
	"encoding/json"
	"fmt"
	"math"
	"reflect"
	"sort"
	"strings"
)

// JSON documents: generated as text, decoded by encoding/json (with or without UseNumber) into interface{} - the datum a
// typical user passes to Evaluate - and serialised for the documented interpreter of coq/JsonEval.v (jeval).

func genJSONText(depth int) string {
	scalars := []string{"null", "true", "false", "0", "1", "-1", "1.5", "1e3", "12345678901234567890", "9007199254740993", `""`, `"a"`, `"b"`, `"foo"`, `"x y"`, `"1"`, `"true"`, `"é"`, `"/usr/bin"`}
	if depth <= 0 || rng.Pct(35) {
		return pick(rng, scalars)
	}
	if rng.Bool() {
		n := rng.Intn(4)
		var els []string
		for i := 0; i < n; i++ {
			els = append(els, genJSONText(depth-1))
		}
		return "[" + strings.Join(els, ",") + "]"
	}
	keys := []string{"a", "b", "c", "k", "name", "tags", "items", "n", "x y", "0", ""}
	n := rng.Intn(5)
	var ms []string
	used := map[string]bool{}
	for i := 0; i < n; i++ {
		k := pick(rng, keys)
		if used[k] {
			continue
		}
		used[k] = true
		kb, _ := json.Marshal(k)
		ms = append(ms, string(kb)+":"+genJSONText(depth-1))
	}
	return "{" + strings.Join(ms, ",") + "}"
}

func decodeJSON(text string, useNumber bool) (interface{}, error) {
	dec := json.NewDecoder(bytes.NewReader([]byte(text)))
	if useNumber {
		dec.UseNumber()
	}
	var v interface{}
	err := dec.Decode(&v)
	return v, err
}

// sJSON serialises a decoded document for the model's json type (object members in sorted key order, as sIface does).
func sJSON(v interface{}) string {
	switch x := v.(type) {
	case nil:
		return "JNull"
	case bool:
		return fmt.Sprintf("(JBool %v)", x)
	case float64:
		return fmt.Sprintf("(JNum %d)", math.Float64bits(x))
	case json.Number:
		return "(JNumber " + hx(string(x)) + ")"
	case string:
		return "(JStr " + hx(x) + ")"
	case []interface{}:
		var p []string
		for _, e := range x {
			p = append(p, sJSON(e))
		}
		return "(JArr (" + strings.Join(p, " ") + "))"
	case map[string]interface{}:
		keys := make([]string, 0, len(x))
		for k := range x {
			keys = append(keys, k)
		}
		sort.Strings(keys)
		var p []string
		for _, k := range keys {
			p = append(p, "("+hx(k)+" "+sJSON(x[k])+")")
		}
		return "(JObj (" + strings.Join(p, " ") + "))"
	}
	panic("not a JSON value: " + reflect.TypeOf(v).String())
}

// jevalCmd: the documented interpreter on the document; the regexp table is built like for eval.
func jevalCmd(c *evalCase) string {
	var pats []string
	se := sExpr(c.ast, &pats)
	unk := "none"
	if c.unkSet {
		unk = "(some " + sJSON(c.unk) + ")"
	}
	return fmt.Sprintf("(jeval %s %s %s %s)", unk, se, sJSON(c.d), reTable(pats, c.d, c.unk))
}
