package main

import (
	"encoding/json"
	"fmt"
	"strings"

	bexpr "github.com/hashicorp/go-bexpr"
	"github.com/hashicorp/go-bexpr/grammar"
)

// Families added after the sixth round of seeded changes ("ordinary maintenance slips").

// ---------- C13: Expression() is the creation string byte for byte, whatever surrounds or fills the text ----------

func c13ExpressionText(r *Run) {
	cores := []string{"A == 1", "( A == 1 )", "A==1", "not A == 1", "B matches `^a`", "any L as x { x == a }", "A   ==\t1", "B == \"a b\"", "B == ` a `", "A == 1 and\nB == a", "\"/A\" == 1",
		// not valid UTF-8: refused as the library stands; whatever accepts them must hand the bytes back unchanged
		"B == \"caf\xe9\"", "B matches `\xff`", "B == `a\xc3`", "\xffA == 1", "A == 1 \xfe"}
	blanks := []string{"", " ", "  ", "\t", "\n", "\r\n", " \t\r\n ", "\n\n\n", "\r"}
	odd := []string{"\u00a0", "\u2003", "\v", "\f", "\u0085", "\ufeff", "\x00"} // not blanks of the language: creation fails, nothing to compare
	d := S1{A: 1, B: "a", L: []string{"a"}}
	for ci, core := range cores {
		for li, lead := range append(blanks, odd...) {
			for ti, trail := range append(blanks, odd...) {
				if (ci+li+ti)%3 != 0 && !(li == 0 || ti == 0) { // a third of the cross product, and every one-sided decoration
					continue
				}
				s := lead + core + trail
				for _, opts := range [][]bexpr.Option{nil, {bexpr.WithMaxExpressions(1 << 30)}, {bexpr.WithTagName("bexpr"), bexpr.WithUnknownValue(1)}} {
					ev, err := bexpr.CreateEvaluator(s, opts...)
					r.Evaluations++
					if err != nil || ev == nil {
						r.Count("expression-text:rejected")
						continue
					}
					r.Seen(fmt.Sprintf("expression-text|%d|%q|%q", ci, lead, trail))
					if got := ev.Expression(); got != s {
						r.Violate("expression-not-source", fmt.Sprintf("%q|%q", lead, trail), map[string]interface{}{"expression": s}, fmt.Sprintf("Expression() = %q, created from %q", got, s))
					}
					evalObs(ev, d)
					if got := ev.Expression(); got != s {
						r.Violate("expression-not-source", fmt.Sprintf("after-call|%q|%q", lead, trail), map[string]interface{}{"expression": s}, fmt.Sprintf("after one Evaluate Expression() = %q, created from %q", got, s))
					}
				}
			}
		}
	}
}

// ---------- C18: the tag name given at creation is the tag name of every lookup, whatever its spelling ----------

// TagT carries one field per way a name can be attached: the Go name only, a bexpr tag, an alt tag, a json tag.
type TagT struct {
	Plain int
	Bx    int `bexpr:"bx"`
	Al    int `alt:"al"`
	Js    int `json:"js"`
	Both  int `bexpr:"b2" alt:"a2" json:"j2"`
}

func c18TagNames(r *Run) {
	d := TagT{Plain: 1, Bx: 1, Al: 1, Js: 1, Both: 1}
	// which selector resolves under which tag name: a field answers to its tag under that tag name and to its Go name otherwise
	names := map[string]map[string]bool{ // tag name -> selectors that resolve
		"bexpr":  {"Plain": true, "bx": true, "Al": true, "Js": true, "b2": true},
		"alt":    {"Plain": true, "Bx": true, "al": true, "Js": true, "a2": true},
		"json":   {"Plain": true, "Bx": true, "Al": true, "js": true, "j2": true},
		"":       {"Plain": true, "Bx": true, "Al": true, "Js": true, "Both": true}, // no struct tag has an empty key: Go names
		"nosuch": {"Plain": true, "Bx": true, "Al": true, "Js": true, "Both": true},
		"BEXPR":  {"Plain": true, "Bx": true, "Al": true, "Js": true, "Both": true}, // tag keys are case sensitive
	}
	sels := []string{"Plain", "Bx", "bx", "Al", "al", "Js", "js", "Both", "b2", "a2", "j2"}
	for tag, ok := range names {
		lists := map[string][]bexpr.Option{
			"alone":                 {bexpr.WithTagName(tag)},
			"last-of-repeated":      {bexpr.WithTagName("alt"), bexpr.WithTagName("json"), bexpr.WithTagName(tag)},
			"after-bexpr":           {bexpr.WithTagName("bexpr"), bexpr.WithTagName(tag)},
			"with-identity-hook":    {bexpr.WithHookFn(hookFn(1)), bexpr.WithTagName(tag)},
			"before-unknown":        {bexpr.WithTagName(tag), bexpr.WithMaxExpressions(0), bexpr.WithHookFn(nil)},
			"between-other-options": {bexpr.WithMaxExpressions(1 << 20), bexpr.WithTagName(tag), bexpr.WithHookFn(hookFn(1))},
		}
		for lname, opts := range lists {
			for _, sel := range sels {
				for _, form := range []string{"%s == 1", "%s != 1", "not %s == 1", "%s == 1 and Plain == 1", "%s is empty"} {
					e := fmt.Sprintf(form, sel)
					want := "E"
					if ok[sel] {
						want = map[string]string{"%s == 1": "T", "%s != 1": "F", "not %s == 1": "F", "%s == 1 and Plain == 1": "T", "%s is empty": "E"}[form]
					}
					ev, err := bexpr.CreateEvaluator(e, opts...)
					if err != nil {
						r.Violate("tag-name-governs-lookup", "create|"+tag+"|"+lname, map[string]interface{}{"expression": e, "tag": tag, "options": lname}, "CreateEvaluator failed: "+err.Error())
						continue
					}
					for call := 0; call < 2; call++ {
						o := evalObs(ev, d)
						r.Evaluations++
						if strings.HasPrefix(o, "E") {
							o = "E"
						}
						r.Seen("tag-name|" + tag + "|" + lname + "|" + sel + "|" + form + "|" + o)
						if o != want {
							r.Violate("tag-name-governs-lookup", tag+"|"+lname+"|"+sel+"|"+form, map[string]interface{}{"expression": e, "tag": tag, "options": lname, "datum": describe(d), "call": call + 1},
								fmt.Sprintf("under tag name %q selector %s: expected %s got %s", tag, sel, want, o))
						}
					}
				}
			}
		}
	}
}

// ---------- C13: repeated calls on one evaluator over maps whose keys an "improved" order could tie ----------

// A quantifier that visits map entries in an order that is not a total order of the keys (case folded, numeric aware,
// normalised) answers differently from call to call when one entry errors and another decides. The data are fixed; every
// call is compared with the first call and with a fresh evaluator.
func c13TiedKeyOrders(r *Run) {
	sets := [][]string{{"name", "Name", "NAME"}, {"a", "A", "b"}, {"7", "07", "+7"}, {"9", "10", "1a"}, {"é", "é", "É"}, {"k", "K", "k "}, {"ß", "ss", "SS"}, {"x", "y", "z"}}
	vals := []interface{}{"abc", 5, "zzz"} // against `v == "abc"`: decisive true, error, false
	exprs := []string{`any m as _, v { v == "abc" }`, `all m as _, v { v == "abc" }`, `any m as k, v { v == "abc" and k != "q" }`, `all m as k { m[k] != 5 }`}
	for si, keys := range sets {
		for rot := 0; rot < 3; rot++ {
			m := map[string]interface{}{}
			for i, k := range keys {
				m[k] = vals[(i+rot)%3]
			}
			d := map[string]interface{}{"m": m}
			for _, e := range exprs {
				ev, err := bexpr.CreateEvaluator(e)
				if err != nil {
					continue
				}
				first := evalObs(ev, d)
				counts := map[string]int{first: 1}
				for k := 1; k < 120; k++ {
					o := evalObs(ev, d)
					if k%10 == 0 {
						if fresh, err2 := bexpr.CreateEvaluator(e); err2 == nil {
							counts[evalObs(fresh, d)]++
						}
					}
					counts[o]++
				}
				r.Evaluations += 132
				r.Seen(fmt.Sprintf("tied-key-orders|%d|%d|%s|%s", si, rot, e, first))
				if len(counts) != 1 {
					r.Violate("history-dependent", fmt.Sprintf("tied-keys|%d|%s", si, e), map[string]interface{}{"expression": e, "datum": describe(d)}, "the same call on the same datum: "+fmt.Sprint(counts))
				}
			}
		}
	}
}

// ---------- C13: documents decoded with UseNumber stay as they were ----------

func c13JSONNumbers(r *Run) {
	mk := func() interface{} {
		var d interface{}
		dec := json.NewDecoder(strings.NewReader(`{"ports":[80,443.5,"x",null,[1,2]],"n":5,"m":{"a":1,"b":[2,3]},"items":[{"ports":[80]},{"ports":[81.5]}]}`))
		dec.UseNumber()
		if err := dec.Decode(&d); err != nil {
			panic(err)
		}
		return d
	}
	exprs := []string{"80 in ports", "ports contains 443.5", "n == 5", "any ports as p { p == 80 }", "1 in m.b or 2 in m.b", "m.a != 1", "x in ports", "any items as it { 80 in it.ports }", "ports is not empty", "81.5 not in ports"}
	for _, e := range exprs {
		d := mk()
		before := sIface(d)
		ev, err := bexpr.CreateEvaluator(e)
		if err != nil {
			continue
		}
		for k := 0; k < 3; k++ {
			o := evalObs(ev, d)
			r.Evaluations++
			r.Seen("json-numbers|" + e + "|" + o)
			if after := sIface(d); after != before {
				r.Violate("datum-modified", "json-numbers|"+e, map[string]interface{}{"expression": e, "datum": describe(mk())}, "after Evaluate the document is "+truncate(describe(d), 300))
				break
			}
		}
		items := mk().(map[string]interface{})["items"]
		ib := sIface(items)
		if flt, err := bexpr.CreateFilter(strings.Replace(e, "it.ports", "ports", 1)); err == nil && flt != nil {
			func() {
				defer func() { recover() }()
				flt.Execute(items)
			}()
			r.Evaluations++
			if sIface(items) != ib {
				r.Violate("datum-modified", "json-numbers-filter|"+e, map[string]interface{}{"expression": e, "datum": describe(mk())}, "after Execute the list is "+truncate(describe(items), 300))
			}
		}
	}
}

// ---------- C03: chains that have to be evaluated to their last term ----------

func c03FullyEvaluatedChains(r *Run) {
	for _, n := range []int{2, 17, 64, 127, 128, 129, 130, 131, 200, 257, 513, 1025, 3000} {
		var eq, ne []string
		for i := 1; i <= n; i++ {
			eq = append(eq, fmt.Sprintf("b == %d", i))
			ne = append(ne, fmt.Sprintf("b != %d", i))
		}
		orChain, andChain := strings.Join(eq, " or "), strings.Join(ne, " and ")
		last, none := map[string]interface{}{"a": 0, "b": n}, map[string]interface{}{"a": 0, "b": 0}
		for _, t := range []struct {
			name, e string
			d       interface{}
			want    string
		}{
			{"or-last-true", orChain, last, "T"}, {"or-all-false", orChain, none, "F"}, {"and-last-false", andChain, last, "F"}, {"and-all-true", andChain, none, "T"},
			{"not-or", "not ( " + orChain + " )", last, "F"}, {"not-and", "not ( " + andChain + " )", last, "T"}, {"or-then-error", orChain + " or zz.q == 1", none, "E"}, {"and-then-error", andChain + " and zz.q == 1", none, "E"},
			{"a-or-chain", "a == 1 or " + orChain, last, "T"}, {"a-and-chain", "a != 1 and " + andChain, none, "T"}, {"quantified", "any l as x { " + orChain + " }", map[string]interface{}{"b": n, "l": []int{1}}, "T"},
		} {
			o := exprObsOnce(t.e, t.d)
			r.Evaluations++
			r.Seen(fmt.Sprintf("full-chain|%s|%d|%s", t.name, n, o))
			if classOf(o) != t.want {
				r.Violate("chain-outcome", fmt.Sprintf("%s|%d", t.name, n), map[string]interface{}{"expression": truncate(t.e, 200), "terms": n, "datum": describe(t.d)}, "a chain of "+fmt.Sprint(n)+" terms decided by its last term: expected "+t.want+" got "+o)
			}
		}
	}
}

// ---------- C10: a returned evaluator is evaluated on every kind of value, with every binding mode and boundary literals ----------

func c10KindsSweep(r *Run) {
	kinds := append(kindMatrix(), kindSample{"MapNamedKey", map[NStr]int{"a": 1, "b": 2}}, kindSample{"MapNamedKeyStr", map[NStr]string{"a": "x"}}, kindSample{"MapNamedKeyIface", map[NStr]interface{}{"a": 1, "b": "a"}},
		kindSample{"MapNamedKeyStruct", map[NStr]S1{"a": {A: 1}}}, kindSample{"SliceF32", []float32{1, 2}}, kindSample{"NamedF32", NF32(1)}, kindSample{"IfaceSliceF32", []interface{}{float32(1), 1.5, nil}},
		kindSample{"MapIfaceKeyStr", map[interface{}]interface{}{"a": 1, "b": 2}}, kindSample{"MapByteKey", map[uint8]string{1: "a"}}, kindSample{"PtrPtrString", func() **string { s := "a"; p := &s; return &p }()},
		kindSample{"PtrSlicePtr", &[]*int{nil}}, kindSample{"JSONNumber", json.Number("1")}, kindSample{"JSONNumberBad", json.Number("x")})
	forms := []string{"any x as _, v { v == %s }", "any x as k, v { k == %s or v == %s }", "all x as k { k != %s }", "any x as k, _ { k == %s }", "x == %s", "x != %s", "%s in x", "%s not in x", "x is empty", "x is not empty", "x matches %s", "any x as v { v is empty }"}
	lits := []string{`1`, `"a"`, `1e39`, `"1e39"`, `"-1e39"`, `1000000000000000000000000000000000000000`, `""`, `"-"`, `"+"`, "``", `"0x"`, `"1e400"`, `"340282356779733661637539395458142568448"`}
	for _, ks := range kinds {
		for _, f := range forms {
			for li, lit := range lits {
				if !strings.Contains(f, "%s") && li > 0 {
					continue
				}
				e := strings.ReplaceAll(f, "%s", lit)
				for _, d := range []interface{}{map[string]interface{}{"x": ks.v}, struct{ X interface{} }{ks.v}} {
					ee := e
					if _, isMap := d.(map[string]interface{}); !isMap {
						ee = strings.ReplaceAll(" "+e, " x", " X")[1:]
					}
					ev, err := bexpr.CreateEvaluator(ee)
					if err != nil || ev == nil {
						continue
					}
					o := evalObs(ev, d)
					r.Evaluations++
					r.Seen("kinds-sweep|" + f + "|" + ks.name + "|" + lit + "|" + o)
					if o == "P" {
						r.Violate("evaluate-panics", "sweep|"+f+"|"+ks.name+"|"+lit, map[string]interface{}{"expression": ee, "datum": describe(d)}, "Evaluate panicked")
					}
				}
			}
		}
	}
}

// ---------- C13: patterns that do not compile, reached more than once ----------

func c13BadPatternsTwice(r *Run) {
	d := S1{B: "x", L: []string{"a", "b"}, M: map[string]int{"k": 1}}
	absent := map[string]interface{}{"M": map[string]interface{}{}}
	for _, e := range []string{`B matches "web-("`, "B not matches `[`", `any L as x { x matches "(" }`, `A == 1 and B matches "a{2,1}"`, `M.zz matches "(" or B matches "("`, "not B matches `*`"} {
		ev, err := bexpr.CreateEvaluator(e)
		if err != nil {
			continue
		}
		for k, datum := range []interface{}{absent, d, d, absent, d, d} {
			o := evalObs(ev, datum)
			fresh := "NOCREATE"
			if ev2, err2 := bexpr.CreateEvaluator(e); err2 == nil {
				fresh = evalObs(ev2, datum)
			}
			r.Evaluations += 2
			r.Seen(fmt.Sprintf("bad-pattern-twice|%s|%d|%s", e, k, o))
			if o != fresh {
				r.Violate("history-dependent", "bad-pattern|"+e, map[string]interface{}{"expression": e, "datum": describe(datum), "call": k + 1}, "call "+fmt.Sprint(k+1)+" on a used evaluator: "+o+", on a fresh one: "+fresh)
			}
		}
	}
}

// ---------- C18: the unknown value is what an unresolved selector evaluates to, whatever it is and wherever the selector ends ----------

func c18UnknownSubstitution(r *Run) {
	type pair struct {
		missing func() interface{}
		with    func(u interface{}) interface{}
		sel     string
	}
	pairs := []pair{
		{func() interface{} { return map[string]interface{}{"meta": map[string]interface{}{"k": 1}} }, func(u interface{}) interface{} {
			return map[string]interface{}{"meta": map[string]interface{}{"k": 1, "version": u}}
		}, "meta.version"},
		{func() interface{} { return map[string]interface{}{"a": 1} }, func(u interface{}) interface{} { return map[string]interface{}{"a": 1, "zz": u} }, "zz"},
		{func() interface{} { return S7{Labels: map[string]string{"a": "b"}} }, nil, "lab.zz"},
		{func() interface{} {
			return map[string]interface{}{"a": map[string]interface{}{"b": map[string]interface{}{}}}
		}, func(u interface{}) interface{} {
			return map[string]interface{}{"a": map[string]interface{}{"b": map[string]interface{}{"c": u}}}
		}, `"/a/b/c"`},
	}
	// the same for a selector that goes through a quantifier's value variable: the element that lacks the key against the element that holds u
	for ui, u := range []interface{}{"none", "", 1, nil, true, json.Number("7"), json.Number("none")} {
		for _, f := range []string{"any items as it { it.zone == none }", `all items as _, it { it.zone != "none" }`, "any items as it { it.zone is empty }", "any items as it { on in it.zone }", "any m as k, v { v.zone == none }", "all items as it { it.meta.zone == none }"} {
			missing := map[string]interface{}{"items": []interface{}{map[string]interface{}{"a": 1, "meta": map[string]interface{}{}}, map[string]interface{}{"zone": "x", "meta": map[string]interface{}{"zone": "x"}}}, "m": map[string]interface{}{"p": map[string]interface{}{"a": 1}}}
			with := map[string]interface{}{"items": []interface{}{map[string]interface{}{"a": 1, "zone": u, "meta": map[string]interface{}{"zone": u}}, map[string]interface{}{"zone": "x", "meta": map[string]interface{}{"zone": "x"}}}, "m": map[string]interface{}{"p": map[string]interface{}{"a": 1, "zone": u}}}
			got, want := exprObs(f, missing, bexpr.WithUnknownValue(u)), exprObs(f, with)
			r.Evaluations += 2
			r.Seen(fmt.Sprintf("unknown-through-binding|%d|%s|%s", ui, f, got))
			if classOf(got) != classOf(want) {
				r.Violate("unknown-value-not-substituted", fmt.Sprintf("binding|%d|%s", ui, f), map[string]interface{}{"expression": f, "datum": describe(missing), "unknown_value": describe(u)}, "with the unknown value "+got+"; on the datum whose element holds that value: "+want)
			}
		}
	}
	us := []interface{}{"none", "", 1, nil, []interface{}{"on", 1}, true, 1.5, map[string]interface{}{"on": 1}, json.Number("7"), json.Number("1.5"), json.Number("none"), int8(7), uint16(7), float32(1.5)}
	forms := []string{"%s == none", `%s != "none"`, "on in %s", "on not in %s", "%s is empty", "%s is not empty", "%s matches `^n`", "%s == 1", "any %s as x { x == on }", "all %s as x { x != on }", "not %s == none", "%s == none or %s == 1", `%s == "0x7"`, `%s != "07"`, "%s == 7", "7 in %s", "%s == 1.5", "%s matches `^7$`"}
	for pi, p := range pairs {
		for ui, u := range us {
			for _, f := range forms {
				e := strings.ReplaceAll(f, "%s", p.sel)
				if strings.Contains(f, " as x ") {
					// a quantifier binds its variable to a PATH below the selector: over a substituted list that path does not exist in the
					// datum (recorded interpretation, DESIGN section 8), so only scalar unknown values are compared for quantified forms
					switch u.(type) {
					case []interface{}, map[string]interface{}:
						continue
					}
				}
				got := exprObs(e, p.missing(), bexpr.WithUnknownValue(u))
				r.Evaluations++
				r.Seen(fmt.Sprintf("unknown-substitution|%d|%d|%s|%s", pi, ui, f, got))
				c := map[string]interface{}{"expression": e, "datum": describe(p.missing()), "unknown_value": describe(u)}
				if p.with != nil {
					if want := exprObs(e, p.with(u)); classOf(got) != classOf(want) {
						r.Violate("unknown-value-not-substituted", fmt.Sprintf("%d|%d|%s", pi, ui, f), c, "with the unknown value "+got+"; on the datum that holds that value there: "+want)
					}
				}
				// repeated options: the last one is the unknown value, also when it is nil
				if again := exprObs(e, p.missing(), bexpr.WithUnknownValue("earlier"), bexpr.WithUnknownValue(u)); again != got {
					r.Violate("last-wins", fmt.Sprintf("unknown|%d|%d|%s", pi, ui, f), c, "WithUnknownValue(earlier), WithUnknownValue(u): "+again+"; WithUnknownValue(u) alone: "+got)
				}
			}
		}
	}
}

// ---------- round ten: families added after the tenth batch of seeded changes ----------

// C04: subjects beyond any sensible size cap - `not matches` stays the negation of `matches`
func c04HugeSubjects(r *Run) {
	for _, n := range []int{65535, 65536, 65537, 1 << 20} {
		for _, d := range []interface{}{map[string]interface{}{"body": strings.Repeat("a", n)}, map[string]interface{}{"body": []byte(strings.Repeat("a", n))}} {
			for _, p := range []string{"`^a+$`", "`b`", "`a$`"} {
				pos, neg, wrapped := exprObsOnce("body matches "+p, d), exprObsOnce("body not matches "+p, d), exprObsOnce("not ( body matches "+p+" )", d)
				r.Evaluations += 3
				r.Seen(fmt.Sprintf("huge-subject|%d|%s|%s", n, p, pos))
				c := map[string]interface{}{"expression": "body [not] matches " + p, "datum": fmt.Sprintf("body of %d bytes (%T)", n, d.(map[string]interface{})["body"])}
				if neg != flipIfOK(pos) {
					r.Violate("complement", fmt.Sprintf("huge|%d|%s", n, p), c, "matches: "+pos+", not matches: "+neg)
				}
				if neg != wrapped {
					r.Violate("not-wrapper", fmt.Sprintf("huge|%d|%s", n, p), c, "not matches: "+neg+", not ( matches ): "+wrapped)
				}
			}
		}
	}
}

// C08: tag names that are legal struct-tag keys without being identifiers
type OddTags struct {
	Name  string
	Token string `api-filter:"-" x.y:"-" a/b:"tok"`
	Ren   string `api-filter:"ren" x.y:"ren" a/b:"-"`
}

func c08OddTagNames(r *Run) {
	a := OddTags{Name: "n", Token: "alpha", Ren: "r"}
	b := OddTags{Name: "n", Token: "beta", Ren: "r"}
	for _, tag := range []string{"api-filter", "x.y"} {
		for _, e := range []string{`Token == "alpha"`, "Token is empty", `Token matches "a"`, `"alpha" in Token`, "ren == r", "Ren == r", `any L as x { x.Token == "alpha" }`} {
			var da, db interface{} = a, b
			if strings.HasPrefix(e, "any") {
				da, db = map[string]interface{}{"L": []OddTags{a}}, map[string]interface{}{"L": []OddTags{b}}
			}
			ca := evalCase{expr: e, d: da, tag: tag}
			cb := evalCase{expr: e, d: db, tag: tag}
			oa, ob := rawOutcome(&ca), rawOutcome(&cb)
			r.Evaluations += 2
			r.Seen("odd-tag|" + tag + "|" + e + "|" + classOf(oa))
			if oa != ob {
				r.Violate("hidden-field-observable", "odd-tag|"+tag+"|"+e, map[string]interface{}{"expression": e, "tag": tag, "datum": describe(da), "datum_b": describe(db)}, oa+" vs "+ob)
			}
		}
		// the renamed field answers to its tag under that tag name, and only to it
		for e, want := range map[string]string{"ren == r": "T", "Ren == r": "E", `Token == "alpha"`: "E"} {
			c := evalCase{expr: e, d: a, tag: tag}
			if o := classOf(c.obs()); o != want {
				r.Violate("tag-name-governs-lookup", "odd-tag|"+tag+"|"+e, map[string]interface{}{"expression": e, "tag": tag, "datum": describe(a)}, "expected "+want+" got "+o)
			}
		}
	}
}

// C14: an entry replaced in place between two calls (same map, same length): the second call sees the map as it is now
func c14ReplacedInPlace(r *Run) {
	for _, e := range []string{"any m as _, v { v.x == 1 }", "all m as k { k != z }", "any m as k, v { k == z and v.x == 2 }", "all m as _, v { v.x != 2 }"} {
		ev, err := bexpr.CreateEvaluator(e)
		if err != nil {
			continue
		}
		for round := 0; round < 40; round++ {
			m := map[string]interface{}{"a": map[string]interface{}{"x": 1}, "b": map[string]interface{}{"x": 3}, "c": map[string]interface{}{"x": 4}}
			d := map[string]interface{}{"m": m}
			evalObs(ev, d)
			delete(m, "a")
			m["z"] = map[string]interface{}{"x": 2}
			got := evalObs(ev, d)
			want := exprObsOnce(e, map[string]interface{}{"m": map[string]interface{}{"b": map[string]interface{}{"x": 3}, "c": map[string]interface{}{"x": 4}, "z": map[string]interface{}{"x": 2}}})
			r.Evaluations += 3
			r.Seen("replaced-in-place|" + e + "|" + got)
			if got != want {
				r.Violate("order-dependent-evaluate", "replaced-in-place|"+e, map[string]interface{}{"expression": e, "datum": describe(d)}, "after replacing an entry in place: "+got+"; a fresh evaluator on an equal fresh map: "+want)
				break
			}
		}
	}
}

// C16: literals that differ only in the blanks inside them, created one after the other
func c16BlankTwinsInLiterals(r *Run) {
	twins := [][]string{{"a b", "a  b", "a\tb", "a\nb", "a b "}, {" ", "  ", "\t", ""}, {"x", " x", "x ", " x "}}
	for _, grp := range twins {
		for _, style := range []int{0, 1} {
			for _, s := range grp {
				lit := quoteDouble(s)
				if style == 1 {
					if strings.ContainsAny(s, "`\r") {
						continue
					}
					lit = "`" + s + "`"
				}
				for _, x := range grp {
					e := "X == " + lit
					o := exprObs(e, map[string]interface{}{"X": x})
					r.Evaluations++
					r.Seen(fmt.Sprintf("blank-twins|%q|%q|%d|%s", s, x, style, o))
					want := "F"
					if x == s {
						want = "T"
					}
					if o != want {
						r.Violate("literal-fidelity", fmt.Sprintf("blank-twins|%q|%q", s, x), map[string]interface{}{"expression": e, "datum": fmt.Sprintf("X = %q", x)}, "expected "+want+" got "+o)
					}
				}
			}
		}
	}
}

// C03: evaluators for A, B and A or B / A and B, each REUSED over documents in which a field changes kind
func c03ReusedAcrossKinds(r *Run) {
	docs := []interface{}{map[string]interface{}{"ready": true, "load": 2}, map[string]interface{}{"ready": false, "load": 1.5}, map[string]interface{}{"ready": false, "load": "1.5"}, map[string]interface{}{"ready": true, "load": int8(1)}, map[string]interface{}{"ready": false, "load": 2}}
	for _, ab := range [][2]string{{"ready == true", "load == 1.5"}, {"ready != true", "load == 2"}, {"ready == true", `load == "1.5"`}} {
		evs := map[string]*bexpr.Evaluator{}
		for name, e := range map[string]string{"A": ab[0], "B": ab[1], "or": "( " + ab[0] + " ) or ( " + ab[1] + " )", "and": "( " + ab[0] + " ) and ( " + ab[1] + " )"} {
			if ev, err := bexpr.CreateEvaluator(e); err == nil {
				evs[name] = ev
			}
		}
		if len(evs) != 4 {
			continue
		}
		for pass := 0; pass < 2; pass++ {
			for di, d := range docs {
				a, b := evalObs(evs["A"], d), evalObs(evs["B"], d)
				or, and := evalObs(evs["or"], d), evalObs(evs["and"], d)
				r.Evaluations += 4
				r.Seen(fmt.Sprintf("reused-across-kinds|%s|%d|%s%s", ab[1], di, a, b))
				wantOr, wantAnd := b, b
				if classOf(a) == "E" || a == "T" {
					wantOr = a
				}
				if classOf(a) == "E" || a == "F" {
					wantAnd = a
				}
				c := map[string]interface{}{"A": ab[0], "B": ab[1], "datum": describe(d), "document_number": di + 1 + pass*len(docs)}
				if classOf(or) != classOf(wantOr) {
					r.Violate("or-table", fmt.Sprintf("reused|%s|%d", ab[1], di), c, "A: "+a+", B: "+b+", A or B on the same (reused) evaluators: "+or)
				}
				if classOf(and) != classOf(wantAnd) {
					r.Violate("and-table", fmt.Sprintf("reused|%s|%d", ab[1], di), c, "A: "+a+", B: "+b+", A and B on the same (reused) evaluators: "+and)
				}
				if fresh := exprObsOnce(ab[1], d); classOf(fresh) != classOf(b) {
					r.Violate("history-dependent", fmt.Sprintf("reused-b|%s|%d", ab[1], di), c, "B on a reused evaluator: "+b+", on a fresh one: "+fresh)
				}
			}
		}
	}
	// a quantifier that cannot be evaluated at all, in the operand the short-circuit skips
	d := map[string]interface{}{"a": 1, "m": map[string]interface{}{"k": 1}}
	for e, want := range map[string]string{"a == 1 or ( all m as k, k { k == a } )": "T", "a == 2 and ( any m as k, k { k == a } )": "F", "any m as x { a == 1 or ( all m as k, k { k == a } ) }": "T", "a == 2 or ( all m as k, k { k == a } )": "E"} {
		o := exprObsOnce(e, d)
		r.Evaluations++
		r.Seen("unreached-bad-quantifier|" + e)
		if classOf(o) != want {
			r.Violate("short-circuit", "unreached-bad-quantifier|"+e, map[string]interface{}{"expression": e, "datum": describe(d)}, "expected "+want+" got "+o)
		}
	}
}

// C18: a budget that suffices for the parse says nothing about the size of the data
func c18BigCollectionBudget(r *Run) {
	big := make([]int, 6000)
	for i := range big {
		big[i] = i + 1
	}
	d := map[string]interface{}{"big": big, "m": map[string]interface{}{"k": big}}
	for _, e := range []string{"any big as x { x == 6000 }", "all big as i, x { x != 0 and i != 7000 }", "any m.k as x { x == 5999 or x == 6000 }", "6000 in big"} {
		base := exprObsOnce(e, d)
		_, _, N := grammar.VerifParse("", []byte(e))
		for _, b := range []uint64{N, N + 1, 2 * N, 5000, 10000, 1 << 20} {
			o := exprObsOnce(e, d, bexpr.WithMaxExpressions(b))
			r.Evaluations++
			r.Seen(fmt.Sprintf("big-collection-budget|%s|%d", e, b))
			if o != base {
				r.Violate("neutral-setting", fmt.Sprintf("big-collection|%s|%d", e, b), map[string]interface{}{"expression": e, "datum": "a list of 6000 integers", "budget": b, "parse_steps": N}, "with the budget "+o+", without "+base)
			}
		}
	}
}
