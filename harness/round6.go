package main

import (
	"encoding/json"
	"fmt"
	"strings"

	bexpr "github.com/hashicorp/go-bexpr"
)

// Families added after the sixth round of seeded changes ("ordinary maintenance slips").

// ---------- C13: Expression() is the creation string byte for byte, whatever surrounds or fills the text ----------

func c13ExpressionText(r *Run) {
	cores := []string{"A == 1", "( A == 1 )", "A==1", "not A == 1", "B matches `^a`", "any L as x { x == a }", "A   ==\t1", "B == \"a b\"", "B == ` a `", "A == 1 and\nB == a", "\"/A\" == 1"}
	blanks := []string{"", " ", "  ", "\t", "\n", "\r\n", " \t\r\n ", "\n\n\n", "\r"}
	odd := []string{"\u00a0", "\u2003", "\v", "\f", "\u0085", "\ufeff", "\x00"} // not blanks of the language: creation fails, nothing to compare
	d := S1{A: 1, B: "a", L: []string{"a"}}
	for ci, core := range cores {
		for li, lead := range append(blanks, odd...) {
			for ti, trail := range append(blanks, odd...) {
				if (ci+li+ti)%3 != 0 && !(li == 0 || ti == 0) { // a third of the cross product, and every one-sided decoration
					continue
				}
				s := lead + core + trail
				for _, opts := range [][]bexpr.Option{nil, {bexpr.WithMaxExpressions(1 << 30)}, {bexpr.WithTagName("bexpr"), bexpr.WithUnknownValue(1)}} {
					ev, err := bexpr.CreateEvaluator(s, opts...)
					r.Evaluations++
					if err != nil || ev == nil {
						r.Count("expression-text:rejected")
						continue
					}
					r.Seen(fmt.Sprintf("expression-text|%d|%q|%q", ci, lead, trail))
					if got := ev.Expression(); got != s {
						r.Violate("expression-not-source", fmt.Sprintf("%q|%q", lead, trail), map[string]interface{}{"expression": s}, fmt.Sprintf("Expression() = %q, created from %q", got, s))
					}
					evalObs(ev, d)
					if got := ev.Expression(); got != s {
						r.Violate("expression-not-source", fmt.Sprintf("after-call|%q|%q", lead, trail), map[string]interface{}{"expression": s}, fmt.Sprintf("after one Evaluate Expression() = %q, created from %q", got, s))
					}
				}
			}
		}
	}
}

// ---------- C18: the tag name given at creation is the tag name of every lookup, whatever its spelling ----------

// TagT carries one field per way a name can be attached: the Go name only, a bexpr tag, an alt tag, a json tag.
type TagT struct {
	Plain int
	Bx    int `bexpr:"bx"`
	Al    int `alt:"al"`
	Js    int `json:"js"`
	Both  int `bexpr:"b2" alt:"a2" json:"j2"`
}

func c18TagNames(r *Run) {
	d := TagT{Plain: 1, Bx: 1, Al: 1, Js: 1, Both: 1}
	// which selector resolves under which tag name: a field answers to its tag under that tag name and to its Go name otherwise
	names := map[string]map[string]bool{ // tag name -> selectors that resolve
		"bexpr":  {"Plain": true, "bx": true, "Al": true, "Js": true, "b2": true},
		"alt":    {"Plain": true, "Bx": true, "al": true, "Js": true, "a2": true},
		"json":   {"Plain": true, "Bx": true, "Al": true, "js": true, "j2": true},
		"":       {"Plain": true, "Bx": true, "Al": true, "Js": true, "Both": true}, // no struct tag has an empty key: Go names
		"nosuch": {"Plain": true, "Bx": true, "Al": true, "Js": true, "Both": true},
		"BEXPR":  {"Plain": true, "Bx": true, "Al": true, "Js": true, "Both": true}, // tag keys are case sensitive
	}
	sels := []string{"Plain", "Bx", "bx", "Al", "al", "Js", "js", "Both", "b2", "a2", "j2"}
	for tag, ok := range names {
		lists := map[string][]bexpr.Option{
			"alone":                 {bexpr.WithTagName(tag)},
			"last-of-repeated":      {bexpr.WithTagName("alt"), bexpr.WithTagName("json"), bexpr.WithTagName(tag)},
			"after-bexpr":           {bexpr.WithTagName("bexpr"), bexpr.WithTagName(tag)},
			"with-identity-hook":    {bexpr.WithHookFn(hookFn(1)), bexpr.WithTagName(tag)},
			"before-unknown":        {bexpr.WithTagName(tag), bexpr.WithMaxExpressions(0), bexpr.WithHookFn(nil)},
			"between-other-options": {bexpr.WithMaxExpressions(1 << 20), bexpr.WithTagName(tag), bexpr.WithHookFn(hookFn(1))},
		}
		for lname, opts := range lists {
			for _, sel := range sels {
				for _, form := range []string{"%s == 1", "%s != 1", "not %s == 1", "%s == 1 and Plain == 1", "%s is empty"} {
					e := fmt.Sprintf(form, sel)
					want := "E"
					if ok[sel] {
						want = map[string]string{"%s == 1": "T", "%s != 1": "F", "not %s == 1": "F", "%s == 1 and Plain == 1": "T", "%s is empty": "E"}[form]
					}
					ev, err := bexpr.CreateEvaluator(e, opts...)
					if err != nil {
						r.Violate("tag-name-governs-lookup", "create|"+tag+"|"+lname, map[string]interface{}{"expression": e, "tag": tag, "options": lname}, "CreateEvaluator failed: "+err.Error())
						continue
					}
					for call := 0; call < 2; call++ {
						o := evalObs(ev, d)
						r.Evaluations++
						if strings.HasPrefix(o, "E") {
							o = "E"
						}
						r.Seen("tag-name|" + tag + "|" + lname + "|" + sel + "|" + form + "|" + o)
						if o != want {
							r.Violate("tag-name-governs-lookup", tag+"|"+lname+"|"+sel+"|"+form, map[string]interface{}{"expression": e, "tag": tag, "options": lname, "datum": describe(d), "call": call + 1},
								fmt.Sprintf("under tag name %q selector %s: expected %s got %s", tag, sel, want, o))
						}
					}
				}
			}
		}
	}
}

// ---------- C13: repeated calls on one evaluator over maps whose keys an "improved" order could tie ----------

// A quantifier that visits map entries in an order that is not a total order of the keys (case folded, numeric aware,
// normalised) answers differently from call to call when one entry errors and another decides. The data are fixed; every
// call is compared with the first call and with a fresh evaluator.
func c13TiedKeyOrders(r *Run) {
	sets := [][]string{{"name", "Name", "NAME"}, {"a", "A", "b"}, {"7", "07", "+7"}, {"9", "10", "1a"}, {"é", "é", "É"}, {"k", "K", "k "}, {"ß", "ss", "SS"}, {"x", "y", "z"}}
	vals := []interface{}{"abc", 5, "zzz"} // against `v == "abc"`: decisive true, error, false
	exprs := []string{`any m as _, v { v == "abc" }`, `all m as _, v { v == "abc" }`, `any m as k, v { v == "abc" and k != "q" }`, `all m as k { m[k] != 5 }`}
	for si, keys := range sets {
		for rot := 0; rot < 3; rot++ {
			m := map[string]interface{}{}
			for i, k := range keys {
				m[k] = vals[(i+rot)%3]
			}
			d := map[string]interface{}{"m": m}
			for _, e := range exprs {
				ev, err := bexpr.CreateEvaluator(e)
				if err != nil {
					continue
				}
				first := evalObs(ev, d)
				counts := map[string]int{first: 1}
				for k := 1; k < 120; k++ {
					o := evalObs(ev, d)
					if k%10 == 0 {
						if fresh, err2 := bexpr.CreateEvaluator(e); err2 == nil {
							counts[evalObs(fresh, d)]++
						}
					}
					counts[o]++
				}
				r.Evaluations += 132
				r.Seen(fmt.Sprintf("tied-key-orders|%d|%d|%s|%s", si, rot, e, first))
				if len(counts) != 1 {
					r.Violate("history-dependent", fmt.Sprintf("tied-keys|%d|%s", si, e), map[string]interface{}{"expression": e, "datum": describe(d)}, "the same call on the same datum: "+fmt.Sprint(counts))
				}
			}
		}
	}
}

// ---------- C13: documents decoded with UseNumber stay as they were ----------

func c13JSONNumbers(r *Run) {
	mk := func() interface{} {
		var d interface{}
		dec := json.NewDecoder(strings.NewReader(`{"ports":[80,443.5,"x",null,[1,2]],"n":5,"m":{"a":1,"b":[2,3]},"items":[{"ports":[80]},{"ports":[81.5]}]}`))
		dec.UseNumber()
		if err := dec.Decode(&d); err != nil {
			panic(err)
		}
		return d
	}
	exprs := []string{"80 in ports", "ports contains 443.5", "n == 5", "any ports as p { p == 80 }", "1 in m.b or 2 in m.b", "m.a != 1", "x in ports", "any items as it { 80 in it.ports }", "ports is not empty", "81.5 not in ports"}
	for _, e := range exprs {
		d := mk()
		before := sIface(d)
		ev, err := bexpr.CreateEvaluator(e)
		if err != nil {
			continue
		}
		for k := 0; k < 3; k++ {
			o := evalObs(ev, d)
			r.Evaluations++
			r.Seen("json-numbers|" + e + "|" + o)
			if after := sIface(d); after != before {
				r.Violate("datum-modified", "json-numbers|"+e, map[string]interface{}{"expression": e, "datum": describe(mk())}, "after Evaluate the document is "+truncate(describe(d), 300))
				break
			}
		}
		items := mk().(map[string]interface{})["items"]
		ib := sIface(items)
		if flt, err := bexpr.CreateFilter(strings.Replace(e, "it.ports", "ports", 1)); err == nil && flt != nil {
			func() {
				defer func() { recover() }()
				flt.Execute(items)
			}()
			r.Evaluations++
			if sIface(items) != ib {
				r.Violate("datum-modified", "json-numbers-filter|"+e, map[string]interface{}{"expression": e, "datum": describe(mk())}, "after Execute the list is "+truncate(describe(items), 300))
			}
		}
	}
}

// ---------- C03: chains that have to be evaluated to their last term ----------

func c03FullyEvaluatedChains(r *Run) {
	for _, n := range []int{2, 17, 64, 127, 128, 129, 130, 131, 200, 257, 513, 1025, 3000} {
		var eq, ne []string
		for i := 1; i <= n; i++ {
			eq = append(eq, fmt.Sprintf("b == %d", i))
			ne = append(ne, fmt.Sprintf("b != %d", i))
		}
		orChain, andChain := strings.Join(eq, " or "), strings.Join(ne, " and ")
		last, none := map[string]interface{}{"a": 0, "b": n}, map[string]interface{}{"a": 0, "b": 0}
		for _, t := range []struct {
			name, e string
			d       interface{}
			want    string
		}{
			{"or-last-true", orChain, last, "T"}, {"or-all-false", orChain, none, "F"}, {"and-last-false", andChain, last, "F"}, {"and-all-true", andChain, none, "T"},
			{"not-or", "not ( " + orChain + " )", last, "F"}, {"not-and", "not ( " + andChain + " )", last, "T"}, {"or-then-error", orChain + " or zz.q == 1", none, "E"}, {"and-then-error", andChain + " and zz.q == 1", none, "E"},
			{"a-or-chain", "a == 1 or " + orChain, last, "T"}, {"a-and-chain", "a != 1 and " + andChain, none, "T"}, {"quantified", "any l as x { " + orChain + " }", map[string]interface{}{"b": n, "l": []int{1}}, "T"},
		} {
			o := exprObsOnce(t.e, t.d)
			r.Evaluations++
			r.Seen(fmt.Sprintf("full-chain|%s|%d|%s", t.name, n, o))
			if classOf(o) != t.want {
				r.Violate("chain-outcome", fmt.Sprintf("%s|%d", t.name, n), map[string]interface{}{"expression": truncate(t.e, 200), "terms": n, "datum": describe(t.d)}, "a chain of "+fmt.Sprint(n)+" terms decided by its last term: expected "+t.want+" got "+o)
			}
		}
	}
}

// ---------- C10: a returned evaluator is evaluated on every kind of value, with every binding mode and boundary literals ----------

func c10KindsSweep(r *Run) {
	kinds := append(kindMatrix(), kindSample{"MapNamedKey", map[NStr]int{"a": 1, "b": 2}}, kindSample{"MapNamedKeyStr", map[NStr]string{"a": "x"}}, kindSample{"MapNamedKeyIface", map[NStr]interface{}{"a": 1, "b": "a"}},
		kindSample{"MapNamedKeyStruct", map[NStr]S1{"a": {A: 1}}}, kindSample{"SliceF32", []float32{1, 2}}, kindSample{"NamedF32", NF32(1)}, kindSample{"IfaceSliceF32", []interface{}{float32(1), 1.5, nil}},
		kindSample{"MapIfaceKeyStr", map[interface{}]interface{}{"a": 1, "b": 2}}, kindSample{"MapByteKey", map[uint8]string{1: "a"}}, kindSample{"PtrPtrString", func() **string { s := "a"; p := &s; return &p }()},
		kindSample{"PtrSlicePtr", &[]*int{nil}}, kindSample{"JSONNumber", json.Number("1")}, kindSample{"JSONNumberBad", json.Number("x")})
	forms := []string{"any x as _, v { v == %s }", "any x as k, v { k == %s or v == %s }", "all x as k { k != %s }", "any x as k, _ { k == %s }", "x == %s", "x != %s", "%s in x", "%s not in x", "x is empty", "x is not empty", "x matches %s", "any x as v { v is empty }"}
	lits := []string{`1`, `"a"`, `1e39`, `"1e39"`, `"-1e39"`, `1000000000000000000000000000000000000000`, `""`, `"-"`, `"+"`, "``", `"0x"`, `"1e400"`, `"340282356779733661637539395458142568448"`}
	for _, ks := range kinds {
		for _, f := range forms {
			for li, lit := range lits {
				if !strings.Contains(f, "%s") && li > 0 {
					continue
				}
				e := strings.ReplaceAll(f, "%s", lit)
				for _, d := range []interface{}{map[string]interface{}{"x": ks.v}, struct{ X interface{} }{ks.v}} {
					ee := e
					if _, isMap := d.(map[string]interface{}); !isMap {
						ee = strings.ReplaceAll(" "+e, " x", " X")[1:]
					}
					ev, err := bexpr.CreateEvaluator(ee)
					if err != nil || ev == nil {
						continue
					}
					o := evalObs(ev, d)
					r.Evaluations++
					r.Seen("kinds-sweep|" + f + "|" + ks.name + "|" + lit + "|" + o)
					if o == "P" {
						r.Violate("evaluate-panics", "sweep|"+f+"|"+ks.name+"|"+lit, map[string]interface{}{"expression": ee, "datum": describe(d)}, "Evaluate panicked")
					}
				}
			}
		}
	}
}

// ---------- C13: patterns that do not compile, reached more than once ----------

func c13BadPatternsTwice(r *Run) {
	d := S1{B: "x", L: []string{"a", "b"}, M: map[string]int{"k": 1}}
	absent := map[string]interface{}{"M": map[string]interface{}{}}
	for _, e := range []string{`B matches "web-("`, "B not matches `[`", `any L as x { x matches "(" }`, `A == 1 and B matches "a{2,1}"`, `M.zz matches "(" or B matches "("`, "not B matches `*`"} {
		ev, err := bexpr.CreateEvaluator(e)
		if err != nil {
			continue
		}
		for k, datum := range []interface{}{absent, d, d, absent, d, d} {
			o := evalObs(ev, datum)
			fresh := "NOCREATE"
			if ev2, err2 := bexpr.CreateEvaluator(e); err2 == nil {
				fresh = evalObs(ev2, datum)
			}
			r.Evaluations += 2
			r.Seen(fmt.Sprintf("bad-pattern-twice|%s|%d|%s", e, k, o))
			if o != fresh {
				r.Violate("history-dependent", "bad-pattern|"+e, map[string]interface{}{"expression": e, "datum": describe(datum), "call": k + 1}, "call "+fmt.Sprint(k+1)+" on a used evaluator: "+o+", on a fresh one: "+fresh)
			}
		}
	}
}

// ---------- C18: the unknown value is what an unresolved selector evaluates to, whatever it is and wherever the selector ends ----------

func c18UnknownSubstitution(r *Run) {
	type pair struct {
		missing func() interface{}
		with    func(u interface{}) interface{}
		sel     string
	}
	pairs := []pair{
		{func() interface{} { return map[string]interface{}{"meta": map[string]interface{}{"k": 1}} }, func(u interface{}) interface{} { return map[string]interface{}{"meta": map[string]interface{}{"k": 1, "version": u}} }, "meta.version"},
		{func() interface{} { return map[string]interface{}{"a": 1} }, func(u interface{}) interface{} { return map[string]interface{}{"a": 1, "zz": u} }, "zz"},
		{func() interface{} { return S7{Labels: map[string]string{"a": "b"}} }, nil, "lab.zz"},
		{func() interface{} {
			return map[string]interface{}{"a": map[string]interface{}{"b": map[string]interface{}{}}}
		}, func(u interface{}) interface{} {
			return map[string]interface{}{"a": map[string]interface{}{"b": map[string]interface{}{"c": u}}}
		}, `"/a/b/c"`},
	}
	us := []interface{}{"none", "", 1, nil, []interface{}{"on", 1}, true, 1.5, map[string]interface{}{"on": 1}}
	forms := []string{"%s == none", `%s != "none"`, "on in %s", "on not in %s", "%s is empty", "%s is not empty", "%s matches `^n`", "%s == 1", "any %s as x { x == on }", "all %s as x { x != on }", "not %s == none", "%s == none or %s == 1"}
	for pi, p := range pairs {
		for ui, u := range us {
			for _, f := range forms {
				e := strings.ReplaceAll(f, "%s", p.sel)
				if strings.Contains(f, " as x ") {
					// a quantifier binds its variable to a PATH below the selector: over a substituted list that path does not exist in the
					// datum (recorded interpretation, DESIGN section 8), so only scalar unknown values are compared for quantified forms
					switch u.(type) {
					case []interface{}, map[string]interface{}:
						continue
					}
				}
				got := exprObs(e, p.missing(), bexpr.WithUnknownValue(u))
				r.Evaluations++
				r.Seen(fmt.Sprintf("unknown-substitution|%d|%d|%s|%s", pi, ui, f, got))
				c := map[string]interface{}{"expression": e, "datum": describe(p.missing()), "unknown_value": describe(u)}
				if p.with != nil {
					if want := exprObs(e, p.with(u)); classOf(got) != classOf(want) {
						r.Violate("unknown-value-not-substituted", fmt.Sprintf("%d|%d|%s", pi, ui, f), c, "with the unknown value "+got+"; on the datum that holds that value there: "+want)
					}
				}
				// repeated options: the last one is the unknown value, also when it is nil
				if again := exprObs(e, p.missing(), bexpr.WithUnknownValue("earlier"), bexpr.WithUnknownValue(u)); again != got {
					r.Violate("last-wins", fmt.Sprintf("unknown|%d|%d|%s", pi, ui, f), c, "WithUnknownValue(earlier), WithUnknownValue(u): "+again+"; WithUnknownValue(u) alone: "+got)
				}
			}
		}
	}
}
