// Command harness runs the implementation side of the correspondence checks of /verif.
//
//	harness <property> -tier quick|thorough -seed N -out DIR
//
// It exercises /repo (through the go.mod replace directive, built with -tags verif) on generated
// inputs, evaluates the property's predicate on the implementation directly, and writes the model
// commands together with the implementation's observations for bin/check to compare with the
// extracted Coq model.
package main

import (
	"flag"
	"fmt"
	"os"
	"runtime/debug"
	"sort"
	"time"
)

var props = map[string]func(*Run){}

func main() {
	if len(os.Args) < 2 {
		fmt.Fprintln(os.Stderr, "usage: harness <property> [-tier quick|thorough] [-seed N] [-out DIR]")
		os.Exit(2)
	}
	prop := os.Args[1]
	fs := flag.NewFlagSet("harness", flag.ExitOnError)
	tier := fs.String("tier", "quick", "quick or thorough")
	seed := fs.Uint64("seed", 1, "seed of the single PRNG")
	out := fs.String("out", "", "output directory")
	fs.Parse(os.Args[2:])
	f, ok := props[prop]
	if !ok {
		var names []string
		for k := range props {
			names = append(names, k)
		}
		sort.Strings(names)
		fmt.Fprintln(os.Stderr, "unknown property; known:", names)
		os.Exit(2)
	}
	if *out == "" {
		*out = "/verif/build/run/" + prop
	}
	r := NewRun(prop, *tier, *seed, *out)
	rng = NewRng(mix(*seed, strHash(prop)))
	watch(r, 60*time.Second)
	func() {
		// a panic that escapes from the library through a call the harness did not guard ends the run; what was collected so far is
		// kept, and the panic is a violation of its own ("never panics" is part of C09, C10 and C17, and no property allows one),
		// reported with the call in flight when the harness had announced it
		defer func() {
			if p := recover(); p != nil {
				c, _ := current.Load().(*inFlight)
				in := map[string]interface{}{"panic": truncate(fmt.Sprint(p), 300), "stack": truncate(string(debug.Stack()), 1500)}
				if c != nil {
					in["call"], in["expression_or_input"], in["argument"] = c.what, c.text, describe(c.arg)
				}
				r.Violate("library-panics", "escaped-panic:"+truncate(fmt.Sprint(p), 80), in, "a panic escaped from a call into the library and ended the run: "+truncate(fmt.Sprint(p), 200))
			}
		}()
		f(r)
	}()
	r.Finish()
	fmt.Printf("%s: evaluations=%d distinct=%d model_lines=%d direct_violations=%d\n", prop, r.Evaluations, len(r.Distinct), r.lines, len(r.Violations))
}

func init() {
	props["C01"] = runC01
	props["C02"] = runC02
	props["C05"] = runC05
	props["C06"] = runC06
	props["C07"] = runC07
	props["C08"] = runC08
	props["C12"] = runC12
	props["C13"] = runC13
	props["C14"] = runC14
	props["C16"] = runC16
	props["C17"] = runC17
	props["C18"] = runC18
	props["C19"] = runC19
	props["C03"] = runC03
	props["C04"] = runC04
	props["C09"] = runC09
	props["C10"] = runC10
	props["C11"] = runC11
	props["C15"] = runC15
	props["C20"] = runC20
}
