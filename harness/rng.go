package main

// splitmix64: every random choice of the harness derives from one seed; case i of property P uses
// the state mix(seed, P, i), so any single case can be regenerated for a replay.
type Rng struct{ s uint64 }

func mix(xs ...uint64) uint64 {
	h := uint64(0x9E3779B97F4A7C15)
	for _, x := range xs {
		h ^= x + 0x9E3779B97F4A7C15 + (h << 6) + (h >> 2)
		h = (h ^ (h >> 30)) * 0xBF58476D1CE4E5B9
		h = (h ^ (h >> 27)) * 0x94D049BB133111EB
		h ^= h >> 31
	}
	return h
}

func strHash(s string) uint64 {
	h := uint64(1469598103934665603)
	for i := 0; i < len(s); i++ {
		h ^= uint64(s[i])
		h *= 1099511628211
	}
	return h
}

func NewRng(seed uint64) *Rng { return &Rng{seed} }

func (r *Rng) Next() uint64 {
	r.s += 0x9E3779B97F4A7C15
	z := r.s
	z = (z ^ (z >> 30)) * 0xBF58476D1CE4E5B9
	z = (z ^ (z >> 27)) * 0x94D049BB133111EB
	return z ^ (z >> 31)
}

func (r *Rng) Intn(n int) int {
	if n <= 0 {
		return 0
	}
	return int(r.Next() % uint64(n))
}

func (r *Rng) Bool() bool { return r.Next()&1 == 0 }

// Pct is true with probability p/100.
func (r *Rng) Pct(p int) bool { return r.Intn(100) < p }

func pick[T any](r *Rng, xs []T) T { return xs[r.Intn(len(xs))] }
