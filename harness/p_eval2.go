package main

import (
	"encoding/json"
	"errors"
	"fmt"
	"math"
	"reflect"
	"strconv"
	"strings"
	"time"
	"unicode/utf8"

	bexpr "github.com/hashicorp/go-bexpr"
)

// ---------- C02: equality in the value's own type ----------

type c02Leaf struct {
	kind string
	mk   func(y interface{}) interface{} // builds the leaf from a chosen value
}

func intSpellings(y int64) []string {
	out := []string{fmt.Sprintf("%d", y), fmt.Sprintf(`"%d"`, y)}
	if y >= 0 {
		out = append(out, fmt.Sprintf(`"0x%x"`, y), fmt.Sprintf(`"0X%X"`, y), fmt.Sprintf(`"0o%o"`, y), fmt.Sprintf(`"0b%b"`, y), fmt.Sprintf(`"0%o"`, y), fmt.Sprintf(`"+%d"`, y))
		if y >= 1000 {
			s := fmt.Sprintf("%d", y)
			out = append(out, `"`+s[:len(s)-3]+"_"+s[len(s)-3:]+`"`)
		}
	} else {
		u := uint64(-y)
		out = append(out, fmt.Sprintf(`"-0x%x"`, u), fmt.Sprintf(`"-0b%b"`, u))
	}
	return out
}

func uintSpellings(y uint64) []string {
	out := []string{fmt.Sprintf("%d", y), fmt.Sprintf(`"%d"`, y), fmt.Sprintf(`"0x%x"`, y), fmt.Sprintf(`"0o%o"`, y), fmt.Sprintf(`"0b%b"`, y), fmt.Sprintf("`%d`", y)}
	if y >= 1000 {
		s := fmt.Sprintf("%d", y)
		out = append(out, `"`+s[:len(s)-3]+"_"+s[len(s)-3:]+`"`)
	}
	return out
}

func floatSpellings(y float64, bits int) []string {
	if math.IsNaN(y) {
		return []string{`"NaN"`, `"nan"`}
	}
	if math.IsInf(y, 1) {
		return []string{`"Inf"`, `"+inf"`, `"infinity"`}
	}
	if math.IsInf(y, -1) {
		return []string{`"-Inf"`, `"-infinity"`}
	}
	out := []string{`"` + strconv.FormatFloat(y, 'g', -1, bits) + `"`, `"` + strconv.FormatFloat(y, 'e', -1, bits) + `"`, `"` + strconv.FormatFloat(y, 'x', -1, bits) + `"`}
	f := strconv.FormatFloat(y, 'f', -1, bits)
	if len(f) < 400 { // positional spellings of very small and very large values are hundreds of digits long
		out = append(out, `"`+f+`"`)
		if numLit.MatchString(f) && !(y == 0 && math.Signbit(y)) {
			out = append(out, f)
		}
	}
	return out
}

func runC02(r *Run) {
	r.Rule = "scalar kinds (bool, 10 integer widths, float32/64, string) reached directly, through a named type, a pointer, an interface and as json.Number; values x from boundary pools (min/max of each width, 0, -0, subnormals, 2^53+1, NaN, Inf, empty/unicode strings); literals rendered FROM a chosen value y (y = x or y != x) in every spelling the grammar admits (bare, quoted decimal/hex/octal/binary/underscore/legacy octal, e/hex-float notation, backtick, all ParseBool spellings); predicate on the implementation: == is true iff y = x, false iff y != x, != the opposite; ill-typed and out-of-range literals and equality against non-scalars are errors; every case is also compared with the model, and the strconv models are compared with strconv directly (L0); distinct = (kind, wrapper, spelling class, relation)"
	n := 1
	if r.Tier == "thorough" {
		n = 12
	}
	wrap := func(name string, v interface{}) []struct {
		w string
		d interface{}
	} {
		pv := reflect.New(reflect.TypeOf(v))
		pv.Elem().Set(reflect.ValueOf(v))
		var iv interface{} = v
		return []struct {
			w string
			d interface{}
		}{
			{"direct", map[string]interface{}{"v": v}},
			{"ptr", map[string]interface{}{"v": pv.Interface()}},
			{"iface-in-struct", struct{ V interface{} }{iv}},
			{"slice-elem", map[string]interface{}{"l": []interface{}{v}}},
			{"quantified-any", map[string]interface{}{"l": []interface{}{v}}},
			{"quantified-all-typed", map[string]interface{}{"l": reflect.Append(reflect.MakeSlice(reflect.SliceOf(reflect.TypeOf(v)), 0, 1), reflect.ValueOf(v)).Interface()}},
			{"quantified-map", map[string]interface{}{"l": map[string]interface{}{"k": v}}},
		}
	}
	check := func(kind, w string, d interface{}, sel, lit, rel string, want string) {
		for _, op := range []string{"==", "!="} {
			e := sel + " " + op + " " + lit
			switch w {
			case "quantified-any":
				e = "any l as x { x " + op + " " + lit + " }"
			case "quantified-all-typed":
				e = "all l as i, x { x " + op + " " + lit + " }"
			case "quantified-map":
				e = "any l as _, x { x " + op + " " + lit + " }"
			}
			c := evalCase{expr: e, d: d, tag: "bexpr"}
			if !c.parse() {
				// every literal of this stream is in a spelling the grammar admits (also the ill-typed ones): the text must parse
				r.Violate("literal-does-not-parse", kind+"|"+spellClass(lit), map[string]interface{}{"expression": e, "kind": kind, "literal": lit}, "grammar.Parse rejects the expression")
				return
			}
			o := c.obs()
			r.Evaluations++
			r.Seen(kind + "|" + w + "|" + spellClass(lit) + "|" + rel + "|" + op)
			r.Count("outcome:" + o)
			r.Count("relation:" + rel)
			exp := want
			if op == "!=" {
				exp = flipIfOK(want)
			}
			if o != exp {
				m := c.desc()
				m["kind"], m["relation"] = kind, rel
				r.Violate("equality:"+rel, kind+"|"+spellClass(lit)+"|"+rel, m, "expected "+exp+" got "+o)
			}
			r.Model(c.cmd(), o, c.desc())
		}
	}
	selOf := func(w string) string {
		switch w {
		case "iface-in-struct":
			return "V"
		case "slice-elem":
			return "l.0"
		}
		return "v"
	}
	// integers
	type ik struct {
		name     string
		min, max int64
		mk       func(int64) interface{}
	}
	iks := []ik{
		{"int", math.MinInt64, math.MaxInt64, func(x int64) interface{} { return int(x) }},
		{"int8", math.MinInt8, math.MaxInt8, func(x int64) interface{} { return int8(x) }},
		{"int16", math.MinInt16, math.MaxInt16, func(x int64) interface{} { return int16(x) }},
		{"int32", math.MinInt32, math.MaxInt32, func(x int64) interface{} { return int32(x) }},
		{"int64", math.MinInt64, math.MaxInt64, func(x int64) interface{} { return x }},
		{"NInt", math.MinInt64, math.MaxInt64, func(x int64) interface{} { return NInt(x) }},
		{"NI8", math.MinInt8, math.MaxInt8, func(x int64) interface{} { return NI8(x) }},
	}
	for rep := 0; rep < n; rep++ {
		for _, k := range iks {
			rng = NewRng(mix(r.Seed, strHash("C02int"+k.name), uint64(rep)))
			xs := []int64{0, 1, -1, k.min, k.max, k.max - 1, 100}
			if k.max == math.MaxInt64 {
				xs = append(xs, 1<<53+1, 1<<53, -(1<<53 + 1), 1234567)
			}
			for _, x := range xs {
				ys := []int64{x}
				if x != k.max {
					ys = append(ys, x+1)
				}
				if k.max <= math.MaxInt32 && x >= k.min && x <= k.max { // another number with the same low bits: different, not equal after narrowing
					ys = append(ys, x+2*(k.max+1), x-2*(k.max+1), x+4*(k.max+1))
				}
				if k.max == math.MaxInt64 && (x > 1<<52 || x < -(1<<52)) {
					ys = append(ys, x^1) // differs only in the last bit: equal as float64
				}
				for _, y := range ys {
					for _, sp := range intSpellings(y) {
						for _, w := range wrap(k.name, k.mk(x)) {
							want := "F"
							rel := "different"
							if y == x {
								want, rel = "T", "same"
							}
							check(k.name, w.w, w.d, selOf(w.w), sp, rel, want)
						}
					}
				}
			}
			for _, bad := range []string{`"abc"`, `""`, `"1.5"`, `"9223372036854775808"`, `"-9223372036854775809"`, `"0x"`, `"1__0"`, `"_1"`, `"1_"`, `"08"`, `" 1"`, `true`, `"1e3"`} {
				for _, w := range wrap(k.name, k.mk(1))[:2] {
					check(k.name, w.w, w.d, selOf(w.w), bad, "invalid-literal", "E")
				}
			}
		}
		// unsigned
		type uk struct {
			name string
			max  uint64
			mk   func(uint64) interface{}
		}
		uks := []uk{
			{"uint", math.MaxUint64, func(x uint64) interface{} { return uint(x) }},
			{"uint8", math.MaxUint8, func(x uint64) interface{} { return uint8(x) }},
			{"uint16", math.MaxUint16, func(x uint64) interface{} { return uint16(x) }},
			{"uint32", math.MaxUint32, func(x uint64) interface{} { return uint32(x) }},
			{"uint64", math.MaxUint64, func(x uint64) interface{} { return x }},
			{"NU16", math.MaxUint16, func(x uint64) interface{} { return NU16(x) }},
		}
		for _, k := range uks {
			for _, x := range []uint64{0, 1, k.max, k.max - 1, 255, 1 << 7} {
				ys := []uint64{x}
				if x != k.max {
					ys = append(ys, x+1)
				} else {
					ys = append(ys, x-1)
				}
				if k.max <= math.MaxUint32 {
					ys = append(ys, x+k.max+1, x+2*(k.max+1))
				}
				for _, y := range ys {
					for _, sp := range uintSpellings(y) {
						for _, w := range wrap(k.name, k.mk(x)) {
							want, rel := "F", "different"
							if y == x {
								want, rel = "T", "same"
							}
							check(k.name, w.w, w.d, selOf(w.w), sp, rel, want)
						}
					}
				}
			}
			for _, bad := range []string{`-1`, `"abc"`, `"18446744073709551616"`, `1.5`, `""`, `"+1"`} {
				for _, w := range wrap(k.name, k.mk(1))[:2] {
					check(k.name, w.w, w.d, selOf(w.w), bad, "invalid-literal", "E")
				}
			}
		}
		// floats
		f64s := []float64{0, math.Copysign(0, -1), 1, -1, 0.1, 1.5, math.MaxFloat64, math.SmallestNonzeroFloat64, 2.2250738585072014e-308, 1 << 53, 1<<53 + 2, 1e22, 1e23, math.Inf(1), math.Inf(-1), 123456.789}
		for _, x := range f64s {
			for _, y := range []float64{x, math.Nextafter(x, math.Inf(1)), x + 1} {
				if math.IsInf(x, 0) && y != x {
					continue
				}
				for _, sp := range floatSpellings(y, 64) {
					for _, w := range wrap("float64", x) {
						want, rel := "F", "different"
						if y == x {
							want, rel = "T", "same"
						}
						check("float64", w.w, w.d, selOf(w.w), sp, rel, want)
					}
					want, rel := "F", "different"
					if y == x {
						want, rel = "T", "same"
					}
					check("NF64", "direct", map[string]interface{}{"v": NF64(x)}, "v", sp, rel, want)
				}
			}
		}
		f32s := []float32{0, 1, -1, 0.1, 1.5, math.MaxFloat32, math.SmallestNonzeroFloat32, 16777216, 16777217, 3.4e38, 1.1754944e-38}
		for _, x := range f32s {
			for _, y := range []float32{x, math.Nextafter32(x, float32(math.Inf(1))), x + 1} {
				for _, sp := range floatSpellings(float64(y), 32) {
					for _, w := range wrap("float32", x) {
						want, rel := "F", "different"
						if y == x {
							want, rel = "T", "same"
						}
						check("float32", w.w, w.d, selOf(w.w), sp, rel, want)
					}
				}
			}
		}
		// the literal that separates ParseFloat(s, 32) from float32(ParseFloat(s, 64)) (double rounding)
		check("float32", "direct", map[string]interface{}{"v": math.Float32frombits(0x3F800001)}, "v", `"1.00000005960464477539062500001"`, "same", "T")
		check("float32", "direct", map[string]interface{}{"v": math.Float32frombits(0x3F800000)}, "v", `"1.00000005960464477539062500001"`, "different", "F")
		for _, bad := range []string{`"abc"`, `""`, `"1e999"`, `"0x1"`, `"1_"`, `"--1"`, `true`} {
			check("float64", "direct", map[string]interface{}{"v": 1.0}, "v", bad, "invalid-literal", "E")
			check("float32", "direct", map[string]interface{}{"v": float32(1)}, "v", bad, "invalid-literal", "E")
		}
		check("float64", "direct", map[string]interface{}{"v": math.NaN()}, "v", `"NaN"`, "nan", "F")
		// bools
		for _, x := range []bool{true, false} {
			for _, sp := range []string{"1", "t", "T", "TRUE", "true", "True", "0", "f", "F", "FALSE", "false", "False", `"true"`, "`false`"} {
				raw := strings.Trim(sp, "\"`")
				y, _ := strconv.ParseBool(raw)
				for _, w := range append(wrap("bool", x), struct {
					w string
					d interface{}
				}{"named", map[string]interface{}{"v": NBool(x)}}) {
					want, rel := "F", "different"
					if y == x {
						want, rel = "T", "same"
					}
					check("bool", w.w, w.d, selOf(w.w), sp, rel, want)
				}
			}
			for _, bad := range []string{"yes", "2", `""`, "tRUE", `"1.0"`, "falsE", "FALSe", "tRue", "`tRUE`", `"fALSE"`, "Tr", "no", "on", "y"} {
				check("bool", "direct", map[string]interface{}{"v": x}, "v", bad, "invalid-literal", "E")
			}
		}
		// strings
		for _, x := range []string{"", "a", "foo", "x y", "é", "日本", "a\"b", "b\\c", "/usr/bin", "1", "true", "a\nb", "\x00", "\xff", "/a~1b", "/x~0y", "/a/b", "/~1", "v1.2", "eth0.100", "a.b", "null", "nil", "/tmp/a\tb", "/srv\\share", " pad ", "C:\\tmp\\"} {
			for _, y := range []string{x, x + "a", "A" + x} {
				for _, sp := range literalStyles(y) {
					for _, w := range append(wrap("string", x), struct {
						w string
						d interface{}
					}{"named", map[string]interface{}{"v": NStr(x)}}) {
						want, rel := "F", "different"
						if y == x {
							want, rel = "T", "same"
						}
						check("string", w.w, w.d, selOf(w.w), sp, rel, want)
					}
				}
			}
		}
		// json.Number leaves: narrowed to int64, then float64
		for _, jn := range []struct{ num, lit, want string }{
			{"3", "3", "T"}, {"3", `"0x3"`, "T"}, {"3", "4", "F"}, {"3", `"3.0"`, "E"}, {"1.5", "1.5", "T"}, {"1.5", `"15e-1"`, "T"}, {"1.5", "2", "F"}, {"1e3", "1000", "T"},
			{"9007199254740993", "9007199254740993", "T"}, {"9007199254740993", "9007199254740992", "F"}, {"12345678901234567890", `"1.2345678901234567e19"`, "T"},
			{"-0", "0", "T"}, {"x", "1", "E"}, {"1e999", "1", "E"}, {"3", `"abc"`, "E"}, {"1.5", `"abc"`, "E"},
		} {
			d := map[string]interface{}{"v": json.Number(jn.num)}
			rel := map[string]string{"T": "same", "F": "different", "E": "invalid-literal"}[jn.want]
			check("json.Number", "direct", d, "v", jn.lit, rel, jn.want)
		}
		// types with String / Error / MarshalText methods compare by kind and content like any other named type
		for _, t := range []struct {
			kind string
			v    interface{}
			lit  string
			want string
		}{
			{"Dur", Dur(1000000000), "1000000000", "T"}, {"Dur", Dur(1000000000), `"0x3b9aca00"`, "T"}, {"Dur", Dur(1000000000), `"1_000_000_000"`, "T"}, {"Dur", Dur(1000000000), `"1s"`, "E"}, {"Dur", Dur(1000000000), "1", "F"},
			{"time.Duration", time.Second, "1000000000", "T"}, {"time.Duration", time.Second, `"1s"`, "E"}, {"Lvl", Lvl("warn"), "warn", "T"}, {"Lvl", Lvl("warn"), `"level-warn"`, "F"}, {"LvlI", LvlI(2), "2", "T"}, {"LvlI", LvlI(2), "warn", "E"},
			{"BoolM", BoolM(true), "true", "T"}, {"BoolM", BoolM(true), "on", "E"}, {"F64M", F64M(1.5), "1.5", "T"}, {"F64M", F64M(1.5), "f", "E"}, {"PtS", PtS{}, "origin", "E"}, {"Leaky", Leaky{Name: "n"}, "`n  `", "E"}, {"error", errors.New("boom"), "boom", "E"},
		} {
			for _, w := range wrap(t.kind, t.v) {
				rel := map[string]string{"T": "same", "F": "different", "E": "invalid-literal"}[t.want]
				check(t.kind, w.w, w.d, selOf(w.w), t.lit, rel, t.want)
			}
		}
		// equality against non-scalars is an error
		for _, v := range []interface{}{nil, []int{1}, map[string]int{"a": 1}, S1{}, [1]int{1}, make(chan int), complex(1, 1), uintptr(1), func() {}} {
			check("non-scalar:"+fmt.Sprintf("%T", v), "direct", map[string]interface{}{"v": v}, "v", "1", "non-scalar", "E")
		}
	}
	sameNameTypes(r, nil)
	// L0: the strconv models against strconv
	l0 := []string{"0", "1", "-1", "+1", "0x10", "0X1f", "0o17", "0b101", "017", "08", "1_000", "0x_1", "0_1", "_1", "1_", "1__0", "9223372036854775807", "9223372036854775808", "-9223372036854775808", "-9223372036854775809",
		"18446744073709551615", "18446744073709551616", "", " 1", "1 ", "abc", "0x", "1e3", "1.5", "99999999999999999999999", "0b2", "0o8", "0xg", "-0", "+0", "-0x8000000000000000", "0x7fffffffffffffff", "1_0_0", "0b_1"}
	for _, s := range l0 {
		for _, bits := range []int{8, 16, 32, 64} {
			v, err := strconv.ParseInt(s, 0, bits)
			r.Model(fmt.Sprintf("(parseint %s 0 %d)", hx(s), bits), presStr(fmt.Sprint(v), err), map[string]string{"l0": "ParseInt", "input": s})
			u, err := strconv.ParseUint(s, 0, bits)
			r.Model(fmt.Sprintf("(parseuint %s 0 %d)", hx(s), bits), presStr(fmt.Sprint(u), err), map[string]string{"l0": "ParseUint", "input": s})
		}
		b, err := strconv.ParseBool(s)
		r.Model(fmt.Sprintf("(parsebool %s)", hx(s)), presStr(fmt.Sprint(b), err), map[string]string{"l0": "ParseBool", "input": s})
	}
	fl := []string{"0", "-0", "1", "1.5", ".5", "1.", "1e3", "1E-3", "1.e3", "0x1p-2", "0x1", "0x1.8p1", "inf", "-Inf", "+infinity", "nan", "NaN", "-nan", "1e999", "-1e999", "1e-999", "4.9e-324", "2.4e-324", "2.5e-324", "1.7976931348623157e308", "1.7976931348623159e308",
		"1.00000005960464477539062500001", "1.000000059604644775390625", "16777217", "3.4028235e38", "3.4028236e38", "1e-46", "1.4e-45", "1_000.5", "1__0", "", "abc", "1e", "e1", "--1", "0.1", "0.3", "123456789012345678901234567890", "9007199254740993", "0x1p1024", "0x.8p1", "1e+3", "+1.5", "infinit", "0e999", "0x0p0", "1_0e1_0"}
	for _, s := range fl {
		for _, bits := range []int{32, 64} {
			f, err := strconv.ParseFloat(s, bits)
			var val string
			if bits == 32 {
				val = fmt.Sprint(math.Float32bits(float32(f)))
			} else {
				val = fmt.Sprint(math.Float64bits(f))
			}
			if s == "nan" || s == "NaN" {
				continue // NaN payloads are not compared
			}
			r.Model(fmt.Sprintf("(parsefloat %s %d)", hx(s), bits), presStr(val, err), map[string]string{"l0": "ParseFloat", "input": s})
		}
	}
	r.Sample(map[string]interface{}{"expression": `v == "0x7fffffffffffffff"`, "datum": "map[v:int64(MaxInt64)]", "outcome": exprObs(`v == "0x7fffffffffffffff"`, map[string]interface{}{"v": int64(math.MaxInt64)})})
	r.Sample(map[string]interface{}{"expression": `v == 9007199254740993`, "datum": "map[v:int64(2^53)]", "outcome": exprObs(`v == 9007199254740993`, map[string]interface{}{"v": int64(1 << 53)})})
}

func presStr(v string, err error) string {
	if err == nil {
		return "ok " + v
	}
	if ne, ok := err.(*strconv.NumError); ok && ne.Err == strconv.ErrRange {
		return "range"
	}
	return "syntax"
}

func spellClass(lit string) string {
	switch {
	case strings.HasPrefix(lit, "`"):
		return "backtick"
	case strings.HasPrefix(lit, `"0x`), strings.HasPrefix(lit, `"0X`), strings.HasPrefix(lit, `"-0x`):
		return "hex"
	case strings.HasPrefix(lit, `"0o`):
		return "octal"
	case strings.HasPrefix(lit, `"0b`), strings.HasPrefix(lit, `"-0b`):
		return "binary"
	case strings.Contains(lit, "_"):
		return "underscore"
	case strings.HasPrefix(lit, `"`) && strings.ContainsAny(lit, "eEpP"):
		return "quoted-exp"
	case strings.HasPrefix(lit, `"`):
		return "quoted"
	}
	return "bare"
}

// ---------- C05: absent keys ----------

func runC05(r *Run) {
	c05EscapyKeys(r)
	c05OneEvaluatorManyDocuments(r)
	r.Rule = "documents built so that the kind of absence is known by construction: leaf absent under a map reached through maps/structs/slices/pointers/interfaces (>= 2 parts), absent struct field, absent top-level key, absent intermediate key, index out of range, step into a scalar, alias-bound paths inside quantifiers; x 8 operators + any/all; x {no unknown value, unknown value of each scalar kind, nil, a list, a map}; predicate on the implementation: the documented table / error / exact substitution of the unknown value (compared with the same operator applied to a document holding that value); also compared with the model on the error-focused generic stream; distinct = (absence kind, operator, unknown kind)"
	type doc struct {
		name string
		d    interface{}
		sel  string // an absent selector
		kind string // table | error
	}
	inner := map[string]interface{}{"k": 1, "s": "a"}
	one := 1
	docs := []doc{
		{"map-leaf", map[string]interface{}{"m": inner}, "m.zz", "table"},
		{"map-leaf-typed", map[string]interface{}{"m": map[string]int{"k": 1}}, "m.zz", "table"},
		{"map-leaf-ptr-spelling", map[string]interface{}{"m": inner}, `"/m/zz"`, "table"},
		{"map-leaf-bracket", map[string]interface{}{"m": inner}, `m["z z"]`, "table"},
		{"map-in-struct", S1{M: map[string]int{"k": 1}}, "M.zz", "table"},
		{"map-in-ptr-struct", &S1{M: map[string]int{"k": 1}}, "M.zz", "table"},
		{"map-in-slice", map[string]interface{}{"l": []interface{}{inner}}, "l.0.zz", "table"},
		{"map-deep", map[string]interface{}{"a": map[string]interface{}{"b": map[string]interface{}{"c": inner}}}, "a.b.c.zz", "table"},
		{"map-in-struct-in-map", map[string]interface{}{"s": S2{MS: map[string]S1{"k": {}}}}, "s.MS.zz", "table"},
		{"empty-map-leaf", map[string]interface{}{"m": map[string]interface{}{}}, "m.zz", "table"},
		{"absent-key-reads-like-an-error-message", map[string]interface{}{"meta": map[string]interface{}{"k": 1}}, `meta["struct field"]`, "table"},
		{"path-reads-like-an-error-message", map[string]interface{}{"reg": map[string]interface{}{"struct field": map[string]interface{}{"tags": map[string]interface{}{}}}}, `reg["struct field"].tags.nope`, "table"},
		{"absent-key-not-found-text", map[string]interface{}{"m": map[string]interface{}{"couldn't find key": map[string]interface{}{}}}, `m["couldn't find key"]["out of range"]`, "table"},
		{"absent-key-invalid-kind-text", map[string]interface{}{"m": map[string]interface{}{}}, `m["invalid value kind"]`, "table"},
		{"nil-map-leaf", S1{}, "M.zz", "table"},
		{"intkey-map-leaf", S3{MI: map[int]string{1: "a"}}, "MI.7", "table"},
		{"map-under-renamed-field", S7{Labels: map[string]string{"a": "b"}}, "labels.zz", "table"},
		{"named-map-under-renamed-field", S7{Meta: NStrMap{"a": "b"}}, "meta.zz", "table"},
		{"map-under-renamed-field-in-list", map[string]interface{}{"l": []S7{{Labels: map[string]string{"a": "b"}}}}, "l.0.labels.zz", "table"},
		{"map-in-list-under-renamed-field", S7{Items: []S1{{M: map[string]int{"k": 1}}}}, "items.0.M.zz", "table"},
		{"alt:map-under-alt-renamed-field", S7{Labels: map[string]string{"a": "b"}}, "lab.zz", "table"},
		{"alt:map-under-alt-tag", S1{M: map[string]int{"k": 1}}, "M.zz", "table"},
		{"hook:map-inside-wrapper", S7{W: Wrap{map[string]interface{}{"k": 1}}}, "W.zz", "table"},
		{"hook:map-below-wrapper", S7{W: Wrap{map[string]interface{}{"m": map[string]interface{}{"k": 1}}}}, "W.m.zz", "table"},
		{"top-level", map[string]interface{}{"m": inner}, "zz", "error"},
		{"intermediate", map[string]interface{}{"m": inner}, "zz.k", "error"},
		{"intermediate-deep", map[string]interface{}{"m": inner}, "m.zz.k", "error"},
		{"struct-field", S1{A: 1}, "Nope", "error"},
		{"struct-field-nested", S2{}, "X.Nope", "error"},
		{"struct-field-in-map", map[string]interface{}{"s": S1{}}, "s.Nope", "error"},
		{"index-out-of-range", map[string]interface{}{"l": []int{1}}, "l.5", "error"},
		{"index-negative", map[string]interface{}{"l": []int{1}}, `l["-1"]`, "error"},
		{"into-scalar", map[string]interface{}{"m": inner}, "m.k.x", "error"},
		{"into-nil", map[string]interface{}{"m": nil}, "m.x", "error"},
		{"into-nil-ptr", S1{}, "P.x", "error"},
		{"ptr-to-map-parent", map[string]interface{}{"m": &inner}, "m.zz", "ptrmap"},
		{"hidden-field", S1{H: "h"}, "H", "error"},
		{"unexported-field", S1{}, "u", "error"},
		{"array-out-of-range", S3{}, "Arr.2", "error"},
		{"index-not-a-number", map[string]interface{}{"l": []int{1}}, "l.x", "error"},
	}
	_ = one
	ops := []struct {
		f     string
		table string
	}{
		{"%s == 1", "F"}, {"%s != 1", "T"}, {"1 in %s", "F"}, {"1 not in %s", "T"}, {"%s contains 1", "F"}, {"%s not contains 1", "T"},
		{"%s is empty", "T"}, {"%s is not empty", "F"}, {"%s matches `a`", "F"}, {"%s not matches `a`", "T"},
		{"all %s as x { x == 1 }", "T"}, {"any %s as x { x == 1 }", "F"}, {"all %s as k, v { v == 1 }", "T"}, {"any %s as _, v { v == 1 }", "F"},
		{`%s == "05"`, "F"}, {`%s != "0x5"`, "T"}, {"%s == 5.0", "F"}, {"%s matches `^5$`", "F"}, {"5 in %s", "F"}, {`%s == "1.50"`, "F"},
		// literals that separate the widths of an unknown value (round 13): not representable in binary32, outside int8/uint8, negative
		{"%s == 0.1", "F"}, {"%s != 0.1", "T"}, {"%s == 16777217", "F"}, {"%s != 300", "T"}, {"%s == -1", "F"}, {"0.1 in %s", "F"},
	}
	unknowns := []struct {
		name string
		set  bool
		v    interface{}
	}{
		{"none", false, nil}, {"int", true, 1}, {"string", true, "a"}, {"bool", true, true}, {"float", true, 1.5}, {"uint8", true, uint8(1)}, {"nil", true, nil},
		{"list", true, []int{1, 2}}, {"emptylist", true, []int{}}, {"map", true, map[string]int{"k": 1}}, {"emptystring", true, ""},
		{"json.Number-int", true, json.Number("5")}, {"json.Number-float", true, json.Number("1.5")}, {"json.Number-bad", true, json.Number("x")}, {"named-int", true, NInt(5)}, {"ptr-int", true, &one}, {"Dur", true, Dur(5)}, {"float32", true, float32(1.5)},
		{"float32-tenth", true, float32(0.1)}, {"float32-2^24", true, float32(16777216)}, {"float64-tenth", true, 0.1}, {"int8", true, int8(44)}, {"uint8-44", true, uint8(44)},
		{"int16-min", true, int16(-32768)}, {"int-neg", true, -1}, {"json.Number-tenth", true, json.Number("0.1")}, {"list-float32", true, []float32{0.1}}, {"list-iface-float32", true, []interface{}{float32(0.1), int8(-1)}},
	}
	for _, dc := range docs {
		for _, op := range ops {
			for _, u := range unknowns {
				e := fmt.Sprintf(op.f, dc.sel)
				c := evalCase{expr: e, d: dc.d, tag: "bexpr", unkSet: u.set, unk: u.v}
				if strings.HasPrefix(dc.name, "alt:") {
					c.tag = "alt"
				}
				if strings.HasPrefix(dc.name, "hook:") {
					c.hook = 2
				}
				if !c.parse() {
					r.Count("generator:unparseable")
					continue
				}
				o := c.obs()
				r.Evaluations++
				r.Seen(dc.name + "|" + op.f + "|" + u.name)
				r.Count("absence:" + dc.kind)
				r.Count("outcome:" + o)
				isNotFound := dc.kind == "table" || dc.kind == "ptrmap" || dc.name == "top-level" || dc.name == "intermediate" || dc.name == "intermediate-deep" || dc.name == "struct-field" || dc.name == "struct-field-nested" || dc.name == "struct-field-in-map" || dc.name == "unexported-field"
				var want string
				switch {
				case u.set && isNotFound && strings.Contains(op.f, " as "):
					// inside the braces the bound alias is itself an absent selector and is substituted too; the
					// per-selector reading of the property is what the model states (c05_unknown_substitutes) - compared there
					want = ""
				case u.set && isNotFound:
					// exactly as if the selector had resolved to the unknown value
					want = exprObs(fmt.Sprintf(op.f, "q"), map[string]interface{}{"q": u.v})
				case dc.kind == "table":
					want = op.table
				case dc.kind == "ptrmap":
					want = "" // a *map parent: interpretation left to the model (DESIGN.md section 8), not checked directly
				default:
					want = "E"
				}
				if want != "" && o != want {
					m := c.desc()
					m["absence"] = dc.name
					r.Violate("absent:"+dc.kind, dc.name+"|"+op.f+"|"+u.name, m, "expected "+want+" got "+o)
				}
				r.Model(c.cmd(), o, c.desc())
			}
		}
	}
	collidingJoins(r, "colliding-joins")
	// absent leaves reached through quantifier-bound aliases (chains of aliases with different names)
	{
		d := map[string]interface{}{"groups": []interface{}{
			map[string]interface{}{"name": "g1", "members": []interface{}{map[string]interface{}{"name": "bob", "email": "b@x"}, map[string]interface{}{"name": "al"}}},
			map[string]interface{}{"name": "g2", "members": []interface{}{map[string]interface{}{"name": "eve", "email": "none"}}}},
			"byname": map[string]interface{}{"a": map[string]interface{}{"tags": map[string]interface{}{"t": 1}}}}
		cases := []struct{ e, want string }{
			{"any groups as g { any g.members as m { m.phone == 1 } }", "F"}, {"all groups as g { all g.members as m { m.phone != 1 } }", "T"},
			{"any groups as g { any g.members as m { m.phone is empty } }", "T"}, {"all groups as g { any g.members as m { m.name == al or m.name == eve } }", "T"},
			{"any groups as g { all g.members as m { m.email is not empty } }", "T"}, {"all groups as g { all g.members as m { m.email != none } }", "F"},
			{"any groups as g { any g.members as i, m { m.zz.k == 1 } }", "E"}, {"any groups as g { g.zz == 1 }", "F"}, {"any groups as g { any g.zz as m { m == 1 } }", "F"},
			{"all byname as _, v { all v.tags as k, w { w == 1 and v.tags.zz != 1 } }", "T"}, {"any byname as _, v { v.tags.zz == 1 }", "F"},
			{"any groups as g { any g.members as m { any m.name as ch { ch == b } } }", "E"},
		}
		for _, t := range cases {
			for _, u := range unknowns[:4] {
				c := evalCase{expr: t.e, d: d, tag: "bexpr", unkSet: u.set, unk: u.v}
				if !c.parse() {
					r.Violate("fixed-case-unparseable", t.e, c.desc(), "")
					continue
				}
				o := c.obs()
				r.Evaluations++
				r.Seen("alias-chain|" + t.e + "|" + u.name)
				if !u.set && o != t.want {
					r.Violate("absent:alias-chain", "alias|"+t.e, c.desc(), "expected "+t.want+" got "+o)
				}
				r.Model(c.cmd(), o, c.desc())
			}
		}
	}
	// expressions whose selectors all resolve are unaffected by an unknown value: documents {"x": v} for every kind
	// sample, forms that mention only the selector x (resolving by construction)
	forms := []string{"x == %s", "x != %s", "%s in x", "%s not in x", "x is empty", "x is not empty", "x matches %s", "not x == %s", "x == %s or x is empty", "x == %s and x != %s"}
	for _, ks := range kindMatrix() {
		for _, f := range forms {
			for _, lit := range []string{"1", `"a"`, "true"} {
				e := strings.ReplaceAll(f, "%s", lit)
				d := map[string]interface{}{"x": ks.v}
				o := exprObs(e, d)
				for _, u := range unknowns[1:] {
					c := evalCase{expr: e, d: d, tag: "bexpr", unkSet: true, unk: u.v}
					if !c.parse() {
						continue
					}
					o2 := c.obs()
					r.Evaluations++
					r.Seen("neutral|" + ks.name + "|" + f + "|" + u.name)
					if o2 != o {
						r.Violate("unknown-not-neutral", "neutral|"+ks.name+"|"+f, c.desc(), "without unknown value "+o+", with "+o2)
					}
				}
			}
		}
	}
	// the error-focused generic stream against the model
	n := 1500
	if r.Tier == "thorough" {
		n = 100000
	}
	absentPctDefault = 30
	genericCases(r, "generic", n, func(c *evalCase) {
		addEval(r, c, "error-focused")
	})
	absentPctDefault = 8
	r.Sample(map[string]interface{}{"expression": "m.zz != 1", "datum": `{"m": {"k": 1}}`, "outcome": exprObs("m.zz != 1", map[string]interface{}{"m": inner})})
	r.Sample(map[string]interface{}{"expression": "zz != 1", "datum": `{"m": {"k": 1}}`, "outcome": exprObs("zz != 1", map[string]interface{}{"m": inner})})
}

// ---------- C06: quantifiers ----------

func runC06(r *Run) {
	r.Rule = "collections (slices, arrays, []interface{}, pointer-to-slice, string-keyed maps of scalars/structs/maps/mixed values, length 0..5, absent, non-iterable) x 4 binding modes x body templates using the binding as root, as prefix, via JSON Pointer, shadowed by a nested quantifier, or not at all, nesting <= 3; predicate on the implementation: `any S as x {P(x)}` equals the unrolled `P(S.0) or P(S.1) or ...` (all: and) evaluated by the implementation itself, empty/absent collections give any=false all=true, non-iterable is an error, index/key variables are the position/key; every case also compared with the model; distinct = (collection shape, binding mode, body template, outcome)"
	type coll struct {
		name  string
		d     interface{}
		sel   string
		elems []string // the path parts of the elements in visiting order (nil = not iterable)
		isMap bool
	}
	p3 := []int{1, 2, 3}
	colls := []coll{
		{"ints", map[string]interface{}{"l": []int{1, 2, 3}, "x": 9, "i": 7}, "l", []string{"0", "1", "2"}, false},
		{"ints-12", map[string]interface{}{"l": []int{2, 2, 2, 2, 2, 2, 2, 2, 2, 2, 1, 2}, "x": 9}, "l", []string{"0", "1", "2", "3", "4", "5", "6", "7", "8", "9", "10", "11"}, false},
		{"structs-11", S2{LS: []S1{{A: 2}, {A: 2}, {A: 2}, {A: 2}, {A: 2}, {A: 2}, {A: 2}, {A: 2}, {A: 2}, {A: 2}, {A: 1, B: "a"}}}, "LS", []string{"0", "1", "2", "3", "4", "5", "6", "7", "8", "9", "10"}, false},
		{"ints-empty", map[string]interface{}{"l": []int{}}, "l", []string{}, false},
		{"ints-nil", S1{}, "L", []string{}, false},
		{"array", S3{Arr: [2]int{1, 5}}, "Arr", []string{"0", "1"}, false},
		{"iface-mixed", map[string]interface{}{"l": []interface{}{1, "a", nil, 2.5, []interface{}{1}}}, "l", []string{"0", "1", "2", "3", "4"}, false},
		{"structs", S2{LS: []S1{{A: 1, B: "a"}, {A: 2, B: "b"}, {A: 1}}}, "LS", []string{"0", "1", "2"}, false},
		{"maps-in-list", map[string]interface{}{"l": []interface{}{map[string]interface{}{"A": 1}, map[string]interface{}{"A": 2}, map[string]interface{}{"B": 1}}}, "l", []string{"0", "1", "2"}, false},
		{"ptr-slice", map[string]interface{}{"l": &p3}, "l", nil, false},
		{"nested-lists", map[string]interface{}{"l": [][]int{{1, 2}, {}, {3}}}, "l", []string{"0", "1", "2"}, false},
		{"map-ints", map[string]interface{}{"m": map[string]int{"a": 1, "b": 2, "c": 1}}, "m", []string{"a", "b", "c"}, true},
		{"map-mixed", map[string]interface{}{"m": map[string]interface{}{"a": map[string]interface{}{"A": 1}, "b": 5, "c": map[string]interface{}{"A": 2}}}, "m", []string{"a", "b", "c"}, true},
		{"map-structs", S2{MS: map[string]S1{"k1": {A: 1}, "k2": {A: 2}}}, "MS", []string{"k1", "k2"}, true},
		{"map-mixed-case", map[string]interface{}{"m": map[string]interface{}{"Zone": 5, "app": map[string]interface{}{"A": 1}, "Beta": map[string]interface{}{"A": 2}}}, "m", []string{"Beta", "Zone", "app"}, true},
		{"map-case-twins", map[string]interface{}{"m": map[string]interface{}{"a": map[string]interface{}{"A": 1}, "A": 5, "b": 5, "B": map[string]interface{}{"A": 1}}}, "m", []string{"A", "B", "a", "b"}, true},
		{"map-empty", map[string]interface{}{"m": map[string]int{}}, "m", []string{}, true},
		{"map-intkeys", S3{MI: map[int]string{1: "a"}}, "MI", nil, true},
		{"map-namedkeys", S3{MNS: map[NStr]int{"a": 1}}, "MNS", nil, true},
		{"scalar", map[string]interface{}{"l": 5}, "l", nil, false},
		{"string", map[string]interface{}{"l": "abc"}, "l", nil, false},
		{"absent-in-map", map[string]interface{}{"o": map[string]interface{}{}}, "o.zz", []string{}, false},
		{"same-name-as-field", map[string]interface{}{"a": []int{1, 2}, "v": 1}, "a", []string{"0", "1"}, false},
		{"json-numbers", map[string]interface{}{"l": []json.Number{"1.0", "2"}}, "l", []string{"0", "1"}, false},
		{"uint8-array-empty", map[string]interface{}{"l": [0]uint8{}}, "l", []string{}, false},
		{"floats-empty", map[string]interface{}{"l": []float64{}}, "l", []string{}, false},
		{"bools", map[string]interface{}{"l": []bool{true, false}}, "l", []string{"0", "1"}, false},
		{"strings-empty", map[string]interface{}{"l": []string{}}, "l", []string{}, false},
		{"named-ints", map[string]interface{}{"l": []NInt{1, 2}}, "l", []string{"0", "1"}, false},
	}
	// body templates over the value variable {v} and, where bound, the index/key variable {i}
	bodies := []string{"{v} == 1", "{v} != 1", "{v}.A == 1", "{v}.A == 1 or {v}.B == a", `"/{v}/A" == 1`, "{v} is empty", "1 in {v}", "x == 9", "not {v} == 2",
		"any {v} as w { w == 1 }", "all {v} as {v} { {v} == 1 }", "{v}.A == 1 and any l as {v} { {v} == 1 }", "{v} == 1 and {v} == 1",
		"{v} == http", "{v} != http", "{v} == 80.5", "{v} != -1", "{v} == 1.0", "{v} == true"}
	for ci, cl := range colls {
		for bi, body := range bodies {
			for _, q := range []string{"any", "all"} {
				rng = NewRng(mix(r.Seed, strHash("C06"), uint64(ci), uint64(bi)))
				for mode, bind := range []string{"v", "i, v", "_, v", "i, _"} {
					vname := "v"
					if mode == 0 && cl.isMap { // one-name form on a map binds the key
						vname = ""
					}
					if mode == 3 {
						vname = ""
					}
					b := body
					usesV := strings.Contains(b, "{v}")
					if usesV && vname == "" {
						// the value is not bound in this mode: use the key/index variable as a scalar instead
						b = "i != zz"
						if mode == 0 {
							b = "v != zz"
						}
					}
					b = strings.ReplaceAll(b, "{v}", "v")
					e := fmt.Sprintf("%s %s as %s { %s }", q, cl.sel, bind, b)
					c := evalCase{expr: e, d: cl.d, tag: "bexpr"}
					if !c.parse() {
						r.Count("generator:unparseable")
						continue
					}
					o := c.obs()
					r.Evaluations++
					r.Seen(cl.name + "|" + bind + "|" + body + "|" + q + "|" + o)
					r.Count("outcome:" + o)
					r.Count("mode:" + bind)
					r.Model(c.cmd(), o, c.desc())
					if cl.elems == nil {
						if o != "E" {
							r.Violate("non-iterable-not-error", cl.name+"|"+q, c.desc(), "got "+o)
						}
						continue
					}
					if len(cl.elems) == 0 {
						want := "F"
						if q == "all" {
							want = "T"
						}
						if o != want {
							r.Violate("empty-collection", cl.name+"|"+q, c.desc(), "expected "+want+" got "+o)
						}
						continue
					}
					// unrolled form, only for bodies that use the value binding textually (value-binding modes)
					if usesV && vname != "" && !strings.Contains(body, "as {v}") {
						var parts []string
						for _, el := range cl.elems {
							sub := cl.sel + "." + el
							pb := strings.ReplaceAll(body, `"/{v}/`, `"/`+strings.ReplaceAll(sub, ".", "/")+"/")
							pb = strings.ReplaceAll(pb, "{v}", sub)
							parts = append(parts, "( "+pb+" )")
						}
						join := " or "
						if q == "all" {
							join = " and "
						}
						un := strings.Join(parts, join)
						ou := exprObs(un, cl.d)
						r.Evaluations++
						if ou != o {
							m := c.desc()
							m["unrolled"] = un
							r.Violate("unroll", cl.name+"|"+bind+"|"+body+"|"+q, m, "quantifier "+o+", unrolled "+ou)
						}
					}
				}
			}
		}
	}
	// the value binding must see what the path S.i sees, also under a value-transformation hook that rewrites scalars
	for _, t := range []struct {
		e, un string
		d     interface{}
	}{
		{"any L as t { t == BLUE }", "L.0 == BLUE or L.1 == BLUE", S1{L: []string{"red", "blue"}}},
		{"all L as t { t matches `^[A-Z]+$` }", "L.0 matches `^[A-Z]+$` and L.1 matches `^[A-Z]+$`", S1{L: []string{"red", "blue"}}},
		{"any L as i, t { t == blue }", "L.0 == blue or L.1 == blue", S1{L: []string{"red", "blue"}}},
		{"any MSS.k as _, t { t == AB }", "MSS.k.0 == AB", S3{MSS: map[string][]string{"k": {"ab"}}}},
		{"any W.V as t { t == 1 }", "W.V.0 == 1", S6{W: Wrap{[]int{1}}}},
		{"any WL as w { w == 1 }", "WL.0 == 1 or WL.1 == 1", S6{WL: []Wrap{{2}, {1}}}},
	} {
		for _, hk := range []int{0, 1, 2, 5} {
			c := evalCase{expr: t.e, d: t.d, tag: "bexpr", hook: hk}
			cu := evalCase{expr: t.un, d: t.d, tag: "bexpr", hook: hk}
			if !c.parse() || !cu.parse() {
				continue
			}
			o, ou := c.obs(), cu.obs()
			r.Evaluations += 2
			r.Seen("hook-unroll|" + t.e + "|" + fmt.Sprint(hk))
			if o != ou {
				m := c.desc()
				m["unrolled"] = t.un
				r.Violate("unroll", "hook|"+t.e+"|"+fmt.Sprint(hk), m, "quantifier "+o+", unrolled "+ou)
			}
			r.Model(c.cmd(), o, c.desc())
			r.Model(cu.cmd(), ou, cu.desc())
		}
	}
	c06EmptyPointer(r)
	collidingJoins(r, "colliding-joins")
	c13InPlaceAndNested(r, 0, 0) // calls that nest, seen from the quantifier's side
	// index / key variables are the position / key itself
	for _, t := range []struct{ e, want string }{
		{"all l as i, v { i != 7 and v != 7 }", "T"}, {"any l as i, _ { i == 2 }", "T"}, {"any l as i, _ { i == 3 }", "F"}, {"all m as k, v { k == a or k == b }", "T"}, {"any m as k { k == b }", "T"}, {"any m as k { k == zz }", "F"},
		{"all m as k, _ { k matches `^[ab]$` }", "T"}, {"any l as i, v { i.x == 1 }", "E"}, {"any l as a, a { a == 1 }", "E"}, {"any l as l, v { v == 2 }", "T"}, {"any l as i, l { l == 2 }", "T"},
		{"all l as v { any l as v { v == 0 } }", "T"}, {"any l as v { v == 1 and ( any m as _, v { v == 10 } ) and v == 1 }", "T"},
	} {
		d := map[string]interface{}{"l": []int{0, 1, 2}, "m": map[string]int{"a": 10, "b": 20}, "ks": []string{"a", "b"}}
		c := evalCase{expr: t.e, d: d, tag: "bexpr"}
		if !c.parse() {
			r.Violate("fixed-case-unparseable", t.e, c.desc(), "")
			continue
		}
		o := c.obs()
		r.Evaluations++
		r.Seen("fixed|" + t.e)
		if o != t.want {
			r.Violate("binding-semantics", t.e, c.desc(), "expected "+t.want+" got "+o)
		}
		r.Model(c.cmd(), o, c.desc())
		r.Sample(map[string]interface{}{"expression": t.e, "outcome": o})
	}
	// random quantified expressions against random data (generic generator favours quantifiers at depth >= 1)
	n := 1500
	if r.Tier == "thorough" {
		n = 100000
	}
	for i := 0; i < n/2; i++ {
		rng = NewRng(mix(r.Seed, strHash("C06nested"), uint64(i)))
		d, e := genNestedQuant()
		c := evalCase{expr: e, d: d, tag: "bexpr"}
		if !c.parse() {
			r.Count("generator:unparseable")
			continue
		}
		addEval(r, &c, "nested-quantifiers")
	}
	made := 0
	for i := 0; made < n; i++ {
		rng = NewRng(mix(r.Seed, strHash("C06rand"), uint64(i)))
		d := genDatum()
		e := genExpr(d, "bexpr", 1+rng.Intn(2), "", reflect.Value{})
		if !strings.Contains(e, " as ") {
			continue
		}
		c := evalCase{expr: e, d: d, tag: "bexpr"}
		if !c.parse() {
			continue
		}
		made++
		addEval(r, &c, "random-quantified")
	}
}

// ---------- C07: spellings ----------

func spellings(parts []string) []string {
	var out []string
	// dotted / digits where possible
	esc := func(quoteFn func(string) string, force bool) (string, bool) {
		if !identPart.MatchString(parts[0]) {
			return "", false
		}
		s := parts[0]
		for _, p := range parts[1:] {
			if !force && (identPart.MatchString(p) || digitsOnly.MatchString(p)) {
				s += "." + p
			} else {
				q := quoteFn(p)
				if q == "" {
					return "", false
				}
				s += "[" + q + "]"
			}
		}
		return s, true
	}
	if s, ok := esc(quoteDouble, false); ok {
		out = append(out, s)
	}
	if s, ok := esc(quoteDouble, true); ok {
		out = append(out, s)
	}
	if s, ok := esc(func(p string) string {
		if strings.ContainsAny(p, "`\r") || !validUTF8(p) {
			return ""
		}
		return "`" + p + "`"
	}, true); ok {
		out = append(out, s)
	}
	// a carriage return inside back quotes is not part of the string (Go's raw-string rule, which Unquote applies)
	if s, ok := esc(func(p string) string {
		if strings.ContainsAny(p, "`\r") || !validUTF8(p) {
			return ""
		}
		k := len(p) / 2
		for k < len(p) && !utf8.RuneStart(p[k]) {
			k++
		}
		return "`" + p[:k] + "\r" + p[k:] + "\r`"
	}, true); ok {
		out = append(out, s)
	}
	// JSON pointer
	ok := true
	var segs []string
	for _, p := range parts {
		e := strings.NewReplacer("~", "~0", "/", "~1").Replace(p)
		if e == "" || !ptrSeg.MatchString(e) {
			ok = false
		}
		segs = append(segs, e)
	}
	if ok {
		out = append(out, `"/`+strings.Join(segs, "/")+`"`)
	}
	// mixed: alternate
	if len(parts) >= 3 && identPart.MatchString(parts[0]) {
		s := parts[0]
		for i, p := range parts[1:] {
			if i%2 == 0 && (identPart.MatchString(p) || digitsOnly.MatchString(p)) {
				s += "." + p
			} else {
				s += "[" + quoteDouble(p) + "]"
			}
		}
		out = append(out, s)
	}
	return out
}

// boundVariableSpellings: inside a quantifier body the bound name itself may be spelled bare or as a JSON Pointer.
func c07BoundVariables(r *Run) {
	d := map[string]interface{}{"M": map[string]interface{}{"tier": 1, "env": map[string]interface{}{"k": "tier"}}, "L": []interface{}{"a", "b"}, "k": "tier", "i": 0, "Meta": map[string]string{"tier": "x"}}
	tpls := []struct{ f, v string }{
		{"any M as %[1]s { %[2]s == tier }", "k"}, {"all M as %[1]s, _ { %[2]s != zz }", "k"}, {"any M as %[1]s, v { %[2]s == env and v is not empty }", "k"}, {"any L as %[1]s, v { %[2]s == 1 }", "i"},
		{"all Meta as %[1]s { %[2]s == tier }", "k"}, {"any L as %[1]s { %[2]s == b }", "v"}, {"any M as _, %[1]s { %[2]s.k == tier }", "v"}, {"any L as %[1]s, _ { %[2]s == 0 }", "idx"},
	}
	for _, t := range tpls {
		var first string
		for k, sp := range []string{t.v, `"/` + t.v + `"`} {
			e := fmt.Sprintf(t.f, t.v, sp)
			if strings.Contains(t.f, ".k ==") && k == 1 {
				e = fmt.Sprintf(strings.Replace(t.f, "%[2]s.k", "%[2]s", 1), t.v, `"/`+t.v+`/k"`)
			}
			c := evalCase{expr: e, d: d, tag: "bexpr"}
			if !c.parse() {
				r.Violate("spelling-does-not-parse", e, map[string]interface{}{"expression": e}, "")
				continue
			}
			o := c.obs()
			r.Evaluations++
			r.Seen("bound|" + t.f + "|" + fmt.Sprint(k))
			if k == 0 {
				first = o
			} else if o != first {
				r.Violate("spelling-outcome", "bound|"+t.f, c.desc(), "bare spelling of the bound name "+first+", JSON-Pointer spelling "+o)
			}
			r.Model(c.cmd(), o, c.desc())
		}
	}
}

// c07Colliding: two different paths whose dotted / slashed renderings coincide, used in ONE expression; respelling the
// first selector must not change the outcome.
func c07Colliding(r *Run) {
	d := map[string]interface{}{"labels": map[string]interface{}{"app.tier": 1, "app": map[string]interface{}{"tier": 2}, "a/b": 3, "a": map[string]interface{}{"b": 4}},
		"pools": map[string]interface{}{"eu.west": []interface{}{1}, "eu": map[string]interface{}{"west": 5}}}
	fams := []struct {
		parts []string
		tpl   string
	}{
		{[]string{"labels", "app.tier"}, "%s == 1 and labels.app.tier == 2"}, {[]string{"labels", "app.tier"}, "labels.app.tier == 2 and %s == 1"},
		{[]string{"labels", "a/b"}, `%s == 3 and "/labels/a/b" == 4`}, {[]string{"labels", "a/b"}, `"/labels/a/b" == 4 and %s == 3`},
		{[]string{"pools", "eu.west"}, "any %s as x { x == 1 } or pools.eu.west == 5"}, {[]string{"pools", "eu.west"}, "pools.eu.west == 5 and all %s as x { x == 1 }"},
		{[]string{"labels", "app.tier"}, "all pools as k, _ { %s == 1 and labels.app.tier == 2 }"},
	}
	for _, f := range fams {
		var first string
		for k, sp := range spellings(f.parts) {
			e := fmt.Sprintf(f.tpl, sp)
			c := evalCase{expr: e, d: d, tag: "bexpr"}
			if !c.parse() {
				continue
			}
			o := c.obs()
			r.Evaluations++
			r.Seen("colliding|" + f.tpl + "|" + fmt.Sprint(k))
			if k == 0 {
				first = o
			} else if o != first {
				r.Violate("spelling-outcome", "colliding|"+f.tpl, c.desc(), "another spelling of the same path gives "+first+", this one "+o)
			}
			r.Model(c.cmd(), o, c.desc())
		}
	}
}

func runC07(r *Run) {
	c07DotSegments(r)
	c07BoundVariables(r)
	c07Colliding(r)
	c07WhitespaceTwins(r)
	c07SelfJoin(r)
	r.Rule = "paths taken from random data whose parts are expressible in at least two spellings (dotted, .digits, [\"...\"], [`...`], JSON Pointer with ~0/~1, mixed within one selector) x operator templates (match, quantified collection, inside a quantifier body) x data; predicate on the implementation: the parser yields the same Path for every spelling and Evaluate the same outcome; exact (case-sensitive, untrimmed) matching of parts against keys and field names; all spellings also compared with the model; distinct = (number of parts, spelling set, template, outcome)"
	n := 1200
	if r.Tier == "thorough" {
		n = 80000
	}
	templates := []string{"%s == 1", "%s != a", "%s is empty", "a in %s", "%s matches `^a`", "any %s as x { x == 1 }", "all %s as k, v { v is not empty }", "any l as x { %s == 1 }"}
	made := 0
	for i := 0; made < n && i < 50*n; i++ {
		rng = NewRng(mix(r.Seed, strHash("C07"), uint64(i)))
		var d interface{}
		var parts []string
		if rng.Pct(50) {
			// documents with awkward keys
			keys := []string{"a", "b c", "x/y", "t~u", "0", "12", "K", "k", " k", "é", "a.b", "-", "_u", "a~1b", "a~0b", "~", "~1", "~0~1", "a~01", "/", "a/~b",
				"liquid", "costarring", "declinate", "macallums", "altarage", "zinke", "plumless", "buckeroo", "Aa", "BB", "007", "010", "m²", "Ⅷ", "CO₂", "½", "二〇二四", "K", "İ", "struct field", "not found", "key",
				"OR", "or", "IN", "in", "AS", "as", "ALL", "all", "ANY", "any", "NOT", "not", "IS", "is", "EMPTY", "empty", "AND", "and", "MATCHES", "matches", "CONTAINS", "contains", "Or", "nOt",
				"18446744073709551557", "9223372036854775808", "99999999999999999999999", "4294967296", "00000000000000000000001",
				"unit\u00a0price", "a\u2003b", "x\u200by", "\ufeffk", "a\u3000b", "l\u2028s", "n\u0085l",
				".", "..", "...", ".", "..", "a..b", ".a", "a.",
				// an escape and a multi-byte letter in one part (round 13: escapes decoded byte by byte)
				"café/bar", "é~x", "~é", "日/本", "ü~0", "a/é", "naïve~1", "Ω~/ω", "é/", "/é", "𝔘~𝔘"}
			leaf := pick(rng, []interface{}{1, "a", []interface{}{1, "a"}, map[string]interface{}{"z": 1}, nil, ""})
			k1, k2, k3 := pick(rng, keys), pick(rng, keys), pick(rng, keys)
			// the first part is an identifier that begins like a keyword about one time in two
			k0 := pick(rng, []string{"m", "m", "m", "m", "m", "m", "m", "m", "m", "m", "m", "m", "notes", "note", "notBefore", "nothing", "android", "order", "orbit", "anyone", "allow", "inner", "island", "asx", "emptyx", "matchesx", "containsx"})
			d = map[string]interface{}{k0: map[string]interface{}{k1: map[string]interface{}{k2: leaf, k3: []interface{}{leaf, 1}}}, "l": []interface{}{1}}
			parts = []string{k0, k1, pick(rng, []string{k2, k3})}
			if rng.Pct(30) {
				parts = append(parts, "0")
			} else if rng.Pct(30) {
				parts = []string{k0, k1} // the map whose keys are awkward is itself the selected value / quantified collection
			}
			if rng.Pct(15) {
				parts[1] = strings.ToUpper(parts[1]) // case must matter
			}
			if rng.Pct(12) {
				// a map that holds both a nested path and a key spelled like the joined rest of another path: parts are matched one by one
				d = map[string]interface{}{"labels": map[string]interface{}{"tier": map[string]interface{}{"x": 1}, "tier.name": "a", "a.b.c": 1, "a": map[string]interface{}{"b": map[string]interface{}{"d": 1}}, "zone/name": 1, "0.1": 1, "l": []interface{}{1}}, "l": []interface{}{1}}
				parts = pick(rng, [][]string{{"labels", "tier", "name"}, {"labels", "a", "b", "c"}, {"labels", "zone", "name"}, {"labels", "a", "b"}, {"labels", "0", "1"}, {"labels", "tier", "x"}, {"labels", "l", "0"}})
			}
		} else {
			d = genDatum()
			pi := randomPath(d, "bexpr")
			parts = pi.parts
		}
		if len(parts) < 2 {
			continue
		}
		sp := spellings(parts)
		if len(sp) < 2 {
			continue
		}
		made++
		tpl := pick(rng, templates)
		var firstO, firstPath string
		for k, s := range sp {
			e := fmt.Sprintf(tpl, s)
			c := evalCase{expr: e, d: d, tag: "bexpr"}
			if !c.parse() {
				r.Violate("spelling-does-not-parse", tpl+"|"+s, map[string]interface{}{"expression": e, "parts": parts}, "")
				continue
			}
			o := c.obs()
			r.Evaluations++
			r.Count("outcome:" + o)
			path := pathOfFirstSelector(&c, tpl)
			if k == 0 {
				firstO, firstPath = o, path
			} else {
				if path != firstPath {
					r.Violate("spelling-path", fmt.Sprint(len(parts))+"|"+tpl, map[string]interface{}{"expression": e, "other_spelling": sp[0], "parts": parts}, "paths "+firstPath+" vs "+path)
				}
				if o != firstO {
					m := c.desc()
					m["other_spelling"] = sp[0]
					r.Violate("spelling-outcome", fmt.Sprint(len(parts))+"|"+tpl+"|"+firstO+"|"+o, m, firstO+" vs "+o)
				}
			}
			r.Model(c.cmd(), o, c.desc())
		}
		if path := strings.Join(parts, "\x00"); firstPath != "" && firstPath != path {
			r.Violate("spelling-denotes-parts", tpl, map[string]interface{}{"spelling": sp[0], "parts": parts}, "parser path "+firstPath)
		}
		r.Seen(fmt.Sprint(len(parts)) + "|" + fmt.Sprint(len(sp)) + "|" + tpl + "|" + firstO)
		if made%150 == 0 {
			r.Sample(map[string]interface{}{"parts": parts, "spellings": sp, "template": tpl, "outcome": firstO})
		}
	}
}

func pathOfFirstSelector(c *evalCase, tpl string) string {
	var pats []string
	s := sExpr(c.ast, &pats)
	// the selector the template substitutes is the first (match/collection templates) or the one inside the body
	idx := strings.Index(s, "(sel ")
	if strings.HasPrefix(tpl, "any l as x") {
		idx = strings.LastIndex(s, "(sel ")
	}
	if idx < 0 {
		return ""
	}
	rest := s[idx:]
	open := strings.Index(rest, "(h:")
	if open < 0 {
		open = strings.Index(rest, "()")
		if open < 0 {
			return ""
		}
		return ""
	}
	end := strings.Index(rest[open:], ")")
	var parts []string
	for _, h := range strings.Fields(rest[open+1 : open+end]) {
		b, _ := hexDecode(h[2:])
		parts = append(parts, string(b))
	}
	return strings.Join(parts, "\x00")
}

func hexDecode(s string) ([]byte, error) {
	out := make([]byte, len(s)/2)
	for i := range out {
		v, err := strconv.ParseUint(s[2*i:2*i+2], 16, 8)
		if err != nil {
			return nil, err
		}
		out[i] = byte(v)
	}
	return out, nil
}

// ---------- C08: hidden fields ----------

// Which fields are hidden depends on the tag name in force: under `bexpr` the fields tagged bexpr:"-"
// (Sec, SecM, SecL, SecS), under `alt` the field tagged alt:"-" (Ren); unexported fields always.
// The visible part of a value depends on rng only, the hidden part on the hidden seed only.
var c08Tag = "bexpr"

// hidden contents and the literals of the hidden-field family come from one small pool, so that a selector that does
// reach hidden content distinguishes the two data of a pair about half the time
var hidPool = []string{"h1", "h2", ""}

func hpick(h *Rng, field string) string {
	g := hidRng(h, field)
	if g == h {
		return pick(g, hidPool)
	}
	return pick(g, strPool)
}

func hidRng(h *Rng, field string) *Rng {
	hiddenUnder := map[string]string{"Sec": "bexpr", "SecM": "bexpr", "SecL": "bexpr", "SecS": "bexpr", "Ren": "alt", "priv": "*", "pm": "*", "ps": "*"}
	if t := hiddenUnder[field]; t == "*" || t == c08Tag {
		return h
	}
	return rng
}

func genS5b(hiddenSeed int) S5b {
	h := NewRng(uint64(hiddenSeed))
	return S5b{V: rng.Intn(3), Name: pick(rng, strPool), Sec: hpick(h, "Sec"), SecL: []int{hidRng(h, "SecL").Intn(3)}, priv: pick(h, hidPool), Ren: hpick(h, "Ren")}
}

func genS5(hiddenSeed int) S5 {
	h := NewRng(uint64(hiddenSeed) * 77)
	s := S5{V: rng.Intn(3), Name: pick(rng, strPool), Ren: hpick(h, "Ren")}
	s.Sec = hpick(h, "Sec")
	s.SecM = map[string]string{pick(hidRng(h, "SecM"), []string{"k", "a"}): hpick(h, "SecM")}
	s.SecL = []int{hidRng(h, "SecL").Intn(3), hidRng(h, "SecL").Intn(3)}
	s.priv = pick(h, hidPool)
	s.pm = map[string]int{"p": h.Intn(9)}
	s.SecS = S5b{V: hidRng(h, "SecS").Intn(3), Name: hpick(h, "SecS")}
	s.ps = S5b{V: h.Intn(9)}
	if rng.Pct(70) {
		b := genS5b(hiddenSeed + 1)
		s.In = &b
	}
	n := rng.Intn(3)
	for i := 0; i < n; i++ {
		s.Kids = append(s.Kids, genS5b(hiddenSeed+2+i))
	}
	s.ByK = map[string]S5b{}
	for i := 0; i < rng.Intn(3); i++ {
		s.ByK[pick(rng, []string{"a", "b", "k"})] = genS5b(hiddenSeed + 10 + i)
	}
	return s
}

func runC08(r *Run) {
	c08OddTagNames(r)
	c08HiddenRows(r)
	c08ZeroArrays(r)
	c08ContainersOfBlankRows(r)
	r.Rule = "pairs of data equal on visible fields and different in the contents of `-`-tagged and unexported fields (strings, slices, maps, nested structs; nested in structs, pointers, slices and maps), generated from one visible seed and two hidden seeds; expressions from the generic generator against the first datum plus a family naming hidden fields by Go name, tag name, through containers and quantifiers, under the default and the alternate tag name; predicate on the implementation: identical Evaluate outcomes and identical Filter selections for the pair; a selector naming a hidden field never resolves to its content; a renamed field is reachable only under its tag name; both evaluations also compared with the model; distinct = (expression shape, tag, outcome)"
	n := 1200
	if r.Tier == "thorough" {
		n = 80000
	}
	hiddenSels := []string{"Sec", "priv", "SecM.k", "SecL.0", "In.Sec", "In.priv", "Kids.0.Sec", "ByK.a.Sec", "SecS.V", "ps.V", "pm.p", "secl.0", "Ren", "renamed", "In.Ren", "In.renamed", "Kids.0.SecL", "SecL", "SecM"}
	forms := []string{"%s == h1", "%s != h2", "%s is empty", "%s is not empty", "1 in %s", "%s matches `1`", "any %s as x { x == 1 }", "all %s as k, v { v == h1 }", "any Kids as k { k.%s == h1 }", "any ByK as _, v { v.%s == h2 or v.V == 7 }", "all Kids as k { k.%s is empty }", "any Kids as k { h1 in k.%s }"}
	for i := 0; i < n; i++ {
		vis := mix(r.Seed, strHash("C08"), uint64(i))
		c08Tag = "bexpr"
		if NewRng(vis + 3).Pct(25) {
			c08Tag = "alt"
		}
		mk := func(hidden int) (interface{}, []S5, map[string]S5) {
			rng = NewRng(vis)
			top := genS5(hidden)
			var wrapd interface{}
			switch rng.Intn(4) {
			case 0:
				wrapd = top
			case 1:
				wrapd = &top
			case 2:
				wrapd = map[string]interface{}{"o": top, "l": []S5{top}}
			default:
				wrapd = struct {
					O  S5
					PO *S5
				}{top, &top}
			}
			rng = NewRng(vis + 1)
			lst := []S5{genS5(hidden + 100), genS5(hidden + 200), genS5(hidden + 300)}
			mp := map[string]S5{"a": lst[0], "b": lst[1], "c": lst[2]}
			return wrapd, lst, mp
		}
		d1, l1, m1 := mk(1)
		d2, l2, m2 := mk(2)
		rng = NewRng(vis + 2)
		tag := c08Tag
		var e string
		if rng.Pct(50) {
			e = genExpr(d1, tag, rng.Intn(3), "", reflect.Value{})
		} else {
			sel := pick(rng, hiddenSels)
			switch d1.(type) {
			case map[string]interface{}:
				sel = "o." + sel
			case S5, *S5:
			default:
				sel = pick(rng, []string{"O.", "PO."}) + sel
			}
			f := pick(rng, forms)
			if strings.Contains(f, "Kids as") || strings.Contains(f, "ByK as") {
				// the collection prefix follows the same wrapping
				pre := ""
				switch d1.(type) {
				case map[string]interface{}:
					pre = "o."
				case S5, *S5:
				default:
					pre = "O."
				}
				f = strings.Replace(f, "any Kids", "any "+pre+"Kids", 1)
				f = strings.Replace(f, "any ByK", "any "+pre+"ByK", 1)
				sel = pick(rng, []string{"Sec", "priv", "SecL.0", "Ren", "renamed", "Name"})
			}
			e = fmt.Sprintf(f, sel)
		}
		c1 := evalCase{expr: e, d: d1, tag: tag}
		if !c1.parse() {
			r.Count("generator:unparseable")
			continue
		}
		c2 := c1
		c2.d = d2
		o1, o2 := c1.obs(), c2.obs()
		r.Evaluations += 2
		r.Seen(opSig(c1.ast) + "|" + tag + "|" + o1)
		r.Count("outcome:" + o1)
		r.Count("tag:" + tag)
		if o1 != o2 {
			m := c1.desc()
			m["datum_b"] = describe(d2)
			r.Violate("hidden-field-observable", e, m, o1+" vs "+o2)
		} else if t1, t2 := rawOutcome(&c1), rawOutcome(&c2); t1 != t2 {
			// "identical outcomes" includes the text of the error: a message that prints the selected value prints its hidden fields
			m := c1.desc()
			m["datum_b"] = describe(d2)
			r.Violate("hidden-field-in-error-text", opSig(c1.ast), m, t1+" vs "+t2)
		}
		r.Model(c1.cmd(), o1, c1.desc())
		r.Model(c2.cmd(), o2, c2.desc())
		// Filter selections over []S5 and map[string]S5
		fe := e
		if rng.Pct(60) {
			fe = fmt.Sprintf(pick(rng, forms[:6]), pick(rng, hiddenSels))
		}
		// (CreateFilter takes no options: filters always use the default tag name)
		if flt, err := bexpr.CreateFilter(fe); tag == "bexpr" && err == nil && flt != nil {
			k1, k2 := filterKept(flt, l1), filterKept(flt, l2)
			r.Evaluations += 2
			if k1 != k2 {
				r.Violate("hidden-field-changes-filter", fe, map[string]interface{}{"expression": fe, "tag": tag, "list_a": describe(l1), "list_b": describe(l2)}, k1+" vs "+k2)
			} else if t1, t2 := filterErrText(flt, l1), filterErrText(flt, l2); t1 != t2 {
				// lists are walked in order: the first error is the same element's in both, and its text must not show what is hidden
				r.Violate("hidden-field-in-error-text", "filter|"+fe, map[string]interface{}{"expression": fe, "tag": tag, "list_a": describe(l1), "list_b": describe(l2)}, truncate(t1, 200)+" vs "+truncate(t2, 200))
			}
			k1, k2 = filterKept(flt, m1), filterKept(flt, m2)
			if k1 != k2 {
				r.Violate("hidden-field-changes-filter", fe, map[string]interface{}{"expression": fe, "tag": tag, "map_a": describe(m1), "map_b": describe(m2)}, k1+" vs "+k2)
			}
			r.Count("filter:" + strings.SplitN(k1, ":", 2)[0])
		}
		if i%200 == 0 {
			r.Sample(map[string]interface{}{"expression": e, "tag": tag, "outcome_a": o1, "outcome_b": o2})
		}
	}
	// enclosing structs whose visible fields are all zero and whose hidden fields differ (operators applied to the struct itself)
	za := S5{priv: "h1", Sec: "h1", In: &S5b{priv: "h1", Sec: "h2"}, Kids: []S5b{{Sec: "h1"}, {}}, ByK: map[string]S5b{"a": {priv: "x"}}}
	zb := S5{In: &S5b{}, Kids: []S5b{{}, {}}, ByK: map[string]S5b{"a": {}}}
	for _, e := range []string{"In is empty", "In is not empty", "any Kids as k { k is empty }", "all Kids as k { k is empty }", "all ByK as _, v { v is not empty }", "In == 1", "1 in In", "In matches `a`", "Kids.0 is empty", "ByK.a is empty"} {
		c1 := evalCase{expr: e, d: za, tag: "bexpr"}
		if !c1.parse() {
			continue
		}
		c2 := c1
		c2.d = zb
		o1, o2 := c1.obs(), c2.obs()
		r.Evaluations += 2
		r.Seen("zero-visible|" + e)
		if o1 != o2 {
			m := c1.desc()
			m["datum_b"] = describe(zb)
			r.Violate("hidden-field-observable", "zero-visible|"+e, m, o1+" vs "+o2)
		} else if t1, t2 := rawOutcome(&c1), rawOutcome(&c2); t1 != t2 {
			m := c1.desc()
			m["datum_b"] = describe(zb)
			r.Violate("hidden-field-in-error-text", "zero-visible|"+e, m, t1+" vs "+t2)
		}
		r.Model(c1.cmd(), o1, c1.desc())
		r.Model(c2.cmd(), o2, c2.desc())
		if flt, err := bexpr.CreateFilter(strings.Replace(strings.Replace(e, "In ", "X ", 1), "In.", "X.", 1)); err == nil && flt != nil {
			type holder struct{ X S5b }
			la := []holder{{S5b{priv: "h1"}}, {S5b{}}, {S5b{Sec: "h2"}}}
			lb := []holder{{S5b{}}, {S5b{}}, {S5b{}}}
			if k1, k2 := filterKept(flt, la), filterKept(flt, lb); k1 != k2 {
				r.Violate("hidden-field-changes-filter", "zero-visible|"+e, map[string]interface{}{"expression": e, "list_a": describe(la), "list_b": describe(lb)}, k1+" vs "+k2)
			}
		}
	}
	// an embedded struct that is itself tagged "-": its fields must not be reachable under their promoted names either
	{
		ea := S8{Name: "n", Creds: Creds{Token: "h1", Level: 1}, Accounts: []S8acc{{ID: 1, Creds: Creds{Token: "h1"}}, {ID: 2}}, ByName: map[string]S8acc{"k": {ID: 1, Creds: Creds{Token: "h2"}}}}
		eb := S8{Name: "n", Creds: Creds{Token: "", Level: 0}, Accounts: []S8acc{{ID: 1}, {ID: 2}}, ByName: map[string]S8acc{"k": {ID: 1}}}
		for _, e := range []string{"Token == h1", "Token is empty", "Level == 1", "Creds.Token == h1", "Accounts.0.Token == h1", "ByName.k.Token == h2", "any Accounts as acc { acc.Token == h1 }",
			"all ByName as _, v { v.Token is empty }", "h1 in Token", "Token matches `h`", "any Accounts as acc { acc.Token is not empty or acc.ID == 7 }"} {
			for _, unk := range []bool{false, true} {
				c1 := evalCase{expr: e, d: ea, tag: "bexpr", unkSet: unk, unk: "h1"}
				if !c1.parse() {
					continue
				}
				c2 := c1
				c2.d = eb
				o1, o2 := c1.obs(), c2.obs()
				r.Evaluations += 2
				r.Seen("embedded|" + e + fmt.Sprint(unk))
				if o1 != o2 {
					m := c1.desc()
					m["datum_b"] = describe(eb)
					r.Violate("hidden-field-observable", "embedded|"+e, m, o1+" vs "+o2)
				}
				r.Model(c1.cmd(), o1, c1.desc())
				r.Model(c2.cmd(), o2, c2.desc())
			}
		}
		if flt, err := bexpr.CreateFilter("Token == h1 or Token is not empty"); err == nil {
			if k1, k2 := filterKept(flt, []S8acc{{ID: 1, Creds: Creds{Token: "h1"}}, {ID: 2}}), filterKept(flt, []S8acc{{ID: 1}, {ID: 2}}); k1 != k2 {
				r.Violate("hidden-field-changes-filter", "embedded-filter", map[string]interface{}{"expression": "Token == h1 or Token is not empty"}, k1+" vs "+k2)
			}
		}
	}
	c08TagNameAndMethods(r)
	c08Shapes(r)
	c08TagCaseAndComparable(r)
	// a hidden field's content is never the value a selector resolves to; a renamed field only under its tag
	d := S5{Sec: "secret", priv: "secret", Ren: "r", SecS: S5b{Name: "secret"}}
	for _, t := range []struct{ e, tag, want string }{
		{"Sec == secret", "bexpr", "E"}, {"priv == secret", "bexpr", "E"}, {"SecS.Name == secret", "bexpr", "E"}, {"Ren == r", "bexpr", "E"}, {"renamed == r", "bexpr", "T"},
		{"Sec == secret", "alt", "T"}, {"Ren == r", "alt", "E"}, {"renamed == r", "alt", "E"}, {"priv == secret", "alt", "E"}, {"secl is empty", "alt", "T"}, {"SecL is empty", "alt", "E"},
	} {
		c := evalCase{expr: t.e, d: d, tag: t.tag}
		if !c.parse() {
			continue
		}
		o := c.obs()
		r.Evaluations++
		r.Seen("fixed|" + t.e + "|" + t.tag)
		if o != t.want {
			r.Violate("hidden-or-renamed-resolution", t.e+"|"+t.tag, c.desc(), "expected "+t.want+" got "+o)
		}
		r.Model(c.cmd(), o, c.desc())
	}
}

// filterKept renders which positions / keys Execute keeps (or "err").
// filterErrText is the text of the error Execute returns (addresses blanked), "" when there is none.
func filterErrText(f *bexpr.Filter, data interface{}) (out string) {
	defer func() {
		if p := recover(); p != nil {
			out = "panic"
		}
	}()
	if _, err := f.Execute(data); err != nil {
		return addrRe.ReplaceAllString(err.Error(), "0xADDR")
	}
	return ""
}

func filterKept(f *bexpr.Filter, data interface{}) (out string) {
	enter("Execute", "(a filter)", data)
	defer leave()
	defer func() {
		if p := recover(); p != nil {
			out = "panic"
		}
	}()
	res, err := f.Execute(data)
	if err != nil {
		if res != nil {
			// the documented result beside an error is nil; whatever comes instead is part of the outcome
			out := "err-with-result:" + reflect.TypeOf(res).String()
			if rv := reflect.ValueOf(res); rv.Kind() == reflect.Map {
				var ks []string
				for _, k := range rv.MapKeys() {
					ks = append(ks, keyText(k))
				}
				sortStrings(ks)
				out += " keys:" + strings.Join(ks, ",")
			} else if rv.Kind() == reflect.Slice || rv.Kind() == reflect.Array {
				out += fmt.Sprintf(" len:%d", rv.Len())
			}
			return out
		}
		return "err"
	}
	rv := reflect.ValueOf(res)
	in := reflect.ValueOf(data)
	switch rv.Kind() {
	case reflect.Map:
		var ks []string
		for _, k := range rv.MapKeys() {
			ks = append(ks, keyText(k))
		}
		sortStrings(ks)
		return "keys:" + strings.Join(ks, ",")
	case reflect.Slice:
		// positions: match kept elements to input positions in order (elements are compared on visible content via %v of exported fields)
		var pos []string
		j := 0
		for i := 0; i < in.Len() && j < rv.Len(); i++ {
			if reflect.DeepEqual(in.Index(i).Interface(), rv.Index(j).Interface()) {
				pos = append(pos, strconv.Itoa(i))
				j++
			}
		}
		if j != rv.Len() {
			return "kept-elements-not-a-subsequence"
		}
		return "pos:" + strings.Join(pos, ",")
	}
	return "other"
}

func sortStrings(s []string) {
	for i := 1; i < len(s); i++ {
		for j := i; j > 0 && s[j] < s[j-1]; j-- {
			s[j], s[j-1] = s[j-1], s[j]
		}
	}
}

// ---------- C14: map order ----------

func runC14(r *Run) {
	r.Rule = "maps of 2..8 entries whose element outcomes mix true/false/error (scalars, structs, nested maps, nil), quantified over with every binding mode and nested, and filtered; each call repeated 64 times (thorough 512) on the implementation - Go randomises the iteration order of every range - and on freshly rebuilt maps; predicate: all repetitions agree; the common outcome is also compared with the model (which visits keys in sorted order); distinct = (entry count, element mix, expression, outcome)"
	reps := 64
	n := 250
	if r.Tier == "thorough" {
		reps, n = 512, 6000
	}
	c14OddMaps(r, reps)
	c14ReplacedInPlace(r)
	c14TypedMaps(r, 40)
	c14ReentrantHook(r)
	sameTypeDifferentShape(r, "order-dependent-evaluate")
	c14RepeatedCreation(r, reps)
	bodies := []string{"any m as _, v { v.x == 1 }", "all m as _, v { v.x == 1 }", "any m as k, v { v.x == 1 and k != zz }", "all m as k, v { v.x != 1 or k == a }", "any m as k { k == b }",
		"any m as _, v { v == 5 }", "all m as _, v { v is not empty }", "any m as _, v { any v as _, w { w == 1 } }", "not any m as _, v { v.x == 2 }", "any m as _, v { v.x == 1 } or any m as _, v { v.x == 2 }",
		"any o.m as _, v { v.x == 1 }", "all m as k, _ { k matches `^[a-d]$` }",
		"any m as k { k == b or zz == 1 }", "all m as k, _ { k != b and zz == 1 }", "any m as k { k == c or m.a.x == 1 }", "all m as k { k != a or zz is empty }",
		"any m as m, v { v.x == 1 }", "all m as m, v { v.x != 7 }", "any o.m as o, v { v.x == 1 }", "any m as k, v { any v as v, w { w == 1 } }", "all m as zz, v { v.x != 1 or zz == a }"}
	elems := []interface{}{map[string]interface{}{"x": 1}, map[string]interface{}{"x": 2}, 5, "s", nil, map[string]interface{}{}, map[string]interface{}{"x": "1"}, []interface{}{1}, map[string]interface{}{"x": 1, "y": 2}}
	keys := []string{"a", "b", "c", "d", "e", "f", "g", "h", "i", "j", "k", "l", "m", "n", "o", "p", "q"}
	numKeys := []string{"7", "07", "+7", "9", "10", "1a", "-0", "0", "00", "1e3", "0x10", "010", "8", "08", "1_0", "007", "7.0", "a"} // keys a "numeric aware" order ties or cycles on
	oddKeys := []string{"k\xfe", "k\xff", "\xff", "\ufffd", "k\xc0", "a", "", "é", "e\u0301", "z", "not", "0", "true", "-0", "NaN", "in", "k\x00", "K"}
	caseKeys := []string{"name", "Name", "NAME", "nAME", "a", "A", "b", "B", "é", "É", "ß", "SS", "ss", "ı", "I", "i", "İ", "k"} // keys that a case-folding order ties
	for i := 0; i < n; i++ {
		rng = NewRng(mix(r.Seed, strHash("C14"), uint64(i)))
		sz := 2 + rng.Intn(16)
		mkdoc := func() interface{} {
			rr := NewRng(mix(r.Seed, strHash("C14doc"), uint64(i)))
			m := map[string]interface{}{}
			ks := keys
			if i%3 == 1 {
				ks = oddKeys // keys that differ only in an invalid byte, or only after normalisation
			} else if i%3 == 2 {
				ks = numKeys
			}
			if i%7 == 3 {
				ks = caseKeys
			}
			for j := 0; j < sz; j++ {
				m[ks[j]] = elems[rr.Intn(len(elems))]
			}
			if i%5 == 2 {
				return map[string]interface{}{"m": &m, "o": map[string]interface{}{"m": &m}} // a pointer to the map as the collection
			}
			return map[string]interface{}{"m": m, "o": map[string]interface{}{"m": m}}
		}
		d := mkdoc()
		e := pick(rng, bodies)
		c := evalCase{expr: e, d: d, tag: "bexpr"}
		if !c.parse() {
			continue
		}
		ev, err := bexpr.CreateEvaluator(e)
		if err != nil {
			continue
		}
		first := evalObs(ev, d)
		counts := map[string]int{first: 1}
		for k := 1; k < reps; k++ {
			dd := d
			if k%4 == 0 {
				dd = mkdoc() // a fresh map: a different hash seed
			}
			if k%16 == 3 {
				poison() // unrelated failing calls in between
			}
			counts[evalObs(ev, dd)]++
		}
		r.Evaluations += reps
		r.Seen(fmt.Sprint(sz) + "|" + e + "|" + first + "|" + fmt.Sprint(i%7))
		r.Count("outcome:" + first)
		if len(counts) != 1 {
			r.Violate("order-dependent-evaluate", e, c.desc(), fmt.Sprint(counts))
		}
		r.Model(c.cmd(), first, c.desc())
		// membership in maps with interface keys of several numeric kinds and boundary literals
		{
			mi := map[interface{}]interface{}{uint64(math.MaxUint64): 1, int(1): 2, float32(1): 3, int8(5): 4, "s": 5, 1.5: 6}
			dm := map[string]interface{}{"mi": mi, "lm": map[string]interface{}{"a": mi, "b": mi}}
			for _, me := range []string{`"18446744073709551615" in mi`, `"1e39" in mi`, `"300" in mi`, `mi contains "1"`, `any lm as _, v { "18446744073709551615" in v }`} {
				ev, err := bexpr.CreateEvaluator(me)
				if err != nil {
					continue
				}
				f0 := evalObs(ev, dm)
				fc := map[string]int{f0: 1}
				for k := 1; k < reps; k++ {
					fc[evalObs(ev, dm)]++
				}
				r.Evaluations += reps
				r.Seen("iface-keys|" + me + "|" + fmt.Sprint(i%3))
				if len(fc) != 1 {
					r.Violate("order-dependent-evaluate", me, map[string]interface{}{"expression": me, "datum": describe(dm)}, fmt.Sprint(fc))
				}
				if i < 3 {
					c2 := evalCase{expr: me, d: dm, tag: "bexpr"}
					if c2.parse() {
						r.Model(c2.cmd(), f0, c2.desc())
					}
				}
			}
		}
		// Filter over the map
		fe := pick(rng, []string{"x == 1", "x != 1", "y == 2 or x == 1", "x is not empty"})
		if flt, err := bexpr.CreateFilter(fe); err == nil {
			m := d.(map[string]interface{})["m"]
			if pm, ok := m.(*map[string]interface{}); ok {
				m = *pm
			}
			f0 := filterKept(flt, m)
			fc := map[string]int{f0: 1}
			for k := 1; k < reps; k++ {
				fc[filterKept(flt, m)]++
			}
			r.Evaluations += reps
			if len(fc) != 1 {
				r.Violate("order-dependent-filter", fe, map[string]interface{}{"expression": fe, "datum": describe(m)}, fmt.Sprint(fc))
			}
			r.Count("filter:" + strings.SplitN(f0, ":", 2)[0])
		}
		if i%40 == 0 {
			r.Sample(map[string]interface{}{"expression": e, "datum": describe(d), "outcome": first, "repetitions": reps})
		}
	}
}
