module verifharness

go 1.18

require (
	github.com/hashicorp/go-bexpr v0.0.0
	github.com/mitchellh/pointerstructure v1.2.1
)

require github.com/mitchellh/mapstructure v1.4.1 // indirect

replace github.com/hashicorp/go-bexpr => /repo
