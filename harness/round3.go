package main

import (
	"errors"
	"fmt"
	"math"
	"reflect"
	"strings"
	"time"

	bexpr "github.com/hashicorp/go-bexpr"
	"github.com/hashicorp/go-bexpr/grammar"
)

// Families added after the third round of seeded changes.

// ---------- C01: membership in lists of interface values with literals at the edge of a numeric width ----------

func c01IfaceListBoundaries(r *Run) {
	lists := []struct {
		name string
		l    interface{}
	}{
		{"int-then-str", []interface{}{1, "x"}}, {"str-then-int", []interface{}{"9223372036854775808", 1}}, {"int-last", []interface{}{"a", 1, "9223372036854775808"}},
		{"uints", []interface{}{uint64(1), uint8(2)}}, {"floats", []interface{}{1.5, float32(2)}}, {"int8s", []interface{}{int8(1), "128"}}, {"mixed", []interface{}{"a", nil, 1, 2.5, true}},
		{"array", [2]interface{}{1, "x"}}, {"typed-int64", []int64{1}}, {"typed-uint8", []uint8{1}}, {"typed-float32", []float32{1}}, {"json", []interface{}{"x", float64(1), "1e999"}},
		{"nested", []interface{}{[]interface{}{1}, 1}}, {"ptrs", []interface{}{new(int), "x"}}, {"named", []interface{}{NInt(1), NU16(2), "65536"}},
	}
	forms := []string{"%s in L", "%s not in L", "L contains %s", "L not contains %s", "any L as x { x == %s }", "all L as x { x != %s }"}
	lits := []string{"9223372036854775808", `"-9223372036854775809"`, "18446744073709551616", `"1e999"`, "128", "256", `"1e39"`, "65536", "1", "x", `"9223372036854775807"`, "-1", "1.5", `"0x1"`}
	for _, l := range lists {
		for _, f := range forms {
			for _, lit := range lits {
				c := evalCase{expr: fmt.Sprintf(f, lit), d: map[string]interface{}{"L": l.l}, tag: "bexpr"}
				if !c.parse() {
					r.Count("generator:unparseable")
					continue
				}
				addEval(r, &c, "iface-list-boundaries")
			}
		}
	}
}

// ---------- C03: and / or inside a quantifier body ----------

// The body of a quantifier is an ordinary expression: with L depending on the element and R not (or the other way
// round), `any S as x { L op R }` must equal the fold of the bodies evaluated element by element with the
// implementation's own and/or on the spelled-out paths.
func c03QuantifierBodies(r *Run, n int) {
	type doc struct {
		Xs []int
		Ys []interface{}
		Ms map[string]int
		N  int
		E  []int
	}
	dep := []string{"$x == 1", "$x != 1", "$x == 0", "$x == bad", "$x is empty"}
	indep := []string{"Missing == 2", "N == 1", "N != 1", "N == bad", "Ms.zz == 1", "N matches `[`"}
	for i := 0; i < n; i++ {
		rng = NewRng(mix(r.Seed, strHash("C03body"), uint64(i)))
		d := doc{N: rng.Intn(2), Ms: map[string]int{"a": 1}}
		k := rng.Intn(5)
		for j := 0; j < k; j++ {
			d.Xs = append(d.Xs, rng.Intn(3))
			d.Ys = append(d.Ys, pick(rng, []interface{}{0, 1, "s", 2}))
		}
		coll := pick(rng, []string{"Xs", "Ys", "E"})
		elems := map[string]int{"Xs": len(d.Xs), "Ys": len(d.Ys), "E": 0}[coll]
		l, rr := pick(rng, dep), pick(rng, indep)
		if rng.Pct(35) {
			l, rr = rr, l
		}
		if rng.Pct(15) {
			rr = pick(rng, dep)
		}
		if rng.Pct(10) {
			l = pick(rng, indep)
		}
		op := pick(rng, []string{"and", "or"})
		body := l + " " + op + " " + rr
		if rng.Pct(20) {
			body = "not ( " + body + " )"
		}
		if rng.Pct(20) {
			body = body + " " + pick(rng, []string{"and", "or"}) + " " + pick(rng, append(dep, indep...))
		}
		q := pick(rng, []string{"any", "all"})
		bind := pick(rng, []string{"x", "_, x", "i, x"})
		e := fmt.Sprintf("%s %s as %s { %s }", q, coll, bind, strings.ReplaceAll(body, "$x", "x"))
		c := evalCase{expr: e, d: d, tag: "bexpr"}
		if !c.parse() {
			r.Count("generator:unparseable")
			continue
		}
		o := c.obs()
		r.Evaluations++
		// element by element
		want := "F"
		if q == "all" {
			want = "T"
		}
		for j := 0; j < elems; j++ {
			oj := exprObs(strings.ReplaceAll(body, "$x", fmt.Sprintf("%s.%d", coll, j)), d)
			if oj == "E" || oj == "P" || oj == "X" {
				want = oj
				break
			}
			if q == "any" && oj == "T" {
				want = "T"
				break
			}
			if q == "all" && oj == "F" {
				want = "F"
				break
			}
		}
		r.Seen("body|" + l + "|" + op + "|" + rr + "|" + q + "|" + o)
		r.Count("quantifier-body:" + o)
		if o != want {
			m := c.desc()
			m["body"] = body
			r.Violate("quantifier-body-fold", "body|"+l+"|"+op+"|"+rr, m, "element by element "+want+", quantifier "+o)
		}
		r.Model(c.cmd(), o, c.desc())
	}
}

// ---------- C06: the JSON Pointer "" (the key "" of the datum) inside quantifier bodies ----------

func c06EmptyPointer(r *Run) {
	d := map[string]interface{}{"": "root", "l": []interface{}{"root", "b"}, "m": map[string]interface{}{"root": 1, "k": 2}, "e": []interface{}{}, "n": []interface{}{[]interface{}{1, 2}}}
	d2 := map[string]interface{}{"": []interface{}{1, 2}, "l": []interface{}{"a", "b"}, "m": map[string]interface{}{"k": 1}}
	for _, t := range []struct {
		e    string
		d    interface{}
		want string
	}{
		{`"" == root`, d, "T"}, {`any l as x { "" == root }`, d, "T"}, {`all l as x { "" == root }`, d, "T"}, {`any l as i, x { "" == zz }`, d, "F"}, {`all m as k { "" == root }`, d, "T"},
		{`any m as k, v { "" != root }`, d, "F"}, {`all l as _, x { "" == root }`, d, "T"}, {`all l as i, _ { "" == root }`, d, "T"}, {`any e as x { "" == root }`, d, "F"},
		{`all l as x { x == root or "" == root }`, d, "T"}, {`any n as x { any x as y { "" == root } }`, d, "T"}, {`all m as k, v { "" matches "^ro" }`, d, "T"},
		{`any "" as n { n == 1 }`, d2, "T"}, {`any l as x { any "" as n { n == 1 } }`, d2, "T"}, {`all l as i, x { all "" as n { n != 3 } }`, d2, "T"}, {`any m as k { any "" as _, n { n == 2 } }`, d2, "T"},
		{`all l as x { "" is not empty }`, d2, "T"}, {`any l as x { 1 in "" }`, d2, "T"},
	} {
		c := evalCase{expr: t.e, d: t.d, tag: "bexpr"}
		if !c.parse() {
			r.Violate("fixed-case-unparseable", t.e, c.desc(), "")
			continue
		}
		o := c.obs()
		r.Evaluations++
		r.Seen("empty-pointer|" + t.e)
		if o != t.want {
			r.Violate("binding-semantics", t.e, c.desc(), "expected "+t.want+" got "+o)
		}
		r.Model(c.cmd(), o, c.desc())
	}
}

// ---------- C07: texts that differ only in the blanks inside a quoted part ----------

// Evaluators for several texts are created one after the other in one process; each must look up its own key.
func c07WhitespaceTwins(r *Run) {
	keys := []string{"x y", "x  y", "x\ty", " x y", "x y ", "x y", "X Y", "x\ny"}
	inner := map[string]interface{}{}
	for i, k := range keys {
		inner[k] = fmt.Sprintf("v%d", i)
	}
	d := map[string]interface{}{"a": inner, "l": []interface{}{1}}
	tpls := []string{"a[%s] == %s", "a[%s] != %s", "any l as q { a[%s] == %s }", "%s in a and a[%[1]s] == %[2]s"}
	for round := 0; round < 2; round++ { // the second round meets whatever the first left behind
		for _, tpl := range tpls {
			for i, k := range keys {
				for j := range keys {
					lits := []string{quoteDouble(k)}
					if !strings.ContainsAny(k, "`\r") {
						lits = append(lits, "`"+k+"`")
					}
					for _, lit := range lits {
						e := fmt.Sprintf(tpl, lit, fmt.Sprintf("v%d", j))
						c := evalCase{expr: e, d: d, tag: "bexpr"}
						if !c.parse() {
							r.Violate("spelling-does-not-parse", e, map[string]interface{}{"expression": e}, "")
							continue
						}
						o := c.obs()
						r.Evaluations++
						r.Seen(fmt.Sprintf("twins|%s|%d|%v", tpl, i, i == j))
						want := "F"
						if (i == j) != strings.Contains(tpl, "!=") {
							want = "T"
						}
						if o != want {
							r.Violate("spelling-outcome", "twins|"+tpl, c.desc(), "the part "+fmt.Sprintf("%q", k)+" must select its own entry: expected "+want+" got "+o)
						}
						if round == 0 {
							r.Model(c.cmd(), o, c.desc())
						}
					}
				}
			}
		}
	}
}

// ---------- C08: names shared between a hidden field and a tag; textual methods ----------

func c08TagNameAndMethods(r *Run) {
	pairs := []struct {
		name string
		a, b interface{}
	}{
		{"tag-name-of-hidden", S10{Labels: map[string]string{"k": "v"}, Meta: map[string]interface{}{"owner": "ops"}, Items: []int{1}, Hidden: []int{5, 6, 7}},
			S10{Labels: map[string]string{"k": "v"}, Meta: "x", Items: []int{1}, Hidden: 7}},
		{"tag-name-of-hidden-nil", S10{Labels: map[string]string{"k": "v"}, Meta: map[string]string{"owner": "ops"}, Items: []int{1}, Hidden: map[string]int{"2": 1}},
			S10{Labels: map[string]string{"k": "v"}, Items: []int{1}}},
		{"textual-methods", S9{K: Leaky{Name: "n", Sec: "h1", priv: "h2"}, LK: []Leaky{{Name: "n", Sec: "h1"}, {Name: "m", priv: "h1"}}, MK: map[string]Leaky{"k": {Name: "n", Sec: "h2"}}, PK: &Leaky{Name: "n", priv: "h1"}, I: Leaky{Name: "n", Sec: "h1"}},
			S9{K: Leaky{Name: "n"}, LK: []Leaky{{Name: "n"}, {Name: "m"}}, MK: map[string]Leaky{"k": {Name: "n"}}, PK: &Leaky{Name: "n"}, I: Leaky{Name: "n"}}},
	}
	exprs := map[string][]string{
		"tag-name-of-hidden": {"Meta.owner != ops", "Meta.owner == ops", "Meta.owner is empty", "Meta.owner is not empty", "ops in Meta.owner", "Meta.owner matches `o`", "Meta.k == v", "Meta.owner.x == 1",
			"any Meta.owner as x { x == 1 }", "all Meta.owner as x { x == 1 }", "Hidden.2 == 7", "Hidden.2 != 7", "Hidden.0 == 1", "any Hidden.2 as x { x == 1 }", "Meta is empty", "Hidden is not empty", "owner in Meta", "Meta contains owner"},
		"textual-methods": {"K == `n h1 h2`", "K != `n h1 h2`", "K matches `h1`", "K not matches `h1`", "h1 in K", "K contains h2", "K is empty", "K is not empty", "PK matches `h1`", "PK == `n  h1`", "I matches `h1`", "I == `n h1 `",
			"any LK as v { v matches `h1` }", "all LK as v { v == `n h1 ` }", "any MK as _, v { v matches `h2` }", "MK.k matches `h2`", "LK.0 == `n h1 `", "LK.1 matches `h1`", `"/K" matches "h1"`, "any LK as i, v { v not matches `zz` }"},
	}
	exprs["tag-name-of-hidden-nil"] = exprs["tag-name-of-hidden"]
	for _, p := range pairs {
		for _, e := range exprs[p.name] {
			for _, tag := range []string{"bexpr", "alt"} {
				for _, unk := range []bool{false, true} {
					c1 := evalCase{expr: e, d: p.a, tag: tag, unkSet: unk, unk: "ops"}
					if !c1.parse() {
						r.Count("generator:unparseable")
						continue
					}
					c2 := c1
					c2.d = p.b
					o1, o2 := c1.obs(), c2.obs()
					r.Evaluations += 2
					r.Seen(p.name + "|" + e + "|" + tag + fmt.Sprint(unk))
					if o1 != o2 {
						m := c1.desc()
						m["datum_b"] = describe(p.b)
						r.Violate("hidden-field-observable", p.name+"|"+e, m, o1+" vs "+o2)
					}
					r.Model(c1.cmd(), o1, c1.desc())
					r.Model(c2.cmd(), o2, c2.desc())
				}
			}
			if flt, err := bexpr.CreateFilter(e); err == nil && flt != nil {
				la, lb := reflect.MakeSlice(reflect.SliceOf(reflect.TypeOf(p.a)), 2, 2), reflect.MakeSlice(reflect.SliceOf(reflect.TypeOf(p.b)), 2, 2)
				la.Index(0).Set(reflect.ValueOf(p.a))
				la.Index(1).Set(reflect.ValueOf(p.b))
				lb.Index(0).Set(reflect.ValueOf(p.b))
				lb.Index(1).Set(reflect.ValueOf(p.b))
				if k1, k2 := filterKept2(flt, la.Interface()), filterKept2(flt, lb.Interface()); k1 != k2 {
					r.Violate("hidden-field-changes-filter", p.name+"|"+e, map[string]interface{}{"expression": e, "list_a": describe(la.Interface()), "list_b": describe(lb.Interface())}, k1+" vs "+k2)
				}
			}
		}
	}
}

// filterKept2 renders which positions Execute keeps, by position only (elements may differ in hidden content).
func filterKept2(f *bexpr.Filter, data interface{}) (out string) {
	defer func() {
		if p := recover(); p != nil {
			out = "panic"
		}
	}()
	res, err := f.Execute(data)
	if err != nil {
		return "err"
	}
	return fmt.Sprintf("kept %d", reflect.ValueOf(res).Len())
}

// ---------- C09: values the model's type language does not describe (implementation-side predicate only) ----------

type strer struct{ s string }

func (s strer) String() string { return s.s }

func c09Unmodelled(r *Run) {
	var nilStrMap map[fmt.Stringer]int
	samples := []kindSample{
		{"MapStringerKey", map[fmt.Stringer]int{strer{"a"}: 1}}, {"MapStringerKeyEmpty", map[fmt.Stringer]int{}}, {"MapStringerKeyNil", nilStrMap}, {"MapErrorKey", map[error]string{errors.New("a"): "x"}},
		{"MapStringerKeyIfaceVal", map[fmt.Stringer]interface{}{strer{"a"}: 1, Dur(1): "x"}}, {"SliceOfStringer", []fmt.Stringer{strer{"a"}, Dur(1), nil}}, {"SliceOfError", []error{errors.New("a"), nil}},
		{"ArrayOfStringer", [2]fmt.Stringer{strer{"a"}, nil}}, {"MapStringToStringer", map[string]fmt.Stringer{"a": strer{"a"}, "n": nil}}, {"StructWithStringer", struct{ S fmt.Stringer }{strer{"a"}}}, {"StructWithNilStringer", struct{ S fmt.Stringer }{}},
		{"PtrMapStringerKey", &map[fmt.Stringer]int{strer{"a"}: 1}}, {"MapArrayKey", map[[2]int]int{{1, 2}: 1}}, {"MapStructKey", map[Inner]int{{1}: 1}}, {"MapPtrKey", map[*int]int{new(int): 1}}, {"MapChanKey", map[chan int]int{make(chan int): 1}},
		{"Time", time.Unix(0, 0)}, {"Duration", time.Second}, {"Error", errors.New("a")}, {"ReflectValue", reflect.ValueOf(1)}, {"MapUintptrKey", map[uintptr]int{1: 1}}, {"MapComplexKey", map[complex128]int{1: 1}},
	}
	lits := []string{`1`, `"a"`, `true`, `""`, `-1`}
	forms := []string{"x == %s", "x != %s", "%s in x", "%s not in x", "x contains %s", "x not contains %s", "x is empty", "x is not empty", "x matches %s", "x not matches %s",
		"any x as v { v == %s }", "all x as k, v { v != %s }", "any x as k, _ { k == %s }", "x.a == %s", "x.0 == %s", "x.S == %s", "x == %s or x is empty", "y == 1 or %s in x"}
	type holder struct{ X interface{} }
	for _, ks := range samples {
		for _, w := range []struct {
			name string
			d    interface{}
			sel  string
		}{{"mapvalue", map[string]interface{}{"x": ks.v, "y": 2}, "x"}, {"structfield", holder{ks.v}, "X"}, {"nested", map[string]interface{}{"o": map[string]interface{}{"x": ks.v}}, "o.x"}, {"in-list", map[string]interface{}{"l": []interface{}{ks.v}}, "l.0"}} {
			for _, f := range forms {
				for li, lit := range lits {
					if !strings.Contains(f, "%s") && li > 0 {
						continue
					}
					e := f
					if strings.Contains(f, "%s") {
						e = fmt.Sprintf(f, lit)
					}
					if w.sel != "x" {
						e = strings.ReplaceAll(" "+e, " x", " "+w.sel)[1:]
					}
					o := exprObs(e, w.d)
					r.Evaluations++
					r.Count("outcome:" + o)
					r.Count("stream:unmodelled-kinds")
					r.Seen(f + "|" + ks.name + "|" + w.name + "|" + lit)
					c := map[string]interface{}{"expression": e, "datum": describe(w.d), "datum_type": fmt.Sprintf("%T", ks.v)}
					if o == "P" {
						r.Violate("evaluate-panics", "panic:"+f+"|"+ks.name, c, "Evaluate panicked")
					}
					if o == "X" {
						r.Violate("error-with-true", "errtrue:"+f+"|"+ks.name, c, "Evaluate returned (true, err)")
					}
					if strings.HasPrefix(o, "UNSTABLE") {
						r.Violate("unstable", "unstable:"+f+"|"+ks.name, c, o)
					}
				}
			}
		}
	}
}

// ---------- C13: the caller changes the datum between calls; calls that nest ----------

// mutateInPlace renames one key of a map[string]interface{} (same size) or overwrites one element of a []interface{},
// somewhere in d, without allocating a new container.
func mutateInPlace(d interface{}, depth int) bool {
	switch m := d.(type) {
	case map[string]interface{}:
		if len(m) == 0 {
			return false
		}
		var ks []string
		for k := range m {
			ks = append(ks, k)
		}
		sortStrings(ks)
		k := pick(rng, ks)
		if depth > 0 && rng.Pct(50) && mutateInPlace(m[k], depth-1) {
			return true
		}
		nk := pick(rng, []string{"a", "b", "c", "k", "zz", "x", "d", "e", "tags", "Tag"})
		if _, ok := m[nk]; ok {
			m[k], m[nk] = m[nk], m[k]
			return true
		}
		m[nk] = m[k]
		delete(m, k)
		return true
	case []interface{}:
		if len(m) == 0 {
			return false
		}
		i := rng.Intn(len(m))
		if depth > 0 && rng.Pct(50) && mutateInPlace(m[i], depth-1) {
			return true
		}
		m[i] = pick(rng, []interface{}{1, "a", "c", nil, 2.5, m[rng.Intn(len(m))]})
		return true
	case map[string]int:
		for k, v := range m {
			delete(m, k)
			m[pick(rng, []string{"a", "b", "c", "zz"})] = v
			return true
		}
	case map[string]string:
		for k, v := range m {
			delete(m, k)
			m[pick(rng, []string{"a", "b", "c", "zz"})] = v
			return true
		}
	}
	return false
}

func c13InPlaceAndNested(r *Run, n, hist int) {
	// (a) the same container objects, changed in place by their owner between calls
	exprs := []string{"any Labels as k { k == c }", "all Labels as k { k != c }", "any Labels as k, v { v == 2 and k != a }", "any o.Labels as k { k == zz }", "c in Labels", "Labels.c == 2", "any l as x { x == c }", "all l as i, x { x != c }",
		"any o.l as x { any Labels as k { k == x } }", "Labels is not empty and any Labels as k { k matches `^[cz]` }"}
	for i := 0; i < n; i++ {
		rng = NewRng(mix(r.Seed, strHash("C13inplace"), uint64(i)))
		labels := map[string]interface{}{"a": 1, "b": 2}
		l := []interface{}{"a", "b"}
		var d interface{} = map[string]interface{}{"Labels": labels, "l": l, "o": map[string]interface{}{"Labels": labels, "l": l}}
		e := pick(rng, exprs)
		if rng.Pct(40) {
			d = genValue(reflect.MapOf(strT, ifaceT), 4).Interface()
			e = genExpr(d, "bexpr", 1+rng.Intn(2), "", reflect.Value{})
		}
		base := evalCase{expr: e, tag: "bexpr"}
		if !base.parse() {
			continue
		}
		ev, err := bexpr.CreateEvaluator(e)
		if err != nil {
			continue
		}
		var trace []string
		for k := 0; k < hist; k++ {
			if k > 0 {
				mutateInPlace(d, 2)
			}
			o := evalObs(ev, d)
			fresh := exprObs(e, d)
			r.Evaluations++
			r.Seen("inplace|" + opSig(base.ast) + "|" + fmt.Sprint(k) + "|" + o)
			r.Count("in-place:" + o)
			trace = append(trace, o)
			c := base
			c.d = d
			if o != fresh {
				m := c.desc()
				m["history_so_far"] = trace
				r.Violate("history-dependent", "inplace|"+e, m, fmt.Sprintf("call %d (after the datum was changed in place) returned %s, a fresh evaluator %s", k, o, fresh))
			}
			r.Model(c.cmd(), o, c.desc())
		}
	}
	// (b) a call that begins while another call on the same evaluator is under way (here: from the value hook, on the
	// same goroutine) must not disturb it, and the syntax tree's memory stays as it was, spare capacity included
	mkdoc := func(ps, qs []int) interface{} {
		{
			var l []interface{}
			for i := range ps {
				l = append(l, map[string]interface{}{"P": ps[i], "Q": qs[i]})
			}
			mm := map[string]interface{}{}
			for i := range ps {
				mm[fmt.Sprintf("k%d", i)] = map[string]interface{}{"P": ps[i], "Q": qs[i]}
			}
			return map[string]interface{}{"a": map[string]interface{}{"b": map[string]interface{}{"c": l, "d": map[string]interface{}{"e": l}, "m": mm}, "l": l}, "l": l,
				"m": map[string]interface{}{"k1": map[string]interface{}{"P": ps[0], "Q": qs[0]}, "k2": map[string]interface{}{"P": ps[1], "Q": qs[1]}}}
		}
	}
	pats3 := [][2][]int{{{1, 0, 0}, {0, 1, 0}}, {{1, 0, 0}, {1, 0, 0}}, {{0, 0, 0}, {0, 0, 0}}, {{0, 0, 1}, {1, 0, 1}}, {{0, 1, 0}, {0, 1, 1}}}
	nested := []string{"any a.b.c as x { x.P == 1 and x.Q == 1 }", `any "/a/b/c" as x { x.P == 1 and x.Q == 1 }`, "any a.b.c as _, x { x.P == 1 and x.Q == 1 }", "any a.b.c as i, x { x.P == 1 and x.Q == 1 }", "all a.b.c as x { x.P != 1 or x.Q != 1 }",
		"any l as x { x.P == 1 and x.Q == 1 }", "any a.l as x { x.P == 1 and x.Q == 1 }", "any a.b.m as _, v { v.P == 1 and v.Q == 1 }", "any a.b.m as k, v { v.P == 1 and v.Q == 1 and k != zz }", `all "/a/b/m" as _, v { v.P != 1 or v.Q != 1 }`, "any a.b.d.e as x { x.P == 1 and x.Q == 1 }", "any m as k, v { v.P == 1 and v.Q == 1 }", "any a.b.c as x { any a.b.c as y { x.P == 1 and y.Q == 1 and x.Q == 1 } }",
		"a.b.c.0.P == 1 and a.b.c.0.Q == 1", "any a.b.c as x { x.P == 1 } and any a.b.c as x { x.Q == 2 }"}
	// collections below 1..17 path segments (the capacity a slice of parts grows to depends on how it was built)
	deepDoc := func(n int, ps, qs []int) (interface{}, string) {
		var l []interface{}
		for i := range ps {
			l = append(l, map[string]interface{}{"P": ps[i], "Q": qs[i]})
		}
		var cur interface{} = l
		var parts []string
		for i := n; i >= 1; i-- {
			k := fmt.Sprintf("s%d", i)
			cur = map[string]interface{}{k: cur}
			parts = append([]string{k}, parts...)
		}
		return cur, strings.Join(parts, ".")
	}
	for n := 1; n <= 17; n++ {
		for _, form := range []string{"any %s as x { x.P == 1 and x.Q == 1 }", `any "/%s" as _, x { x.P == 1 and x.Q == 1 }`, "all %s as i, x { x.P != 1 or x.Q != 1 }"} {
			for pi := 0; pi < len(pats3)*len(pats3); pi++ {
				pa, pb := pats3[pi%len(pats3)], pats3[pi/len(pats3)]
				d1, path := deepDoc(n, pa[0], pa[1])
				d2, _ := deepDoc(n, pb[0], pb[1])
				if strings.Contains(form, `"/`) {
					path = strings.ReplaceAll(path, ".", "/")
				}
				e := fmt.Sprintf(form, path)
				var ev *bexpr.Evaluator
				depth, entries := 0, 0
				var innerOut []string
				hook := func(v reflect.Value) reflect.Value {
					if depth == 0 && entries < 4 {
						depth++
						entries++
						innerOut = append(innerOut, evalObs(ev, d2))
						depth--
					}
					return v
				}
				var err error
				ev, err = bexpr.CreateEvaluator(e, bexpr.WithHookFn(hook))
				if err != nil {
					continue
				}
				snap0 := treeSnapshot(ev.VerifAST())
				o := evalObs(ev, d1)
				want1, want2 := exprObs(e, d1), exprObs(e, d2)
				r.Evaluations++
				r.Seen(fmt.Sprintf("nested-calls-depth|%d|%s|%s", n, form, o))
				c := map[string]interface{}{"expression": e, "datum": describe(d1), "datum_of_the_inner_calls": describe(d2)}
				if o != want1 {
					r.Violate("history-dependent", fmt.Sprintf("nested-calls-depth|%d|%s", n, form), c, "a call during which other calls ran on the same evaluator returned "+o+", undisturbed "+want1)
				}
				for _, io := range innerOut {
					if io != want2 {
						r.Violate("history-dependent", fmt.Sprintf("nested-calls-depth-inner|%d|%s", n, form), c, "a call made while another was under way returned "+io+", alone "+want2)
					}
				}
				if s := treeSnapshot(ev.VerifAST()); s != snap0 {
					r.Violate("tree-modified", fmt.Sprintf("cap|%d|%s", n, form), c, "memory of the syntax tree changed: "+truncate(snap0, 200)+" -> "+truncate(s, 200))
				}
			}
		}
	}
	for ni := 0; ni < len(nested)*len(pats3)*len(pats3); ni++ {
		e := nested[ni%len(nested)]
		pa, pb := pats3[(ni/len(nested))%len(pats3)], pats3[ni/len(nested)/len(pats3)]
		d1, d2 := mkdoc(pa[0], pa[1]), mkdoc(pb[0], pb[1])
		var ev *bexpr.Evaluator
		depth, entries := 0, 0
		var innerOut []string
		hook := func(v reflect.Value) reflect.Value {
			if depth == 0 && entries < 6 {
				depth++
				entries++
				innerOut = append(innerOut, evalObs(ev, d2))
				depth--
			}
			return v
		}
		var err error
		ev, err = bexpr.CreateEvaluator(e, bexpr.WithHookFn(hook))
		if err != nil {
			continue
		}
		snap0 := treeSnapshot(ev.VerifAST())
		o := evalObs(ev, d1)
		want1, want2 := exprObs(e, d1), exprObs(e, d2)
		r.Evaluations++
		r.Seen("nested-calls|" + e + "|" + o)
		c := map[string]interface{}{"expression": e, "datum": describe(d1), "datum_of_the_inner_calls": describe(d2)}
		if o != want1 {
			r.Violate("history-dependent", "nested-calls|"+e, c, "a call during which other calls ran on the same evaluator returned "+o+", undisturbed "+want1)
		}
		for _, io := range innerOut {
			if io != want2 {
				r.Violate("history-dependent", "nested-calls-inner|"+e, c, "a call made while another was under way returned "+io+", alone "+want2)
			}
		}
		if s := treeSnapshot(ev.VerifAST()); s != snap0 {
			r.Violate("tree-modified", "cap|"+e, c, "memory of the syntax tree changed: "+truncate(snap0, 200)+" -> "+truncate(s, 200))
		}
	}
}

// treeSnapshot renders a tree including the spare capacity behind every selector path (memory the tree owns, and
// that every evaluation of it shares).
func treeSnapshot(e grammar.Expression) string {
	var pats []string
	s := sExpr(e, &pats)
	walkSelectors(e, func(sel grammar.Selector) {
		s += fmt.Sprintf(" cap%q", sel.Path[:cap(sel.Path)])
	})
	return s
}

// ---------- C14: maps whose keys are not strings; entries that share an address ----------

func c14OddMaps(r *Run, reps int) {
	o := &Outer{Head: Inner{X: 1}, X: 2}
	arr := &[2]Inner{{X: 1}, {X: 2}}
	rows := []S1{{A: 1}, {A: 2}, {A: 3}}
	data := map[string]interface{}{
		"Ports": map[int]interface{}{80: "open", 443: 7, 8080: "closed", 22: nil}, "U": map[uint16]interface{}{1: "open", 2: 7, 3: map[string]int{"x": 1}}, "B": map[bool]interface{}{true: "open", false: 7},
		"F": map[float64]interface{}{1.5: "open", 2.5: 7, math.Inf(1): "x"}, "NS": map[NStr]interface{}{"a": "open", "b": 7, "c": nil}, "IF": map[interface{}]interface{}{"a": "open", 1: 7, true: nil},
		"IFS": map[interface{}]interface{}{"a": "open", "b": 7, "c": map[string]int{"x": 1}, "d": "closed"}, "IFT": map[interface{}]string{"a": "open", "b": "closed", "c": "x"}, "NIF": map[fmt.Stringer]interface{}{Lvl("a"): "open", Lvl("b"): 7},
		"I8": map[int8]string{1: "open", 2: "closed"}, "nested": map[string]interface{}{"a": map[int]interface{}{1: "open", 2: 7}, "b": map[int]interface{}{3: 7, 4: "open"}},
	}
	exprs := []string{`any Ports as p, s { s == "open" }`, `all Ports as p, s { s != "open" }`, `any Ports as p { p == 80 }`, `any U as _, s { s == open }`, `any U as _, s { s.x == 1 }`, `any B as _, s { s == open }`, `all F as _, s { s == open }`,
		`any NS as _, s { s == open }`, `all NS as k { k != b }`, `any IF as _, s { s == open }`, `any IFS as _, s { s == open }`, `all IFS as _, s { s != open }`, `any IFS as k, s { s.x == 1 }`, `any IFT as k { k == b }`, `all IFT as _, s { s != open }`, `any NIF as _, s { s == open }`, "open in IFS", "a in IFS", `any I8 as _, s { s == open }`, `any nested as _, m { any m as _, s { s == open } }`, `all nested as _, m { all m as _, s { s == open } }`,
		"open in Ports", "80 in Ports", "U contains 2", "IF contains a", "Ports is empty", "any Ports as p, s { s == open } or any U as _, s { s == open }"}
	for _, e := range exprs {
		ev, err := bexpr.CreateEvaluator(e)
		if err != nil {
			r.Count("generator:unparseable")
			continue
		}
		first := evalObs(ev, data)
		counts := map[string]int{first: 1}
		for k := 1; k < reps; k++ {
			counts[evalObs(ev, data)]++
		}
		r.Evaluations += reps
		r.Seen("odd-keys|" + e + "|" + first)
		c := evalCase{expr: e, d: data, tag: "bexpr"}
		if len(counts) != 1 {
			r.Violate("order-dependent-evaluate", "odd-keys|"+e, map[string]interface{}{"expression": e, "datum": describe(data)}, fmt.Sprint(counts))
		}
		if c.parse() {
			r.Model(c.cmd(), first, c.desc())
		}
	}
	// Filter over maps and lists whose entries are references that share an address
	conts := []struct {
		name string
		d    interface{}
		e    string
	}{
		{"struct-and-first-field", map[string]interface{}{"a": o, "b": &o.Head}, "X == 1"}, {"struct-and-first-field", map[string]interface{}{"a": o, "b": &o.Head}, "Head.X == 1"}, {"array-and-first-element", map[string]interface{}{"a": arr, "b": &arr[0]}, "X == 1"},
		{"array-and-first-element", map[string]interface{}{"a": arr, "b": &arr[0], "c": &arr[1]}, `"/1/X" == 2`}, {"views", map[string]interface{}{"long": rows[:3], "short": rows[:1], "mid": rows[:2]}, `"/2/A" == 3`}, {"views", map[string]interface{}{"long": rows[:3], "short": rows[:1]}, `"/0/A" == 1`},
		{"same-pointer-twice", map[string]interface{}{"a": o, "b": o, "c": &Outer{X: 1}}, "X == 2"}, {"int-keys", map[int]interface{}{1: o, 2: &o.Head, 3: nil}, "X == 1"},
	}
	for _, ct := range conts {
		flt, err := bexpr.CreateFilter(ct.e)
		if err != nil {
			continue
		}
		f0 := filterKept(flt, ct.d)
		fc := map[string]int{f0: 1}
		for k := 1; k < reps; k++ {
			fc[filterKept(flt, ct.d)]++
		}
		r.Evaluations += reps
		r.Seen("shared-address|" + ct.name + "|" + ct.e + "|" + f0)
		c := map[string]interface{}{"expression": ct.e, "datum": describe(ct.d)}
		if len(fc) != 1 {
			r.Violate("order-dependent-filter", "shared-address|"+ct.name+"|"+ct.e, c, fmt.Sprint(fc))
		}
		o2, res := executeObs(ct.e, ct.d)
		checkFilterCoherence(r, ct.e, ct.name, ct.d, res, o2, c)
	}
}

// ---------- C17: elements that are references into one object ----------

func c17SharedAddresses(r *Run) {
	o := &Outer{Head: Inner{X: 1}, X: 2}
	arr := &[2]Inner{{X: 1}, {X: 2}}
	rows := []S1{{A: 1}, {A: 2}, {A: 3}}
	m1 := map[string]interface{}{"X": 1}
	conts := []struct {
		name string
		d    interface{}
	}{
		{"[]interface{struct, first field}", []interface{}{o, &o.Head}}, {"[]interface{first field, struct}", []interface{}{&o.Head, o}}, {"map{struct, first field}", map[string]interface{}{"a": o, "b": &o.Head}},
		{"[]interface{array, first element}", []interface{}{arr, &arr[0], &arr[1]}}, {"[][]S1 views long first", [][]S1{rows[:3], rows[:1]}}, {"[][]S1 views short first", [][]S1{rows[:1], rows[:3], rows[1:]}},
		{"[]interface{} views", []interface{}{rows[:3], rows[:1], rows[:2]}}, {"same pointer twice", []interface{}{o, o, &Outer{X: 1}}}, {"same map twice", []interface{}{m1, m1, map[string]interface{}{"X": 2}}},
		{"[2]interface{struct, first field}", [2]interface{}{o, &o.Head}}, {"[]*Inner into one array", []*Inner{&arr[0], &arr[1], &arr[0]}}, {"map[int]interface{}", map[int]interface{}{1: o, 2: &o.Head}},
	}
	exprs := []string{"X == 1", "X == 2", "X != 1", "Head.X == 1", `"/2/A" == 3`, `"/0/A" == 1`, `"/0/X" == 1`, `"/1/X" == 2`, "X is empty", "not X == 1"}
	for _, ct := range conts {
		for _, e := range exprs {
			before := sIface(ct.d)
			o1, res := executeObs(e, ct.d)
			r.Evaluations++
			cls := o1
			if strings.HasPrefix(o1, "(") {
				cls = "kept"
			}
			r.Seen("shared|" + ct.name + "|" + e + "|" + cls)
			r.Count("result:" + cls)
			c := map[string]interface{}{"expression": e, "container": ct.name, "datum": describe(ct.d)}
			if o1 == "PANIC" {
				r.Violate("execute-panics", ct.name+"|"+e, c, "Execute panicked")
			}
			if sIface(ct.d) != before {
				r.Violate("input-modified", ct.name+"|"+e, c, "the input container changed")
			}
			if cls == "kept" || o1 == "ERR" {
				checkFilterCoherence(r, e, ct.name, ct.d, res, o1, c)
			}
			var pats []string
			r.Model(fmt.Sprintf("(execute %s () %s %s)", hx(e), sIface(ct.d), reTable(pats, ct.d)), o1, c)
		}
	}
}

// ---------- C18: what the caller does with its option values afterwards; the nil hook as the last word ----------

func c18AfterCreation(r *Run) {
	type pair struct {
		e string
		d interface{}
	}
	pairs := []pair{{"M.zz == 1", S1{M: map[string]int{"k": 1}}}, {"bee == x", S1{B: "x"}}, {"B2 == x", S1{B: "x"}}, {"W == 1", S6{W: Wrap{1}}}, {"a.zz != 1", map[string]interface{}{"a": map[string]interface{}{"b": 1}}}, {"W.V == a", S6{W: Wrap{"a"}}},
		{"any WL as w { w == 1 }", S6{WL: []Wrap{{2}, {1}}}}, {"any L as t { t == BLUE }", S1{L: []string{"red", "blue"}}}}
	mkOpts := func() [][]bexpr.Option {
		return [][]bexpr.Option{
			{bexpr.WithTagName("alt"), bexpr.WithUnknownValue(1)}, {bexpr.WithUnknownValue("zzz"), bexpr.WithTagName("bexpr")}, {bexpr.WithHookFn(hookFn(2)), bexpr.WithUnknownValue(1)}, {bexpr.WithHookFn(hookFn(5))},
			{bexpr.WithTagName("alt")}, {bexpr.WithUnknownValue(nil), bexpr.WithHookFn(hookFn(1)), bexpr.WithTagName("bexpr")},
		}
	}
	repl := []bexpr.Option{bexpr.WithTagName("json"), bexpr.WithUnknownValue("zzz"), bexpr.WithHookFn(hookFn(3)), bexpr.WithHookFn(nil), bexpr.WithTagName("alt"), bexpr.WithUnknownValue(1), nil}
	for _, p := range pairs {
		for oi := range mkOpts() {
			for ri, rp := range repl {
				opts := mkOpts()[oi]
				ev, err := bexpr.CreateEvaluator(p.e, opts...)
				if err != nil {
					continue
				}
				o1 := evalObs(ev, p.d)
				for k := range opts { // the caller re-uses its slice for something else
					opts[k] = rp
				}
				o2 := evalObs(ev, p.d)
				other, _ := bexpr.CreateEvaluator(p.e, opts...) // ... such as another evaluator
				_ = other
				o3 := evalObs(ev, p.d)
				r.Evaluations += 3
				r.Seen(fmt.Sprintf("slice-reuse|%s|%d|%d|%s", p.e, oi, ri, o1))
				if o2 != o1 || o3 != o1 {
					r.Violate("options-not-fixed-at-creation", fmt.Sprintf("slice-reuse|%s|%d", p.e, oi), map[string]interface{}{"expression": p.e, "datum": describe(p.d), "option_list": oi, "overwritten_with": ri},
						"before the caller overwrote its option slice "+o1+", afterwards "+o2+" / "+o3)
				}
			}
		}
		// the nil hook given last is the absence of a hook
		base := exprObs(p.e, p.d)
		baseU := exprObs(p.e, p.d, bexpr.WithUnknownValue(1))
		for _, h := range []int{1, 2, 3, 4, 5} {
			for k, os_ := range [][]bexpr.Option{
				{bexpr.WithHookFn(hookFn(h)), bexpr.WithHookFn(nil)}, {bexpr.WithHookFn(hookFn(h)), bexpr.WithTagName("bexpr"), bexpr.WithHookFn(nil)}, {bexpr.WithHookFn(nil), bexpr.WithHookFn(hookFn(h)), bexpr.WithHookFn(nil)},
				{bexpr.WithHookFn(hookFn(h)), bexpr.WithHookFn(nil), bexpr.WithUnknownValue(1)},
			} {
				o := exprObs(p.e, p.d, os_...)
				want := base
				if k == 3 {
					want = baseU
				}
				r.Evaluations++
				r.Seen(fmt.Sprintf("nil-hook-last|%s|%d|%d", p.e, h, k))
				c := map[string]interface{}{"expression": p.e, "datum": describe(p.d), "options": fmt.Sprintf("hook %d, then the nil hook (variant %d)", h, k)}
				if o != want {
					r.Violate("last-wins", "nil-hook|"+p.e, c, "with the nil hook last "+o+", with no hook "+want)
				}
				var pats []string
				if t, ok := parseTree(p.e); ok {
					sExpr(t, &pats)
				}
				sx := [][]string{{fmt.Sprintf("(hook %d)", h), "(hook 0)"}, {fmt.Sprintf("(hook %d)", h), "(tag " + hx("bexpr") + ")", "(hook 0)"}, {"(hook 0)", fmt.Sprintf("(hook %d)", h), "(hook 0)"}, {fmt.Sprintf("(hook %d)", h), "(hook 0)", "(unknown " + sIface(1) + ")"}}[k]
				r.Model(fmt.Sprintf("(evaluate %s %s %s %s)", hx(p.e), optsCmd(sx), sIface(p.d), reTable(pats, p.d, 1)), o, c)
			}
		}
	}
}

// ---------- C01: sizes (counters, indices and recursion depths that only large inputs reach) ----------

func c01Sizes(r *Run) {
	mkList := func(n int, last interface{}) []interface{} {
		l := make([]interface{}, n)
		for i := range l {
			l[i] = 0
		}
		if n > 0 {
			l[n-1] = last
		}
		return l
	}
	add := func(e string, d interface{}, stream string) {
		c := evalCase{expr: e, d: d, tag: "bexpr"}
		if !c.parse() {
			r.Count("generator:unparseable")
			return
		}
		o := exprObs(e, d)
		r.Evaluations++
		r.Count("outcome:" + o)
		r.Count("stream:" + stream)
		r.Seen(stream + "|" + opSig(c.ast) + "|" + o)
		m := map[string]interface{}{"expression": truncate(e, 300), "datum": "see the family " + stream, "datum_type": fmt.Sprintf("%T", d)}
		r.Model(c.cmd(), o, m)
	}
	for _, n := range []int{7, 8, 9, 16, 17, 32, 33, 64, 65, 127, 128, 129, 255, 256, 257, 300, 1000, 65535, 65536, 65537} {
		if r.Tier != "thorough" && n > 1000 && n != 65537 {
			continue
		}
		l := mkList(n, 7)
		ints := make([]int, n)
		ints[n-1] = 7
		d := map[string]interface{}{"l": l, "ints": ints, "n": n}
		tf := func(b bool) string {
			if b {
				return "T"
			}
			return "F"
		}
		for _, t := range []struct{ e, want string }{
			{"any l as x { x == 7 }", "T"}, {"all l as x { x == 0 }", "F"}, {"any l as i, x { x == 7 and i == " + fmt.Sprint(n-1) + " }", "T"}, {"7 in ints", "T"}, {"7 not in l", "F"}, {fmt.Sprintf("l.%d == 7", n-1), "T"}, {fmt.Sprintf("l.%d == 7", n), "E"},
			{fmt.Sprintf(`"/ints/%d" == 7`, n-1), "T"}, {"all ints as i, _ { i != " + fmt.Sprint(n) + " }", "T"}, {"l is not empty", "T"}, {"any l as i, _ { i == 256 }", tf(n > 256)}, {"any l as i, _ { i == 65536 }", tf(n > 65536)},
			{"all l as i, x { x == 0 or i == " + fmt.Sprint(n-1) + " }", "T"}, {"( any ints as x { x == 7 } ) and not ( any ints as x { x == 8 } )", "T"},
		} {
			stream := fmt.Sprintf("sizes:list-%d", n)
			if n <= 1000 {
				add(t.e, d, stream) // also against the model
			}
			o := exprObs(t.e, d)
			r.Evaluations++
			r.Seen(stream + "|" + t.e + "|" + o)
			if o != t.want {
				r.Violate("large-collection", stream+"|"+t.e, map[string]interface{}{"expression": t.e, "datum": fmt.Sprintf("l = %d zeros then 7 ([]interface{}), ints likewise ([]int)", n-1)}, "expected "+t.want+" got "+o)
			}
		}
	}
	// maps with many keys: the visiting order is the sorted one also beyond a few entries
	for _, n := range []int{17, 300, 5000} {
		if r.Tier != "thorough" && n > 300 {
			continue
		}
		m := map[string]interface{}{}
		for i := 0; i < n; i++ {
			m[fmt.Sprintf("k%05d", i)] = i
		}
		m["k00003"] = "bad" // an element that errors, after some that are decisive and before others
		d := map[string]interface{}{"m": m}
		for _, e := range []string{"any m as k, v { v == 2 }", "any m as k, v { v == 4 }", "all m as k, v { v != 4 }", "all m as k, v { v != 2 }", "any m as k { k == k00016 }", fmt.Sprintf("m.k%05d == %d", n-1, n-1), "k00003 in m", "any m as _, v { v == bad }"} {
			add(e, d, fmt.Sprintf("sizes:map-%d", n))
		}
	}
	// deep data, deep pointers, deep expressions, long strings and keys
	{
		var deep interface{} = 1
		path := ""
		for i := 0; i < 40; i++ {
			deep = map[string]interface{}{"a": deep}
			path += "a."
		}
		p1 := 1
		p2 := &p1
		p3 := &p2
		p4 := &p3
		p5 := &p4
		var nilp ***int
		long := strings.Repeat("ab", 40000)
		key := strings.Repeat("k", 3000)
		d := map[string]interface{}{"d": deep, "p": p5, "np": &nilp, "s": long, key: 1, "l": []interface{}{p5, 2}}
		chain := "s is not empty"
		nest := "p == 1"
		for i := 0; i < 120; i++ {
			chain += pick(NewRng(uint64(i)), []string{" and ", " or "}) + pick(NewRng(uint64(i)+7), []string{"p == 1", "p != 1", "zz == 1", "s is empty"})
		}
		for i := 0; i < 6; i++ { // (the grammar's parse time is exponential in the parenthesis depth)
			nest = "not ( " + nest + " or zz.q == 1 )"
		}
		for _, e := range []string{"d." + path[:len(path)-1] + " == 1", "d." + path + "a == 1", "p == 1", "np == 1", "np is empty", "any l as x { x == 1 }", "s matches `(ab)+$`", "s contains " + strings.Repeat("ab", 300) + "a",
			"s == " + long, key + " == 1", `"/` + key + `" == 1`, chain, nest, "1 in l"} {
			add(e, d, "sizes:depth")
		}
	}
}

// ---------- C17: what a failed Execute leaves behind ----------

// An Execute that returns an error after some elements were already selected, followed by an Execute of another input
// (through the same and through a fresh Filter): the second result is decided by its own input alone.
func c17AfterErrors(r *Run) {
	for _, n := range []int{3, 8, 33, 64, 65, 100, 130, 300} {
		bad := make([]interface{}, n)
		good := make([]interface{}, n)
		badS := make([]S1, n)
		goodS := make([]S1, n)
		for i := 0; i < n; i++ {
			bad[i] = map[string]interface{}{"X": 1, "from": "bad"}
			good[i] = map[string]interface{}{"X": i % 3, "from": "good"}
			badS[i] = S1{A: 1, B: "bad"}
			goodS[i] = S1{A: i % 3, B: "good"}
		}
		bad[n-1] = map[string]interface{}{"from": "bad"} // no X: the expression errors here, after n-1 selected elements
		badMixed := append(append([]interface{}{}, bad[:n-1]...), 5)
		var badArr [70]map[string]interface{}
		for i := range badArr {
			badArr[i] = map[string]interface{}{"X": 1}
		}
		badArr[69] = map[string]interface{}{}
		for _, e := range []string{"X == 1", "X != 0", "X == 1 or from == good"} {
			f, err := bexpr.CreateFilter(e)
			if err != nil {
				continue
			}
			for k, b := range []interface{}{bad, badMixed, badArr} {
				o1 := executeWith(f, b)
				for which, flt := range []*bexpr.Filter{f, nil} {
					if flt == nil {
						flt, _ = bexpr.CreateFilter(e)
					}
					got, err, pan := safeExecute(flt, good)
					if pan != "" {
						r.Violate("execute-panics", fmt.Sprintf("after-error|%d|%s", n, e), map[string]interface{}{"expression": e, "input": fmt.Sprintf("%d maps with X = i mod 3, after an Execute that failed", n)}, "Execute panicked: "+pan)
						continue
					}
					r.Evaluations++
					r.Seen(fmt.Sprintf("after-error|%d|%s|%d|%d", n, e, k, which))
					c := map[string]interface{}{"expression": e, "first_input": fmt.Sprintf("%d elements, the last one makes the expression fail (%T)", reflect.ValueOf(b).Len(), b), "first_result": truncate(o1, 60), "second_input": fmt.Sprintf("%d maps with X = i mod 3", n)}
					if err != nil {
						r.Violate("spurious-error", fmt.Sprintf("after-error|%d|%s", n, e), c, "the second Execute returned an error: "+err.Error())
						continue
					}
					o2 := executeObsOf(got)
					checkFilterCoherence(r, e, fmt.Sprintf("after-error-%d", n), good, got, o2, c)
				}
			}
		}
		// structs: a filter whose expression errors on a later element type-independently is not available; use a map-keyed error instead
		if f, err := bexpr.CreateFilter("M.k == 1 or A == 1"); err == nil {
			badS[n-1].M = map[string]int{"k": 1}
			executeWith(f, badS)
			got, err, pan := safeExecute(f, goodS)
			if pan != "" {
				r.Violate("execute-panics", fmt.Sprintf("after-struct|%d", n), map[string]interface{}{"expression": "M.k == 1 or A == 1", "n": n}, "Execute panicked: "+pan)
			} else if err == nil {
				checkFilterCoherence(r, "M.k == 1 or A == 1", fmt.Sprintf("after-struct-%d", n), goodS, got, executeObsOf(got), map[string]interface{}{"expression": "M.k == 1 or A == 1", "n": n})
			}
		}
	}
}

// executeObsOf renders an Execute result the way executeObs does.
func executeObsOf(got interface{}) string {
	rv := reflect.ValueOf(got)
	if !rv.IsValid() {
		return "NIL"
	}
	switch rv.Kind() {
	case reflect.Slice:
		var p []string
		for i := 0; i < rv.Len(); i++ {
			p = append(p, cVal(rv.Index(i)))
		}
		return fmt.Sprintf("(slice %s (%s))", cType(rv.Type()), strings.Join(p, " "))
	case reflect.Map:
		s := cVal(rv)
		i := strings.Index(s, "(VMap ")
		inner := s[i+len("(VMap "):]
		inner = inner[strings.Index(inner, " ")+1 : len(inner)-1]
		return fmt.Sprintf("(map %s %s)", cType(rv.Type()), inner)
	}
	return "OTHER:" + rv.Kind().String()
}

// safeExecute is Execute under recover: a panic is reported to the caller as text.
func safeExecute(f *bexpr.Filter, data interface{}) (res interface{}, err error, panicked string) {
	defer func() {
		if p := recover(); p != nil {
			res, err, panicked = nil, nil, fmt.Sprint(p)
		}
	}()
	res, err = f.Execute(data)
	return
}
