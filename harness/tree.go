package main

import (
	"fmt"
	"regexp"
	"strings"
	"unicode/utf8"

	"github.com/hashicorp/go-bexpr/grammar"
)

// Random expression trees and the renderer that prints a tree in any of the layouts and styles
// the grammar admits (C16, C19, C07). The renderer is the executable counterpart of the
// rendering relation RF of coq/Skel.v / AtomsSel.v.

var keywords = map[string]bool{"not": true, "any": true, "all": true, "in": true, "is": true, "contains": true, "matches": true, "and": true, "or": true, "as": true, "empty": true}

var plainIdent = regexp.MustCompile(`^[a-zA-Z][a-zA-Z0-9_]*$`)
var bareWord = regexp.MustCompile(`^[a-zA-Z][a-zA-Z0-9_/]*(\.([a-zA-Z][a-zA-Z0-9_/]*|[0-9]+))*$`)
var ptrSeg = regexp.MustCompile(`^[\pL\pN\-_.~:|]+$`)

var selFirst = []string{"liquid", "costarring", "declinate", "macallums", "altarage", "zinke", "plumless", "buckeroo", "Aa", "BB", "AaAa", "BBBB", "AaBB", "a", "b", "foo", "X", "key", "m", "l", "Name", "x1", "slash/part", "c_d", "notes", "nothing", "anyone", "allow", "inside", "island", "orbit", "android", "matchesx", "containsx", "emptyx", "asx"}
var selRest = []string{"b", "c", "0", "1", "12", "007", "00", "010", "0x1", "first\nsecond", "a\rb", "tab\there", "m²", "Ⅷ", "二〇二四", "½", "CO₂", "k", "x y", "é", "A", "", "a.b", "a/b", "t~x", "q\"r", "-", "_u", ".", "..", "a/", "/b", "~1", "a~01", "not", "in", ".", "..", "cpu%", "%d", "100%s", "%!v", "a%2Fb", "%"}
var litPool = []string{"", "a", "foo", "1", "-2.5", "0", "x y", "é", "a\"b", "b\\c", "/usr/bin", "/", "/a/", "\n", "\t\x00", "`", "a`b\r", "true", "0x1F", "日本", "\xff\xfe", "not", "in", "10", "-0", "1.50", "a.b", "\U0001F600", "'", "//a", "/a b", "/a~1b", "/x~0y", "/~1", "~1", "/tmp/a~1b~0", "\ufffd", "a\ufffdb", "\u00a0", "a\u3000b", "\u2003x", "\u200b", "\u00ad", "\u2028", "\\", "C:\\dir\\", "a\\", "\\\\", "(", ")", "a)", "(b", "™", "Томск", "• item", "Škoda", "step ①", "\u2060", "\U0001F622", "x\u0122", "\u0160\u0122", "a\x7fb", "\x7f", "\x1f", "\u0080", "\u009f", "\u00a0b", "del\x7f \x7f", "\ufeff", "\U000e0001", "\u0378", "\ud7ff", "\ue000", "v1.2", "rack.3", "node.07.dc1", "a.0", "x.00", "a.b.1", "r2.d2", "a.1.b", "null", "nil", "NULL", "none", "undefined", "100%", "%d", "%s%s", "%!", "a%2Fb", "\"prod\"", "`a`", "``", "\"\"", "\"a", "a\"", "x  y", "x\ty", "caf\xe9", "k\x80", "9223372036854775807", "9223372036854775808", "-9223372036854775809", "18446744073709551616", "123456789012345678901234567890", "99999999999999999999.5", "-0.0", "1e5", "007"}

func genSelector(allowPtr bool) grammar.Selector {
	n := 1 + rng.Intn(3)
	if allowPtr && rng.Pct(20) {
		var parts []string
		for i := 0; i < n; i++ {
			for {
				p := pick(rng, append(selFirst, selRest...))
				esc := strings.NewReplacer("~", "~0", "/", "~1").Replace(p)
				if esc != "" && ptrSeg.MatchString(esc) {
					parts = append(parts, p)
					break
				}
			}
		}
		return grammar.Selector{Type: grammar.SelectorTypeJsonPointer, Path: parts}
	}
	parts := []string{pick(rng, selFirst)}
	for i := 1; i < n; i++ {
		parts = append(parts, pick(rng, selRest))
	}
	return grammar.Selector{Type: grammar.SelectorTypeBexpr, Path: parts}
}

func genMatchNode() *grammar.MatchExpression {
	op := grammar.MatchOperator(rng.Intn(8))
	m := &grammar.MatchExpression{Selector: genSelector(true), Operator: op}
	if op != grammar.MatchIsEmpty && op != grammar.MatchIsNotEmpty {
		m.Value = &grammar.MatchValue{Raw: pick(rng, litPool)}
	}
	return m
}

var binderNames = []string{"x", "y", "v", "i", "k", "elem", "A"}

func genTree(depth int) grammar.Expression {
	if depth <= 0 {
		return genMatchNode()
	}
	switch rng.Intn(7) {
	case 0:
		return &grammar.BinaryExpression{Operator: grammar.BinaryOpAnd, Left: genTree(depth - 1), Right: genTree(depth - 1)}
	case 1:
		return &grammar.BinaryExpression{Operator: grammar.BinaryOpOr, Left: genTree(depth - 1), Right: genTree(depth - 1)}
	case 2:
		inner := genTree(depth - 1)
		if u, ok := inner.(*grammar.UnaryExpression); ok { // the parser folds `not not e`; such trees do not exist
			return u.Operand
		}
		return &grammar.UnaryExpression{Operator: grammar.UnaryOpNot, Operand: inner}
	case 3:
		c := &grammar.CollectionExpression{Op: grammar.CollectionOpAny, Selector: genSelector(true), Inner: genTree(depth - 1)}
		if rng.Bool() {
			c.Op = grammar.CollectionOpAll
		}
		n1, n2 := pick(rng, binderNames), pick(rng, binderNames)
		switch rng.Intn(4) {
		case 0:
			c.NameBinding = grammar.CollectionNameBinding{Mode: grammar.CollectionBindDefault, Default: n1}
		case 1:
			c.NameBinding = grammar.CollectionNameBinding{Mode: grammar.CollectionBindIndexAndValue, Index: n1, Value: n2}
		case 2:
			c.NameBinding = grammar.CollectionNameBinding{Mode: grammar.CollectionBindIndex, Index: n1}
		default:
			c.NameBinding = grammar.CollectionNameBinding{Mode: grammar.CollectionBindValue, Value: n2}
		}
		return c
	default:
		return genMatchNode()
	}
}

// ---------- rendering ----------

var blanks = []string{" ", " ", " ", "\t", "\n", "\r", "  "}

func ws1() string {
	s := pick(rng, blanks)
	if rng.Pct(15) {
		s += pick(rng, blanks)
	}
	return s
}
func ws0() string {
	if rng.Pct(55) {
		return ""
	}
	return ws1()
}

// quoteDouble is the renderer's double-quoted style: printable ASCII stays, every other byte is \xHH
// (coq: quote_double, proved to round-trip through Unquote for every byte string).
func quoteDouble(s string) string {
	var sb strings.Builder
	sb.WriteByte('"')
	for i := 0; i < len(s); i++ {
		c := s[i]
		if c < 0x20 || c >= 0x7f || c == '"' || c == '\\' {
			fmt.Fprintf(&sb, `\x%02x`, c)
		} else {
			sb.WriteByte(c)
		}
	}
	sb.WriteByte('"')
	return sb.String()
}

// Go-style escapes (\n, \t, é, \\ ...) as a second double-quoted style, for valid UTF-8 only.
func quoteGo(s string) (string, bool) {
	if !utf8.ValidString(s) {
		return "", false
	}
	var sb strings.Builder
	sb.WriteByte('"')
	for _, r := range s {
		switch {
		case r == '"':
			sb.WriteString(`\x22`) // the grammar's DoubleStringChar cannot contain a double quote, even escaped
		case r == '\\':
			sb.WriteString(`\\`)
		case r == '\n':
			sb.WriteString(`\n`)
		case r == '\t':
			sb.WriteString(`\t`)
		case r == '\r':
			sb.WriteString(`\r`)
		case r < 0x20 || r == 0x7f:
			fmt.Fprintf(&sb, `\x%02x`, r)
		case r < 0x80:
			sb.WriteRune(r)
		case rng.Bool():
			sb.WriteRune(r) // raw UTF-8
		case r < 0x10000:
			fmt.Fprintf(&sb, `\u%04x`, r)
		default:
			fmt.Fprintf(&sb, `\U%08x`, r)
		}
	}
	sb.WriteByte('"')
	return sb.String(), true
}

var numLit = regexp.MustCompile(`^-?(0|[1-9][0-9]*)(\.[0-9]+)?$`)

// literal styles that can express s exactly
func literalStyles(s string) []string {
	out := []string{quoteDouble(s)}
	if q, ok := quoteGo(s); ok {
		out = append(out, q)
	}
	if !strings.ContainsAny(s, "`\r") && validUTF8(s) {
		out = append(out, "`"+s+"`")
	}
	if plainIdent.MatchString(s) && !keywords[s] {
		out = append(out, s)
	} else if bareWord.MatchString(s) && !keywords[strings.SplitN(s, ".", 2)[0]] {
		out = append(out, s) // a dotted word: read as a selector, whose rendering is the word itself
	}
	if numLit.MatchString(s) {
		out = append(out, s)
	}
	return out
}

func validUTF8(s string) bool { return utf8.ValidString(s) }

func renderLiteral(s string) string { return pick(rng, literalStyles(s)) }

var digitsOnly = regexp.MustCompile(`^[0-9]+$`)
var identPart = regexp.MustCompile(`^[a-zA-Z][a-zA-Z0-9_/]*$`)

// renderSelector prints a selector in a random mix of the spellings that keep its type and path.
// style: -1 random per part, 0 dotted where possible, 1 brackets.
func renderSelector(s grammar.Selector, style int) string {
	if s.Type == grammar.SelectorTypeJsonPointer {
		var esc []string
		for _, p := range s.Path {
			esc = append(esc, strings.NewReplacer("~", "~0", "/", "~1").Replace(p))
		}
		return `"/` + strings.Join(esc, "/") + `"`
	}
	out := s.Path[0]
	for _, p := range s.Path[1:] {
		dotOK := identPart.MatchString(p) || digitsOnly.MatchString(p)
		useDot := dotOK && (style == 0 || (style == -1 && rng.Pct(60)))
		if useDot {
			out += "." + p
		} else {
			lit := quoteDouble(p)
			if !strings.ContainsAny(p, "`\r") && validUTF8(p) && rng.Pct(30) {
				lit = "`" + p + "`"
			}
			out += "[" + ws0() + lit + ws0() + "]"
		}
	}
	return out
}

func renderBinding(b grammar.CollectionNameBinding) string {
	switch b.Mode {
	case grammar.CollectionBindDefault:
		return b.Default
	case grammar.CollectionBindIndexAndValue:
		return b.Index + ws0() + "," + ws0() + b.Value
	case grammar.CollectionBindIndex:
		return b.Index + ws0() + "," + ws0() + "_"
	default:
		return "_" + ws0() + "," + ws0() + b.Value
	}
}

func renderMatch(m *grammar.MatchExpression) string {
	sel := renderSelector(m.Selector, -1)
	switch m.Operator {
	case grammar.MatchIsEmpty:
		return sel + ws1() + "is" + ws1() + "empty"
	case grammar.MatchIsNotEmpty:
		return sel + ws1() + "is" + ws1() + "not" + ws1() + "empty"
	}
	lit := renderLiteral(m.Value.Raw)
	switch m.Operator {
	case grammar.MatchEqual:
		return sel + ws0() + "==" + ws0() + lit
	case grammar.MatchNotEqual:
		return sel + ws0() + "!=" + ws0() + lit
	case grammar.MatchIn:
		if rng.Bool() {
			return lit + ws1() + "in" + ws1() + sel
		}
		return sel + ws1() + "contains" + ws1() + lit
	case grammar.MatchNotIn:
		if rng.Bool() {
			return lit + ws1() + "not" + ws1() + "in" + ws1() + sel
		}
		return sel + ws1() + "not" + ws1() + "contains" + ws1() + lit
	case grammar.MatchMatches:
		return sel + ws1() + "matches" + ws1() + lit
	default:
		return sel + ws1() + "not" + ws1() + "matches" + ws1() + lit
	}
}

const (
	lvlOr = iota
	lvlAnd
	lvlNot
)

func paren(s string) string { return "(" + ws0() + s + ws0() + ")" }

// render prints e so that it parses back as e when it stands where a construct of the given level is expected.
func render(e grammar.Expression, level int) string {
	var s string
	own := lvlNot
	switch n := e.(type) {
	case *grammar.BinaryExpression:
		if n.Operator == grammar.BinaryOpOr {
			own = lvlOr
			s = render(n.Left, lvlAnd) + ws1() + "or" + ws1() + render(n.Right, lvlOr)
		} else {
			own = lvlAnd
			s = render(n.Left, lvlNot) + ws1() + "and" + ws1() + render(n.Right, lvlAnd)
		}
	case *grammar.UnaryExpression:
		// the operand must not itself be rendered as a bare `not ...` (the parser would fold the two)
		s = "not" + ws1() + renderNotOperand(n.Operand)
	case *grammar.CollectionExpression:
		own = -1 // only an alternative of OrExpression
		op := "any"
		if n.Op == grammar.CollectionOpAll {
			op = "all"
		}
		s = op + ws1() + renderSelector(n.Selector, -1) + ws1() + "as" + ws1() + renderBinding(n.NameBinding) + ws0() + "{" + ws0() + render(n.Inner, lvlOr) + ws0() + "}"
		if level != lvlOr {
			return paren(s)
		}
		if rng.Pct(15) {
			return paren(s)
		}
		return s
	case *grammar.MatchExpression:
		s = renderMatch(n)
	}
	if own < level || rng.Pct(12) {
		return paren(s)
	}
	return s
}

func renderNotOperand(e grammar.Expression) string {
	if _, ok := e.(*grammar.UnaryExpression); ok {
		return paren(render(e, lvlOr)) // `not (not x)`: parenthesised, the inner tree is kept... but folded by the action
	}
	return render(e, lvlNot)
}

func renderTop(e grammar.Expression) string {
	return ws0() + render(e, lvlOr) + ws0()
}

func treeKey(e grammar.Expression) string {
	var pats []string
	return sExpr(e, &pats)
}

// shapeKey abstracts a tree to its operators (for distinct counting).
func shapeKey(e grammar.Expression) string {
	switch n := e.(type) {
	case *grammar.BinaryExpression:
		return "(" + n.Operator.String() + " " + shapeKey(n.Left) + " " + shapeKey(n.Right) + ")"
	case *grammar.UnaryExpression:
		return "(not " + shapeKey(n.Operand) + ")"
	case *grammar.CollectionExpression:
		return "(" + string(n.Op) + ":" + string(n.NameBinding.Mode) + " " + shapeKey(n.Inner) + ")"
	case *grammar.MatchExpression:
		return n.Operator.String()
	}
	return "?"
}
