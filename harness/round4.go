package main

import (
	"encoding/json"
	"errors"
	"fmt"
	"reflect"
	"strings"

	bexpr "github.com/hashicorp/go-bexpr"
	"github.com/hashicorp/go-bexpr/grammar"
)

// Families added after the fourth round of seeded changes.

// ---------- C01: runs of one kind in lists of interface values ----------

// `lit in L` over a list of interface values reads the literal in every element's own kind and skips the elements whose kind
// cannot spell it: neighbours of one kind, zeros after non-zeros, float32 next to float64.
func c01IfaceListRuns(r *Run) {
	lists := [][]interface{}{
		{8080, 0}, {0, 8080}, {8080, "x", 0}, {true, false}, {false, true}, {1.5, 0.0}, {uint8(3), uint8(0)}, {int8(7), int16(0)}, {new(int), 0}, {5, 5, 0, 0},
		{float32(1), 2.5, float32(3)}, {2.5, float32(1)}, {float32(0), 0.0}, {int64(1), uint64(1), 1, uint(0)}, {"", 0, "", 0.0, false}, {nil, 0, nil, false}, {json.Number("0"), 0}, {0, json.Number("x"), 0},
	}
	lits := []string{"http", "none", "x", `""`, "0", "1.5", "2.5", "true", "false", "-", `"0x"`, "1", `"1e999"`, "8080"}
	forms := []string{"%s in L", "%s not in L", "L contains %s", "L not contains %s"}
	for _, l := range lists {
		for _, lit := range lits {
			for _, f := range forms {
				for _, d := range []interface{}{map[string]interface{}{"L": l}, struct{ L []interface{} }{l}, map[string]interface{}{"L": [...]interface{}{l[0], l[len(l)-1]}}} {
					c := evalCase{expr: fmt.Sprintf(f, lit), d: d, tag: "bexpr"}
					if !c.parse() {
						r.Count("generator:unparseable")
						continue
					}
					addEval(r, &c, "iface-list-runs")
				}
			}
		}
	}
}

// ---------- C03: sibling quantifiers; chains with repeated operands ----------

func c03Siblings(r *Run, n int) {
	bodies := []string{"x == a", "x == b", "x != 7", "x == zz", "x == 7", "x is empty", "x != a", "x matches `^a`", "x == 1.5"}
	elems := []interface{}{"a", "b", 7, "zz", 1.5, nil, "", []interface{}{}}
	atoms := []string{"a == 1", "a is empty", "a == 2", "b == x", "b == 1", "zz.k == 1", "a != 1", "b is empty", "l is empty", "l == 1"}
	for i := 0; i < n; i++ {
		rng = NewRng(mix(r.Seed, strHash("C03sib"), uint64(i)))
		var xs []interface{}
		k := 1 + rng.Intn(4)
		for j := 0; j < k; j++ {
			xs = append(xs, pick(rng, elems))
		}
		d := map[string]interface{}{"xs": xs, "a": pick(rng, []interface{}{1, 2, "s"}), "b": pick(rng, []interface{}{"x", 1}), "l": []interface{}{}}
		var e string
		var parts []string
		var op string
		if rng.Pct(50) {
			// (Q xs as x { A }) op (Q xs as x { B }): the same collection, the same binder, element kinds mixed
			q1, q2 := pick(rng, []string{"any", "all"}), pick(rng, []string{"any", "all"})
			if rng.Pct(70) {
				q2 = q1
			}
			bind := pick(rng, []string{"x", "_, x", "i, x"})
			parts = []string{fmt.Sprintf("( %s xs as %s { %s } )", q1, bind, pick(rng, bodies)), fmt.Sprintf("( %s xs as %s { %s } )", q2, bind, pick(rng, bodies))}
			if rng.Pct(30) {
				parts = append(parts, fmt.Sprintf("( %s xs as %s { %s } )", q1, bind, pick(rng, bodies)))
			}
			op = pick(rng, []string{"and", "or"})
		} else {
			// chains of three to five operands of one operator with textual repeats
			m := 3 + rng.Intn(3)
			pool := []string{pick(rng, atoms), pick(rng, atoms), pick(rng, atoms)}
			for j := 0; j < m; j++ {
				parts = append(parts, pick(rng, pool))
			}
			op = pick(rng, []string{"and", "or"})
		}
		e = strings.Join(parts, " "+op+" ")
		c := evalCase{expr: e, d: d, tag: "bexpr"}
		if !c.parse() {
			r.Count("generator:unparseable")
			continue
		}
		o := c.obs()
		r.Evaluations++
		// the chain folds from the left with the table (and/or are associative for the 3-valued table with short-circuit)
		want := exprObs(parts[0], d)
		var alone []string
		alone = append(alone, want)
		for _, p := range parts[1:] {
			op1 := exprObs(p, d)
			alone = append(alone, op1)
			want = table3(op, want, op1)
		}
		r.Seen("siblings|" + op + "|" + strings.Join(alone, ",") + "|" + o)
		r.Count("siblings:" + o)
		if o != want {
			m := c.desc()
			m["operands_alone"] = alone
			r.Violate("truth-table:chain", "siblings|"+op+"|"+strings.Join(alone, ","), m, "operands alone give "+strings.Join(alone, ", ")+": expected "+want+" got "+o)
		}
		r.Model(c.cmd(), o, c.desc())
	}
}

// ---------- C07: one collection quantified twice in one expression; map collections with awkward keys ----------

func c07SelfJoin(r *Run) {
	for depth := 1; depth <= 9; depth++ {
		var cur interface{} = []interface{}{map[string]interface{}{"id": 1}, map[string]interface{}{"id": 2}}
		var parts []string
		for i := depth; i >= 1; i-- {
			k := fmt.Sprintf("p%d", i)
			cur = map[string]interface{}{k: cur}
			parts = append([]string{k}, parts...)
		}
		d := cur
		sp := spellings(parts)
		if depth == 1 {
			sp = []string{parts[0], `"/` + parts[0] + `"`}
		}
		tpls := []struct{ f, want string }{
			{"any %s as x { any %s as y { x.id == 1 and y.id == 2 } }", "T"}, {"all %s as x { all %s as y { x.id != 3 and y.id != 3 } }", "T"}, {"any %s as x { all %s as y { y.id != 3 and x.id == 2 } }", "T"},
			{"any %s as i, x { any %s as j, y { i == 0 and j == 1 and x.id == 1 and y.id == 2 } }", "T"}, {"all %s as x { any %s as y { y.id == 2 and x.id != 0 } }", "T"}, {"any %s as x { all %s as y { y.id == 1 or x.id == 2 } }", "T"},
		}
		for _, t := range tpls {
			for _, s1 := range sp {
				for _, s2 := range sp {
					e := fmt.Sprintf(t.f, s1, s2)
					c := evalCase{expr: e, d: d, tag: "bexpr"}
					if !c.parse() {
						r.Violate("spelling-does-not-parse", e, map[string]interface{}{"expression": e}, "")
						continue
					}
					o := c.obs()
					r.Evaluations++
					r.Seen(fmt.Sprintf("self-join|%d|%s|%v", depth, t.f, s1 == s2))
					if o != t.want {
						r.Violate("spelling-outcome", fmt.Sprintf("self-join|%d|%s", depth, t.f), c.desc(), "expected "+t.want+" got "+o)
					}
					r.Model(c.cmd(), o, c.desc())
				}
			}
		}
	}
	// a map whose KEYS need escaping, as the quantified collection in every spelling
	keys := []string{"a/b", "t~u", "~1", "a~01", "x y", "é", "/", "~", "plain", "0"}
	m := map[string]interface{}{}
	for i, k := range keys {
		m[k] = map[string]interface{}{"n": i}
	}
	d := map[string]interface{}{"o": map[string]interface{}{"m": m}, "m": m}
	for _, parts := range [][]string{{"m"}, {"o", "m"}} {
		sp := spellings(parts)
		if len(parts) == 1 {
			sp = []string{"m", `"/m"`}
		}
		for _, f := range []struct{ f, want string }{
			{"all %s as _, v { v.n != 99 }", "T"}, {"any %s as k, v { v.n == 1 and k == `t~u` }", "T"}, {"all %s as k, v { v is not empty }", "T"}, {"any %s as _, v { v.n == 9 }", "T"},
			{"all %s as k { k != zz }", "T"}, {"any %s as k, v { v.n == 0 and k == `a/b` }", "T"}, {"all %s as _, v { any v as f, w { w != 99 } }", "T"},
		} {
			for _, s := range sp {
				e := fmt.Sprintf(f.f, s)
				c := evalCase{expr: e, d: d, tag: "bexpr"}
				if !c.parse() {
					continue
				}
				o := c.obs()
				r.Evaluations++
				r.Seen("awkward-keys-as-elements|" + f.f + "|" + s)
				if o != f.want {
					r.Violate("spelling-outcome", "awkward-keys-as-elements|"+f.f, c.desc(), "expected "+f.want+" got "+o)
				}
				r.Model(c.cmd(), o, c.desc())
			}
		}
	}
}

// ---------- C08: structs recognised by their shape; option-only tags ----------

type NullS struct {
	s     string
	Valid bool
}
type NullT struct {
	Valid bool
	V     string `bexpr:"-" alt:"-"`
}
type NullI struct {
	n     int64
	Valid bool
}
type OptS struct {
	V   string `bexpr:"-" alt:"-"`
	Set bool
}
type OneHidden struct{ v string }
type TimeLike struct {
	wall uint64
	ext  int64
	loc  *int
}
type S11 struct {
	Inner S5b            `bexpr:",omitempty" alt:",omitempty"`
	PIn   *S5b           `bexpr:",omitempty" alt:",string"`
	L     []S5b          `bexpr:",omitempty" alt:",omitempty"`
	M     map[string]S5b `bexpr:",omitempty" alt:",omitempty"`
	Name  string         `bexpr:",omitempty"`
	N     NullS
	T     NullT
	I     NullI
	O     OptS
	H     OneHidden
	Tm    TimeLike
	LN    []NullS
	MN    map[string]NullT
	PN    *NullS
}

func c08Shapes(r *Run) {
	one := 1
	a := S11{Inner: S5b{V: 1, Name: "n", Sec: "h1", priv: "h2", Ren: "h1", SecL: []int{1}}, PIn: &S5b{Sec: "h1", Ren: "h2"}, L: []S5b{{Sec: "h1", priv: "h1"}, {Ren: "h2"}}, M: map[string]S5b{"k": {Sec: "h2", Ren: "h1"}}, Name: "x",
		N: NullS{"h1", true}, T: NullT{true, "h1"}, I: NullI{7, true}, O: OptS{"h1", true}, H: OneHidden{"h1"}, Tm: TimeLike{1, 2, &one}, LN: []NullS{{"h1", true}, {"", false}}, MN: map[string]NullT{"k": {true, "h2"}}, PN: &NullS{"h2", true}}
	b := S11{Inner: S5b{V: 1, Name: "n", SecL: nil}, PIn: &S5b{}, L: []S5b{{}, {}}, M: map[string]S5b{"k": {}}, Name: "x",
		N: NullS{"", true}, T: NullT{true, ""}, I: NullI{0, true}, O: OptS{"", true}, H: OneHidden{""}, Tm: TimeLike{0, 0, nil}, LN: []NullS{{"", true}, {"", false}}, MN: map[string]NullT{"k": {true, ""}}, PN: &NullS{"", true}}
	// (Ren is hidden under alt and SecL/Sec under bexpr: the pair differs in both, so it is a pair under either tag name)
	sels := []string{"N", "T", "I", "O", "H", "Tm", "LN.0", "MN.k", "PN", "Inner.Sec", "Inner.priv", "Inner.Ren", "Inner.renamed", "Inner.SecL", "Inner.secl", "PIn.Sec", "PIn.Ren", "L.0.Sec", "L.1.Ren", "M.k.Sec", "M.k.Ren", "Inner.Name", "Inner"}
	forms := []string{"%s == h1", "%s != h1", "h1 in %s", "%s is empty", "%s is not empty", "%s matches `h`", "%s == 7", "%s contains h2", "not %s == h2"}
	quants := []string{"any LN as v { v == h1 }", "all LN as v { v is empty }", "any MN as _, v { v matches `h` }", "any L as v { v.Sec == h1 or v.Ren == h2 }", "all M as _, v { v.Sec is empty and v.Ren is empty }", "any L as v { v.priv == h1 }",
		"any LN as i, v { v != h1 }", "all L as v { v.renamed != zz }"}
	var exprs []string
	for _, s := range sels {
		for _, f := range forms {
			exprs = append(exprs, fmt.Sprintf(f, s))
		}
	}
	exprs = append(exprs, quants...)
	for _, e := range exprs {
		for _, tag := range []string{"bexpr", "alt"} {
			for _, unk := range []bool{false, true} {
				c1 := evalCase{expr: e, d: a, tag: tag, unkSet: unk, unk: "h1"}
				if !c1.parse() {
					r.Count("generator:unparseable")
					continue
				}
				c2 := c1
				c2.d = b
				o1, o2 := c1.obs(), c2.obs()
				r.Evaluations += 2
				r.Seen("shapes|" + e + "|" + tag + fmt.Sprint(unk) + "|" + o1)
				if o1 != o2 {
					m := c1.desc()
					m["datum_b"] = describe(b)
					r.Violate("hidden-field-observable", "shapes|"+e, m, o1+" vs "+o2)
				}
				r.Model(c1.cmd(), o1, c1.desc())
				r.Model(c2.cmd(), o2, c2.desc())
			}
		}
		if flt, err := bexpr.CreateFilter(e); err == nil && flt != nil {
			if k1, k2 := filterKept2(flt, []S11{a, b}), filterKept2(flt, []S11{b, b}); k1 != k2 {
				r.Violate("hidden-field-changes-filter", "shapes|"+e, map[string]interface{}{"expression": e}, k1+" vs "+k2)
			}
			if k1, k2 := filterKept2(flt, map[string]S11{"x": a, "y": b}), filterKept2(flt, map[string]S11{"x": b, "y": b}); k1 != k2 {
				r.Violate("hidden-field-changes-filter", "shapes-map|"+e, map[string]interface{}{"expression": e}, k1+" vs "+k2)
			}
		}
	}
}

// ---------- C09: one uncompilable pattern written more than once; kinds side by side ----------

func c09RepeatedPatterns(r *Run) {
	d := map[string]interface{}{"name": "db", "labels": map[string]interface{}{"a": "x"}, "l": []interface{}{"db", "x"}, "n": 5}
	pats := []string{"`(`", "`a[`", "`*x`", "`x{2,1}`", `"\xff"`, `"caf\xe9"`, `"\xc3"`, `"a(b"`}
	forms := []string{"labels.zone matches %[1]s or name matches %[1]s", "not ( labels.zone not matches %[1]s and name matches %[1]s )", "name == db and name matches %[1]s or name not matches %[1]s",
		"name == zz and name matches %[1]s or name matches %[1]s", "name matches %[1]s or name matches %[1]s", "any l as x { x matches %[1]s } or name matches %[1]s", "n matches %[1]s or name matches %[1]s",
		"labels.zone matches %[1]s", "name matches %[1]s", "name not matches %[1]s and labels.zone not matches %[1]s and name matches %[1]s", "all l as x { labels.zone matches %[1]s or x matches %[1]s }"}
	for _, p := range pats {
		for _, f := range forms {
			e := fmt.Sprintf(f, p)
			c := evalCase{expr: e, d: d, tag: "bexpr"}
			if !c.parse() {
				r.Count("generator:unparseable")
				continue
			}
			o := c.obs()
			r.Evaluations++
			r.Count("outcome:" + o)
			r.Count("stream:repeated-patterns")
			r.Seen("repeated-patterns|" + f + "|" + p + "|" + o)
			if o == "P" {
				r.Violate("evaluate-panics", "panic:"+f+"|"+p, c.desc(), "Evaluate panicked")
			}
			if o == "X" {
				r.Violate("error-with-true", "errtrue:"+f+"|"+p, c.desc(), "Evaluate returned (true, err)")
			}
			if o == "NOCREATE" {
				r.Violate("create-fails-on-accepted-text", "nocreate:"+f+"|"+p, c.desc(), "CreateEvaluator failed (or panicked) on a text grammar.Parse accepts")
			}
			r.Model(c.cmd(), o, c.desc())
		}
	}
}

// ---------- C10: a budget and a recorded fault together ----------

func c10BudgetedFaults(r *Run) {
	faulty := []string{`foo == "\q" and bar == 1`, "a == 3x and b == 1", "a == \"\xff\" and b == 2", `a == "unterminated and b == 1`, `a["k" == 1 and b == 2`, "( a == 1 and b == 2", `"/a~2" == 1 or b == 2`, "a == 1 and b == 2", `a matches "(" and b == "\q"`,
		`any a as x { x == "\q" } or b == 1`}
	for _, s := range faulty {
		_, _, N := grammar.VerifParse("", []byte(s))
		step := uint64(1)
		if r.Tier != "thorough" && N > 600 {
			step = N / 600
		}
		for b := uint64(1); b <= N+2; b += step {
			r.Evaluations++
			c := map[string]interface{}{"input": s, "budget": b, "N": N}
			func() {
				defer func() {
					if p := recover(); p != nil {
						r.Violate("create-evaluator-panics", fmt.Sprintf("budgeted|%s", s), c, fmt.Sprint(p))
					}
				}()
				ev, err := bexpr.CreateEvaluator(s, bexpr.WithMaxExpressions(b))
				if (ev == nil) == (err == nil) {
					r.Violate("evaluator-xor-error", fmt.Sprintf("budgeted-xor|%s", s), c, fmt.Sprintf("evaluator nil=%v error nil=%v", ev == nil, err == nil))
				}
			}()
			func() {
				defer func() {
					if p := recover(); p != nil {
						r.Violate("parse-panics", fmt.Sprintf("budgeted-parse|%s", s), c, fmt.Sprint(p))
					}
				}()
				ast, err := grammar.Parse("", []byte(s), grammar.MaxExpressions(b))
				if err == nil {
					if e, ok := ast.(grammar.Expression); !ok || e == nil {
						r.Violate("accepted-without-expression", fmt.Sprintf("budgeted-nil|%s", s), c, fmt.Sprintf("Parse returned %T with a nil error", ast))
					}
				}
			}()
		}
		r.Seen("budgeted-faults|" + s)
	}
}

// ---------- C13 / C14: the same call repeated, with unrelated failing calls in between ----------

// poison runs evaluations whose quantifier bodies fail while bindings named like common top-level selectors are in force.
func poison() {
	for _, t := range []struct {
		e string
		d interface{}
	}{
		{"any p as m, zz { zz.q == 1 }", map[string]interface{}{"p": map[string]interface{}{"a": 5}}}, {"all p as o { o.x.y == 1 }", map[string]interface{}{"p": []interface{}{1}}},
		{"any p as name, s { s.Port == 80 }", map[string]interface{}{"p": map[string]interface{}{"api": map[string]interface{}{"Port": 8080}, "web": 5}}}, {"any p as k, k { k == 1 }", map[string]interface{}{"p": []interface{}{1}}},
		{"any p as x, l { l.q == 1 }", map[string]interface{}{"p": []interface{}{"s"}}}, {"any p as a, b { b == bad }", map[string]interface{}{"p": []interface{}{1}}}, {"any p as Tag, Tags { Tags == bad }", map[string]interface{}{"p": []interface{}{1}}},
		{"all p as Labels, v { v.q == 1 }", map[string]interface{}{"p": map[string]interface{}{"k": 1}}},
	} {
		exprObsOnce(t.e, t.d)
		exprObsOnce(t.e, t.d, bexpr.WithUnknownValue("poison"))
	}
}

// exprObsOnce: one creation, one evaluation (no stability guard).
func exprObsOnce(expr string, d interface{}, opts ...bexpr.Option) (o string) {
	defer func() {
		if r := recover(); r != nil {
			o = "P"
		}
	}()
	ev, err := bexpr.CreateEvaluator(expr, opts...)
	if err != nil {
		return "NOCREATE"
	}
	return evalObs(ev, d)
}

func c13RepeatStability(r *Run, n int) {
	bodies := []string{"any m as _, v { v == x }", "all m as _, v { v != x }", "any m as _, v { v.x == 1 }", "any m as k, v { v == x and k != zz }", "any m as m, v { v.x == 1 }", "all m as m, v { v != 7 }", "any l as l, v { v == 2 }",
		"all l as l, v { v != 9 }", "any m as _, v { any v as v, w { w == 1 } }", "name == web", "zz == poison or name == db", "any l as v { name == db }", "all l as i, v { k != 1 }", "o.x == 1", "all m as q { Labels == 1 }"}
	elems := []interface{}{5, "x", map[string]interface{}{"x": 1}, nil, "s", []interface{}{1}, 7, map[string]interface{}{"x": "1"}}
	for i := 0; i < n; i++ {
		rng = NewRng(mix(r.Seed, strHash("C13repeat"), uint64(i)))
		m := map[string]interface{}{}
		sz := 2 + rng.Intn(8)
		for j := 0; j < sz; j++ {
			m[fmt.Sprintf("%c", 'a'+j)] = pick(rng, elems)
		}
		d := map[string]interface{}{"m": m, "l": []interface{}{1, 2}, "name": "db", "k": 1, "o": map[string]interface{}{"x": 1}, "Labels": 1}
		e := pick(rng, bodies)
		ev, err := bexpr.CreateEvaluator(e)
		if err != nil {
			r.Count("generator:unparseable")
			continue
		}
		first := evalObs(ev, d)
		counts := map[string]int{first: 1}
		for k := 1; k < 24; k++ {
			if k%4 == 1 {
				poison()
			}
			if k%2 == 0 {
				counts[evalObs(ev, d)]++
			} else {
				counts[exprObsOnce(e, d)]++
			}
		}
		r.Evaluations += 24
		r.Seen("repeat|" + e + "|" + first)
		if len(counts) != 1 {
			r.Violate("history-dependent", "repeat|"+e, map[string]interface{}{"expression": e, "datum": describe(d)}, "the same call, repeated on the same and on fresh evaluators with unrelated failing calls in between: "+fmt.Sprint(counts))
		}
		c := evalCase{expr: e, d: d, tag: "bexpr"}
		if c.parse() {
			r.Model(c.cmd(), first, c.desc())
		}
	}
}

// ---------- C19: writers that fail; long chains ----------

type failingWriter struct{ left int }

func (w *failingWriter) Write(p []byte) (int, error) {
	if w.left <= 0 {
		return 0, errors.New("closed")
	}
	if len(p) > w.left {
		n := w.left
		w.left = 0
		return n, errors.New("short write")
	}
	w.left -= len(p)
	return len(p), nil
}

func c19WritersAndChains(r *Run) {
	// (a) a dump into a writer that fails part-way, then the same and other trees into healthy writers
	texts := []string{"foo.bar == 1", "any items as k, v { v.x == 1 and k != zz }", "a == 1 and b == 2 or not c in d", `"/p/q" matches "^a" or x is empty`}
	var trees []grammar.Expression
	for _, t := range texts {
		if e, ok := parseTree(t); ok {
			trees = append(trees, e)
		}
	}
	want := map[int]string{}
	for i, t := range trees {
		want[i] = dumpObs(t, "  ", 1)
	}
	for round := 0; round < 20; round++ {
		for i, t := range trees {
			func() {
				defer func() { recover() }()
				t.ExpressionDump(&failingWriter{left: 7 + 13*round}, "  ", 1)
			}()
			j := (i + round) % len(trees)
			got := dumpObs(trees[j], "  ", 1)
			r.Evaluations++
			if got != want[j] {
				b1, _ := hexDecode(got[2:])
				r.Violate("dump-not-deterministic", "after-failed-write|"+texts[j], map[string]interface{}{"text": texts[j], "previous_dump": "of `" + texts[i] + "` into a writer that fails after a few bytes"}, "the dump after a failed one begins "+truncate(string(b1), 120))
			}
		}
	}
	r.Seen("after-failed-write")
	// (b) chains of 1..40 terms and 1..24 nested quantifiers, against the model's renderer
	for n := 1; n <= 40; n++ {
		for _, op := range []string{"and", "or"} {
			var terms []string
			for i := 0; i < n; i++ {
				terms = append(terms, fmt.Sprintf("f%d == %d", i, i))
			}
			txt := strings.Join(terms, " "+op+" ")
			if n%3 == 0 {
				txt = "not " + txt
			}
			c19One(r, txt, pick(NewRng(uint64(n)), []string{"", " ", "   ", "\t"}), n%4, fmt.Sprintf("chain-%s-%d", op, n))
		}
		if n <= 24 {
			txt := "x == 1"
			for i := 0; i < n; i++ {
				txt = fmt.Sprintf("any c%d as v%d { %s }", i, i, txt)
			}
			c19One(r, txt, "  ", n%3, fmt.Sprintf("nested-quantifiers-%d", n))
		}
	}
	// (c) depth: lines that belong beyond the 64th, 128th, 256th level - long chains from level 0, small trees from a high start level
	for _, n := range []int{63, 64, 65, 66, 70, 127, 129, 200, 257, 300} {
		var terms []string
		for i := 0; i < n; i++ {
			terms = append(terms, fmt.Sprintf("f%d == %d", i, i))
		}
		c19One(r, strings.Join(terms, pick(NewRng(uint64(n)), []string{" and ", " or "})), pick(NewRng(uint64(n+1)), []string{" ", "  ", "\t"}), n%2, fmt.Sprintf("deep-chain-%d", n))
	}
	for _, lvl := range []int{62, 63, 64, 65, 100, 127, 128, 255, 256, 1000, 4096} {
		for _, txt := range []string{"a == 1 or not b is empty", "any xs as k, v { v.x == 1 and k != zz }", "a in b"} {
			c19One(r, txt, pick(NewRng(uint64(lvl)), []string{" ", "  ", "ab"}), lvl, fmt.Sprintf("start-level-%d|%s", lvl, txt))
		}
	}
}

func c19One(r *Run, txt, ind string, lvl int, key string) {
	ast, ok := parseTree(txt)
	if !ok {
		r.Count("generator:unparseable")
		return
	}
	o := dumpObs(ast, ind, lvl)
	r.Evaluations++
	r.Seen("long|" + key)
	c := map[string]interface{}{"text": truncate(txt, 300), "indent": ind, "level": lvl}
	if o == "PANIC" {
		r.Violate("dump-panics", "panic|"+key, c, "ExpressionDump panicked")
	}
	if o2 := dumpObs(ast, ind, lvl); o2 != o {
		r.Violate("dump-not-deterministic", "det|"+key, c, "two dumps of one tree differ")
	}
	var pats []string
	r.Model(fmt.Sprintf("(dump %s %d %s)", hx(ind), lvl, sExpr(ast, &pats)), o, c)
}

var _ = reflect.TypeOf
