package main

import (
	"encoding/json"
	"fmt"
	"math"
	"reflect"
	"regexp"
	"strings"
	"sync/atomic"

	bexpr "github.com/hashicorp/go-bexpr"
	"github.com/hashicorp/go-bexpr/grammar"
)

// evalCase is one (expression, datum, options) triple.
type evalCase struct {
	expr   string
	ast    grammar.Expression
	d      interface{}
	tag    string
	unkSet bool
	unk    interface{}
	hook   int // see hookFns
}

// the hook family shared with coq/ModelApi.v (hook_of)
var hookCalls int64

func hookFn(n int) bexpr.ValueTransformationHookFn {
	switch n {
	case 1:
		return func(v reflect.Value) reflect.Value { atomic.AddInt64(&hookCalls, 1); return v }
	case 2: // unwrap: a struct of type Wrap is replaced by its field V (as the interface-typed field value)
		return func(v reflect.Value) reflect.Value {
			if v.IsValid() && v.Type() == reflect.TypeOf(Wrap{}) {
				return v.Field(0)
			}
			return v
		}
	case 3:
		return func(v reflect.Value) reflect.Value { return reflect.ValueOf(7) }
	case 4:
		return func(v reflect.Value) reflect.Value { return reflect.ValueOf(nil) }
	case 5: // rewrites scalars, leaves containers alone: plain strings are upper-cased (ASCII only)
		return func(v reflect.Value) reflect.Value {
			if v.IsValid() && v.Type() == strT {
				b := []byte(v.String())
				for i, c := range b {
					if c >= 'a' && c <= 'z' {
						b[i] = c - 32
					}
				}
				return reflect.ValueOf(string(b))
			}
			return v
		}
	}
	return nil
}

func (c *evalCase) opts() []bexpr.Option {
	var o []bexpr.Option
	if c.tag != "bexpr" {
		o = append(o, bexpr.WithTagName(c.tag))
	}
	if c.unkSet {
		o = append(o, bexpr.WithUnknownValue(c.unk))
	}
	if c.hook != 0 {
		o = append(o, bexpr.WithHookFn(hookFn(c.hook)))
	}
	return o
}

func (c *evalCase) obs() string { return exprObs(c.expr, c.d, c.opts()...) }

var addrRe = regexp.MustCompile(`0x[0-9a-f]{6,}`)

// rawOutcome is the outcome of one Evaluate exactly as a caller sees it: the boolean and the full text of the error
// (addresses, which differ between any two allocations, are blanked).
func rawOutcome(c *evalCase) (o string) {
	defer func() {
		if r := recover(); r != nil {
			o = "panic"
		}
	}()
	ev, err := bexpr.CreateEvaluator(c.expr, c.opts()...)
	if err != nil {
		return "NOCREATE " + err.Error()
	}
	ok, err := ev.Evaluate(c.d)
	if err != nil {
		return fmt.Sprint(ok) + " " + addrRe.ReplaceAllString(err.Error(), "0xADDR")
	}
	return fmt.Sprint(ok)
}

func (c *evalCase) parse() bool {
	t, ok := parseTree(c.expr)
	c.ast = t
	return ok
}

func (c *evalCase) cmd() string { return evalCmd(c.tag, c.unkSet, c.unk, c.hook, c.ast, c.d) }

func (c *evalCase) desc() map[string]interface{} {
	m := map[string]interface{}{"expression": c.expr, "datum": describe(c.d), "datum_type": fmt.Sprintf("%T", c.d)}
	if c.tag != "bexpr" {
		m["tag"] = c.tag
	}
	if c.unkSet {
		m["unknown_value"] = describe(c.unk)
	}
	if c.hook != 0 {
		m["hook"] = c.hook
	}
	return m
}

// genOptions draws the option part of a generic case.
func genOptions(c *evalCase) {
	c.tag = "bexpr"
	switch rng.Intn(10) {
	case 0:
		c.tag = "alt"
	case 1, 2:
		c.unkSet = true
		switch rng.Intn(9) {
		case 6:
			c.unk = json.Number(pick(rng, []string{"5", "1.5", "x", "0"}))
		case 7:
			c.unk = NInt(1)
		case 8:
			c.unk = Dur(5)
		case 0:
			c.unk = nil
		case 1:
			c.unk = "a"
		case 2:
			c.unk = 1
		case 3:
			c.unk = []int{1, 2}
		case 4:
			c.unk = 1.5
		default:
			c.unk = map[string]int{"k": 1}
		}
	case 3:
		c.hook = pick(rng, []int{1, 2, 5, 5})
	case 4:
		if rng.Pct(40) {
			c.tag = pick(rng, []string{"", "nosuch", "BEXPR"}) // tag names no field carries: fields go by their Go names
		}
	}
}

// leafKinds summarises the kinds a datum contains at its top two levels (for the distinct key).
func kindSig(d interface{}) string {
	v := reflect.ValueOf(d)
	if !v.IsValid() {
		return "nil"
	}
	return v.Type().String()
}

func opSig(e grammar.Expression) string { return shapeKey(e) }

// generic stream: datum, options, up to three expressions against it
func genericCases(r *Run, stream string, n int, f func(c *evalCase)) {
	made := 0
	for i := 0; made < n; i++ {
		rng = NewRng(mix(r.Seed, strHash(r.Prop+stream), uint64(i)))
		d := genDatum()
		base := evalCase{d: d}
		genOptions(&base)
		for k := 0; k < 3 && made < n; k++ {
			c := base
			c.expr = genExpr(d, c.tag, rng.Intn(3), "", reflect.Value{})
			if !c.parse() {
				r.Count("generator:unparseable")
				continue
			}
			made++
			f(&c)
		}
	}
}

func addEval(r *Run, c *evalCase, stream string) string {
	o := c.obs()
	r.Evaluations++
	r.Count("outcome:" + o)
	r.Count("stream:" + stream)
	r.Seen(opSig(c.ast) + "|" + kindSig(c.d) + "|" + o)
	r.Model(c.cmd(), o, c.desc())
	return o
}

// C01: Evaluate vs the reference interpreter (the Coq model of the documented semantics), broad product generator.
func runC01(r *Run) {
	r.Rule = "type-directed data (14 scalar kinds, named types, json.Number, nil, pointers, slices, arrays, []interface{}, []*T, string- and non-string-keyed maps, 6 struct types with hidden/renamed/colliding tags, JSON-like documents) x expressions built against the datum's shape (selectors mostly resolving, operator and literal fitted to the selected leaf 85% of the time, all 8 operators, all 4 binding modes, nesting <= 3, shadowing family) x options (alternate tag, unknown value); non-trivial+distinct = distinct (operator shape, datum type, outcome class)"
	n := 6000
	if r.Tier == "thorough" {
		n = 200000
	}
	genericCases(r, "generic", n, func(c *evalCase) {
		o := addEval(r, c, "generic")
		if r.Evaluations%500 == 1 {
			m := c.desc()
			m["outcome"] = o
			r.Sample(m)
		}
	})
	// JSON documents as encoding/json decodes them: the implementation against the documented interpreter jeval
	// (coq/JsonEval.v, proved equal to the model's Evaluate on such documents) and against the model itself
	nj := 1500
	if r.Tier == "thorough" {
		nj = 80000
	}
	for i := 0; i < nj; i++ {
		rng = NewRng(mix(r.Seed, strHash("C01json"), uint64(i)))
		text := "{" + `"a":` + genJSONText(3) + `,"items":` + genJSONText(3) + `,"m":` + genJSONText(2) + "}"
		if rng.Pct(10) {
			text = genJSONText(3)
		}
		d, err := decodeJSON(text, rng.Bool())
		if err != nil {
			r.Count("generator:bad-json")
			continue
		}
		for k := 0; k < 2; k++ {
			e := genExpr(d, "bexpr", rng.Intn(3), "", reflect.Value{})
			if rng.Pct(30) {
				_, e = genNestedQuantOn(d)
			}
			c := evalCase{expr: e, d: d, tag: "bexpr"}
			if rng.Pct(30) { // an unknown value that is itself a JSON value: the interpreter substitutes it for absent members
				c.unkSet = true
				c.unk = pick(rng, []interface{}{nil, "a", 1.0, true, json.Number("3"), json.Number("1.5"), []interface{}{1.0, "a"}, map[string]interface{}{"k": 1.0}, "", 0.0})
				r.Count("json-unknown:set")
			}
			if !c.parse() {
				r.Count("generator:unparseable")
				continue
			}
			o := addEval(r, &c, "json-documents")
			m := c.desc()
			m["json"] = truncate(text, 300)
			r.Model(jevalCmd(&c), classOf(o), m)
		}
	}
	// nested quantifiers with re-used binder names over nested collections (long lists included)
	nn := 600
	if r.Tier == "thorough" {
		nn = 40000
	}
	for i := 0; i < nn; i++ {
		rng = NewRng(mix(r.Seed, strHash("C01nested"), uint64(i)))
		d, e := genNestedQuant()
		c := evalCase{expr: e, d: d, tag: "bexpr"}
		if !c.parse() {
			r.Count("generator:unparseable")
			continue
		}
		addEval(r, &c, "nested-quantifiers")
	}
	c03FullyEvaluatedChains(r) // long flat chains are expressions of the language like any other
	c01IfaceListBoundaries(r)
	c01IfaceListRuns(r)
	collidingJoins(r, "colliding-joins")
	sameNameTypes(r, nil)
	c01RegexpCross(r)
	c01Sizes(r)
	// the same logical document in several Go representations must give the same outcome
	reps := 300
	if r.Tier == "thorough" {
		reps = 10000
	}
	for i := 0; i < reps; i++ {
		rng = NewRng(mix(r.Seed, strHash("C01reps"), uint64(i)))
		docs := sameDocument()
		e := genExpr(docs[0], "bexpr", rng.Intn(2), "", reflect.Value{})
		var first string
		for k, d := range docs {
			c := evalCase{expr: e, d: d, tag: "bexpr"}
			if !c.parse() {
				break
			}
			o := addEval(r, &c, "representations")
			if k == 0 {
				first = o
			} else if o != first {
				r.Violate("representation-dependent", e, map[string]interface{}{"expression": e, "datum_a": describe(docs[0]), "datum_b": describe(d)}, first+" vs "+o)
			}
		}
	}
}

// sameDocument returns one logical document {n: int, s: string, l: [ints], m: {k: string}} in several representations
// that the documented semantics does not distinguish.
type docStruct struct {
	N int
	S string
	L []int
	M map[string]string
}

// (collections stay unwrapped: a quantifier does not dereference a pointer to its collection - the model says the same -
// so *[]int is not a representation of a list as far as any/all are concerned)
type docStructP struct {
	N *int
	S *string
	L []int
	M map[string]string
}

func sameDocument() []interface{} {
	n := int(intPool[rng.Intn(6)])
	s := pick(rng, strPool)
	l := []int{rng.Intn(3), rng.Intn(3)}
	m := map[string]string{"k": pick(rng, strPool)}
	// (a list of statically typed elements and a []interface{} differ observably: an ill-typed literal is an error for
	// the former and skips the element for the latter - so the element typing is kept fixed)
	ds := docStruct{n, s, l, m}
	return []interface{}{
		ds,
		&ds,
		docStructP{&n, &s, l, m},
		map[string]interface{}{"N": n, "S": s, "L": l, "M": m},
		map[string]interface{}{"N": &n, "S": &s, "L": l, "M": m},
		map[string]interface{}{"N": NInt(n), "S": NStr(s), "L": l, "M": m},
		&map[string]interface{}{"N": n, "S": &s, "L": l, "M": m},
	}
}

// ---------- C09 ----------

type kindSample struct {
	name string
	v    interface{}
}

func kindMatrix() []kindSample {
	one := 1
	pone := &one
	var nilp *int
	var nilpp **int
	var nilmap map[string]int
	var nilslice []int
	var nilif interface{}
	s := "a"
	arr := [2]int{1, 2}
	return []kindSample{
		{"Invalid(nil)", nil}, {"Bool", true}, {"Int", 1}, {"Int8", int8(1)}, {"Int16", int16(1)}, {"Int32", int32(1)}, {"Int64", int64(1)},
		{"Uint", uint(1)}, {"Uint8", uint8(1)}, {"Uint16", uint16(1)}, {"Uint32", uint32(1)}, {"Uint64", uint64(1)}, {"Uintptr", uintptr(1)},
		{"Float32", float32(1)}, {"Float64", 1.0}, {"Complex64", complex64(1)}, {"Complex128", complex128(1)},
		{"Array", arr}, {"Chan", make(chan int)}, {"NilChan", (chan int)(nil)}, {"Func", func() {}}, {"NilFunc", (func())(nil)},
		{"Interface(nil in struct)", struct{ I interface{} }{nilif}}, {"Map", map[string]int{"a": 1}}, {"NilMap", nilmap}, {"MapIntKey", map[int]string{1: "a"}},
		{"MapNamedKey", map[NStr]int{"a": 1}}, {"MapBoolKey", map[bool]int{true: 1}}, {"MapFloatKey", map[float64]int{1: 1}}, {"MapIfaceKey", map[interface{}]interface{}{"a": 1, 1: "a"}},
		{"Ptr", pone}, {"NilPtr", nilp}, {"PtrPtr", &pone}, {"NilPtrPtr", nilpp}, {"PtrToNilPtr", &nilp}, {"Slice", []int{1, 2}}, {"NilSlice", nilslice}, {"EmptySlice", []int{}},
		{"SliceOfPtr", []*int{pone, nil}}, {"SliceOfPtrPtr", []**int{&pone, &nilp, nil}}, {"SliceOfIface", []interface{}{1, nil, "a", 1.5, true, []int{1}, map[string]int{}, nilp, pone}},
		{"SliceOfIfaceNilOnly", []interface{}{nil}}, {"SliceOfIfaceFloats", []interface{}{float32(1), 2.5, float32(3)}}, {"SliceOfIfaceFloats2", []interface{}{2.5, nil, float32(1.5)}}, {"SliceOfIfaceInts", []interface{}{int8(1), int16(2), int32(3), int64(4), 5, uint8(6), uint16(7), uint32(8), uint64(9), uint(10)}}, {"SliceOfIfaceZeros", []interface{}{8080, 0, true, false, 1.5, 0.0}}, {"SliceOfIfaceObjectFirst", []interface{}{map[string]interface{}{"o": 1}, "a", 1, true, 1.5}}, {"SliceOfIfaceListFirst", []interface{}{[]int{1}, 1, "a"}}, {"SliceOfIfaceStructFirst", []interface{}{S1{}, "a", 1}},
		{"MapNamedStrKeyIfaceVal", map[NStr]interface{}{"a": 1, "b": "a"}}, {"MapNamedStrKeyStruct", map[NStr]S1{"a": {A: 1}}}, {"Bytes", []byte("a")}, {"String", "a"}, {"PtrString", &s}, {"NamedString", NStr("a")}, {"NamedInt", NInt(1)},
		{"Struct", S1{A: 1}}, {"PtrStruct", &S1{A: 1}}, {"StructUnexported", S2{}}, {"UnsafePointerLike", uintptr(0)}, {"JsonNumber", json.Number("1")}, {"NilPtrJsonNumber", (*json.Number)(nil)}, {"NilPtrNamedString", (*NStr)(nil)}, {"NilPtrDur", (*Dur)(nil)}, {"PtrPtrJsonNumber", func() **json.Number { var p *json.Number; return &p }()}, {"NilPtrStruct", (*S1)(nil)}, {"NilPtrSlice", (*[]int)(nil)}, {"NilPtrMap", (*map[string]int)(nil)}, {"PtrJsonNumber", func() *json.Number { j := json.Number("1"); return &j }()},
		{"ArrayOfIface", [2]interface{}{nil, 1}}, {"MapOfIface", map[string]interface{}{"a": nil, "b": 1}}, {"SliceOfSlices", [][]int{{1}, nil}}, {"NaN", math.NaN()},
		{"MapPtrVal", map[string]*int{"a": nil, "b": pone}}, {"SliceOfNamedUint8", []Octet{1, 2}}, {"NamedSliceOfNamedUint8", Octets{1}}, {"NamedBytes", NBytes("a")}, {"ArrayOfBytes", [2]byte{97, 98}}, {"PtrBytes", func() *[]byte { b := []byte("a"); return &b }()},
		{"NamedStrMap", NStrMap{"a": "b"}}, {"SliceOfNamedStr", []NStr{"a"}}, {"SliceOfNamedBool", []NBool{true}}, {"SliceOfJsonNumber", []json.Number{"1"}}, {"MapOfSlices", map[string][]string{"a": {"a"}}}, {"EmptyOctets", []Octet{}}, {"SliceOfStructs", []S1{{A: 1}}}, {"SliceOfMaps", []map[string]int{{"a": 1}, nil}},
	}
}

func runC09(r *Run) {
	r.Rule = "exhaustive depth-1 matrix: 8 operators (both in/contains spellings) x 60 values covering every reflect.Kind incl. Invalid, nil and odd elements inside containers, each reached as a map value, as a struct field, through a pointer and as quantified collection, x 9 literals; plus the generic random stream with an error-focused share; predicate on the implementation: no panic, and error implies false; every case is also compared with the model (so a new panic site is a disagreement even where the model says error); distinct = (operator, kind sample, literal class, wrapper, outcome)"
	lits := []string{`1`, `"a"`, `true`, `1.5`, `"zz"`, `""`, `0x1`, "`[`", `-1`}
	forms := []string{"x == %s", "x != %s", "%s in x", "%s not in x", "x contains %s", "x not contains %s", "x is empty", "x is not empty", "x matches %s", "x not matches %s",
		"any x as v { v == %s }", "all x as k, v { v != %s }", "any x as k, _ { k == %s }", "all x as v { v is empty }", "not x == %s", "x == %s or x is empty", "x.y == %s", "x.0 == %s", "x.a is empty"}
	type holder struct{ X interface{} }
	for _, ks := range kindMatrix() {
		wraps := []struct {
			name string
			d    interface{}
			sel  string
		}{
			{"mapvalue", map[string]interface{}{"x": ks.v}, "x"},
			{"structfield", holder{ks.v}, "X"},
			{"ptrstruct", &holder{ks.v}, "X"},
			{"nested", map[string]interface{}{"o": map[string]interface{}{"x": ks.v}}, "o.x"},
			{"top", ks.v, "x"},
		}
		for _, w := range wraps {
			for _, f := range forms {
				for li, lit := range lits {
					if !strings.Contains(f, "%s") && li > 0 {
						continue
					}
					e := f
					if strings.Contains(f, "%s") {
						e = fmt.Sprintf(f, lit)
					}
					if w.sel != "x" {
						e = strings.ReplaceAll(" "+e, " x", " "+w.sel)[1:]
					}
					c := evalCase{expr: e, d: w.d, tag: "bexpr"}
					if !c.parse() {
						r.Count("generator:unparseable")
						continue
					}
					o := c.obs()
					r.Evaluations++
					r.Count("outcome:" + o)
					r.Count("stream:matrix")
					r.Seen(f + "|" + ks.name + "|" + w.name + "|" + lit)
					if o == "P" {
						r.Violate("evaluate-panics", "panic:"+f+"|"+ks.name, c.desc(), "Evaluate panicked")
					}
					if o == "X" {
						r.Violate("error-with-true", "errtrue:"+f+"|"+ks.name, c.desc(), "Evaluate returned (true, err)")
					}
					r.Model(c.cmd(), o, c.desc())
				}
			}
		}
	}
	c09Unmodelled(r)
	c09RepeatedPatterns(r)
	sameNameTypes(r, func(o string, c *evalCase) {
		if o == "P" {
			r.Violate("evaluate-panics", "panic:same-name|"+c.expr, c.desc(), "Evaluate panicked")
		}
		if o == "X" {
			r.Violate("error-with-true", "errtrue:same-name|"+c.expr, c.desc(), "Evaluate returned (true, err)")
		}
	})
	n := 3000
	if r.Tier == "thorough" {
		n = 300000
	}
	absentPctDefault = 25
	genericCases(r, "random", n, func(c *evalCase) {
		o := addEval(r, c, "random")
		if o == "P" {
			r.Violate("evaluate-panics", "panic:"+c.expr, c.desc(), "Evaluate panicked")
		}
		if o == "X" {
			r.Violate("error-with-true", "errtrue:"+c.expr, c.desc(), "Evaluate returned (true, err)")
		}
		if r.Evaluations%700 == 0 {
			m := c.desc()
			m["outcome"] = o
			r.Sample(m)
		}
	})
	absentPctDefault = 8
	r.Sample(map[string]interface{}{"expression": "x is empty", "datum": "map[string]interface{}{\"x\": 1}", "outcome": exprObs("x is empty", map[string]interface{}{"x": 1})})
}

// ---------- C03 ----------

func table3(op string, a, b string) string {
	switch op {
	case "and":
		if a == "F" || a == "E" || a == "X" || a == "P" {
			return a
		}
		return b
	case "or":
		if a == "T" || a == "E" || a == "X" || a == "P" {
			return a
		}
		return b
	default: // not
		switch a {
		case "T":
			return "F"
		case "F":
			return "T"
		}
		return a
	}
}

func countHook(expr string, d interface{}, extra ...bexpr.Option) (string, int64) {
	atomic.StoreInt64(&hookCalls, 0)
	o := exprObs(expr, d, append(extra, bexpr.WithHookFn(hookFn(1)))...)
	return o, atomic.LoadInt64(&hookCalls)
}

func runC03(r *Run) {
	r.Rule = "pairs of sub-expressions (A, B) generated against one datum (matches on resolving / absent / ill-typed selectors, quantified and negated operands; error-producing operands about 25%); predicate on the implementation: the outcome of `(A) and (B)`, `(A) or (B)`, `not (A)`, double negation and both De Morgan rewrites equals the 3x3 outcome table applied to the outcomes of A and B evaluated alone; short-circuit and left-to-right order observed by counting value-hook invocations; composites are also compared with the model; distinct = (outcome A, outcome B, shapes)"
	n := 1000
	if r.Tier == "thorough" {
		n = 60000
	}
	absentPctDefault = 20
	defer func() { absentPctDefault = 8 }()
	for i := 0; i < n; i++ {
		rng = NewRng(mix(r.Seed, strHash("C03"), uint64(i)))
		d := genDatum()
		base := evalCase{d: d}
		genOptions(&base)
		A := genExpr(d, base.tag, rng.Intn(2), "", reflect.Value{})
		B := genExpr(d, base.tag, rng.Intn(2), "", reflect.Value{})
		oa := exprObs(A, d, base.opts()...)
		ob := exprObs(B, d, base.opts()...)
		if oa == "NOCREATE" || ob == "NOCREATE" {
			r.Count("generator:unparseable")
			continue
		}
		pa, pb := parenIfNeeded(A), parenIfNeeded(B)
		comps := []struct{ name, expr, want string }{
			{"and", pa + " and " + pb, table3("and", oa, ob)},
			{"or", pa + " or " + pb, table3("or", oa, ob)},
			{"not", "not " + pa, table3("not", oa, "")},
			{"notnot", "not ( not " + pa + " )", table3("not", table3("not", oa, ""), "")},
			{"demorgan-and", "not ( " + pa + " and " + pb + " )", ""},
			{"demorgan-or", "not ( " + pa + " or " + pb + " )", ""},
		}
		for _, cp := range comps {
			c := base
			c.expr = cp.expr
			if !c.parse() {
				r.Violate("composite-does-not-parse", cp.expr, c.desc(), "operands parse but the composite does not")
				continue
			}
			o := c.obs()
			r.Evaluations++
			r.Seen(cp.name + "|" + oa + "|" + ob + "|" + opSig(c.ast))
			r.Count("A:" + oa)
			r.Count("composite:" + cp.name + ":" + o)
			want := cp.want
			if cp.name == "demorgan-and" {
				// not (A and B) == (not A) or (not B), evaluated on the implementation
				want = exprObs("( not "+pa+" ) or ( not "+pb+" )", d, base.opts()...)
			}
			if cp.name == "demorgan-or" {
				want = exprObs("( not "+pa+" ) and ( not "+pb+" )", d, base.opts()...)
			}
			if o != want {
				m := c.desc()
				m["A"], m["B"], m["outcome_A"], m["outcome_B"] = A, B, oa, ob
				r.Violate("truth-table:"+cp.name, cp.name+"|"+oa+"|"+ob, m, "expected "+want+" got "+o)
			}
			r.Model(c.cmd(), o, c.desc())
		}
		// short-circuit and order: hook invocations of the composite = those of A, plus those of B iff B is reached
		if base.hook == 0 {
			_, ca := countHook(A, d, base.opts()...)
			_, cb := countHook(B, d, base.opts()...)
			for _, op := range []string{"and", "or"} {
				_, cc := countHook(pa+" "+op+" "+pb, d, base.opts()...)
				reached := (op == "and" && oa == "T") || (op == "or" && oa == "F")
				want := ca
				if reached {
					want = ca + cb
				}
				r.Evaluations++
				if cc != want {
					m := base.desc()
					m["A"], m["B"], m["operator"] = A, B, op
					r.Violate("short-circuit:"+op, "sc|"+op+"|"+oa, m, fmt.Sprintf("value lookups: A alone %d, B alone %d, composite %d (expected %d)", ca, cb, cc, want))
				}
			}
		}
		if i%400 == 0 {
			r.Sample(map[string]interface{}{"A": A, "B": B, "outcome_A": oa, "outcome_B": ob, "datum": describe(d)})
		}
	}
	c03QuantifierBodies(r, n)
	c03Siblings(r, n)
	c03VeryLongChain(r)
	c03FullyEvaluatedChains(r)
	c03ReusedAcrossKinds(r)
	c03MatchPairs(r)
}

// ---------- C04 ----------

func flipIfOK(o string) string {
	switch o {
	case "T":
		return "F"
	case "F":
		return "T"
	}
	return o
}

// c04KeywordPrefixed: bare literals that begin with a keyword, in both membership spellings
func c04KeywordPrefixed(r *Run) {
	d := map[string]interface{}{"Tags": []string{"notify", "ify", "note", "e", "inside", "side", "android"}, "S": "nothing-notify", "E": []string{}}
	for _, w := range []string{"notify", "note", "nothing", "inside", "android", "isle", "orbit", "anyone", "allow", "matchesx", "containsx", "notx"} {
		for _, sel := range []string{"Tags", "S", "E"} {
			forms := map[string]string{"in": w + " in " + sel, "contains": sel + " contains " + w, "not in": w + " not in " + sel, "not contains": sel + " not contains " + w,
				"not(in)": "not ( " + w + " in " + sel + " )", "not(contains)": "not ( " + sel + " contains " + w + " )"}
			outs := map[string]string{}
			trees := map[string]string{}
			for k, e := range forms {
				c := evalCase{expr: e, d: d, tag: "bexpr"}
				if !c.parse() {
					outs[k] = "NOPARSE"
					continue
				}
				outs[k] = c.obs()
				trees[k] = treeKey(c.ast)
				r.Evaluations++
				r.Model(c.cmd(), outs[k], c.desc())
			}
			r.Seen("kw|" + w + "|" + sel)
			c := map[string]interface{}{"literal": w, "selector": sel, "outcomes": outs}
			if outs["in"] != outs["contains"] || trees["in"] != trees["contains"] {
				r.Violate("contains-is-in:outcome", "kw|"+w+"|"+sel, c, "`"+forms["in"]+"` "+outs["in"]+" but `"+forms["contains"]+"` "+outs["contains"])
			}
			if outs["not in"] != outs["not contains"] || outs["not in"] != flipIfOK(outs["in"]) || outs["not(in)"] != outs["not in"] || outs["not(contains)"] != outs["not contains"] {
				r.Violate("complement:in", "kwneg|"+w+"|"+sel, c, fmt.Sprint(outs))
			}
		}
	}
}

func runC04(r *Run) {
	c04KeywordPrefixed(r)
	c04HugeSubjects(r)
	r.Rule = "(selector, literal, datum) triples from the leaf-aware generator with 25% absent selectors, nil values, non-collection targets and ill-typed literals; for each of the four operator pairs and both in/contains spellings: predicate on the implementation: the negative form returns the negation of the positive form when that is not an error and an error exactly when it is; `S contains v` and `v in S` give equal trees and equal outcomes; `not (positive)` equals the negative form; all forms are also compared with the model; distinct = (pair, outcome of the positive form, leaf kind)"
	n := 2000
	if r.Tier == "thorough" {
		n = 150000
	}
	checkPairs := func(base evalCase, ps, lit, pat, lk string) map[string]string {
		pairs := []struct{ name, pos, neg string }{
			{"eq", ps + " == " + lit, ps + " != " + lit},
			{"in", lit + " in " + ps, lit + " not in " + ps},
			{"contains", ps + " contains " + lit, ps + " not contains " + lit},
			{"empty", ps + " is empty", ps + " is not empty"},
			{"matches", ps + " matches " + pat, ps + " not matches " + pat},
		}
		outs := map[string]string{}
		for _, p := range pairs {
			cp, cn := base, base
			cp.expr, cn.expr = p.pos, p.neg
			if !cp.parse() || !cn.parse() {
				r.Count("generator:unparseable")
				continue
			}
			op, on := cp.obs(), cn.obs()
			outs[p.name] = op
			r.Evaluations += 2
			r.Seen(p.name + "|" + op + "|" + lk)
			r.Count("positive:" + p.name + ":" + op)
			if on != flipIfOK(op) {
				m := cp.desc()
				m["negative_form"] = p.neg
				r.Violate("complement:"+p.name, p.name+"|"+op+"|"+on, m, "positive form "+op+", negative form "+on)
			}
			// not (positive) == negative
			cw := base
			cw.expr = "not ( " + p.pos + " )"
			if cw.parse() {
				ow := cw.obs()
				r.Evaluations++
				if ow != on {
					r.Violate("not-wrapper:"+p.name, "nw|"+p.name+"|"+op, cw.desc(), "not(positive) "+ow+", negative form "+on)
				}
				r.Model(cw.cmd(), ow, cw.desc())
			}
			r.Model(cp.cmd(), op, cp.desc())
			r.Model(cn.cmd(), on, cn.desc())
			if p.name == "contains" {
				ci, cni := base, base
				ci.expr, cni.expr = pairs[1].pos, pairs[1].neg
				if ci.parse() && cni.parse() {
					if treeKey(ci.ast) != treeKey(cp.ast) || treeKey(cni.ast) != treeKey(cn.ast) {
						r.Violate("contains-is-in:tree", "tree|"+ps, cp.desc(), "`S contains v` and `v in S` parse to different trees")
					}
					if outs["in"] != op {
						r.Violate("contains-is-in:outcome", "out|"+outs["in"]+"|"+op, cp.desc(), "in: "+outs["in"]+" contains: "+op)
					}
				}
			}
		}
		return outs
	}
	// fixed triples: literals at float32 rounding midpoints, literals that spell reflect's placeholder for a value, magic words
	{
		f32 := math.Float32frombits(0x3F800001)
		dfix := map[string]interface{}{"F": []float32{f32}, "F1": []float32{1}, "FI": []interface{}{f32, "x"}, "f": f32, "N": 5, "L": []string{"a"}, "S": S1{A: 1}, "P": (*int)(nil), "B": true, "M": map[string]int{"k": 1},
			"struct field": 1, "m": map[string]interface{}{"struct field": map[string]interface{}{"tags": map[string]interface{}{}}, "not found": 1, "key": 2}}
		for _, t := range [][2]string{{"F", `"1.00000005960464477539062500001"`}, {"F1", `"1.00000005960464477539062500001"`}, {"FI", `"1.00000005960464477539062500001"`}, {"f", `"1.00000005960464477539062500001"`}, {"F", "1.0000001"}, {"f", `"16777217"`},
			{"N", `"<int Value>"`}, {"L", `"<[]string Value>"`}, {"S", `"<main.S1 Value>"`}, {"P", `"<invalid Value>"`}, {"P", `"<*int Value>"`}, {"B", `"<bool Value>"`}, {"M", `"<map[string]int Value>"`}, {"zz", `"<invalid Value>"`}, {"m.zz", `"<invalid Value>"`},
			{`m["struct field"].tags.nope`, "1"}, {`m["struct field"].zz`, "1"}, {`m["not found"]`, "1"}, {`m.key.zz`, "1"}, {`"/struct field"`, "1"}, {`m["struct field"]`, `"struct field"`}} {
			checkPairs(evalCase{d: dfix, tag: "bexpr"}, t[0], t[1], "`^1`", "fixed")
			checkPairs(evalCase{d: dfix, tag: "bexpr", unkSet: true, unk: "u"}, t[0], t[1], "`Value>$`", "fixed")
		}
	}
	for i := 0; i < n; i++ {
		rng = NewRng(mix(r.Seed, strHash("C04"), uint64(i)))
		d := genDatum()
		base := evalCase{d: d}
		genOptions(&base)
		absentPct = 25
		ps, lit, pat, leaf := genSelLitP(d, base.tag, "", reflect.Value{})
		lk := "absent"
		if leaf.IsValid() {
			lk = leaf.Kind().String()
		}
		outs := checkPairs(base, ps, lit, pat, lk)
		if i%300 == 0 {
			r.Sample(map[string]interface{}{"selector": ps, "literal": lit, "datum": describe(d), "outcomes_of_positive_forms": outs})
		}
	}
}

// parenIfNeeded parenthesises an operand unless it is a single match expression.
func parenIfNeeded(e string) string {
	if t, ok := parseTree(e); ok {
		if _, isMatch := t.(*grammar.MatchExpression); isMatch && !strings.HasPrefix(strings.TrimSpace(e), "(") {
			return e
		}
	}
	return "( " + e + " )"
}

// genNestedQuant: a document of groups with members and tags (lists of 0..13 elements, maps), and a quantified
// expression nested 2-3 deep whose inner binders re-use outer names, whose inner collections hang off outer bindings,
// and whose bodies use the bindings after an inner brace has closed.
func genNestedQuant() (interface{}, string) {
	names := []string{"bob", "al", "eve", "x", ""}
	mkList := func(n int) []interface{} {
		var l []interface{}
		for j := 0; j < n; j++ {
			l = append(l, pick(rng, names))
		}
		return l
	}
	var groups []interface{}
	ng := 1 + rng.Intn(3)
	if rng.Pct(15) {
		ng = 11 + rng.Intn(3)
	}
	for j := 0; j < ng; j++ {
		nm := rng.Intn(4)
		if rng.Pct(10) {
			nm = 11 + rng.Intn(3)
		}
		groups = append(groups, map[string]interface{}{"Members": mkList(nm), "Name": pick(rng, names), "N": j, "Sub": map[string]interface{}{"Tags": mkList(rng.Intn(3))}})
	}
	d := map[string]interface{}{"Groups": groups, "Tags": mkList(1 + rng.Intn(3)), "g": pick(rng, names), "m": mkList(2), "Items": []int{3, 1, 2}, "ByName": map[string]interface{}{"a": mkList(2), "b": mkList(1)}}
	q := func() string { return pick(rng, []string{"any", "all"}) }
	lit := func() string { return pick(rng, []string{"bob", "al", `""`, "x", "zz"}) }
	outer := pick(rng, []string{"g", "x", "Groups", "m"})
	inner := pick(rng, []string{outer, outer, "m", "g", "y"})
	bind2 := func(n string) string {
		switch rng.Intn(4) {
		case 0:
			return n
		case 1:
			return "i, " + n
		case 2:
			return "_, " + n
		default:
			return n + ", " + n + "2"
		}
	}
	ib := bind2(inner)
	iv := inner
	if strings.Contains(ib, ", "+inner+"2") {
		iv = inner + "2"
	}
	leaf := func(v string) string {
		switch rng.Intn(5) {
		case 0:
			return v + " == " + lit()
		case 1:
			return v + " != " + lit()
		case 2:
			return v + " is empty"
		case 3:
			return lit() + " in " + v
		default:
			return v + " matches `^b`"
		}
	}
	var e string
	switch rng.Intn(6) {
	case 0:
		e = fmt.Sprintf("%s Groups as %s { %s %s.Members as %s { %s } }", q(), outer, q(), outer, ib, leaf(iv))
	case 1:
		e = fmt.Sprintf("%s Groups as %s { ( %s %s.Members as %s { %s } ) and %s.Name != zz }", q(), outer, q(), outer, ib, leaf(iv), outer)
	case 2:
		e = fmt.Sprintf("%s Groups as %s { %s %s.Members as %s { %s Tags as %s { %s or %s } } }", q(), outer, q(), outer, ib, q(), outer, leaf(outer), leaf(iv))
	case 3:
		e = fmt.Sprintf("%s Groups as %s { %s %s.Sub.Tags as %s { %s } or %s.N == 0 }", q(), outer, q(), outer, ib, leaf(iv), outer)
	case 4:
		e = fmt.Sprintf("%s ByName as k, %s { %s %s as %s { %s } }", q(), outer, q(), outer, ib, leaf(iv))
	default:
		e = fmt.Sprintf("%s Items as Items, v { v == 3 } or %s Groups as %s { %s.Members.10 == bob or ( %s %s.Members as %s { %s } ) }", q(), q(), outer, outer, q(), outer, ib, leaf(iv))
	}
	return d, e
}

// genNestedQuantOn: a two-level quantified expression over whatever collections the JSON document has under "items" / "m".
func genNestedQuantOn(d interface{}) (interface{}, string) {
	q := func() string { return pick(rng, []string{"any", "all"}) }
	outer := pick(rng, []string{"items", "m", "a"})
	bind := pick(rng, []string{"x", "i, x", "_, x", "k, x"})
	inner := pick(rng, []string{"x", "x.tags", "x.items", "x.a"})
	leaf := pick(rng, []string{"y == a", "y != 1", "y is empty", "1 in y", "y.k == b", "y matches `^a`", "x.n == 1 or y == foo"})
	return d, fmt.Sprintf("%s %s as %s { %s %s as y { %s } }", q(), outer, bind, q(), inner, leaf)
}
