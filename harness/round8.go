package main

import (
	"fmt"
	"strings"

	bexpr "github.com/hashicorp/go-bexpr"
)

// Families added after the thirteenth round of seeded changes ("two cooperating sites", "a particular history", "a boundary input").

// ---------- C05: one evaluator, documents of ONE Go type that differ in where the selector goes absent ----------
// Whether a selector is "absent at the leaf of a map" is a fact about the datum, not about its Go type: an evaluator that has
// seen a leaf-absent document must still report an absent intermediate key, a step into a scalar or an absent struct field as an
// error on the next document (and the other way round), with and without an unknown value.

type r8Inner struct{ B string }

func c05OneEvaluatorManyDocuments(r *Run) {
	type doc struct {
		name string
		d    map[string]interface{}
	}
	docs := []doc{
		{"leaf-absent", map[string]interface{}{"a": map[string]interface{}{"b": "1"}, "l": []interface{}{map[string]interface{}{"b": "1"}}}},
		{"intermediate-absent", map[string]interface{}{"x": map[string]interface{}{"c": "1"}, "l": []interface{}{map[string]interface{}{"b": "1"}, 5}}},
		{"present", map[string]interface{}{"a": map[string]interface{}{"c": "1"}, "l": []interface{}{map[string]interface{}{"c": "1"}}}},
		{"present-other", map[string]interface{}{"a": map[string]interface{}{"c": []interface{}{"2"}}, "l": []interface{}{}}},
		{"parent-scalar", map[string]interface{}{"a": 5, "l": []interface{}{5}}},
		{"parent-list", map[string]interface{}{"a": []interface{}{"1"}, "l": []interface{}{[]interface{}{"1"}}}},
		{"parent-struct", map[string]interface{}{"a": r8Inner{B: "1"}, "l": []interface{}{r8Inner{B: "1"}}}},
		{"parent-nil", map[string]interface{}{"a": nil, "l": nil}},
		{"parent-typed-map", map[string]interface{}{"a": map[string]int{"b": 1}, "l": []map[string]int{{"b": 1}}}},
		{"leaf-absent-deeper", map[string]interface{}{"a": map[string]interface{}{"c": map[string]interface{}{}}, "l": []interface{}{map[string]interface{}{"c": map[string]interface{}{}}}}},
	}
	exprs := []string{
		`a.c == "1"`, `a.c != "1"`, `a.c is empty`, `a.c is not empty`, `"1" in a.c`, `"1" not in a.c`, `a.c matches "1"`, `a.c not matches "1"`,
		`all a.c as x { x == "1" }`, `any a.c as x { x == "1" }`, `a.c.d != "1"`, `a.c.d is empty`, `"/a/c" == "1"`, `a["c"] != "1"`,
		`any l as e { e.c != "1" }`, `all l as e { e.c == "1" }`, `all l as e { e.c is empty }`, `a.c != "1" or a.b == "1"`, `not a.c == "1"`,
	}
	optSets := []struct {
		name string
		mk   func() []bexpr.Option
	}{
		{"none", func() []bexpr.Option { return nil }},
		{"unknown", func() []bexpr.Option { return []bexpr.Option{bexpr.WithUnknownValue("1")} }},
	}
	for _, e := range exprs {
		for _, os := range optSets {
			fresh := make([]string, len(docs))
			for j, dj := range docs {
				fresh[j] = exprObs(e, dj.d, os.mk()...)
				r.Evaluations++
			}
			for i, di := range docs {
				for j, dj := range docs {
					if i == j {
						continue
					}
					ev, err := bexpr.CreateEvaluator(e, os.mk()...)
					if err != nil {
						r.Violate("fixed-case-unparseable", e, map[string]interface{}{"expression": e}, err.Error())
						continue
					}
					first := evalObs(ev, di.d)
					second := evalObs(ev, dj.d)
					r.Evaluations += 2
					r.Seen(fmt.Sprintf("one-evaluator|%s|%s|%s>%s|%s", e, os.name, di.name, dj.name, second))
					if first != fresh[i] || second != fresh[j] {
						r.Violate("absence-depends-on-earlier-documents", fmt.Sprintf("one-evaluator|%s|%s|%s>%s", e, os.name, di.name, dj.name),
							map[string]interface{}{"expression": e, "options": os.name, "first_datum": describe(di.d), "datum": describe(dj.d)},
							fmt.Sprintf("one evaluator, first document (%s) %s [fresh evaluator: %s], then document (%s) %s [fresh evaluator: %s]", di.name, first, fresh[i], dj.name, second, fresh[j]))
					}
				}
			}
		}
	}
}

// ---------- C08: every operator applied to CONTAINERS of rows whose visible fields are all zero ----------
// Arrays, pointers to arrays, nested arrays, slices and maps of structs: whatever is asked of the container itself (emptiness,
// membership, equality, a pattern, a fold over it) is a question about its length and its visible contents; two containers whose
// rows differ only in hidden and unexported fields answer alike - as Evaluate outcomes, as error texts and as Filter selections.

type r8Holder struct {
	A   [2]HidRow
	PA  *[2]HidRow
	AA  [2][1]HidRow
	S   []HidRow
	M   map[string]HidRow
	AI  [2]interface{}
	AP  [2]*HidRow
	One [1]HidRow
	Z   [0]HidRow
}

func r8mk(hidden bool) r8Holder {
	row := func(i int) HidRow {
		if !hidden {
			return HidRow{}
		}
		return HidRow{Meta: i + 1, origin: []int{i}}
	}
	pa := [2]HidRow{row(0), row(1)}
	p0, p1 := row(4), row(5)
	return r8Holder{A: [2]HidRow{row(0), row(1)}, PA: &pa, AA: [2][1]HidRow{{row(2)}, {row(3)}}, S: []HidRow{row(0), row(1)}, M: map[string]HidRow{"a": row(0), "b": row(1)},
		AI: [2]interface{}{row(0), row(1)}, AP: [2]*HidRow{&p0, &p1}, One: [1]HidRow{row(6)}}
}

func c08ContainersOfBlankRows(r *Run) {
	sels := []string{"A", "PA", "AA", "AA.0", "S", "M", "AI", "AP", "One", "Z", "A.0", "M.a", "AP.1"}
	forms := []string{"%s is empty", "%s is not empty", "1 in %s", `"" in %s`, "%s == 0", `%s != ""`, "%s matches `^$`", "any %s as x { x is empty }", "all %s as x { x.Port == 0 }",
		"all %s as i, x { x.Service is empty }", "not %s is empty", "%s is empty or Z is not empty"}
	a, b := r8mk(false), r8mk(true)
	for _, wrap := range []string{"value", "pointer", "map"} {
		var da, db interface{} = a, b
		pre := ""
		switch wrap {
		case "pointer":
			da, db = &a, &b
		case "map":
			da, db = map[string]interface{}{"h": a}, map[string]interface{}{"h": b}
			pre = "h."
		}
		for _, s := range sels {
			for _, f := range forms {
				e := fmt.Sprintf(f, pre+s)
				if f == "%s is empty or Z is not empty" {
					e = fmt.Sprintf("%s is empty or %sZ is not empty", pre+s, pre)
				}
				c1 := evalCase{expr: e, d: da, tag: "bexpr"}
				if !c1.parse() {
					r.Count("generator:unparseable")
					continue
				}
				c2 := c1
				c2.d = db
				o1, o2 := c1.obs(), c2.obs()
				r.Evaluations += 2
				r.Seen("blank-containers|" + wrap + "|" + e + "|" + o1)
				if o1 != o2 {
					m := c1.desc()
					m["datum_b"] = "the same holder with the hidden and unexported fields of every row set"
					r.Violate("hidden-field-observable", "blank-containers|"+wrap+"|"+e, m, "rows with hidden fields unset: "+o1+"; set: "+o2)
				} else if t1, t2 := rawOutcome(&c1), rawOutcome(&c2); t1 != t2 && wrap != "pointer" {
					m := c1.desc()
					m["datum_b"] = "the same holder with the hidden and unexported fields of every row set"
					r.Violate("hidden-field-in-error-text", "blank-containers|"+wrap+"|"+e, m, truncate(t1, 200)+" vs "+truncate(t2, 200))
				}
			}
		}
	}
	// Filter selections over containers of holders
	for _, s := range sels {
		for _, f := range forms[:7] {
			flt, err := bexpr.CreateFilter(fmt.Sprintf(f, s))
			if err != nil || flt == nil {
				continue
			}
			ka, kb := filterKept(flt, []r8Holder{a, a}), filterKept(flt, []r8Holder{b, b})
			r.Evaluations += 2
			r.Seen("blank-containers-filter|" + s + "|" + f + "|" + ka)
			if ka != kb {
				r.Violate("hidden-field-changes-filter", "blank-containers-filter|"+s+"|"+f, map[string]interface{}{"expression": fmt.Sprintf(f, s), "datum": describe([]r8Holder{a, a}), "datum_b": "the same holders with hidden fields set"}, ka+" vs "+kb)
			}
		}
	}
}

// ---------- C18: an unknown value is neutral when every selector resolves - also when it resolves to nil, to a zero value or to an empty container ----------

type r8Nils struct {
	I  interface{}
	P  *int
	PS *string
	S  []string
	M  map[string]int
	IS []interface{}
	E  string
	Z  int
	F  bool
	N  *r8Inner
}

func c18UnknownNeutralOnBlankLeaves(r *Run) {
	docs := []struct {
		name string
		d    interface{}
		sels []string
	}{
		{"map-of-nils", map[string]interface{}{"I": nil, "P": (*int)(nil), "S": []string(nil), "M": map[string]int(nil), "IS": []interface{}{nil}, "E": "", "Z": 0, "F": false, "N": (*r8Inner)(nil), "in": map[string]interface{}{"x": nil}},
			[]string{"I", "P", "S", "M", "IS", "IS.0", "E", "Z", "F", "N", "in.x", `"/in/x"`}},
		{"struct-of-nils", r8Nils{IS: []interface{}{nil}}, []string{"I", "P", "PS", "S", "M", "IS", "IS.0", "E", "Z", "F", "N"}},
		{"pointer-to-struct-of-nils", &r8Nils{IS: []interface{}{nil, nil}}, []string{"I", "P", "S", "IS.1", "N"}},
	}
	forms := []string{`%s == "web"`, `%s != "web"`, "%s == 0", "%s is empty", "%s is not empty", `"web" in %s`, `"web" not in %s`, "%s matches `w`", "%s not matches `w`",
		"any %s as v { v == 1 }", "all %s as v { v == 1 }", `not %s == "web"`, `%s == "web" or %s is empty`}
	unknowns := []interface{}{"web", 0, nil, []string{"web"}, map[string]int{"web": 1}, true, ""}
	for _, dc := range docs {
		for _, s := range dc.sels {
			for _, f := range forms {
				e := strings.ReplaceAll(f, "%s", s)
				base := exprObs(e, dc.d)
				r.Evaluations++
				if base == "NOCREATE" {
					continue
				}
				for ui, u := range unknowns {
					o := exprObs(e, dc.d, bexpr.WithUnknownValue(u))
					r.Evaluations++
					r.Seen(fmt.Sprintf("unknown-neutral-blank|%s|%s|%d|%s", dc.name, e, ui, o))
					if o != base {
						r.Violate("neutral-setting", fmt.Sprintf("unknown-on-blank-leaf|%s|%s|%d", dc.name, e, ui), map[string]interface{}{"expression": e, "datum": describe(dc.d), "unknown_value": describe(u)},
							"every selector resolves (to nil, a zero value or an empty container): without an unknown value "+base+", with it "+o)
					}
				}
			}
		}
	}
}
