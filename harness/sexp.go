package main

import (
	"encoding/hex"
	"fmt"
	"math"
	"reflect"
	"sort"
	"strings"

	"github.com/hashicorp/go-bexpr/grammar"
)

var tagKeys = []string{"bexpr", "alt", "pointer", "json", "Filter", "filter"}

var mops = []string{"OpEq", "OpNeq", "OpIn", "OpNotIn", "OpIsEmpty", "OpIsNotEmpty", "OpMatches", "OpNotMatches"}

// S-expression serialisation for the OCaml driver. Byte strings are h:<hex>.
func hx(s string) string { return "h:" + hex.EncodeToString([]byte(s)) }

var sexpTypeDefs []string
var sexpTypeNames = map[reflect.Type]string{}

func sType(t reflect.Type) string {
	if n, ok := sexpTypeNames[t]; ok {
		return "(TRef " + n + ")"
	}
	named := t.Name() != "" && t.PkgPath() != ""
	if named && t.Kind() != reflect.Struct {
		return fmt.Sprintf("(TNamed %s %s)", hx(t.PkgPath()[strings.LastIndex(t.PkgPath(), "/")+1:]+"."+t.Name()), sKind(t))
	}
	return sKind(t)
}

func sKind(t reflect.Type) string {
	switch t.Kind() {
	case reflect.Bool:
		return "TBool"
	case reflect.Int:
		return "(TInt I0)"
	case reflect.Int8:
		return "(TInt I8)"
	case reflect.Int16:
		return "(TInt I16)"
	case reflect.Int32:
		return "(TInt I32)"
	case reflect.Int64:
		return "(TInt I64)"
	case reflect.Uint:
		return "(TUint U0)"
	case reflect.Uint8:
		return "(TUint U8)"
	case reflect.Uint16:
		return "(TUint U16)"
	case reflect.Uint32:
		return "(TUint U32)"
	case reflect.Uint64:
		return "(TUint U64)"
	case reflect.Uintptr:
		return "TUintptr"
	case reflect.Float32:
		return "TF32"
	case reflect.Float64:
		return "TF64"
	case reflect.String:
		return "TString"
	case reflect.Complex64, reflect.Complex128:
		return "TComplex"
	case reflect.Chan:
		return "TChan"
	case reflect.Func:
		return "TFunc"
	case reflect.UnsafePointer:
		return "TUnsafe"
	case reflect.Ptr:
		return "(TPtr " + sType(t.Elem()) + ")"
	case reflect.Interface:
		return "TIface"
	case reflect.Slice:
		return "(TSlice " + sType(t.Elem()) + ")"
	case reflect.Array:
		return fmt.Sprintf("(TArray %d %s)", t.Len(), sType(t.Elem()))
	case reflect.Map:
		return "(TMap " + sType(t.Key()) + " " + sType(t.Elem()) + ")"
	case reflect.Struct:
		name := "ty_" + t.Name()
		var fs []string
		for i := 0; i < t.NumField(); i++ {
			f := t.Field(i)
			var tags []string
			for _, k := range tagKeys {
				if v, ok := f.Tag.Lookup(k); ok {
					tags = append(tags, fmt.Sprintf("(%s %s)", hx(k), hx(v)))
				}
			}
			fs = append(fs, fmt.Sprintf("(FD %s %v (%s) %s)", hx(f.Name), f.PkgPath == "", strings.Join(tags, " "), sType(f.Type)))
		}
		sexpTypeDefs = append(sexpTypeDefs, fmt.Sprintf("(deftype %s (TStruct %s (%s)))", name, hx(t.Name()), strings.Join(fs, " ")))
		sexpTypeNames[t] = name
		return "(TRef " + name + ")"
	}
	panic("type " + t.String())
}

func sVal(v reflect.Value) string {
	switch v.Kind() {
	case reflect.Bool:
		return fmt.Sprintf("(VBool %v)", v.Bool())
	case reflect.Int, reflect.Int8, reflect.Int16, reflect.Int32, reflect.Int64:
		return fmt.Sprintf("(VInt %d)", v.Int())
	case reflect.Uint, reflect.Uint8, reflect.Uint16, reflect.Uint32, reflect.Uint64, reflect.Uintptr:
		return fmt.Sprintf("(VUint %d)", v.Uint())
	case reflect.Float32:
		return fmt.Sprintf("(VF32 %d)", math.Float32bits(float32(v.Float())))
	case reflect.Float64:
		return fmt.Sprintf("(VF64 %d)", math.Float64bits(v.Float()))
	case reflect.String:
		return "(VStr " + hx(v.String()) + ")"
	case reflect.Complex64, reflect.Complex128, reflect.Chan, reflect.Func, reflect.UnsafePointer:
		return "VOpaque"
	case reflect.Ptr:
		if v.IsNil() {
			return "VNilPtr"
		}
		return "(VPtr " + sVal(v.Elem()) + ")"
	case reflect.Interface:
		if v.IsNil() {
			return "VNilIface"
		}
		return "(VIface " + sType(v.Elem().Type()) + " " + sVal(v.Elem()) + ")"
	case reflect.Slice:
		var p []string
		for i := 0; i < v.Len(); i++ {
			p = append(p, sVal(v.Index(i)))
		}
		return fmt.Sprintf("(VSlice %v (%s))", v.IsNil(), strings.Join(p, " "))
	case reflect.Array:
		var p []string
		for i := 0; i < v.Len(); i++ {
			p = append(p, sVal(v.Index(i)))
		}
		return fmt.Sprintf("(VArray (%s))", strings.Join(p, " "))
	case reflect.Map:
		type kv struct{ k, v reflect.Value }
		var kvs []kv
		for it := v.MapRange(); it.Next(); {
			kvs = append(kvs, kv{it.Key(), it.Value()})
		}
		var p []string
		texts := map[string]string{}
		for _, e := range kvs {
			s := "(" + sVal(e.k) + " " + sVal(e.v) + ")"
			texts[s] = keyText(e.k)
			p = append(p, s)
		}
		// total order: by key text, ties (NaN keys, 1 vs "1" under interface keys) by the serialised entry
		sort.Slice(p, func(i, j int) bool {
			if texts[p[i]] != texts[p[j]] {
				return texts[p[i]] < texts[p[j]]
			}
			return p[i] < p[j]
		})
		return fmt.Sprintf("(VMap %v (%s))", v.IsNil(), strings.Join(p, " "))
	case reflect.Struct:
		var p []string
		for i := 0; i < v.NumField(); i++ {
			p = append(p, sVal(v.Field(i)))
		}
		return "(VStruct (" + strings.Join(p, " ") + "))"
	}
	panic("val " + v.Kind().String())
}

func sIface(x interface{}) string {
	if x == nil {
		return "none"
	}
	v := reflect.ValueOf(x)
	return "(some " + sType(v.Type()) + " " + sVal(v) + ")"
}

func sSel(s grammar.Selector) string {
	t := "SelBexpr"
	if s.Type == grammar.SelectorTypeJsonPointer {
		t = "SelJsonPtr"
	}
	var p []string
	for _, x := range s.Path {
		p = append(p, hx(x))
	}
	return fmt.Sprintf("(sel %s (%s))", t, strings.Join(p, " "))
}

func sExpr(e grammar.Expression, pats *[]string) string {
	switch n := e.(type) {
	case *grammar.UnaryExpression:
		return "(ENot " + sExpr(n.Operand, pats) + ")"
	case *grammar.BinaryExpression:
		op := "BAnd"
		if n.Operator == grammar.BinaryOpOr {
			op = "BOr"
		}
		return fmt.Sprintf("(EBin %s %s %s)", op, sExpr(n.Left, pats), sExpr(n.Right, pats))
	case *grammar.MatchExpression:
		v := "none"
		if n.Value != nil {
			v = "(some " + hx(n.Value.Raw) + ")"
			if n.Operator == grammar.MatchMatches || n.Operator == grammar.MatchNotMatches {
				*pats = append(*pats, n.Value.Raw)
			}
		}
		return fmt.Sprintf("(EMatch %s %s %s)", sSel(n.Selector), mops[n.Operator], v)
	case *grammar.CollectionExpression:
		op := "CAll"
		if n.Op == grammar.CollectionOpAny {
			op = "CAny"
		}
		m := map[grammar.CollectionBindMode]string{grammar.CollectionBindDefault: "BDefault", grammar.CollectionBindIndex: "BIndex", grammar.CollectionBindValue: "BValue", grammar.CollectionBindIndexAndValue: "BIndexAndValue"}[n.NameBinding.Mode]
		return fmt.Sprintf("(EColl %s %s (bind %s %s %s %s) %s)", op, sSel(n.Selector), m, hx(n.NameBinding.Default), hx(n.NameBinding.Index), hx(n.NameBinding.Value), sExpr(n.Inner, pats))
	}
	panic("node")
}

// cType prints a type the way the OCaml driver prints model types (struct types by name only).
func cType(t reflect.Type) string {
	named := t.Name() != "" && t.PkgPath() != ""
	if named && t.Kind() != reflect.Struct {
		return fmt.Sprintf("(TNamed %s %s)", hx(t.PkgPath()[strings.LastIndex(t.PkgPath(), "/")+1:]+"."+t.Name()), cKind(t))
	}
	return cKind(t)
}

func cKind(t reflect.Type) string {
	switch t.Kind() {
	case reflect.Ptr:
		return "(TPtr " + cType(t.Elem()) + ")"
	case reflect.Slice:
		return "(TSlice " + cType(t.Elem()) + ")"
	case reflect.Array:
		return fmt.Sprintf("(TArray %d %s)", t.Len(), cType(t.Elem()))
	case reflect.Map:
		return "(TMap " + cType(t.Key()) + " " + cType(t.Elem()) + ")"
	case reflect.Struct:
		return "(TStructNamed " + hx(t.Name()) + ")"
	}
	return sKind(t)
}

// cVal prints a value in the driver's canonical output form; it differs from sVal only in the
// types written inside interface values.
func cVal(v reflect.Value) string {
	switch v.Kind() {
	case reflect.Ptr:
		if v.IsNil() {
			return "VNilPtr"
		}
		return "(VPtr " + cVal(v.Elem()) + ")"
	case reflect.Interface:
		if v.IsNil() {
			return "VNilIface"
		}
		return "(VIface " + cType(v.Elem().Type()) + " " + cVal(v.Elem()) + ")"
	case reflect.Slice:
		var p []string
		for i := 0; i < v.Len(); i++ {
			p = append(p, cVal(v.Index(i)))
		}
		return fmt.Sprintf("(VSlice %v (%s))", v.IsNil(), strings.Join(p, " "))
	case reflect.Array:
		var p []string
		for i := 0; i < v.Len(); i++ {
			p = append(p, cVal(v.Index(i)))
		}
		return fmt.Sprintf("(VArray (%s))", strings.Join(p, " "))
	case reflect.Map:
		type kv struct{ k, v reflect.Value }
		var kvs []kv
		for it := v.MapRange(); it.Next(); {
			kvs = append(kvs, kv{it.Key(), it.Value()})
		}
		var p []string
		texts := map[string]string{}
		for _, e := range kvs {
			s := "(" + cVal(e.k) + " " + cVal(e.v) + ")"
			texts[s] = keyText(e.k)
			p = append(p, s)
		}
		sort.Slice(p, func(i, j int) bool {
			if texts[p[i]] != texts[p[j]] {
				return texts[p[i]] < texts[p[j]]
			}
			return p[i] < p[j]
		})
		return fmt.Sprintf("(VMap %v (%s))", v.IsNil(), strings.Join(p, " "))
	case reflect.Struct:
		var p []string
		for i := 0; i < v.NumField(); i++ {
			p = append(p, cVal(v.Field(i)))
		}
		return "(VStruct (" + strings.Join(p, " ") + "))"
	}
	return sVal(v)
}
