// dyntables prints, as Coq definitions in the format of tools/gotables, the tables of the exported operator methods of
// grammar/ast.go obtained by CALLING them on every declared constant and on values outside the declared range. It is the
// fallback of the static translator for these tables: when String / NotPresentDisposition are no longer switches that can
// be read (a lookup table, a helper), what they compute is still what the statements are about.
package main

import (
	"fmt"
	"strings"

	"github.com/hashicorp/go-bexpr/grammar"
)

func cs(s string) string { return `"` + strings.ReplaceAll(s, `"`, `""`) + `"` }

func emit(name string, rows [][2]string) {
	fmt.Printf("Definition %s : list (string * string) := [\n", name)
	for i, r := range rows {
		sep := ";"
		if i == len(rows)-1 {
			sep = ""
		}
		fmt.Printf("  (%s, %s)%s\n", cs(r[0]), cs(r[1]), sep)
	}
	fmt.Println("].")
}

// the answer for values that are not declared constants must be one and the same
func def(vals []string) string {
	for _, v := range vals[1:] {
		if v != vals[0] {
			return "<values outside the declared range are not treated alike: " + strings.Join(vals, " / ") + ">"
		}
	}
	return vals[0]
}

func main() {
	emit("go_string_UnaryOperator", [][2]string{
		{"UnaryOpNot", grammar.UnaryOpNot.String()},
		{"default", def([]string{grammar.UnaryOperator(1).String(), grammar.UnaryOperator(-1).String(), grammar.UnaryOperator(1 << 40).String(), grammar.UnaryOperator(-1 << 40).String()})},
	})
	emit("go_string_BinaryOperator", [][2]string{
		{"BinaryOpAnd", grammar.BinaryOpAnd.String()}, {"BinaryOpOr", grammar.BinaryOpOr.String()},
		{"default", def([]string{grammar.BinaryOperator(2).String(), grammar.BinaryOperator(-1).String(), grammar.BinaryOperator(1 << 40).String(), grammar.BinaryOperator(-1 << 40).String()})},
	})
	ops := []struct {
		n string
		o grammar.MatchOperator
	}{{"MatchEqual", grammar.MatchEqual}, {"MatchNotEqual", grammar.MatchNotEqual}, {"MatchIn", grammar.MatchIn}, {"MatchNotIn", grammar.MatchNotIn},
		{"MatchIsEmpty", grammar.MatchIsEmpty}, {"MatchIsNotEmpty", grammar.MatchIsNotEmpty}, {"MatchMatches", grammar.MatchMatches}, {"MatchNotMatches", grammar.MatchNotMatches}}
	var names, np [][2]string
	for _, o := range ops {
		names = append(names, [2]string{o.n, o.o.String()})
		np = append(np, [2]string{o.n, fmt.Sprint(o.o.NotPresentDisposition())})
	}
	out := []grammar.MatchOperator{8, 9, -1, 100, 1 << 40, -1 << 40}
	var dn, dp []string
	for _, o := range out {
		dn = append(dn, o.String())
		dp = append(dp, fmt.Sprint(o.NotPresentDisposition()))
	}
	emit("go_string_MatchOperator", append(names, [2]string{"default", def(dn)}))
	emit("go_not_present", append(np, [2]string{"default", def(dp)}))
}
