package main

import (
	"fmt"
	"os"
	"reflect"
	"regexp"
	"sort"
	"strings"
	"sync/atomic"
	"time"

	bexpr "github.com/hashicorp/go-bexpr"
	"github.com/hashicorp/go-bexpr/grammar"
)

// Observables of the implementation, in the canonical text the model driver prints.

// obsOutcome turns Go's (bool, error) into T / F / E / X ((true, err): the shape the documentation excludes).
func obsOutcome(b bool, err error) string {
	switch {
	case err == nil && b:
		return "T"
	case err == nil:
		return "F"
	case b:
		return "X"
	default:
		return "E"
	}
}

// evalObs runs Evaluate under recover; P = panic.
func evalObs(ev *bexpr.Evaluator, d interface{}) (o string) {
	enter("Evaluate", ev.Expression(), d)
	defer leave()
	defer func() {
		if r := recover(); r != nil {
			o = "P"
		}
	}()
	b, err := ev.Evaluate(d)
	return obsOutcome(b, err)
}

var obsCalls int64

// texts whose syntax tree changed when the buffer handed to Parse was overwritten afterwards
var bufferAliasing []string

// exprObs creates an evaluator and evaluates it once: NOCREATE if the text does not parse.
func exprObs(expr string, d interface{}, opts ...bexpr.Option) (o string) {
	defer func() {
		if r := recover(); r != nil {
			o = "P"
		}
	}()
	// every so often, unrelated evaluations that FAIL inside quantifier bodies run first: whatever an error path leaves behind
	// in state shared between evaluators (pools, caches) then shows in this stream's comparison, whichever property it belongs to
	if atomic.AddInt64(&obsCalls, 1)%97 == 0 {
		poison()
	}
	// the option list is the caller's: it is handed over in a slice with spare capacity and overwritten once the evaluator exists
	mine := make([]bexpr.Option, len(opts), len(opts)+4)
	copy(mine, opts)
	enter("CreateEvaluator", expr, nil)
	ev, err := bexpr.CreateEvaluator(expr, mine...)
	leave()
	if err != nil {
		return "NOCREATE"
	}
	for i := range mine {
		mine[i] = bexpr.WithTagName("scribbled-after-creation")
	}
	mine = append(mine, bexpr.WithUnknownValue("scribbled"), bexpr.WithTagName("scribbled-after-creation"))
	o = evalObs(ev, d)
	// generic guard against state carried between calls or between evaluators of one text (caches, memos, pools):
	// the same evaluator asked again, and a second evaluator for the same text, must answer the same
	if o2 := evalObs(ev, d); o2 != o {
		return "UNSTABLE(second call on the same evaluator: " + o + " then " + o2 + ")"
	}
	if ev2, err2 := bexpr.CreateEvaluator(expr, opts...); err2 != nil {
		return "UNSTABLE(the second CreateEvaluator for the same text failed)"
	} else if o3 := evalObs(ev2, d); o3 != o {
		return "UNSTABLE(second evaluator for the same text: " + o + " then " + o3 + ")"
	}
	return o
}

func parseTree(expr string) (grammar.Expression, bool) {
	buf := []byte(expr)
	ast, err := grammar.Parse("", buf)
	if err != nil || ast == nil {
		return nil, false
	}
	e, ok := ast.(grammar.Expression)
	if ok && e != nil {
		var p1, p2 []string
		before := sExpr(e, &p1)
		for i := range buf { // the buffer is the caller's to re-use
			buf[i] = 'Z'
		}
		if after := sExpr(e, &p2); after != before && len(bufferAliasing) < 5 {
			bufferAliasing = append(bufferAliasing, expr)
			e2, _ := grammar.Parse("", []byte(expr)) // continue with an intact tree
			if ee, ok2 := e2.(grammar.Expression); ok2 {
				return ee, true
			}
		}
	}
	return e, ok
}

// parseObs is the canonical observation of grammar.Parse: "A <steps> <tree>" or "R <steps> <maxflag>".
func parseObs(b []byte, budget uint64) (o string) {
	enter("Parse", string(b), budget)
	defer leave()
	defer func() {
		if r := recover(); r != nil {
			o = "PANIC"
		}
	}()
	var opts []grammar.Option
	if budget != 0 {
		opts = append(opts, grammar.MaxExpressions(budget))
	}
	ast, err, n := grammar.VerifParse("", b, opts...)
	if err == nil {
		e, ok := ast.(grammar.Expression)
		if !ok || e == nil {
			return fmt.Sprintf("A %d NOTEXPR", n)
		}
		var pats []string
		tree := sExpr(e, &pats)
		// the caller re-uses its buffer: the tree it was given must not change
		for i := range b {
			b[i] = 'Z'
		}
		var pats2 []string
		if again := sExpr(e, &pats2); again != tree {
			return fmt.Sprintf("A %d TREE-ALIASES-THE-INPUT-BUFFER %s", n, again)
		}
		return fmt.Sprintf("A %d %s", n, tree)
	}
	mx := 0
	if strings.Contains(err.Error(), "max number of expresssions parsed") {
		mx = 1
	}
	return fmt.Sprintf("R %d %d", n, mx)
}

// ---- watchdog: a call into the library that does not return is a violation with the call as its failing input ----

type inFlight struct {
	what, text string
	arg        interface{}
}

var (
	current  atomic.Value // *inFlight of the most recent call that has not returned
	progress int64
)

func enter(what, text string, arg interface{}) { current.Store(&inFlight{what, text, arg}) }
func leave()                                   { atomic.AddInt64(&progress, 1); current.Store((*inFlight)(nil)) }

// watch ends the run when no call into the library returned for `limit`, reporting the call in flight.
func watch(r *Run, limit time.Duration) {
	go func() {
		last, since := int64(-1), time.Now()
		for {
			time.Sleep(time.Second)
			p := atomic.LoadInt64(&progress)
			c, _ := current.Load().(*inFlight)
			if p != last || c == nil {
				last, since = p, time.Now()
				continue
			}
			if time.Since(since) > limit {
				r.Violate("does-not-return", "hang:"+c.what+":"+truncate(c.text, 80), map[string]interface{}{"call": c.what, "expression_or_input": c.text, "input_hex": hx(c.text), "argument": describe(c.arg)},
					fmt.Sprintf("%s has not returned after %s", c.what, limit))
				r.Finish()
				fmt.Printf("%s: a call did not return; the run was ended\n", r.Prop)
				os.Exit(0)
			}
		}
	}()
}

// parseErrText is the text of grammar.Parse's error ("" when it accepts).
func parseErrText(b []byte, budget uint64) (t string) {
	defer func() {
		if r := recover(); r != nil {
			t = "PANIC"
		}
	}()
	var opts []grammar.Option
	if budget != 0 {
		opts = append(opts, grammar.MaxExpressions(budget))
	}
	if _, err := grammar.Parse("", b, opts...); err != nil {
		return err.Error()
	}
	return ""
}

// collectStrings gathers every string-ish value reachable from v (subjects for the regexp oracle).
func collectStrings(v reflect.Value, out map[string]bool, depth int) {
	if !v.IsValid() || depth > 10 {
		return
	}
	switch v.Kind() {
	case reflect.String:
		out[v.String()] = true
	case reflect.Ptr, reflect.Interface:
		if !v.IsNil() {
			collectStrings(v.Elem(), out, depth+1)
		}
	case reflect.Slice, reflect.Array:
		if v.Kind() == reflect.Slice && v.Type().Elem().Kind() == reflect.Uint8 {
			b := make([]byte, v.Len())
			for i := range b {
				b[i] = byte(v.Index(i).Uint())
			}
			out[string(b)] = true
		}
		for i := 0; i < v.Len(); i++ {
			collectStrings(v.Index(i), out, depth+1)
		}
	case reflect.Map:
		for _, k := range v.MapKeys() {
			collectStrings(k, out, depth+1)
			collectStrings(v.MapIndex(k), out, depth+1)
		}
	case reflect.Struct:
		for i := 0; i < v.NumField(); i++ {
			collectStrings(v.Field(i), out, depth+1)
		}
	}
}

// reTable is the finite table of regexp answers the model is run with: for every pattern of the
// expression and every string reachable from the data, whether Go's regexp matches (none = does not compile).
func reTable(pats []string, data ...interface{}) string {
	if len(pats) == 0 {
		return "()"
	}
	subs := map[string]bool{"a": true}
	for _, d := range data {
		collectStrings(reflect.ValueOf(d), subs, 0)
	}
	// what the scalar-rewriting hook (hookFn 5) makes of them
	for s := range subs {
		b := []byte(s)
		for i, c := range b {
			if c >= 'a' && c <= 'z' {
				b[i] = c - 32
			}
		}
		subs[string(b)] = true
	}
	var tb []string
	seen := map[string]bool{}
	for _, p := range pats {
		if seen[p] {
			continue
		}
		seen[p] = true
		re, cerr := regexp.Compile(p)
		for s := range subs {
			r := "none"
			if cerr == nil {
				r = fmt.Sprint(re.Match([]byte(s)))
			}
			tb = append(tb, fmt.Sprintf("(%s %s %s)", hx(p), hx(s), r))
		}
	}
	sort.Strings(tb)
	return "(" + strings.Join(tb, " ") + ")"
}

// evalCmd is the model command for one evaluation of a parsed tree.
func evalCmd(tag string, unknownSet bool, unknown interface{}, hook int, ast grammar.Expression, d interface{}) string {
	var pats []string
	se := sExpr(ast, &pats)
	unk := "none"
	if unknownSet {
		unk = "(some " + sIface(unknown) + ")"
	}
	dd := sIface(d)
	return fmt.Sprintf("(eval %s %s %d %s %s %s)", hx(tag), unk, hook, se, dd, reTable(pats, d, unknown))
}

// describe renders a datum for replay files (addresses of pointers are not stable and not needed).
func describe(d interface{}) string {
	s := fmt.Sprintf("%#v", d)
	if len(s) > 600 {
		s = s[:600] + "..."
	}
	return s
}

// classOf extracts an outcome's class letter.
func classOf(o string) string {
	if i := strings.IndexByte(o, ':'); i >= 0 {
		return o[:i]
	}
	return o
}
