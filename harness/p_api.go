package main

import (
	"encoding/json"
	"fmt"
	"math"
	"os"
	"reflect"
	"strconv"
	"strings"
	"sync"

	bexpr "github.com/hashicorp/go-bexpr"
	"github.com/hashicorp/go-bexpr/grammar"
)

// ---------- C16: print-then-parse round trip ----------

func runC16(r *Run) {
	c16BlankTwinsInLiterals(r)
	c16NotThroughParens(r)
	r.Rule = "random expression trees (depth <= 4, every operator, quantifiers with all four binding forms, bexpr and JSON-Pointer selectors with awkward parts) rendered with per-node layout and style choices (blank runs of space/tab/CR/LF, redundant parentheses, double-quoted \\xHH / Go-escaped / backtick / bare literals, dotted / bracketed selector parts, in vs contains spellings); predicate on the implementation: grammar.Parse of the text returns exactly the tree; literal fidelity: for every string s of the pool and of a random stream and every style that can express it, `X == <literal>` is true of X = s and `X != <literal>` false; every rendering is also parsed by the model; distinct = (tree shape, layout hash)"
	n := 4000
	if r.Tier == "thorough" {
		n = 300000
	}
	for i := 0; i < n; i++ {
		rng = NewRng(mix(r.Seed, strHash("C16"), uint64(i)))
		t := genTree(rng.Intn(5))
		want := treeKey(t)
		for k := 0; k < 2; k++ {
			txt := renderTop(t)
			o := parseObs([]byte(txt), 0)
			r.Evaluations++
			r.Seen(shapeKey(t) + "|" + fmt.Sprint(strHash(txt)%64))
			r.Count("shape-depth:" + fmt.Sprint(strings.Count(shapeKey(t), "(")))
			c := map[string]interface{}{"text": txt, "text_hex": hx(txt), "tree": want}
			if !strings.HasPrefix(o, "A ") {
				r.Violate("rendering-rejected", "rej|"+shapeKey(t), c, "the rendering of a tree does not parse: "+o)
			} else if got := o[strings.Index(o[2:], " ")+3:]; got != want {
				r.Violate("round-trip-tree", "tree|"+shapeKey(t), c, "parsed back as "+truncate(got, 300))
			}
			// the public constructor must accept every rendering too (it is how a rendering is normally parsed back)
			if ev, err := bexpr.CreateEvaluator(txt); err != nil {
				r.Violate("rendering-rejected-by-CreateEvaluator", "cev|"+shapeKey(t), c, err.Error())
			} else {
				var p1 []string
				if got := sExpr(ev.VerifAST(), &p1); got != want {
					r.Violate("round-trip-tree", "cevtree|"+shapeKey(t), c, "CreateEvaluator holds "+truncate(got, 300))
				}
			}
			r.Model(parseCmd("go", 0, txt), o, c)
			if i%500 == 0 && k == 0 {
				r.Sample(map[string]string{"text": txt, "tree": truncate(want, 200)})
			}
		}
	}
	// deep parenthesis nesting (redundant and precedence-overriding), through both entry points
	for _, txt := range []string{"(((((foo == 3)))))", "((((((foo == 3))))))", "(((a == 1)) and ((b == 2))) or (not (((c == 9))))",
		"a == 1 and (b == 2 or (c == 9 and (d == 4 or (e == 5 and f == 6))))", "not (not (not (not (a == 1))))", "((((a == 1 or b == 2)) and c == 3))", "(((((((foo == 3)))))))"} {
		o := parseObs([]byte(txt), 0)
		r.Evaluations++
		r.Seen("deep|" + txt)
		c := map[string]interface{}{"text": txt}
		if !strings.HasPrefix(o, "A ") {
			r.Violate("rendering-rejected", "deep|"+txt, c, o)
		}
		if _, err := bexpr.CreateEvaluator(txt); err != nil {
			r.Violate("rendering-rejected-by-CreateEvaluator", "deepcev|"+txt, c, err.Error())
		}
		if _, err := bexpr.CreateFilter(txt); err != nil {
			r.Violate("rendering-rejected-by-CreateFilter", "deepflt|"+txt, c, err.Error())
		}
		r.Model(parseCmd("go", 0, txt), o, c)
	}
	// redundant parentheses around operands whose literals end in a backslash or contain parentheses: same tree as without them
	for _, pr := range [][2]string{
		{`(X == "\\") or (Y == "\\")`, `X == "\\" or Y == "\\"`}, {"(X == `a\\`) and (Y == `b\\`)", "X == `a\\` and Y == `b\\`"}, {`(X == "C:\\dir\\") or (Y == "\\") or (Z == "\\")`, `X == "C:\\dir\\" or Y == "\\" or Z == "\\"`},
		{`(a == "(") or (b == ")")`, `a == "(" or b == ")"`}, {`(a == ")") and (b == "(")`, `a == ")" and b == "("`}, {"(a == `)`) or (b == `(`)", "a == `)` or b == `(`"}, {`((X == "\\"))`, `X == "\\"`},
		{`( X == "\\" ) and not ( Y == "\\" )`, `X == "\\" and not Y == "\\"`}, {`(a == 1) or (b == 2)`, `a == 1 or b == 2`}, {`("x)" in a) and (b contains "(y")`, `"x)" in a and b contains "(y"`},
	} {
		o1, o2 := parseObs([]byte(pr[0]), 0), parseObs([]byte(pr[1]), 0)
		r.Evaluations++
		r.Seen("paren-literals|" + pr[0])
		c := map[string]interface{}{"text": pr[0], "without_parentheses": pr[1]}
		t1, t2 := o1[strings.Index(o1[2:], " ")+3:], o2[strings.Index(o2[2:], " ")+3:]
		if !strings.HasPrefix(o1, "A ") || !strings.HasPrefix(o2, "A ") || t1 != t2 {
			r.Violate("round-trip-tree", "paren-literals|"+pr[0], c, "with parentheses "+truncate(o1, 200)+", without "+truncate(o2, 200))
		}
		for _, txt := range pr {
			ev, err := bexpr.CreateEvaluator(txt)
			if err != nil {
				r.Violate("rendering-rejected-by-CreateEvaluator", "paren-literals-cev|"+txt, c, err.Error())
				continue
			}
			var p1 []string
			if got := sExpr(ev.VerifAST(), &p1); got != t2 {
				r.Violate("round-trip-tree", "paren-literals-cevtree|"+txt, c, "CreateEvaluator holds "+truncate(got, 300))
			}
			if _, err := bexpr.CreateFilter(txt); err != nil {
				r.Violate("rendering-rejected-by-CreateFilter", "paren-literals-flt|"+txt, c, err.Error())
			}
		}
		r.Model(parseCmd("go", 0, pr[0]), o1, c)
	}
	// literal texts with a prescribed denotation: strconv.Unquote (the Go string the literal spells) is the oracle
	for _, lit := range []string{"`a\rb`", "`a\r\nb`", "`\r`", "`\\n`", "`a\\`", "\"a\nb\"", "\"a\tb\"", `"\u00e9"`, `"\U0001F600"`, `"\x41\101"`, `"\a\b\f\v"`, `"a\\b"`, `"\'"`, `"'"`, "`'\"`", `"\ud800"`, `"\400"`, `"\x4"`, "\"\xff\"", "`\xff`", `""`, "``", `"/"`, `"/a/b"`, `"//"`, "`/x`"} {
		want, uerr := strconv.Unquote(lit)
		e := "X == " + lit
		_, perr := grammar.Parse("", []byte(e))
		r.Evaluations++
		r.Seen("littable|" + lit)
		c := map[string]interface{}{"expression": e, "expression_hex": hx(e)}
		if uerr != nil || !validUTF8(lit) {
			if perr == nil && uerr != nil {
				r.Violate("invalid-literal-accepted", "littable|"+lit, c, "a literal Go's Unquote rejects was accepted")
			}
		} else {
			o := exprObs(e, map[string]interface{}{"X": want})
			if o != "T" {
				c["denotes_hex"] = hx(want)
				r.Violate("literal-fidelity", "littable|"+lit, c, "the literal spells a string of which == is "+o)
			}
			if len(want) > 0 {
				if o2 := exprObs(e, map[string]interface{}{"X": want + "x"}); o2 != "F" {
					r.Violate("literal-fidelity", "littable-neg|"+lit, c, "== is "+o2+" of a different string")
				}
			}
		}
		r.Model(parseCmd("go", 0, e), parseObs([]byte(e), 0), c)
	}
	// literal fidelity
	strs := append([]string{}, litPool...)
	m := 600
	if r.Tier == "thorough" {
		m = 60000
	}
	for i := 0; i < m; i++ {
		rng = NewRng(mix(r.Seed, strHash("C16lit"), uint64(i)))
		var sb strings.Builder
		k := rng.Intn(8)
		for j := 0; j < k; j++ {
			switch rng.Intn(6) {
			case 0:
				sb.WriteByte(byte(rng.Intn(256)))
			case 1:
				sb.WriteRune(rune(rng.Intn(0x2000)))
			case 2:
				sb.WriteString(pick(rng, []string{"/", "\\", "\"", "`", "'", "\n", "\r", "\t", "\x00", "~", " "}))
			default:
				sb.WriteByte(byte(32 + rng.Intn(95)))
			}
		}
		strs = append(strs, sb.String())
	}
	for _, s := range strs {
		for _, lit := range literalStyles(s) {
			rng = NewRng(strHash(lit))
			for _, form := range []struct{ f, want string }{{"X" + ws0() + "==" + ws0() + "%s", "T"}, {"X != %s", "F"}, {"%s in L", "T"}, {"L contains %s", "T"}, {"M.k == %s", "T"}} {
				e := fmt.Sprintf(form.f, lit)
				d := map[string]interface{}{"X": s, "L": []string{"zzz", s}, "M": map[string]string{"k": s}}
				c := evalCase{expr: e, d: d, tag: "bexpr"}
				o := c.obs()
				r.Evaluations++
				r.Seen("lit|" + spellClass(lit) + "|" + form.f + "|" + fmt.Sprint(len(s)))
				r.Count("literal-style:" + spellClass(lit))
				if o != form.want {
					r.Violate("literal-fidelity", "lit|"+s, map[string]interface{}{"expression": e, "expression_hex": hx(e), "string": s, "string_hex": hx(s)}, "expected "+form.want+" got "+o)
				}
				if c.parse() {
					r.Model(c.cmd(), o, c.desc())
					r.Model(parseCmd("go", 0, e), parseObs([]byte(e), 0), map[string]interface{}{"text": e})
				}
			}
		}
	}
}

// ---------- C19: ExpressionDump ----------

func dumpObs(e grammar.Expression, indent string, level int) (out string) {
	defer func() {
		if p := recover(); p != nil {
			out = "PANIC"
		}
	}()
	var sb strings.Builder
	e.ExpressionDump(&sb, indent, level)
	return hx(sb.String())
}

func runC19(r *Run) {
	r.Rule = "parser-produced trees (random trees rendered and parsed, depth <= 5, plus the parser corpus' accepted strings) x indent strings {empty, space, two spaces, tab, --, a multi-byte rune} x start levels 0..3; the bytes ExpressionDump writes are compared with the reference renderer of the model (dump, proved equal to the rendering of the pre-order line list); Selector.String compared as well; predicate on the implementation: no panic, identical output on repetition; distinct = (tree shape, indent, level)"
	n := 2500
	if r.Tier == "thorough" {
		n = 150000
	}
	indents := []string{"", " ", "  ", "\t", "--", "é", "% ", "%d", "|%", "%s%v", "\\n", "| ", "|", "-> ", "-", "\t ", "ab", "a", "abab"}
	for i := 0; i < n; i++ {
		rng = NewRng(mix(r.Seed, strHash("C19"), uint64(i)))
		t := genTree(rng.Intn(6))
		txt := renderTop(t)
		ast, ok := parseTree(txt)
		if !ok {
			r.Count("generator:unparseable")
			continue
		}
		ind := pick(rng, indents)
		lvl := rng.Intn(4)
		o := dumpObs(ast, ind, lvl)
		r.Evaluations++
		r.Seen(shapeKey(ast) + "|" + ind + "|" + fmt.Sprint(lvl))
		r.Count("indent:" + fmt.Sprintf("%q", ind))
		c := map[string]interface{}{"text": txt, "indent": ind, "level": lvl}
		if o == "PANIC" {
			r.Violate("dump-panics", "panic|"+shapeKey(ast), c, "ExpressionDump panicked")
		}
		if o2 := dumpObs(ast, ind, lvl); o2 != o {
			r.Violate("dump-not-deterministic", "det|"+shapeKey(ast), c, "two dumps of one tree differ")
		}
		var pats []string
		r.Model(fmt.Sprintf("(dump %s %d %s)", hx(ind), lvl, sExpr(ast, &pats)), o, c)
		// Selector.String of every selector in the tree
		walkSelectors(ast, func(s grammar.Selector) {
			r.Model("(selstring "+sSel(s)+")", hx(s.String()), map[string]interface{}{"selector": s.Path, "type": fmt.Sprint(s.Type)})
		})
		if i%300 == 0 {
			b, _ := hexDecode(o[2:])
			r.Sample(map[string]interface{}{"text": txt, "indent": ind, "level": lvl, "dump": truncate(string(b), 300)})
		}
	}
	c19WritersAndChains(r)
}

func walkSelectors(e grammar.Expression, f func(grammar.Selector)) {
	switch n := e.(type) {
	case *grammar.UnaryExpression:
		walkSelectors(n.Operand, f)
	case *grammar.BinaryExpression:
		walkSelectors(n.Left, f)
		walkSelectors(n.Right, f)
	case *grammar.MatchExpression:
		f(n.Selector)
	case *grammar.CollectionExpression:
		f(n.Selector)
		walkSelectors(n.Inner, f)
	}
}

// ---------- C17: Filter.Execute ----------

type NSlice []int
type NMap map[string]int
type NS1s []S1
type NPtrs []*S1
type NDocs []map[string]interface{}
type NIfs []interface{}
type NArr [2]S1
type NMapS1 map[string]S1
type NMapIf map[NStr]interface{}

func optsCmd(opts []string) string { return "(" + strings.Join(opts, " ") + ")" }

// executeObs is the canonical observation of CreateFilter + Execute.
func executeObs(expr string, data interface{}) (out string, res interface{}) {
	enter("CreateFilter+Execute", expr, data)
	defer leave()
	defer func() {
		if p := recover(); p != nil {
			out, res = "PANIC", nil
		}
	}()
	f, err := bexpr.CreateFilter(expr)
	if err != nil {
		return "NOCREATE", nil
	}
	got, err := f.Execute(data)
	if err != nil {
		if got != nil {
			return "ERR-WITH-RESULT", got
		}
		return "ERR", nil
	}
	if f == nil {
		return "DATA", got
	}
	rv := reflect.ValueOf(got)
	switch rv.Kind() {
	case reflect.Slice:
		var p []string
		for i := 0; i < rv.Len(); i++ {
			p = append(p, cVal(rv.Index(i)))
		}
		return fmt.Sprintf("(slice %s (%s))", cType(rv.Type()), strings.Join(p, " ")), got
	case reflect.Map:
		s := cVal(rv) // (VMap nil? (kvs))
		i := strings.Index(s, "(VMap ")
		inner := s[i+len("(VMap "):]
		inner = inner[strings.Index(inner, " ")+1 : len(inner)-1]
		return fmt.Sprintf("(map %s %s)", cType(rv.Type()), inner), got
	}
	return "OTHER:" + rv.Kind().String(), got
}

// executeWith is the canonical observation of Execute on an existing filter.
func executeWith(f *bexpr.Filter, data interface{}) (out string) {
	enter("Execute", "(a filter)", data)
	defer leave()
	defer func() {
		if p := recover(); p != nil {
			out = "PANIC"
		}
	}()
	got, err := f.Execute(data)
	if err != nil {
		return "ERR"
	}
	rv := reflect.ValueOf(got)
	if !rv.IsValid() {
		return "NIL"
	}
	return cType(rv.Type()) + " " + cVal(rv)
}

func runC17(r *Run) {
	r.Rule = "expressions x containers: slices, named slice types, arrays, maps with string / named-string / int / bool / float (incl. NaN) / interface keys, of ints, strings, structs, pointers (incl. nil), maps, interfaces; empty and nil containers; elements on which the expression errors; non-containers incl. nil; predicate on the implementation: the result has the input's type (arrays give a slice of the element type), holds exactly the elements on which Evaluate is true, in order / under their keys, the input is unchanged, nil filter returns the input, first error gives a nil result, non-containers are an error and never a panic, idempotence, E / not E partition; the result is also compared with the model's execute; distinct = (container type, expression, result class)"
	one, two := 1, 2
	containers := []struct {
		name string
		d    interface{}
	}{
		{"[]int", []int{1, 2, 1, 3}}, {"NSlice", NSlice{1, 2, 1}}, {"[3]int", [3]int{1, 2, 1}}, {"[]int-empty", []int{}}, {"[]int-nil", []int(nil)}, {"[0]int", [0]int{}},
		{"[]string", []string{"a", "b", "", "a"}}, {"[]S1", []S1{{A: 1, B: "a"}, {A: 2, B: "b"}, {A: 1, M: map[string]int{"k": 1}}}}, {"[]*S1", []*S1{{A: 1}, nil, {A: 2}}},
		{"[]*int", []*int{&one, nil, &two}}, {"[]interface{}", []interface{}{1, "a", nil, map[string]interface{}{"A": 1}, S1{A: 1}, 1.5}}, {"[]map", []map[string]int{{"A": 1}, {"A": 2}, {}, nil}},
		{"map[string]int", map[string]int{"a": 1, "b": 2, "c": 1}}, {"NMap", NMap{"a": 1, "b": 2}}, {"map[string]S1", map[string]S1{"x": {A: 1}, "y": {A: 2}}}, {"map[int]string", map[int]string{1: "a", 2: "b"}},
		{"map[NStr]int", map[NStr]int{"a": 1, "b": 2}}, {"map[bool]int", map[bool]int{true: 1, false: 2}}, {"map[float64]int", map[float64]int{1.5: 1, math.NaN(): 1, math.Inf(1): 2}},
		{"map[interface{}]interface{}", map[interface{}]interface{}{"a": 1, 2: "b", true: 1}}, {"map-empty", map[string]int{}}, {"map-nil", map[string]int(nil)}, {"map[string]*S1", map[string]*S1{"a": {A: 1}, "n": nil}},
		{"int", 5}, {"string", "abc"}, {"struct", S1{A: 1}}, {"nil", nil}, {"*[]int", &[]int{1, 2}}, {"chan", make(chan int)}, {"func", func() {}}, {"[][]int", [][]int{{1}, {}, {1, 2}}},
		{"map[float64]S1-NaN", func() interface{} {
			m := map[float64]S1{1.5: {A: 2}, math.Inf(-1): {A: 1}, math.Copysign(0, -1): {A: 1}}
			m[math.NaN()] = S1{A: 1}
			m[math.NaN()] = S1{A: 1, B: "a"}
			m[math.NaN()] = S1{A: 2}
			return m
		}()},
		{"map[interface{}]S1-NaN", func() interface{} {
			m := map[interface{}]S1{"k": {A: 1}, 1: {A: 2}}
			m[math.NaN()] = S1{A: 1}
			m[float32(math.NaN())] = S1{A: 1}
			return m
		}()},
		{"map[[2]float64]map-NaN", func() interface{} {
			m := map[[2]float64]map[string]interface{}{{1, 2}: {"A": 1}}
			m[[2]float64{math.NaN(), 1}] = map[string]interface{}{"A": 1}
			m[[2]float64{math.NaN(), 1}] = map[string]interface{}{"A": 2}
			return m
		}()},
		{"map[float32]*S1-NaN", func() interface{} {
			m := map[float32]*S1{1: {A: 1}}
			m[float32(math.NaN())] = &S1{A: 1}
			m[float32(math.NaN())] = nil
			return m
		}()},
		// named container types whose elements the expressions evaluate without error (the result must have the input's type)
		{"NS1s", NS1s{{A: 1, B: "a"}, {A: 2, B: "b"}, {A: 1}}}, {"NS1s-empty", NS1s{}}, {"NS1s-nil", NS1s(nil)}, {"NPtrs", NPtrs{{A: 1}, {A: 2}}}, {"NDocs", NDocs{{"A": 1, "B": "a"}, {"A": 2, "B": "b"}}},
		{"NIfs", NIfs{map[string]interface{}{"A": 1, "B": "a"}, S1{A: 2}}}, {"NArr", NArr{{A: 1}, {A: 2}}}, {"NMapS1", NMapS1{"x": {A: 1}, "y": {A: 2}}}, {"NMapS1-empty", NMapS1{}}, {"NMapS1-nil", NMapS1(nil)},
		{"NMapIf", NMapIf{"x": S1{A: 1}, "y": map[string]interface{}{"A": 2, "B": "a"}}}, {"[0]S1", [0]S1{}}, {"[]S1-empty", []S1{}}, {"[]S1-nil", []S1(nil)},
		{"[]S1-1003", func() interface{} {
			l := make([]S1, 1003)
			for i := range l {
				l[i] = S1{A: 2 + i%5, B: "b"}
			}
			l[1000], l[1001], l[1002], l[3] = S1{A: 1, B: "a"}, S1{A: 1}, S1{A: 1, B: "a"}, S1{A: 1}
			return l
		}()},
		{"[257]S1", func() interface{} {
			var l [257]S1
			for i := range l {
				l[i] = S1{A: 2}
			}
			l[256] = S1{A: 1, B: "a"}
			return l
		}()},
		{"[]S5", []S5{{V: 1, Sec: "s"}, {V: 2}}}, {"nil-*[]int", (*[]int)(nil)}, {"nil-*S1", (*S1)(nil)}, {"nil-*map", (*map[string]int)(nil)}, {"**[]int", func() **[]int { l := &[]int{1}; return &l }()}, {"[2]S1", [2]S1{{A: 1}, {A: 2}}}, {"[2]string", [2]string{"a", "b"}}, {"[]json-like", []interface{}{map[string]interface{}{"A": 1, "B": "a"}, map[string]interface{}{"A": "x"}, map[string]interface{}{}}},
	}
	exprs := []string{"", `"" == 1`, "A == 1", "A != 1", "B == a", "A == 1 or B == b", "not A == 1", "A is empty", "M.k == 1", "M is not empty", "zz == 1", "A == x", "V == 1", `"/A" == 1`, "any M as k { k == k }", "A matches `1`",
		`"" is empty`, "A == 1 and B == a", "a b", "((", "B matches `^a` and A == 1", "B matches `^a` or A == x", "any M as k { k == k } or A == 1", "A == 1 or any M as k { k == k }", "B not matches `b` and M.k == 1", "A == 1 or B matches `[`",
		"A != 99", "A != 99 or B == zz", "not A == 99"}
	for _, ct := range containers {
		for _, e := range exprs {
			before := sIface(ct.d)
			o, res := executeObs(e, ct.d)
			r.Evaluations++
			cls := o
			if strings.HasPrefix(o, "(") {
				cls = "kept"
			}
			r.Seen(ct.name + "|" + e + "|" + cls)
			r.Count("result:" + cls)
			c := map[string]interface{}{"expression": e, "container": ct.name, "datum": describe(ct.d)}
			if o == "PANIC" {
				r.Violate("execute-panics", ct.name+"|"+e, c, "Execute panicked")
			}
			if o == "ERR-WITH-RESULT" {
				r.Violate("error-with-result", ct.name+"|"+e, c, "an error came with a non-nil result")
			}
			if sIface(ct.d) != before {
				r.Violate("input-modified", ct.name+"|"+e, c, "the input container changed")
			}
			if rv, iv := reflect.ValueOf(res), reflect.ValueOf(ct.d); cls == "kept" && e != "" && rv.Kind() == reflect.Slice && iv.Kind() == reflect.Slice && rv.Len() > 0 && rv.Pointer() == iv.Pointer() {
				r.Violate("result-is-not-a-new-slice", ct.name+"|"+e, c, "the result shares the input's backing array: a write to the result changes the input")
			}
			if rv, iv := reflect.ValueOf(res), reflect.ValueOf(ct.d); cls == "kept" && e != "" && rv.Kind() == reflect.Map && iv.Kind() == reflect.Map && rv.Pointer() == iv.Pointer() {
				r.Violate("result-is-not-a-new-map", ct.name+"|"+e, c, "the result is the input map itself")
			}
			// element-wise coherence with Evaluate
			if cls == "kept" || o == "ERR" {
				checkFilterCoherence(r, e, ct.name, ct.d, res, o, c)
			}
			in := reflect.ValueOf(ct.d)
			isContainer := in.IsValid() && (in.Kind() == reflect.Slice || in.Kind() == reflect.Array || in.Kind() == reflect.Map)
			if e == "" {
				if o != "DATA" || !sameIface(res, ct.d) {
					r.Violate("nil-filter-identity", ct.name, c, "a nil filter did not return its input: "+o)
				}
			} else if o != "NOCREATE" && !isContainer && o != "ERR" {
				r.Violate("non-container-not-error", ct.name+"|"+e, c, "got "+truncate(o, 100))
			}
			// idempotence and partition
			if cls == "kept" && e != "" {
				o2, _ := executeObs(e, res)
				if o2 != o {
					r.Violate("not-idempotent", ct.name+"|"+e, c, "filtering the result again: "+truncate(o2, 200))
				}
				on, resn := executeObs("not ( "+e+" )", ct.d)
				if strings.HasPrefix(on, "(") {
					n1, n2 := reflect.ValueOf(res).Len(), reflect.ValueOf(resn).Len()
					if n1+n2 != in.Len() {
						r.Violate("partition", ct.name+"|"+e, c, fmt.Sprintf("|E|=%d |not E|=%d |input|=%d", n1, n2, in.Len()))
					}
				}
			}
			var pats []string
			if t, ok := parseTree(e); ok {
				sExpr(t, &pats)
			}
			r.Model(fmt.Sprintf("(execute %s () %s %s)", hx(e), sIface(ct.d), reTable(pats, ct.d)), o, c)
			if r.Evaluations%60 == 0 {
				c2 := map[string]interface{}{"expression": e, "container": ct.name, "result": truncate(o, 200)}
				r.Sample(c2)
			}
		}
	}
	c17SharedAddresses(r)
	c17AfterErrors(r)
	c17FirstError(r)
	// long inputs: kept elements at every residue of the index modulo 64 (word-sized bookkeeping must not lose any)
	{
		long := make([]S1, 150)
		var arr [130]map[string]interface{}
		for i := range long {
			long[i] = S1{A: i % 3, B: fmt.Sprint(i)}
		}
		for i := range arr {
			arr[i] = map[string]interface{}{"A": i % 3}
		}
		for _, d := range []interface{}{long, arr, long[:33], long[:65]} {
			for _, e := range []string{"A == 0", "A != 0", "A == 1 or A == 2"} {
				o, res := executeObs(e, d)
				r.Evaluations++
				r.Seen("long|" + e + "|" + fmt.Sprint(reflect.ValueOf(d).Len()))
				c := map[string]interface{}{"expression": e, "container": fmt.Sprintf("%T of %d elements", d, reflect.ValueOf(d).Len())}
				checkFilterCoherence(r, e, "long", d, res, o, c)
				var pats []string
				r.Model(fmt.Sprintf("(execute %s () %s %s)", hx(e), sIface(d), reTable(pats, d)), o, c)
			}
		}
	}
	// histories on ONE filter: containers of different types in sequence (arrays of two element types included);
	// every result must equal that of a freshly created filter
	for _, e := range []string{"A == 1", "B == a", `"" == 1`, "A != 2", "zz == 1"} {
		f, err := bexpr.CreateFilter(e)
		if err != nil || f == nil {
			continue
		}
		seq := []interface{}{[2]S1{{A: 1}, {A: 2}}, [3]map[string]interface{}{{"A": 1}, {"A": 2}, {"B": "a"}}, [2]int{1, 2}, []S1{{A: 1}}, [1]S1{{A: 1, B: "a"}}, map[string]S1{"k": {A: 1}}, [2]S2{}, [2]int{1, 1}, [3]map[string]interface{}{{"A": 1}, {"A": 1}, {"A": 1}}}
		for k, d := range seq {
			o1 := executeWith(f, d)
			fresh, _ := bexpr.CreateFilter(e)
			o2 := executeWith(fresh, d)
			r.Evaluations++
			r.Seen("history|" + e + "|" + fmt.Sprint(k))
			if o1 != o2 {
				r.Violate("filter-history-dependent", "history|"+e, map[string]interface{}{"expression": e, "call": k, "datum": describe(d)}, "used filter: "+truncate(o1, 200)+" fresh filter: "+truncate(o2, 200))
			}
		}
	}
	// random: generic data as list elements
	n := 400
	if r.Tier == "thorough" {
		n = 30000
	}
	for i := 0; i < n; i++ {
		rng = NewRng(mix(r.Seed, strHash("C17"), uint64(i)))
		t := pick(rng, structTypes[:3])
		k := rng.Intn(5)
		lst := reflect.MakeSlice(reflect.SliceOf(t), k, k)
		for j := 0; j < k; j++ {
			lst.Index(j).Set(genValue(t, 2))
		}
		var d interface{} = lst.Interface()
		if rng.Pct(40) {
			mp := reflect.MakeMap(reflect.MapOf(strT, t))
			for j := 0; j < k; j++ {
				mp.SetMapIndex(reflect.ValueOf(fmt.Sprintf("k%d", j)), lst.Index(j))
			}
			d = mp.Interface()
		}
		var e string
		if k > 0 {
			e = genExpr(lst.Index(0).Interface(), "bexpr", rng.Intn(2), "", reflect.Value{})
		} else {
			e = "A == 1"
		}
		before := sIface(d)
		o, res := executeObs(e, d)
		if o == "NOCREATE" {
			continue
		}
		r.Evaluations++
		cls := o
		if strings.HasPrefix(o, "(") {
			cls = "kept"
		}
		r.Seen(t.Name() + "|" + shapeOf(e) + "|" + cls)
		r.Count("result:" + cls)
		c := map[string]interface{}{"expression": e, "datum": describe(d)}
		if o == "PANIC" {
			r.Violate("execute-panics", e, c, "Execute panicked")
		}
		if sIface(d) != before {
			r.Violate("input-modified", e, c, "the input container changed")
		}
		checkFilterCoherence(r, e, t.Name(), d, res, o, c)
		var pats []string
		if tr, ok := parseTree(e); ok {
			sExpr(tr, &pats)
		}
		r.Model(fmt.Sprintf("(execute %s () %s %s)", hx(e), sIface(d), reTable(pats, d)), o, c)
	}
}

func shapeOf(e string) string {
	if t, ok := parseTree(e); ok {
		return shapeKey(t)
	}
	return "?"
}

func sameIface(a, b interface{}) bool { return sIface(a) == sIface(b) }

// checkFilterCoherence: the kept elements are exactly those on which Evaluate is true (when no element errors).
func checkFilterCoherence(r *Run, e, cname string, d, res interface{}, o string, c map[string]interface{}) {
	if e == "" {
		return
	}
	ev, err := bexpr.CreateEvaluator(e)
	if err != nil {
		return
	}
	in := reflect.ValueOf(d)
	if !in.IsValid() {
		return
	}
	anyErr := false
	var want []string
	switch in.Kind() {
	case reflect.Slice, reflect.Array:
		for i := 0; i < in.Len(); i++ {
			switch evalObs(ev, in.Index(i).Interface()) {
			case "T":
				want = append(want, cVal(in.Index(i)))
			case "E", "X", "P":
				anyErr = true
			}
		}
		if anyErr {
			if o != "ERR" {
				r.Violate("element-error-not-returned", cname+"|"+e, c, "an element errors but Execute returned "+truncate(o, 100))
			}
			return
		}
		if o == "ERR" {
			r.Violate("spurious-error", cname+"|"+e, c, "no element errors but Execute returned an error")
			return
		}
		rt := in.Type()
		if in.Kind() == reflect.Array {
			rt = reflect.SliceOf(in.Type().Elem())
		}
		exp := fmt.Sprintf("(slice %s (%s))", cType(rt), strings.Join(want, " "))
		if o != exp {
			r.Violate("kept-elements", cname+"|"+e, c, "expected "+truncate(exp, 300)+" got "+truncate(o, 300))
		}
		if reflect.TypeOf(res) != rt {
			r.Violate("result-type", cname+"|"+e, c, fmt.Sprintf("result type %T", res))
		}
	case reflect.Map:
		type kv struct{ k, v reflect.Value }
		var kept []kv
		for it := in.MapRange(); it.Next(); {
			switch evalObs(ev, it.Value().Interface()) {
			case "T":
				kept = append(kept, kv{it.Key(), it.Value()})
			case "E", "X", "P":
				anyErr = true
			}
		}
		if anyErr {
			if o != "ERR" {
				r.Violate("element-error-not-returned", cname+"|"+e, c, "an element errors but Execute returned "+truncate(o, 100))
			}
			return
		}
		if o == "ERR" {
			r.Violate("spurious-error", cname+"|"+e, c, "no element errors but Execute returned an error")
			return
		}
		if reflect.TypeOf(res) != in.Type() {
			r.Violate("result-type", cname+"|"+e, c, fmt.Sprintf("result type %T", res))
		}
		if reflect.ValueOf(res).Len() != len(kept) {
			r.Violate("kept-entries", cname+"|"+e, c, fmt.Sprintf("%d entries kept, %d evaluate to true", reflect.ValueOf(res).Len(), len(kept)))
		}
	}
}

// ---------- C18: options ----------

type optSpec struct {
	name string
	go_  func() bexpr.Option
	sx   string
	kind string
}

func permutations(xs []int) [][]int {
	if len(xs) <= 1 {
		return [][]int{append([]int{}, xs...)}
	}
	var out [][]int
	for i := range xs {
		rest := append(append([]int{}, xs[:i]...), xs[i+1:]...)
		for _, p := range permutations(rest) {
			out = append(out, append([]int{xs[i]}, p...))
		}
	}
	return out
}

func runC18(r *Run) {
	r.Rule = "every subset and every permutation of {WithTagName, WithHookFn, WithUnknownValue, WithMaxExpressions} (65 option lists per setting choice; settings drawn from tag in {bexpr, alt}, hook in {identity, unwrap wrapper struct, constant, nil-returning}, unknown in {nil, 1, \"a\"}, budget in {0, large, too small}) plus repeated options (last wins) x (expression, datum) pairs incl. wrapped values, renamed/hidden fields and absent keys; predicate on the implementation: all permutations of one set agree, the last of repeated options wins, each neutral setting equals its absence, the hook's replacement is what the operators see; every list is also compared with the model's create/evaluate; distinct = (option kinds in order, setting, expression, outcome)"
	pairs := []struct {
		e string
		d interface{}
	}{
		{"A == 1", S1{A: 1}}, {"bee == x", S1{B: "x"}}, {"B2 == x", S1{B: "x"}}, {"H == h", S1{H: "h"}}, {"M.zz == 1", S1{M: map[string]int{"k": 1}}}, {"zz == 1", map[string]interface{}{"a": 1}},
		{"W == 1", S6{W: Wrap{1}}}, {"W.V == 1", S6{W: Wrap{1}}}, {"any WL as w { w == 1 }", S6{WL: []Wrap{{2}, {1}}}}, {"WM.k == a", S6{WM: map[string]Wrap{"k": {"a"}}}}, {"A == 7", S6{A: 3}},
		{"a.b == 1", map[string]interface{}{"a": map[string]interface{}{"b": 1}}}, {"a.zz != 1", map[string]interface{}{"a": map[string]interface{}{"b": 1}}}, {"N == n", S1{N: "n"}}, {"enn == n", S1{N: "n"}},
		{"l.0 == 1 and l.1 == 2", map[string]interface{}{"l": []int{1, 2}}}, {"x is empty", map[string]interface{}{"x": ""}}, {"s matches `^a`", map[string]interface{}{"s": "abc"}},
		{"(((a == 1)))", map[string]interface{}{"a": 1}}, {"X.A == 1 or X.bee == q", S2{X: S1{A: 1}}},
		{"W.m.zz != 1", S7{W: Wrap{map[string]interface{}{"m": map[string]interface{}{"k": 1}}}}}, {"lab.zz != x", S7{Labels: map[string]string{"a": "b"}}}, {"labels.zz is empty", S7{Labels: map[string]string{"a": "b"}}},
		{"any L as t { t == BLUE }", S1{L: []string{"red", "blue"}}}, {"L.1 == BLUE", S1{L: []string{"red", "blue"}}}, {"all L as i, t { t != blue }", S1{L: []string{"red", "blue"}}}, {"BLUE in L", S1{L: []string{"red", "blue"}}}, {"B == AB", S1{B: "ab"}}, {"any Arr2 as s { s == X }", struct{ Arr2 [2]string }{[2]string{"x", "y"}}},
		{`"/` + strings.Repeat("\U00020000", 400) + `" == 1 and b == 2 or c == 3`, map[string]interface{}{strings.Repeat("\U00020000", 400): 1, "b": 2, "c": 3}},
		{"xs.010 == 8", map[string]interface{}{"xs": []interface{}{0, 1, 2, 3, 4, 5, 6, 7, 8, 9, 10, 11}}}, {`"/xs/010" == 10 or xs["0x0a"] == 10`, map[string]interface{}{"xs": []interface{}{0, 1, 2, 3, 4, 5, 6, 7, 8, 9, 10, 11}}},
		{"xs.09 == 9", map[string]interface{}{"xs": []interface{}{0, 1, 2, 3, 4, 5, 6, 7, 8, 9, 10, 11}}}, {"xs.0b11 == 3 and xs.1_0 == 10", map[string]interface{}{"xs": []interface{}{0, 1, 2, 3, 4, 5, 6, 7, 8, 9, 10, 11}}},
		{"l.5 == 1", map[string]interface{}{"l": []int{1, 2}}}, {`"/l/2" == 1 or l.0 == 1`, map[string]interface{}{"l": []int{1, 2}}}, {"items.7.name == a", map[string]interface{}{"items": []interface{}{map[string]interface{}{"name": "a"}}}}, {"l.-1 is empty", map[string]interface{}{"l": []int{1}}},
		{"any l as x { l.9 == x }", map[string]interface{}{"l": []int{1, 2}}}, {"a.b.c == 1", map[string]interface{}{"a": map[string]interface{}{"b": 5}}}, {"s.0 == a", map[string]interface{}{"s": "abc"}},
		{"any B as x { x == a }", S1{B: "a"}}, {"all A as x { x == 1 }", S1{A: 1}}, {"any a as k { k == b }", map[string]interface{}{"a": 5}}, {"all X as x { x is empty }", S2{X: S1{A: 1}}},
		{"any l as x { all x as y { y == 1 } }", map[string]interface{}{"l": []int{1, 2}}}, {"A == 1 or any B as x { x == a }", S1{A: 2, B: "a"}},
		{"owner == nobody", map[string]interface{}{"owner": nil}}, {"any tags as t { t == a }", map[string]interface{}{"tags": []interface{}{"blue", nil}}}, {"I == a", S1{I: nil}}, {"P == 1", S1{}},
	}
	n := len(pairs)
	type setting struct {
		tag    string
		hook   int
		unk    interface{}
		budget uint64
	}
	settings := []setting{{"bexpr", 1, 1, 0}, {"alt", 2, "a", 1000000}, {"bexpr", 5, nil, 5}, {"alt", 3, nil, 0}, {"bexpr", 2, nil, 5}, {"alt", 4, 1, 1000000}}
	if r.Tier == "quick" {
		settings = settings[:4]
	}
	mk := func(s setting) []optSpec {
		return []optSpec{
			{"tag", func() bexpr.Option { return bexpr.WithTagName(s.tag) }, "(tag " + hx(s.tag) + ")", "tag"},
			{"hook", func() bexpr.Option { return bexpr.WithHookFn(hookFn(s.hook)) }, fmt.Sprintf("(hook %d)", s.hook), "hook"},
			{"unknown", func() bexpr.Option { return bexpr.WithUnknownValue(s.unk) }, "(unknown " + sIface(s.unk) + ")", "unknown"},
			{"max", func() bexpr.Option { return bexpr.WithMaxExpressions(s.budget) }, fmt.Sprintf("(max %d)", s.budget), "max"},
		}
	}
	evalWith := func(e string, d interface{}, specs []optSpec) string {
		var os_ []bexpr.Option
		for _, s := range specs {
			os_ = append(os_, s.go_())
		}
		return exprObs(e, d, os_...)
	}
	for pi := 0; pi < n; pi++ {
		p := pairs[pi]
		var pats []string
		if t, ok := parseTree(p.e); ok {
			sExpr(t, &pats)
		}
		for si, st := range settings {
			all := mk(st)
			for mask := 0; mask < 16; mask++ {
				var idx []int
				for b := 0; b < 4; b++ {
					if mask&(1<<b) != 0 {
						idx = append(idx, b)
					}
				}
				var first string
				for pn, perm := range permutations(idx) {
					var specs []optSpec
					var sxs, names []string
					for _, k := range perm {
						specs = append(specs, all[k])
						sxs = append(sxs, all[k].sx)
						names = append(names, all[k].name)
					}
					o := evalWith(p.e, p.d, specs)
					r.Evaluations++
					r.Seen(strings.Join(names, ",") + "|" + fmt.Sprint(si) + "|" + p.e + "|" + o)
					r.Count("outcome:" + o)
					c := map[string]interface{}{"expression": p.e, "datum": describe(p.d), "options": sxs}
					if pn == 0 {
						first = o
					} else if o != first {
						r.Violate("option-order", strings.Join(names, ",")+"|"+p.e, c, "this order gives "+o+", another order of the same options "+first)
					}
					// a nil Option (the optional-option idiom: `var o Option; if cond { o = With...() }`) is skipped wherever it stands
					if len(specs) > 0 {
						at := (pn + pi + si) % (len(specs) + 1)
						var withNil []bexpr.Option
						for k2, sp := range specs {
							if k2 == at {
								withNil = append(withNil, nil)
							}
							withNil = append(withNil, sp.go_())
						}
						if at == len(specs) {
							withNil = append(withNil, nil)
						}
						if on := exprObs(p.e, p.d, withNil...); on != o {
							c["nil_option_at"] = at
							r.Violate("nil-option-not-skipped", fmt.Sprint(at)+"|"+strings.Join(names, ",")+"|"+p.e, c, fmt.Sprintf("with a nil Option at position %d: %s, without: %s", at, on, o))
						}
						r.Evaluations++
					}
					r.Model(fmt.Sprintf("(evaluate %s %s %s %s)", hx(p.e), optsCmd(sxs), sIface(p.d), reTable(pats, p.d, st.unk)), o, c)
				}
			}
			// last of repeated options wins
			other := mk(setting{tag: map[string]string{"bexpr": "alt", "alt": "bexpr"}[st.tag], hook: 1 + st.hook%5, unk: "other", budget: 3})
			for k := 0; k < 4; k++ {
				a := evalWith(p.e, p.d, []optSpec{other[k], all[k]})
				b := evalWith(p.e, p.d, []optSpec{all[k]})
				r.Evaluations++
				c := map[string]interface{}{"expression": p.e, "datum": describe(p.d), "options": []string{other[k].sx, all[k].sx}}
				if a != b {
					r.Violate("last-wins", all[k].name+"|"+p.e, c, "repeated option: "+a+", last alone: "+b)
				}
				r.Model(fmt.Sprintf("(evaluate %s %s %s %s)", hx(p.e), optsCmd([]string{other[k].sx, all[k].sx}), sIface(p.d), reTable(pats, p.d, st.unk, "other")), a, c)
			}
		}
		// neutral settings: each compared with its absence
		base := exprObs(p.e, p.d)
		_, _, N := grammar.VerifParse("", []byte(p.e))
		neutrals := []struct {
			name string
			o    bexpr.Option
		}{
			{"tag-bexpr", bexpr.WithTagName("bexpr")}, {"identity-hook", bexpr.WithHookFn(hookFn(1))}, {"budget-0", bexpr.WithMaxExpressions(0)},
			{"budget-N", bexpr.WithMaxExpressions(N)}, {"budget-large", bexpr.WithMaxExpressions(1 << 40)}, {"nil-option", nil},
			{"budget-maxuint64", bexpr.WithMaxExpressions(math.MaxUint64)}, {"budget-2^63", bexpr.WithMaxExpressions(1 << 63)}, {"budget-2^63+1", bexpr.WithMaxExpressions(1<<63 + 1)}, {"budget-2^63-1", bexpr.WithMaxExpressions(1<<63 - 1)}, {"budget-2^32", bexpr.WithMaxExpressions(1 << 32)},
		}
		for _, nt := range neutrals {
			o := exprObs(p.e, p.d, nt.o)
			r.Evaluations++
			r.Seen("neutral|" + nt.name + "|" + p.e)
			if o != base {
				r.Violate("neutral-setting", nt.name+"|"+p.e, map[string]interface{}{"expression": p.e, "datum": describe(p.d), "option": nt.name}, "with the neutral setting "+o+", without "+base)
			}
		}
		{ // every selector resolves: an unknown value must not matter (also when the outcome is an error for another reason)
			if !strings.Contains(p.e, "zz") && !strings.Contains(p.e, "H ==") {
				if o := exprObs(p.e, p.d, bexpr.WithUnknownValue(42)); o != base {
					r.Violate("neutral-setting", "unknown|"+p.e, map[string]interface{}{"expression": p.e, "datum": describe(p.d), "option": "unknown value 42"}, "with "+o+", without "+base)
				}
			}
		}
		r.Sample(map[string]interface{}{"expression": p.e, "datum": describe(p.d), "outcome_without_options": base})
	}
	c18AfterCreation(r)
	c18UnknownNeutralOnBlankLeaves(r)
	c18TagNames(r)
	c18UnknownSubstitution(r)
	c18BigCollectionBudget(r)
	c18TextBudgetRunTogether(r)
	// the hook's replacement value is what the operators see
	for _, t := range []struct {
		e    string
		d    interface{}
		hook int
		want string
	}{
		{"W == 1", S6{W: Wrap{1}}, 2, "T"}, {"W == 1", S6{W: Wrap{1}}, 0, "E"}, {"W is empty", S6{W: Wrap{""}}, 2, "T"}, {"1 in W", S6{W: Wrap{[]int{1}}}, 2, "T"},
		{"A == 7", S6{A: 3}, 3, "T"}, {"A == 3", S6{A: 3}, 3, "F"}, {"A == 3", S6{A: 3}, 4, "E"}, {"any WL as w { w == 1 }", S6{WL: []Wrap{{2}, {1}}}, 2, "T"},
		{"any L as t { t == BLUE }", S1{L: []string{"red", "blue"}}, 5, "T"}, {"any L as t { t == blue }", S1{L: []string{"red", "blue"}}, 5, "F"}, {"all L as _, t { t matches `^[A-Z]+$` }", S1{L: []string{"red", "blue"}}, 5, "T"}, {"BLUE in L", S1{L: []string{"red", "blue"}}, 0, "F"},
	} {
		c := evalCase{expr: t.e, d: t.d, tag: "bexpr", hook: t.hook}
		if !c.parse() {
			continue
		}
		o := c.obs()
		r.Evaluations++
		r.Seen("hook|" + t.e + "|" + fmt.Sprint(t.hook))
		if o != t.want {
			r.Violate("hook-value-seen", fmt.Sprint(t.hook)+"|"+t.e, c.desc(), "expected "+t.want+" got "+o)
		}
		r.Model(c.cmd(), o, c.desc())
	}
}

// ---------- C13: histories ----------

func runC13(r *Run) {
	r.Rule = "call histories on ONE evaluator / filter: sequences of 8 (thorough 64) calls mixing data of different types and outcomes (true, false, error), incl. first use of matches / not matches and quantifiers; predicate on the implementation: call by call the result equals that of a freshly created evaluator on the same datum; the datum is serialised before and after every call and must be unchanged (also Filter inputs); Expression() returns the creation string byte for byte; the shared syntax tree is snapshotted (VerifAST) before and after each history; every call is also compared with the stateless model; distinct = (expression shape, history position, outcome)"
	hist := 8
	n := 250
	if r.Tier == "thorough" {
		hist, n = 64, 5000
	}
	for i := 0; i < n; i++ {
		rng = NewRng(mix(r.Seed, strHash("C13"), uint64(i)))
		d0 := genDatum()
		e := genExpr(d0, "bexpr", rng.Intn(3), "", reflect.Value{})
		if rng.Pct(30) {
			e = pick(rng, []string{"B matches `^a`", "B not matches `b+`", "any L as x { x matches `o$` }", "X.B matches `[`", "bee matches `a` or A == 1"})
		}
		clash := rng.Pct(25)
		if clash { // a binder named like a top-level field that is also used outside the braces; bodies that error on some data
			e = pick(rng, []string{"Tag == stable or any Tags as Tag { Tag matches `^rc` }", "any Tags as Tag { Tag matches `^rc` } or Tag == stable", "all Tags as i, Tag { Tag != 1 } and Tag == stable",
				"Tag == stable or all M as Tag, v { v == 1 and Tag != zz }", "any Tags as Tag { Tag == x } or Tag is empty"})
		}
		base := evalCase{expr: e, tag: "bexpr"}
		genOptions(&base)
		if !base.parse() {
			continue
		}
		ev, err := bexpr.CreateEvaluator(e, base.opts()...)
		if err != nil {
			continue
		}
		if ev.Expression() != e {
			r.Violate("expression-not-source", e, map[string]interface{}{"expression": e}, "Expression() = "+ev.Expression())
		}
		tree0 := treeSnapshot(ev.VerifAST())
		var trace []string
		for k := 0; k < hist; k++ {
			d := d0
			if k > 0 && rng.Pct(70) {
				d = genDatum()
			}
			if clash {
				d = map[string]interface{}{"Tag": pick(rng, []interface{}{"stable", "x", "", 1}), "Tags": pick(rng, []interface{}{[]interface{}{"beta", "x"}, []interface{}{1, "rc1"}, []interface{}{"rc2"}, []interface{}{}, 5}), "M": map[string]interface{}{"a": 1, "b": pick(rng, []interface{}{1, "x"})}}
			}
			before := sIface(d)
			o := evalObs(ev, d)
			after := sIface(d)
			fresh := exprObs(e, d, base.opts()...)
			r.Evaluations++
			r.Seen(opSig(base.ast) + "|" + fmt.Sprint(k) + "|" + o)
			r.Count("outcome:" + o)
			trace = append(trace, o)
			c := base
			c.d = d
			if o != fresh {
				m := c.desc()
				m["history_so_far"] = trace
				r.Violate("history-dependent", e, m, fmt.Sprintf("call %d returned %s, a fresh evaluator %s", k, o, fresh))
			}
			if before != after {
				r.Violate("datum-modified", e, c.desc(), "the datum changed during Evaluate")
			}
			r.Model(c.cmd(), o, c.desc())
		}
		if t1 := treeSnapshot(ev.VerifAST()); t1 != tree0 {
			r.Violate("tree-modified", e, map[string]interface{}{"expression": e}, "the syntax tree changed during the history")
		}
		if ev.Expression() != e {
			r.Violate("expression-not-source", e, map[string]interface{}{"expression": e}, "Expression() changed to "+ev.Expression())
		}
		if i%40 == 0 {
			r.Sample(map[string]interface{}{"expression": e, "history_outcomes": trace})
		}
	}
	c13InPlaceAndNested(r, n/2, hist)
	c13RepeatStability(r, n/2)
	c13PanickingHooksAndCrowds(r)
	c13ExpressionText(r)
	c13LongAliasPaths(r)
	c13TiedKeyOrders(r)
	c13JSONNumbers(r)
	c13BadPatternsTwice(r)
	c17FirstError(r)
	sameTypeDifferentShape(r, "history-dependent")
	// filters
	for i := 0; i < n/2; i++ {
		rng = NewRng(mix(r.Seed, strHash("C13f"), uint64(i)))
		e := pick(rng, []string{"A == 1", "B matches `^a`", "M.k == 1", "not A == 2 and B != b", "zz == 1"})
		f, err := bexpr.CreateFilter(e)
		if err != nil {
			continue
		}
		arrays := []interface{}{[2]interface{}{S1{A: 1}, 1}, [3]S1{{A: 1}, {A: 2}, {A: 1}}, [2]map[string]interface{}{{"A": 1}, {"A": 2}}, [1]S2{}, map[string]S1{"k": {A: 1}}}
		for k := 0; k < hist; k++ {
			t := structTypes[0]
			sz := rng.Intn(4)
			lst := reflect.MakeSlice(reflect.SliceOf(t), sz, sz)
			for j := 0; j < sz; j++ {
				lst.Index(j).Set(genValue(t, 2))
			}
			d := lst.Interface()
			if k%2 == 1 {
				d = arrays[(k/2)%len(arrays)]
			}
			before := sIface(d)
			k1 := filterKept(f, d) + " " + executeWith(f, d)
			fresh, _ := bexpr.CreateFilter(e)
			k2 := filterKept(fresh, d) + " " + executeWith(fresh, d)
			r.Evaluations++
			if k1 != k2 {
				r.Violate("filter-history-dependent", e, map[string]interface{}{"expression": e, "datum": describe(d)}, k1+" vs fresh "+k2)
			}
			if sIface(d) != before {
				r.Violate("datum-modified", e, map[string]interface{}{"expression": e, "datum": describe(d)}, "the input changed during Execute")
			}
		}
	}
}

// ---------- C12: concurrency (built with -race) ----------

func runC12(r *Run) {
	coldStart(r) // must come before any other use of the library in this process
	r.Rule = "one Evaluator / Filter shared by 16 goroutines, each making 20 (thorough 200) calls on the same and on different data, for expressions covering every operator incl. first use of matches / not matches, quantifiers, unknown value and hooks; evaluators are also created concurrently; the binary is built with the race detector, whose happens-before verdict does not depend on the schedule observed; predicate: no race report, every concurrent result equals the sequential one, the shared tree (VerifAST) is unchanged; distinct = (expression, datum index)"
	exprs := []string{"A == 1", "B != a", "1 in LI", "L contains a", "B is empty", "M is not empty", "B matches `^a+`", "B not matches `b$`", "any L as x { x matches `o` }", "all M as k, v { v == 1 and k matches `^k` }",
		"zz == 1", "M.zz != 1", "P == 1", "I == a", "any LS as s { s.A == 1 or s.B matches `x` }", "not A == 1 and B matches `^a+`", "X.B matches `[`",
		"any a.b.c as v { gate == A and v == x }", "all a.b.c as i, v { v != zz and i != 9 }", "any a.b.c.d.e as v { v == 1 }", "any a.b.m as k, v { k == p and v == 1 }", "any a.b.c as v { any a.b.c as w { w == v } }"}
	data := []interface{}{S1{A: 1, B: "aaa", L: []string{"a", "foo"}, M: map[string]int{"k1": 1}}, &S1{A: 2, B: ""}, S2{LS: []S1{{A: 1}, {B: "x"}}, X: S1{B: "q"}}, S3{LI: []interface{}{1, nil, "a"}}, map[string]interface{}{"A": 1, "B": "ab", "L": []interface{}{"o"}}, nil,
		map[string]interface{}{"gate": "A", "a": map[string]interface{}{"b": map[string]interface{}{"c": []interface{}{"y", "x", "z"}, "m": map[string]interface{}{"p": 1, "q": 2}}}},
		map[string]interface{}{"gate": "B", "a": map[string]interface{}{"b": map[string]interface{}{"c": map[string]interface{}{"d": map[string]interface{}{"e": []int{3, 2, 1}}}}}}}
	// quantified collections below 1..17 path segments, all in one document
	{
		var cur interface{} = map[string]interface{}{"L": []interface{}{"y", "x"}}
		for i := 17; i >= 1; i-- {
			cur = map[string]interface{}{fmt.Sprintf("s%d", i): cur, "L": []interface{}{"y", "x", i}}
		}
		chain := cur.(map[string]interface{})
		chain["gate"] = "A"
		data = append(data, chain)
		prefix := ""
		for n := 1; n <= 17; n++ {
			if n != 3 && n != 5 {
				exprs = append(exprs, "any "+prefix+"L as v { gate == A and v == x }")
			}
			prefix += fmt.Sprintf("s%d.", n)
		}
	}
	calls := 20
	if r.Tier == "thorough" {
		calls = 200
	}
	const G = 16
	type optset struct {
		name string
		o    func() []bexpr.Option
	}
	optsets := []optset{
		{"none", func() []bexpr.Option { return nil }},
		{"unknown", func() []bexpr.Option { return []bexpr.Option{bexpr.WithUnknownValue("aaa")} }},
		{"hook", func() []bexpr.Option { return []bexpr.Option{bexpr.WithHookFn(hookFn(2))} }},
		{"unknown-json-number", func() []bexpr.Option {
			return []bexpr.Option{bexpr.WithUnknownValue(json.Number("1")), bexpr.WithTagName("bexpr")}
		}},
		// option lists of 3 and 5-7 entries (slices that grow by doubling keep a spare slot at these lengths), local variables among them
		{"tag-empty", func() []bexpr.Option { return []bexpr.Option{bexpr.WithTagName("")} }},
		{"budget-large", func() []bexpr.Option { return []bexpr.Option{bexpr.WithMaxExpressions(100000)} }},
		// a budget that suffices for the short expressions only: whatever served such a creation must not carry the budget into the next one
		{"budget-3000", func() []bexpr.Option { return []bexpr.Option{bexpr.WithMaxExpressions(3000)} }},
		{"locals-3", func() []bexpr.Option {
			return []bexpr.Option{bexpr.WithLocalVariable("lv1", nil, 1), bexpr.WithLocalVariable("lv2", []string{"A"}, nil), bexpr.WithLocalVariable("lv3", nil, "x")}
		}},
		{"locals-6", func() []bexpr.Option {
			return []bexpr.Option{bexpr.WithLocalVariable("lv1", nil, 1), bexpr.WithTagName("bexpr"), bexpr.WithLocalVariable("lv2", []string{"A"}, nil), bexpr.WithLocalVariable("lv3", nil, "x"), bexpr.WithMaxExpressions(0), bexpr.WithLocalVariable("lv4", nil, nil)}
		}},
	}
	data = append(data, map[string]interface{}{"A": 1.0, "B": "aaa", "LI": []interface{}{1.0, uint8(1), 1}}, map[string]interface{}{"A": uint8(1), "LI": []interface{}{uint64(1), 1.5}}, map[string]interface{}{"A": "1", "LI": []interface{}{"1", int8(1)}},
		map[string]interface{}{"A": float32(1), "LI": []interface{}{float32(1), 1.0}}, map[string]interface{}{"A": json.Number("1"), "LI": []interface{}{json.Number("1"), true}})
	exprs = append(exprs, "A != 1", "1 not in LI", "any LI as x { x == 1 }")
	// a document decoded with UseNumber (numbers inside lists), shared by all goroutines like every other datum
	{
		var jd interface{}
		dec := json.NewDecoder(strings.NewReader(`{"A":1,"B":"aaa","LI":[1,443,12345678901234567890,"a",[2]],"ports":[80,443.5],"name":"web"}`))
		dec.UseNumber()
		if err := dec.Decode(&jd); err == nil {
			data = append(data, jd)
		}
	}
	exprs = append(exprs, `443 in ports and name == "web"`, "80 in ports", "ports contains 443.5")
	// body selectors of three to seven parts that begin with the bound name (path slices with spare capacity behind them)
	data = append(data, map[string]interface{}{"items": []interface{}{map[string]interface{}{"A": map[string]interface{}{"B": 0}}, map[string]interface{}{"A": map[string]interface{}{"B": 1, "C": map[string]interface{}{"D": map[string]interface{}{"E": 1}}}}}},
		map[string]interface{}{"items": []interface{}{map[string]interface{}{"A": map[string]interface{}{"B": 2}}}})
	exprs = append(exprs, "any items as x { x.A.B == 1 }", "all items as _, x { x.A.B != 7 }", "any items as x { x.A.C.D.E == 1 }", "any items as i, x { x.A.B == 1 and i != 9 }", `any items as x { x["A"]["B"] == 1 }`)
	// keys that differ in case only: the visiting order of a map is a function of the keys, not of the call
	data = append(data, map[string]interface{}{"tw": map[string]interface{}{"a": map[string]interface{}{"x": 1}, "A": 5}, "tz": map[string]interface{}{"Zone": map[string]interface{}{"x": 1}, "app": 5, "APP": 5, "zone": map[string]interface{}{"x": 2}}})
	exprs = append(exprs, "any tw as _, v { v.x == 1 }", "all tw as k, v { v.x != 1 }", "any tz as _, v { v.x == 2 }")
	dataBefore := make([]string, len(data))
	for i, d := range data {
		dataBefore[i] = sIface(d)
	}
	defer func() {
		for i, d := range data {
			if sIface(d) != dataBefore[i] {
				r.Violate("datum-modified", fmt.Sprintf("shared-datum|%d", i), map[string]interface{}{"datum_before": truncate(dataBefore[i], 300)}, "a datum shared by the goroutines is no longer what it was: "+truncate(describe(d), 300))
			}
		}
	}()
	for _, e := range exprs {
		for _, os_ := range optsets {
			fmt.Fprintf(os.Stderr, "CASE %s [%s]\n", e, os_.name)
			sharedOpts := os_.o() // ONE list of option values, handed to every concurrent creation below
			seqEv, err := bexpr.CreateEvaluator(e, os_.o()...)
			if err != nil && os_.name == "budget-3000" && strings.Contains(err.Error(), "max number of expresssions parsed") {
				continue // the budget is too small for this expression: as it should be
			}
			if err != nil {
				r.Violate("creation-failed", e+"|"+os_.name, map[string]interface{}{"expression": e, "options": os_.name}, "CreateEvaluator failed for an expression of the language: "+err.Error())
				continue
			}
			want := make([]string, len(data))
			for i, d := range data {
				want[i] = evalObs(seqEv, d)
			}
			// a fresh evaluator shared by the goroutines: first use happens concurrently
			shared, _ := bexpr.CreateEvaluator(e, os_.o()...)
			tree0 := treeSnapshot(shared.VerifAST())
			var wg sync.WaitGroup
			var mu sync.Mutex
			bad := map[string]bool{}
			for g := 0; g < G; g++ {
				wg.Add(1)
				go func(g int) {
					defer wg.Done()
					// concurrent creation as well
					own, _ := bexpr.CreateEvaluator(e, sharedOpts...)
					for k := 0; k < calls; k++ {
						i := (g + k) % len(data)
						o := evalObs(shared, data[i])
						o2 := evalObs(own, data[i])
						if o != want[i] || o2 != want[i] {
							mu.Lock()
							bad[fmt.Sprintf("datum %d: concurrent %s/%s sequential %s", i, o, o2, want[i])] = true
							mu.Unlock()
						}
					}
				}(g)
			}
			wg.Wait()
			r.Evaluations += G * calls * 2
			r.Seen(e + "|" + os_.name)
			r.Count("options:" + os_.name)
			for b := range bad {
				r.Violate("concurrent-result-differs", e, map[string]interface{}{"expression": e, "options": os_.name}, b)
			}
			if treeSnapshot(shared.VerifAST()) != tree0 {
				r.Violate("tree-modified", e, map[string]interface{}{"expression": e}, "the shared syntax tree changed")
			}
		}
		// shared Filter
		fmt.Fprintf(os.Stderr, "CASE filter %s\n", e)
		f, err := bexpr.CreateFilter(e)
		if err != nil {
			continue
		}
		lst := []S1{{A: 1, B: "aaa"}, {A: 2, B: "b"}, {A: 1, B: "ab", M: map[string]int{"k1": 1}}}
		mp := map[string]S1{"a": lst[0], "b": lst[1]}
		// slices, maps, and arrays of two different types (the result type of an array input is computed per call)
		arrA := [3]S1{lst[0], lst[1], lst[2]}
		arrB := [2]S1{lst[2], lst[0]}
		arrC := [2]int{1, 2}
		// a map in which one entry cannot be evaluated and others are accepted: what Execute returns does not depend on which it meets first
		mixed := map[string]interface{}{"a": lst[0], "b": 5, "c": lst[2], "d": lst[1], "e": S1{A: 1, B: "aaa", L: []string{"a"}}, "f": lst[0]}
		inputs := []interface{}{lst, mp, arrA, arrB, arrC, []interface{}{lst[0], 1, nil}, mixed}
		wantF := make([]string, len(inputs))
		for i, in := range inputs {
			wantF[i] = filterKept(f, in)
		}
		var wg sync.WaitGroup
		var mu sync.Mutex
		bad := map[string]bool{}
		for g := 0; g < G; g++ {
			wg.Add(1)
			go func(g int) {
				defer wg.Done()
				for k := 0; k < calls; k++ {
					i := (g + k) % len(inputs)
					if a := filterKept(f, inputs[i]); a != wantF[i] {
						mu.Lock()
						bad[fmt.Sprintf("input %d: concurrent %s sequential %s", i, a, wantF[i])] = true
						mu.Unlock()
					}
				}
			}(g)
		}
		wg.Wait()
		r.Evaluations += G * calls * 2
		for b := range bad {
			r.Violate("concurrent-filter-differs", e, map[string]interface{}{"expression": e}, b)
		}
	}
	fmt.Fprintf(os.Stderr, "CASE deep crowd\n")
	c12DeepCrowd(r)
	// types no call has met before, met by several goroutines at once (anything remembered per type is first written here)
	{
		fmt.Fprintf(os.Stderr, "CASE fresh types\n")
		needle, other := "needle", "x"
		shared := map[string]*bexpr.Evaluator{}
		for _, e := range []string{"needle in L", "L contains needle", "needle not in L", "any L as x { x == needle }", "L is not empty", "L.0 == needle", "any M as k, v { v == needle }", "needle in M"} {
			if ev, err := bexpr.CreateEvaluator(e); err == nil {
				shared[e] = ev
			}
		}
		var wg sync.WaitGroup
		var mu sync.Mutex
		bad := map[string]bool{}
		for g := 0; g < G; g++ {
			wg.Add(1)
			go func(g int) {
				defer wg.Done()
				for k := 0; k < calls; k++ {
					n := 1 + k // every goroutine meets the n-th type at about the same time
					var elemT reflect.Type
					switch k % 4 {
					case 0:
						elemT = reflect.TypeOf(&needle)
					case 1:
						elemT = strT
					case 2:
						elemT = reflect.PtrTo(reflect.TypeOf(&needle))
					default:
						elemT = ifaceT
					}
					arr := reflect.New(reflect.ArrayOf(n, elemT)).Elem()
					for j := 0; j < n; j++ {
						var v reflect.Value
						s := &other
						if j == n-1 && g%2 == 0 {
							s = &needle
						}
						switch k % 4 {
						case 0:
							v = reflect.ValueOf(s)
						case 1:
							v = reflect.ValueOf(*s)
						case 2:
							v = reflect.ValueOf(&s)
						default:
							v = reflect.ValueOf(*s)
						}
						arr.Index(j).Set(v)
					}
					st := reflect.StructOf([]reflect.StructField{{Name: "L", Type: arr.Type()}, {Name: "M", Type: reflect.MapOf(strT, arr.Type())}})
					d := reflect.New(st).Elem()
					d.Field(0).Set(arr)
					mp := reflect.MakeMap(d.Field(1).Type())
					d.Field(1).Set(mp)
					for e, ev := range shared {
						o := evalObs(ev, d.Interface())
						o2 := exprObs(e, d.Interface())
						if o != o2 {
							mu.Lock()
							bad[fmt.Sprintf("%s on a fresh [%d]%s: shared evaluator %s, own evaluator %s", e, n, elemT, o, o2)] = true
							mu.Unlock()
						}
					}
				}
			}(g)
		}
		wg.Wait()
		r.Evaluations += G * calls * len(shared)
		r.Seen("fresh-types")
		for b := range bad {
			r.Violate("concurrent-result-differs", "fresh-types", map[string]interface{}{"family": "fresh types"}, b)
		}
	}
	r.Sample(map[string]interface{}{"expression": exprs[6], "goroutines": G, "calls_per_goroutine": calls})
	r.Sample(map[string]interface{}{"expression": exprs[9], "goroutines": G, "calls_per_goroutine": calls})
	r.Notes = append(r.Notes, "race reports are written to stderr by the Go race detector and make the process exit with status 66; bin/check turns them into violations")
}
