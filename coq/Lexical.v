From Coq Require Import List ZArith String Ascii Bool NArith Lia.
Import ListNotations.
From Bexpr Require Import Base Strconv Ast Univ Eval.
Open Scope string_scope.

(* Lexical environments: every name is bound either to a constant (an index / key) or to a path from the ROOT of the datum,
   fixed when the binding is made. *)
Inductive lexb := XRoot (p : list string) | XConst (v : iface) | XBad.   (* XBad: an alias of a path that goes through a constant *)
Definition lenv := list (string * lexb).

Fixpoint lex_lookup (env : lenv) (n : string) : option lexb :=
  match env with [] => None | (m, b) :: r => if String.eqb n m then Some b else lex_lookup r n end.

(* resolve a selector path in a lexical environment: only the head can be a bound name *)
Definition lex_resolve (env : lenv) (path : list string) : result (iface + list string) :=
  match path with
  | [] => Ok (inr [])
  | h :: t =>
    match lex_lookup env h with
    | None => Ok (inr path)
    | Some (XRoot p) => Ok (inr (app p t))
    | Some (XConst v) => match t with [] => Ok (inl v) | _ => Err ELocalIsScalar end
    | Some XBad => Err ELocalIsScalar
    end
  end.

(* turn the evaluator's binding stack (innermost first) into a lexical environment: each alias is resolved
   against the bindings OUTSIDE it, once *)
Fixpoint lexify (ls : locals) : lenv :=
  match ls with
  | [] => []
  | (n, LConst v) :: r => (n, XConst v) :: lexify r
  | (n, LAlias p) :: r =>
      (n, match lex_resolve (lexify r) p with
          | Ok (inr q) => XRoot q
          | Ok (inl v) => XConst v
          | _ => XBad end) :: lexify r
  end.

(* an alias path is never empty (it is a selector path plus an index or key) *)
Definition alias_ok (ls : locals) : Prop := Forall (fun nb => match snd nb with LAlias p => p <> [] | _ => True end) ls.

(* the heart of C06's scoping clause: the evaluator's "rewrite the head and keep searching outward" loop computes
   exactly lexical resolution *)
Theorem resolve_is_lexical ls : alias_ok ls -> forall path, resolve_locals ls path = lex_resolve (lexify ls) path.
Proof.
  induction 1 as [|[n b] ls Hb _ IH]; intros path; cbn [resolve_locals lexify].
  - destruct path; reflexivity.
  - destruct path as [|h t]; [destruct b; reflexivity|].
    destruct b as [p|v]; cbn [lex_resolve lex_lookup].
    + (* alias *)
      destruct (String.eqb h n) eqn:E.
      * rewrite IH. cbn in Hb. destruct p as [|ph pt]; [congruence|]. cbn [app lex_resolve].
        destruct (lex_lookup (lexify ls) ph) as [[q|v|]|]; cbn [app]; try reflexivity.
        -- rewrite <- app_assoc. reflexivity.
        -- destruct pt; cbn [app]; [destruct t; reflexivity|reflexivity].
      * rewrite IH. reflexivity.
    + destruct (String.eqb h n) eqn:E; [reflexivity|]. rewrite IH. reflexivity.
Qed.
Print Assumptions resolve_is_lexical.
