From Coq Require Import List ZArith String Ascii Bool NArith.
Import ListNotations.
From Bexpr Require Import Base Strconv Ast Univ.
Open Scope string_scope.

Inductive errc := ENotFound | EIgnored | EBadTag | EInvalidKind | EOutOfRange | EConvert | EHookNil
  | ECoerceSyntax | ECoerceRange | ENoEquality | ENotContainer | ENotBytes | EBadRegex | EInIface
  | ENoLen | EJsonNumber | ENotIterable | EKeyType | ESameName | ELocalIsScalar | EBadNode.
Inductive outcome := Out (b : bool) (e : option errc) | Panic.

Inductive result (A : Type) := Ok (a : A) | Err (e : errc) | RPanic.
Arguments Ok {A} a. Arguments Err {A} e. Arguments RPanic {A}.

(* ---------- pointerstructure ---------- *)
Record config := { tagname : string; hook : option (rv -> rv); unknown : option iface }.

Fixpoint tag_get (tags : list (string*string)) (n : string) : string :=
  match tags with [] => "" | (k, x) :: tl => if String.eqb k n then x else tag_get tl n end.
Fixpoint before_comma (s : string) : string :=
  match s with "" => "" | String c t => if Ascii.eqb c ","%char then "" else String c (before_comma t) end.

Inductive fres := FFound (t : gtype) (v : gval) | FNotFound | FIgnored | FBadTag.
Fixpoint get_struct (tn part : string) (fs : list fdecl) (vs : list gval) (cand : option (gtype*gval)) (ign : bool) : fres :=
  match fs, vs with
  | FD name exported tags ft :: fs', v :: vs' =>
      if negb exported then get_struct tn part fs' vs' cand ign else
      let tg0 := tag_get tags tn in
      if String.eqb tg0 "" then
        if String.eqb name part then get_struct tn part fs' vs' (Some (ft, v)) ign
        else get_struct tn part fs' vs' cand ign
      else
        let tg := before_comma tg0 in
        if contains_byte "|"%char tg then FBadTag
        else if String.eqb tg "-" then
          if String.eqb name part then get_struct tn part fs' vs' (Some (ft, v)) true
          else get_struct tn part fs' vs' cand ign
        else if String.eqb tg part then FFound ft v
        else get_struct tn part fs' vs' cand ign
  | _, _ => match cand with None => FNotFound | Some (t, v) => if ign then FIgnored else FFound t v end
  end.

Definition weak_str (s : string) : string := if String.eqb s "" then "0" else s.

(* coerce a path part to a map key of type kt; result is the key as stored in the map *)
Definition coerce_key (part : string) (kt : gtype) : result gval :=
  match kind_of_type kt with
  | KString => Ok (VStr part)
  | KInterface => Ok (VIface TString (VStr part))
  | KInt | KInt8 | KInt16 | KInt32 | KInt64 =>
      match parse_int (weak_str part) 0 (bits_of (kind_of_type kt)) with POk z => Ok (VInt z) | PErr _ => Err EConvert end
  | KUint | KUint8 | KUint16 | KUint32 | KUint64 =>
      match parse_uint (weak_str part) 0 (bits_of (kind_of_type kt)) with POk z => Ok (VUint z) | PErr _ => Err EConvert end
  | KFloat32 => match parse_float (weak_str part) 32 with POk b => Ok (VF32 b) | PErr _ => Err EConvert end
  | KFloat64 => match parse_float (weak_str part) 64 with POk b => Ok (VF64 b) | PErr _ => Err EConvert end
  | KBool => match parse_bool part with POk b => Ok (VBool b) | PErr _ => if String.eqb part "" then Ok (VBool false) else Err EConvert end
  | _ => Err EConvert
  end.

Definition map_key_eqb (kt : gtype) (a b : gval) : bool :=
  match a, b with
  | VIface ta x, VIface tb y => type_eqb ta tb && key_eqb ta x y
  | VNilIface, VNilIface => true
  | _, _ => key_eqb kt a b
  end.
Fixpoint map_find (kt : gtype) (k : gval) (kvs : list (gval*gval)) : option gval :=
  match kvs with [] => None | (k', v) :: r => if map_key_eqb kt k' k then Some v else map_find kt k r end.

Definition get_step (cfg : config) (part : string) (cur : rv) : result rv :=
  let cur := strip_ptrs 8 (strip_iface cur) in
  match cur with
  | Some (t, VStruct vs) =>
      match under t with
      | TStruct _ fs =>
        match get_struct (if String.eqb (tagname cfg) "" then "pointer" else tagname cfg) part fs vs None false with
        | FFound ft v => Ok (Some (ft, v)) | FNotFound => Err ENotFound | FIgnored => Err EIgnored | FBadTag => Err EBadTag end
      | _ => Err EInvalidKind end
  | Some (t, VMap _ kvs) =>
      match coerce_key part (key_type t) with
      | Ok k => match map_find (key_type t) k kvs with Some v => Ok (Some (elem_type t, v)) | None => Err ENotFound end
      | Err e => Err e | RPanic => RPanic end
  | Some (t, VSlice _ l) | Some (t, VArray l) =>
      match parse_int (weak_str part) 0 64 with
      | POk i => if (i <? 0)%Z || (Z.of_nat (List.length l) <=? i)%Z then Err EOutOfRange
                 else match nth_error l (Z.to_nat i) with Some x => Ok (Some (elem_type t, x)) | None => Err EOutOfRange end
      | PErr _ => Err EConvert end
  | _ => Err EInvalidKind
  end.

Fixpoint get_loop (cfg : config) (parts : list string) (cur : rv) : result rv :=
  match parts with
  | [] => Ok cur
  | p :: ps =>
    match get_step cfg p cur with
    | Ok nxt =>
      match hook cfg with
      | None => get_loop cfg ps nxt
      | Some h => match h nxt with None => Err EHookNil | nxt' => get_loop cfg ps nxt' end
      end
    | Err e => Err e | RPanic => RPanic
    end
  end.

Definition get (cfg : config) (parts : list string) (d : iface) : result iface :=
  match parts with
  | [] => Ok d
  | _ => match get_loop cfg parts d with Ok v => Ok (r_interface v) | Err e => Err e | RPanic => RPanic end
  end.

(* ---------- getValue ---------- *)
Inductive lbind := LAlias (p : list string) | LConst (v : iface).
Definition locals := list (string * lbind).       (* innermost first *)

Fixpoint resolve_locals (ls : locals) (path : list string) : result (iface + list string) :=
  match ls with
  | [] => Ok (inr path)
  | (name, b) :: ls' =>
    match path with
    | [] => Ok (inr path)
    | h :: t =>
      if String.eqb h name then
        match b with
        | LConst v => match t with [] => Ok (inl v) | _ => Err ELocalIsScalar end
        | LAlias p => resolve_locals ls' (app p t)
        end
      else resolve_locals ls' path
    end
  end.

Definition not_present_ok (cfg : config) (path : list string) (d : iface) : bool :=
  match path with
  | [] | [_] => false
  | _ => match get cfg (removelast path) d with
         | Ok (Some (t, _)) => match kind_of_type t with KMap => true | _ => false end
         | _ => false end
  end.

Inductive gv := GVal (v : iface) | GAbsent.
Definition get_value (cfg : config) (ls : locals) (path : list string) (d : iface) : result gv :=
  match resolve_locals ls path with
  | Err e => Err e | RPanic => RPanic
  | Ok (inl v) => Ok (GVal v)
  | Ok (inr p) =>
    match get cfg p d with
    | Ok v => Ok (GVal v)
    | Err ENotFound =>
        match unknown cfg with
        | Some u => Ok (GVal u)
        | None => if not_present_ok cfg p d then Ok GAbsent else Err ENotFound
        end
    | Err e => Err e
    | RPanic => RPanic
    end
  end.

(* ---------- operators ---------- *)
Definition disposition (op : matchop) : bool :=
  match op with OpEq | OpIn | OpIsNotEmpty | OpMatches => false | _ => true end.

Inductive lit := LBool (b : bool) | LInt (z : Z) | LUint (z : Z) | LF32 (b : Z) | LF64 (b : Z) | LStr (s : string).
Definition perr_c (e : perr) := match e with PSyntax => ECoerceSyntax | PRange => ECoerceRange end.
Definition coerce (k : kind) (raw : string) : result lit :=
  match sclass_of k with
  | SBool => match parse_bool raw with POk b => Ok (LBool b) | PErr e => Err (perr_c e) end
  | SInt => match parse_int raw 0 64 with POk z => Ok (LInt z) | PErr e => Err (perr_c e) end
  | SUint => match parse_uint raw 0 64 with POk z => Ok (LUint z) | PErr e => Err (perr_c e) end
  | SF32 => match parse_float raw 32 with POk z => Ok (LF32 z) | PErr e => Err (perr_c e) end
  | SF64 => match parse_float raw 64 with POk z => Ok (LF64 z) | PErr e => Err (perr_c e) end
  | _ => Ok (LStr raw)
  end.

(* eqFn(matchValue, value): None = panic (wrong accessor for the kind / zero Value) *)
Definition eq_fn (c : sclass) (l : lit) (v : rv) : option bool :=
  match c, l, v with
  | SBool, LBool a, Some (_, VBool b) => Some (Bool.eqb a b)
  | SInt, LInt a, Some (_, VInt b) => Some (Z.eqb a b)
  | SUint, LUint a, Some (_, VUint b) => Some (Z.eqb a b)
  | SF32, LF32 a, Some (_, VF32 b) => Some (feq a b 24 8)
  | SF64, LF64 a, Some (_, VF64 b) => Some (feq a b 53 11)
  | SString, LStr a, Some (_, VStr b) => Some (String.eqb a b)
  | _, _, _ => None
  end.

Definition do_equal (raw : option string) (v : rv) : outcome :=
  match sclass_of (kind_of v) with
  | SNone => Out false (Some ENoEquality)
  | c => match raw with
         | None => Panic
         | Some r => match coerce (kind_of v) r with
                     | Ok l => match eq_fn c l v with Some b => Out b None | None => Panic end
                     | Err e => Out false (Some e) | RPanic => Panic end
         end
  end.

Fixpoint substr_at (p s : string) : bool :=   (* p is a prefix of s *)
  match p, s with "", _ => true | String a p', String b s' => Ascii.eqb a b && substr_at p' s' | _, _ => false end.
Fixpoint str_contains (s p : string) : bool :=
  substr_at p s || match s with "" => false | String _ t => str_contains t p end.

(* derefValue: strip every pointer level; a nil pointer (or nil interface) yields the zero Value *)
Fixpoint deref_gval (t : gtype) (v : gval) : rv :=
  match v with
  | VPtr x => deref_gval (elem_type t) x
  | VNilPtr => None
  | _ => Some (t, v)
  end.
Definition deref_value (v : rv) : rv := match v with Some (t, x) => deref_gval t x | None => None end.

Fixpoint in_iface_elems (raw : string) (els : list rv) : outcome :=
  match els with
  | [] => Out false None
  | e :: rest =>
    match deref_value (r_elem e) with     (* derefValue(value.Index(i).Elem()) *)
    | None => in_iface_elems raw rest      (* nil elements are equal to nothing *)
    | Some (dyn, x) =>
      let k := kind_of_type dyn in
      match coerce k raw with
      | Err ECoerceSyntax => in_iface_elems raw rest
      | Err _ => Out false (Some EInIface)
      | RPanic => Panic
      | Ok l =>
        match sclass_of k with
        | SNone => Out false (Some ENoEquality)
        | c => match eq_fn c l (Some (dyn, x)) with
               | None => Panic
               | Some true => Out true None
               | Some false => in_iface_elems raw rest end
        end
      end
    end
  end.

Fixpoint in_typed_elems (c : sclass) (l : lit) (els : list rv) : outcome :=
  match els with
  | [] => Out false None
  | e :: rest =>
    match deref_value e with
    | None => in_typed_elems c l rest
    | item => match eq_fn c l item with
              | None => Panic
              | Some true => Out true None
              | Some false => in_typed_elems c l rest end
    end
  end.

Definition in_elems (raw : string) (it : gtype) (els : list rv) : outcome :=
  match kind_of_type it with
  | KInterface => in_iface_elems raw els
  | k => match coerce k raw with
         | Err e => Out false (Some e) | RPanic => Panic
         | Ok l => match sclass_of k with
                   | SNone => Out false (Some ENoEquality)
                   | c => in_typed_elems c l els end
         end
  end.

Definition in_map (raw : string) (t : gtype) (kvs : list (gval * gval)) : outcome :=
  let kt := key_type t in
  let present k := Out (match map_find kt k kvs with Some _ => true | None => false end) None in
  if type_eqb kt TString then present (VStr raw)
  else match kind_of_type kt with
       | KInterface => present (VIface TString (VStr raw))
       | KString => present (VStr raw)                 (* named string keys: the literal is converted *)
       | _ => Out false (Some ENotContainer) end.

Definition do_in (raw : option string) (v : rv) : outcome :=
  match raw with None => Panic | Some raw =>
  match coerce (kind_of v) raw with
  | Err e => Out false (Some e) | RPanic => Panic
  | Ok mv =>
    match kind_of v, v with
    | KMap, Some (t, VMap _ kvs) => in_map raw t kvs
    | (KSlice | KArray), Some (t, _) =>
        match r_elems v with
        | None => Panic
        | Some els => in_elems raw (deref_type (elem_type t)) els
        end
    | KString, Some (_, VStr s) => Out (str_contains s raw) None
    | _, _ => Out false (Some ENotContainer)
    end
  end end.

Definition do_is_empty (v : rv) : outcome :=
  match kind_of v with
  | KArray | KChan | KMap | KSlice | KString =>
      match r_len v with Some n => Out (Nat.eqb n 0) None | None => Panic end
  | _ => Out false (Some ENoLen)
  end.

Definition bytes_of (v : rv) : option (option string) :=   (* None = zero Value (panic); Some None = not convertible *)
  match v with
  | None => None
  | Some (t, x) =>
    match kind_of_type t, x with
    | KString, VStr s => Some (Some s)
    | KSlice, VSlice _ l =>
        if type_eqb (elem_type t) (TUint U8)
        then Some (Some (str_of_list (map (fun b => match b with VUint z => z2b z | _ => zero end) l)))
        else Some None
    | _, _ => Some None
    end
  end.

Section WithRe.
Variable re : string -> string -> option bool.

Definition do_matches (raw : option string) (v : rv) : outcome :=
  match bytes_of v with
  | None => Out false (Some ENotBytes)
  | Some None => Out false (Some ENotBytes)
  | Some (Some subj) =>
    match raw with None => Panic | Some p =>
      match re p subj with Some b => Out b None | None => Out false (Some EBadRegex) end end
  end.

Definition negate (o : outcome) : outcome :=
  match o with Out b None => Out (negb b) None | Out _ (Some e) => Out false (Some e) | Panic => Panic end.

Definition is_json_number (t : gtype) : bool :=
  match t with TNamed n TString => String.eqb n "json.Number" | _ => false end.
Definition json_narrow (v : iface) : result iface :=
  match v with
  | Some (t, VStr s) =>
      if is_json_number t then
        match parse_int s 10 64 with
        | POk z => Ok (Some (TInt I64, VInt z))
        | PErr _ => match parse_float s 64 with POk b => Ok (Some (TF64, VF64 b)) | PErr _ => Err EJsonNumber end
        end
      else Ok v
  | _ => Ok v
  end.

Definition match_op (op : matchop) (raw : option string) (v : iface) : outcome :=
  match json_narrow v with
  | Err e => Out false (Some e) | RPanic => Panic
  | Ok v' =>
    let r := r_indirect v' in
    match op with
    | OpEq => do_equal raw r | OpNeq => negate (do_equal raw r)
    | OpIn => do_in raw r | OpNotIn => negate (do_in raw r)
    | OpIsEmpty => do_is_empty r | OpIsNotEmpty => negate (do_is_empty r)
    | OpMatches => do_matches raw r | OpNotMatches => negate (do_matches raw r)
    end
  end.

(* ---------- evaluate ---------- *)
Fixpoint show_nat (fuel : nat) (n : nat) (acc : string) : string :=
  match fuel with O => acc | S f =>
    let d := String (ascii_of_nat (48 + n mod 10)) "" in
    if Nat.ltb n 10 then d ++ acc else show_nat f (n / 10) (d ++ acc) end.
Definition dec_nat (n : nat) : string := show_nat 20 n "".

Definition opt_bind (name : string) (b : lbind) : locals := if String.eqb name "" then [] else [(name, b)].
Definition bind_elem (b : binding) (selpath : list string) (is_map : bool) (i : nat) (key : string) : locals :=
  (* innermost first = reverse of append order (default, value, index) *)
  if is_map then
    app (opt_bind (bindex b) (LConst (Some (TString, VStr key))))
   (app (opt_bind (bvalue b) (LAlias (app selpath [key])))
        (opt_bind (bdefault b) (LConst (Some (TString, VStr key)))))
  else
    app (opt_bind (bindex b) (LConst (Some (TInt I0, VInt (Z.of_nat i)))))
   (app (opt_bind (bvalue b) (LAlias (app selpath [dec_nat i])))
        (opt_bind (bdefault b) (LAlias (app selpath [dec_nat i])))).

Definition same_name (b : binding) : bool :=
  match bmode b with BIndexAndValue => String.eqb (bindex b) (bvalue b) | _ => false end.

(* byte-wise string order, as Go's < on strings *)
Fixpoint str_leb (a b : string) : bool :=
  match a, b with
  | "", _ => true
  | String _ _, "" => false
  | String x a', String y b' => if (b2z x <? b2z y)%Z then true else if (b2z y <? b2z x)%Z then false else str_leb a' b'
  end.
Fixpoint insert_sorted (k : string) (l : list string) : list string :=
  match l with [] => [k] | h :: t => if str_leb k h then k :: l else h :: insert_sorted k t end.
Definition sort_keys (l : list string) : list string := fold_right insert_sorted [] l.

Definition coll_default (op : collop) : bool := match op with CAll => true | CAny => false end.
Definition decisive (op : collop) (r : bool) : bool := match op with CAny => r | CAll => negb r end.

(* the element loop of evaluateCollectionExpression; [ev] evaluates the body under extra bindings *)
Fixpoint coll_loop (ev : locals -> outcome) (op : collop) (b : binding) (selpath : list string) (is_map : bool)
                   (i : nat) (items : list string) : outcome :=
  match items with
  | [] => Out (coll_default op) None
  | k :: rest =>
    if same_name b then Out false (Some ESameName) else
    match ev (bind_elem b selpath is_map i k) with
    | Panic => Panic
    | Out _ (Some e) => Out false (Some e)
    | Out r None => if decisive op r then Out r None else coll_loop ev op b selpath is_map (S i) rest
    end
  end.

Definition is_err (o : outcome) : bool := match o with Out _ (Some _) => true | _ => false end.

Fixpoint eval (cfg : config) (ls : locals) (e : expr) (d : iface) {struct e} : outcome :=
  match e with
  | ENot a => match eval cfg ls a d with Out b None => Out (negb b) None | Out _ (Some err) => Out false (Some err) | Panic => Panic end
  | EBin BAnd a b =>
      match eval cfg ls a d with
      | Out r err => if is_err (Out r err) || negb r then Out r err else eval cfg ls b d
      | Panic => Panic end
  | EBin BOr a b =>
      match eval cfg ls a d with
      | Out r err => if is_err (Out r err) || r then Out r err else eval cfg ls b d
      | Panic => Panic end
  | EMatch s op raw =>
      match get_value cfg ls (spath s) d with
      | Err e => Out false (Some e) | RPanic => Panic
      | Ok GAbsent => Out (disposition op) None
      | Ok (GVal v) => match_op op raw v
      end
  | EColl op s b inner =>
      match get_value cfg ls (spath s) d with
      | Err e => Out false (Some e) | RPanic => Panic
      | Ok GAbsent => Out (coll_default op) None
      | Ok (GVal v) =>
        let ev := fun ext => eval cfg (app ext ls) inner d in
        match kind_of v, v with
        | KMap, Some (t, VMap _ kvs) =>
            if type_eqb (key_type t) TString
            then coll_loop ev op b (spath s) true 0%nat (sort_keys (map (fun kv => match fst kv with VStr k => k | _ => "" end) kvs))
            else Out false (Some EKeyType)
        | (KSlice | KArray), Some (_, VSlice _ l) | (KSlice | KArray), Some (_, VArray l) =>
            coll_loop ev op b (spath s) false 0%nat (map (fun _ => "") l)
        | _, _ => Out false (Some ENotIterable)
        end
      end
  end.
End WithRe.
