(* see TableTie.v: one file per table. The kinds on which `is empty` / `is not empty` are defined: the case labels of
   doMatchIsEmpty's switch on value.Kind(), read from evaluate.go, are exactly the kinds on which the model's do_is_empty
   takes a length; every other kind is the error both operators share. *)
From Coq Require Import List String ZArith NArith Bool.
From Bexpr Require Import Base Strconv Ast Univ Eval Api Dump GoTables TableTie.
Import ListNotations.
Open Scope string_scope.

Definition has_length (k : kind) : bool :=
  match k with KArray | KChan | KMap | KSlice | KString => true | _ => false end.

Lemma is_empty_kinds : forall k, existsb (String.eqb (kind_go k)) go_is_empty_kinds = has_length k.
Proof. intros []; reflexivity. Qed.

Lemma is_empty_kinds_are_kinds : forall s, In s go_is_empty_kinds -> exists k, kind_go k = s.
Proof.
  intros s H. cbn in H.
  repeat (destruct H as [H|H]; [subst s; first [exists KArray; reflexivity|exists KChan; reflexivity|exists KMap; reflexivity|exists KSlice; reflexivity|exists KString; reflexivity]|]).
  contradiction.
Qed.

Lemma do_is_empty_by_kind : forall v,
  do_is_empty v = if has_length (kind_of v) then match r_len v with Some n => Out (Nat.eqb n 0) None | None => Panic end
                  else Out false (Some ENoLen).
Proof. intros v. unfold do_is_empty, has_length. destruct (kind_of v); reflexivity. Qed.
