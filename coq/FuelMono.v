From Coq Require Import List ZArith String Bool NArith Lia.
Import ListNotations.
From Bexpr Require Import Base Ast Unicode Peg.

(* r1 is r2 or ran out of fuel *)
Definition le_res (r1 r2 : res) : Prop := r1 = OutOfFuel \/ r1 = r2.
Lemma le_refl r : le_res r r. Proof. right; reflexivity. Qed.
Lemma le_oof r : le_res OutOfFuel r. Proof. left; reflexivity. Qed.

Lemma bindr_le r1 r2 k1 k2 : le_res r1 r2 -> (forall ok v s, le_res (k1 ok v s) (k2 ok v s)) -> le_res (bindr r1 k1) (bindr r2 k2).
Proof. intros [->| ->] Hk; [left; reflexivity|]. destruct r2; cbn; [apply Hk|apply le_refl|apply le_refl]. Qed.

Section F.
Variable g : list rule.
Variable mx : option N.
Variable action_sem : string -> frame -> string -> ares.
Variable pred_sem : string -> frame -> bool * bool.

Section R.
Variable r1 r2 : pexpr -> st -> res.
Hypothesis Hr : forall e s, le_res (r1 e s) (r2 e s).

Lemma with_frame_le e s : le_res (with_frame (r1 e) s) (with_frame (r2 e) s).
Proof. unfold with_frame. apply bindr_le; [apply Hr|]. intros; apply le_refl. Qed.
Lemma choice_le alts : forall s, le_res (choice r1 alts s) (choice r2 alts s).
Proof. induction alts as [|a alts IH]; intros s; cbn [choice]; [apply le_refl|].
  apply bindr_le; [apply with_frame_le|]. intros [|] v s'; [apply le_refl|apply IH]. Qed.
Lemma seq_le es start : forall acc s, le_res (seq r1 es start acc s) (seq r2 es start acc s).
Proof. induction es as [|a es IH]; intros acc s; cbn [seq]; [apply le_refl|].
  apply bindr_le; [apply Hr|]. intros [|] v s'; [apply IH|apply le_refl]. Qed.
Lemma star_le b : forall k1 k2 acc s, (k1 <= k2)%nat -> le_res (star r1 k1 b acc s) (star r2 k2 b acc s).
Proof.
  induction k1 as [|k1 IH]; intros k2 acc s Hk; cbn [star]; [apply le_oof|].
  destruct k2 as [|k2]; [lia|]. cbn [star].
  apply bindr_le; [apply with_frame_le|]. intros [|] v s'; [apply IH; lia|apply le_refl].
Qed.
Lemma body_le f1 f2 e s : (f1 <= f2)%nat ->
  le_res (body g action_sem pred_sem r1 f1 e s) (body g action_sem pred_sem r2 f2 e s).
Proof.
  intros Hf. destruct e; cbn [body]; try apply le_refl; try apply choice_le; try apply seq_le; try (apply star_le; exact Hf);
    try (apply bindr_le; [first [apply with_frame_le | apply Hr]|]; intros ok v s'; try apply le_refl).
  - destruct (find_rule g name); [apply with_frame_le|apply le_refl].
  - destruct ok; [apply star_le; exact Hf|apply le_refl].
Qed.
Lemma step_le f1 f2 e s : (f1 <= f2)%nat ->
  le_res (step g mx action_sem pred_sem r1 f1 e s) (step g mx action_sem pred_sem r2 f2 e s).
Proof. intros Hf. unfold step. destruct (tick mx s); [apply body_le; exact Hf|apply le_refl]. Qed.
End R.

Lemma pe_S fuel : forall e s, le_res (pe g mx action_sem pred_sem fuel e s) (pe g mx action_sem pred_sem (S fuel) e s).
Proof.
  induction fuel as [|f IH]; intros e s; [apply le_oof|].
  cbn [pe]. apply step_le; [exact IH|lia].
Qed.

(* once a run has finished, any larger amount of fuel gives the same result *)
Theorem pe_fuel_mono fuel k e s r :
  pe g mx action_sem pred_sem fuel e s = r -> r <> OutOfFuel -> pe g mx action_sem pred_sem (fuel + k) e s = r.
Proof.
  intros H Hr. induction k as [|k IH]; [rewrite Nat.add_0_r; exact H|].
  rewrite Nat.add_succ_r. destruct (pe_S (fuel + k) e s) as [E|E]; [rewrite IH in E; congruence|]. rewrite <- E. exact IH.
Qed.

(* hence two sufficient amounts of fuel agree: the parser's result is a function of the input *)
Corollary pe_fuel_agree f1 f2 e s :
  pe g mx action_sem pred_sem f1 e s <> OutOfFuel -> pe g mx action_sem pred_sem f2 e s <> OutOfFuel ->
  pe g mx action_sem pred_sem f1 e s = pe g mx action_sem pred_sem f2 e s.
Proof.
  intros H1 H2. destruct (Nat.le_ge_cases f1 f2) as [H|H].
  - replace f2 with (f1 + (f2 - f1))%nat by lia. symmetry. apply pe_fuel_mono; auto.
  - replace f1 with (f2 + (f1 - f2))%nat by lia. apply pe_fuel_mono; auto.
Qed.
End F.
Print Assumptions pe_fuel_agree.
