From Coq Require Import List ZArith String Ascii Bool NArith Lia.
Import ListNotations.
From Bexpr Require Import Base.
Open Scope string_scope.
Open Scope Z_scope.

(* the renderer's double-quoted style: printable ASCII except the quote and the backslash is literal, every other byte is \xHH *)
Definition safe (x : Z) : bool := (32 <=? x) && (x <? 127) && negb (x =? 34) && negb (x =? 92).
Definition hexdig (n : Z) : ascii := z2b (if n <? 10 then 48 + n else 87 + n).
Definition esc (c : ascii) : string :=
  let x := b2z c in
  if safe x then String c "" else String "\"%char (String "x"%char (String (hexdig (x / 16)) (String (hexdig (x mod 16)) ""))).
Fixpoint esc_all (s : string) : string := match s with "" => "" | String c t => esc c ++ esc_all t end.
Definition dq : ascii := z2b 34.
Definition quote_double (s : string) : string := String dq (esc_all s ++ String dq "").

Lemma b2z_range c : 0 <= b2z c < 256.
Proof. unfold b2z. pose proof (N_ascii_bounded c) as H. apply N2Z.inj_lt in H. cbn in H. lia. Qed.
Lemma b2z_z2b x : 0 <= x < 256 -> b2z (z2b x) = x.
Proof. intros H. unfold b2z, z2b. rewrite N_ascii_embedding; [apply Z2N.id; lia|]. apply N2Z.inj_lt. rewrite Z2N.id by lia. cbn. lia. Qed.
Lemma z2b_b2z c : z2b (b2z c) = c.
Proof. unfold b2z, z2b. rewrite N2Z.id. apply ascii_N_embedding. Qed.

Lemma unhex_hexdig n : 0 <= n < 16 -> unhex (hexdig n) = Some n.
Proof.
  intros H. unfold hexdig, unhex. destruct (Z.ltb_spec n 10).
  - rewrite b2z_z2b by lia. replace ((48 <=? 48 + n) && (48 + n <=? 57)) with true by (symmetry; apply andb_true_intro; split; apply Z.leb_le; lia). f_equal. lia.
  - rewrite b2z_z2b by lia. replace ((48 <=? 87 + n) && (87 + n <=? 57)) with false by (symmetry; apply andb_false_intro2; apply Z.leb_gt; lia).
    replace ((97 <=? 87 + n) && (87 + n <=? 102)) with true by (symmetry; apply andb_true_intro; split; apply Z.leb_le; lia). f_equal. lia.
Qed.

Lemma safe_spec x : safe x = true -> 32 <= x < 127 /\ x <> 34 /\ x <> 92.
Proof.
  unfold safe. intros H. apply andb_prop in H. destruct H as [H H92]. apply andb_prop in H. destruct H as [H H34].
  apply andb_prop in H. destruct H as [H32 H127].
  apply Z.leb_le in H32. apply Z.ltb_lt in H127. apply negb_true_iff, Z.eqb_neq in H34. apply negb_true_iff, Z.eqb_neq in H92. lia.
Qed.

(* one step of the unquote loop undoes one escaped byte *)
Lemma unquote_char_esc c rest : unquote_char (esc c ++ rest) = Some (String c "", rest).
Proof.
  unfold esc. pose proof (b2z_range c) as Hr. destruct (safe (b2z c)) eqn:Es.
  - destruct (safe_spec _ Es) as [Hs [H34 H92]].
    cbn [append unquote_char].
    replace (b2z c =? 34) with false by (symmetry; apply Z.eqb_neq; exact H34).
    replace (128 <=? b2z c) with false by (symmetry; apply Z.leb_gt; lia).
    replace (b2z c =? 92) with false by (symmetry; apply Z.eqb_neq; exact H92). reflexivity.
  - cbn [append unquote_char]. change (b2z "\"%char) with 92. change (b2z "x"%char) with 120. cbn [Z.eqb Z.leb Z.compare Pos.compare Pos.compare_cont negb].
    replace (92 =? 34) with false by reflexivity. replace (128 <=? 92) with false by reflexivity. replace (92 =? 92) with true by reflexivity. cbn [negb].
    replace (120 =? 97) with false by reflexivity. replace (120 =? 98) with false by reflexivity. replace (120 =? 102) with false by reflexivity.
    replace (120 =? 110) with false by reflexivity. replace (120 =? 114) with false by reflexivity. replace (120 =? 116) with false by reflexivity.
    replace (120 =? 118) with false by reflexivity. replace (120 =? 120) with true by reflexivity.
    cbn [hexn]. rewrite (unhex_hexdig (b2z c / 16)) by (split; [apply Z.div_pos; lia|apply Z.div_lt_upper_bound; lia]).
    rewrite (unhex_hexdig (b2z c mod 16)) by (apply Z.mod_pos_bound; lia).
    replace (0 * 16 + b2z c / 16) with (b2z c / 16) by lia.
    replace (b2z c / 16 * 16 + b2z c mod 16) with (b2z c) by (rewrite (Z.div_mod (b2z c) 16) at 1; lia).
    rewrite z2b_b2z. reflexivity.
Qed.

Lemma esc_first_not_nl c rest : match esc c ++ rest with "" => False | String a _ => Ascii.eqb a "010"%char = false end.
Proof.
  unfold esc. destruct (safe (b2z c)) eqn:Es; cbn [append]; [|reflexivity].
  destruct (safe_spec _ Es) as [Hs _].
  apply Ascii.eqb_neq. intros ->. change (b2z "010"%char) with 10 in Hs. lia.
Qed.

Lemma sapp_assoc (a b c : string) : (a ++ b) ++ c = a ++ (b ++ c).
Proof. induction a as [|x a IH]; cbn; [reflexivity|]. rewrite IH. reflexivity. Qed.
Lemma sapp_nil_r (a : string) : a ++ "" = a.
Proof. induction a as [|x a IH]; cbn; [reflexivity|]. rewrite IH. reflexivity. Qed.

Lemma unquote_loop_esc s : forall fuel acc, (String.length s < fuel)%nat ->
  unquote_loop fuel (esc_all s) acc = Some (acc ++ s).
Proof.
  induction s as [|c t IH]; intros fuel acc Hf; cbn [esc_all].
  - destruct fuel; [cbn in Hf; lia|]. cbn. rewrite sapp_nil_r. reflexivity.
  - destruct fuel as [|f]; [cbn in Hf; lia|]. cbn [unquote_loop].
    pose proof (esc_first_not_nl c (esc_all t)) as Hn. pose proof (unquote_char_esc c (esc_all t)) as Hu.
    destruct (esc c ++ esc_all t) as [|a r] eqn:E; [contradiction|]. rewrite Hn, Hu.
    rewrite (IH f (acc ++ String c "")) by (cbn in Hf; lia). rewrite sapp_assoc. reflexivity.
Qed.

Lemma length_esc_all s : (String.length s <= String.length (esc_all s))%nat.
Proof.
  induction s as [|c t IH]; cbn [esc_all String.length]; [lia|].
  assert (H : forall a b, String.length (a ++ b) = (String.length a + String.length b)%nat) by (induction a; cbn; auto).
  rewrite H. unfold esc. destruct (safe _); cbn; lia.
Qed.

(* without a backslash in the rendering, nothing was escaped *)
Lemma no_backslash_identity s : contains_byte "\"%char (esc_all s) = false -> esc_all s = s.
Proof.
  induction s as [|c t IH]; cbn [esc_all]; [reflexivity|]. unfold esc. destruct (safe (b2z c)); cbn [append contains_byte].
  - intros H. apply orb_false_iff in H. destruct H as [_ H]. rewrite (IH H). reflexivity.
  - cbn. discriminate.
Qed.

Lemma strip_quotes_quote inner : strip_quotes (String dq (inner ++ String dq "")) = inner.
Proof.
  unfold strip_quotes.
  assert (H : forall a, String.length (a ++ String dq "") = S (String.length a)) by (induction a; cbn; auto).
  rewrite H. cbn [Nat.pred].
  induction inner as [|x t IH]; cbn; [reflexivity|]. f_equal. exact IH.
Qed.

(* C16: a double-quoted literal denotes exactly the string it spells, for every byte string *)
Theorem c16_quoted_literal s : unquote (quote_double s) = Some s.
Proof.
  unfold quote_double, unquote. rewrite strip_quotes_quote.
  replace (Ascii.eqb dq "`"%char) with false by reflexivity.
  replace (b2z dq =? 34) with true by reflexivity.
  destruct (negb (contains_byte "\"%char (esc_all s))) eqn:Eb; cbn [andb].
  - apply negb_true_iff in Eb. pose proof (no_backslash_identity s Eb) as E.
    destruct (negb (contains_byte "010"%char (esc_all s)) && valid_utf8 (esc_all s)); [rewrite E; reflexivity|].
    rewrite unquote_loop_esc; [reflexivity|]. pose proof (length_esc_all s). lia.
  - rewrite unquote_loop_esc; [reflexivity|]. pose proof (length_esc_all s). lia.
Qed.
Print Assumptions c16_quoted_literal.
