From Coq Require Import List ZArith String Ascii Bool NArith Lia.
Import ListNotations.
From Bexpr Require Import Base Ast Unicode Peg Typing Actions GoGrammar Sem Term Lex Lex2 Lex3 Calc Calc2 Skel Top Atoms StrLit AtomsEq Spell C07 Ptr Sels Coll.
Open Scope string_scope.

(* The two-name binding forms of a quantifier:  i, v   i, _   _, v   (C06: all four binding modes are read as prescribed). *)
Lemma letter_free' c k : class_match cls_id_head (crune c) = true -> ws_free (c :: k).
Proof. intros H. exact (proj2 (head_letter _ H)). Qed.

Section B2.
Variables (wa wb w4 : list cell) (comma : cell) (K : list cell).
Hypothesis Hwa : Forall is_ws wa.
Hypothesis Hwb : Forall is_ws wb.
Hypothesis Hw4 : Forall is_ws w4.
Hypothesis Hcomma : crune comma = 44%Z.
Let K4 := app w4 (app K_lb K).

Lemma K4_stop : id_stop K4.
Proof. unfold K4. destruct w4 as [|x r]; [reflexivity|]. inversion Hw4; subst. apply id_stop_ws. assumption. Qed.

Lemma comma_free r : ws_free (comma :: r).
Proof. cbn. rewrite Hcomma. reflexivity. Qed.
Lemma comma_stop r : id_stop (comma :: r).
Proof. cbn. rewrite Hcomma. reflexivity. Qed.
Lemma ws_or_comma_stop r : id_stop (app wa (comma :: r)).
Proof. destruct wa as [|x w]; [apply comma_stop|]. inversion Hwa; subst. apply id_stop_ws. assumption. Qed.

Definition us_ok (u : cell) : Prop := crune u = 95%Z.

(* i, v *)
Lemma bind_iv_spec c1 cs1 c2 cs2 :
  class_match cls_id_head (crune c1) = true -> id_tail_ok cs1 -> class_match cls_id_head (crune c2) = true -> id_tail_ok cs2 ->
  spec (PRef "CollectionIdentifiers") (c1 :: app cs1 (app wa (comma :: app wb (c2 :: app cs2 K4))))
       (VBind (mk_binding BIndexAndValue "" (cells_str (c1 :: cs1)) (cells_str (c2 :: cs2)))) K4.
Proof.
  intros H1 T1 H2 T2.
  eapply ref_ok; [reflexivity|]. cbn [rexpr]. apply spec_j. apply choice_ok. apply specc_here.
  eapply action_ok.
  - apply seq_ok.
    eapply seqs_cons; [apply lab_ok; apply (ident_spec c1 cs1 _ H1 T1 (ws_or_comma_stop _))|].
    eapply seqs_cons; [apply (ws_opt_ok wa _ Hwa); apply comma_free|].
    eapply seqs_cons; [apply (lit_ok [44]%Z [comma] _); cbn; rewrite Hcomma; reflexivity|].
    eapply seqs_cons; [apply (ws_opt_ok wb _ Hwb); apply letter_free'; exact H2|].
    eapply seqs_cons; [apply lab_ok; apply (ident_spec c2 cs2 _ H2 T2 K4_stop)|]. apply seqs_nil.
  - intros G. reflexivity.
Qed.

(* i, _ *)
Lemma bind_i_spec c1 cs1 u :
  class_match cls_id_head (crune c1) = true -> id_tail_ok cs1 -> us_ok u ->
  spec (PRef "CollectionIdentifiers") (c1 :: app cs1 (app wa (comma :: app wb (u :: K4))))
       (VBind (mk_binding BIndex "" (cells_str (c1 :: cs1)) "")) K4.
Proof.
  intros H1 T1 Hu.
  assert (Hufree : ws_free (u :: K4)) by (cbn; rewrite Hu; reflexivity).
  eapply ref_ok; [reflexivity|]. cbn [rexpr]. apply spec_j. apply choice_ok.
  apply specc_next.
  { apply faction. apply fseq.
    eapply fseqs_later; [apply lab_ok; apply (ident_spec c1 cs1 _ H1 T1 (ws_or_comma_stop _))|].
    eapply fseqs_later; [apply (ws_opt_ok wa _ Hwa); apply comma_free|].
    eapply fseqs_later; [apply (lit_ok [44]%Z [comma] _); cbn; rewrite Hcomma; reflexivity|].
    eapply fseqs_later; [apply (ws_opt_ok wb _ Hwb); exact Hufree|].
    apply fseqs_here. apply flabeled. eapply fref; [reflexivity|]. cbn [rexpr]. apply faction. apply fseq. apply fseqs_here.
    apply fclass. cbn. rewrite Hu. reflexivity. }
  apply specc_here. eapply action_ok.
  - apply seq_ok.
    eapply seqs_cons; [apply lab_ok; apply (ident_spec c1 cs1 _ H1 T1 (ws_or_comma_stop _))|].
    eapply seqs_cons; [apply (ws_opt_ok wa _ Hwa); apply comma_free|].
    eapply seqs_cons; [apply (lit_ok [44]%Z [comma] _); cbn; rewrite Hcomma; reflexivity|].
    eapply seqs_cons; [apply (ws_opt_ok wb _ Hwb); exact Hufree|].
    eapply seqs_cons; [apply (lit_ok [95]%Z [u] K4); cbn; rewrite Hu; reflexivity|]. apply seqs_nil.
  - intros G. reflexivity.
Qed.

(* _, v *)
Lemma bind_v_spec u c2 cs2 :
  us_ok u -> class_match cls_id_head (crune c2) = true -> id_tail_ok cs2 ->
  spec (PRef "CollectionIdentifiers") (u :: app wa (comma :: app wb (c2 :: app cs2 K4)))
       (VBind (mk_binding BValue "" "" (cells_str (c2 :: cs2)))) K4.
Proof.
  intros Hu H2 T2.
  assert (Hidf : forall l, fspecj (PLabeled l (PRef "Identifier")) (u :: app wa (comma :: app wb (c2 :: app cs2 K4)))).
  { intros l. apply flabeled. eapply fref; [reflexivity|]. cbn [rexpr]. apply faction. apply fseq. apply fseqs_here.
    apply fclass. cbn. rewrite Hu. reflexivity. }
  eapply ref_ok; [reflexivity|]. cbn [rexpr]. apply spec_j. apply choice_ok.
  apply specc_next; [apply faction; apply fseq; apply fseqs_here; apply Hidf|].
  apply specc_next; [apply faction; apply fseq; apply fseqs_here; apply Hidf|].
  apply specc_here. eapply action_ok.
  - apply seq_ok.
    eapply seqs_cons; [apply (lit_ok [95]%Z [u] _); cbn; rewrite Hu; reflexivity|].
    eapply seqs_cons; [apply (ws_opt_ok wa _ Hwa); apply comma_free|].
    eapply seqs_cons; [apply (lit_ok [44]%Z [comma] _); cbn; rewrite Hcomma; reflexivity|].
    eapply seqs_cons; [apply (ws_opt_ok wb _ Hwb); apply letter_free'; exact H2|].
    eapply seqs_cons; [apply lab_ok; apply (ident_spec c2 cs2 _ H2 T2 K4_stop)|]. apply seqs_nil.
  - intros G. reflexivity.
Qed.
End B2.
Print Assumptions bind_v_spec.

(* packaged for the header record of Coll.v *)
Lemma bspec_iv c1 cs1 wa comma wb c2 cs2 :
  Forall is_ws wa -> Forall is_ws wb -> crune comma = 44%Z ->
  class_match cls_id_head (crune c1) = true -> id_tail_ok cs1 -> class_match cls_id_head (crune c2) = true -> id_tail_ok cs2 ->
  forall w4 K, Forall is_ws w4 ->
  spec (PRef "CollectionIdentifiers") (app (c1 :: app cs1 (app wa (comma :: app wb (c2 :: cs2)))) (app w4 (app K_lb K)))
       (VBind (mk_binding BIndexAndValue "" (cells_str (c1 :: cs1)) (cells_str (c2 :: cs2)))) (app w4 (app K_lb K)).
Proof.
  intros Hwa Hwb Hc H1 T1 H2 T2 w4 K Hw4.
  repeat (cbn [app]; rewrite <- ?app_assoc). cbn [app].
  exact (bind_iv_spec wa wb w4 comma K Hwa Hwb Hw4 Hc c1 cs1 c2 cs2 H1 T1 H2 T2).
Qed.

Definition chz (z : Z) : cell := {| crune := z; cbytes := String (ascii_of_N (Z.to_N z)) ""; cvalid := true |}.
Lemma hdr_name_not_not : map crune [chz 100] <> [110; 111; 116]%Z.
Proof. cbn. discriminate. Qed.
Definition hd_kv : chdr.
Proof.
  refine {| h_op := CAll; h_w1x := sp; h_w1 := []; h_sr := of_mixed (chz 100) [] [] eq_refl (Forall_nil _) (Forall_nil _) (or_introl hdr_name_not_not);
            h_w2x := sp; h_w2 := []; h_w3x := sp; h_w3 := [];
            h_bcells := chz 107 :: app [] (app [] (chz 44 :: app [sp] (chz 118 :: [])));
            h_bval := mk_binding BIndexAndValue "" (cells_str [chz 107]) (cells_str [chz 118]); h_w4 := [sp];
            h_ws1x := is_ws_sp; h_ws1 := Forall_nil _; h_ws2x := is_ws_sp; h_ws2 := Forall_nil _;
            h_ws3x := is_ws_sp; h_ws3 := Forall_nil _; h_ws4 := Forall_cons _ is_ws_sp (Forall_nil _);
            h_bspec := bspec_iv (chz 107) [] [] (chz 44) [sp] (chz 118) [] (Forall_nil _) (Forall_cons _ is_ws_sp (Forall_nil _))
                                eq_refl eq_refl (Forall_nil _) eq_refl (Forall_nil _);
            h_bfree := fun K => eq_refl; h_nokw := _ |}.
  apply mixed_hdr_nokw. intros kw Hkw. left. unfold hdr_kws in Hkw. cbn [In] in Hkw.
  destruct Hkw as [H|[H|[H|[H|[H|[]]]]]]; subst kw; discriminate.
Defined.

(* the header text is what it should be, and the computed model parser reads a quantifier with it *)
Example hd_kv_text : h_txt hd_kv = utf8_cells "all d as k, v {".
Proof. vm_compute. reflexivity. Qed.
Example hd_kv_parse : exists n e, parse go_grammar None action_sem pred_sem 5000 "all d as k, v { v is empty }" = Accepted (VExpr (EColl CAll (h_sel hd_kv) (h_bind hd_kv) e)) n.
Proof. eexists. eexists. vm_compute. reflexivity. Qed.
