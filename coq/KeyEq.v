(* Map keys: the comparison the lookup uses (Eval.map_key_eqb: Go's == on keys, IEEE equality on floats, dynamic type and value for
   interface keys) is symmetric and transitive, so in a list of entries whose keys are pairwise unequal at most one entry answers a
   lookup - whatever the order of the list. This is what makes maps with non-string keys (which cannot be quantified over, but can
   be indexed and tested for membership) order-free as well (C14). *)
From Coq Require Import List ZArith String Bool Permutation Lia.
Import ListNotations.
From Bexpr Require Import Base Strconv Ast Univ Eval.

Lemma type_eqb_sym a : forall b, type_eqb a b = type_eqb b a.
Proof.
  induction a; destruct b; cbn; try reflexivity; try apply Nat.eqb_sym; try apply String.eqb_sym; auto.
  - rewrite Nat.eqb_sym, IHa. reflexivity.
  - rewrite IHa1, IHa2. reflexivity.
Qed.

Lemma type_eqb_trans a : forall b c, type_eqb a b = true -> type_eqb b c = true -> type_eqb a c = true.
Proof.
  induction a; destruct b; cbn; try discriminate; destruct c; cbn; try discriminate; eauto;
    try (intros H1 H2; apply Nat.eqb_eq in H1, H2; apply Nat.eqb_eq; congruence);
    try (intros H1 H2; apply String.eqb_eq in H1, H2; apply String.eqb_eq; congruence);
    intros H1 H2; apply andb_true_iff in H1, H2; destruct H1 as [N1 T1], H2 as [N2 T2]; apply andb_true_iff; split; eauto.
  apply Nat.eqb_eq in N1, N2. apply Nat.eqb_eq. congruence.
Qed.

Lemma feq_sym a b p e : feq a b p e = feq b a p e.
Proof. unfold feq. rewrite (orb_comm (f_is_nan a p e)), (andb_comm (_ mod _ =? 0)%Z), (Z.eqb_sym a b). reflexivity. Qed.

Lemma feq_trans a b c p e : feq a b p e = true -> feq b c p e = true -> feq a c p e = true.
Proof.
  unfold feq. destruct (f_is_nan a p e), (f_is_nan b p e), (f_is_nan c p e); cbn; try discriminate.
  destruct ((a mod 2 ^ (p - 1 + e) =? 0)%Z) eqn:Ea, ((b mod 2 ^ (p - 1 + e) =? 0)%Z) eqn:Eb, ((c mod 2 ^ (p - 1 + e) =? 0)%Z) eqn:Ec; cbn; auto;
    intros H1 H2; try (apply Z.eqb_eq in H1); try (apply Z.eqb_eq in H2); subst; try congruence; try (apply Z.eqb_eq; congruence).
Qed.

Lemma key_eqb_sym t t' a b : key_eqb t a b = key_eqb t' b a.
Proof.
  destruct a, b; cbn; try reflexivity; try apply Z.eqb_sym; try apply feq_sym; try apply String.eqb_sym.
  destruct b, b0; reflexivity.
Qed.

Lemma key_eqb_trans t a b c : key_eqb t a b = true -> key_eqb t b c = true -> key_eqb t a c = true.
Proof.
  destruct a, b; cbn; try discriminate; destruct c; cbn; try discriminate.
  - destruct b, b0, b1; cbn; auto.
  - intros H1 H2. apply Z.eqb_eq in H1, H2. apply Z.eqb_eq. congruence.
  - intros H1 H2. apply Z.eqb_eq in H1, H2. apply Z.eqb_eq. congruence.
  - apply feq_trans.
  - apply feq_trans.
  - intros H1 H2. apply String.eqb_eq in H1, H2. apply String.eqb_eq. congruence.
Qed.

Lemma map_key_eqb_sym kt a b : map_key_eqb kt a b = map_key_eqb kt b a.
Proof.
  destruct a, b; cbn [map_key_eqb]; try apply (key_eqb_sym kt kt); try reflexivity.
  rewrite type_eqb_sym. destruct (type_eqb dyn0 dyn); [|reflexivity]. cbn. apply key_eqb_sym.
Qed.

Lemma map_key_eqb_trans kt a b c : map_key_eqb kt a b = true -> map_key_eqb kt b c = true -> map_key_eqb kt a c = true.
Proof.
  destruct a, b; cbn [map_key_eqb]; try (cbn; discriminate); destruct c; cbn [map_key_eqb]; try (cbn; discriminate); try apply key_eqb_trans; auto.
  intros H1 H2. apply andb_true_iff in H1, H2. destruct H1 as [T1 K1], H2 as [T2 K2]. apply andb_true_iff. split.
  - eapply type_eqb_trans; eassumption.
  - match type of K2 with key_eqb _ ?x ?y = true => change (key_eqb dyn x y = true) in K2 end. exact (key_eqb_trans dyn _ _ _ K1 K2).
Qed.

(* the keys of the entries are pairwise unequal under the lookup's comparison *)
Fixpoint keys_distinct (kt : gtype) (l : list (gval * gval)) : Prop :=
  match l with
  | [] => True
  | x :: r => Forall (fun y => map_key_eqb kt (fst x) (fst y) = false) r /\ keys_distinct kt r
  end.

Lemma keys_distinct_perm kt ka kb : Permutation ka kb -> keys_distinct kt ka -> keys_distinct kt kb.
Proof.
  induction 1 as [|x l l' Hp IH|x y l|l l' l'' Hp1 IH1 Hp2 IH2]; cbn [keys_distinct]; auto.
  - intros [Hx Hl]. split; [eapply Permutation_Forall; eassumption| auto].
  - intros [Hy [Hx Hl]]. inversion Hy as [|? ? Hyx Hyl]; subst. split; [constructor; [rewrite map_key_eqb_sym; exact Hyx| exact Hx]|].
    split; assumption.
Qed.

Theorem map_find_perm kt k ka kb : keys_distinct kt ka -> Permutation ka kb -> map_find kt k ka = map_find kt k kb.
Proof.
  intros Hd Hp. induction Hp as [|[kx vx] l l' Hp IH|[kx vx] [ky vy] l|l l' l'' Hp1 IH1 Hp2 IH2]; cbn [map_find].
  - reflexivity.
  - destruct Hd as [_ Hl]. rewrite (IH Hl). reflexivity.
  - destruct Hd as [Hy _]. inversion Hy as [|? ? Hyx _]; subst. cbn [fst] in Hyx.
    destruct (map_key_eqb kt ky k) eqn:Ey, (map_key_eqb kt kx k) eqn:Ex; try reflexivity.
    exfalso. rewrite (map_key_eqb_sym kt kx k) in Ex. rewrite (map_key_eqb_trans kt ky k kx Ey Ex) in Hyx. discriminate.
  - rewrite (IH1 Hd). apply IH2. eapply keys_distinct_perm; eassumption.
Qed.
Print Assumptions map_find_perm.
