From Coq Require Import List ZArith String Ascii Bool NArith Lia.
Import ListNotations.
From Bexpr Require Import Base Ast Unicode Peg Typing Actions GoGrammar Sem Term Lex Lex2 Lex3 Calc Calc2 Skel Top Atoms StrLit AtomsEq Spell Coll.
Open Scope string_scope.

(* C04 / C16:   "lit" in sel   and   sel contains "lit"   are two spellings of one tree. *)

Definition K_in := lit_cells [105; 110]%Z.
Definition K_contains := lit_cells [99; 111; 110; 116; 97; 105; 110; 115]%Z.

Lemma astop_sel_stop k : astop k -> sel_stop k.
Proof.
  destruct k as [|c k]; [intros _; repeat split|]. intros [H|[H|H]].
  - apply sel_stop_ws. exact H.
  - repeat split; cbn; rewrite H; try reflexivity; discriminate.
  - repeat split; cbn; rewrite H; try reflexivity; discriminate.
Qed.

Record qlit := {
  l_q : cell; l_x : cell; l_cs : list cell; l_q' : cell; l_lit : string;
  l_hq : crune l_q = 34%Z; l_hq' : crune l_q' = 34%Z; l_hx : crune l_x <> 47%Z;
  l_body : Forall not_dq (l_x :: l_cs);
  l_unq : unquote (cells_str (l_q :: app (l_x :: l_cs) [l_q'])) = Some l_lit }.
Definition l_cells (l : qlit) (k : list cell) : list cell := l_q l :: app (l_x l :: l_cs l) (l_q' l :: k).
Lemma l_value l k : spec (PRef "Value") (l_cells l k) (VMV (l_lit l)) k.
Proof. exact (value_quoted_spec (l_q l) (l_x l) (l_cs l) (l_q' l) k (l_lit l) (l_hq l) (l_hq' l) (l_hx l) (l_body l) (l_unq l)). Qed.

Record inatom := {
  i_lit : qlit; i_w1x : cell; i_w1 : list cell; i_w2x : cell; i_w2 : list cell;
  i_first : ident; i_rest : list ident; i_flip : bool;       (* flip: sel contains "lit" *)
  i_ws1x : is_ws i_w1x; i_ws1 : Forall is_ws i_w1; i_ws2x : is_ws i_w2x; i_ws2 : Forall is_ws i_w2;
  i_ok1 : ident_ok i_first; i_ok2 : Forall ident_ok i_rest; i_not_n : crune (fst i_first) <> 110%Z }.

Definition i_sel (a : inatom) : selector := {| stype := SelBexpr; spath := ident_str (i_first a) :: map ident_str (i_rest a) |}.
Definition i_exp (a : inatom) : expr := EMatch (i_sel a) OpIn (Some (l_lit (i_lit a))).
Definition i_selcells (a : inatom) (k : list cell) : list cell := fst (i_first a) :: app (snd (i_first a)) (dotted dotc (i_rest a) k).
Definition i_txtK (a : inatom) (k : list cell) : list cell :=
  if i_flip a
  then i_selcells a (i_w1x a :: app (i_w1 a) (app K_contains (i_w2x a :: app (i_w2 a) (l_cells (i_lit a) k))))
  else l_cells (i_lit a) (i_w1x a :: app (i_w1 a) (app K_in (i_w2x a :: app (i_w2 a) (i_selcells a k)))).
Definition i_txt (a : inatom) : list cell := i_txtK a [].

Lemma i_selcells_app a k1 k2 : app (i_selcells a k1) k2 = i_selcells a (app k1 k2).
Proof. unfold i_selcells. cbn [app]. rewrite <- app_assoc, dotted_app. reflexivity. Qed.

Lemma i_txt_app a k : app (i_txt a) k = i_txtK a k.
Proof.
  unfold i_txt, i_txtK, l_cells. destruct (i_flip a).
  - rewrite i_selcells_app. f_equal. repeat (cbn [app]; rewrite <- ?app_assoc). reflexivity.
  - repeat (cbn [app]; rewrite <- ?app_assoc). rewrite i_selcells_app. reflexivity.
Qed.

Lemma i_sel_spec a k : sel_stop k -> spec (PRef "Selector") (i_selcells a k) (VSel (i_sel a)) k.
Proof. intros Hk. exact (selector_spec dotc (i_first a) (i_rest a) k eq_refl Hk (i_ok1 a) (i_ok2 a)). Qed.

Lemma letter_free c k : class_match cls_id_head (crune c) = true -> ws_free (c :: k).
Proof. intros H. exact (proj2 (head_letter _ H)). Qed.

Lemma i_parse a k : astop k -> spec (PRef "MatchExpression") (app (i_txt a) k) (VExpr (i_exp a)) k.
Proof.
  intros Hk. rewrite i_txt_app. unfold i_txtK. destruct (i_flip a) eqn:Ef.
  - (* sel contains "lit" : first alternative; == and != fail, contains matches *)
    set (K1 := i_w1x a :: app (i_w1 a) (app K_contains (i_w2x a :: app (i_w2 a) (l_cells (i_lit a) k)))).
    eapply ref_ok; [reflexivity|]. cbn [rexpr]. apply spec_j. apply choice_ok. apply specc_here. apply spec_j.
    eapply ref_ok; [reflexivity|]. cbn [rexpr]. eapply action_ok.
    + apply seq_ok.
      eapply seqs_cons; [apply lab_ok; apply (i_sel_spec a K1); apply sel_stop_ws; exact (i_ws1x a)|].
      eapply seqs_cons.
      * apply lab_ok. apply choice_ok.
        apply specc_next.
        { eapply fref; [reflexivity|]. cbn [rexpr]. apply faction. apply fseq.
          eapply fseqs_later; [apply (ws_opt_ok (i_w1x a :: i_w1 a) _ (Forall_cons _ (i_ws1x a) (i_ws1 a))); reflexivity|].
          apply fseqs_here. refine (fails_f (head_not 61) _ _ (fails_lit 61 [61]%Z) _). cbn. discriminate. }
        apply specc_next.
        { eapply fref; [reflexivity|]. cbn [rexpr]. apply faction. apply fseq.
          eapply fseqs_later; [apply (ws_opt_ok (i_w1x a :: i_w1 a) _ (Forall_cons _ (i_ws1x a) (i_ws1 a))); reflexivity|].
          apply fseqs_here. refine (fails_f (head_not 33) _ _ (fails_lit 33 [61]%Z) _). cbn. discriminate. }
        apply specc_here. apply spec_j. eapply ref_ok; [reflexivity|]. cbn [rexpr]. eapply action_ok with (v' := VMOp OpIn).
        { apply seq_ok. unfold K1.
          eapply seqs_cons; [apply (ws_plus_ok (i_w1x a) (i_w1 a) _ (i_ws1x a) (i_ws1 a)); reflexivity|].
          eapply seqs_cons; [apply (lit_ok [99; 111; 110; 116; 97; 105; 110; 115]%Z K_contains _ eq_refl)|].
          eapply seqs_cons; [apply (ws_plus_ok (i_w2x a) (i_w2 a) _ (i_ws2x a) (i_ws2 a)); cbn; rewrite (l_hq (i_lit a)); reflexivity|].
          apply seqs_nil. }
        intros G. reflexivity.
      * eapply seqs_cons; [apply lab_ok; apply l_value| apply seqs_nil].
    + intros G. reflexivity.
  - (* "lit" in sel : the first two alternatives fail at the selector, the third reads value, in, selector *)
    set (K1 := i_w1x a :: app (i_w1 a) (app K_in (i_w2x a :: app (i_w2 a) (i_selcells a k)))).
    assert (Hself : fspecj (PRef "Selector") (l_cells (i_lit a) K1)).
    { unfold l_cells. cbn [app].
      exact (selector_fails_on_quote (l_q (i_lit a)) (l_x (i_lit a)) _ (l_hq (i_lit a)) (l_hx (i_lit a))
               (Forall_inv (l_body (i_lit a)))). }
    eapply ref_ok; [reflexivity|]. cbn [rexpr]. apply spec_j. apply choice_ok.
    apply specc_next.
    { eapply fref; [reflexivity|]. cbn [rexpr]. apply faction. apply fseq. apply fseqs_here. apply flabeled. exact Hself. }
    apply specc_next.
    { eapply fref; [reflexivity|]. cbn [rexpr]. apply faction. apply fseq. apply fseqs_here. apply flabeled. exact Hself. }
    apply specc_here. apply spec_j. eapply ref_ok; [reflexivity|]. cbn [rexpr]. apply spec_j. apply choice_ok. apply specc_here.
    eapply action_ok.
    + apply seq_ok.
      eapply seqs_cons; [apply lab_ok; apply (l_value (i_lit a) K1)|].
      eapply seqs_cons.
      * apply lab_ok. apply choice_ok. apply specc_here. apply spec_j.
        eapply ref_ok; [reflexivity|]. cbn [rexpr]. eapply action_ok with (v' := VMOp OpIn).
        { apply seq_ok. unfold K1.
          eapply seqs_cons; [apply (ws_plus_ok (i_w1x a) (i_w1 a) _ (i_ws1x a) (i_ws1 a)); reflexivity|].
          eapply seqs_cons; [apply (lit_ok [105; 110]%Z K_in _ eq_refl)|].
          eapply seqs_cons; [apply (ws_plus_ok (i_w2x a) (i_w2 a) _ (i_ws2x a) (i_ws2 a)); apply letter_free; exact (proj1 (i_ok1 a))|].
          apply seqs_nil. }
        intros G. reflexivity.
      * eapply seqs_cons; [apply lab_ok; apply (i_sel_spec a k (astop_sel_stop k Hk))| apply seqs_nil].
    + intros G. reflexivity.
Qed.

(* the two spellings denote the same tree *)
Corollary c04_in_contains_same_tree a b : i_lit a = i_lit b -> i_first a = i_first b -> i_rest a = i_rest b -> i_exp a = i_exp b.
Proof. intros H1 H2 H3. unfold i_exp, i_sel. rewrite H1, H2, H3. reflexivity. Qed.
Print Assumptions i_parse.

Lemma i_head_cases a k : exists c r, app (i_txt a) k = c :: r /\
  ((class_match cls_id_head (crune c) = true /\ crune c <> 110%Z) \/ crune c = 34%Z).
Proof.
  rewrite i_txt_app. unfold i_txtK. destruct (i_flip a).
  - eexists _, _. split; [reflexivity|]. left. split; [exact (proj1 (i_ok1 a))| exact (i_not_n a)].
  - eexists _, _. split; [reflexivity|]. right. exact (l_hq (i_lit a)).
Qed.

Lemma i_not_paren a k : head_not 40 (app (i_txt a) k).
Proof.
  destruct (i_head_cases a k) as [c [r [E [[H _]|H]]]]; rewrite E; cbn.
  - exact (proj1 (head_letter _ H)).
  - rewrite H. discriminate.
Qed.
Lemma i_head a k : ws_free (app (i_txt a) k).
Proof.
  destruct (i_head_cases a k) as [c [r [E [[H _]|H]]]]; rewrite E; cbn.
  - exact (proj2 (head_letter _ H)).
  - rewrite H. reflexivity.
Qed.
Lemma i_not_not a k : fspecj not_alt1 (app (i_txt a) k).
Proof.
  destruct (i_head_cases a k) as [c [r [E [[_ H]|H]]]]; rewrite E; apply faction; apply fseq; apply fseqs_here;
    refine (fails_f (head_not 110) _ _ (fails_lit 110 [111; 116]%Z) _); cbn; [exact H| rewrite H; discriminate].
Qed.

(* all three atom families, with quantifiers *)
Definition atom3 := (atom2 + inatom)%type.
Definition atxt3 (a : atom3) : list cell := match a with inl a => atxt2 a | inr a => i_txt a end.
Definition aexp3 (a : atom3) : expr := match a with inl a => aexp2 a | inr a => i_exp a end.

Theorem c16_full_parse3 input e t w0 w1 :
  rOr atom3 atxt3 aexp3 chdr h_txt h_op h_sel h_bind e t -> Forall is_ws w0 -> Forall is_ws w1 ->
  utf8_cells input = app w0 (app t w1) -> all_valid (utf8_cells input) ->
  exists f0, forall f, (f0 <= f)%nat -> exists n, parse go_grammar None action_sem pred_sem f input = Accepted (VExpr e) n.
Proof.
  apply (c16_parse_round_trip atom3 atxt3 aexp3).
  - intros [[a|a]|a] k; [apply atom_parse| apply e_parse| apply i_parse].
  - intros [[a|a]|a] k; [apply atom_not_paren| apply e_not_paren| apply i_not_paren].
  - intros [[a|a]|a] k; [apply atom_not_not| apply e_not_not| apply i_not_not].
  - intros [[a|a]|a] k; [apply atom_head| apply e_head| apply i_head].
  - apply hdr_parse_c.
  - apply hdr_and_fails_c.
  - apply hdr_head_c.
Qed.
Print Assumptions c16_full_parse3.
