(* Executable entry points of the model, as run by the correspondence checks (extracted to OCaml by
   ExtractAll.v, and evaluated inside Coq with vm_compute by the kernel path).  Definitions only. *)
From Coq Require Import List String ZArith NArith.
From Bexpr Require Import Base Strconv Ast Unicode Peg Typing Actions GoGrammar PegGrammar Canon Univ Eval Api Dump Quote Wt Hooks Json JsonOps JsonEval.
Import ListNotations.
Open Scope string_scope.

Definition big_fuel : nat := 200000.
(* canon_go / canon_peg: labels renamed back to the names the action semantics uses; the identity on the unchanged tree (CanonId.v) *)
Definition model_parse (mx : option N) (s : string) : presult := parse (canon_go go_grammar) mx action_sem pred_sem big_fuel s.
Definition model_parse_peg (mx : option N) (s : string) : presult := parse (canon_peg peg_grammar) mx action_sem pred_sem big_fuel s.
Definition parse_expr (mx : option N) (s : string) : option expr :=
  match model_parse mx s with Accepted (VExpr e) _ => Some e | _ => None end.

(* the hook family: Hooks.v (hook_of), with the proof that each member preserves well-typedness *)
Definition model_eval (re : string -> string -> option bool) (tag : string) (unk : option iface) (hk : nat) (e : expr) (d : iface) : outcome :=
  eval re {| tagname := tag; hook := hook_of hk; unknown := unk |} [] e d.

(* option lists as the harness passes them *)
Inductive mopt := MMax (n : N) | MTag (s : string) | MHook (n : nat) | MUnknown (v : iface) | MNil.
Definition opt_of (m : mopt) : opt :=
  match m with MMax n => OMaxExpr n | MTag s => OTagName s | MHook n => OHook (hook_of n) | MUnknown v => OUnknown v | MNil => ONil end.
Definition model_create (src : string) (os : list mopt) : option evaluator := create parse_expr src (map opt_of os).
Definition model_evaluate (re : string -> string -> option bool) (src : string) (os : list mopt) (d : iface) : option outcome :=
  match model_create src os with Some ev => Some (evaluate re ev d) | None => None end.
(* CreateFilter: the empty expression gives the nil filter *)
Definition model_execute (re : string -> string -> option bool) (src : string) (os : list mopt) (d : iface) : option exres :=
  if String.eqb src "" then Some (execute re None d)
  else match model_create src os with Some ev => Some (execute re (Some ev) d) | None => None end.
Definition model_dump (ind : string) (lvl : nat) (e : expr) : string := dump go_quote ind lvl e.

(* the documented interpreter over JSON documents (JsonEval.v: proved equal to Evaluate on such documents) *)
Definition model_jeval (re : string -> string -> option bool) (unk : option json) (e : expr) (j : json) : option bool := jeval re unk [] e j.
