From Coq Require Import List ZArith String Ascii Bool NArith.
Import ListNotations.
From Bexpr Require Import Base Ast Unicode.
Open Scope string_scope.

Record charclass := { cc_val : string; cc_chars : list Z; cc_ranges : list Z;
  cc_classes : list string; cc_ignore_case : bool; cc_inverted : bool }.

Inductive pexpr :=
| PAction (id : string) (e : pexpr)
| PAndCode (id : string) | PNotCode (id : string)
| PAnd (e : pexpr) | PNot (e : pexpr)
| PAny | PClass (c : charclass) | PLit (s : list Z) (ic : bool)
| PChoice (alts : list pexpr) | PSeq (es : list pexpr)
| PLabeled (l : string) (e : pexpr) | PRef (name : string)
| PStar (e : pexpr) | PPlus (e : pexpr) | POpt (e : pexpr).

Record rule := { rname : string; rdisplay : string; rexpr : pexpr }.

Fixpoint find_rule (g : list rule) (n : string) : option rule :=
  match g with [] => None | r :: g' => if String.eqb (rname r) n then Some r else find_rule g' n end.

(* values produced by the parser *)
Inductive pv :=
| VNil | VBytes (s : string) | VList (l : list pv) | VStr (s : string)
| VExpr (e : expr) | VSel (s : selector) | VMOp (o : matchop) | VCOp (o : collop)
| VBind (b : binding) | VMV (raw : string).

Definition frame := list (string * pv).
Fixpoint lookup (f : frame) (l : string) : pv :=
  match f with [] => VNil | (k, v) :: f' => if String.eqb k l then v else lookup f' l end.

Record st := { inp : list cell; cnt : N; nerr : nat; fr : frame }.
Definition set_inp (s : st) (i : list cell) := {| inp := i; cnt := cnt s; nerr := nerr s; fr := fr s |}.
Definition add_err (s : st) := {| inp := inp s; cnt := cnt s; nerr := S (nerr s); fr := fr s |}.
Definition set_fr (s : st) (f : frame) := {| inp := inp s; cnt := cnt s; nerr := nerr s; fr := f |}.
Definition bind_label (s : st) (l : string) (v : pv) := set_fr s ((l, v) :: fr s).

Inductive abortc := AbMax | AbPanic.
Inductive res :=
| Done (ok : bool) (v : pv) (s : st)
| Abort (c : abortc) (s : st)
| OutOfFuel.

Definition bindr (r : res) (k : bool -> pv -> st -> res) : res :=
  match r with Done ok v s => k ok v s | Abort c s => Abort c s | OutOfFuel => OutOfFuel end.

(* run [k] in a fresh label frame (pushV ... popV) *)
Definition with_frame (k : st -> res) (s : st) : res :=
  bindr (k (set_fr s [])) (fun ok v s' => Done ok v (set_fr s' (fr s))).

(* results of semantic actions / predicates *)
Inductive ares := AVal (v : pv) | AErr (v : pv) | APanic.

(* character matching *)
Fixpoint in_ranges (c : Z) (l : list Z) : bool :=
  match l with lo :: hi :: l' => ((lo <=? c)%Z && (c <=? hi)%Z) || in_ranges c l' | _ => false end.
Definition in_table (c : Z) (t : list (Z * Z * Z)) : bool :=
  existsb (fun '(lo, hi, stp) => (lo <=? c)%Z && (c <=? hi)%Z && (((c - lo) mod stp) =? 0)%Z) t.
Definition in_uclass (c : Z) (n : string) : bool :=
  if String.eqb n "L" then in_table c uni_L else if String.eqb n "N" then in_table c uni_N else false.
Definition class_match (cc : charclass) (c : Z) : bool :=
  let m := existsb (Z.eqb c) (cc_chars cc) || in_ranges c (cc_ranges cc) || existsb (in_uclass c) (cc_classes cc) in
  if cc_inverted cc then negb m else m.

(* read(): consuming a cell makes the next one current; an invalid one records an error *)
Definition peek_err (i : list cell) (s : st) : st :=
  match i with c :: _ => if cvalid c then s else add_err s | [] => s end.
Definition advance (s : st) : st :=
  match inp s with [] => s | _ :: i => peek_err i (set_inp s i) end.

(* litMatcher: reads as it goes (errors stay even when the match fails and the position is restored) *)
Fixpoint lit_go (l : list Z) (start : list cell) (s : st) : bool * st :=
  match l with
  | [] => (true, s)
  | c :: l' => match inp s with
               | x :: _ => if Z.eqb (crune x) c then lit_go l' start (advance s) else (false, set_inp s start)
               | [] => (false, set_inp s start) end
  end.

Fixpoint cells_text (n : nat) (i : list cell) : string :=
  match n, i with S n', c :: i' => cbytes c ++ cells_text n' i' | _, _ => "" end.
Definition text_between (start cur : list cell) : string := cells_text (List.length start - List.length cur) start.

Section Eng.
Variable g : list rule.
Variable maxc : option N.
Variable action_sem : string -> frame -> string -> ares.
Variable pred_sem : string -> frame -> bool * bool.   (* (result, records an error) *)

Definition tick (s : st) : st + st :=
  let s' := {| inp := inp s; cnt := N.succ (cnt s); nerr := nerr s; fr := fr s |} in
  match maxc with
  | Some m => if (m <? cnt s')%N then inr s' else inl s'
  | None => inl s'
  end.

Section Step.
Variable rec : pexpr -> st -> res.

Fixpoint choice (alts : list pexpr) (s : st) : res :=
  match alts with
  | [] => Done false VNil s
  | a :: alts' => bindr (with_frame (rec a) s) (fun ok v s' => if ok then Done true v s' else choice alts' s')
  end.
Fixpoint seq (es : list pexpr) (start : list cell) (acc : list pv) (s : st) : res :=
  match es with
  | [] => Done true (VList (rev acc)) s
  | a :: es' => bindr (rec a s) (fun ok v s' => if ok then seq es' start (v :: acc) s' else Done false VNil (set_inp s' start))
  end.
Fixpoint star (n : nat) (b : pexpr) (acc : list pv) (s : st) : res :=
  match n with O => OutOfFuel | S n =>
    bindr (with_frame (rec b) s) (fun ok v s' => if ok then star n b (v :: acc) s' else Done true (VList (rev acc)) s') end.

Definition body (fuel : nat) (e : pexpr) (s : st) : res :=
  match e with
  | PAction id b =>
      let start := inp s in
      bindr (rec b s) (fun ok v s' =>
        if ok then
          match action_sem id (fr s') (text_between start (inp s')) with
          | AVal v' => Done true v' s'
          | AErr v' => Done true v' (add_err s')
          | APanic => Abort AbPanic (add_err s')
          end
        else Done false v s')
  | PAndCode id => let '(b, e) := pred_sem id (fr s) in Done b VNil (if e then add_err s else s)
  | PNotCode id => let '(b, e) := pred_sem id (fr s) in Done (negb b) VNil (if e then add_err s else s)
  | PAnd b => bindr (with_frame (rec b) s) (fun ok _ s' => Done ok VNil (set_inp s' (inp s)))
  | PNot b => bindr (with_frame (rec b) s) (fun ok _ s' => Done (negb ok) VNil (set_inp s' (inp s)))
  | PAny => match inp s with [] => Done false VNil s | c :: _ => Done true (VBytes (cbytes c)) (advance s) end
  | PClass cc => match inp s with
                 | [] => Done false VNil s
                 | c :: _ => if class_match cc (crune c) then Done true (VBytes (cbytes c)) (advance s) else Done false VNil s end
  | PLit l _ => let start := inp s in
                let '(ok, s') := lit_go l start s in
                if ok then Done true (VBytes (text_between start (inp s'))) s' else Done false VNil s'
  | PChoice alts => choice alts s
  | PSeq es => seq es (inp s) [] s
  | PLabeled l b => bindr (with_frame (rec b) s) (fun ok v s' => Done ok v (if ok then bind_label s' l v else s'))
  | PRef n => match find_rule g n with
              | Some r => with_frame (rec (rexpr r)) s
              | None => Done false VNil (add_err s) end
  | PStar b => star fuel b [] s
  | PPlus b => bindr (with_frame (rec b) s) (fun ok v s' => if ok then star fuel b [v] s' else Done false VNil s')
  | POpt b => bindr (with_frame (rec b) s) (fun ok v s' => Done true (if ok then v else VNil) s')
  end.

Definition step (fuel : nat) (e : pexpr) (s : st) : res :=
  match tick s with inr s' => Abort AbMax (add_err s') | inl s' => body fuel e s' end.
End Step.

Fixpoint pe (fuel : nat) (e : pexpr) (s : st) : res :=
  match fuel with O => OutOfFuel | S f => step (pe f) f e s end.

(* parse(): start rule, recover, error list *)
Inductive presult := Accepted (v : pv) (n : N) | Rejected (nerrs : nat) (n : N) (maxed : bool) | NoFuel.

Definition parse (fuel : nat) (input : string) : presult :=
  match g with
  | [] => Rejected 1 0 false
  | r0 :: _ =>
    let cells := utf8_cells input in
    let s0 := peek_err cells {| inp := cells; cnt := 0; nerr := 0; fr := [] |} in
    match with_frame (pe fuel (rexpr r0)) s0 with
    | Done true v s => if Nat.eqb (nerr s) 0 then Accepted v (cnt s) else Rejected (nerr s) (cnt s) false
    | Done false _ s => Rejected (if Nat.eqb (nerr s) 0 then 1 else nerr s) (cnt s) false
    | Abort AbMax s => Rejected (nerr s) (cnt s) true
    | Abort AbPanic s => Rejected (nerr s) (cnt s) false
    | OutOfFuel => NoFuel
    end
  end.
End Eng.
