(* see TableTie.v: one file per table, so that a table whose shape the extractor no longer recognises only affects
   the properties that speak about it *)
From Coq Require Import List String ZArith NArith Bool.
From Bexpr Require Import Base Strconv Ast Univ Eval Api Dump GoTables TableTie.
Import ListNotations.
Open Scope string_scope.

(* String() of the operators, the collection operators and binding modes: the texts ExpressionDump prints *)
Lemma match_operator_names : forall op, assoc (mop_go op) go_string_MatchOperator = Some (mop_name op).
Proof. intros []; reflexivity. Qed.
Lemma binary_operator_names :
  assoc "BinaryOpAnd" go_string_BinaryOperator = Some (bop_name BAnd) /\ assoc "BinaryOpOr" go_string_BinaryOperator = Some (bop_name BOr)
  /\ assoc "UnaryOpNot" go_string_UnaryOperator = Some "Not".
Proof. repeat split; reflexivity. Qed.
Lemma collection_names :
  assoc "CollectionOpAll" go_const_CollectionOperator = Some (cop_name CAll) /\ assoc "CollectionOpAny" go_const_CollectionOperator = Some (cop_name CAny)
  /\ go_const_CollectionBindMode = [("CollectionBindDefault", "Default"); ("CollectionBindIndex", "Index"); ("CollectionBindValue", "Value"); ("CollectionBindIndexAndValue", "Index & Value")].
Proof. repeat split; reflexivity. Qed.

