(* the action code of the selector rules, as regenerated from grammar.go, equals the copy the action semantics was written against (C07) *)
From Coq Require Import List String Bool.
From Bexpr Require Import Base Ast Unicode Peg GoGrammar ActionsPinned ActionsPinBy.
Import ListNotations.
Open Scope string_scope.

Lemma selector_actions_pinned : about selector_rules go_actions = about selector_rules pinned_actions.
Proof. vm_compute. reflexivity. Qed.
