From Coq Require Import List ZArith String Bool NArith Lia.
Import ListNotations.

(* Programs that interact with shared memory cells (the Converted slot of every `matches` node,
   the fields of the Evaluator, the datum): the part of Evaluate that matters for concurrency. *)
Section Conc.
Variables (loc val A : Type).
Variable loc_eqb : loc -> loc -> bool.

Inductive prog :=
| Ret (a : A)
| Read (l : loc) (k : val -> prog)
| Write (l : loc) (v : val) (k : prog).

Definition store := loc -> val.
Definition upd (s : store) (l : loc) (v : val) : store := fun l' => if loc_eqb l l' then v else s l'.

(* one atomic step of one goroutine *)
Definition step1 (s : store) (p : prog) : store * prog :=
  match p with
  | Ret a => (s, Ret a)
  | Read l k => (s, k (s l))
  | Write l v k => (upd s l v, k)
  end.

(* a schedule is the sequence of goroutine indices that take the next step *)
Fixpoint set_nth (ps : list prog) (i : nat) (p : prog) : list prog :=
  match ps, i with [], _ => [] | _ :: r, O => p :: r | q :: r, S j => q :: set_nth r j p end.
Fixpoint run_sched (sched : list nat) (s : store) (ps : list prog) : store * list prog :=
  match sched with
  | [] => (s, ps)
  | i :: rest => match nth_error ps i with
                 | Some p => let '(s', p') := step1 s p in run_sched rest s' (set_nth ps i p')
                 | None => run_sched rest s ps
                 end
  end.

(* running one program alone, to completion, against a fixed store *)
Fixpoint run_seq (fuel : nat) (s : store) (p : prog) : option A :=
  match fuel with O => None | S f =>
    match p with Ret a => Some a | Read l k => run_seq f s (k (s l)) | Write l v k => run_seq f (upd s l v) k end end.

Inductive write_free : prog -> Prop :=
| wf_ret a : write_free (Ret a)
| wf_read l k : (forall v, write_free (k v)) -> write_free (Read l k).

Lemma step1_write_free s p : write_free p -> fst (step1 s p) = s /\ write_free (snd (step1 s p)).
Proof. intros H. destruct H; cbn; auto using wf_ret. Qed.

Lemma set_nth_forall (P : prog -> Prop) ps i p : Forall P ps -> P p -> Forall P (set_nth ps i p).
Proof. intros H. revert i. induction H; intros [|i] Hp; cbn; auto. Qed.

(* 1. write-free programs never change the shared store, whatever the schedule *)
Theorem store_unchanged sched : forall s ps, Forall write_free ps -> fst (run_sched sched s ps) = s /\ Forall write_free (snd (run_sched sched s ps)).
Proof.
  induction sched as [|i rest IH]; intros s ps H; cbn [run_sched]; [auto|].
  destruct (nth_error ps i) as [p|] eqn:E; [|apply IH; exact H].
  assert (Hp : write_free p) by (rewrite Forall_forall in H; apply H; eapply nth_error_In; eauto).
  destruct (step1_write_free s p Hp) as [Hs Hw]. destruct (step1 s p) as [s' p']. cbn in Hs, Hw. subst s'.
  apply IH. apply set_nth_forall; assumption.
Qed.

(* 2. a step of a write-free program commutes with running it sequentially: the final answer only depends on the store *)
Lemma run_seq_step s p : write_free p -> forall fuel a, run_seq fuel s (snd (step1 s p)) = Some a -> run_seq (S fuel) s p = Some a.
Proof. intros H fuel a. destruct H; cbn [step1 snd run_seq]; [destruct fuel; cbn; auto; discriminate|auto]. Qed.

Lemma nth_set_nth_same ps : forall i (p q : prog), nth_error ps i = Some q -> nth_error (set_nth ps i p) i = Some p.
Proof. induction ps as [|x r IH]; intros [|i] p q; cbn; try discriminate; auto; try apply IH. Qed.
Lemma nth_set_nth_other ps : forall i j (p : prog), i <> j -> nth_error (set_nth ps i p) j = nth_error ps j.
Proof. induction ps as [|x r IH]; intros [|i] [|j] p H; cbn; auto; try congruence; try (apply IH; congruence). Qed.

(* 3. interleaving is irrelevant: if after the schedule goroutine j has finished with answer a, running it alone gives a *)
Theorem interleaving_irrelevant sched : forall s ps j a, Forall write_free ps ->
  nth_error (snd (run_sched sched s ps)) j = Some (Ret a) ->
  exists p fuel, nth_error ps j = Some p /\ run_seq fuel s p = Some a.
Proof.
  induction sched as [|i rest IH]; intros s ps j a H Hfin; cbn [run_sched] in Hfin.
  - exists (Ret a), 1%nat. split; [exact Hfin|reflexivity].
  - destruct (nth_error ps i) as [p|] eqn:E; [|apply IH; assumption].
    assert (Hp : write_free p) by (rewrite Forall_forall in H; apply H; eapply nth_error_In; eauto).
    destruct (step1_write_free s p Hp) as [Hs Hw]. destruct (step1 s p) as [s' p'] eqn:Est. cbn in Hs, Hw. subst s'.
    destruct (IH s (set_nth ps i p') j a (set_nth_forall _ _ _ _ H Hw) Hfin) as [q [fuel [Hq Hr]]].
    destruct (Nat.eq_dec i j) as [->|Hne].
    + rewrite (nth_set_nth_same ps j p' p E) in Hq. injection Hq as <-.
      exists p, (S fuel). split; [exact E|]. apply run_seq_step; [exact Hp|]. rewrite Est. exact Hr.
    + rewrite (nth_set_nth_other ps i j p' Hne) in Hq. exists q, fuel. auto.
Qed.

(* 4. no conflicting accesses: a data race needs a write *)
Inductive access := ARd (l : loc) | AWr (l : loc).
Fixpoint trace (fuel : nat) (s : store) (p : prog) : list access :=
  match fuel with O => [] | S f =>
    match p with Ret _ => [] | Read l k => ARd l :: trace f s (k (s l)) | Write l v k => AWr l :: trace f (upd s l v) k end end.
Definition is_write (a : access) : bool := match a with AWr _ => true | ARd _ => false end.
Theorem no_write_access p : write_free p -> forall fuel s, forallb (fun a => negb (is_write a)) (trace fuel s p) = true.
Proof. intros H fuel. revert p H. induction fuel as [|f IH]; intros p H s; [reflexivity|]. destruct H; cbn; auto. Qed.
End Conc.
Print Assumptions interleaving_irrelevant.
Print Assumptions store_unchanged.
