(* Kernel path of the correspondence check: a sample of every run's model commands is evaluated inside Coq with
   vm_compute and compared with what the extracted OCaml code printed for the same commands.  This guards the
   extraction and the OCaml driver (the volume path).  Definitions only; bin/check writes the case list. *)
From Coq Require Import List ZArith String Ascii Bool NArith.
Import ListNotations.
From Bexpr Require Import Base Strconv Ast Unicode Peg Actions GoGrammar PegGrammar Univ Eval Api Dump Quote ModelApi.
Open Scope string_scope.

Definition bs (l : list Z) : string := str_of_list (map z2b l).

Fixpoint list_eqb {A} (eqb : A -> A -> bool) (a b : list A) : bool :=
  match a, b with [], [] => true | x :: a', y :: b' => eqb x y && list_eqb eqb a' b' | _, _ => false end.
Definition seltype_eqb a b := match a, b with SelBexpr, SelBexpr | SelJsonPtr, SelJsonPtr => true | _, _ => false end.
Definition sel_eqb (a b : selector) := seltype_eqb (stype a) (stype b) && list_eqb String.eqb (spath a) (spath b).
Definition mop_n (o : matchop) : nat := match o with OpEq => 0 | OpNeq => 1 | OpIn => 2 | OpNotIn => 3 | OpIsEmpty => 4 | OpIsNotEmpty => 5 | OpMatches => 6 | OpNotMatches => 7 end.
Definition bm_n (o : bindmode) : nat := match o with BDefault => 0 | BIndex => 1 | BValue => 2 | BIndexAndValue => 3 end.
Definition bind_eqb (a b : binding) := Nat.eqb (bm_n (bmode a)) (bm_n (bmode b)) && String.eqb (bdefault a) (bdefault b)
  && String.eqb (bindex a) (bindex b) && String.eqb (bvalue a) (bvalue b).
Definition optstr_eqb (a b : option string) := match a, b with None, None => true | Some x, Some y => String.eqb x y | _, _ => false end.
Fixpoint expr_eqb (a b : expr) : bool :=
  match a, b with
  | ENot x, ENot y => expr_eqb x y
  | EBin o l r, EBin o' l' r' => (match o, o' with BAnd, BAnd | BOr, BOr => true | _, _ => false end) && expr_eqb l l' && expr_eqb r r'
  | EMatch s o v, EMatch s' o' v' => sel_eqb s s' && Nat.eqb (mop_n o) (mop_n o') && optstr_eqb v v'
  | EColl o s b i, EColl o' s' b' i' => (match o, o' with CAll, CAll | CAny, CAny => true | _, _ => false end) && sel_eqb s s' && bind_eqb b b' && expr_eqb i i'
  | _, _ => false
  end.

Inductive kcase :=
| KParse (peg : bool) (mx : option N) (input : list Z) (accepted : bool) (steps : N) (tree : option expr) (maxed : bool)
| KEval (tag : list Z) (unk : option iface) (hook : nat) (e : expr) (d : iface) (tbl : list (list Z * list Z * option bool)) (cls : nat)
| KDump (ind : list Z) (lvl : nat) (e : expr) (out : list Z).

Definition table_fn (tbl : list (list Z * list Z * option bool)) (p s : string) : option bool :=
  match find (fun e => match e with (p', s', _) => String.eqb (bs p') p && String.eqb (bs s') s end) tbl with
  | Some (_, _, r) => r | None => None end.

Definition outcome_class (o : outcome) : nat :=
  match o with Out true None => 0 | Out false None => 1 | Out false (Some _) => 2 | Out true (Some _) => 3 | Panic => 4 end.

Definition kcheck (c : kcase) : bool :=
  match c with
  | KParse peg mx input accepted steps tree maxed =>
      match (if peg then model_parse_peg else model_parse) mx (bs input), accepted, tree with
      | Accepted (VExpr e) n, true, Some e' => expr_eqb e e' && N.eqb n steps
      | Rejected _ n m, false, None => N.eqb n steps && Bool.eqb m maxed
      | _, _, _ => false
      end
  | KEval tag unk hook e d tbl cls => Nat.eqb (outcome_class (model_eval (table_fn tbl) (bs tag) unk hook e d)) cls
  | KDump ind lvl e out => String.eqb (model_dump (bs ind) lvl e) (bs out)
  end.

Fixpoint kmismatches (i : nat) (l : list kcase) : list nat :=
  match l with [] => [] | c :: l' => (if kcheck c then [] else [i]) ++ kmismatches (S i) l' end.
