(* Property C06 - any/all fold the body over elements with correct binding, order and scoping. Statements only (proofs: Props.v, Lexical.v, LexEval.v, Unroll.v). *)
From Coq Require Import List String ZArith NArith Bool Permutation. From Bexpr Require Import Base Strconv Ast Univ Eval Props Lexical LexEval Unroll. Import ListNotations.

Theorem c06_fold :
  forall (ev : locals -> outcome) (op : collop) (b : binding) (selpath : list string) (is_map : bool) (items : list string),
  same_name b = false -> forall i : nat, coll_loop ev op b selpath is_map i items = fold3 op (bodies_of ev b selpath is_map i items).
Proof. exact Props.c06_fold. Qed.
Print Assumptions c06_fold.

Theorem c06_or3_is_or :
  forall (re : string -> string -> option bool) (cfg : config) (ls : locals) (a b : expr) (d : iface),
  eval re cfg ls (EBin BOr a b) d =
  match eval re cfg ls a d with
  | Out true (Some e) => Out true (Some e)
  | Out true None => or3 (Out true None) (fun _ : unit => eval re cfg ls b d)
  | Out false e0 => or3 (Out false e0) (fun _ : unit => eval re cfg ls b d)
  | Panic => or3 Panic (fun _ : unit => eval re cfg ls b d)
  end.
Proof. exact Props.c06_or3_is_or. Qed.
Print Assumptions c06_or3_is_or.

Theorem resolve_is_lexical :
  forall ls : locals, alias_ok ls -> forall path : list string, resolve_locals ls path = lex_resolve (lexify ls) path.
Proof. exact Lexical.resolve_is_lexical. Qed.
Print Assumptions resolve_is_lexical.

Theorem c06_lexical_scoping :
  forall (re : string -> string -> option bool) (cfg : config) (d : iface) (e : expr) (ls : locals),
  alias_ok ls -> eval re cfg ls e d = lex_eval re cfg (lexify ls) e d.
Proof. exact LexEval.c06_lexical_scoping. Qed.
Print Assumptions c06_lexical_scoping.

Theorem eval_subst :
  forall (re : string -> string -> option bool) (cfg : config) (d : iface) (x ph : string) (pt : list string) (ls : list (string * lbind))
    (e : expr) (ext : locals),
  ok ph e ->
  alias_ok ext ->
  mem ph (names ext) = false ->
  eval re cfg (ext ++ (x, LAlias (ph :: pt)) :: ls)%list e d = eval re cfg (tr x ph pt ext ++ ls)%list (subst x ph pt (names ext) e) d.
Proof. exact Unroll.eval_subst. Qed.
Print Assumptions eval_subst.

Theorem c06_unroll_list :
  forall (re : string -> string -> option bool) (cfg : config) (ls : locals) (d : iface) (op : collop) (s : selector) 
    (b : binding) (P : expr) (x ph : string) (pt : list string) (v : iface) (t : gtype) (et : bool) (l : list gval),
  spath s = ph :: pt ->
  (forall (i : nat) (k : string), bind_elem b (spath s) false i k = [(x, LAlias (spath s ++ [dec_nat i]))]) ->
  same_name b = false ->
  get_value cfg ls (spath s) d = Ok (GVal v) ->
  v = Some (t, VSlice et l) ->
  kind_of v = KSlice ->
  ok ph P ->
  eval re cfg ls (EColl op s b P) d =
  fold3 op (map (fun (i : nat) (_ : unit) => eval re cfg ls (subst x ph (pt ++ [dec_nat i]) [] P) d) (seq 0 (Datatypes.length l))).
Proof. exact Unroll.c06_unroll_list. Qed.
Print Assumptions c06_unroll_list.

Theorem c06_unroll_map :
  forall (re : string -> string -> option bool) (cfg : config) (ls : locals) (d : iface) (op : collop) (s : selector) 
    (b : binding) (P : expr) (x ph : string) (pt : list string) (v : iface) (t : gtype) (n : bool) (kvs : list (gval * gval)),
  spath s = ph :: pt ->
  (forall (i : nat) (k : string), bind_elem b (spath s) true i k = [(x, LAlias (spath s ++ [k]))]) ->
  same_name b = false ->
  get_value cfg ls (spath s) d = Ok (GVal v) ->
  v = Some (t, VMap n kvs) ->
  kind_of v = KMap ->
  type_eqb (key_type t) TString = true ->
  ok ph P ->
  eval re cfg ls (EColl op s b P) d = fold3 op (map (fun (k : string) (_ : unit) => eval re cfg ls (subst x ph (pt ++ [k]) [] P) d) (skeys kvs)).
Proof. exact Unroll.c06_unroll_map. Qed.
Print Assumptions c06_unroll_map.


(* ---- the alias path S.<i> of the i-th element denotes the i-th element (DecNat.v) ---- *)
From Coq Require Import List String ZArith NArith Bool. From Bexpr Require Import Base Strconv Ast Univ Eval DecNat. Import ListNotations.

Theorem dec_nat_round_trip :
  forall n : nat, Z.of_nat n < 2 ^ 63 -> parse_int (dec_nat n) 0 64 = POk (Z.of_nat n).
Proof. exact DecNat.dec_nat_round_trip. Qed.
Print Assumptions dec_nat_round_trip.

Theorem index_part_denotes_element :
  forall (cfg : config) (t : gtype) (nl : bool) (l : list gval) (i : nat) (x : gval),
  kind_of_type t = KSlice ->
  Z.of_nat i < 2 ^ 63 -> nth_error l i = Some x -> get_step cfg (dec_nat i) (Some (t, VSlice nl l)) = Ok (Some (elem_type t, x)).
Proof. exact DecNat.index_part_denotes_element. Qed.
Print Assumptions index_part_denotes_element.


(* ---- the edge cases of the quantified collection, for every body (C06c.v) ---- *)
From Bexpr Require Import C06c.

Theorem c06_non_string_keyed_map_is_error :
  forall (re : string -> string -> option bool) (cfg : config) (ls : locals) (op : collop) (s : selector) (b : binding) 
    (inner : expr) (d : iface) (t : gtype) (nl : bool) (kvs : list (gval * gval)),
  get_value cfg ls (spath s) d = Ok (GVal (Some (t, VMap nl kvs))) ->
  kind_of_type t = KMap -> type_eqb (key_type t) TString = false -> eval re cfg ls (EColl op s b inner) d = Out false (Some EKeyType).
Proof. exact C06c.c06_non_string_keyed_map_is_error. Qed.
Print Assumptions c06_non_string_keyed_map_is_error.

Theorem c06_not_a_collection_is_error :
  forall (re : string -> string -> option bool) (cfg : config) (ls : locals) (op : collop) (s : selector) (b : binding) 
    (inner : expr) (d v : iface),
  get_value cfg ls (spath s) d = Ok (GVal v) ->
  kind_of v <> KMap -> kind_of v <> KSlice -> kind_of v <> KArray -> eval re cfg ls (EColl op s b inner) d = Out false (Some ENotIterable).
Proof. exact C06c.c06_not_a_collection_is_error. Qed.
Print Assumptions c06_not_a_collection_is_error.

Theorem c06_absent_collection :
  forall (re : string -> string -> option bool) (cfg : config) (ls : locals) (op : collop) (s : selector) (b : binding) 
    (inner : expr) (d : iface), get_value cfg ls (spath s) d = Ok GAbsent -> eval re cfg ls (EColl op s b inner) d = Out (coll_default op) None.
Proof. exact C06c.c06_absent_collection. Qed.
Print Assumptions c06_absent_collection.

Theorem c06_lookup_error_is_the_outcome :
  forall (re : string -> string -> option bool) (cfg : config) (ls : locals) (op : collop) (s : selector) (b : binding) 
    (inner : expr) (d : iface) (e : errc), get_value cfg ls (spath s) d = Err e -> eval re cfg ls (EColl op s b inner) d = Out false (Some e).
Proof. exact C06c.c06_lookup_error_is_the_outcome. Qed.
Print Assumptions c06_lookup_error_is_the_outcome.

Theorem c06_empty_list :
  forall (re : string -> string -> option bool) (cfg : config) (ls : locals) (op : collop) (s : selector) (b : binding) 
    (inner : expr) (d : iface) (t : gtype) (nl : bool),
  get_value cfg ls (spath s) d = Ok (GVal (Some (t, VSlice nl []))) ->
  kind_of_type t = KSlice -> eval re cfg ls (EColl op s b inner) d = Out (coll_default op) None.
Proof. exact C06c.c06_empty_list. Qed.
Print Assumptions c06_empty_list.

Theorem c06_empty_map :
  forall (re : string -> string -> option bool) (cfg : config) (ls : locals) (op : collop) (s : selector) (b : binding) 
    (inner : expr) (d : iface) (t : gtype) (nl : bool),
  get_value cfg ls (spath s) d = Ok (GVal (Some (t, VMap nl []))) ->
  kind_of_type t = KMap -> type_eqb (key_type t) TString = true -> eval re cfg ls (EColl op s b inner) d = Out (coll_default op) None.
Proof. exact C06c.c06_empty_map. Qed.
Print Assumptions c06_empty_map.

Theorem c06_same_name_needs_an_element :
  forall (ev : locals -> outcome) (op : collop) (b : binding) (selpath : list string) (is_map : bool) (i : nat),
  coll_loop ev op b selpath is_map i [] = Out (coll_default op) None /\
  (same_name b = true -> forall (k : string) (rest : list string), coll_loop ev op b selpath is_map i (k :: rest) = Out false (Some ESameName)).
Proof. exact C06c.c06_same_name_needs_an_element. Qed.
Print Assumptions c06_same_name_needs_an_element.


(* the code sorts the enumerated keys of a map by byte order, right after enumerating them, wherever it enumerates one on the evaluation path *)
From Bexpr Require Import GoTables TieOrder.
Theorem c06_code_visits_maps_in_key_order :
  forallb (fun r => negb (String.eqb (iter_file r) "evaluate.go") || String.eqb (iter_class r) "sorted-bytewise") GoTables.go_map_iteration = true
  /\ existsb (fun r => String.eqb (iter_file r) "evaluate.go" && String.eqb (iter_class r) "sorted-bytewise") GoTables.go_map_iteration = true.
Proof. exact (conj TieOrder.evaluation_visits_maps_in_key_order TieOrder.evaluation_enumerates_a_map). Qed.
Print Assumptions c06_code_visits_maps_in_key_order.
