(* Property C13 - evaluation is pure and history-independent; Expression() returns the source. Statements only (proofs: Api.v). That the Go code does not write to the caller's datum is tied at run time by deep comparison, not proved. *)
From Coq Require Import List String ZArith NArith Bool Permutation. From Bexpr Require Import Base Strconv Ast Univ Eval Api. Import ListNotations.

Theorem c13_history_independent :
  forall (re : string -> string -> option bool) (ev : evaluator) (calls : list iface) (d : iface),
  last (run_history re ev (calls ++ [d])) Panic = evaluate re ev d.
Proof. exact Api.c13_history_independent. Qed.
Print Assumptions c13_history_independent.

Theorem c13_expression :
  forall (parse : option N -> string -> option expr) (src : string) (os : list opt) (ev : evaluator),
  create parse src os = Some ev -> expression ev = src.
Proof. exact Api.c13_expression. Qed.
Print Assumptions c13_expression.


(* ---- static tie: no assignment to anything shared on the evaluation path, no mutable package state (TieWrites.v) ---- *)
From Coq Require Import List String Bool. From Bexpr Require Import GoTables TieWrites. Import ListNotations. Open Scope string_scope.

Theorem evaluation_path_writes_nothing_shared :
  evaluation_path_shared_writes = [].
Proof. exact TieWrites.evaluation_path_writes_nothing_shared. Qed.
Print Assumptions evaluation_path_writes_nothing_shared.

Theorem evaluation_path_is_populated :
  forallb (fun f => existsb (String.eqb f) go_eval_reachable) ["Evaluate"; "Execute"; "evaluate"] = true.
Proof. exact TieWrites.evaluation_path_is_populated. Qed.
Print Assumptions evaluation_path_is_populated.

Theorem no_mutable_package_state :
  forallb (fun v => match v with (_, _, c) => String.eqb c "fixed" || String.eqb c "unwritten" end) go_package_vars = true.
Proof. exact TieWrites.no_mutable_package_state. Qed.
Print Assumptions no_mutable_package_state.

Theorem evaluation_path_mutates_only_its_own_containers :
  evaluation_path_shared_calls = [].
Proof. exact TieWrites.evaluation_path_mutates_only_its_own_containers. Qed.
Print Assumptions evaluation_path_mutates_only_its_own_containers.

Theorem evaluation_path_builds_fresh_containers :
  existsb (fun c => existsb (String.eqb (c_fn c)) go_eval_reachable && String.eqb (c_class c) "fresh") go_mutating_calls = true.
Proof. exact TieWrites.evaluation_path_builds_fresh_containers. Qed.
Print Assumptions evaluation_path_builds_fresh_containers.
