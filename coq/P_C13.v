(* Property C13 - evaluation is pure and history-independent; Expression() returns the source. Statements only (proofs: Api.v). That the Go code does not write to the caller's datum is tied at run time by deep comparison, not proved. *)
From Coq Require Import List String ZArith NArith Bool Permutation. From Bexpr Require Import Base Strconv Ast Univ Eval Api. Import ListNotations.

Theorem c13_history_independent :
  forall (re : string -> string -> option bool) (ev : evaluator) (calls : list iface) (d : iface),
  last (run_history re ev (calls ++ [d])) Panic = evaluate re ev d.
Proof. exact Api.c13_history_independent. Qed.
Print Assumptions c13_history_independent.

Theorem c13_expression :
  forall (parse : option N -> string -> option expr) (src : string) (os : list opt) (ev : evaluator),
  create parse src os = Some ev -> expression ev = src.
Proof. exact Api.c13_expression. Qed.
Print Assumptions c13_expression.


(* ---- static tie: no field, dereference or element assignment on the evaluation path except on the per-call pointer ---- *)
From Coq Require Import List String. From Bexpr Require Import GoTables TieWrites. Import ListNotations.

Theorem evaluation_path_writes_only_the_per_call_pointer :
  evaluation_path_writes = [("evaluate.go", "evaluateNotPresent", "ptr.Parts")].
Proof. exact TieWrites.evaluation_path_writes_only_the_per_call_pointer. Qed.
Print Assumptions evaluation_path_writes_only_the_per_call_pointer.

