From Coq Require Import List ZArith String Bool.
Import ListNotations.
From Bexpr Require Import Base Ast Unicode Peg Actions GoGrammar Typing.
Open Scope string_scope.

Definition in_list (s : string) (l : list string) : bool := existsb (String.eqb s) l.

Definition rule_ty (n : string) : vty :=
  if in_list n ["Input"; "OrExpression"; "AndExpression"; "NotExpression"; "CollectionExpression"; "ParenthesizedExpression";
                "MatchExpression"; "MatchSelectorOpValue"; "MatchSelectorOp"; "MatchValueOpSelector"] then TExpr
  else if in_list n ["CollectionIdentifiers"] then TBind
  else if in_list n ["CollectionOpAny"; "CollectionOpAll"] then TCOp
  else if in_list n ["MatchEqual"; "MatchNotEqual"; "MatchIn"; "MatchNotIn"; "MatchContains"; "MatchNotContains"; "MatchMatches"; "MatchNotMatches"] then TMOpV
  else if in_list n ["MatchIsEmpty"; "MatchIsNotEmpty"] then TMOpN
  else if in_list n ["Selector"] then TSel
  else if in_list n ["JsonPointerSegment"; "Identifier"; "SelectorOrIndex"; "IndexExpression"; "NumberLiteral"; "StringLiteral"] then TStr
  else if in_list n ["Value"] then TMV
  else TAny.

Eval vm_compute in filter (fun r => negb (rule_ok rule_ty act_params act_ret r)) go_grammar.
Theorem go_grammar_typed : grammar_typed go_grammar rule_ty act_params act_ret = true.
Proof. vm_compute. reflexivity. Qed.
