(* The rounding step of the float parser model (Strconv.round_rat) is IEEE round-to-nearest, ties to even, onto the floats of
   precision p and minimal exponent emin - proved over Z for every positive rational n/d, every p >= 1 and every emin.
   A float is a pair (m, e) denoting m * 2^e; comparisons of distances are cross-multiplied so that no division occurs:
   2^z is written pp z / pn z with pp z = 2^(max 0 z), pn z = 2^(max 0 (-z)). *)
From Coq Require Import ZArith Lia Bool Znumtheory.
From Bexpr Require Import Strconv.
Open Scope Z_scope.

(* ---- the exponent search, as a top-level function (round_rat's local fix) *)
Fixpoint adjust (n d p : Z) (k : nat) (e : Z) : Z :=
  match k with O => e | S k' =>
    let q := if 0 <=? e then n / (d * 2 ^ e) else (n * 2 ^ (- e)) / d in
    if q <? 2 ^ (p - 1) then adjust n d p k' (e - 1) else if 2 ^ p <=? q then adjust n d p k' (e + 1) else e end.

Definition qat (n d e : Z) : Z := if 0 <=? e then n / (d * 2 ^ e) else (n * 2 ^ (- e)) / d.
Definition sc_num (n e : Z) : Z := if 0 <=? e then n else n * 2 ^ (- e).
Definition sc_den (d e : Z) : Z := if 0 <=? e then d * 2 ^ e else d.

Definition finish (n d p e emaxe : Z) : option (Z * Z) :=
  let num := sc_num n e in
  let den := sc_den d e in
  let q := num / den in
  let r := num mod den in
  let q' := if (den <? 2 * r) || ((2 * r =? den) && Z.odd q) then q + 1 else q in
  let '(m, e') := if 2 ^ p <=? q' then (q' / 2, e + 1) else (q', e) in
  if emaxe <? e' then None else Some (m, e').

Lemma round_rat_unfold n d p emin emaxe :
  round_rat n d p emin emaxe =
  if n =? 0 then Some (0, emin) else finish n d p (Z.max (adjust n d p 4 (Z.log2 n - Z.log2 d - p)) emin) emaxe.
Proof. reflexivity. Qed.

Lemma qat_sc n d e : qat n d e = sc_num n e / sc_den d e.
Proof. unfold qat, sc_num, sc_den. destruct (0 <=? e); reflexivity. Qed.

Lemma pow2_pos z : 0 < 2 ^ z \/ z < 0.
Proof. destruct (Z_lt_le_dec z 0) as [H|H]; [right; exact H|left; apply Z.pow_pos_nonneg; lia]. Qed.

Lemma pow2_pos' z : 0 <= z -> 0 < 2 ^ z.
Proof. intros H. apply Z.pow_pos_nonneg; lia. Qed.

Lemma sc_den_pos d e : 0 < d -> 0 < sc_den d e.
Proof. intros Hd. unfold sc_den. destruct (Z.leb_spec 0 e) as [H|H]; [|exact Hd]. pose proof (pow2_pos' e H). nia. Qed.

Lemma sc_num_pos n e : 0 < n -> 0 < sc_num n e.
Proof. intros Hn. unfold sc_num. destruct (Z.leb_spec 0 e) as [H|H]; [exact Hn|]. pose proof (pow2_pos' (- e) ltac:(lia)). nia. Qed.

(* one step up in the exponent halves the quotient *)
Lemma qat_succ n d e : 0 < n -> 0 < d -> qat n d (e + 1) = qat n d e / 2.
Proof.
  intros Hn Hd. unfold qat.
  destruct (Z.leb_spec 0 e) as [He|He].
  - destruct (Z.leb_spec 0 (e + 1)) as [_|?]; [|lia].
    rewrite Z.pow_add_r by lia. change (2 ^ 1) with 2.
    pose proof (pow2_pos' e He).
    rewrite Z.div_div by nia. f_equal. ring.
  - destruct (Z.leb_spec 0 (e + 1)) as [He1|He1].
    + assert (e = -1) by lia. subst e. change (2 ^ (-1 + 1)) with 1. change (2 ^ (- -1)) with 2.
      rewrite Z.div_div by lia. rewrite Z.mul_1_r. rewrite Z.div_mul_cancel_r by lia. reflexivity.
    + replace (- e) with (1 + - (e + 1)) by lia. rewrite Z.pow_add_r by lia. change (2 ^ 1) with 2.
      rewrite Z.div_div by lia.
      replace (n * (2 * 2 ^ - (e + 1))) with ((n * 2 ^ - (e + 1)) * 2) by ring.
      rewrite Z.div_mul_cancel_r by lia. reflexivity.
Qed.

Lemma qat_nonneg n d e : 0 < n -> 0 < d -> 0 <= qat n d e.
Proof.
  intros Hn Hd. rewrite qat_sc. apply Z.div_pos; [pose proof (sc_num_pos n e Hn); lia|apply sc_den_pos; exact Hd].
Qed.

Lemma qat_mono_nat n d e (k : nat) : 0 < n -> 0 < d -> qat n d (e + Z.of_nat k) <= qat n d e.
Proof.
  intros Hn Hd. induction k as [|k IH].
  - rewrite Z.add_0_r. lia.
  - replace (e + Z.of_nat (S k)) with (e + Z.of_nat k + 1) by lia.
    rewrite qat_succ by assumption.
    pose proof (qat_nonneg n d (e + Z.of_nat k) Hn Hd).
    assert (qat n d (e + Z.of_nat k) / 2 <= qat n d (e + Z.of_nat k)) by (apply Z.div_le_upper_bound; lia).
    lia.
Qed.

Lemma qat_mono n d e e' : 0 < n -> 0 < d -> e <= e' -> qat n d e' <= qat n d e.
Proof.
  intros Hn Hd H. replace e' with (e + Z.of_nat (Z.to_nat (e' - e))) by lia. apply qat_mono_nat; assumption.
Qed.

(* the first guess, from the bit lengths, is off by at most one binade *)
Lemma qat_first_guess n d p :
  0 < n -> 0 < d -> 1 <= p ->
  let e0 := Z.log2 n - Z.log2 d - p in 2 ^ (p - 1) <= qat n d e0 < 2 ^ (p + 1).
Proof.
  intros Hn Hd Hp e0.
  destruct (Z.log2_spec n Hn) as [Hn1 Hn2]. destruct (Z.log2_spec d Hd) as [Hd1 Hd2].
  pose proof (Z.log2_nonneg n) as Hln. pose proof (Z.log2_nonneg d) as Hld.
  set (ln := Z.log2 n) in *. set (ld := Z.log2 d) in *.
  replace (Z.succ ln) with (ln + 1) in Hn2 by lia. replace (Z.succ ld) with (ld + 1) in Hd2 by lia.
  pose proof (pow2_pos' (p - 1) ltac:(lia)) as Hp1. pose proof (pow2_pos' (p + 1) ltac:(lia)) as Hp2.
  unfold qat. destruct (Z.leb_spec 0 e0) as [He|He].
  - pose proof (pow2_pos' e0 He) as He0.
    assert (Hden : 0 < d * 2 ^ e0) by nia.
    split.
    + apply Z.div_le_lower_bound; [exact Hden|].
      (* d 2^e0 2^(p-1) < 2^(ld+1+e0+p-1) = 2^ln <= n *)
      assert (2 ^ ln = 2 ^ (ld + 1) * 2 ^ e0 * 2 ^ (p - 1)) as E.
      { rewrite <- !Z.pow_add_r by lia. f_equal. unfold e0. lia. }
      nia.
    + apply Z.div_lt_upper_bound; [exact Hden|].
      assert (2 ^ (ln + 1) = 2 ^ ld * 2 ^ e0 * 2 ^ (p + 1)) as E.
      { rewrite <- !Z.pow_add_r by lia. f_equal. unfold e0. lia. }
      nia.
  - pose proof (pow2_pos' (- e0) ltac:(lia)) as He0.
    split.
    + apply Z.div_le_lower_bound; [exact Hd|].
      assert (2 ^ ln * 2 ^ (- e0) = 2 ^ (ld + 1) * 2 ^ (p - 1)) as E.
      { rewrite <- !Z.pow_add_r by lia. f_equal. unfold e0. lia. }
      nia.
    + apply Z.div_lt_upper_bound; [exact Hd|].
      assert (2 ^ (ln + 1) * 2 ^ (- e0) = 2 ^ ld * 2 ^ (p + 1)) as E.
      { rewrite <- !Z.pow_add_r by lia. f_equal. unfold e0. lia. }
      nia.
Qed.

Lemma adjust_step n d p k e :
  adjust n d p (S k) e =
  if qat n d e <? 2 ^ (p - 1) then adjust n d p k (e - 1) else if 2 ^ p <=? qat n d e then adjust n d p k (e + 1) else e.
Proof. reflexivity. Qed.

(* two rounds of the search suffice: the exponent found puts the quotient in [2^(p-1), 2^p) *)
Lemma adjust_normalises n d p :
  0 < n -> 0 < d -> 1 <= p ->
  let e := adjust n d p 4 (Z.log2 n - Z.log2 d - p) in 2 ^ (p - 1) <= qat n d e < 2 ^ p.
Proof.
  intros Hn Hd Hp. pose proof (qat_first_guess n d p Hn Hd Hp) as H0. cbv zeta in *.
  set (e0 := Z.log2 n - Z.log2 d - p) in *.
  rewrite adjust_step.
  destruct (Z.ltb_spec (qat n d e0) (2 ^ (p - 1))) as [H1|H1]; [lia|].
  destruct (Z.leb_spec (2 ^ p) (qat n d e0)) as [H2|H2]; [|lia].
  rewrite adjust_step.
  assert (Hq : 2 ^ (p - 1) <= qat n d (e0 + 1) < 2 ^ p).
  { rewrite qat_succ by assumption.
    assert (2 ^ p = 2 * 2 ^ (p - 1)) as E1 by (replace p with (1 + (p - 1)) at 1 by lia; rewrite Z.pow_add_r by lia; reflexivity).
    assert (2 ^ (p + 1) = 2 * 2 ^ p) as E2 by (rewrite Z.pow_add_r by lia; change (2 ^ 1) with 2; ring).
    split; [apply Z.div_le_lower_bound; lia|apply Z.div_lt_upper_bound; lia]. }
  destruct (Z.ltb_spec (qat n d (e0 + 1)) (2 ^ (p - 1))) as [H3|H3]; [lia|].
  destruct (Z.leb_spec (2 ^ p) (qat n d (e0 + 1))) as [H4|H4]; [lia|]. exact Hq.
Qed.

(* ---- the rounding of the scaled quotient: nearest integer, ties to even *)
Definition rnd (num den : Z) : Z :=
  let q := num / den in let r := num mod den in
  if (den <? 2 * r) || ((2 * r =? den) && Z.odd q) then q + 1 else q.

Lemma rnd_cases num den :
  0 < den -> 0 <= num ->
  let q := num / den in let r := num mod den in
  num = den * q + r /\ 0 <= r < den /\
  ((rnd num den = q /\ (2 * r < den \/ (2 * r = den /\ Z.even q = true))) \/
   (rnd num den = q + 1 /\ (den < 2 * r \/ (2 * r = den /\ Z.even (q + 1) = true)))).
Proof.
  intros Hden Hnum q r. pose proof (Z.div_mod num den ltac:(lia)) as E. pose proof (Z.mod_pos_bound num den Hden) as B.
  fold q in E. fold r in E, B. split; [exact E|split; [exact B|]].
  unfold rnd. fold q r.
  destruct (Z.ltb_spec den (2 * r)) as [H1|H1]; cbn [orb].
  - right. split; [reflexivity|left; exact H1].
  - destruct (Z.eqb_spec (2 * r) den) as [H2|H2]; cbn [andb].
    + destruct (Z.odd q) eqn:Ho.
      * right. split; [reflexivity|right; split; [exact H2|]]. rewrite Z.even_add, <- Z.negb_odd, Ho. reflexivity.
      * left. split; [reflexivity|right; split; [exact H2|]]. rewrite <- Z.negb_odd, Ho. reflexivity.
    + left. split; [reflexivity|left; lia].
Qed.

Lemma rnd_half num den : 0 < den -> 0 <= num -> 2 * Z.abs (rnd num den * den - num) <= den.
Proof.
  intros Hden Hnum. destruct (rnd_cases num den Hden Hnum) as (E & B & [[R C]|[R C]]); rewrite R; nia.
Qed.

Lemma rnd_tie_even num den : 0 < den -> 0 <= num -> 2 * Z.abs (rnd num den * den - num) = den -> Z.even (rnd num den) = true.
Proof.
  intros Hden Hnum. destruct (rnd_cases num den Hden Hnum) as (E & B & [[R C]|[R C]]); rewrite R; intros T;
    destruct C as [C|[C1 C2]]; try exact C2; exfalso; nia.
Qed.

(* nearest among all integers *)
Lemma rnd_nearest_int num den k : 0 < den -> 0 <= num -> Z.abs (rnd num den * den - num) <= Z.abs (k * den - num).
Proof.
  intros Hden Hnum. pose proof (rnd_half num den Hden Hnum) as H.
  destruct (Z.eq_dec k (rnd num den)) as [->|Hk]; [lia|].
  assert (den <= Z.abs (k * den - rnd num den * den)) by nia. lia.
Qed.

(* nearest also among the finer grid points m' / 2^j that lie below 2^(p-1), when the quotient is at least 2^(p-1) *)
Lemma rnd_nearest_fine num den p m' j :
  0 < den -> 0 <= num -> 1 <= p -> 2 ^ (p - 1) <= num / den -> 1 <= j -> 0 <= m' < 2 ^ p ->
  Z.abs (rnd num den * den - num) * 2 ^ j <= Z.abs (m' * den - num * 2 ^ j).
Proof.
  intros Hden Hnum Hp Hq Hj Hm.
  destruct (rnd_cases num den Hden Hnum) as (E & B & C). set (q := num / den) in *. set (r := num mod den) in *.
  assert (Hj2 : 2 ^ j = 2 * 2 ^ (j - 1)) by (replace j with (1 + (j - 1)) at 1 by lia; rewrite Z.pow_add_r by lia; reflexivity).
  assert (Hp2 : 2 ^ p = 2 * 2 ^ (p - 1)) by (replace p with (1 + (p - 1)) at 1 by lia; rewrite Z.pow_add_r by lia; reflexivity).
  pose proof (pow2_pos' (j - 1) ltac:(lia)) as Hj1. pose proof (pow2_pos' (p - 1) ltac:(lia)) as Hp1.
  set (J := 2 ^ (j - 1)) in *. set (P := 2 ^ (p - 1)) in *. rewrite Hj2. rewrite Hp2 in Hm.
  (* m' < 2 P <= 2 q, so m' den <= ... <= num 2^j: the fine point lies at or below q *)
  assert (Hq0 : 0 <= q * den) by nia.
  assert (Hm2 : m' * den <= 2 * q * den) by (assert (m' <= 2 * q) by lia; nia).
  assert (Hle : m' * den <= q * den * (2 * J)) by nia.
  assert (Hqn : q * den <= num) by nia.
  assert (Hge : q * den * (2 * J) <= num * (2 * J)) by (apply Z.mul_le_mono_nonneg_r; lia).
  rewrite (Z.abs_neq (m' * den - num * (2 * J))) by lia.
  destruct C as [[R C]|[R C]]; rewrite R.
  - rewrite Z.abs_neq by nia. nia.
  - rewrite Z.abs_eq by nia. nia.
Qed.

(* ---- floats as pairs, distances cross-multiplied *)
Definition pp (z : Z) : Z := 2 ^ (Z.max 0 z).
Definition pn (z : Z) : Z := 2 ^ (Z.max 0 (- z)).
(* D n d m e = |m * 2^e - n/d| * d * pn e *)
Definition D (n d m e : Z) : Z := Z.abs (m * pp e * d - n * pn e).

Lemma pp_pos z : 0 < pp z. Proof. apply pow2_pos'. lia. Qed.
Lemma pn_pos z : 0 < pn z. Proof. apply pow2_pos'. lia. Qed.

Lemma pp_pn_shift a b : a <= b -> pp b * pn a = 2 ^ (b - a) * pp a * pn b.
Proof. intros H. unfold pp, pn. rewrite <- !Z.pow_add_r by lia. f_equal. lia. Qed.

Lemma sc_num_pn n e : sc_num n e = n * pn e.
Proof. unfold sc_num, pn. destruct (Z.leb_spec 0 e) as [H|H].
  - replace (Z.max 0 (- e)) with 0 by lia. change (2 ^ 0) with 1. ring.
  - replace (Z.max 0 (- e)) with (- e) by lia. reflexivity. Qed.

Lemma sc_den_pp d e : sc_den d e = d * pp e.
Proof. unfold sc_den, pp. destruct (Z.leb_spec 0 e) as [H|H].
  - replace (Z.max 0 e) with e by lia. reflexivity.
  - replace (Z.max 0 e) with 0 by lia. change (2 ^ 0) with 1. ring. Qed.

Lemma D_rnd n d e k : Z.abs (k * sc_den d e - sc_num n e) = D n d k e.
Proof. unfold D. rewrite sc_num_pn, sc_den_pp. f_equal. ring. Qed.

(* two pairs denoting the same number are at the same distance *)
Lemma abs_scale a c : 0 < c -> Z.abs a * c = Z.abs (a * c).
Proof. intros H. rewrite Z.abs_mul, (Z.abs_eq c) by lia. reflexivity. Qed.

Lemma D_scale n d m e m2 e2 : m * pp e * pn e2 = m2 * pp e2 * pn e -> D n d m e * pn e2 = D n d m2 e2 * pn e.
Proof.
  intros H. unfold D. rewrite !abs_scale by apply pn_pos. f_equal.
  replace ((m * pp e * d - n * pn e) * pn e2) with (m * pp e * pn e2 * d - n * pn e * pn e2) by ring. rewrite H. ring.
Qed.

(* the rounded quotient at the chosen exponent is nearest among all floats of precision p and exponent >= emin *)
Lemma nearest_at n d p emin e m' e2 :
  0 < n -> 0 < d -> 1 <= p -> emin <= e -> (e = emin \/ 2 ^ (p - 1) <= qat n d e) ->
  0 <= m' < 2 ^ p -> emin <= e2 ->
  D n d (rnd (sc_num n e) (sc_den d e)) e * pn e2 <= D n d m' e2 * pn e.
Proof.
  intros Hn Hd Hp He Hnorm Hm He2.
  pose proof (sc_den_pos d e Hd) as Hden. pose proof (sc_num_pos n e Hn) as Hnum.
  pose proof (pn_pos e) as Hpe. pose proof (pn_pos e2) as Hpe2.
  set (q' := rnd (sc_num n e) (sc_den d e)).
  destruct (Z_le_gt_dec e e2) as [Hle|Hgt].
  - (* a multiple of the same ulp *)
    set (k := m' * 2 ^ (e2 - e)).
    assert (Hk : D n d m' e2 * pn e = D n d k e * pn e2).
    { apply D_scale. unfold k. pose proof (pp_pn_shift e e2 Hle) as S. transitivity (m' * (pp e2 * pn e)); [ring|rewrite S; ring]. }
    rewrite Hk. apply Z.mul_le_mono_nonneg_r; [lia|].
    rewrite <- !D_rnd. apply rnd_nearest_int; lia.
  - (* a finer float: it lies below 2^(p-1) ulps *)
    assert (Hq : 2 ^ (p - 1) <= sc_num n e / sc_den d e) by (rewrite <- qat_sc; destruct Hnorm as [->|H]; [lia|exact H]).
    set (j := e - e2).
    pose proof (rnd_nearest_fine (sc_num n e) (sc_den d e) p m' j Hden ltac:(lia) Hp Hq ltac:(unfold j; lia) Hm) as F.
    fold q' in F. rewrite D_rnd in F.
    pose proof (pow2_pos' j ltac:(unfold j; lia)) as Hj.
    assert (S : pp e * pn e2 = 2 ^ j * pp e2 * pn e) by (unfold j; apply pp_pn_shift; lia).
    assert (G : Z.abs (m' * sc_den d e - sc_num n e * 2 ^ j) * pn e2 = 2 ^ j * (D n d m' e2 * pn e)).
    { unfold D. rewrite sc_num_pn, sc_den_pp. rewrite !abs_scale by apply pn_pos.
      rewrite (Z.mul_comm (2 ^ j)). rewrite abs_scale by exact Hj. f_equal.
      replace ((m' * (d * pp e) - n * pn e * 2 ^ j) * pn e2) with (m' * d * (pp e * pn e2) - n * pn e * 2 ^ j * pn e2) by ring.
      rewrite S. ring. }
    assert (D n d q' e * 2 ^ j * pn e2 <= 2 ^ j * (D n d m' e2 * pn e)) by (rewrite <- G; apply Z.mul_le_mono_nonneg_r; lia).
    assert (D n d q' e * pn e2 * 2 ^ j <= D n d m' e2 * pn e * 2 ^ j) by lia.
    apply Z.mul_le_mono_pos_r with (p := 2 ^ j); [exact Hj|assumption].
Qed.

(* what round_rat returns, for a positive rational *)
Lemma round_rat_inv n d p emin emaxe m er :
  0 < n -> 0 < d -> 1 <= p -> round_rat n d p emin emaxe = Some (m, er) ->
  exists e, emin <= e /\ (e = emin \/ 2 ^ (p - 1) <= qat n d e) /\ qat n d e < 2 ^ p /\ er <= emaxe /\
    let q' := rnd (sc_num n e) (sc_den d e) in
    ((q' < 2 ^ p /\ m = q' /\ er = e) \/ (q' = 2 ^ p /\ m = 2 ^ (p - 1) /\ er = e + 1)).
Proof.
  intros Hn Hd Hp. rewrite round_rat_unfold. destruct (Z.eqb_spec n 0) as [?|_]; [lia|].
  pose proof (adjust_normalises n d p Hn Hd Hp) as HA. cbv zeta in HA.
  set (ea := adjust n d p 4 (Z.log2 n - Z.log2 d - p)) in *. set (e := Z.max ea emin).
  unfold finish. fold (rnd (sc_num n e) (sc_den d e)). set (q' := rnd (sc_num n e) (sc_den d e)).
  intros H. exists e.
  assert (Hq : qat n d e < 2 ^ p) by (pose proof (qat_mono n d ea e Hn Hd ltac:(unfold e; lia)); lia).
  assert (Hnorm : e = emin \/ 2 ^ (p - 1) <= qat n d e).
  { destruct (Z_le_gt_dec emin ea) as [L|G]; [right; replace e with ea by (unfold e; lia); lia|left; unfold e; lia]. }
  assert (Hq' : q' <= qat n d e + 1).
  { rewrite qat_sc. destruct (rnd_cases (sc_num n e) (sc_den d e) (sc_den_pos d e Hd) ltac:(pose proof (sc_num_pos n e Hn); lia))
      as (_ & _ & [[R _]|[R _]]); unfold q'; rewrite R; lia. }
  assert (Hp2 : 2 ^ p = 2 * 2 ^ (p - 1)) by (replace p with (1 + (p - 1)) at 1 by lia; rewrite Z.pow_add_r by lia; reflexivity).
  split; [unfold e; lia|split; [exact Hnorm|split; [exact Hq|]]].
  destruct (Z.leb_spec (2 ^ p) q') as [B|B].
  - assert (q' = 2 ^ p) as E by lia.
    destruct (Z.ltb_spec emaxe (e + 1)) as [?|L]; [discriminate|]. injection H as <- <-.
    split; [exact L|]. right. split; [exact E|split; [|reflexivity]]. rewrite E, Hp2. rewrite Z.mul_comm, Z.div_mul by lia. reflexivity.
  - destruct (Z.ltb_spec emaxe e) as [?|L]; [discriminate|]. injection H as <- <-.
    split; [exact L|]. left. split; [exact B|split; reflexivity].
Qed.

(* the result is a canonical float: precision p, exponent within range, normal unless at the minimal exponent *)
Theorem round_rat_canonical n d p emin emaxe m er :
  0 < n -> 0 < d -> 1 <= p -> round_rat n d p emin emaxe = Some (m, er) ->
  0 <= m < 2 ^ p /\ emin <= er <= emaxe /\ (er = emin \/ 2 ^ (p - 1) <= m).
Proof.
  intros Hn Hd Hp H. destruct (round_rat_inv n d p emin emaxe m er Hn Hd Hp H) as (e & He & Hnorm & Hq & Hmax & C). cbv zeta in C.
  pose proof (pow2_pos' (p - 1) ltac:(lia)) as Hp1.
  assert (Hp2 : 2 ^ p = 2 * 2 ^ (p - 1)) by (replace p with (1 + (p - 1)) at 1 by lia; rewrite Z.pow_add_r by lia; reflexivity).
  assert (Hge : qat n d e <= rnd (sc_num n e) (sc_den d e)).
  { rewrite qat_sc. destruct (rnd_cases (sc_num n e) (sc_den d e) (sc_den_pos d e Hd) ltac:(pose proof (sc_num_pos n e Hn); lia))
      as (_ & _ & [[R _]|[R _]]); rewrite R; lia. }
  pose proof (qat_nonneg n d e Hn Hd) as Hq0.
  destruct C as [(B & -> & ->)|(E & -> & ->)].
  - split; [lia|split; [lia|]]. destruct Hnorm as [->|N]; [left; reflexivity|right; lia].
  - split; [lia|split; [lia|right; lia]].
Qed.

(* ... and it is a nearest one: no float of precision p and exponent >= emin is closer to n/d *)
Theorem round_rat_nearest n d p emin emaxe m er m' e2 :
  0 < n -> 0 < d -> 1 <= p -> round_rat n d p emin emaxe = Some (m, er) ->
  0 <= m' < 2 ^ p -> emin <= e2 ->
  D n d m er * pn e2 <= D n d m' e2 * pn er.
Proof.
  intros Hn Hd Hp H Hm He2. destruct (round_rat_inv n d p emin emaxe m er Hn Hd Hp H) as (e & He & Hnorm & Hq & Hmax & C). cbv zeta in C.
  pose proof (nearest_at n d p emin e m' e2 Hn Hd Hp He Hnorm Hm He2) as N.
  destruct C as [(B & -> & ->)|(E & -> & ->)]; [exact N|].
  rewrite E in N.
  assert (Hp2 : 2 ^ p = 2 * 2 ^ (p - 1)) by (replace p with (1 + (p - 1)) at 1 by lia; rewrite Z.pow_add_r by lia; reflexivity).
  assert (S : D n d (2 ^ (p - 1)) (e + 1) * pn e = D n d (2 ^ p) e * pn (e + 1)).
  { apply D_scale. pose proof (pp_pn_shift e (e + 1) ltac:(lia)) as S. replace (e + 1 - e) with 1 in S by lia. change (2 ^ 1) with 2 in S.
    transitivity (2 ^ (p - 1) * (pp (e + 1) * pn e)); [ring|rewrite S, Hp2; ring]. }
  pose proof (pn_pos e) as P1. pose proof (pn_pos (e + 1)) as P2. pose proof (pn_pos e2) as P3.
  apply Z.mul_le_mono_pos_r with (p := pn e); [exact P1|].
  replace (D n d (2 ^ (p - 1)) (e + 1) * pn e2 * pn e) with (D n d (2 ^ (p - 1)) (e + 1) * pn e * pn e2) by ring.
  rewrite S.
  replace (D n d (2 ^ p) e * pn (e + 1) * pn e2) with (D n d (2 ^ p) e * pn e2 * pn (e + 1)) by ring.
  replace (D n d m' e2 * pn (e + 1) * pn e) with (D n d m' e2 * pn e * pn (e + 1)) by ring.
  apply Z.mul_le_mono_nonneg_r; [lia|exact N].
Qed.

(* ties go to the even mantissa: when another float is exactly as close, the result's mantissa is even *)
Theorem round_rat_ties_to_even n d p emin emaxe m er :
  0 < n -> 0 < d -> 2 <= p -> round_rat n d p emin emaxe = Some (m, er) ->
  2 * D n d m er = d * pp er -> Z.even m = true.
Proof.
  intros Hn Hd Hp H T. destruct (round_rat_inv n d p emin emaxe m er Hn Hd ltac:(lia) H) as (e & He & Hnorm & Hq & Hmax & C). cbv zeta in C.
  destruct C as [(B & -> & ->)|(E & -> & ->)].
  - apply rnd_tie_even; [apply sc_den_pos; exact Hd|pose proof (sc_num_pos n e Hn); lia|].
    rewrite D_rnd. rewrite <- (sc_den_pp d e) in T. exact T.
  - replace (p - 1) with (1 + (p - 2)) by lia. rewrite Z.pow_add_r by lia. rewrite Z.even_mul. reflexivity.
Qed.

(* the hypotheses are met and the pieces compute: 1/10 in binary64 is 0x1999999999999A * 2^-56; 2^-1075 (half the least subnormal) ties to 0 *)
Example round_rat_tenth : round_rat 1 10 53 (-1074) 971 = Some (7205759403792794, -56).
Proof. vm_compute. reflexivity. Qed.
Example round_rat_half_min_subnormal : round_rat 1 (2 ^ 1075) 53 (-1074) 971 = Some (0, -1074).
Proof. vm_compute. reflexivity. Qed.
Example round_rat_overflow : round_rat (2 ^ 1024) 1 53 (-1074) 971 = None.
Proof. vm_compute. reflexivity. Qed.
