(* Property C16 - print-then-parse round trip: precedence, grouping, layout and literal fidelity. RF (AtomsSel.v) is the rendering relation: every text a printer may emit for a tree; c16_final_parse says the parser (declarative semantics of the table regenerated from grammar.go, through engine completeness) reads every such text back as the tree. Statements only. *)
From Coq Require Import List String ZArith NArith Bool. From Bexpr Require Import Base Strconv Ast Unicode Peg Typing Actions GoGrammar Sem Calc Calc2 Lex Lex2 Lex3 Skel Top C10 C16 Glue Spell Ptr StrLit Values Num NumLit Sels KwMiss Coll Bind2 C16Full AtomsIn AtomsOp AtomsNotIn AtomsSel AtomsLeft AtomsBare Fidelity Fid4 Univ Eval EndToEnd ActionsPinned ActionsPin. Import ListNotations.

Theorem c16_quoted_literal :
  forall s : string, unquote (quote_double s) = Some s.
Proof. exact C16.c16_quoted_literal. Qed.
Print Assumptions c16_quoted_literal.

Theorem c16_raw_literal :
  forall s : string, no_byte (Ascii.Ascii true false true true false false false false) s = true -> unquote (quote_raw s) = Some s.
Proof. exact Glue.c16_raw_literal. Qed.
Print Assumptions c16_raw_literal.

Theorem c16_no_double_not :
  forall (mx : option N) (fuel : nat) (input : string) (v : pv) (n : N),
  parse go_grammar mx action_sem pred_sem fuel input = Accepted v n -> exists e : expr, v = VExpr e /\ no_not_not e.
Proof. exact C10.c16_no_double_not. Qed.
Print Assumptions c16_no_double_not.

Theorem skeleton_round_trip :
  forall (atom : Type) (atxt : atom -> list cell) (aexp : atom -> expr),
  (forall (a : atom) (k : list cell), astop k -> spec (PRef "MatchExpression") (atxt a ++ k) (VExpr (aexp a)) k) ->
  (forall (a : atom) (k : list cell), head_not 40 (atxt a ++ k)) ->
  (forall (a : atom) (k : list cell), fspecj not_alt1 (atxt a ++ k)) ->
  (forall (a : atom) (k : list cell), ws_free (atxt a ++ k)) ->
  forall (hdr : Type) (htxt : hdr -> list cell) (hop : hdr -> collop) (hsel : hdr -> selector) (hbind : hdr -> binding),
  (forall (h : hdr) (K : list cell) (es : list pexpr) (K2 : list cell) (F2 : frame),
   seqs_ok es K K2 F2 -> seqs_ok (hdr_elems ++ es) (htxt h ++ K) K2 (F2 ++ hdr_frame hdr hop hsel hbind h)%list) ->
  (forall (h : hdr) (K : list cell), fspecj (PRef "AndExpression") (htxt h ++ K)) ->
  (forall (h : hdr) (K : list cell), ws_free (htxt h ++ K) /\ head_not 40 (htxt h ++ K)) ->
  (forall (e : expr) (t : list cell),
   rOr atom atxt aexp hdr htxt hop hsel hbind e t -> forall k : list cell, stopO k -> spec (PRef "OrExpression") (t ++ k) (VExpr e) k) /\
  (forall (e : expr) (t : list cell),
   rAnd atom atxt aexp hdr htxt hop hsel hbind e t -> forall k : list cell, stopA k -> spec (PRef "AndExpression") (t ++ k) (VExpr e) k) /\
  (forall (e : expr) (t : list cell),
   rNot atom atxt aexp hdr htxt hop hsel hbind e t -> forall k : list cell, astop k -> spec (PRef "NotExpression") (t ++ k) (VExpr e) k) /\
  (forall (e : expr) (t : list cell),
   rPar atom atxt aexp hdr htxt hop hsel hbind e t ->
   forall k : list cell, astop k -> spec (PRef "ParenthesizedExpression") (t ++ k) (VExpr e) k).
Proof. exact Skel.skeleton_round_trip. Qed.
Print Assumptions skeleton_round_trip.

Theorem parse_accepts :
  forall (input : string) (v : pv),
  all_valid (utf8_cells input) ->
  spec input_body (utf8_cells input) v [] ->
  exists f0 : nat, forall f : nat, (f0 <= f)%nat -> exists n : N, parse go_grammar None action_sem pred_sem f input = Accepted v n.
Proof. exact Top.parse_accepts. Qed.
Print Assumptions parse_accepts.

Theorem c16_final_parse :
  forall (input : string) (e : expr) (t w0 w1 : list cell),
  rOr atomF atxtF aexpF chdr h_txt h_op h_sel h_bind e t ->
  Forall is_ws w0 ->
  Forall is_ws w1 ->
  utf8_cells input = (w0 ++ t ++ w1)%list ->
  all_valid (utf8_cells input) ->
  exists f0 : nat, forall f : nat, (f0 <= f)%nat -> exists n : N, parse go_grammar None action_sem pred_sem f input = Accepted (VExpr e) n.
Proof. exact AtomsSel.c16_final_parse. Qed.
Print Assumptions c16_final_parse.

Theorem value_quoted_any :
  forall (s : string) (k : list cell), spec (PRef "Value") (acells (quote_double s) ++ k) (VMV s) k.
Proof. exact Fid4.value_quoted_any. Qed.
Print Assumptions value_quoted_any.

Theorem c16_literal_fidelity_all :
  forall (c0 : Ascii.ascii) (rest s : string),
  class_match cls_id_head (b2z c0) = true ->
  tail_ok rest ->
  String c0 rest <> "not" ->
  exists f0 : nat,
    forall f : nat,
    (f0 <= f)%nat ->
    exists n : N,
      parse go_grammar None action_sem pred_sem f (String c0 rest ++ " == " ++ quote_double s) =
      Accepted (VExpr (EMatch {| stype := SelBexpr; spath := [String c0 rest] |} OpEq (Some s))) n.
Proof. exact Fid4.c16_literal_fidelity_all. Qed.
Print Assumptions c16_literal_fidelity_all.

Theorem usr_bin :
  exists f0 : nat,
    forall f : nat,
    (f0 <= f)%nat ->
    exists n : N,
      parse go_grammar None action_sem pred_sem f ("X == " ++ quote_double "/usr/bin") =
      Accepted (VExpr (EMatch {| stype := SelBexpr; spath := ["X"] |} OpEq (Some "/usr/bin"))) n.
Proof. exact Fid4.usr_bin. Qed.
Print Assumptions usr_bin.

Theorem literal_is_true :
  forall (re : string -> string -> option bool) (name s : string),
  eval re cfg0 [] (EMatch {| stype := SelBexpr; spath := [name] |} OpEq (Some s)) (doc name s) = Out true None.
Proof. exact EndToEnd.literal_is_true. Qed.
Print Assumptions literal_is_true.

Theorem value_int_spec :
  forall (d : cell) (ds k : list cell),
  class_match cls19 (crune d) = true ->
  Forall is_digit ds -> astop k -> all_valid k -> spec (PRef "Value") (d :: ds ++ k) (VMV (cells_str (d :: ds))) k.
Proof. exact Num.value_int_spec. Qed.
Print Assumptions value_int_spec.

Theorem number_before_brace :
  exists (n : N) (e : expr), parse go_grammar None action_sem pred_sem 5000 "any x as y { y == 10}" = Accepted (VExpr e) n.
Proof. exact Num.number_before_brace. Qed.
Print Assumptions number_before_brace.


(* bare number literals - optional minus sign, zero or a non-zero digit and digits, optional fraction - denote their own text,
   in every continuation an atom admits; NumLit.of_number packs this as one of the literal styles (vlit) that the atoms of
   c16_final_parse range over *)
Theorem value_number_spec :
  forall sg ip fp k : list cell,
  sign_part sg ->
  int_part ip -> frac_part fp -> astop k -> all_valid k -> spec (PRef "Value") ((sg ++ ip ++ fp) ++ k) (VMV (cells_str (sg ++ ip ++ fp))) k.
Proof. exact NumLit.value_number_spec. Qed.
Print Assumptions value_number_spec.


(* the value on the left of `in` / `not in` in every literal style on which Selector fails at once: double-quoted, back-quoted,
   integer, negative, fractional (AtomsSel.lval; the matom component of the atoms c16_final_parse ranges over) *)
Theorem left_values_exist :
  (forall l : qlit, exists v : lval, v_txt (lv_v v) = q_txt l /\ v_lit (lv_v v) = l_lit l) /\
  (forall l : rlit, exists v : lval, v_txt (lv_v v) = r_q l :: r_cs l ++ [r_q' l] /\ v_lit (lv_v v) = r_lit l) /\
  (forall sg ip fp : list cell,
   sign_part sg ->
   int_part ip -> frac_part fp -> exists v : lval, v_txt (lv_v v) = (sg ++ ip ++ fp)%list /\ v_lit (lv_v v) = cells_str (sg ++ ip ++ fp)).
Proof. exact AtomsLeft.left_values_exist. Qed.
Print Assumptions left_values_exist.

Theorem left_value_membership_parse :
  forall (a : matom) (k : list cell),
  astop k ->
  spec (PRef "MatchExpression") (m_txt a ++ k)
    (VExpr (EMatch (s_val (m_sr a)) (if m_neg a then OpNotIn else OpIn) (Some (v_lit (lv_v (m_lit a)))))) k.
Proof. exact AtomsLeft.left_value_membership_parse. Qed.
Print Assumptions left_value_membership_parse.

Theorem raw_left_of_in :
  exists n : N,
    parse go_grammar None action_sem pred_sem 5000 "`x y` in m" =
    Accepted (VExpr (EMatch {| stype := SelBexpr; spath := ["m"] |} OpIn (Some "x y"))) n.
Proof. exact AtomsLeft.raw_left_of_in. Qed.
Print Assumptions raw_left_of_in.

Theorem number_left_of_not_in :
  exists n : N,
    parse go_grammar None action_sem pred_sem 5000 "-2.5 not in a.b" =
    Accepted (VExpr (EMatch {| stype := SelBexpr; spath := ["a"; "b"] |} OpNotIn (Some "-2.5"))) n.
Proof. exact AtomsLeft.number_left_of_not_in. Qed.
Print Assumptions number_left_of_not_in.


(* values written as selectors (a bare word, a dotted word, a bracketed selector) on the left of `in` / `not in`: the first two
   alternatives of MatchExpression take the word for the subject, fail on the operator and restore; the third reads it as the value.
   c16_all_parse is c16_final_parse over the complete atom universe (atomA = atomF + these) *)
Theorem c16_all_parse :
  forall (input : string) (e : expr) (t w0 w1 : list cell),
  rOr atomA atxtA aexpA chdr h_txt h_op h_sel h_bind e t ->
  Forall is_ws w0 ->
  Forall is_ws w1 ->
  utf8_cells input = (w0 ++ t ++ w1)%list ->
  all_valid (utf8_cells input) ->
  exists f0 : nat, forall f : nat, (f0 <= f)%nat -> exists n : N, parse go_grammar None action_sem pred_sem f input = Accepted (VExpr e) n.
Proof. exact AtomsBare.c16_all_parse. Qed.
Print Assumptions c16_all_parse.

Theorem bare_left_values_exist :
  forall (c : cell) (cs : list cell) (segs : list seg),
  class_match cls_id_head (crune c) = true ->
  id_tail_ok cs ->
  Forall seg_ok segs ->
  map crune (c :: cs) <> [110; 111; 116]%Z \/ segs <> [] ->
  forall (l : oplay) (sr : selr) (neg : bool),
  exists a : batom,
    b_txt a = ((c :: cs ++ segs_cells segs []) ++ m_optext neg l (s_txt sr ++ []))%list /\
    b_exp a =
    EMatch (s_val sr) (if neg then OpNotIn else OpIn)
      (Some (selector_string {| stype := SelBexpr; spath := cells_str (c :: cs) :: map seg_part segs |})).
Proof. exact AtomsBare.bare_left_values_exist. Qed.
Print Assumptions bare_left_values_exist.

Theorem bare_left_of_in :
  exists n : N,
    parse go_grammar None action_sem pred_sem 5000 "web in tags" =
    Accepted (VExpr (EMatch {| stype := SelBexpr; spath := ["tags"] |} OpIn (Some "web"))) n.
Proof. exact AtomsBare.bare_left_of_in. Qed.
Print Assumptions bare_left_of_in.

Theorem dotted_left_of_not_in :
  exists n : N,
    parse go_grammar None action_sem pred_sem 5000 "a.b not in m[""k""]" =
    Accepted (VExpr (EMatch {| stype := SelBexpr; spath := ["m"; "k"] |} OpNotIn (Some "a.b"))) n.
Proof. exact AtomsBare.dotted_left_of_not_in. Qed.
Print Assumptions dotted_left_of_not_in.



(* No condition on first runes: a name is a selector at the head of an expression unless it IS the keyword `not`, and the selector
   of a quantifier unless its name alone is one of `contains`, `not`, `matches`, `is`, `in` (KwMiss.v: a literal fails wherever the
   text departs from it, a keyword rule fails on everything that is not the keyword followed by a blank). Instances: `notes == "x"`
   and the header `any items as x {`. *)
Theorem name_selector :
  exists f0 : nat,
    forall f : nat,
    (f0 <= f)%nat ->
    exists n : N,
      parse go_grammar None action_sem pred_sem f ("notes == " ++ quote_double "x") =
      Accepted (VExpr (EMatch {| stype := SelBexpr; spath := ["notes"] |} OpEq (Some "x"))) n.
Proof. exact Fid4.name_selector. Qed.
Print Assumptions name_selector.

Theorem hd_items_text :
  h_txt hd_items = utf8_cells "any items as x {".
Proof. exact C16Full.hd_items_text. Qed.
Print Assumptions hd_items_text.

Theorem ident_vs_kw :
  forall kw : list Z,
  Forall id_rune kw ->
  forall cs R : list cell,
  Forall (fun c : cell => id_rune (crune c)) cs ->
  id_stop R -> all_valid (cs ++ R) -> kw_miss kw (cs ++ R) \/ map crune cs = kw /\ (exists (x : cell) (r : list cell), R = x :: r /\ is_ws x).
Proof. exact KwMiss.ident_vs_kw. Qed.
Print Assumptions ident_vs_kw.

Theorem mixed_vs_kw :
  forall (kw : list Z) (c : cell) (cs : list cell) (segs : list seg) (K : list cell),
  Forall id_rune kw ->
  class_match cls_id_head (crune c) = true ->
  id_tail_ok cs ->
  Forall seg_ok segs ->
  seg_stop K -> map crune (c :: cs) <> kw \/ segs <> [] -> all_valid (c :: cs ++ segs_cells segs K) -> kw_miss kw (c :: cs ++ segs_cells segs K).
Proof. exact Sels.mixed_vs_kw. Qed.
Print Assumptions mixed_vs_kw.

(* every code block in grammar.go is the one the action semantics above was written against *)
Theorem c16_actions_as_modelled : GoGrammar.go_actions = ActionsPinned.pinned_actions.
Proof. exact ActionsPin.actions_pinned. Qed.
Print Assumptions c16_actions_as_modelled.
