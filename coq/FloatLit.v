(* A plain decimal literal, digits "." digits, is read by the float parser model as the exact rational its digits denote and rounded
   once: with RoundRat.round_rat_nearest this is "the nearest float of the field's width" for the main family of literals, end to end. *)
From Coq Require Import List ZArith String Ascii Bool NArith Lia.
Import ListNotations.
From Bexpr Require Import Base Strconv C02 RoundRat RoundGuards.
Open Scope string_scope.
Open Scope Z_scope.

(* the decimal branch of parse_float_core, verbatim *)
Definition dec_tail (body : string) (neg : bool) (p ebits emin emaxe : Z) : pres Z :=
  let zero neg := POk (float_bits neg (Some (0, emin)) p ebits) in
    match digits_val body 0 0 with
    | None => PErr PSyntax
    | Some (ip, ni, rest) =>
      let '(fp, nf, rest2) :=
        match rest with
        | String dot r => if b2z dot =? 46 then match digits_val r 0 0 with Some (v, k, r') => (v, k, r') | None => (0, 0, r) end else (0, 0, rest)
        | "" => (0, 0, "") end in
      if (ni + nf =? 0) then PErr PSyntax else
      let mant := ip * 10 ^ nf + fp in
      let exo :=
        match rest2 with
        | String e r => if lower (b2z e) =? 101 then exp_part r else None
        | "" => Some 0 end in
      match exo with
      | None => PErr PSyntax
      | Some ex =>
        let e10 := ex - nf in
        if mant =? 0 then zero neg
        else if 310 <? e10 then PErr PRange
        else if Z.log2 mant + 1 + 3 * e10 <? -1100 then zero neg
        else
          match dec_round mant e10 p emin emaxe with
          | None => PErr PRange
          | Some me => POk (float_bits neg (Some me) p ebits)
          end
      end
    end.

Lemma eqb_false a b : a <> b -> (a =? b) = false.
Proof. intros H. apply Z.eqb_neq. exact H. Qed.

(* parse_float_core on a text that starts with neither sign and is not hexadecimal is that branch (binary64) *)
Lemma pfc_dec64 c x t :
  b2z c <> 45 -> b2z c <> 43 -> lower (b2z x) <> 120 ->
  parse_float_core (String c (String x t)) 64 = dec_tail (String c (String x t)) false 53 11 (-1074) 971.
Proof.
  intros H45 H43 Hx. unfold parse_float_core. change (64 =? 32) with false. cbv beta iota zeta.
  rewrite (eqb_false _ _ H45), (eqb_false _ _ H43). cbn [orb]. cbv beta iota zeta.
  rewrite (eqb_false _ _ Hx), andb_false_r.
  destruct t as [|y t']; cbv beta iota zeta; reflexivity.
Qed.

Lemma pfc_dec32 c x t :
  b2z c <> 45 -> b2z c <> 43 -> lower (b2z x) <> 120 ->
  parse_float_core (String c (String x t)) 32 = dec_tail (String c (String x t)) false 24 8 (-149) 104.
Proof.
  intros H45 H43 Hx. unfold parse_float_core. change (32 =? 32) with true. cbv beta iota zeta.
  rewrite (eqb_false _ _ H45), (eqb_false _ _ H43). cbn [orb]. cbv beta iota zeta.
  rewrite (eqb_false _ _ Hx), andb_false_r.
  destruct t as [|y t']; cbv beta iota zeta; reflexivity.
Qed.

Definition stops (rest : string) : Prop := match rest with "" => True | String c _ => b2z c < 48 \/ 57 < b2z c end.

Lemma digits_val_dstr ds rest : Forall is_digit ds -> stops rest -> forall acc nd,
  digits_val (dstr ds ++ rest) acc nd = Some (dval ds acc, nd + Z.of_nat (List.length ds), rest).
Proof.
  intros Hd Hs. induction Hd as [|d r Hd0 _ IH]; intros acc nd.
  - cbn [dstr append dval List.length]. replace (nd + Z.of_nat 0) with nd by lia.
    destruct rest as [|c r]; cbn [digits_val]; [reflexivity|].
    cbn [stops] in Hs.
    replace ((48 <=? b2z c) && (b2z c <=? 57)) with false; [reflexivity|].
    symmetry. apply andb_false_iff. destruct Hs as [H|H]; [left; apply Z.leb_gt; exact H|right; apply Z.leb_gt; exact H].
  - cbn [dstr append dval List.length digits_val]. rewrite (b2z_digit d Hd0). unfold is_digit in Hd0.
    replace ((48 <=? 48 + d) && (48 + d <=? 57)) with true by (symmetry; apply andb_true_intro; split; apply Z.leb_le; lia).
    replace (48 + d - 48) with d by lia. rewrite IH. f_equal. f_equal. f_equal. lia.
Qed.

Lemma digits_val_dstr_end ds : Forall is_digit ds -> forall acc nd,
  digits_val (dstr ds) acc nd = Some (dval ds acc, nd + Z.of_nat (List.length ds), "").
Proof.
  intros Hd acc nd. pose proof (digits_val_dstr ds "" Hd I acc nd) as H.
  assert (E : forall s, s ++ "" = s) by (induction s as [|c s IH]; cbn [append]; [reflexivity|rewrite IH; reflexivity]).
  rewrite E in H. exact H.
Qed.

Lemma dval_shift ds : forall acc, dval ds acc = acc * 10 ^ Z.of_nat (List.length ds) + dval ds 0.
Proof.
  induction ds as [|d r IH]; intros acc; cbn [dval List.length].
  - change (10 ^ Z.of_nat 0) with 1. lia.
  - rewrite (IH (acc * 10 + d)), (IH (0 * 10 + d)). rewrite Nat2Z.inj_succ, Z.pow_succ_r by lia. ring.
Qed.

Lemma dval_app a b : forall acc, dval (a ++ b) acc = dval b (dval a acc).
Proof. induction a as [|d r IH]; intros acc; cbn [dval app]; [reflexivity|apply IH]. Qed.

Lemma dot_code : b2z "." = 46. Proof. reflexivity. Qed.

(* the decimal branch on digits "." digits *)
Lemma dec_tail_plain ip fp neg p ebits emin emaxe :
  ip <> [] -> Forall is_digit ip -> Forall is_digit fp ->
  let mant := dval (ip ++ fp) 0 in
  let e10 := - Z.of_nat (List.length fp) in
  dec_tail (dstr ip ++ String "." (dstr fp)) neg p ebits emin emaxe =
  if mant =? 0 then POk (float_bits neg (Some (0, emin)) p ebits)
  else if Z.log2 mant + 1 + 3 * e10 <? -1100 then POk (float_bits neg (Some (0, emin)) p ebits)
  else match dec_round mant e10 p emin emaxe with None => PErr PRange | Some me => POk (float_bits neg (Some me) p ebits) end.
Proof.
  intros Hne Hip Hfp mant e10. unfold dec_tail.
  rewrite (digits_val_dstr ip (String "." (dstr fp)) Hip) by (cbn [stops]; rewrite dot_code; lia).
  cbv beta iota zeta. rewrite dot_code. change (46 =? 46) with true. cbv beta iota zeta.
  rewrite (digits_val_dstr_end fp Hfp). cbv beta iota zeta.
  assert (Hlen : 0 < Z.of_nat (List.length ip)) by (destruct ip; [contradiction|cbn [List.length]; lia]).
  replace (0 + Z.of_nat (List.length ip) + (0 + Z.of_nat (List.length fp)) =? 0) with false by (symmetry; apply Z.eqb_neq; lia).
  assert (Em : dval ip 0 * 10 ^ (0 + Z.of_nat (List.length fp)) + dval fp 0 = mant).
  { unfold mant. rewrite dval_app, (dval_shift fp (dval ip 0)). rewrite Z.add_0_l. reflexivity. }
  rewrite Em. replace (0 - (0 + Z.of_nat (List.length fp))) with e10 by (unfold e10; lia).
  replace (310 <? e10) with false by (symmetry; apply Z.ltb_ge; unfold e10; lia).
  reflexivity.
Qed.

Lemma lower_small x : x < 65 -> lower x = x.
Proof. intros H. unfold lower. destruct (Z.leb_spec 65 x) as [?|_]; [lia|reflexivity]. Qed.

Lemma pfc_plain ip fp :
  ip <> [] -> Forall is_digit ip -> Forall is_digit fp ->
  parse_float_core (dstr ip ++ String "." (dstr fp)) 64 = dec_tail (dstr ip ++ String "." (dstr fp)) false 53 11 (-1074) 971 /\
  parse_float_core (dstr ip ++ String "." (dstr fp)) 32 = dec_tail (dstr ip ++ String "." (dstr fp)) false 24 8 (-149) 104.
Proof.
  intros Hne Hip Hfp. destruct ip as [|d0 ip']; [contradiction|].
  inversion Hip as [|? ? H0 Hip']; subst. pose proof H0 as H0'. unfold is_digit in H0'.
  assert (A : b2z (digit_char d0) <> 45) by (rewrite (b2z_digit d0 H0); lia).
  assert (B : b2z (digit_char d0) <> 43) by (rewrite (b2z_digit d0 H0); lia).
  destruct ip' as [|d1 ip'']; cbn [dstr append].
  - assert (C : lower (b2z ".") <> 120) by (rewrite dot_code; vm_compute; discriminate).
    split; [apply pfc_dec64|apply pfc_dec32]; assumption.
  - inversion Hip' as [|? ? H1 _]; subst. pose proof H1 as H1'. unfold is_digit in H1'.
    assert (C : lower (b2z (digit_char d1)) <> 120) by (rewrite (b2z_digit d1 H1), lower_small by lia; lia).
    split; [apply pfc_dec64|apply pfc_dec32]; assumption.
Qed.

Lemma has_us_plain ip fp : Forall is_digit ip -> Forall is_digit fp -> has_us (dstr ip ++ String "." (dstr fp)) = false.
Proof.
  intros Hip Hfp.
  assert (D : forall ds, Forall is_digit ds -> forall rest, has_us (dstr ds ++ rest) = has_us rest).
  { induction 1 as [|d r Hd _ IH]; intros rest; cbn [dstr append has_us]; [reflexivity|].
    rewrite (b2z_digit d Hd). unfold is_digit in Hd. rewrite (eqb_false (48 + d) 95) by lia. cbn [orb]. apply IH. }
  rewrite (D ip Hip). cbn [has_us]. rewrite dot_code. change (46 =? 95) with false. cbn [orb].
  pose proof (D fp Hfp "") as E. cbn [has_us] in E.
  assert (E2 : forall s, s ++ "" = s) by (induction s as [|c s IH]; cbn [append]; [reflexivity|rewrite IH; reflexivity]).
  rewrite E2 in E. exact E.
Qed.

Lemma digit_char_not c d : is_digit d -> (b2z c < 48 \/ 57 < b2z c) -> Ascii.eqb (digit_char d) c = false.
Proof.
  intros Hd Hc. apply Ascii.eqb_neq. intros E. rewrite <- E in Hc. rewrite (b2z_digit d Hd) in Hc. unfold is_digit in Hd. lia.
Qed.

(* parse_float itself: no sign, not inf/nan, no underscores *)
Lemma parse_float_plain ip fp bits :
  ip <> [] -> Forall is_digit ip -> Forall is_digit fp ->
  parse_float (dstr ip ++ String "." (dstr fp)) bits = parse_float_core (dstr ip ++ String "." (dstr fp)) bits.
Proof.
  intros Hne Hip Hfp. pose proof (has_us_plain ip fp Hip Hfp) as HU.
  destruct ip as [|d0 ip']; [contradiction|]. inversion Hip as [|? ? H0 _]; subst. pose proof H0 as H0'. unfold is_digit in H0'.
  cbn [dstr append] in *. set (t := dstr ip' ++ String "." (dstr fp)) in *.
  unfold parse_float. destruct (bits =? 32); cbv beta iota zeta;
    rewrite (b2z_digit d0 H0), (eqb_false (48 + d0) 45), (eqb_false (48 + d0) 43) by lia; cbn [orb negb]; cbv beta iota zeta;
    cbn [lower_str]; rewrite (b2z_digit d0 H0), lower_small by lia; fold (digit_char d0);
    cbn [String.eqb]; rewrite !(digit_char_not _ d0 H0) by (vm_compute; right; reflexivity || (left; reflexivity));
    cbn [orb andb]; unfold parse_float_num; rewrite HU; reflexivity.
Qed.

(* the statements *)
Theorem plain_decimal_float64 ip fp :
  ip <> [] -> Forall is_digit ip -> Forall is_digit fp ->
  let mant := dval (ip ++ fp) 0 in
  parse_float (dstr ip ++ String "." (dstr fp)) 64 =
  if mant =? 0 then POk (float_bits false (Some (0, -1074)) 53 11)
  else match dec_round mant (- Z.of_nat (List.length fp)) 53 (-1074) 971 with
       | None => PErr PRange | Some me => POk (float_bits false (Some me) 53 11) end.
Proof.
  intros Hne Hip Hfp mant. rewrite (parse_float_plain ip fp 64 Hne Hip Hfp).
  rewrite (proj1 (pfc_plain ip fp Hne Hip Hfp)). rewrite (dec_tail_plain ip fp false 53 11 (-1074) 971 Hne Hip Hfp). cbv zeta. fold mant.
  destruct (Z.eqb_spec mant 0) as [E|E]; [reflexivity|].
  assert (Hpos : 0 < mant) by (pose proof (dval_ge (ip ++ fp) ltac:(apply Forall_app; split; assumption) 0 ltac:(lia)); fold mant in H; lia).
  destruct (Z.ltb_spec (Z.log2 mant + 1 + 3 * - Z.of_nat (List.length fp)) (-1100)) as [G|G]; [|reflexivity].
  rewrite (decimal_underflow_guard mant (- Z.of_nat (List.length fp)) 53 (-1074) 971 ltac:(left; repeat split) Hpos G). reflexivity.
Qed.

Theorem plain_decimal_float32 ip fp :
  ip <> [] -> Forall is_digit ip -> Forall is_digit fp ->
  let mant := dval (ip ++ fp) 0 in
  parse_float (dstr ip ++ String "." (dstr fp)) 32 =
  if mant =? 0 then POk (float_bits false (Some (0, -149)) 24 8)
  else match dec_round mant (- Z.of_nat (List.length fp)) 24 (-149) 104 with
       | None => PErr PRange | Some me => POk (float_bits false (Some me) 24 8) end.
Proof.
  intros Hne Hip Hfp mant. rewrite (parse_float_plain ip fp 32 Hne Hip Hfp).
  rewrite (proj2 (pfc_plain ip fp Hne Hip Hfp)). rewrite (dec_tail_plain ip fp false 24 8 (-149) 104 Hne Hip Hfp). cbv zeta. fold mant.
  destruct (Z.eqb_spec mant 0) as [E|E]; [reflexivity|].
  assert (Hpos : 0 < mant) by (pose proof (dval_ge (ip ++ fp) ltac:(apply Forall_app; split; assumption) 0 ltac:(lia)); fold mant in H; lia).
  destruct (Z.ltb_spec (Z.log2 mant + 1 + 3 * - Z.of_nat (List.length fp)) (-1100)) as [G|G]; [|reflexivity].
  rewrite (decimal_underflow_guard mant (- Z.of_nat (List.length fp)) 24 (-149) 104 ltac:(right; repeat split) Hpos G). reflexivity.
Qed.

(* hypotheses met, and the pieces compute: 0.1 and 123.456 *)
Example tenth64 : parse_float "0.1" 64 = POk 4591870180066957722.
Proof. vm_compute. reflexivity. Qed.
Example tenth_is_plain : "0.1" = dstr [0] ++ String "." (dstr [1]). Proof. reflexivity. Qed.

(* dec_round on a non-positive exponent is the rounding of mant / 10^nf *)
Lemma dec_round_frac mant nf p emin emaxe : 0 <= nf -> dec_round mant (- nf) p emin emaxe = round_rat mant (10 ^ nf) p emin emaxe.
Proof.
  intros H. unfold dec_round. destruct (Z.leb_spec 0 (- nf)) as [L|L].
  - assert (nf = 0) by lia. subst nf. change (- 0) with 0. change (10 ^ 0) with 1. rewrite Z.mul_1_r. reflexivity.
  - rewrite Z.opp_involutive. reflexivity.
Qed.

(* end to end: what a plain decimal literal is read as, in the value's width, is a nearest float of that width to the number the digits denote *)
Theorem plain_decimal_nearest ip fp bits p ebits emin emaxe b :
  (bits = 64 /\ p = 53 /\ ebits = 11 /\ emin = -1074 /\ emaxe = 971) \/ (bits = 32 /\ p = 24 /\ ebits = 8 /\ emin = -149 /\ emaxe = 104) ->
  ip <> [] -> Forall is_digit ip -> Forall is_digit fp ->
  let mant := dval (ip ++ fp) 0 in
  let den := 10 ^ Z.of_nat (List.length fp) in
  0 < mant ->
  parse_float (dstr ip ++ String "." (dstr fp)) bits = POk b ->
  exists m e, b = float_bits false (Some (m, e)) p ebits /\
    (0 <= m < 2 ^ p /\ emin <= e <= emaxe /\ (e = emin \/ 2 ^ (p - 1) <= m)) /\
    (forall m' e2, 0 <= m' < 2 ^ p -> emin <= e2 -> D mant den m e * pn e2 <= D mant den m' e2 * pn e) /\
    (2 * D mant den m e = den * pp e -> Z.even m = true).
Proof.
  intros F Hne Hip Hfp mant den Hpos H.
  assert (Hden : 0 < den) by (apply Z.pow_pos_nonneg; lia).
  assert (R : exists m e, round_rat mant den p emin emaxe = Some (m, e) /\ b = float_bits false (Some (m, e)) p ebits).
  { destruct F as [(-> & -> & -> & -> & ->)|(-> & -> & -> & -> & ->)].
    - rewrite (plain_decimal_float64 ip fp Hne Hip Hfp) in H. cbv zeta in H. fold mant in H.
      rewrite (eqb_false mant 0) in H by lia. rewrite dec_round_frac in H by lia. fold den in H.
      destruct (round_rat mant den 53 (-1074) 971) as [[m e]|]; [|discriminate]. exists m, e. split; [reflexivity|congruence].
    - rewrite (plain_decimal_float32 ip fp Hne Hip Hfp) in H. cbv zeta in H. fold mant in H.
      rewrite (eqb_false mant 0) in H by lia. rewrite dec_round_frac in H by lia. fold den in H.
      destruct (round_rat mant den 24 (-149) 104) as [[m e]|]; [|discriminate]. exists m, e. split; [reflexivity|congruence]. }
  destruct R as (m & e & R & ->). exists m, e.
  assert (Hp : 2 <= p) by (destruct F as [(_ & -> & _)|(_ & -> & _)]; lia).
  split; [reflexivity|split; [|split]].
  - apply (round_rat_canonical mant den p emin emaxe m e Hpos Hden ltac:(lia) R).
  - intros m' e2 Hm He2. apply (round_rat_nearest mant den p emin emaxe m e m' e2 Hpos Hden ltac:(lia) R Hm He2).
  - apply (round_rat_ties_to_even mant den p emin emaxe m e Hpos Hden Hp R).
Qed.
