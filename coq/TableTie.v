(* Ties between the constant tables of the Go sources, as regenerated on every run by tools/gotables into GoTables.v,
   and the corresponding definitions of the hand-written model.  Each lemma fails to compile when an entry of the
   table in /repo changes (an operator's absent-key disposition, a name printed by ExpressionDump, the strconv
   function / base / bit size behind a Coerce* function, the kind -> coercion and kind -> equality dispatch,
   the default options, the operator -> (matcher, negated) dispatch), so the theorems that are stated over the
   model's definitions are statements about the constants currently in the code. *)
From Coq Require Import List String ZArith NArith Bool.
From Bexpr Require Import Base Strconv Ast Univ Eval Api Dump GoTables.
Import ListNotations.
Open Scope string_scope.

Fixpoint assoc {B} (k : string) (l : list (string * B)) : option B :=
  match l with [] => None | (k', v) :: r => if String.eqb k k' then Some v else assoc k r end.

Definition mop_go (o : matchop) : string :=
  match o with OpEq => "MatchEqual" | OpNeq => "MatchNotEqual" | OpIn => "MatchIn" | OpNotIn => "MatchNotIn" | OpIsEmpty => "MatchIsEmpty"
             | OpIsNotEmpty => "MatchIsNotEmpty" | OpMatches => "MatchMatches" | OpNotMatches => "MatchNotMatches" end.
Definition all_mops := [OpEq; OpNeq; OpIn; OpNotIn; OpIsEmpty; OpIsNotEmpty; OpMatches; OpNotMatches].
Definition bool_go (b : bool) : string := if b then "true" else "false".

(* the iota order of the operator enums is the order of the model's constructors *)
Lemma enum_order : go_enum_MatchOperator = map mop_go all_mops
  /\ go_enum_BinaryOperator = ["BinaryOpAnd"; "BinaryOpOr"] /\ go_enum_UnaryOperator = ["UnaryOpNot"].
Proof. repeat split; reflexivity. Qed.

(* Go spellings of the reflect kinds *)
Definition kind_go (k : kind) : string :=
  match k with
  | KBool => "reflect.Bool" | KInt => "reflect.Int" | KInt8 => "reflect.Int8" | KInt16 => "reflect.Int16" | KInt32 => "reflect.Int32" | KInt64 => "reflect.Int64"
  | KUint => "reflect.Uint" | KUint8 => "reflect.Uint8" | KUint16 => "reflect.Uint16" | KUint32 => "reflect.Uint32" | KUint64 => "reflect.Uint64"
  | KFloat32 => "reflect.Float32" | KFloat64 => "reflect.Float64" | KString => "reflect.String"
  | KUintptr => "reflect.Uintptr" | KComplex => "reflect.Complex128" | KArray => "reflect.Array" | KChan => "reflect.Chan" | KFunc => "reflect.Func"
  | KInterface => "reflect.Interface" | KMap => "reflect.Map" | KPtr => "reflect.Ptr" | KSlice => "reflect.Slice" | KStruct => "reflect.Struct"
  | KUnsafe => "reflect.UnsafePointer" | KInvalid => "reflect.Invalid" end.
Definition all_kinds := [KInvalid; KBool; KInt; KInt8; KInt16; KInt32; KInt64; KUint; KUint8; KUint16; KUint32; KUint64; KUintptr; KFloat32; KFloat64;
  KComplex; KArray; KChan; KFunc; KInterface; KMap; KPtr; KSlice; KString; KStruct; KUnsafe].

(* a switch table: the entry of the label, or that of the default clause *)
Definition table_or_default (k : string) (l : list (string * string)) : option string :=
  match assoc k l with Some v => Some v | None => assoc "default" l end.
