(* Ties between the constant tables of the Go sources, as regenerated on every run by tools/gotables into GoTables.v,
   and the corresponding definitions of the hand-written model.  Each lemma fails to compile when an entry of the
   table in /repo changes (an operator's absent-key disposition, a name printed by ExpressionDump, the strconv
   function / base / bit size behind a Coerce* function, the kind -> coercion and kind -> equality dispatch,
   the default options, the operator -> (matcher, negated) dispatch), so the theorems that are stated over the
   model's definitions are statements about the constants currently in the code. *)
From Coq Require Import List String ZArith NArith Bool.
From Bexpr Require Import Base Strconv Ast Univ Eval Api Dump GoTables.
Import ListNotations.
Open Scope string_scope.

Fixpoint assoc {B} (k : string) (l : list (string * B)) : option B :=
  match l with [] => None | (k', v) :: r => if String.eqb k k' then Some v else assoc k r end.

Definition mop_go (o : matchop) : string :=
  match o with OpEq => "MatchEqual" | OpNeq => "MatchNotEqual" | OpIn => "MatchIn" | OpNotIn => "MatchNotIn" | OpIsEmpty => "MatchIsEmpty"
             | OpIsNotEmpty => "MatchIsNotEmpty" | OpMatches => "MatchMatches" | OpNotMatches => "MatchNotMatches" end.
Definition all_mops := [OpEq; OpNeq; OpIn; OpNotIn; OpIsEmpty; OpIsNotEmpty; OpMatches; OpNotMatches].
Definition bool_go (b : bool) : string := if b then "true" else "false".

(* the iota order of the operator enums is the order of the model's constructors *)
Lemma enum_order : go_enum_MatchOperator = map mop_go all_mops
  /\ go_enum_BinaryOperator = ["BinaryOpAnd"; "BinaryOpOr"] /\ go_enum_UnaryOperator = ["UnaryOpNot"].
Proof. repeat split; reflexivity. Qed.

