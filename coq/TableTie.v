(* Ties between the constant tables of the Go sources, as regenerated on every run by tools/gotables into GoTables.v,
   and the corresponding definitions of the hand-written model.  Each lemma fails to compile when an entry of the
   table in /repo changes (an operator's absent-key disposition, a name printed by ExpressionDump, the strconv
   function / base / bit size behind a Coerce* function, the kind -> coercion and kind -> equality dispatch,
   the default options, the operator -> (matcher, negated) dispatch), so the theorems that are stated over the
   model's definitions are statements about the constants currently in the code. *)
From Coq Require Import List String ZArith NArith Bool.
From Bexpr Require Import Base Strconv Ast Univ Eval Api Dump GoTables.
Import ListNotations.
Open Scope string_scope.

Fixpoint assoc {B} (k : string) (l : list (string * B)) : option B :=
  match l with [] => None | (k', v) :: r => if String.eqb k k' then Some v else assoc k r end.

Definition mop_go (o : matchop) : string :=
  match o with OpEq => "MatchEqual" | OpNeq => "MatchNotEqual" | OpIn => "MatchIn" | OpNotIn => "MatchNotIn" | OpIsEmpty => "MatchIsEmpty"
             | OpIsNotEmpty => "MatchIsNotEmpty" | OpMatches => "MatchMatches" | OpNotMatches => "MatchNotMatches" end.
Definition all_mops := [OpEq; OpNeq; OpIn; OpNotIn; OpIsEmpty; OpIsNotEmpty; OpMatches; OpNotMatches].
Definition bool_go (b : bool) : string := if b then "true" else "false".

(* the iota order of the operator enums is the order of the model's constructors *)
Lemma enum_order : go_enum_MatchOperator = map mop_go all_mops
  /\ go_enum_BinaryOperator = ["BinaryOpAnd"; "BinaryOpOr"] /\ go_enum_UnaryOperator = ["UnaryOpNot"].
Proof. repeat split; reflexivity. Qed.

(* NotPresentDisposition *)
Lemma not_present_table : forall op, assoc (mop_go op) go_not_present = Some (bool_go (disposition op)).
Proof. intros []; reflexivity. Qed.
Lemma not_present_default : assoc "default" go_not_present = Some "false".
Proof. reflexivity. Qed.

(* String() of the operators, the collection operators and binding modes: the texts ExpressionDump prints *)
Lemma match_operator_names : forall op, assoc (mop_go op) go_string_MatchOperator = Some (mop_name op).
Proof. intros []; reflexivity. Qed.
Lemma binary_operator_names :
  assoc "BinaryOpAnd" go_string_BinaryOperator = Some (bop_name BAnd) /\ assoc "BinaryOpOr" go_string_BinaryOperator = Some (bop_name BOr)
  /\ assoc "UnaryOpNot" go_string_UnaryOperator = Some "Not".
Proof. repeat split; reflexivity. Qed.
Lemma collection_names :
  assoc "CollectionOpAll" go_const_CollectionOperator = Some (cop_name CAll) /\ assoc "CollectionOpAny" go_const_CollectionOperator = Some (cop_name CAny)
  /\ go_const_CollectionBindMode = [("CollectionBindDefault", "Default"); ("CollectionBindIndex", "Index"); ("CollectionBindValue", "Value"); ("CollectionBindIndexAndValue", "Index & Value")].
Proof. repeat split; reflexivity. Qed.

(* kind -> coercion function and kind -> equality function: the model's scalar classes *)
Definition kind_go (k : kind) : string :=
  match k with
  | KBool => "reflect.Bool" | KInt => "reflect.Int" | KInt8 => "reflect.Int8" | KInt16 => "reflect.Int16" | KInt32 => "reflect.Int32" | KInt64 => "reflect.Int64"
  | KUint => "reflect.Uint" | KUint8 => "reflect.Uint8" | KUint16 => "reflect.Uint16" | KUint32 => "reflect.Uint32" | KUint64 => "reflect.Uint64"
  | KFloat32 => "reflect.Float32" | KFloat64 => "reflect.Float64" | KString => "reflect.String"
  | KUintptr => "reflect.Uintptr" | KComplex => "reflect.Complex128" | KArray => "reflect.Array" | KChan => "reflect.Chan" | KFunc => "reflect.Func"
  | KInterface => "reflect.Interface" | KMap => "reflect.Map" | KPtr => "reflect.Ptr" | KSlice => "reflect.Slice" | KStruct => "reflect.Struct"
  | KUnsafe => "reflect.UnsafePointer" | KInvalid => "reflect.Invalid" end.
Definition all_kinds := [KInvalid; KBool; KInt; KInt8; KInt16; KInt32; KInt64; KUint; KUint8; KUint16; KUint32; KUint64; KUintptr; KFloat32; KFloat64;
  KComplex; KArray; KChan; KFunc; KInterface; KMap; KPtr; KSlice; KString; KStruct; KUnsafe].
Definition coerce_fn_of_class (c : sclass) : string :=
  match c with SBool => "CoerceBool" | SInt => "CoerceInt64" | SUint => "CoerceUint64" | SF32 => "CoerceFloat32" | SF64 => "CoerceFloat64"
             | SString | SNone => "expression.Value.Raw" end.
Definition eq_fn_of_class (c : sclass) : string :=
  match c with SBool => "doEqualBool" | SInt => "doEqualInt64" | SUint => "doEqualUint64" | SF32 => "doEqualFloat32" | SF64 => "doEqualFloat64"
             | SString => "doEqualString" | SNone => "nil" end.
Definition table_or_default (k : string) (l : list (string * string)) : option string :=
  match assoc k l with Some v => Some v | None => assoc "default" l end.
Lemma coercion_dispatch : forall k, table_or_default (kind_go k) go_coerce_of_kind = Some (coerce_fn_of_class (sclass_of k)).
Proof. intros []; reflexivity. Qed.
Lemma equality_dispatch : forall k, table_or_default (kind_go k) go_equality_fn = Some (eq_fn_of_class (sclass_of k)).
Proof. intros []; reflexivity. Qed.

(* the strconv call behind each Coerce* function: function, base, bit size - what `coerce` calls *)
Lemma coerce_calls :
  assoc "CoerceInt64" go_coerce_calls = Some ("strconv.ParseInt", [0; 64]%Z)
  /\ assoc "CoerceUint64" go_coerce_calls = Some ("strconv.ParseUint", [0; 64]%Z)
  /\ assoc "CoerceBool" go_coerce_calls = Some ("strconv.ParseBool", []%Z)
  /\ assoc "CoerceFloat32" go_coerce_calls = Some ("strconv.ParseFloat", [32]%Z)
  /\ assoc "CoerceFloat64" go_coerce_calls = Some ("strconv.ParseFloat", [64]%Z).
Proof. repeat split; reflexivity. Qed.
Lemma coerce_uses_those_calls : forall k raw,
  coerce k raw = match sclass_of k with
                 | SBool => match parse_bool raw with POk b => Ok (LBool b) | PErr e => Err (perr_c e) end
                 | SInt => match parse_int raw 0 64 with POk z => Ok (LInt z) | PErr e => Err (perr_c e) end
                 | SUint => match parse_uint raw 0 64 with POk z => Ok (LUint z) | PErr e => Err (perr_c e) end
                 | SF32 => match parse_float raw 32 with POk z => Ok (LF32 z) | PErr e => Err (perr_c e) end
                 | SF64 => match parse_float raw 64 with POk z => Ok (LF64 z) | PErr e => Err (perr_c e) end
                 | _ => Ok (LStr raw) end.
Proof. reflexivity. Qed.

(* operator -> (matcher, negated): the pairing evaluateMatchExpression implements *)
Definition dispatch_of (op : matchop) : string * bool :=
  match op with OpEq => ("doMatchEqual", false) | OpNeq => ("doMatchEqual", true) | OpIn => ("doMatchIn", false) | OpNotIn => ("doMatchIn", true)
             | OpIsEmpty => ("doMatchIsEmpty", false) | OpIsNotEmpty => ("doMatchIsEmpty", true)
             | OpMatches => ("doMatchMatches", false) | OpNotMatches => ("doMatchMatches", true) end.
Lemma match_dispatch : forall op, assoc ("grammar." ++ mop_go op) go_match_dispatch = Some (dispatch_of op).
Proof. intros []; reflexivity. Qed.

(* getDefaultOptions *)
Lemma default_options :
  go_default_options = [("withMaxExpressions", "0"); ("withTagName", "bexpr"); ("withUnknown", "nil")]
  /\ o_max default_opts = 0%N /\ o_tag default_opts = "bexpr" /\ o_unknown default_opts = None.
Proof. repeat split; reflexivity. Qed.
