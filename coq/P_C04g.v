(* Property C04, grammar half - `S contains v` and `v in S` are the same test: the actions of the two spellings build the same operator and the same tree, and at the level of the parser (declarative semantics of the table regenerated from grammar.go) both texts are read as one tree. Statements only (proofs: C10.v, AtomsIn.v, AtomsNotIn.v). Kept apart from P_C04.v so that a change to the grammar files does not stop the evaluator half. *)
From Coq Require Import List String ZArith NArith Bool. From Bexpr Require Import Base Strconv Ast Unicode Peg Typing Actions GoGrammar Sem Calc Calc2 Lex Lex2 Lex3 Skel Top C10 Spell StrLit Values Sels AtomsIn AtomsOp AtomsNotIn ActionsPinned ActionsPinBy ActionsPinMatch. Import ListNotations.

Theorem c04_contains_is_in :
  forall (f : frame) (t : string),
  action_sem "MatchContains1" f t = AVal (VMOp OpIn) /\
  action_sem "MatchNotContains1" f t = AVal (VMOp OpNotIn) /\
  action_sem "MatchIn1" f t = AVal (VMOp OpIn) /\ action_sem "MatchNotIn1" f t = AVal (VMOp OpNotIn).
Proof. exact C10.c04_contains_is_in. Qed.
Print Assumptions c04_contains_is_in.

Theorem c04_same_tree_both_orders :
  forall (f : frame) (t : string), action_sem "MatchSelectorOpValue1" f t = action_sem "MatchValueOpSelector2" f t.
Proof. exact C10.c04_same_tree_both_orders. Qed.
Print Assumptions c04_same_tree_both_orders.

Theorem c04_in_contains_same_tree :
  forall a b : inatom, i_lit a = i_lit b -> i_first a = i_first b -> i_rest a = i_rest b -> i_exp a = i_exp b.
Proof. exact AtomsIn.c04_in_contains_same_tree. Qed.
Print Assumptions c04_in_contains_same_tree.

Theorem i_parse :
  forall (a : inatom) (k : list cell), astop k -> spec (PRef "MatchExpression") (i_txt a ++ k) (VExpr (i_exp a)) k.
Proof. exact AtomsIn.i_parse. Qed.
Print Assumptions i_parse.

Theorem c04_not_in_not_contains_same_tree :
  forall (a : ninatom) (b : opatom), p_op b = VNotContains -> l_lit (n_lit a) = v_lit (p_lit b) -> n_sel a = p_sel b -> n_exp a = p_exp b.
Proof. exact AtomsNotIn.c04_not_in_not_contains_same_tree. Qed.
Print Assumptions c04_not_in_not_contains_same_tree.

(* the match, value and literal rules' code blocks in grammar.go are the ones the action semantics above was written against *)
Theorem c04_match_actions_as_modelled :
  about match_rules GoGrammar.go_actions = about match_rules ActionsPinned.pinned_actions.
Proof. exact ActionsPinMatch.match_actions_pinned. Qed.
Print Assumptions c04_match_actions_as_modelled.
