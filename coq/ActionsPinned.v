(* The action code the hand-written action semantics (Actions.v: action_sem, pred_sem) was written against:
   name, parameters, labels and Go token stream of every code block.  A committed copy; GoGrammar.go_actions is
   regenerated from /repo on every run and must still equal it (actions_pinned), otherwise the semantic functions
   may no longer describe the code and the properties that depend on them go into SEARCH. *)
From Coq Require Import List String.
Import ListNotations.
Open Scope string_scope.
Definition pinned_actions : list (string * list string * list string * list string) := [
 ("Input2", ["expr"], ["expr"],
   ["return"; "expr"; ","; "nil"]);
 ("Input17", ["expr"], ["expr"],
   ["return"; "expr"; ","; "nil"]);
 ("OrExpression2", ["left"; "right"], ["left"; "right"],
   ["return"; "&"; "BinaryExpression"; "{"; "Operator"; ":"; "BinaryOpOr"; ","; "Left"; ":"; "left"; "."; "("; "Expression"; ")"; ","; "Right"; ":"; "right"; "."; "("; "Expression"; ")"; ","; "}"; ","; "nil"]);
 ("OrExpression11", ["expr"], ["expr"],
   ["return"; "expr"; ","; "nil"]);
 ("OrExpression14", ["expr"], ["expr"],
   ["return"; "expr"; ","; "nil"]);
 ("AndExpression2", ["left"; "right"], ["left"; "right"],
   ["return"; "&"; "BinaryExpression"; "{"; "Operator"; ":"; "BinaryOpAnd"; ","; "Left"; ":"; "left"; "."; "("; "Expression"; ")"; ","; "Right"; ":"; "right"; "."; "("; "Expression"; ")"; ","; "}"; ","; "nil"]);
 ("AndExpression11", ["expr"], ["expr"],
   ["return"; "expr"; ","; "nil"]);
 ("NotExpression2", ["expr"], ["expr"],
   ["if"; "unary"; ","; "ok"; ":="; "expr"; "."; "("; "*"; "UnaryExpression"; ")"; ";"; "ok"; "&&"; "unary"; "."; "Operator"; "=="; "UnaryOpNot"; "{"; "// small optimization to get rid unnecessary levels of AST nodes"; "// for things like:  not not foo == 3  which is equivalent to foo == 3"; "return"; "unary"; "."; "Operand"; ","; "nil"; "}"; "return"; "&"; "UnaryExpression"; "{"; "Operator"; ":"; "UnaryOpNot"; ","; "Operand"; ":"; "expr"; "."; "("; "Expression"; ")"; ","; "}"; ","; "nil"]);
 ("NotExpression8", ["expr"], ["expr"],
   ["return"; "expr"; ","; "nil"]);
 ("CollectionExpression1", ["op"; "selector"; "binding"; "expr"], ["op"; "selector"; "binding"; "expr"],
   ["return"; "&"; "CollectionExpression"; "{"; "Op"; ":"; "op"; "."; "("; "CollectionOperator"; ")"; ","; "Selector"; ":"; "selector"; "."; "("; "Selector"; ")"; ","; "NameBinding"; ":"; "binding"; "."; "("; "CollectionNameBinding"; ")"; ","; "Inner"; ":"; "expr"; "."; "("; "Expression"; ")"; ","; "}"; ","; "nil"]);
 ("CollectionIdentifiers2", ["id1"; "id2"], ["id1"; "id2"],
   ["return"; "CollectionNameBinding"; "{"; "Mode"; ":"; "CollectionBindIndexAndValue"; ","; "Index"; ":"; "id1"; "."; "("; "string"; ")"; ","; "Value"; ":"; "id2"; "."; "("; "string"; ")"; ","; "}"; ","; "nil"]);
 ("CollectionIdentifiers13", ["id1"], ["id1"],
   ["return"; "CollectionNameBinding"; "{"; "Mode"; ":"; "CollectionBindIndex"; ","; "Index"; ":"; "id1"; "."; "("; "string"; ")"; ","; "}"; ","; "nil"]);
 ("CollectionIdentifiers23", ["id2"], ["id2"],
   ["return"; "CollectionNameBinding"; "{"; "Mode"; ":"; "CollectionBindValue"; ","; "Value"; ":"; "id2"; "."; "("; "string"; ")"; ","; "}"; ","; "nil"]);
 ("CollectionIdentifiers33", ["id"], ["id"],
   ["return"; "CollectionNameBinding"; "{"; "Mode"; ":"; "CollectionBindDefault"; ","; "Default"; ":"; "id"; "."; "("; "string"; ")"; ","; "}"; ","; "nil"]);
 ("CollectionOpAny1", [], [],
   ["return"; "CollectionOpAny"; ","; "nil"]);
 ("CollectionOpAll1", [], [],
   ["return"; "CollectionOpAll"; ","; "nil"]);
 ("ParenthesizedExpression2", ["expr"], ["expr"],
   ["return"; "expr"; ","; "nil"]);
 ("ParenthesizedExpression12", ["expr"], ["expr"],
   ["return"; "expr"; ","; "nil"]);
 ("ParenthesizedExpression24", [], [],
   ["return"; "false"; ","; "errors"; "."; "New"; "("; """Unmatched parentheses"""; ")"]);
 ("MatchSelectorOpValue1", ["selector"; "operator"; "value"], ["selector"; "operator"; "value"],
   ["return"; "&"; "MatchExpression"; "{"; "Selector"; ":"; "selector"; "."; "("; "Selector"; ")"; ","; "Operator"; ":"; "operator"; "."; "("; "MatchOperator"; ")"; ","; "Value"; ":"; "value"; "."; "("; "*"; "MatchValue"; ")"; "}"; ","; "nil"]);
 ("MatchSelectorOp1", ["selector"; "operator"], ["selector"; "operator"],
   ["return"; "&"; "MatchExpression"; "{"; "Selector"; ":"; "selector"; "."; "("; "Selector"; ")"; ","; "Operator"; ":"; "operator"; "."; "("; "MatchOperator"; ")"; ","; "Value"; ":"; "nil"; "}"; ","; "nil"]);
 ("MatchValueOpSelector2", ["value"; "operator"; "selector"], ["value"; "operator"; "selector"],
   ["return"; "&"; "MatchExpression"; "{"; "Selector"; ":"; "selector"; "."; "("; "Selector"; ")"; ","; "Operator"; ":"; "operator"; "."; "("; "MatchOperator"; ")"; ","; "Value"; ":"; "value"; "."; "("; "*"; "MatchValue"; ")"; "}"; ","; "nil"]);
 ("MatchValueOpSelector20", ["operator"], ["operator"],
   ["return"; "false"; ","; "errors"; "."; "New"; "("; """Invalid selector"""; ")"]);
 ("MatchEqual1", [], [],
   ["return"; "MatchEqual"; ","; "nil"]);
 ("MatchNotEqual1", [], [],
   ["return"; "MatchNotEqual"; ","; "nil"]);
 ("MatchIsEmpty1", [], [],
   ["return"; "MatchIsEmpty"; ","; "nil"]);
 ("MatchIsNotEmpty1", [], [],
   ["return"; "MatchIsNotEmpty"; ","; "nil"]);
 ("MatchIn1", [], [],
   ["return"; "MatchIn"; ","; "nil"]);
 ("MatchNotIn1", [], [],
   ["return"; "MatchNotIn"; ","; "nil"]);
 ("MatchContains1", [], [],
   ["return"; "MatchIn"; ","; "nil"]);
 ("MatchNotContains1", [], [],
   ["return"; "MatchNotIn"; ","; "nil"]);
 ("MatchMatches1", [], [],
   ["return"; "MatchMatches"; ","; "nil"]);
 ("MatchNotMatches1", [], [],
   ["return"; "MatchNotMatches"; ","; "nil"]);
 ("Selector2", ["first"; "rest"], ["first"; "rest"],
   ["sel"; ":="; "Selector"; "{"; "Type"; ":"; "SelectorTypeBexpr"; ","; "Path"; ":"; "["; "]"; "string"; "{"; "first"; "."; "("; "string"; ")"; "}"; ","; "}"; "if"; "rest"; "!="; "nil"; "{"; "for"; "_"; ","; "v"; ":="; "range"; "rest"; "."; "("; "["; "]"; "interface"; "{"; "}"; ")"; "{"; "sel"; "."; "Path"; "="; "append"; "("; "sel"; "."; "Path"; ","; "v"; "."; "("; "string"; ")"; ")"; "}"; "}"; "return"; "sel"; ","; "nil"]);
 ("Selector9", ["ptrsegs"], ["ptrsegs"],
   ["sel"; ":="; "Selector"; "{"; "Type"; ":"; "SelectorTypeJsonPointer"; ","; "}"; "if"; "ptrsegs"; "!="; "nil"; "{"; "for"; "_"; ","; "v"; ":="; "range"; "ptrsegs"; "."; "("; "["; "]"; "interface"; "{"; "}"; ")"; "{"; "sel"; "."; "Path"; "="; "append"; "("; "sel"; "."; "Path"; ","; "v"; "."; "("; "string"; ")"; ")"; "}"; "}"; "// Validate and cache"; "ptrStr"; ":="; "fmt"; "."; "Sprintf"; "("; """/%s"""; ","; "strings"; "."; "Join"; "("; "sel"; "."; "Path"; ","; """/"""; ")"; ")"; "ptr"; ","; "err"; ":="; "pointerstructure"; "."; "Parse"; "("; "ptrStr"; ")"; "if"; "err"; "!="; "nil"; "{"; "return"; "nil"; ","; "fmt"; "."; "Errorf"; "("; """error validating json pointer: %w"""; ","; "err"; ")"; "}"; "sel"; "."; "Path"; "="; "ptr"; "."; "Parts"; "return"; "sel"; ","; "nil"]);
 ("JsonPointerSegment1", ["ident"], ["ident"],
   ["return"; "string"; "("; "c"; "."; "text"; ")"; "["; "1"; ":"; "]"; ","; "nil"]);
 ("Identifier1", [], [],
   ["return"; "string"; "("; "c"; "."; "text"; ")"; ","; "nil"]);
 ("SelectorOrIndex2", ["ident"], ["ident"],
   ["return"; "ident"; ","; "nil"]);
 ("SelectorOrIndex7", ["expr"], ["expr"],
   ["return"; "expr"; ","; "nil"]);
 ("SelectorOrIndex10", ["idx"], ["idx"],
   ["return"; "string"; "("; "c"; "."; "text"; ")"; "["; "1"; ":"; "]"; ","; "nil"]);
 ("IndexExpression2", ["lit"], ["lit"],
   ["return"; "lit"; ","; "nil"]);
 ("IndexExpression18", [], [],
   ["return"; "false"; ","; "errors"; "."; "New"; "("; """Invalid index"""; ")"]);
 ("IndexExpression28", [], [],
   ["return"; "false"; ","; "errors"; "."; "New"; "("; """Unclosed index expression"""; ")"]);
 ("Value2", ["selector"], ["selector"],
   ["if"; "selector"; "."; "("; "Selector"; ")"; "."; "Type"; "=="; "SelectorTypeJsonPointer"; "{"; "// a quoted value is a string literal even when it looks like a JSON Pointer"; "return"; "&"; "MatchValue"; "{"; "Raw"; ":"; "string"; "("; "c"; "."; "text"; "["; "1"; ":"; "len"; "("; "c"; "."; "text"; ")"; "-"; "1"; "]"; ")"; "}"; ","; "nil"; "}"; "return"; "&"; "MatchValue"; "{"; "Raw"; ":"; "selector"; "."; "("; "Selector"; ")"; "."; "String"; "("; ")"; "}"; ","; "nil"]);
 ("Value5", ["n"], ["n"],
   ["return"; "&"; "MatchValue"; "{"; "Raw"; ":"; "n"; "."; "("; "string"; ")"; "}"; ","; "nil"]);
 ("Value8", ["s"], ["s"],
   ["return"; "&"; "MatchValue"; "{"; "Raw"; ":"; "s"; "."; "("; "string"; ")"; "}"; ","; "nil"]);
 ("NumberLiteral2", [], [],
   ["return"; "string"; "("; "c"; "."; "text"; ")"; ","; "nil"]);
 ("NumberLiteral15", [], [],
   ["return"; "false"; ","; "errors"; "."; "New"; "("; """Invalid number literal"""; ")"]);
 ("StringLiteral2", [], [],
   ["return"; "strconv"; "."; "Unquote"; "("; "string"; "("; "c"; "."; "text"; ")"; ")"]);
 ("StringLiteral25", [], [],
   ["return"; "false"; ","; "errors"; "."; "New"; "("; """Unterminated string literal"""; ")"])
].
