From Coq Require Import List ZArith String Ascii Bool NArith Lia.
Import ListNotations.
From Bexpr Require Import Base Ast Unicode Peg Typing Actions GoGrammar Sem Term Lex Lex2.
Open Scope string_scope.

(* A small calculus of derived rules over the declarative semantics of the bexpr table:
   success specifications thread the remaining input, the error count and the label frame;
   failure specifications say that nothing was consumed and no error was recorded. *)

Definition step_to (s s' : st) (i : list cell) (f : frame) : Prop := inp s' = i /\ nerr s' = nerr s /\ fr s' = f.

Definition pe_ok (e : pexpr) (i k : list cell) (F : frame) : Prop :=
  all_valid i -> all_valid k /\ forall s, inp s = i -> exists v s', SEM e s (Done true v s') /\ step_to s s' k (app F (fr s)).
Definition spec (e : pexpr) (i : list cell) (v : pv) (k : list cell) : Prop :=
  all_valid i -> all_valid k /\ forall s, inp s = i -> exists s', SEM e s (Done true v s') /\ step_to s s' k (fr s).
Definition specj (e : pexpr) (i : list cell) (v : pv) (k : list cell) : Prop :=
  all_valid i -> all_valid k /\ forall s, inp s = i -> exists s', SEM e s (Done true v s') /\ inp s' = k /\ nerr s' = nerr s.
Definition specc (alts : list pexpr) (i : list cell) (v : pv) (k : list cell) : Prop :=
  all_valid i -> all_valid k /\ forall s, inp s = i -> exists s', SEMC alts s (Done true v s') /\ step_to s s' k (fr s).
Definition seqs_ok (es : list pexpr) (i k : list cell) (F : frame) : Prop :=
  all_valid i -> all_valid k /\ forall start acc s, inp s = i -> exists v s', SEMS es start acc s (Done true v s') /\ step_to s s' k (app F (fr s)).
Definition fspecj (e : pexpr) (i : list cell) : Prop :=
  all_valid i -> forall s, inp s = i -> exists v s', SEM e s (Done false v s') /\ inp s' = i /\ nerr s' = nerr s.
Definition fseqs (es : list pexpr) (i : list cell) : Prop :=
  all_valid i -> forall start acc s, inp s = i -> exists s', SEMS es start acc s (Done false VNil s') /\ inp s' = start /\ nerr s' = nerr s.

(* ---- success combinators ---- *)
Lemma spec_j e i v k : spec e i v k -> specj e i v k.
Proof.
  intros H Hv. destruct (H Hv) as [Hk Hs]. split; [exact Hk|]. intros s E.
  destruct (Hs s E) as [s1 [H1 [Hi [Hn _]]]]. exists s1. auto.
Qed.

Lemma spec_pe e i v k : spec e i v k -> pe_ok e i k [].
Proof.
  intros H Hv. destruct (H Hv) as [Hk Hs]. split; [exact Hk|]. intros s E.
  destruct (Hs s E) as [s1 [H1 H2]]. exists v, s1. auto.
Qed.

Lemma lab_ok l b i v k : spec b i v k -> pe_ok (PLabeled l b) i k [(l, v)].
Proof.
  intros H Hv. destruct (H Hv) as [Hk Hs]. split; [exact Hk|]. intros s E.
  destruct (Hs (set_fr (tk s) []) E) as [s1 [H1 [Hi [Hn Hf]]]].
  exists v, (bind_label (set_fr s1 (fr s)) l v). split; [exact (L_labeled l b s true v s1 H1)|].
  unfold step_to. cbn. auto.
Qed.

Lemma seqs_nil i : seqs_ok [] i i [].
Proof.
  intros Hv. split; [exact Hv|]. intros start acc s E. exists (VList (rev acc)), s. split; [apply ss_nil|].
  unfold step_to. cbn. auto.
Qed.

Lemma seqs_cons a es i j k F1 F2 : pe_ok a i j F1 -> seqs_ok es j k F2 -> seqs_ok (a :: es) i k (app F2 F1).
Proof.
  intros Ha Hes Hv. destruct (Ha Hv) as [Hj Has]. destruct (Hes Hj) as [Hk Hess]. split; [exact Hk|].
  intros start acc s E. destruct (Has s E) as [v [s1 [H1 [Hi [Hn Hf]]]]].
  destruct (Hess start (v :: acc) s1 Hi) as [v2 [s2 [H2 [Hi2 [Hn2 Hf2]]]]].
  exists v2, s2. split; [eapply ss_ok; eassumption|].
  unfold step_to. rewrite Hi2, Hn2, Hf2, Hn, Hf, app_assoc. auto.
Qed.

Lemma seq_ok es i k F : seqs_ok es i k F -> pe_ok (PSeq es) i k F.
Proof.
  intros H Hv. destruct (H Hv) as [Hk Hs]. split; [exact Hk|]. intros s E.
  destruct (Hs (inp s) [] (tk s) E) as [v [s1 [H1 H2]]]. exists v, s1. split; [apply L_seq; exact H1| exact H2].
Qed.

Lemma action_ok id b i k F v' : pe_ok b i k F ->
  (forall G, action_sem id (app F G) (text_between i k) = AVal v') -> specj (PAction id b) i v' k.
Proof.
  intros H Ha Hv. destruct (H Hv) as [Hk Hs]. split; [exact Hk|]. intros s E.
  destruct (Hs (tk s) E) as [v [s1 [H1 [Hi [Hn Hf]]]]]. exists s1. split; [|auto].
  eapply L_action_ok; [exact H1|]. rewrite Hf, E, Hi. apply Ha.
Qed.

Lemma specc_here a alts i v k : specj a i v k -> specc (a :: alts) i v k.
Proof.
  intros H Hv. destruct (H Hv) as [Hk Hs]. split; [exact Hk|]. intros s E.
  destruct (Hs (set_fr s []) E) as [s1 [H1 [Hi Hn]]]. exists (set_fr s1 (fr s)). split.
  - apply sc_ok. exact (L_w a s true v s1 H1).
  - unfold step_to. cbn. auto.
Qed.

Lemma specc_next a alts i v k : fspecj a i -> specc alts i v k -> specc (a :: alts) i v k.
Proof.
  intros Hf H Hv. destruct (H Hv) as [Hk Hs]. split; [exact Hk|]. intros s E.
  destruct (Hf Hv (set_fr s []) E) as [v1 [s1 [H1 [Hi Hn]]]].
  assert (E1 : inp (set_fr s1 (fr s)) = i) by exact Hi.
  destruct (Hs _ E1) as [s2 [H2 [Hi2 [Hn2 Hf2]]]]. exists s2. split.
  - eapply sc_next; [exact (L_w a s false v1 s1 H1)| exact H2].
  - unfold step_to. rewrite Hi2, Hn2, Hf2. cbn. auto.
Qed.

Lemma choice_ok alts i v k : specc alts i v k -> spec (PChoice alts) i v k.
Proof.
  intros H Hv. destruct (H Hv) as [Hk Hs]. split; [exact Hk|]. intros s E.
  destruct (Hs (tk s) E) as [s1 [H1 H2]]. exists s1. split; [apply L_choice; exact H1| exact H2].
Qed.

Lemma ref_ok n ru i v k : find_rule go_grammar n = Some ru -> specj (rexpr ru) i v k -> spec (PRef n) i v k.
Proof.
  intros Hf H Hv. destruct (H Hv) as [Hk Hs]. split; [exact Hk|]. intros s E.
  destruct (Hs (set_fr (tk s) []) E) as [s1 [H1 [Hi Hn]]]. exists (set_fr s1 (fr s)). split.
  - exact (L_ref n ru s true v s1 Hf H1).
  - unfold step_to. cbn. auto.
Qed.

(* ---- failure combinators ---- *)
Lemma fails_f P e i : fails P e -> P i -> fspecj e i.
Proof.
  intros H Hp _ s E. rewrite <- E in Hp. destruct (H s Hp) as [v [s1 [H1 [Hi [Hn _]]]]].
  exists v, s1. rewrite <- E. auto.
Qed.

Lemma fseqs_here a es i : fspecj a i -> fseqs (a :: es) i.
Proof.
  intros H Hv start acc s E. destruct (H Hv s E) as [v [s1 [H1 [Hi Hn]]]].
  exists (set_inp s1 start). split; [eapply ss_fail; exact H1|]. cbn. auto.
Qed.

Lemma fseqs_later a es i j F : pe_ok a i j F -> fseqs es j -> fseqs (a :: es) i.
Proof.
  intros Ha Hes Hv start acc s E. destruct (Ha Hv) as [Hj Has].
  destruct (Has s E) as [v [s1 [H1 [Hi [Hn Hf]]]]].
  destruct (Hes Hj start (v :: acc) s1 Hi) as [s2 [H2 [Hi2 Hn2]]].
  exists s2. split; [eapply ss_ok; eassumption|]. rewrite Hi2, Hn2, Hn. auto.
Qed.

Lemma fseq es i : fseqs es i -> fspecj (PSeq es) i.
Proof.
  intros H Hv s E. destruct (H Hv (inp s) [] (tk s) E) as [s1 [H1 [Hi Hn]]].
  exists VNil, s1. split; [apply L_seq; exact H1|]. rewrite Hi, Hn, E. auto.
Qed.

Lemma faction id b i : fspecj b i -> fspecj (PAction id b) i.
Proof.
  intros H Hv s E. destruct (H Hv (tk s) E) as [v [s1 [H1 H2]]].
  exists v, s1. split; [apply L_action_fail; exact H1| exact H2].
Qed.

Lemma fref n ru i : find_rule go_grammar n = Some ru -> fspecj (rexpr ru) i -> fspecj (PRef n) i.
Proof.
  intros Hf H Hv s E. destruct (H Hv (set_fr (tk s) []) E) as [v [s1 [H1 [Hi Hn]]]].
  exists v, (set_fr s1 (fr s)). split; [exact (L_ref n ru s false v s1 Hf H1)|]. cbn. auto.
Qed.

(* ---- literals ---- *)
Lemma lit_go_hit : forall txt k start s, inp s = app txt k -> all_valid (app txt k) ->
  exists s', lit_go (map crune txt) start s = (true, s') /\ keeps s s' k.
Proof.
  induction txt as [|x txt IH]; intros k start s E Hv.
  - exists s. split; [reflexivity|]. unfold keeps. auto.
  - cbn [map lit_go]. cbn [app] in E. rewrite E. rewrite Z.eqb_refl.
    inversion Hv as [|? ? _ Hv']; subst.
    destruct (advance_keeps s x (app txt k) E Hv') as [Hi [Hn Hf]].
    destruct (IH k start (advance s) Hi Hv') as [s' [H1 [Hi' [Hn' Hf']]]].
    exists s'. split; [exact H1|]. unfold keeps. rewrite Hi', Hn', Hf', Hn, Hf. auto.
Qed.

Lemma lit_ok l txt k : map crune txt = l -> pe_ok (PLit l false) (app txt k) k [].
Proof.
  intros Hl Hv. split; [exact (proj2 (proj1 (Forall_app _ _ _) Hv))|]. intros s E. subst l.
  set (s1 := tk s). assert (E1 : inp s1 = app txt k) by exact E.
  destruct (lit_go_hit txt k (inp s1) s1 E1 Hv) as [s2 [H2 [Hi [Hn Hf]]]].
  assert (Hb : body go_grammar action_sem pred_sem no_rec 0 (PLit (map crune txt) false) s1
               = Done true (VBytes (text_between (inp s1) (inp s2))) s2).
  { cbn [body]. rewrite H2. reflexivity. }
  exists (VBytes (text_between (inp s1) (inp s2))), s2. split.
  - apply sem_tick. fold s1. rewrite <- Hb. apply sb_leaf. reflexivity.
  - unfold step_to. cbn. auto.
Qed.

Lemma fails_lit c l : fails (head_not c) (PLit (c :: l) false).
Proof.
  intros s H. set (s1 := tk s).
  assert (Hb : body go_grammar action_sem pred_sem no_rec 0 (PLit (c :: l) false) s1 = Done false VNil (set_inp s1 (inp s1))).
  { cbn [body lit_go]. change (inp s1) with (inp s). destruct (inp s) as [|x r]; [reflexivity|].
    cbn in H. destruct (Z.eqb_spec (crune x) c) as [E|E]; [contradiction|]. reflexivity. }
  exists VNil, (set_inp s1 (inp s1)). split.
  - apply sem_tick. fold s1. rewrite <- Hb. apply sb_leaf. reflexivity.
  - unfold clean. cbn. auto.
Qed.

(* ---- whitespace ---- *)
Definition cls_ws := {| cc_val := "[ \t\r\n]"; cc_chars := [32; 9; 13; 10]%Z; cc_ranges := []; cc_classes := []; cc_ignore_case := false; cc_inverted := false |}.
Definition is_ws (c : cell) : Prop := class_match cls_ws (crune c) = true.
Definition ws_free (k : list cell) : Prop := match k with [] => True | c :: _ => class_match cls_ws (crune c) = false end.

Lemma fails_ws : fails ws_free (PRef "_").
Proof.
  eapply fails_ref; [reflexivity|]. cbn [rexpr]. intros s H.
  destruct (semw_class_miss cls_ws (tk s) H) as [s1 [H1 [Hi [Hn Hf]]]].
  exists VNil, s1. split; [apply sem_tick; eapply sb_plus_fail; exact H1|]. unfold clean. auto.
Qed.

Lemma ws_plus_ok c w k : is_ws c -> Forall is_ws w -> ws_free k -> pe_ok (PRef "_") (c :: app w k) k [].
Proof.
  intros Hc Hw Hk Hv. inversion Hv as [|? ? _ Hv1]; subst.
  split; [exact (proj2 (proj1 (Forall_app _ _ _) Hv1))|]. intros s E.
  set (s0 := set_fr (tk s) []).
  destruct (semw_class_hit cls_ws (tk s0) c (app w k) E Hv1 Hc) as [s1 [H1 [Hi1 [Hn1 Hf1]]]].
  destruct (semr_class cls_ws k Hk w [VBytes (cbytes c)] s1 Hi1 Hv1 Hw) as [v [s2 [H2 [Hi2 [Hn2 Hf2]]]]].
  exists v, (set_fr s2 (fr s)). split.
  - eapply L_ref; [reflexivity|]. cbn [rexpr]. apply sem_tick. eapply sb_plus_ok; [exact H1| exact H2].
  - unfold step_to. cbn. rewrite Hi2, Hn2, Hn1. auto.
Qed.

Lemma L_opt b s ok v s' : SEM b (set_fr (tk s) []) (Done ok v s') ->
  SEM (POpt b) s (Done true (if ok then v else VNil) (set_fr s' (fr s))).
Proof.
  intros H. apply sem_tick.
  exact (sb_opt go_grammar action_sem pred_sem b (tk s) _ (sw _ _ _ b (tk s) _ H)).
Qed.

Lemma ws_opt_ok w k : Forall is_ws w -> ws_free k -> pe_ok (POpt (PRef "_")) (app w k) k [].
Proof.
  intros Hw Hk Hv. destruct w as [|c w].
  - split; [exact Hv|]. intros s E. cbn [app] in *.
    destruct (fails_ws (set_fr (tk s) [])) as [v [s1 [H1 [Hi [Hn Hf]]]]]; [cbn; rewrite E; exact Hk|].
    exists VNil, (set_fr s1 (fr s)). split; [exact (L_opt _ s false v s1 H1)|].
    unfold step_to. cbn. rewrite Hi, Hn. cbn. auto.
  - inversion Hw as [|? ? Hc Hw']; subst.
    destruct (ws_plus_ok c w k Hc Hw' Hk Hv) as [Hvk Hs]. split; [exact Hvk|]. intros s E.
    destruct (Hs (set_fr (tk s) []) E) as [v [s1 [H1 [Hi [Hn Hf]]]]].
    exists v, (set_fr s1 (fr s)). split; [exact (L_opt _ s true v s1 H1)|].
    unfold step_to. cbn. rewrite Hi, Hn. cbn. auto.
Qed.
Print Assumptions ws_opt_ok.
