From Coq Require Import List ZArith String Ascii Bool NArith Lia Permutation.
Import ListNotations.
From Bexpr Require Import Base Strconv Ast Univ Eval Props C05 Api Rel.
Open Scope string_scope.

Section M.
Variable re : string -> string -> option bool.
Variable parse : option N -> string -> option expr.
Notation evaluate := (evaluate re).
Notation execute := (execute re).

(* ---- C17: maps ---- *)
Lemma filter_map_spec ev et l : forall acc,
  forallb (fun kv => clean (evaluate ev (r_interface (Some (et, snd kv))))) l = true ->
  filter_map re ev et l acc = inl (app (rev acc) (filter (fun kv => is_true (evaluate ev (r_interface (Some (et, snd kv))))) l)).
Proof.
  induction l as [|[k x] l IH]; intros acc H; cbn [filter_map filter forallb snd] in *; [rewrite app_nil_r; reflexivity|].
  apply andb_prop in H. destruct H as [Hx Hl].
  destruct (evaluate ev (r_interface (Some (et, x)))) as [[|] [e|]|]; cbn in Hx; try discriminate; cbn [is_true].
  - rewrite (IH ((k, x) :: acc) Hl). cbn [rev]. rewrite <- app_assoc. reflexivity.
  - apply IH. exact Hl.
Qed.

Theorem c17_map (ev : evaluator) (t : gtype) (n : bool) (kvs : list (gval * gval)) : kind_of_type t = KMap ->
  forallb (fun kv => clean (evaluate ev (r_interface (Some (elem_type t, snd kv))))) kvs = true ->
  execute (Some ev) (Some (t, VMap n kvs)) =
    FMap t (filter (fun kv => is_true (evaluate ev (r_interface (Some (elem_type t, snd kv))))) kvs).
Proof. intros Hk H. cbn [Api.execute]. rewrite Hk, (filter_map_spec ev (elem_type t) kvs [] H). reflexivity. Qed.

(* the first evaluation error is returned and nothing else *)
Theorem c17_error_propagates (ev : evaluator) (t : gtype) (n : bool) (l : list gval) : kind_of_type t = KSlice ->
  forallb (fun x => clean (evaluate ev (r_interface (Some (elem_type t, x))))) l = false ->
  exists r, execute (Some ev) (Some (t, VSlice n l)) = r /\ match r with FErr _ | FPanic => True | _ => False end.
Proof.
  intros Hk H. cbn [Api.execute]. rewrite Hk. destruct (filter_list_error re ev (elem_type t) l [] H) as [r ->].
  destruct r as [e|u]; eexists; split; try reflexivity; exact I.
Qed.

(* E and `not E` split the input when no element errs *)
Theorem c17_partition (ev ev' : evaluator) (t : gtype) (n : bool) (l : list gval) :
  (forall x, evaluate ev' x = negate (evaluate ev x)) ->
  kind_of_type t = KSlice ->
  forallb (fun x => clean (evaluate ev (r_interface (Some (elem_type t, x))))) l = true ->
  exists yes no, execute (Some ev) (Some (t, VSlice n l)) = FSlice t yes /\ execute (Some ev') (Some (t, VSlice n l)) = FSlice t no /\
    Permutation l (app yes no).
Proof.
  intros Hneg Hk H.
  set (p := fun x => is_true (evaluate ev (r_interface (Some (elem_type t, x))))).
  assert (H' : forallb (fun x => clean (evaluate ev' (r_interface (Some (elem_type t, x))))) l = true).
  { rewrite forallb_forall in *. intros x Hx. specialize (H x Hx). rewrite Hneg. destruct (evaluate ev _) as [b [e|]|]; cbn in *; auto. }
  exists (filter p l), (filter (fun x => negb (p x)) l). repeat split.
  - apply (c17_slice re ev t n l Hk H).
  - rewrite (c17_slice re ev' t n l Hk H'). f_equal. apply filter_ext_in. intros x Hx. unfold p. rewrite Hneg.
    rewrite forallb_forall in H. specialize (H x Hx). destruct (evaluate ev _) as [[|] [e|]|]; cbn in *; try discriminate; reflexivity.
  - clear. induction l as [|x l IH]; cbn; [constructor|]. destruct (p x); cbn; [constructor; exact IH|].
    eapply perm_trans; [constructor; exact IH|]. apply Permutation_middle.
Qed.

(* ---- C08 for filters: data that differ only in hidden contents keep the same positions ---- *)
Theorem c08_filter_same_positions (ev : evaluator) (t : gtype) (la lb : list gval) :
  ev_hook ev = None -> kind_of_type t = KSlice ->
  Forall2 (veq (if String.eqb (ev_tag ev) "" then "pointer" else ev_tag ev) (elem_type t)) la lb ->
  map (fun x => evaluate ev (r_interface (Some (elem_type t, x)))) la = map (fun x => evaluate ev (r_interface (Some (elem_type t, x)))) lb.
Proof.
  intros Hh Hk H. induction H as [|a b la lb Hab _ IH]; cbn [map]; [reflexivity|]. rewrite IH. f_equal.
  assert (E : forall d, evaluate ev d = eval re {| tagname := ev_tag ev; hook := ev_hook ev; unknown := ev_unknown ev |} [] (ev_ast ev) d).
  { intros d. unfold Api.evaluate, reissued. destruct (ev_unknown ev); reflexivity. }
  rewrite !E. apply c08_noninterference; [exact Hh|]. cbn [tagname].
  apply r_interface_veq. cbn. split; [reflexivity|exact Hab].
Qed.

(* ---- C18: neutral settings ---- *)
Definition id_hook : rv -> rv := fun x => x.

(* an identity hook changes nothing: it never returns the zero Value for a value that a lookup step produced *)
Lemma get_step_valid cfg part x : match get_step cfg part x with Ok None => False | _ => True end.
Proof.
  unfold get_step. destruct (strip_ptrs 8 (strip_iface x)) as [[t v]|]; [|exact I].
  destruct v; try exact I.
  - destruct (parse_int _ _ _); [|exact I]. destruct (_ || _); [exact I|]. destruct (nth_error _ _); exact I.
  - destruct (parse_int _ _ _); [|exact I]. destruct (_ || _); [exact I|]. destruct (nth_error _ _); exact I.
  - destruct (coerce_key _ _); try exact I. destruct (map_find _ _ _); exact I.
  - destruct (under t); try exact I. destruct (get_struct _ _ _ _ _ _); exact I.
Qed.

Lemma get_loop_id_hook tag unk parts : forall x,
  get_loop {| tagname := tag; hook := Some id_hook; unknown := unk |} parts x = get_loop {| tagname := tag; hook := None; unknown := unk |} parts x.
Proof.
  induction parts as [|p ps IH]; intros x; cbn [get_loop hook]; [reflexivity|].
  assert (Hs : get_step {| tagname := tag; hook := Some id_hook; unknown := unk |} p x = get_step {| tagname := tag; hook := None; unknown := unk |} p x) by reflexivity.
  rewrite Hs. pose proof (get_step_valid {| tagname := tag; hook := None; unknown := unk |} p x) as Hv.
  destruct (get_step _ p x) as [[nxt|]| |]; try reflexivity; [|contradiction]. unfold id_hook. apply IH.
Qed.

Theorem c18_neutral_hook_lookup tag unk parts d :
  get {| tagname := tag; hook := Some id_hook; unknown := unk |} parts d = get {| tagname := tag; hook := None; unknown := unk |} parts d.
Proof. unfold get. destruct parts; [reflexivity|]. rewrite get_loop_id_hook. reflexivity. Qed.
End M.
Print Assumptions c17_partition.
Print Assumptions c08_filter_same_positions.
Print Assumptions c18_neutral_hook_lookup.
