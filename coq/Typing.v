From Coq Require Import List ZArith String Bool NArith Lia.
Import ListNotations.
From Bexpr Require Import Base Ast Unicode Peg.
Open Scope string_scope.

(* types of parser values *)
Inductive vty := TNever | TAny | TExpr | TSel | TMOpV | TMOpN | TCOp | TBind | TMV | TStr | TList (t : vty).

Fixpoint vty_eqb (a b : vty) : bool :=
  match a, b with
  | TNever, TNever | TAny, TAny | TExpr, TExpr | TSel, TSel | TMOpV, TMOpV | TMOpN, TMOpN
  | TCOp, TCOp | TBind, TBind | TMV, TMV | TStr, TStr => true
  | TList x, TList y => vty_eqb x y
  | _, _ => false end.
Lemma vty_eqb_eq a : forall b, vty_eqb a b = true -> a = b.
Proof. induction a; destruct b; cbn; try discriminate; auto. intros H. f_equal. auto. Qed.

Definition sub (a b : vty) : bool := match a, b with TNever, _ => true | _, TAny => true | _, _ => vty_eqb a b end.
Definition join (a b : vty) : vty := match a, b with TNever, x | x, TNever => x | _, _ => if vty_eqb a b then a else TAny end.

Definition op_has_value (o : matchop) : bool := match o with OpIsEmpty | OpIsNotEmpty => false | _ => true end.
(* well-formed trees: operators carry a value exactly when they need one, and `not` is never directly under `not` *)
Definition not_a_not (e : expr) : Prop := match e with ENot _ => False | _ => True end.
Fixpoint wf_ast (e : expr) : Prop :=
  match e with
  | ENot a => wf_ast a /\ not_a_not a
  | EBin _ a b => wf_ast a /\ wf_ast b
  | EMatch _ o v => (op_has_value o = true <-> v <> None)
  | EColl _ _ _ i => wf_ast i
  end.

Fixpoint has_ty (t : vty) (v : pv) : Prop :=
  match t with
  | TNever => False
  | TAny => True
  | TExpr => exists e, v = VExpr e /\ wf_ast e
  | TSel => exists s, v = VSel s
  | TMOpV => exists o, v = VMOp o /\ op_has_value o = true
  | TMOpN => exists o, v = VMOp o /\ op_has_value o = false
  | TCOp => exists o, v = VCOp o
  | TBind => exists b, v = VBind b
  | TMV => exists r, v = VMV r
  | TStr => exists s, v = VStr s
  | TList t' => exists l, v = VList l /\ Forall (has_ty t') l
  end.

Lemma vty_eqb_refl a : vty_eqb a a = true.
Proof. induction a; cbn; auto. Qed.

Lemma has_ty_sub a b v : sub a b = true -> has_ty a v -> has_ty b v.
Proof.
  unfold sub. intros H Ha.
  destruct a; try (cbn in Ha; tauto);
  destruct b; try exact I; try discriminate;
  try (apply vty_eqb_eq in H; inversion H; subst; exact Ha).
Qed.

Lemma sub_refl a : sub a a = true.
Proof. destruct a; cbn; auto using vty_eqb_refl. Qed.
Lemma sub_spec a b : sub a b = true <-> (a = TNever \/ b = TAny \/ a = b).
Proof.
  split.
  - unfold sub. intros H. destruct a; auto; destruct b; auto; try discriminate; right; right; apply vty_eqb_eq in H; exact H.
  - intros [H|[H|H]]; subst; [reflexivity| destruct a; reflexivity | apply sub_refl].
Qed.
Lemma sub_trans a b c : sub a b = true -> sub b c = true -> sub a c = true.
Proof.
  rewrite !sub_spec. intros [H1|[H1|H1]] [H2|[H2|H2]]; subst; auto; try discriminate.
Qed.
Lemma sub_join_l a b : sub a (join a b) = true.
Proof. destruct a, b; cbn; rewrite ?vty_eqb_refl; auto; destruct (vty_eqb _ _) eqn:E; cbn; rewrite ?vty_eqb_refl; auto. Qed.
Lemma sub_join_r a b : sub b (join a b) = true.
Proof.
  destruct a, b; cbn; rewrite ?vty_eqb_refl; auto; destruct (vty_eqb _ _) eqn:E; cbn; rewrite ?vty_eqb_refl; auto;
  apply vty_eqb_eq in E; inversion E; subst; apply vty_eqb_refl.
Qed.

Definition tenv := list (string * vty).
Fixpoint tlookup (G : tenv) (l : string) : option vty :=
  match G with [] => None | (k, t) :: G' => if String.eqb k l then Some t else tlookup G' l end.

Section T.
Variable g : list rule.
Variable action_sem : string -> frame -> string -> ares.
Variable pred_sem : string -> frame -> bool * bool.
Variable rule_ty : string -> vty.
Variable act_params : string -> list (string * vty).
Variable act_ret : string -> vty.

Definition params_ok (G : tenv) (ps : list (string * vty)) : bool :=
  forallb (fun '(l, t) => match tlookup G l with Some t' => sub t' t | None => false end) ps.

Section Go.
Variable tc : tenv -> pexpr -> option (vty * tenv).
Fixpoint tchoice_go (alts : list pexpr) (acc : vty) (G : tenv) : option (vty * tenv) :=
  match alts with
  | [] => Some (acc, G)
  | a :: r => match tc [] a with Some (t, _) => tchoice_go r (join acc t) G | None => None end
  end.
Fixpoint tseq_go (es : list pexpr) (G : tenv) (never : bool) : option (vty * tenv) :=
  match es with
  | [] => Some ((if never then TNever else TAny), G)
  | a :: r => match tc G a with
              | Some (t, G') => tseq_go r G' (never || match t with TNever => true | _ => false end)
              | None => None end
  end.
End Go.

(* type of the value of e when it succeeds, and the labels it leaves in the current frame *)
Fixpoint tcheck (G : tenv) (e : pexpr) {struct e} : option (vty * tenv) :=
  match e with
  | PAction id b => match tcheck G b with
                    | Some (tb, G') => if params_ok G' (act_params id) then Some ((match tb with TNever => TNever | _ => act_ret id end), G') else None
                    | None => None end
  | PAndCode _ => Some (TNever, G)          (* every predicate of this grammar returns false *)
  | PNotCode _ => Some (TAny, G)
  | PAnd b | PNot b => match tcheck [] b with Some _ => Some (TAny, G) | None => None end
  | PAny | PClass _ | PLit _ _ => Some (TAny, G)
  | PChoice alts => tchoice_go tcheck alts TNever G
  | PSeq es => tseq_go tcheck es G false
  | PLabeled l b => match tcheck [] b with Some (t, _) => Some (t, (l, t) :: G) | None => None end
  | PRef n => Some (rule_ty n, G)
  | PStar b | PPlus b => match tcheck [] b with Some (t, _) => Some (TList t, G) | None => None end
  | POpt b => match tcheck [] b with Some _ => Some (TAny, G) | None => None end
  end.

Definition rule_ok (r : rule) : bool :=
  match tcheck [] (rexpr r) with Some (t, _) => sub t (rule_ty (rname r)) | None => false end.
Definition grammar_typed : bool := forallb rule_ok g.
End T.
