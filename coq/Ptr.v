From Coq Require Import List ZArith String Ascii Bool NArith Lia.
Import ListNotations.
From Bexpr Require Import Base Ast Unicode Peg Typing Actions GoGrammar Sem Term Lex Lex2 Lex3 Calc Calc2 Skel Atoms StrLit Spell C07.
Open Scope string_scope.

(* C07, JSON-pointer spelling: "/seg/seg..." is read as the selector whose parts are the unescaped segments. *)

Definition cls_ptr := {| cc_val := "[\pL\pN-_.~:|]"; cc_chars := [45; 95; 46; 126; 58; 124]%Z; cc_ranges := []; cc_classes := ["L"; "N"]; cc_ignore_case := false; cc_inverted := false |}.
Definition is_ptr (c : cell) : Prop := class_match cls_ptr (crune c) = true.
Definition slc : cell := {| crune := 47; cbytes := "/"; cvalid := true |}.

Lemma ptr_miss_slash k : class_miss cls_ptr (slc :: k).
Proof. vm_compute. reflexivity. Qed.
Lemma ptr_miss_dq q k : crune q = 34%Z -> class_miss cls_ptr (q :: k).
Proof. intros H. unfold class_miss. rewrite H. vm_compute. reflexivity. Qed.

(* one segment: /chars *)
Lemma ptr_seg_spec c cs K : is_ptr c -> Forall is_ptr cs -> class_miss cls_ptr K ->
  spec (PRef "JsonPointerSegment") (slc :: c :: app cs K) (VStr (cells_str (c :: cs))) K.
Proof.
  intros Hc Hcs Hk. eapply ref_ok; [reflexivity|]. cbn [rexpr]. eapply action_any.
  - apply seq_any. eapply seqs_any_cons; [eapply pe_ok_any; apply (lit_ok [47]%Z [slc] _ eq_refl)|].
    eapply seqs_any_cons; [apply lab_any; eapply pe_ok_any; apply (plus_class_ok cls_ptr c cs K Hc Hcs Hk)|].
    apply seqs_any_nil.
  - intros G. rewrite (text_between_prefix' (slc :: c :: cs) K); [reflexivity|]. cbn [app]. reflexivity.
Qed.

Definition pseg := (cell * list cell)%type.
Definition pseg_ok (p : pseg) : Prop := is_ptr (fst p) /\ Forall is_ptr (snd p).
Definition pseg_str (p : pseg) : string := cells_str (fst p :: snd p).
Fixpoint psegs_cells (ps : list pseg) (k : list cell) : list cell :=
  match ps with [] => k | p :: r => slc :: fst p :: app (snd p) (psegs_cells r k) end.

Lemma psegs_miss ps q k : crune q = 34%Z -> class_miss cls_ptr (psegs_cells ps (q :: k)).
Proof. intros H. destruct ps; cbn [psegs_cells]; [apply ptr_miss_dq; exact H| apply ptr_miss_slash]. Qed.

Lemma jps_fails_dq q k : crune q = 34%Z -> fspecj (PRef "JsonPointerSegment") (q :: k).
Proof.
  intros Hq. eapply fref; [reflexivity|]. cbn [rexpr]. apply faction. apply fseq. apply fseqs_here.
  refine (fails_f (head_not 47) _ (q :: k) (fails_lit 47 []) _). cbn. rewrite Hq. discriminate.
Qed.

Lemma semr_psegs q k : crune q = 34%Z ->
  forall ps acc s, Forall pseg_ok ps -> inp s = psegs_cells ps (q :: k) -> all_valid (psegs_cells ps (q :: k)) ->
  all_valid (q :: k) /\ exists s', SEMR (PRef "JsonPointerSegment") acc s
      (Done true (VList (rev (app (rev (map (fun p => VStr (pseg_str p)) ps)) acc))) s') /\ keeps s s' (q :: k).
Proof.
  intros Hq. induction ps as [|p r IH]; intros acc s Hok E Hv.
  - cbn [psegs_cells map rev app] in *. split; [exact Hv|].
    destruct (jps_fails_dq q k Hq Hv (set_fr s []) E) as [v [s1 [H1 [Hi Hn]]]].
    exists (set_fr s1 (fr s)). split; [eapply sr_stop; exact (L_w _ s false v s1 H1)|].
    unfold keeps. cbn. auto.
  - inversion Hok as [|? ? [Hc Hcs] Hr]; subst. destruct p as [c cs]. cbn [psegs_cells fst snd] in *.
    destruct (ptr_seg_spec c cs _ Hc Hcs (psegs_miss r q k Hq) Hv) as [Hv' Hspec].
    destruct (Hspec (set_fr s []) E) as [s1 [H1 [Hi [Hn Hf]]]].
    assert (E1 : inp (set_fr s1 (fr s)) = psegs_cells r (q :: k)) by exact Hi.
    destruct (IH (VStr (cells_str (c :: cs)) :: acc) _ Hr E1 Hv') as [Hvk [s2 [H2 [Hi2 [Hn2 Hf2]]]]].
    split; [exact Hvk|]. exists s2. split.
    + eapply sr_more; [exact (L_w _ s true _ s1 H1)|]. cbn [map rev]. rewrite <- app_assoc. exact H2.
    + unfold keeps. rewrite Hi2, Hn2, Hf2. cbn. rewrite Hn. cbn. auto.
Qed.

Lemma star_psegs ps q k : crune q = 34%Z -> Forall pseg_ok ps ->
  spec (PStar (PRef "JsonPointerSegment")) (psegs_cells ps (q :: k)) (VList (map (fun p => VStr (pseg_str p)) ps)) (q :: k).
Proof.
  intros Hq Hok Hv.
  split; [exact (proj1 (semr_psegs q k Hq ps [] {| inp := psegs_cells ps (q :: k); cnt := 0; nerr := 0; fr := [] |} Hok eq_refl Hv))|].
  intros s E. destruct (semr_psegs q k Hq ps [] (tk s) Hok E Hv) as [_ [s1 [H1 H2]]].
  rewrite app_nil_r, rev_involutive in H1.
  exists s1. split; [apply sem_tick; apply sb_star; exact H1| exact H2].
Qed.

Theorem selector_pointer q ps q' k : crune q = 34%Z -> crune q' = 34%Z -> Forall pseg_ok ps ->
  spec (PRef "Selector") (q :: psegs_cells ps (q' :: k))
       (VSel {| stype := SelJsonPtr; spath := ptr_parts (map pseg_str ps) |}) k.
Proof.
  intros Hq Hq' Hok.
  eapply ref_ok; [reflexivity|]. cbn [rexpr]. apply spec_j. apply choice_ok.
  apply specc_next.
  { apply faction. apply fseq. apply fseqs_here. apply flabeled.
    eapply fref; [reflexivity|]. cbn [rexpr]. apply faction. apply fseq. apply fseqs_here.
    apply fclass. cbn. rewrite Hq. reflexivity. }
  apply specc_here. eapply action_ok.
  - apply seq_ok.
    eapply seqs_cons; [apply (lit_ok [34]%Z [q] _); cbn; rewrite Hq; reflexivity|].
    eapply seqs_cons; [apply lab_ok; apply (star_psegs ps q' k Hq' Hok)|].
    eapply seqs_cons; [apply (lit_ok [34]%Z [q'] k); cbn; rewrite Hq'; reflexivity|]. apply seqs_nil.
  - intros G.
    change (action_sem "Selector9" _ _)
      with (match as_strs (VList (map (fun p => VStr (pseg_str p)) ps)) with
            | Some segs => AVal (VSel {| stype := SelJsonPtr; spath := ptr_parts segs |}) | None => APanic end).
    rewrite <- (map_map pseg_str VStr), as_strs_map. reflexivity.
Qed.

(* with escaped parts the pointer spelling yields the parts themselves *)
Lemma unescape_escape_all l : map ptr_unescape (map ptr_escape l) = l.
Proof. induction l as [|x r IH]; cbn [map]; [reflexivity|]. rewrite c07_pointer_escapes, IH. reflexivity. Qed.

Corollary selector_pointer_parts q ps q' k parts : crune q = 34%Z -> crune q' = 34%Z -> Forall pseg_ok ps ->
  parts <> [] -> map pseg_str ps = map ptr_escape parts ->
  spec (PRef "Selector") (q :: psegs_cells ps (q' :: k)) (VSel {| stype := SelJsonPtr; spath := parts |}) k.
Proof.
  intros Hq Hq' Hok Hne E.
  replace parts with (ptr_parts (map pseg_str ps)); [apply selector_pointer; assumption|].
  rewrite E. destruct parts as [|p0 pr]; [congruence|].
  change (ptr_parts (map ptr_escape (p0 :: pr))) with (map ptr_unescape (map ptr_escape (p0 :: pr))).
  apply unescape_escape_all.
Qed.
Print Assumptions selector_pointer_parts.
