(* Property C03 - not/and/or are truth-functional, short-circuit left to right, errors propagate. Statements only (proofs: Props.v). eval is the model of evaluate.go validated against the real Evaluate; the equations hold for every leaf semantics. *)
From Coq Require Import List String ZArith NArith Bool. From Bexpr Require Import Base Strconv Ast Univ Eval Props. Import ListNotations.

Theorem c03_and :
  forall (re : string -> string -> option bool) (cfg : config) (ls : locals) (a b : expr) (d : iface),
  eval re cfg ls (EBin BAnd a b) d = (let o := eval re cfg ls a d in if is_panic o || is_err o || negb (val o) then o else eval re cfg ls b d).
Proof. exact Props.c03_and. Qed.
Print Assumptions c03_and.

Theorem c03_or :
  forall (re : string -> string -> option bool) (cfg : config) (ls : locals) (a b : expr) (d : iface),
  eval re cfg ls (EBin BOr a b) d = (let o := eval re cfg ls a d in if is_panic o || is_err o || val o then o else eval re cfg ls b d).
Proof. exact Props.c03_or. Qed.
Print Assumptions c03_or.

Theorem c03_not :
  forall (re : string -> string -> option bool) (cfg : config) (ls : locals) (a : expr) (d : iface),
  eval re cfg ls (ENot a) d = negate (eval re cfg ls a d).
Proof. exact Props.c03_not. Qed.
Print Assumptions c03_not.

Theorem c03_double_negation :
  forall (re : string -> string -> option bool) (cfg : config) (ls : locals) (a : expr) (d : iface),
  is_err (eval re cfg ls a d) = false -> eval re cfg ls (ENot (ENot a)) d = eval re cfg ls a d.
Proof. exact Props.c03_double_negation. Qed.
Print Assumptions c03_double_negation.

Theorem c03_unreached_error_silent :
  forall (re : string -> string -> option bool) (cfg : config) (ls : locals) (a b : expr) (d : iface),
  eval re cfg ls a d = Out false None -> eval re cfg ls (EBin BAnd a b) d = Out false None.
Proof. exact Props.c03_unreached_error_silent. Qed.
Print Assumptions c03_unreached_error_silent.

Theorem c03_de_morgan_and :
  forall (re : string -> string -> option bool) (cfg : config) (ls : locals) (a b : expr) (d : iface),
  eval re cfg ls (ENot (EBin BAnd a b)) d = eval re cfg ls (EBin BOr (ENot a) (ENot b)) d.
Proof. exact Props.c03_de_morgan_and. Qed.
Print Assumptions c03_de_morgan_and.

Theorem c06_or3_is_or :
  forall (re : string -> string -> option bool) (cfg : config) (ls : locals) (a b : expr) (d : iface),
  eval re cfg ls (EBin BOr a b) d =
  match eval re cfg ls a d with
  | Out true (Some e) => Out true (Some e)
  | Out true None => or3 (Out true None) (fun _ : unit => eval re cfg ls b d)
  | Out false e0 => or3 (Out false e0) (fun _ : unit => eval re cfg ls b d)
  | Panic => or3 Panic (fun _ : unit => eval re cfg ls b d)
  end.
Proof. exact Props.c06_or3_is_or. Qed.
Print Assumptions c06_or3_is_or.


Theorem c03_de_morgan_or :
  forall (re : string -> string -> option bool) (cfg : config) (ls : locals) (a b : expr) (d : iface),
  eval re cfg ls (ENot (EBin BOr a b)) d = eval re cfg ls (EBin BAnd (ENot a) (ENot b)) d.
Proof. exact Props.c03_de_morgan_or. Qed.
Print Assumptions c03_de_morgan_or.


(* ---- chains: grouping, folds, repeated operands (C03b.v) ---- *)
From Bexpr Require Import C03b.

Theorem c03_grouping_irrelevant :
  forall (re : string -> string -> option bool) (cfg : config) (ls : locals) (d : iface) (op : binop) (a b c : expr),
  eval re cfg ls (EBin op (EBin op a b) c) d = eval re cfg ls (EBin op a (EBin op b c)) d.
Proof. exact C03b.c03_grouping_irrelevant. Qed.
Print Assumptions c03_grouping_irrelevant.

Theorem c03_chain_is_fold :
  forall (re : string -> string -> option bool) (cfg : config) (ls : locals) (d : iface) (op : binop) (es : list expr) (last : expr),
  eval re cfg ls (chain op es last) d =
  fold_right (fun (e : expr) (k : outcome) => if stops op (eval re cfg ls e d) then eval re cfg ls e d else k) (eval re cfg ls last d) es.
Proof. exact C03b.c03_chain_is_fold. Qed.
Print Assumptions c03_chain_is_fold.

Theorem c03_idempotent :
  forall (re : string -> string -> option bool) (cfg : config) (ls : locals) (d : iface) (op : binop) (a : expr),
  eval re cfg ls (EBin op a a) d = eval re cfg ls a d.
Proof. exact C03b.c03_idempotent. Qed.
Print Assumptions c03_idempotent.

Theorem c03_later_repeat_is_redundant :
  forall (re : string -> string -> option bool) (cfg : config) (ls : locals) (d : iface) (op : binop) (a b : expr),
  eval re cfg ls (EBin op a (EBin op b a)) d = eval re cfg ls (EBin op a b) d.
Proof. exact C03b.c03_later_repeat_is_redundant. Qed.
Print Assumptions c03_later_repeat_is_redundant.

Theorem earlier_repeat_matters :
  let a := EMatch {| stype := SelBexpr; spath := ["a"] |} OpEq (Some "1") in
  let e := EMatch {| stype := SelBexpr; spath := ["a"] |} OpIsEmpty None in
  let d := Some (TMap TString TIface, VMap false [(VStr "a", VIface (TInt I0) (VInt 1))]) in
  let re := fun _ _ : string => None in
  let cfg := {| tagname := "bexpr"; hook := None; unknown := None |} in
  eval re cfg [] (EBin BOr a (EBin BOr e a)) d = Out true None /\ is_err (eval re cfg [] (EBin BOr e a) d) = true.
Proof. exact C03b.earlier_repeat_matters. Qed.
Print Assumptions earlier_repeat_matters.

