From Coq Require Import List ZArith String Ascii Bool.
Import ListNotations.
From Bexpr Require Import Base.
Open Scope string_scope.

(* pointerstructure.Pointer.String escapes '~' as ~0 and '/' as ~1; Parse undoes ~1 first, then ~0 *)
Definition tilde : ascii := "~"%char.
Definition slash : ascii := "/"%char.
Definition esc1 (c : ascii) : string :=
  if Ascii.eqb c tilde then "~0" else if Ascii.eqb c slash then "~1" else String c "".
Fixpoint ptr_escape (s : string) : string := match s with "" => "" | String c t => esc1 c ++ ptr_escape t end.

(* intermediate form after the first pass of Parse: only the tildes are still escaped *)
Definition esc0 (c : ascii) : string := if Ascii.eqb c tilde then "~0" else String c "".
Fixpoint tilde0 (s : string) : string := match s with "" => "" | String c t => esc0 c ++ tilde0 t end.

Lemma replace2_cons_nomatch a b by_ x r : Ascii.eqb x a = false -> replace2 a b by_ (String x r) = String x (replace2 a b by_ r).
Proof. intros H. destruct r as [|y t]; cbn [replace2]; [reflexivity|]. rewrite H. reflexivity. Qed.
Lemma replace2_match a b by_ r : replace2 a b by_ (String a (String b r)) = by_ ++ replace2 a b by_ r.
Proof. cbn [replace2]. rewrite !Ascii.eqb_refl. reflexivity. Qed.
Lemma replace2_second_differs a b by_ y r : Ascii.eqb y b = false ->
  replace2 a b by_ (String a (String y r)) = String a (replace2 a b by_ (String y r)).
Proof. intros H. change (replace2 a b by_ (String a (String y r))) with
  (if Ascii.eqb a a && Ascii.eqb y b then by_ ++ replace2 a b by_ r else String a (replace2 a b by_ (String y r))).
  rewrite H, andb_false_r. reflexivity. Qed.

Lemma pass1 s : replace2 tilde "1"%char "/" (ptr_escape s) = tilde0 s.
Proof.
  induction s as [|c t IH]; [reflexivity|]. cbn [ptr_escape tilde0]. unfold esc1, esc0.
  destruct (Ascii.eqb c tilde) eqn:Et.
  - change ("~0" ++ ptr_escape t) with (String tilde (String "0"%char (ptr_escape t))).
    rewrite replace2_second_differs by reflexivity. rewrite replace2_cons_nomatch by reflexivity. rewrite IH. reflexivity.
  - destruct (Ascii.eqb c slash) eqn:Es.
    + change ("~1" ++ ptr_escape t) with (String tilde (String "1"%char (ptr_escape t))).
      rewrite replace2_match, IH. apply Ascii.eqb_eq in Es. subst c. reflexivity.
    + change (String c "" ++ ptr_escape t) with (String c (ptr_escape t)).
      rewrite replace2_cons_nomatch by exact Et. rewrite IH. reflexivity.
Qed.

Lemma pass2 s : replace2 tilde "0"%char "~" (tilde0 s) = s.
Proof.
  induction s as [|c t IH]; [reflexivity|]. cbn [tilde0]. unfold esc0.
  destruct (Ascii.eqb c tilde) eqn:Et.
  - change ("~0" ++ tilde0 t) with (String tilde (String "0"%char (tilde0 t))).
    rewrite replace2_match, IH. apply Ascii.eqb_eq in Et. subst c. reflexivity.
  - change (String c "" ++ tilde0 t) with (String c (tilde0 t)).
    rewrite replace2_cons_nomatch by exact Et. rewrite IH. reflexivity.
Qed.

(* C07: in the JSON-Pointer spelling ~1 and ~0 denote '/' and '~' — escaping then unescaping is the identity on every string *)
Theorem c07_pointer_escapes s : ptr_unescape (ptr_escape s) = s.
Proof. unfold ptr_unescape. change "~"%char with tilde. rewrite pass1. apply pass2. Qed.
Print Assumptions c07_pointer_escapes.
