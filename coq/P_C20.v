(* Property C20 - statements only; proofs are in C20.v *)
From Coq Require Import List String.
From Bexpr Require Import Base Ast Unicode Peg GoGrammar PegGrammar C20.
Import ListNotations.

Theorem c20_tables_equal : peg_grammar = go_grammar.
Proof. exact tables_equal. Qed.
Print Assumptions c20_tables_equal.

Theorem c20_actions_equal : peg_actions = go_actions_as_called.
Proof. exact actions_equal. Qed.
Print Assumptions c20_actions_equal.

Theorem c20_wrappers_pass_params : forall n ps ls ts, In (n, ps, ls, ts) go_actions -> ps = ls.
Proof. exact wrappers_pass_params. Qed.
Print Assumptions c20_wrappers_pass_params.

Theorem c20_actions_one_to_one :
  table_code_ids go_grammar = map (fun a => match a with (n, _, _, _) => n end) go_actions
  /\ NoDup (table_code_ids go_grammar).
Proof. exact actions_one_to_one. Qed.
Print Assumptions c20_actions_one_to_one.

Theorem c20_wrappers_call_their_action : go_wrapper_mismatches = [].
Proof. exact wrappers_call_their_action. Qed.
Print Assumptions c20_wrappers_call_their_action.

Theorem c20_wants_are_quoted_literals : go_want_mismatches = [].
Proof. exact wants_are_quoted_literals. Qed.
Print Assumptions c20_wants_are_quoted_literals.

Theorem c20_references_resolve : refs_resolve go_grammar = true.
Proof. exact references_resolve. Qed.
Print Assumptions c20_references_resolve.
