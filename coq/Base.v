From Coq Require Import List ZArith String Ascii Bool NArith.
Import ListNotations.
Open Scope string_scope.
Open Scope Z_scope.

Definition b2z (a : ascii) : Z := Z.of_N (N_of_ascii a).
Definition z2b (z : Z) : ascii := ascii_of_N (Z.to_N z).

Fixpoint str_of_list (l : list ascii) : string := match l with [] => "" | a :: l' => String a (str_of_list l') end.
Fixpoint sconcat (l : list string) : string := match l with [] => "" | s :: l' => s ++ sconcat l' end.
Fixpoint sjoin (sep : string) (l : list string) : string :=
  match l with [] => "" | [s] => s | s :: l' => s ++ sep ++ sjoin sep l' end.
Definition stail (s : string) : string := match s with "" => "" | String _ t => t end.

(* ---- UTF-8, after unicode/utf8.DecodeRune ---- *)
Record cell := { crune : Z; cbytes : string; cvalid : bool }.
Definition rune_error : Z := 65533.
Definition is_cont (lo hi : Z) (a : ascii) : bool := (lo <=? b2z a)%Z && (b2z a <=? hi)%Z.
Definition bad (b0 : ascii) : cell := {| crune := rune_error; cbytes := String b0 ""; cvalid := false |}.

Definition decode1 (s : string) : option (cell * string) :=
  match s with
  | "" => None
  | String b0 r0 =>
    let x := b2z b0 in
    if (x <? 128)%Z then Some ({| crune := x; cbytes := String b0 ""; cvalid := true |}, r0) else
    if (194 <=? x)%Z && (x <=? 223)%Z then
      match r0 with
      | String b1 r1 => if is_cont 128 191 b1
          then Some ({| crune := (Z.land x 31) * 64 + Z.land (b2z b1) 63; cbytes := String b0 (String b1 ""); cvalid := true |}, r1)
          else Some (bad b0, r0)
      | _ => Some (bad b0, r0) end
    else if (224 <=? x)%Z && (x <=? 239)%Z then
      let lo := if (x =? 224)%Z then 160 else 128 in
      let hi := if (x =? 237)%Z then 159 else 191 in
      match r0 with
      | String b1 (String b2 r2) => if is_cont lo hi b1 && is_cont 128 191 b2
          then Some ({| crune := (Z.land x 15) * 4096 + Z.land (b2z b1) 63 * 64 + Z.land (b2z b2) 63;
                        cbytes := String b0 (String b1 (String b2 "")); cvalid := true |}, r2)
          else Some (bad b0, r0)
      | _ => Some (bad b0, r0) end
    else if (240 <=? x)%Z && (x <=? 244)%Z then
      let lo := if (x =? 240)%Z then 144 else 128 in
      let hi := if (x =? 244)%Z then 143 else 191 in
      match r0 with
      | String b1 (String b2 (String b3 r3)) => if is_cont lo hi b1 && is_cont 128 191 b2 && is_cont 128 191 b3
          then Some ({| crune := (Z.land x 7) * 262144 + Z.land (b2z b1) 63 * 4096 + Z.land (b2z b2) 63 * 64 + Z.land (b2z b3) 63;
                        cbytes := String b0 (String b1 (String b2 (String b3 ""))); cvalid := true |}, r3)
          else Some (bad b0, r0)
      | _ => Some (bad b0, r0) end
    else Some (bad b0, r0)
  end.

Fixpoint decode (fuel : nat) (s : string) : list cell :=
  match fuel with O => [] | S f =>
    match decode1 s with None => [] | Some (c, r) => c :: decode f r end end.
Definition utf8_cells (s : string) : list cell := decode (String.length s) s.
Definition valid_utf8 (s : string) : bool := forallb cvalid (utf8_cells s).

(* utf8.AppendRune for valid runes *)
Definition encode_rune (r : Z) : string :=
  if (r <? 128)%Z then String (z2b r) "" else
  if (r <? 2048)%Z then String (z2b (192 + r / 64)) (String (z2b (128 + r mod 64)) "") else
  if (r <? 65536)%Z then String (z2b (224 + r / 4096)) (String (z2b (128 + (r / 64) mod 64)) (String (z2b (128 + r mod 64)) "")) else
  String (z2b (240 + r / 262144)) (String (z2b (128 + (r / 4096) mod 64)) (String (z2b (128 + (r / 64) mod 64)) (String (z2b (128 + r mod 64)) ""))).

(* ---- strconv.Unquote restricted to the shapes StringLiteral can produce:
        bq...bq without inner backtick, dq...dq without inner double quote ---- *)
Fixpoint contains_byte (a : ascii) (s : string) : bool :=
  match s with "" => false | String b t => Ascii.eqb a b || contains_byte a t end.
Fixpoint drop_cr (s : string) : string :=
  match s with "" => "" | String b t => if Ascii.eqb b "013"%char then drop_cr t else String b (drop_cr t) end.

Definition unhex (a : ascii) : option Z :=
  let x := b2z a in
  if (48 <=? x)%Z && (x <=? 57)%Z then Some (x - 48) else
  if (97 <=? x)%Z && (x <=? 102)%Z then Some (x - 87) else
  if (65 <=? x)%Z && (x <=? 70)%Z then Some (x - 55) else None.

Fixpoint hexn (n : nat) (s : string) (acc : Z) : option (Z * string) :=
  match n with O => Some (acc, s) | S n' =>
    match s with String a t => match unhex a with Some d => hexn n' t (acc * 16 + d) | None => None end | "" => None end end.

Definition valid_rune (v : Z) : bool := ((0 <=? v)%Z && (v <? 55296)%Z) || ((57343 <? v)%Z && (v <=? 1114111)%Z).

(* one UnquoteChar step with quote = 'dq'; returns bytes to append and the rest *)
Definition unquote_char (s : string) : option (string * string) :=
  match s with
  | "" => None
  | String c t =>
    let x := b2z c in
    if (x =? 34)%Z then None else                     (* the quote itself *)
    if (128 <=? x)%Z then
      match decode1 s with Some (cl, r) => Some (encode_rune (crune cl), r) | None => None end
    else if negb (x =? 92)%Z then Some (String c "", t)
    else match t with
      | "" => None
      | String e r =>
        let y := b2z e in
        if (y =? 97)%Z then Some (String (z2b 7) "", r) else
        if (y =? 98)%Z then Some (String (z2b 8) "", r) else
        if (y =? 102)%Z then Some (String (z2b 12) "", r) else
        if (y =? 110)%Z then Some (String (z2b 10) "", r) else
        if (y =? 114)%Z then Some (String (z2b 13) "", r) else
        if (y =? 116)%Z then Some (String (z2b 9) "", r) else
        if (y =? 118)%Z then Some (String (z2b 11) "", r) else
        if (y =? 120)%Z then match hexn 2%nat r 0 with Some (v, r') => Some (String (z2b v) "", r') | None => None end else
        if (y =? 117)%Z then match hexn 4%nat r 0 with Some (v, r') => if valid_rune v then Some (encode_rune v, r') else None | None => None end else
        if (y =? 85)%Z then match hexn 8%nat r 0 with Some (v, r') => if valid_rune v then Some (encode_rune v, r') else None | None => None end else
        if (48 <=? y)%Z && (y <=? 55)%Z then
          match r with
          | String o1 (String o2 r') =>
            let a := b2z o1 - 48 in let b := b2z o2 - 48 in
            if (0 <=? a)%Z && (a <=? 7)%Z && (0 <=? b)%Z && (b <=? 7)%Z then
              let v := ((y - 48) * 8 + a) * 8 + b in
              if (v <=? 255)%Z then Some (String (z2b v) "", r') else None
            else None
          | _ => None end
        else if (y =? 92)%Z then Some ("\", r)
        else if (y =? 34)%Z then Some (String (z2b 34) "", r)
        else None
      end
  end.

Fixpoint unquote_loop (fuel : nat) (s : string) (acc : string) : option string :=
  match fuel with O => None | S f =>
    match s with
    | "" => Some acc
    | String c _ =>
      if Ascii.eqb c "010"%char then None else
      match unquote_char s with Some (bs, r) => unquote_loop f r (acc ++ bs) | None => None end
    end end.

Definition strip_quotes (s : string) : string :=   (* drop first and last byte *)
  match s with "" => "" | String _ t => String.substring 0%nat (Nat.pred (String.length t)) t end.

Definition unquote (s : string) : option string :=
  match s with
  | String q _ =>
    let inner := strip_quotes s in
    if Ascii.eqb q "`"%char then Some (drop_cr inner)
    else if (b2z q =? 34)%Z then
      if negb (contains_byte "\"%char inner) && negb (contains_byte "010"%char inner) && valid_utf8 inner then Some inner
      else unquote_loop (S (String.length inner)) inner ""
    else None
  | "" => None
  end.

(* pointerstructure.Parse on dq/dq ++ join dq/dq segs: the segments contain no '/' *)
Fixpoint replace2 (a b : ascii) (by_ : string) (s : string) : string :=   (* replace the two-byte sequence a b *)
  match s with
  | String x ((String y t) as r) => if Ascii.eqb x a && Ascii.eqb y b then by_ ++ replace2 a b by_ t else String x (replace2 a b by_ r)
  | _ => s end.
Definition ptr_unescape (s : string) : string := replace2 "~"%char "0"%char "~" (replace2 "~"%char "1"%char "/" s).
Definition ptr_parts (segs : list string) : list string :=
  match segs with [] => [""] | _ => map ptr_unescape segs end.
