From Coq Require Import List ZArith String Ascii Bool NArith Lia.
Import ListNotations.
From Bexpr Require Import Base Strconv Ast Univ Eval.
Open Scope string_scope.

Section C5.
Variable re : string -> string -> option bool.
Notation eval := (eval re).

Definition with_unknown (cfg : config) (u : option iface) : config :=
  {| tagname := tagname cfg; hook := hook cfg; unknown := u |}.

(* the classification that decides between the operator table and an error *)
Lemma not_present_ok_spec cfg p d :
  not_present_ok cfg p d = true <->
  (2 <= List.length p)%nat /\ exists t v, get cfg (removelast p) d = Ok (Some (t, v)) /\ kind_of_type t = KMap.
Proof.
  unfold not_present_ok. destruct p as [|a [|b r]]; cbn [List.length]; try (split; [discriminate|intros [H _]; lia]).
  split.
  - intros H. split; [lia|].
    destruct (get cfg (removelast (a :: b :: r)) d) as [[[t v]|]| |]; try discriminate.
    exists t, v. split; [reflexivity|]. destruct (kind_of_type t); try discriminate; reflexivity.
  - intros [_ [t [v [-> Hk]]]]. rewrite Hk. reflexivity.
Qed.

(* 1. absent leaf below a map, no unknown value: the operator table, all = true, any = false *)
Theorem c05_absent_leaf_in_map cfg s op v d :
  unknown cfg = None ->
  get cfg (spath s) d = Err ENotFound -> not_present_ok cfg (spath s) d = true ->
  eval cfg [] (EMatch s op v) d = Out (disposition op) None /\
  (forall b body, eval cfg [] (EColl CAll s b body) d = Out true None /\ eval cfg [] (EColl CAny s b body) d = Out false None).
Proof.
  intros Hu Hg Hn.
  assert (Hv : get_value cfg [] (spath s) d = Ok GAbsent).
  { unfold get_value. cbn [resolve_locals]. rewrite Hg, Hu, Hn. reflexivity. }
  split; [|intros b body; split]; cbn [Eval.eval]; rewrite Hv; reflexivity.
Qed.

(* 2. every other way of not finding the value is an error *)
Theorem c05_absent_elsewhere_is_error cfg s op v d :
  unknown cfg = None ->
  get cfg (spath s) d = Err ENotFound -> not_present_ok cfg (spath s) d = false ->
  eval cfg [] (EMatch s op v) d = Out false (Some ENotFound) /\
  (forall cop b body, eval cfg [] (EColl cop s b body) d = Out false (Some ENotFound)).
Proof.
  intros Hu Hg Hn.
  assert (Hv : get_value cfg [] (spath s) d = Err ENotFound).
  { unfold get_value. cbn [resolve_locals]. rewrite Hg, Hu, Hn. reflexivity. }
  split; [|intros cop b body]; cbn [Eval.eval]; rewrite Hv; reflexivity.
Qed.

Theorem c05_other_errors_stay cfg s op v d e :
  get cfg (spath s) d = Err e -> e <> ENotFound ->
  eval cfg [] (EMatch s op v) d = Out false (Some e).
Proof.
  intros Hg He. cbn [Eval.eval]. unfold get_value. cbn [resolve_locals]. rewrite Hg. destruct e; try reflexivity. congruence.
Qed.

(* 3. with an unknown value configured, a selector that is only "not found" evaluates as if it had resolved to that value *)
Theorem c05_unknown_substitutes cfg s op v d u :
  unknown cfg = Some u -> get cfg (spath s) d = Err ENotFound ->
  eval cfg [] (EMatch s op v) d = match_op re op v u.
Proof.
  intros Hu Hg. cbn [Eval.eval]. unfold get_value. cbn [resolve_locals]. rewrite Hg, Hu. reflexivity.
Qed.

(* 4. ... and expressions whose selectors all resolve are unaffected by the option *)
Lemma get_unknown_irrelevant cfg u p d : get (with_unknown cfg u) p d = get cfg p d.
Proof.
  unfold get. destruct p; [reflexivity|].
  assert (H : forall parts x, get_loop (with_unknown cfg u) parts x = get_loop cfg parts x).
  { induction parts as [|q qs IH]; intros x; cbn [get_loop]; [reflexivity|].
    assert (Hs : get_step (with_unknown cfg u) q x = get_step cfg q x) by reflexivity. rewrite Hs.
    destruct (get_step cfg q x) as [nxt| |]; try reflexivity. cbn [hook with_unknown]. destruct (hook cfg) as [h|]; [destruct (h nxt)|]; auto. }
  rewrite H. reflexivity.
Qed.

Lemma not_present_unknown_irrelevant cfg u p d : not_present_ok (with_unknown cfg u) p d = not_present_ok cfg p d.
Proof. unfold not_present_ok. destruct p as [|a [|b r]]; try reflexivity. rewrite get_unknown_irrelevant. reflexivity. Qed.

(* a selector "resolves" when its lookup does not end in not-found *)
Definition resolves cfg (ls : locals) (p : list string) (d : iface) : Prop :=
  match resolve_locals ls p with Ok (inr q) => get cfg q d <> Err ENotFound | _ => True end.

Lemma get_value_unknown_irrelevant cfg u ls p d : unknown cfg = None -> resolves cfg ls p d ->
  get_value (with_unknown cfg u) ls p d = get_value cfg ls p d.
Proof.
  intros Hu Hr. unfold get_value, resolves in *. destruct (resolve_locals ls p) as [[v|q]| |]; try reflexivity.
  rewrite get_unknown_irrelevant. destruct (get cfg q d) as [v|e|]; try reflexivity. destruct e; try reflexivity. congruence.
Qed.

Fixpoint all_resolve cfg (ls : locals) (e : expr) (d : iface) : Prop :=
  match e with
  | ENot a => all_resolve cfg ls a d
  | EBin _ a b => all_resolve cfg ls a d /\ all_resolve cfg ls b d
  | EMatch s _ _ => resolves cfg ls (spath s) d
  | EColl _ s b inner => resolves cfg ls (spath s) d /\ forall m i k, all_resolve cfg (app (bind_elem b (spath s) m i k) ls) inner d
  end.

Lemma coll_loop_ext ev1 ev2 op b sp m : (forall i k, ev1 (bind_elem b sp m i k) = ev2 (bind_elem b sp m i k)) ->
  forall items i, coll_loop ev1 op b sp m i items = coll_loop ev2 op b sp m i items.
Proof. intros He. induction items as [|k r IH]; intros i; cbn [coll_loop]; [reflexivity|]. rewrite He, IH. reflexivity. Qed.

Theorem c05_unknown_neutral cfg u e : unknown cfg = None -> forall ls d, all_resolve cfg ls e d ->
  eval (with_unknown cfg u) ls e d = eval cfg ls e d.
Proof.
  intros Hu. induction e as [a IHa | op a IHa b IHb | s op raw | op s b inner IH]; intros ls d Hr; cbn [Eval.eval all_resolve] in *.
  - rewrite (IHa ls d Hr). reflexivity.
  - destruct Hr as [Ha Hb]. rewrite (IHa ls d Ha), (IHb ls d Hb). reflexivity.
  - rewrite (get_value_unknown_irrelevant cfg u ls (spath s) d Hu Hr). reflexivity.
  - destruct Hr as [Hs Hin]. rewrite (get_value_unknown_irrelevant cfg u ls (spath s) d Hu Hs).
    destruct (get_value cfg ls (spath s) d) as [[v|]|e|]; try reflexivity.
    destruct (kind_of v); try reflexivity; destruct v as [[t x]|]; try reflexivity; destruct x; try reflexivity;
      try (destruct (type_eqb _ _); try reflexivity); apply coll_loop_ext; intros; apply IH; apply Hin.
Qed.
End C5.
Print Assumptions c05_absent_leaf_in_map.
Print Assumptions c05_unknown_neutral.
