From Coq Require Import List ZArith String Bool NArith Lia.
Import ListNotations.
From Bexpr Require Import Base Ast Unicode Peg.

(* every abort (recovered panic) has recorded at least one error *)
Definition aok (r : res) : Prop := match r with Abort _ s => (1 <= nerr s)%nat | _ => True end.
Lemma bindr_aok r k : aok r -> (forall ok v s, aok (k ok v s)) -> aok (bindr r k).
Proof. destruct r; cbn; auto. Qed.

Section A.
Variable g : list rule.
Variable mx : option N.
Variable action_sem : string -> frame -> string -> ares.
Variable pred_sem : string -> frame -> bool * bool.
Section R.
Variable r : pexpr -> st -> res.
Hypothesis Hr : forall e s, aok (r e s).
Lemma with_frame_aok e s : aok (with_frame (r e) s).
Proof. unfold with_frame. apply bindr_aok; [apply Hr|]. intros; exact I. Qed.
Lemma choice_aok alts : forall s, aok (choice r alts s).
Proof. induction alts as [|a alts IH]; intros s; cbn [choice]; [exact I|].
  apply bindr_aok; [apply with_frame_aok|]. intros [|] v s'; [exact I|apply IH]. Qed.
Lemma seq_aok es start : forall acc s, aok (seq r es start acc s).
Proof. induction es as [|a es IH]; intros acc s; cbn [seq]; [exact I|].
  apply bindr_aok; [apply Hr|]. intros [|] v s'; [apply IH|exact I]. Qed.
Lemma star_aok k b : forall acc s, aok (star r k b acc s).
Proof. induction k as [|k IH]; intros acc s; cbn [star]; [exact I|].
  apply bindr_aok; [apply with_frame_aok|]. intros [|] v s'; [apply IH|exact I]. Qed.
Lemma body_aok fuel e s : aok (body g action_sem pred_sem r fuel e s).
Proof.
  destruct e; cbn [body]; try apply choice_aok; try apply seq_aok; try apply star_aok;
    try (apply bindr_aok; [first [apply with_frame_aok | apply Hr]|]; intros ok v s'); try exact I.
  - destruct ok; [|exact I]. destruct (action_sem _ _ _); cbn; try exact I. lia.
  - destruct (pred_sem _ _) as [b e]; exact I.
  - destruct (pred_sem _ _) as [b e]; exact I.
  - destruct (inp s); exact I.
  - destruct (inp s); [exact I|]. destruct (class_match _ _); exact I.
  - destruct (lit_go _ _ _) as [ok s']. destruct ok; exact I.
  - destruct (find_rule g name); [apply with_frame_aok|exact I].
  - destruct ok; [apply star_aok|exact I].
Qed.
Lemma step_aok fuel e s : aok (step g mx action_sem pred_sem r fuel e s).
Proof. unfold step, tick. destruct mx as [m|]; cbn; [destruct (N.ltb _ _); [cbn; lia|]|]; apply body_aok. Qed.
End R.
Lemma pe_aok fuel : forall e s, aok (pe g mx action_sem pred_sem fuel e s).
Proof. induction fuel as [|f IH]; intros e s; cbn [pe]; [exact I|]. apply step_aok. exact IH. Qed.

(* Parse never returns a nil tree together with a nil error *)
Theorem parse_rejected_has_error fuel input k n m :
  parse g mx action_sem pred_sem fuel input = Rejected k n m -> k <> 0%nat.
Proof.
  unfold parse. destruct g as [|r0 rules] eqn:Eg; [intros [= <- _ _]; discriminate|]. rewrite <- Eg.
  set (s0 := peek_err _ _).
  pose proof (with_frame_aok _ (pe_aok fuel) (rexpr r0) s0) as Ha.
  destruct (with_frame (pe g mx action_sem pred_sem fuel (rexpr r0)) s0) as [[|] v s|[|] s|]; cbn in Ha.
  - destruct (Nat.eqb (nerr s) 0) eqn:E; [discriminate|]. intros [= <- _ _]. apply Nat.eqb_neq. exact E.
  - destruct (Nat.eqb (nerr s) 0) eqn:E; intros [= <- _ _]; [discriminate|]. apply Nat.eqb_neq. exact E.
  - intros [= <- _ _]. lia.
  - intros [= <- _ _]. lia.
  - discriminate.
Qed.
End A.
Print Assumptions parse_rejected_has_error.
