From Coq Require Import List ZArith String Ascii Bool NArith Lia.
Import ListNotations.
From Bexpr Require Import Base Ast Unicode Peg Typing Actions GoGrammar Sem Term Lex Lex2 Calc Skel.
Open Scope string_scope.

(* end of input *)
Lemma eof_ok : pe_ok (PRef "EOF") [] [] [].
Proof.
  intros Hv. split; [constructor|]. intros s E.
  set (s0 := set_fr (tk s) []). set (s1 := tk s0). set (s2 := tk (set_fr s1 [])).
  assert (Hb : body go_grammar action_sem pred_sem no_rec 0 PAny s2 = Done false VNil s2).
  { cbn [body]. change (inp s2) with (inp s). rewrite E. reflexivity. }
  assert (H2 : SEM PAny (set_fr s1 []) (Done false VNil s2)).
  { apply sem_tick. fold s2. rewrite <- Hb. apply sb_leaf. reflexivity. }
  pose proof (sb_not go_grammar action_sem pred_sem PAny s1 _ (sw _ _ _ PAny s1 _ H2)) as H3.
  exists VNil, (set_fr (set_inp (set_fr s2 (fr s1)) (inp s1)) (fr s)). split.
  - eapply L_ref; [reflexivity|]. cbn [rexpr]. apply sem_tick. exact H3.
  - unfold step_to. cbn. auto.
Qed.

Lemma eof_fails c rest : fspecj (PRef "EOF") (c :: rest).
Proof.
  intros Hv s E. inversion Hv as [|? ? _ Hv']; subst.
  set (s0 := set_fr (tk s) []). set (s1 := tk s0). set (s2 := tk (set_fr s1 [])).
  assert (E2 : inp s2 = c :: rest) by exact E.
  assert (Hb : body go_grammar action_sem pred_sem no_rec 0 PAny s2 = Done true (VBytes (cbytes c)) (advance s2)).
  { cbn [body]. rewrite E2. reflexivity. }
  assert (H2 : SEM PAny (set_fr s1 []) (Done true (VBytes (cbytes c)) (advance s2))).
  { apply sem_tick. fold s2. rewrite <- Hb. apply sb_leaf. reflexivity. }
  pose proof (sb_not go_grammar action_sem pred_sem PAny s1 _ (sw _ _ _ PAny s1 _ H2)) as H3.
  destruct (advance_keeps s2 c rest E2 Hv') as [Hi [Hn Hf]].
  exists VNil, (set_fr (set_inp (set_fr (advance s2) (fr s1)) (inp s1)) (fr s)). split.
  - eapply L_ref; [reflexivity|]. cbn [rexpr]. apply sem_tick. exact H3.
  - cbn. rewrite Hn. cbn. auto.
Qed.

Definition input_body : pexpr :=
  PChoice [
   PAction "Input2" (PSeq [POpt (PRef "_"); PLit [40]%Z false; POpt (PRef "_"); PLabeled "expr" (PRef "OrExpression");
                           POpt (PRef "_"); PLit [41]%Z false; POpt (PRef "_"); PRef "EOF"]);
   PAction "Input17" (PSeq [POpt (PRef "_"); PLabeled "expr" (PRef "OrExpression"); POpt (PRef "_"); PRef "EOF"])].

Lemma input_body_is_start : match go_grammar with r0 :: _ => rexpr r0 = input_body | [] => False end.
Proof. reflexivity. Qed.

Lemma stopO_ws w : Forall is_ws w -> stopO w.
Proof.
  intros Hw. destruct w as [|x w].
  - repeat split; left; exact I.
  - inversion Hw as [|? ? Hx Hw']; subst.
    repeat split; [left; exact Hx| |]; right; exists x, w, []; rewrite app_nil_r; repeat split; assumption.
Qed.

(* whole-input parsing: from a specification of the start rule body to the verdict of parse *)
Lemma peek_valid cells s : all_valid cells -> peek_err cells s = s.
Proof. intros H. destruct H as [|c r Hc _]; cbn; [reflexivity|]. rewrite Hc. reflexivity. Qed.

Theorem parse_accepts input v :
  all_valid (utf8_cells input) -> spec input_body (utf8_cells input) v [] ->
  exists f0, forall f, (f0 <= f)%nat -> exists n, parse go_grammar None action_sem pred_sem f input = Accepted v n.
Proof.
  intros Hv Hs. destruct (Hs Hv) as [_ Hs'].
  set (s0 := {| inp := utf8_cells input; cnt := 0; nerr := 0; fr := [] |}).
  destruct (Hs' (set_fr s0 []) eq_refl) as [s1 [H1 [Hi [Hn Hf]]]].
  destruct (engine_complete go_grammar action_sem pred_sem _ _ _ H1) as [f0 Hf0].
  exists f0. intros f Hle. exists (cnt s1).
  unfold parse. unfold go_grammar at 1. cbv iota. rewrite (peek_valid _ _ Hv). fold s0.
  cbn [rexpr]. fold input_body. unfold with_frame. rewrite (Hf0 f Hle). cbn [bindr].
  cbn [nerr set_fr cnt]. rewrite Hn. reflexivity.
Qed.

Section TopLevel.
Variable atom : Type.
Variable atxt : atom -> list cell.
Variable aexp : atom -> expr.
Hypothesis atom_parse : forall a k, astop k -> spec (PRef "MatchExpression") (app (atxt a) k) (VExpr (aexp a)) k.
Hypothesis atom_not_paren : forall a k, head_not 40 (app (atxt a) k).
Hypothesis atom_not_not : forall a k, fspecj not_alt1 (app (atxt a) k).
Hypothesis atom_head : forall a k, ws_free (app (atxt a) k).
Variable hdr : Type.
Variable htxt : hdr -> list cell.
Variable hop : hdr -> collop.
Variable hsel : hdr -> selector.
Variable hbind : hdr -> binding.
Hypothesis hdr_parse : forall h K es K2 F2, seqs_ok es K K2 F2 ->
  seqs_ok (app hdr_elems es) (app (htxt h) K) K2 (app F2 (hdr_frame hdr hop hsel hbind h)).
Hypothesis hdr_and_fails : forall h K, fspecj (PRef "AndExpression") (app (htxt h) K).
Hypothesis hdr_head : forall h K, ws_free (app (htxt h) K) /\ head_not 40 (app (htxt h) K).

Notation ROr := (rOr atom atxt aexp hdr htxt hop hsel hbind).
Let round_trip := proj1 (skeleton_round_trip atom atxt aexp atom_parse atom_not_paren atom_not_not atom_head
                                              hdr htxt hop hsel hbind hdr_parse hdr_and_fails hdr_head).
Let head_or := proj1 (render_head atom atxt aexp atom_head hdr htxt hop hsel hbind hdr_head).

(* a rendering that does not open with a parenthesis is read by the second alternative of Input *)
Lemma input_plain e t w0 w1 : ROr e t -> head_not 40 (app t w1) -> Forall is_ws w0 -> Forall is_ws w1 ->
  spec input_body (app w0 (app t w1)) (VExpr e) [].
Proof.
  intros Ht Hh Hw0 Hw1. unfold input_body. apply choice_ok. apply specc_next.
  - apply faction. apply fseq.
    eapply fseqs_later; [apply (ws_opt_ok w0 _ Hw0); apply (head_or _ _ Ht)|].
    apply fseqs_here. exact (fails_f _ _ _ (fails_lit 40 []) Hh).
  - apply specc_here. eapply action_ok.
    + apply seq_ok.
      eapply seqs_cons; [apply (ws_opt_ok w0 _ Hw0); apply (head_or _ _ Ht)|].
      eapply seqs_cons; [apply lab_ok; apply (round_trip e t Ht w1 (stopO_ws w1 Hw1))|].
      eapply seqs_cons; [rewrite <- (app_nil_r w1); apply (ws_opt_ok w1 [] Hw1); exact I|].
      eapply seqs_cons; [apply eof_ok|]. apply seqs_nil.
    + intros G. reflexivity.
Qed.

Lemma stopO_close w2 k : Forall is_ws w2 -> stopO (app w2 (app K_rp k)).
Proof.
  intros Hw2. destruct w2 as [|x2 w2].
  - cbn [app]. repeat split; [right; left; reflexivity| left; reflexivity| left; reflexivity].
  - inversion Hw2 as [|? ? Hx2 Hw2']; subst. cbn [app].
    repeat split; [left; exact Hx2| |]; right; exists x2, w2, (app K_rp k);
      (repeat split; try assumption; try reflexivity; cbn; discriminate).
Qed.

Definition input_alt1 : pexpr :=
  PAction "Input2" (PSeq [POpt (PRef "_"); PLit [40]%Z false; POpt (PRef "_"); PLabeled "expr" (PRef "OrExpression");
                          POpt (PRef "_"); PLit [41]%Z false; POpt (PRef "_"); PRef "EOF"]).
Definition input_alt2 : pexpr :=
  PAction "Input17" (PSeq [POpt (PRef "_"); PLabeled "expr" (PRef "OrExpression"); POpt (PRef "_"); PRef "EOF"]).

Lemma input_second e t w0 w1 : ROr e t -> Forall is_ws w0 -> Forall is_ws w1 ->
  specc [input_alt2] (app w0 (app t w1)) (VExpr e) [].
Proof.
  intros Ht Hw0 Hw1. apply specc_here. eapply action_ok.
  - apply seq_ok.
    eapply seqs_cons; [apply (ws_opt_ok w0 _ Hw0); apply (head_or _ _ Ht)|].
    eapply seqs_cons; [apply lab_ok; apply (round_trip e t Ht w1 (stopO_ws w1 Hw1))|].
    eapply seqs_cons; [rewrite <- (app_nil_r w1); apply (ws_opt_ok w1 [] Hw1); exact I|].
    eapply seqs_cons; [apply eof_ok|]. apply seqs_nil.
  - intros G. reflexivity.
Qed.

(* what can follow the closing parenthesis of a rendering that opens with one *)
Definition lead_paren (e : expr) (t : list cell) : Prop :=
  (forall k, head_not 40 (app t k)) \/
  exists w1 t1 e1 w2 rest, t = app K_lp (app w1 (app t1 (app w2 (app K_rp rest)))) /\
    Forall is_ws w1 /\ Forall is_ws w2 /\ ROr e1 t1 /\
    ((rest = [] /\ e1 = e) \/ exists x w c r, rest = x :: app w (c :: r) /\ is_ws x /\ Forall is_ws w /\ ws_free (c :: r)).

Lemma lead_extend e e' t tl' (x : cell) (w : list cell) (c : cell) (r : list cell) :
  lead_paren e t -> is_ws x -> Forall is_ws w -> ws_free (c :: r) -> tl' = x :: app w (c :: r) ->
  lead_paren e' (app t tl').
Proof.
  intros [Hl|[w1 [t1 [e1 [w2 [rest [Et [Hw1 [Hw2 [Hr Hrest]]]]]]]]]] Hx Hw Hc Etl.
  - left. intros k. rewrite <- app_assoc. apply Hl.
  - right. exists w1, t1, e1, w2, (app rest tl'). split; [|split; [exact Hw1|split; [exact Hw2|split; [exact Hr|]]]].
    + rewrite Et. repeat rewrite <- app_assoc. reflexivity.
    + right. destruct Hrest as [[E _]|[x0 [w0 [c0 [r0 [E [Hx0 [Hw0 Hc0]]]]]]]].
      * subst rest tl'. exists x, w, c, r. auto.
      * subst rest. exists x0, w0, c0, (app r0 tl'). repeat split; try assumption.
        cbn [app]. rewrite <- app_assoc. reflexivity.
Qed.

Lemma lead_all :
  (forall e t, ROr e t -> lead_paren e t) /\ (forall e t, rAnd atom atxt aexp hdr htxt hop hsel hbind e t -> lead_paren e t) /\
  (forall e t, rNot atom atxt aexp hdr htxt hop hsel hbind e t -> lead_paren e t) /\ (forall e t, rPar atom atxt aexp hdr htxt hop hsel hbind e t -> lead_paren e t).
Proof.
  apply render_mutind.
  - intros l r tl tr w1 w2 _ IHl [Hn1 Hw1] _ _ _.
    destruct w1 as [|x1 w1]; [congruence|]. inversion Hw1 as [|? ? Hx1 Hw1']; subst.
    refine (lead_extend l _ tl _ x1 w1 {| crune := 111; cbytes := "o"; cvalid := true |} _ IHl Hx1 Hw1' _ eq_refl). reflexivity.
  - intros e t _ IH. exact IH.
  - intros h body tb w5 w6 _ _ _ _. left. intros k. rewrite <- app_assoc. apply hdr_head.
  - intros l r tl tr w1 w2 _ IHl [Hn1 Hw1] _ _ _.
    destruct w1 as [|x1 w1]; [congruence|]. inversion Hw1 as [|? ? Hx1 Hw1']; subst.
    refine (lead_extend l _ tl _ x1 w1 {| crune := 97; cbytes := "a"; cvalid := true |} _ IHl Hx1 Hw1' _ eq_refl). reflexivity.
  - intros e t _ IH. exact IH.
  - intros e t w _ _ _ _. left. intros k. cbn. discriminate.
  - intros e t _ IH. exact IH.
  - intros e t w1 w2 Ht _ Hw1 Hw2. right. exists w1, t, e, w2, []. repeat split; try assumption. left. auto.
  - intros a. left. intros k. apply atom_not_paren.
Qed.

(* C16 at the level of the start rule: optional outer whitespace, any rendering *)
Theorem input_round_trip e t w0 w1 : ROr e t -> Forall is_ws w0 -> Forall is_ws w1 ->
  spec input_body (app w0 (app t w1)) (VExpr e) [].
Proof.
  intros Ht Hw0 Hw1.
  destruct (proj1 lead_all e t Ht) as [Hl|[wa [t1 [e1 [wb [rest [Et [Hwa [Hwb [Hr Hrest]]]]]]]]]].
  - apply input_plain; auto.
  - unfold input_body. fold input_alt1. fold input_alt2. apply choice_ok.
    destruct Hrest as [[E1 E2]|[x [w [c [r [E [Hx [Hw Hc]]]]]]]].
    + (* the whole rendering is one parenthesised group: the first alternative reads it *)
      subst rest e1. apply specc_here. rewrite Et. repeat rewrite <- app_assoc. cbn [app].
      eapply action_ok.
      * apply seq_ok.
        eapply seqs_cons; [apply (ws_opt_ok w0 _ Hw0); reflexivity|].
        eapply seqs_cons; [apply (lit_ok [40]%Z K_lp _ eq_refl)|].
        eapply seqs_cons; [apply (ws_opt_ok wa _ Hwa); apply (head_or _ _ Hr)|].
        eapply seqs_cons; [apply lab_ok; apply (round_trip e t1 Hr _ (stopO_close wb w1 Hwb))|].
        eapply seqs_cons; [apply (ws_opt_ok wb _ Hwb); reflexivity|].
        eapply seqs_cons; [apply (lit_ok [41]%Z K_rp _ eq_refl)|].
        eapply seqs_cons; [rewrite <- (app_nil_r w1); apply (ws_opt_ok w1 [] Hw1); exact I|].
        eapply seqs_cons; [apply eof_ok|]. apply seqs_nil.
      * intros G. reflexivity.
    + (* something follows the group: the first alternative fails at EOF, the second reads everything *)
      apply specc_next; [|apply input_second; assumption].
      rewrite Et, E. repeat rewrite <- app_assoc. cbn [app]. repeat rewrite <- app_assoc. cbn [app].
      apply faction. apply fseq.
      eapply fseqs_later; [apply (ws_opt_ok w0 _ Hw0); reflexivity|].
      eapply fseqs_later; [apply (lit_ok [40]%Z K_lp _ eq_refl)|].
      eapply fseqs_later; [apply (ws_opt_ok wa _ Hwa); apply (head_or _ _ Hr)|].
      eapply fseqs_later; [apply lab_ok; apply (round_trip e1 t1 Hr _ (stopO_close wb _ Hwb))|].
      eapply fseqs_later; [apply (ws_opt_ok wb _ Hwb); reflexivity|].
      eapply fseqs_later; [apply (lit_ok [41]%Z K_rp _ eq_refl)|].
      eapply fseqs_later; [apply (ws_opt_ok (x :: w) (c :: app r w1) (Forall_cons _ Hx Hw)); exact Hc|].
      apply fseqs_here. apply eof_fails.
Qed.

(* ... and of Parse itself *)
Theorem c16_parse_round_trip input e t w0 w1 :
  ROr e t -> Forall is_ws w0 -> Forall is_ws w1 ->
  utf8_cells input = app w0 (app t w1) -> all_valid (utf8_cells input) ->
  exists f0, forall f, (f0 <= f)%nat -> exists n, parse go_grammar None action_sem pred_sem f input = Accepted (VExpr e) n.
Proof.
  intros Ht Hw0 Hw1 E Hv. apply parse_accepts; [exact Hv|]. rewrite E. apply input_round_trip; assumption.
Qed.
End TopLevel.
Print Assumptions c16_parse_round_trip.
