(* A bare value on the left of `in` / `not in`: the grammar reads it as a selector (in any spelling) - the first two alternatives of
   MatchExpression take it for the subject, find no operator of theirs after it, fail and restore, and the third alternative reads
   it again as the value, whose text is the selector's rendering. With AtomsSel.lval (literals on which Selector fails at once) this
   completes the membership atoms of c16_final_parse: every style of value on the left of the operator. *)
From Coq Require Import List ZArith String Ascii Bool NArith Lia.
Import ListNotations.
From Bexpr Require Import Base Ast Unicode Peg Typing Actions GoGrammar Sem Term Lex Lex2 Lex3 Calc Calc2 Skel Top Atoms StrLit AtomsEq Spell C07 Ptr Coll AtomsIn Values Sels AtomsOp AtomsNotIn AtomsSel.
Open Scope string_scope.

(* a literal whose first rune is there and whose second is not *)
Definition second_differs (c1 c2 : Z) (i : list cell) : Prop :=
  exists x y r, i = x :: y :: r /\ crune x = c1 /\ crune y <> c2 /\ cvalid y = true.

Lemma fails_lit2 c1 c2 l : fails (second_differs c1 c2) (PLit (c1 :: c2 :: l) false).
Proof.
  intros s [x [y [r [E [H1 [H2 H3]]]]]]. set (s1 := tk s).
  assert (Hb : body go_grammar action_sem pred_sem no_rec 0 (PLit (c1 :: c2 :: l) false) s1
               = Done false VNil (set_inp (set_inp s1 (y :: r)) (inp s1))).
  { cbn [body lit_go]. change (inp s1) with (inp s). rewrite E. rewrite H1, Z.eqb_refl.
    unfold advance. change (inp s1) with (inp s). rewrite E. cbn [peek_err]. rewrite H3. cbn [inp set_inp].
    destruct (Z.eqb_spec (crune y) c2) as [E2|E2]; [contradiction|]. reflexivity. }
  exists VNil, (set_inp (set_inp s1 (y :: r)) (inp s1)). split.
  - apply sem_tick. fold s1. rewrite <- Hb. apply sb_leaf. reflexivity.
  - unfold clean. cbn. auto.
Qed.

Ltac opref := eapply fref; [reflexivity|]; cbn [rexpr]; apply faction; apply fseq.

Section OpsFail.
Variables (l : oplay) (rest : list cell).
Hypothesis Hrest : ws_free rest.
Hypothesis Hvalid : all_valid rest.

Let H1 := o_h1 l. Let H1' := o_h1' l. Let H2 := o_h2 l. Let H2' := o_h2' l. Let H3 := o_h3 l. Let H3' := o_h3' l.

(* the six operators that take a value after the subject do not start  _ in _  nor  _ not _ in _ *)
Lemma value_ops_fail_on_in neg :
  fspecj (PChoice [PRef "MatchEqual"; PRef "MatchNotEqual"; PRef "MatchContains"; PRef "MatchNotContains";
                   PRef "MatchMatches"; PRef "MatchNotMatches"]) (m_optext neg l rest).
Proof.
  apply fchoice. unfold m_optext, n_optext. destruct neg; repeat constructor.
  - opref. apply (sym_fails 61 [61]%Z (o_x1 l :: o_a1 l)); [constructor; assumption| reflexivity| cbn; discriminate].
  - opref. apply (sym_fails 33 [61]%Z (o_x1 l :: o_a1 l)); [constructor; assumption| reflexivity| cbn; discriminate].
  - opref. apply kw_fails; [exact H1| exact H1'| reflexivity| cbn; discriminate].
  - (* _ "not" _ "contains": the fourth element fails on "in" *)
    opref. eapply fseqs_later; [apply (ws_plus_ok (o_x1 l) (o_a1 l) _ H1 H1'); reflexivity|].
    eapply fseqs_later; [apply (lit_ok [110; 111; 116]%Z K_not _ eq_refl)|].
    eapply fseqs_later; [apply (ws_plus_ok (o_x2 l) (o_a2 l) _ H2 H2'); reflexivity|].
    apply fseqs_here. refine (fails_f (head_not 99) _ _ (fails_lit 99 _) _). cbn. discriminate.
  - opref. apply kw_fails; [exact H1| exact H1'| reflexivity| cbn; discriminate].
  - opref. eapply fseqs_later; [apply (ws_plus_ok (o_x1 l) (o_a1 l) _ H1 H1'); reflexivity|].
    eapply fseqs_later; [apply (lit_ok [110; 111; 116]%Z K_not _ eq_refl)|].
    eapply fseqs_later; [apply (ws_plus_ok (o_x2 l) (o_a2 l) _ H2 H2'); reflexivity|].
    apply fseqs_here. refine (fails_f (head_not 109) _ _ (fails_lit 109 _) _). cbn. discriminate.
  - opref. apply (sym_fails 61 [61]%Z (o_x1 l :: o_a1 l)); [constructor; assumption| reflexivity| cbn; discriminate].
  - opref. apply (sym_fails 33 [61]%Z (o_x1 l :: o_a1 l)); [constructor; assumption| reflexivity| cbn; discriminate].
  - opref. apply kw_fails; [exact H1| exact H1'| reflexivity| cbn; discriminate].
  - opref. apply kw_fails; [exact H1| exact H1'| reflexivity| cbn; discriminate].
  - opref. apply kw_fails; [exact H1| exact H1'| reflexivity| cbn; discriminate].
  - opref. apply kw_fails; [exact H1| exact H1'| reflexivity| cbn; discriminate].
Qed.

(* neither do  _ is _ empty  and  _ is _ not _ empty : after the blanks comes "in" (the second rune differs) or "not" *)
Lemma empty_ops_fail_on_in neg :
  fspecj (PChoice [PRef "MatchIsEmpty"; PRef "MatchIsNotEmpty"]) (m_optext neg l rest).
Proof.
  apply fchoice. unfold m_optext, n_optext. destruct neg; repeat constructor.
  - opref. apply kw_fails; [exact H1| exact H1'| reflexivity| cbn; discriminate].
  - opref. apply kw_fails; [exact H1| exact H1'| reflexivity| cbn; discriminate].
  - opref. eapply fseqs_later; [apply (ws_plus_ok (o_x1 l) (o_a1 l) _ H1 H1'); reflexivity|].
    apply fseqs_here. refine (fails_f (second_differs 105 115) _ _ (fails_lit2 105 115 _) _).
    unfold K_in. cbn. eexists _, _, _. split; [reflexivity|]. cbn. repeat split; try discriminate.
  - opref. eapply fseqs_later; [apply (ws_plus_ok (o_x1 l) (o_a1 l) _ H1 H1'); reflexivity|].
    apply fseqs_here. refine (fails_f (second_differs 105 115) _ _ (fails_lit2 105 115 _) _).
    unfold K_in. cbn. eexists _, _, _. split; [reflexivity|]. cbn. repeat split; try discriminate.
Qed.
End OpsFail.

(* ---- value-as-selector [not] in sel ---- *)
(* the value is written in one of the bexpr spellings (a quoted JSON-pointer spelling is a quoted literal: AtomsSel.lval_of_qlit) *)
Record batom := { b_val : selr; b_lay : oplay; b_sr : selr; b_neg : bool; b_bexpr : stype (s_val b_val) = SelBexpr }.
Definition b_exp (a : batom) : expr :=
  EMatch (s_val (b_sr a)) (if b_neg a then OpNotIn else OpIn) (Some (selector_string (s_val (b_val a)))).
Definition b_txtK (a : batom) (k : list cell) : list cell :=
  app (s_txt (b_val a)) (m_optext (b_neg a) (b_lay a) (app (s_txt (b_sr a)) k)).
Definition b_txt (a : batom) : list cell := b_txtK a [].
Lemma b_txt_app a k : app (b_txt a) k = b_txtK a k.
Proof.
  unfold b_txt, b_txtK, m_optext, n_optext. rewrite <- app_assoc. f_equal.
  destruct (b_neg a); repeat (cbn [app]; rewrite <- ?app_assoc); rewrite ?app_nil_r; reflexivity.
Qed.

Lemma m_optext_sstop neg l rest : sstop (m_optext neg l rest).
Proof. unfold m_optext, n_optext. destruct neg; apply sstop_ws0; exact (o_h1 l). Qed.

Lemma b_parse a k : astop k -> spec (PRef "MatchExpression") (app (b_txt a) k) (VExpr (b_exp a)) k.
Proof.
  intros Hk. rewrite b_txt_app. unfold b_txtK.
  set (l := b_lay a). set (R := app (s_txt (b_sr a)) k). set (K1 := m_optext (b_neg a) l R).
  pose proof (s_spec (b_val a) K1 (m_optext_sstop _ _ _)) as Hval.
  pose proof (s_spec (b_sr a) k (astop_sstop k Hk)) as Hsel.
  pose proof (s_head_free (b_sr a) k) as Hfree.
  eapply ref_ok; [reflexivity|]. cbn [rexpr]. apply spec_j. apply choice_ok.
  apply specc_next.
  { eapply fref; [reflexivity|]. cbn [rexpr]. apply faction. apply fseq.
    eapply fseqs_later; [apply lab_ok; exact Hval|]. apply fseqs_here. apply flabeled. apply value_ops_fail_on_in. }
  apply specc_next.
  { eapply fref; [reflexivity|]. cbn [rexpr]. apply faction. apply fseq.
    eapply fseqs_later; [apply lab_ok; exact Hval|]. apply fseqs_here. apply flabeled. apply empty_ops_fail_on_in. }
  apply specc_here. apply spec_j. eapply ref_ok; [reflexivity|]. cbn [rexpr]. apply spec_j. apply choice_ok. apply specc_here.
  eapply action_ok with (v' := VExpr (b_exp a)).
  - apply seq_ok.
    eapply seqs_cons.
    { apply (lab_ok "value" _ _ (VMV (selector_string (s_val (b_val a))))).
      eapply ref_ok; [reflexivity|]. cbn [rexpr]. apply spec_j. apply choice_ok. apply specc_here.
      eapply action_ok; [apply lab_ok; exact Hval|]. intros G. cbn. rewrite (b_bexpr a). reflexivity. }
    eapply seqs_cons; [|eapply seqs_cons; [apply lab_ok; exact Hsel| apply seqs_nil]].
    apply (lab_ok "operator" _ _ (VMOp (if b_neg a then OpNotIn else OpIn))). apply choice_ok. unfold K1, m_optext. destruct (b_neg a).
    + apply specc_next.
      { eapply fref; [reflexivity|]. cbn [rexpr]. apply faction. apply fseq. unfold n_optext.
        apply kw_fails; [exact (o_h1 l)| exact (o_h1' l)| reflexivity| cbn; discriminate]. }
      apply specc_here. apply spec_j. eapply ref_ok; [reflexivity|]. cbn [rexpr]. eapply action_ok with (v' := VMOp OpNotIn).
      { apply seq_ok. unfold n_optext.
        eapply seqs_cons; [apply (ws_plus_ok (o_x1 l) (o_a1 l) _ (o_h1 l) (o_h1' l)); reflexivity|].
        eapply seqs_cons; [apply (lit_ok [110; 111; 116]%Z K_not _ eq_refl)|].
        eapply seqs_cons; [apply (ws_plus_ok (o_x2 l) (o_a2 l) _ (o_h2 l) (o_h2' l)); reflexivity|].
        eapply seqs_cons; [apply (lit_ok [105; 110]%Z K_in _ eq_refl)|].
        eapply seqs_cons; [apply (ws_plus_ok (o_x3 l) (o_a3 l) _ (o_h3 l) (o_h3' l)); exact Hfree|]. apply seqs_nil. }
      intros G. reflexivity.
    + apply specc_here. apply spec_j. eapply ref_ok; [reflexivity|]. cbn [rexpr]. eapply action_ok with (v' := VMOp OpIn).
      { apply seq_ok.
        eapply seqs_cons; [apply (ws_plus_ok (o_x1 l) (o_a1 l) _ (o_h1 l) (o_h1' l)); reflexivity|].
        eapply seqs_cons; [apply (lit_ok [105; 110]%Z K_in _ eq_refl)|].
        eapply seqs_cons; [apply (ws_plus_ok (o_x2 l) (o_a2 l) _ (o_h2 l) (o_h2' l)); exact Hfree|]. apply seqs_nil. }
      intros G. reflexivity.
  - intros G. unfold b_exp. destruct (b_neg a); reflexivity.
Qed.

Lemma b_not_paren a k : head_not 40 (app (b_txt a) k).
Proof. rewrite b_txt_app. unfold b_txtK. apply s_head_not_paren. Qed.
Lemma b_head a k : ws_free (app (b_txt a) k).
Proof. rewrite b_txt_app. unfold b_txtK. apply s_head_free. Qed.
Lemma b_not_not a k : fspecj not_alt1 (app (b_txt a) k).
Proof. rewrite b_txt_app. unfold b_txtK. apply s_head_not_not. apply m_optext_sstop. Qed.

(* ---- the complete atom universe: AtomsSel.atomF and values written as selectors ---- *)
Definition atomA := (atomF + batom)%type.
Definition atxtA (a : atomA) : list cell := match a with inl a => atxtF a | inr a => b_txt a end.
Definition aexpA (a : atomA) : expr := match a with inl a => aexpF a | inr a => b_exp a end.

Theorem c16_all_parse input e t w0 w1 :
  rOr atomA atxtA aexpA chdr h_txt h_op h_sel h_bind e t -> Forall is_ws w0 -> Forall is_ws w1 ->
  utf8_cells input = app w0 (app t w1) -> all_valid (utf8_cells input) ->
  exists f0, forall f, (f0 <= f)%nat -> exists n, parse go_grammar None action_sem pred_sem f input = Accepted (VExpr e) n.
Proof.
  apply (c16_parse_round_trip atomA atxtA aexpA).
  - intros [[[a|a]|a]|a] k; [apply sa_parse| apply p_parse| apply m_parse| apply b_parse].
  - intros [[[a|a]|a]|a] k; [apply sa_not_paren| apply p_not_paren| apply m_not_paren| apply b_not_paren].
  - intros [[[a|a]|a]|a] k; [apply sa_not_not| apply p_not_not| apply m_not_not| apply b_not_not].
  - intros [[[a|a]|a]|a] k; [apply sa_head| apply p_head| apply m_head| apply b_head].
  - apply hdr_parse_c.
  - apply hdr_and_fails_c.
  - apply hdr_head_c.
Qed.
Print Assumptions c16_all_parse.

(* concrete texts, read by the engine on the regenerated table: a bare word, a dotted word and a bracketed selector as values *)
Example bare_left_of_in : exists n,
  parse go_grammar None action_sem pred_sem 5000 "web in tags" = Accepted (VExpr (EMatch {| stype := SelBexpr; spath := ["tags"] |} OpIn (Some "web"))) n.
Proof. eexists. vm_compute. reflexivity. Qed.
Example dotted_left_of_not_in : exists n,
  parse go_grammar None action_sem pred_sem 5000 "a.b not in m[""k""]" = Accepted (VExpr (EMatch {| stype := SelBexpr; spath := ["m"; "k"] |} OpNotIn (Some "a.b"))) n.
Proof. eexists. vm_compute. reflexivity. Qed.

(* non-vacuity: every bexpr spelling of a selector (Sels.of_mixed: name, then parts as .name / .digits / ["lit"] / [`lit`]) is such
   a value, for every layout of the operator, every subject and both polarities *)
Theorem bare_left_values_exist c cs segs (Hh : class_match cls_id_head (crune c) = true) (Ht : id_tail_ok cs) (Hs : Forall seg_ok segs)
  (Hn : map crune (c :: cs) <> [110; 111; 116]%Z \/ segs <> []) (l : oplay) (sr : selr) (neg : bool) :
  exists a : batom,
    b_txt a = app (c :: app cs (segs_cells segs [])) (m_optext neg l (app (s_txt sr) [])) /\
    b_exp a = EMatch (s_val sr) (if neg then OpNotIn else OpIn)
                     (Some (selector_string {| stype := SelBexpr; spath := cells_str (c :: cs) :: map seg_part segs |})).
Proof.
  exists {| b_val := of_mixed c cs segs Hh Ht Hs Hn; b_lay := l; b_sr := sr; b_neg := neg; b_bexpr := eq_refl |}.
  split; reflexivity.
Qed.
Print Assumptions bare_left_values_exist.
