From Coq Require Import List ZArith String Ascii Bool NArith Lia.
Import ListNotations.
From Bexpr Require Import Base Strconv Ast Univ Eval Props Lexical.
Open Scope string_scope.

(* C06: a value binding is a substitution.  Evaluating a body under  x := alias p  is evaluating the body in which every
   selector that starts with a free x has p spliced in; hence  any S as x {P}  over a list is  P[S.0/x] or P[S.1/x] or ... *)

Definition names (ls : locals) : list string := map fst ls.
Definition mem (h : string) (B : list string) : bool := existsb (String.eqb h) B.
Definition bnames (b : binding) : list string := names (bind_elem b [] false 0 "").
Definition bind_wf (b : binding) : Prop := bvalue b = "" \/ bdefault b = "".

Section Subst.
Variable re : string -> string -> option bool.
Notation eval := (eval re).
Variable cfg : config.
Variable d : iface.
Variable x : string.
Variables (ph : string) (pt : list string).
Let p := ph :: pt.

Definition sp (B : list string) (path : list string) : list string :=
  match path with [] => [] | h :: t => if mem h B then path else if String.eqb h x then app p t else path end.

Fixpoint tr (ext : locals) : locals :=
  match ext with
  | [] => []
  | (n, LConst v) :: r => (n, LConst v) :: tr r
  | (n, LAlias q) :: r => (n, LAlias (sp (names r) q)) :: tr r
  end.

Definition sp_sel (B : list string) (s : selector) : selector := {| stype := stype s; spath := sp B (spath s) |}.
Fixpoint subst (B : list string) (e : expr) : expr :=
  match e with
  | ENot a => ENot (subst B a)
  | EBin op a b => EBin op (subst B a) (subst B b)
  | EMatch s op v => EMatch (sp_sel B s) op v
  | EColl op s b inner => EColl op (sp_sel B s) b (subst (app (bnames b) B) inner)
  end.

(* no binder inside the body captures the head of the spliced path; selectors and binders are well formed *)
Fixpoint ok (e : expr) : Prop :=
  match e with
  | ENot a => ok a
  | EBin _ a b => ok a /\ ok b
  | EMatch _ _ _ => True
  | EColl _ s b inner => spath s <> [] /\ bind_wf b /\ mem ph (bnames b) = false /\ ok inner
  end.

Lemma sp_app B q t : q <> [] -> sp B (app q t) = app (sp B q) t.
Proof.
  intros Hq. destruct q as [|h q']; [congruence|]. cbn. destruct (mem h B); [reflexivity|].
  destruct (String.eqb h x); [|reflexivity]. unfold p. cbn. rewrite app_assoc. reflexivity.
Qed.

Lemma names_tr ext : names (tr ext) = names ext.
Proof. unfold names. induction ext as [|[n [q|v]] r IH]; cbn [tr map fst]; [reflexivity| |]; rewrite IH; reflexivity. Qed.

Lemma resolve_nil ls : resolve_locals ls [] = Ok (inr []).
Proof. destruct ls as [|[n b] r]; reflexivity. Qed.

Lemma resolve_subst ls : forall ext, alias_ok ext -> mem ph (names ext) = false -> forall path,
  resolve_locals (app ext ((x, LAlias p) :: ls)) path = resolve_locals (app (tr ext) ls) (sp (names ext) path).
Proof.
  induction ext as [|[n b] r IH]; intros Hok Hm path.
  - cbn [app tr names map]. destruct path as [|h t]; [cbn; rewrite resolve_nil; reflexivity|].
    cbn [resolve_locals sp mem existsb]. destruct (String.eqb h x); reflexivity.
  - inversion Hok as [|? ? Hb Hok']; subst. cbn [names map fst mem existsb] in Hm.
    apply orb_false_elim in Hm. destruct Hm as [Hn Hm].
    destruct path as [|h t]; [rewrite !resolve_nil; reflexivity|].
    cbn [app resolve_locals]. destruct (String.eqb h n) eqn:E.
    + destruct b as [q|v].
      * cbn in Hb. rewrite (IH Hok' Hm). rewrite (sp_app _ _ _ Hb).
        cbn [tr app sp names map fst mem existsb]. rewrite E. cbn [orb resolve_locals]. rewrite E. reflexivity.
      * cbn [tr app sp names map fst mem existsb]. rewrite E. cbn [orb resolve_locals]. rewrite E. reflexivity.
    + rewrite (IH Hok' Hm).
      assert (Hskip : forall b', resolve_locals ((n, b') :: app (tr r) ls) (sp (names r) (h :: t))
                                 = resolve_locals (app (tr r) ls) (sp (names r) (h :: t))).
      { intros b'. cbn [sp]. destruct (mem h (names r)).
        - cbn [resolve_locals]. rewrite E. reflexivity.
        - destruct (String.eqb h x).
          + unfold p. cbn [app resolve_locals]. rewrite Hn. reflexivity.
          + cbn [resolve_locals]. rewrite E. reflexivity. }
      assert (Hsp : sp (names ((n, b) :: r)) (h :: t) = sp (names r) (h :: t)).
      { cbn [sp names map fst mem existsb]. rewrite E. reflexivity. }
      rewrite Hsp. destruct b as [q|v]; cbn [tr app]; rewrite Hskip; reflexivity.
Qed.

Lemma get_value_subst ls ext path : alias_ok ext -> mem ph (names ext) = false ->
  get_value cfg (app ext ((x, LAlias p) :: ls)) path d = get_value cfg (app (tr ext) ls) (sp (names ext) path) d.
Proof. intros H1 H2. unfold get_value. rewrite (resolve_subst ls ext H1 H2). reflexivity. Qed.

Lemma names_bind b s0 m i k ext : names (app (bind_elem b s0 m i k) ext) = app (bnames b) (names ext).
Proof.
  unfold bnames, names, bind_elem, opt_bind. rewrite !map_app.
  destruct m; destruct (String.eqb (bindex b) ""), (String.eqb (bvalue b) ""), (String.eqb (bdefault b) ""); reflexivity.
Qed.

Lemma alias_ok_opt n b0 : match b0 with LAlias q => q <> [] | _ => True end -> alias_ok (opt_bind n b0).
Proof.
  intros H. unfold alias_ok, opt_bind. destruct (String.eqb n ""); [apply Forall_nil|].
  apply Forall_cons; [exact H| apply Forall_nil].
Qed.

Lemma snoc_not_nil (l : list string) k : app l [k] <> [].
Proof. intros H. apply app_eq_nil in H. destruct H as [_ H]. discriminate H. Qed.

Lemma alias_ok_app a b : alias_ok a -> alias_ok b -> alias_ok (app a b).
Proof. unfold alias_ok. intros. apply Forall_app. auto. Qed.

Lemma alias_ok_bind b s0 m i k : alias_ok (bind_elem b s0 m i k).
Proof.
  unfold bind_elem. destruct m.
  - apply alias_ok_app; [apply alias_ok_opt; exact I|]. apply alias_ok_app; [apply alias_ok_opt; apply snoc_not_nil|].
    apply alias_ok_opt; exact I.
  - apply alias_ok_app; [apply alias_ok_opt; exact I|]. apply alias_ok_app; apply alias_ok_opt; apply snoc_not_nil.
Qed.

Lemma tr_bind b s0 m i k ext : s0 <> [] -> bind_wf b ->
  tr (app (bind_elem b s0 m i k) ext) = app (bind_elem b (sp (names ext) s0) m i k) (tr ext).
Proof.
  intros Hs [Hw|Hw]; unfold bind_elem, opt_bind; rewrite Hw; cbn [String.eqb app];
    destruct m; destruct (String.eqb (bindex b) ""); try destruct (String.eqb (bdefault b) ""); try destruct (String.eqb (bvalue b) "");
    cbn [app tr names map fst]; rewrite ?(sp_app _ _ _ Hs); reflexivity.
Qed.

Lemma coll_loop_ext (ev ev' : locals -> outcome) op b s1 s2 m items :
  (forall i k, ev (bind_elem b s1 m i k) = ev' (bind_elem b s2 m i k)) ->
  forall i, coll_loop ev op b s1 m i items = coll_loop ev' op b s2 m i items.
Proof.
  intros H. induction items as [|k rest IH]; intros i; cbn [coll_loop]; [reflexivity|].
  rewrite H. destruct (same_name b); [reflexivity|].
  destruct (ev' (bind_elem b s2 m i k)) as [r [e|]|]; try reflexivity. destruct (decisive op r); [reflexivity| apply IH].
Qed.

Theorem eval_subst ls : forall e ext, ok e -> alias_ok ext -> mem ph (names ext) = false ->
  eval cfg (app ext ((x, LAlias p) :: ls)) e d = eval cfg (app (tr ext) ls) (subst (names ext) e) d.
Proof.
  induction e as [a IHa|op a IHa b IHb|s op v|op s b inner IH]; intros ext Hok Ha Hm.
  - cbn [Eval.eval subst]. rewrite (IHa ext Hok Ha Hm). reflexivity.
  - destruct Hok as [Hoa Hob]. cbn [Eval.eval subst]. rewrite (IHa ext Hoa Ha Hm), (IHb ext Hob Ha Hm). reflexivity.
  - cbn [Eval.eval subst sp_sel spath]. rewrite (get_value_subst ls ext _ Ha Hm). reflexivity.
  - destruct Hok as [Hs [Hw [Hc Hoi]]]. cbn [Eval.eval subst sp_sel spath].
    rewrite (get_value_subst ls ext _ Ha Hm).
    destruct (get_value cfg (app (tr ext) ls) (sp (names ext) (spath s)) d) as [[v|]|err|]; try reflexivity.
    assert (Hev : forall m i k,
      eval cfg (app (bind_elem b (spath s) m i k) (app ext ((x, LAlias p) :: ls))) inner d =
      eval cfg (app (bind_elem b (sp (names ext) (spath s)) m i k) (app (tr ext) ls)) (subst (app (bnames b) (names ext)) inner) d).
    { intros m i k. rewrite app_assoc.
      rewrite (IH (app (bind_elem b (spath s) m i k) ext) Hoi).
      - rewrite (tr_bind b (spath s) m i k ext Hs Hw), names_bind, <- app_assoc. reflexivity.
      - apply alias_ok_app; [apply alias_ok_bind| exact Ha].
      - rewrite names_bind. unfold mem. rewrite existsb_app. fold (mem ph (bnames b)). fold (mem ph (names ext)).
        rewrite Hc, Hm. reflexivity. }
    destruct (kind_of v); try reflexivity; destruct v as [[t rv]|]; try reflexivity; destruct rv; try reflexivity.
    all: try (apply coll_loop_ext; intros i k; apply Hev).
    all: try (destruct (type_eqb (key_type t) TString); [apply coll_loop_ext; intros i k; apply Hev| reflexivity]).
Qed.
End Subst.
Print Assumptions eval_subst.

(* ---- unrolling a quantifier over a list ---- *)
Section Unroll.
Variable re : string -> string -> option bool.
Notation eval := (eval re).

Lemma fold3_ext op : forall fs gs, Forall2 (fun f g => f tt = g tt) fs gs -> fold3 op fs = fold3 op gs.
Proof.
  induction 1 as [|f g fs gs Hfg _ IH]; cbn [fold3]; [reflexivity|]. rewrite Hfg.
  destruct op; unfold or3, and3; destruct (g tt) as [[|] [e|]|]; try reflexivity; exact IH.
Qed.

Theorem c06_unroll_list cfg ls d op s b P x ph pt v t et l :
  spath s = ph :: pt ->
  (forall i k, bind_elem b (spath s) false i k = [(x, LAlias (app (spath s) [dec_nat i]))]) ->
  same_name b = false ->
  get_value cfg ls (spath s) d = Ok (GVal v) -> v = Some (t, VSlice et l) -> kind_of v = KSlice ->
  ok ph P ->
  eval cfg ls (EColl op s b P) d =
  fold3 op (map (fun i => fun _ : unit => eval cfg ls (subst x ph (app pt [dec_nat i]) [] P) d) (seq 0 (List.length l))).
Proof.
  intros Hs Hb Hsn Hg Hv Hk Hok. cbn [Eval.eval]. rewrite Hg, Hk. subst v. cbv iota.
  rewrite (c06_fold _ op b (spath s) false _ Hsn 0%nat).
  apply fold3_ext. clear Hg Hk.
  generalize 0%nat as i0. induction l as [|e l' IH]; intros i0; cbn [map bodies_of List.length seq]; [constructor|].
  constructor; [|apply IH].
  rewrite Hb. rewrite Hs. cbn [app].
  exact (eval_subst re cfg d x ph (app pt [dec_nat i0]) ls P [] Hok (Forall_nil _) eq_refl).
Qed.
End Unroll.
Print Assumptions c06_unroll_list.

(* the hypotheses are met by the one-name form over a list *)
Example unroll_binding_default :
  forall sp i k, bind_elem {| bmode := BDefault; bdefault := "x"; bindex := ""; bvalue := "" |} sp false i k = [("x", LAlias (app sp [dec_nat i]))].
Proof. reflexivity. Qed.
Example unroll_binding_value :
  forall sp i k, bind_elem {| bmode := BValue; bdefault := ""; bindex := ""; bvalue := "v" |} sp false i k = [("v", LAlias (app sp [dec_nat i]))].
Proof. reflexivity. Qed.

(* ---- unrolling a quantifier over a string-keyed map with a value binder: keys are visited in sorted order ---- *)
Section UnrollMap.
Variable re : string -> string -> option bool.
Notation eval := (eval re).

Definition skeys (kvs : list (gval * gval)) : list string := sort_keys (map (fun kv => match fst kv with VStr k => k | _ => "" end) kvs).

Theorem c06_unroll_map cfg ls d op s b P x ph pt v t n kvs :
  spath s = ph :: pt ->
  (forall i k, bind_elem b (spath s) true i k = [(x, LAlias (app (spath s) [k]))]) ->
  same_name b = false ->
  get_value cfg ls (spath s) d = Ok (GVal v) -> v = Some (t, VMap n kvs) -> kind_of v = KMap ->
  type_eqb (key_type t) TString = true ->
  ok ph P ->
  eval cfg ls (EColl op s b P) d =
  fold3 op (map (fun k => fun _ : unit => eval cfg ls (subst x ph (app pt [k]) [] P) d) (skeys kvs)).
Proof.
  intros Hs Hb Hsn Hg Hv Hk Hkt Hok. cbn [Eval.eval]. rewrite Hg, Hk. subst v. cbv iota. rewrite Hkt.
  rewrite (c06_fold _ op b (spath s) true _ Hsn 0%nat).
  apply fold3_ext. clear Hg Hk. unfold skeys.
  generalize 0%nat as i0.
  induction (sort_keys (map (fun kv => match fst kv with VStr k => k | _ => "" end) kvs)) as [|k l' IH];
    intros i0; cbn [map bodies_of]; [constructor|].
  constructor; [|apply IH].
  rewrite Hb. rewrite Hs. cbn [app].
  exact (eval_subst re cfg d x ph (app pt [k]) ls P [] Hok (Forall_nil _) eq_refl).
Qed.
End UnrollMap.
Print Assumptions c06_unroll_map.

Example unroll_binding_map_value :
  forall sp i k, bind_elem {| bmode := BValue; bdefault := ""; bindex := ""; bvalue := "v" |} sp true i k = [("v", LAlias (app sp [k]))].
Proof. reflexivity. Qed.
