From Coq Require Import List ZArith String Ascii Bool NArith Lia.
Import ListNotations.
From Bexpr Require Import Base Ast Unicode Peg Typing Actions GoGrammar Sem Term Lex Lex2 Lex3 Calc Calc2 Skel Top Atoms StrLit AtomsEq Spell C07 Ptr Coll AtomsIn Values Sels.
Open Scope string_scope.

(* Integer literals as values (after the repair of D26: a number may be followed by a closing brace). *)

(* positive lookahead *)
Lemma L_and b s ok v s' : SEM b (set_fr (tk s) []) (Done ok v s') ->
  SEM (PAnd b) s (Done ok VNil (set_inp (set_fr s' (fr s)) (inp s))).
Proof.
  intros H. apply sem_tick.
  exact (sb_and go_grammar action_sem pred_sem b (tk s) _ (sw _ _ _ b (tk s) _ H)).
Qed.
Lemma and_ok b i k : pe_any b i k -> pe_ok (PAnd b) i i [].
Proof.
  intros H Hv. split; [exact Hv|]. intros s E. destruct (H Hv) as [_ Hs].
  destruct (Hs (set_fr (tk s) []) E) as [v [s1 [H1 [Hi Hn]]]].
  exists VNil, (set_inp (set_fr s1 (fr s)) (inp s)). split; [exact (L_and b s true v s1 H1)|]. unfold step_to. cbn. auto.
Qed.

(* a blank run always matches the whitespace rule, whatever follows *)
Lemma ws_some : forall k x, is_ws x -> all_valid (x :: k) -> exists rest, pe_any (PRef "_") (x :: k) rest.
Proof.
  assert (Hspan : forall k, exists w rest, k = app w rest /\ Forall is_ws w /\ ws_free rest).
  { induction k as [|c k [w [rest [E [Hw Hr]]]]].
    - exists [], []. repeat split; constructor.
    - destruct (class_match cls_ws (crune c)) eqn:Ec.
      + exists (c :: w), rest. subst k. repeat split; [constructor; assumption| exact Hr].
      + exists [], (c :: k). repeat split; [constructor| exact Ec]. }
  intros k x Hx _. destruct (Hspan k) as [w [rest [E [Hw Hr]]]]. subst k.
  exists rest. eapply pe_ok_any. exact (ws_plus_ok x w rest Hx Hw Hr).
Qed.

(* AfterNumbers holds in every admissible continuation of an atom *)
Ltac an_prefix := eapply ref_any; [reflexivity|]; cbn [rexpr]; eapply pe_ok_any; eapply and_ok; apply choice_any.
Lemma after_numbers_ok k : astop k -> all_valid k -> pe_ok (PRef "AfterNumbers") k k [].
Proof.
  intros Hk Hvk. destruct k as [|c k].
  - an_prefix. apply pec_next; [exact (fails_f ws_free _ [] fails_ws I)|]. apply pec_here. eapply pe_ok_any. exact eof_ok.
  - destruct Hk as [H|[H|H]].
    + destruct (ws_some k c H Hvk) as [rest Hr]. an_prefix. apply pec_here. exact Hr.
    + assert (Hf : ws_free (c :: k)) by (cbn; rewrite H; reflexivity).
      an_prefix. apply pec_next; [exact (fails_f ws_free _ (c :: k) fails_ws Hf)|]. apply pec_next; [apply eof_fails|].
      apply pec_here. eapply pe_ok_any. apply (lit_ok [41]%Z [c] k). cbn. rewrite H. reflexivity.
    + assert (Hf : ws_free (c :: k)) by (cbn; rewrite H; reflexivity).
      an_prefix. apply pec_next; [exact (fails_f ws_free _ (c :: k) fails_ws Hf)|]. apply pec_next; [apply eof_fails|].
      apply pec_next; [refine (fails_f (head_not 41) _ (c :: k) (fails_lit 41 []) _); cbn; rewrite H; discriminate|].
      apply pec_here. eapply pe_ok_any. apply (lit_ok [125]%Z [c] k). cbn. rewrite H. reflexivity.
Qed.
Print Assumptions after_numbers_ok.

Definition cls19 := {| cc_val := "[1-9]"; cc_chars := []; cc_ranges := [49; 57]%Z; cc_classes := []; cc_ignore_case := false; cc_inverted := false |}.

Lemma d19_range z : class_match cls19 z = true -> (49 <= z <= 57)%Z.
Proof.
  unfold class_match. cbn. rewrite !orb_false_r. intros H. apply andb_true_iff in H. destruct H as [H1 H2].
  apply Z.leb_le in H1. apply Z.leb_le in H2. lia.
Qed.
Lemma d19_not_letter z : class_match cls19 z = true -> class_match cls_id_head z = false.
Proof.
  intros H. apply d19_range in H. unfold class_match. cbn. rewrite !orb_false_r.
  apply orb_false_iff. split; apply andb_false_iff; left; apply Z.leb_gt; lia.
Qed.

Lemma astop_digit_stop k : astop k -> class_miss cls_digit k /\ head_not 46 k.
Proof.
  destruct k as [|c k]; [intros _; split; exact I|]. intros [H|[H|H]].
  - destruct (ws_rune c H) as [E|[E|[E|E]]]; split; cbn; rewrite E; try reflexivity; discriminate.
  - split; cbn; rewrite H; try reflexivity; discriminate.
  - split; cbn; rewrite H; try reflexivity; discriminate.
Qed.

Section IntLit.
Variables (d : cell) (ds : list cell) (k : list cell).
Hypothesis Hd : class_match cls19 (crune d) = true.
Hypothesis Hds : Forall is_digit ds.
Hypothesis Hk : astop k.
Let i := d :: app ds k.

Lemma iof_spec : pe_any (PRef "IntegerOrFloat") i k.
Proof.
  destruct (astop_digit_stop k Hk) as [Hm H46]. pose proof (d19_range _ Hd) as Hr.
  eapply pe_ok_any. eapply ref_any; [reflexivity|]. cbn [rexpr]. apply seq_any.
  eapply seqs_any_cons.
  - apply choice_any. apply pec_next.
    + refine (fails_f (head_not 48) _ i (fails_lit 48 []) _). unfold i. cbn. lia.
    + apply pec_here. apply seq_any.
      eapply seqs_any_cons; [eapply pe_ok_any; apply (class_ok cls19 d (app ds k) Hd)|].
      eapply seqs_any_cons; [|apply seqs_any_nil].
      eapply pe_ok_any. apply (star_ok (PClass cls_digit) is_digit k); [|apply fclass; exact Hm| exact Hds].
      intros c rest Hc. eapply pe_ok_any. apply (class_ok cls_digit c rest Hc).
  - eapply seqs_any_cons; [|apply seqs_any_nil]. eapply pe_ok_any. apply opt_none. apply fseq. apply fseqs_here.
    exact (fails_f (head_not 46) _ k (fails_lit 46 []) H46).
Qed.

Lemma number_spec : all_valid k -> spec (PRef "NumberLiteral") i (VStr (cells_str (d :: ds))) k.
Proof.
  intros Hvk. pose proof (d19_range _ Hd) as Hr.
  eapply ref_ok; [reflexivity|]. cbn [rexpr]. apply spec_j. apply choice_ok. apply specc_here.
  eapply action_any.
  - apply seq_any.
    eapply seqs_any_cons; [eapply pe_ok_any; apply opt_none; refine (fails_f (head_not 45) _ i (fails_lit 45 []) _); unfold i; cbn; lia|].
    eapply seqs_any_cons; [apply iof_spec|].
    eapply seqs_any_cons; [eapply pe_ok_any; eapply and_ok; eapply pe_ok_any; apply (after_numbers_ok k Hk Hvk)| apply seqs_any_nil].
  - intros G. rewrite (text_between_prefix' (d :: ds) k); [reflexivity| reflexivity].
Qed.

Lemma selector_fails_on_digit : fspecj (PRef "Selector") i.
Proof.
  pose proof (d19_range _ Hd) as Hr.
  eapply fref; [reflexivity|]. cbn [rexpr]. apply fchoice. constructor; [|constructor; [|constructor]].
  - apply faction. apply fseq. apply fseqs_here. apply flabeled.
    eapply fref; [reflexivity|]. cbn [rexpr]. apply faction. apply fseq. apply fseqs_here.
    apply fclass. unfold i. cbn. exact (d19_not_letter _ Hd).
  - apply faction. apply fseq. apply fseqs_here.
    refine (fails_f (head_not 34) _ i (fails_lit 34 []) _). unfold i. cbn. lia.
Qed.

Theorem value_int_spec : all_valid k -> spec (PRef "Value") i (VMV (cells_str (d :: ds))) k.
Proof.
  intros Hvk. eapply ref_ok; [reflexivity|]. cbn [rexpr]. apply spec_j. apply choice_ok.
  apply specc_next; [apply faction; apply flabeled; apply selector_fails_on_digit|].
  apply specc_here. eapply action_ok; [apply lab_ok; apply (number_spec Hvk)|]. intros G. reflexivity.
Qed.
End IntLit.
Print Assumptions value_int_spec.

Lemma value_int_spec' d ds k : class_match cls19 (crune d) = true -> Forall is_digit ds -> astop k ->
  spec (PRef "Value") (d :: app ds k) (VMV (cells_str (d :: ds))) k.
Proof.
  intros Hd Hds Hk Hv.
  assert (Hvk : all_valid k).
  { inversion Hv as [|? ? _ H1]; subst. exact (proj2 (proj1 (Forall_app _ _ _) H1)). }
  exact (value_int_spec d ds k Hd Hds Hk Hvk Hv).
Qed.

Definition of_int (d : cell) (ds : list cell) (Hd : class_match cls19 (crune d) = true) (Hds : Forall is_digit ds) : vlit.
Proof.
  refine {| v_txt := d :: ds; v_lit := cells_str (d :: ds) |}.
  - intros k Hk. cbn [app]. apply value_int_spec'; assumption.
  - intros k. cbn. pose proof (d19_range _ Hd) as Hr.
    unfold class_match. cbn. rewrite !orb_false_r.
    repeat (apply orb_false_iff; split); apply Z.eqb_neq; lia.
Defined.

(* D26 in the model: with the repaired AfterNumbers a number may be followed directly by the closing brace *)
Example number_before_brace : exists n e,
  parse go_grammar None action_sem pred_sem 5000 "any x as y { y == 10}" = Accepted (VExpr e) n.
Proof. eexists. eexists. vm_compute. reflexivity. Qed.
