From Coq Require Import List ZArith String Ascii Bool NArith Lia.
Import ListNotations.
From Bexpr Require Import Base Strconv Ast Univ Eval.
Open Scope string_scope.

(* C18, hook aspect: what the hook returns at a step is what the walk continues with and what the operator sees;
   a hook answering "nothing" is an error, not a panic. *)
Section H.
Variable re : string -> string -> option bool.

Lemma get_loop_hook_step cfg h part ps cur nxt v' :
  hook cfg = Some h -> get_step cfg part cur = Ok nxt -> h nxt = Some v' ->
  get_loop cfg (part :: ps) cur = get_loop cfg ps (Some v').
Proof. intros Hh Hs Hv. cbn [get_loop]. rewrite Hs, Hh, Hv. reflexivity. Qed.

Lemma get_loop_hook_nil cfg h part ps cur nxt :
  hook cfg = Some h -> get_step cfg part cur = Ok nxt -> h nxt = None ->
  get_loop cfg (part :: ps) cur = Err EHookNil.
Proof. intros Hh Hs Hv. cbn [get_loop]. rewrite Hs, Hh, Hv. reflexivity. Qed.

Theorem c18_hook_value_is_seen cfg h name op raw d nxt v' :
  hook cfg = Some h -> get_step cfg name d = Ok nxt -> h nxt = Some v' ->
  eval re cfg [] (EMatch {| stype := SelBexpr; spath := [name] |} op raw) d = match_op re op raw (r_interface (Some v')).
Proof.
  intros Hh Hs Hv. cbn [eval spath]. unfold get_value. cbn [resolve_locals]. unfold get.
  rewrite (get_loop_hook_step cfg h name [] d nxt v' Hh Hs Hv). cbn [get_loop]. reflexivity.
Qed.

Theorem c18_hook_nil_is_error cfg h name op raw d nxt :
  hook cfg = Some h -> get_step cfg name d = Ok nxt -> h nxt = None ->
  eval re cfg [] (EMatch {| stype := SelBexpr; spath := [name] |} op raw) d = Out false (Some EHookNil).
Proof.
  intros Hh Hs Hv. cbn [eval spath]. unfold get_value. cbn [resolve_locals]. unfold get.
  rewrite (get_loop_hook_nil cfg h name [] d nxt Hh Hs Hv). reflexivity.
Qed.
End H.
Print Assumptions c18_hook_value_is_seen.
