(* The float parser model decides overflow and underflow of extreme literals from the size of the exponent, without computing the
   power (Strconv.parse_float_core: `310 <? e10`, `log2 mant + 1 + 3 * e10 <? -1100`, and for hexadecimal literals
   `1100 <? e2 + log2 mant`, `e2 + log2 mant <? -1200`). These shortcuts are not a second semantics: in each case the single correct
   rounding of the exact rational (round_rat) gives the same answer - overflow, resp. zero - for binary64 and binary32. *)
From Coq Require Import ZArith Lia Bool.
From Bexpr Require Import Strconv RoundRat.
Open Scope Z_scope.

Lemma round_rat_overflows n d p emin emaxe :
  0 < n -> 0 < d -> 1 <= p -> 0 <= emaxe -> 2 ^ p * (d * 2 ^ emaxe) <= n -> round_rat n d p emin emaxe = None.
Proof.
  intros Hn Hd Hp Hx Hbig. destruct (round_rat n d p emin emaxe) as [[m er]|] eqn:E; [exfalso|reflexivity].
  destruct (round_rat_inv n d p emin emaxe m er Hn Hd Hp E) as (e & He & Hnorm & Hq & Hmax & C). cbv zeta in C.
  assert (Hle : e <= emaxe) by (destruct C as [(_ & _ & ->)|(_ & _ & ->)]; lia).
  pose proof (qat_mono n d e emaxe Hn Hd Hle) as M.
  assert (2 ^ p <= qat n d emaxe).
  { unfold qat. destruct (Z.leb_spec 0 emaxe) as [_|?]; [|lia].
    pose proof (pow2_pos' emaxe Hx). apply Z.div_le_lower_bound; [nia|]. lia. }
  lia.
Qed.

Lemma round_rat_underflows n d p emin emaxe :
  0 < n -> 0 < d -> 1 <= p -> emin <= 0 -> emin <= emaxe -> 4 * (n * 2 ^ (- emin)) <= d -> round_rat n d p emin emaxe = Some (0, emin).
Proof.
  intros Hn Hd Hp Hmin Hmm Hsmall. rewrite round_rat_unfold. destruct (Z.eqb_spec n 0) as [?|_]; [lia|].
  pose proof (adjust_normalises n d p Hn Hd Hp) as HA. cbv zeta in HA.
  set (ea := adjust n d p 4 (Z.log2 n - Z.log2 d - p)) in *.
  pose proof (pow2_pos' (- emin) ltac:(lia)) as Hpm. pose proof (pow2_pos' (p - 1) ltac:(lia)) as Hp1.
  assert (Hnum : sc_num n emin = n * 2 ^ (- emin)).
  { rewrite sc_num_pn. unfold pn. replace (Z.max 0 (- emin)) with (- emin) by lia. reflexivity. }
  assert (Hden : sc_den d emin = d).
  { rewrite sc_den_pp. unfold pp. replace (Z.max 0 emin) with 0 by lia. change (2 ^ 0) with 1. ring. }
  assert (Hq0 : qat n d emin = 0) by (rewrite qat_sc, Hnum, Hden; apply Z.div_small; lia).
  assert (Hea : ea < emin).
  { destruct (Z_lt_le_dec ea emin) as [L|G]; [exact L|]. pose proof (qat_mono n d emin ea Hn Hd G). lia. }
  replace (Z.max ea emin) with emin by lia.
  unfold finish. rewrite Hnum, Hden.
  rewrite (Z.div_small (n * 2 ^ (- emin)) d) by lia. rewrite (Z.mod_small (n * 2 ^ (- emin)) d) by lia.
  replace (d <? 2 * (n * 2 ^ (- emin))) with false by (symmetry; apply Z.ltb_ge; lia).
  replace (2 * (n * 2 ^ (- emin)) =? d) with false by (symmetry; apply Z.eqb_neq; lia).
  cbn [orb andb].
  replace (2 ^ p <=? 0) with false by (symmetry; apply Z.leb_gt; apply pow2_pos'; lia).
  replace (emaxe <? emin) with false by (symmetry; apply Z.ltb_ge; lia). reflexivity.
Qed.

(* the formats of the model: (precision, minimal exponent, maximal exponent of the ulp) *)
Definition is_format (p emin emaxe : Z) : Prop := (p = 53 /\ emin = -1074 /\ emaxe = 971) \/ (p = 24 /\ emin = -149 /\ emaxe = 104).

Lemma pow2_1024_lt_10_311 : 2 ^ 1024 <= 10 ^ 311. Proof. vm_compute. discriminate. Qed.

Lemma format_bounds p emin emaxe : is_format p emin emaxe -> 1 <= p /\ 0 <= emaxe /\ p + emaxe <= 1024 /\ -1098 <= emin <= 0 /\ emin <= emaxe.
Proof. intros [(-> & -> & ->)|(-> & -> & ->)]; lia. Qed.

Theorem decimal_overflow_guard mant e10 p emin emaxe :
  is_format p emin emaxe -> 0 < mant -> 310 < e10 -> dec_round mant e10 p emin emaxe = None.
Proof.
  intros F Hm He. destruct (format_bounds _ _ _ F) as (Hp & Hx & Hpx & Hmin & Hmm).
  unfold dec_round. destruct (Z.leb_spec 0 e10) as [_|?]; [|lia].
  pose proof (Z.pow_le_mono_r 10 311 e10 ltac:(lia) ltac:(lia)) as M1.
  pose proof (Z.pow_le_mono_r 2 (p + emaxe) 1024 ltac:(lia) Hpx) as M2.
  pose proof pow2_1024_lt_10_311 as M3.
  assert (0 < 10 ^ e10) by (apply Z.pow_pos_nonneg; lia).
  apply round_rat_overflows; [nia|lia|lia|lia|].
  rewrite Z.mul_1_l, <- Z.pow_add_r by lia. nia.
Qed.

Theorem decimal_underflow_guard mant e10 p emin emaxe :
  is_format p emin emaxe -> 0 < mant -> Z.log2 mant + 1 + 3 * e10 < -1100 -> dec_round mant e10 p emin emaxe = Some (0, emin).
Proof.
  intros F Hm Hg. destruct (format_bounds _ _ _ F) as (Hp & Hx & Hpx & Hmin & Hmm).
  pose proof (Z.log2_nonneg mant) as HL. destruct (Z.log2_spec mant Hm) as [_ Hub]. replace (Z.succ (Z.log2 mant)) with (Z.log2 mant + 1) in Hub by lia.
  set (L := Z.log2 mant) in *.
  unfold dec_round. destruct (Z.leb_spec 0 e10) as [?|Hneg]; [lia|].
  set (k := - e10) in *. assert (Hk : 0 < k) by (unfold k; lia).
  assert (H8 : 2 ^ (3 * k) <= 10 ^ k).
  { rewrite Z.pow_mul_r by lia. change (2 ^ 3) with 8. apply Z.pow_le_mono_l. lia. }
  (* mant * 2^(2 - emin) < 2^(L + 1 + 2 - emin) <= 2^(3k) <= 10^k *)
  assert (H2 : 2 ^ (L + 1) * 2 ^ (2 - emin) <= 2 ^ (3 * k)).
  { rewrite <- Z.pow_add_r by lia. apply Z.pow_le_mono_r; lia. }
  pose proof (pow2_pos' (2 - emin) ltac:(lia)) as Hpe. pose proof (pow2_pos' (- emin) ltac:(lia)) as Hpm.
  assert (E4 : 2 ^ (2 - emin) = 4 * 2 ^ (- emin)) by (replace (2 - emin) with (2 + - emin) by lia; rewrite Z.pow_add_r by lia; reflexivity).
  assert (0 < 10 ^ k) by (apply Z.pow_pos_nonneg; lia).
  apply round_rat_underflows; [lia|lia|lia|lia|lia|]. nia.
Qed.

Theorem hex_overflow_guard mant e2 p emin emaxe :
  is_format p emin emaxe -> 0 < mant -> 1100 < e2 + Z.log2 mant -> hex_round mant e2 p emin emaxe = None.
Proof.
  intros F Hm Hg. destruct (format_bounds _ _ _ F) as (Hp & Hx & Hpx & Hmin & Hmm).
  pose proof (Z.log2_nonneg mant) as HL. destruct (Z.log2_spec mant Hm) as [Hlb _]. set (L := Z.log2 mant) in *.
  pose proof (pow2_pos' emaxe Hx) as Hpx2.
  unfold hex_round. destruct (Z.leb_spec 0 e2) as [Hpos|Hneg].
  - pose proof (pow2_pos' e2 Hpos). apply round_rat_overflows; [nia|lia|lia|lia|].
    rewrite Z.mul_1_l, <- Z.pow_add_r by lia.
    assert (2 ^ (p + emaxe) <= 2 ^ L * 2 ^ e2) by (rewrite <- Z.pow_add_r by lia; apply Z.pow_le_mono_r; lia). nia.
  - pose proof (pow2_pos' (- e2) ltac:(lia)). apply round_rat_overflows; [lia|lia|lia|lia|].
    (* 2^p * 2^(-e2) * 2^emaxe <= 2^L <= mant *)
    assert (2 ^ p * (2 ^ (- e2) * 2 ^ emaxe) <= 2 ^ L) by (rewrite <- !Z.pow_add_r by lia; apply Z.pow_le_mono_r; lia). lia.
Qed.

Theorem hex_underflow_guard mant e2 p emin emaxe :
  is_format p emin emaxe -> 0 < mant -> e2 + Z.log2 mant < -1200 -> hex_round mant e2 p emin emaxe = Some (0, emin).
Proof.
  intros F Hm Hg. destruct (format_bounds _ _ _ F) as (Hp & Hx & Hpx & Hmin & Hmm).
  pose proof (Z.log2_nonneg mant) as HL. destruct (Z.log2_spec mant Hm) as [_ Hub]. replace (Z.succ (Z.log2 mant)) with (Z.log2 mant + 1) in Hub by lia.
  set (L := Z.log2 mant) in *.
  unfold hex_round. destruct (Z.leb_spec 0 e2) as [?|Hneg]; [lia|].
  pose proof (pow2_pos' (- e2) ltac:(lia)). pose proof (pow2_pos' (- emin) ltac:(lia)) as Hpm.
  apply round_rat_underflows; [lia|lia|lia|lia|lia|].
  assert (2 ^ 2 * (2 ^ (L + 1) * 2 ^ (- emin)) <= 2 ^ (- e2)) by (rewrite <- !Z.pow_add_r by lia; apply Z.pow_le_mono_r; lia).
  change (2 ^ 2) with 4 in *. nia.
Qed.

(* the guards, as they stand in parse_float_core, select the answer the rounding itself gives *)
Theorem decimal_guards_are_the_rounding mant e10 p emin emaxe :
  is_format p emin emaxe -> 0 < mant ->
  (if 310 <? e10 then None else if Z.log2 mant + 1 + 3 * e10 <? -1100 then Some (0, emin) else dec_round mant e10 p emin emaxe)
  = dec_round mant e10 p emin emaxe.
Proof.
  intros F Hm. destruct (Z.ltb_spec 310 e10) as [H|H]; [symmetry; apply decimal_overflow_guard; assumption|].
  destruct (Z.ltb_spec (Z.log2 mant + 1 + 3 * e10) (-1100)) as [H2|H2]; [symmetry; apply decimal_underflow_guard; assumption|reflexivity].
Qed.

Theorem hex_guards_are_the_rounding mant e2 p emin emaxe :
  is_format p emin emaxe -> 0 < mant ->
  (if 1100 <? e2 + Z.log2 mant then None else if e2 + Z.log2 mant <? -1200 then Some (0, emin) else hex_round mant e2 p emin emaxe)
  = hex_round mant e2 p emin emaxe.
Proof.
  intros F Hm. destruct (Z.ltb_spec 1100 (e2 + Z.log2 mant)) as [H|H]; [symmetry; apply hex_overflow_guard; assumption|].
  destruct (Z.ltb_spec (e2 + Z.log2 mant) (-1200)) as [H2|H2]; [symmetry; apply hex_underflow_guard; assumption|reflexivity].
Qed.
