From Coq Require Import List ZArith String Bool NArith.
Import ListNotations.
From Bexpr Require Import Base Ast Unicode Peg Typing Actions GoGrammar Term Term2.
Open Scope string_scope.

Definition in_list (s : string) (l : list string) : bool := existsb (String.eqb s) l.

(* rules that may succeed without consuming input *)
Definition nt (n : string) : bool := in_list n ["EOF"; "AfterNumbers"].

(* ranks: a rule may only be entered without consumption from a rule of strictly larger rank *)
Definition rk (n : string) : nat :=
  if in_list n ["_"; "EOF"; "RawStringChar"; "DoubleStringChar"; "Identifier"; "IntegerOrFloat"; "JsonPointerSegment"] then 0
  else if in_list n ["AfterNumbers"; "StringLiteral"; "MatchEqual"; "MatchNotEqual"; "MatchIsEmpty"; "MatchIsNotEmpty"; "MatchIn"; "MatchNotIn";
                     "MatchContains"; "MatchNotContains"; "MatchMatches"; "MatchNotMatches"; "CollectionOpAny"; "CollectionOpAll"; "CollectionIdentifiers"] then 1
  else if in_list n ["NumberLiteral"; "IndexExpression"] then 2
  else if in_list n ["SelectorOrIndex"] then 3
  else if in_list n ["Selector"] then 4
  else if in_list n ["Value"] then 5
  else if in_list n ["MatchSelectorOpValue"; "MatchSelectorOp"; "MatchValueOpSelector"; "CollectionExpression"] then 6
  else if in_list n ["MatchExpression"] then 7
  else if in_list n ["ParenthesizedExpression"] then 8
  else if in_list n ["NotExpression"] then 9
  else if in_list n ["AndExpression"] then 10
  else if in_list n ["OrExpression"] then 11
  else if in_list n ["Input"] then 12
  else 13.
Definition K : nat := 20.

(* which rules fail the check, if any *)
Eval vm_compute in map rname (filter (fun r => negb (wfa nt rk K (rk (rname r)) (rexpr r) && Nat.ltb (rk (rname r)) K && (negb (nul nt (rexpr r)) || nt (rname r)))) go_grammar).

Theorem go_grammar_wf : grammar_wf nt rk K go_grammar = true.
Proof. vm_compute. reflexivity. Qed.

(* C10: CreateEvaluator / grammar.Parse return for every byte string (model level) *)
Theorem c10_terminates input : exists fuel, parse go_grammar None action_sem pred_sem fuel input <> NoFuel.
Proof. apply (parse_terminates go_grammar action_sem pred_sem nt rk K go_grammar_wf). Qed.
Print Assumptions c10_terminates.

(* C10 assembled: for every byte string the (model of the) parser returns, and it returns a well-formed tree or a non-empty error list *)
From Bexpr Require Import GrammarTypes TypingSound AbortErr C10.
Theorem c10_total input : exists fuel,
  (exists e n, parse go_grammar None action_sem pred_sem fuel input = Accepted (VExpr e) n /\ wf_ast e) \/
  (exists k n m, parse go_grammar None action_sem pred_sem fuel input = Rejected k n m /\ k <> 0%nat).
Proof.
  destruct (c10_terminates input) as [fuel Hf]. exists fuel.
  destruct (parse go_grammar None action_sem pred_sem fuel input) as [v n|k n m|] eqn:E; [| |congruence].
  - left. destruct (c10_accepted_is_expression None fuel input v n E) as [e [-> Hw]]. eauto.
  - right. exists k, n, m. split; [reflexivity|]. apply (parse_rejected_has_error go_grammar None action_sem pred_sem fuel input k n m E).
Qed.
Print Assumptions c10_total.
