From Coq Require Import List ZArith String Ascii Bool NArith Lia.
Import ListNotations.
From Bexpr Require Import Base Ast Unicode Peg Typing Actions GoGrammar Sem Term Lex Lex2 Lex3 Calc Calc2 Skel Top Atoms StrLit AtomsEq Spell C07 Ptr Coll AtomsIn Values Sels AtomsOp AtomsNotIn C16 Fidelity Fid2 Fid3.
Open Scope string_scope.

(* C16, literal fidelity for EVERY byte string (on the repaired grammar). *)

Lemma quoted_cells_any s : acells (quote_double s) = qc :: app (acells (esc_all s)) [qc].
Proof. unfold quote_double. cbn [acells]. rewrite acells_app. reflexivity. Qed.

Lemma ptr_not_backslash c : is_ptr c -> crune c <> 92%Z.
Proof. unfold is_ptr. intros H E. rewrite E in H. vm_compute in H. discriminate H. Qed.

Lemma psegs_no_backslash ps : Forall pseg_ok ps -> Forall (fun c => crune c <> 92%Z) (psegs_cells ps []).
Proof.
  induction 1 as [|[c cs] ps [Hc Hcs] _ IH]; cbn [psegs_cells fst snd] in *; [constructor|].
  constructor; [cbn; discriminate|]. constructor; [apply ptr_not_backslash; exact Hc|].
  apply Forall_app. split; [|exact IH].
  exact (Forall_impl _ ptr_not_backslash Hcs).
Qed.

Lemma contains_acells x b : Forall (fun c => crune c <> b2z x) (acells b) -> contains_byte x b = false.
Proof.
  induction b as [|y t IH]; cbn; intros H; [reflexivity|]. inversion H as [|? ? Hy Ht]; subst.
  rewrite (IH Ht), orb_false_r. apply Ascii.eqb_neq. intros E. subst y. apply Hy. reflexivity.
Qed.

Theorem value_quoted_any s k : spec (PRef "Value") (app (acells (quote_double s)) k) (VMV s) k.
Proof.
  set (b := esc_all s).
  assert (Hplain : all_plain b = true) by apply esc_all_plain.
  destruct (split_spec (String.length b) b (le_n _)) as [Eb [Hok [Hns [Hnil Hne]]]].
  set (ps := map topseg (fst (split_ptr (String.length b) b))) in *.
  set (r := snd (split_ptr (String.length b) b)) in *.
  rewrite quoted_cells_any. fold b. rewrite Eb. cbn [app]. rewrite <- app_assoc, psegs_cells_app. cbn [app].
  destruct r as [|sl rest] eqn:Er.
  - (* the whole body is pointer-like *)
    cbn [acells app].
    assert (Hbs : b = s).
    { apply no_backslash_identity. fold b. apply (contains_acells "\"%char). rewrite Eb. cbn [acells].
      exact (psegs_no_backslash ps Hok). }
    replace (VMV s) with (VMV (cells_str (psegs_cells ps []))).
    + apply value_pointer_like_spec. exact Hok.
    + f_equal. rewrite <- Hbs. cbn [acells] in Eb. rewrite <- Eb. apply cells_str_acells.
  - (* something that is not a segment follows the longest prefix of segments *)
    apply (value_slash_mixed_spec ps (acells (String sl rest)) k s Hok).
    + cbn [acells]. discriminate.
    + cbn [acells app]. cbn [ns] in Hns. destruct (b2z sl =? 47)%Z eqn:Esl.
      * right. exists (app (acells rest) (qc :: k)). split; [rewrite (slash_cell sl Esl); reflexivity|].
        destruct rest as [|c t]; [apply ptr_miss_dq; reflexivity|]. cbn [andb] in Hns. cbn [acells app]. exact Hns.
      * left. cbn. apply Z.eqb_neq. exact Esl.
    + destruct (fst (split_ptr (String.length b) b)) eqn:Ep; [left; reflexivity|].
      right. assert (Hh : hd_not_p (String sl rest)) by (apply Hne; discriminate). cbn [acells app]. exact Hh.
    + rewrite <- Eb. apply plain_not_dq. exact Hplain.
    + rewrite <- Eb. unfold b. rewrite <- quoted_cells_any, cells_str_acells. apply c16_quoted_literal.
Qed.
Print Assumptions value_quoted_any.

Definition of_any (s : string) : vlit.
Proof.
  refine {| v_txt := acells (quote_double s); v_lit := s |}.
  - intros k _. apply value_quoted_any.
  - intros k. reflexivity.
Defined.

Definition lay_sp : oplay :=
  {| o_x1 := sp; o_a1 := [sp]; o_x2 := sp; o_a2 := [sp]; o_x3 := sp; o_a3 := [];
     o_h1 := is_ws_sp; o_h1' := Forall_cons _ is_ws_sp (Forall_nil _); o_h2 := is_ws_sp; o_h2' := Forall_cons _ is_ws_sp (Forall_nil _);
     o_h3 := is_ws_sp; o_h3' := Forall_nil _ |}.

Section All.
Variables (c0 : ascii) (rest : string) (s : string).
Hypothesis Hhead : class_match cls_id_head (b2z c0) = true.
Hypothesis Htail : tail_ok rest.
Let name := String c0 rest.
Hypothesis Hn : name <> "not".          (* the only identifier that is not a selector at the head of an expression *)

Lemma b2z_inj a b : b2z a = b2z b -> a = b.
Proof.
  unfold b2z. intros H. apply N2Z.inj in H.
  rewrite <- (ascii_N_embedding a), <- (ascii_N_embedding b), H. reflexivity.
Qed.

Lemma name_runes : map crune (acell c0 :: acells rest) <> [110; 111; 116]%Z.
Proof.
  intros H. apply Hn. unfold name.
  destruct rest as [|c1 [|c2 [|c3 r]]]; cbn [acells map] in H; try discriminate.
  inversion H as [[E0 E1 E2]].
  rewrite (b2z_inj c0 "n" E0), (b2z_inj c1 "o" E1), (b2z_inj c2 "t" E2). reflexivity.
Qed.

Theorem c16_literal_fidelity_all :
  exists f0, forall f, (f0 <= f)%nat -> exists n,
    parse go_grammar None action_sem pred_sem f (name ++ " == " ++ quote_double s)
    = Accepted (VExpr (EMatch {| stype := SelBexpr; spath := [name] |} OpEq (Some s))) n.
Proof.
  set (sr := of_mixed (acell c0) (acells rest) [] Hhead (tail_cells rest Htail) (Forall_nil _) (or_introl name_runes)).
  set (a := {| p_op := VEq; p_lay := lay_sp; p_lit := of_any s; p_sr := sr |}).
  assert (Hexp : p_exp a = EMatch {| stype := SelBexpr; spath := [name] |} OpEq (Some s)).
  { unfold p_exp, p_sel, a, sr. cbn [p_sr p_op p_lit s_val of_mixed of_any v_lit mop_of map].
    change (acell c0 :: acells rest) with (acells name). rewrite cells_str_acells. reflexivity. }
  rewrite <- Hexp.
  assert (Hascii : all_ascii (name ++ " == " ++ quote_double s) = true).
  { rewrite !all_ascii_app. unfold name. cbn [all_ascii]. rewrite (head_class_ascii _ Hhead), (tail_ascii _ Htail).
    unfold quote_double. cbn [all_ascii]. rewrite all_ascii_app, (plain_ascii _ (esc_all_plain s)). reflexivity. }
  apply (c16_full_parse5 _ (p_exp a) (p_txt a) [] []).
  - apply r_or_and. apply r_and_not. apply r_not_par.
    exact (r_atom atom5 atxt5 aexp5 chdr h_txt h_op h_sel h_bind (inl (inr a))).
  - constructor.
  - constructor.
  - rewrite (utf8_cells_ascii _ Hascii). rewrite !acells_app. cbn [app]. rewrite app_nil_r.
    unfold p_txt, p_txtK, a, sr. cbn [p_sr p_op p_lay p_lit s_txt of_mixed of_any v_txt op_text lay_sp o_a1 o_a2 segs_cells].
    unfold name. cbn [acells app]. rewrite !app_nil_r. reflexivity.
  - rewrite (utf8_cells_ascii _ Hascii). apply acells_valid.
Qed.
End All.
Print Assumptions c16_literal_fidelity_all.

(* the D9 witness and a non-pointer slash literal, as instances *)
Example usr_bin : exists f0, forall f, (f0 <= f)%nat -> exists n,
  parse go_grammar None action_sem pred_sem f ("X == " ++ quote_double "/usr/bin")
  = Accepted (VExpr (EMatch {| stype := SelBexpr; spath := ["X"] |} OpEq (Some "/usr/bin"))) n.
Proof. refine (c16_literal_fidelity_all "X" "" "/usr/bin" _ _ _); [reflexivity| exact I| discriminate]. Qed.
(* a selector that begins like the keyword `not` *)
Example name_selector : exists f0, forall f, (f0 <= f)%nat -> exists n,
  parse go_grammar None action_sem pred_sem f ("notes == " ++ quote_double "x")
  = Accepted (VExpr (EMatch {| stype := SelBexpr; spath := ["notes"] |} OpEq (Some "x"))) n.
Proof. refine (c16_literal_fidelity_all "n" "otes" "x" _ _ _); [reflexivity| repeat split| discriminate]. Qed.
Example usr_bin_computed : exists n, parse go_grammar None action_sem pred_sem 3000 "X == ""/usr/bin"""
  = Accepted (VExpr (EMatch {| stype := SelBexpr; spath := ["X"] |} OpEq (Some "/usr/bin"))) n.
Proof. eexists. vm_compute. reflexivity. Qed.
