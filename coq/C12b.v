(* C12, logic part instantiated: Evaluate and Execute as programs over the shared cells they touch -
   the Converted slot of every matches / not matches node (keyed by its literal), the Evaluator's fields, the datum.
   Cell contents are abstracted to unit: what matters for a data race is which cells are read and written.
   After the D7 repair Evaluate only reads (the regular expressions are compiled in CreateEvaluator); the unrepaired
   Evaluate wrote the Converted cell on the first use of a node.  Reading every cell up front over-approximates the
   accesses of the real, lazy evaluation; it cannot hide a conflict. *)
From Coq Require Import List ZArith String Bool NArith Lia.
Import ListNotations.
From Bexpr Require Import Base Strconv Ast Univ Eval Api Conc.
Open Scope string_scope.

Inductive cell := LConv (pattern : string) | LEvaluator | LDatum.
Definition cell_eqb (a b : cell) : bool :=
  match a, b with LConv p, LConv q => String.eqb p q | LEvaluator, LEvaluator | LDatum, LDatum => true | _, _ => false end.

Fixpoint patterns (e : expr) : list string :=
  match e with
  | ENot a => patterns a
  | EBin _ a b => patterns a ++ patterns b
  | EMatch _ op (Some raw) => match op with OpMatches | OpNotMatches => [raw] | _ => [] end
  | EMatch _ _ None => []
  | EColl _ _ _ body => patterns body
  end.

Section P.
Variable re : string -> string -> option bool.
Variable parse : option N -> string -> option expr.

Notation prog := (Conc.prog cell unit).

Fixpoint read_cells {A} (ls : list cell) (k : prog A) : prog A :=
  match ls with [] => k | l :: r => Read _ _ _ l (fun _ => read_cells r k) end.

Definition cells_of (ev : evaluator) : list cell := LEvaluator :: LDatum :: map LConv (patterns (ev_ast ev)).

(* Evaluate after the repair *)
Definition evaluate_prog (ev : evaluator) (d : iface) : prog outcome :=
  read_cells (cells_of ev) (Ret _ _ _ (evaluate re ev d)).
(* Execute: the filter's evaluator is used for every element; the same cells *)
Definition execute_prog (ev : evaluator) (d : iface) : prog exres :=
  read_cells (cells_of ev) (Ret _ _ _ (execute re (Some ev) d)).

(* Evaluate before the repair: a matches node's cell is read and, on first use, written *)
Fixpoint read_write_cells {A} (ls : list string) (k : prog A) : prog A :=
  match ls with [] => k | p :: r => Read _ _ _ (LConv p) (fun _ => Write _ _ _ (LConv p) tt (read_write_cells r k)) end.
Definition evaluate_prog_unrepaired (ev : evaluator) (d : iface) : prog outcome :=
  read_cells [LEvaluator; LDatum] (read_write_cells (patterns (ev_ast ev)) (Ret _ _ _ (evaluate re ev d))).

Lemma read_cells_write_free {A} ls (k : prog A) : write_free _ _ _ k -> write_free _ _ _ (read_cells ls k).
Proof. intros H. induction ls as [|l r IH]; cbn; [exact H|]. constructor. intros _. exact IH. Qed.

Theorem evaluate_write_free ev d : write_free _ _ _ (evaluate_prog ev d).
Proof. apply read_cells_write_free. constructor. Qed.
Theorem execute_write_free ev d : write_free _ _ _ (execute_prog ev d).
Proof. apply read_cells_write_free. constructor. Qed.

Lemma run_read_cells {A} ls (a : A) s : run_seq _ _ _ cell_eqb (S (List.length ls)) s (read_cells ls (Ret _ _ _ a)) = Some a.
Proof. induction ls as [|l r IH]; [reflexivity|]. cbn [List.length read_cells run_seq]. exact IH. Qed.

Lemma run_seq_mono {A} (p : prog A) : forall fuel s a, run_seq _ _ _ cell_eqb fuel s p = Some a -> run_seq _ _ _ cell_eqb (S fuel) s p = Some a.
Proof.
  intros fuel. revert p. induction fuel as [|f IH]; intros p s a H; [discriminate|].
  destruct p as [x|l k|l v k]; cbn [run_seq] in *; auto.
Qed.
Lemma run_seq_det {A} (p : prog A) : forall f1 f2 s a b, run_seq _ _ _ cell_eqb f1 s p = Some a -> run_seq _ _ _ cell_eqb f2 s p = Some b -> a = b.
Proof.
  intros f1. revert p. induction f1 as [|f IH]; intros p f2 s a b H1 H2; [discriminate|].
  destruct f2 as [|g]; [discriminate|].
  destruct p as [x|l k|l v k]; cbn [run_seq] in *; [congruence|eauto|eauto].
Qed.

(* sequential meaning: the program returns what the model's Evaluate returns, whatever the cells hold *)
Theorem evaluate_prog_result ev d s : exists fuel, run_seq _ _ _ cell_eqb fuel s (evaluate_prog ev d) = Some (evaluate re ev d).
Proof. eexists. apply run_read_cells. Qed.

(* k goroutines share one store and run Evaluate programs under ANY schedule: the store is never changed, and a goroutine
   that has finished holds exactly what its call returns when made alone *)
Theorem concurrent_evaluate sched s (calls : list (evaluator * iface)) :
  let ps := map (fun c => evaluate_prog (fst c) (snd c)) calls in
  fst (run_sched _ _ _ cell_eqb sched s ps) = s /\
  forall j a, nth_error (snd (run_sched _ _ _ cell_eqb sched s ps)) j = Some (Ret _ _ _ a) ->
    exists ev d, nth_error calls j = Some (ev, d) /\ a = evaluate re ev d.
Proof.
  intros ps.
  assert (Hwf : Forall (write_free _ _ _) ps).
  { unfold ps. apply Forall_forall. intros p Hin. apply in_map_iff in Hin. destruct Hin as [[ev d] [<- _]]. apply evaluate_write_free. }
  split; [apply (store_unchanged _ _ _ cell_eqb sched s ps Hwf)|].
  intros j a Hfin.
  destruct (interleaving_irrelevant _ _ _ cell_eqb sched s ps j a Hwf Hfin) as [p [fuel [Hp Hr]]].
  unfold ps in Hp. rewrite nth_error_map in Hp. destruct (nth_error calls j) as [[ev d]|] eqn:E; [|discriminate].
  cbn in Hp. injection Hp as <-. exists ev, d. split; [reflexivity|].
  destruct (evaluate_prog_result ev d s) as [f2 H2]. exact (run_seq_det _ _ _ _ _ _ Hr H2).
Qed.

(* no access of a repaired Evaluate / Execute is a write: there is nothing for a race detector to pair *)
Theorem evaluate_no_write ev d fuel s : forallb (fun a => negb (is_write _ a)) (trace _ _ _ cell_eqb fuel s (evaluate_prog ev d)) = true.
Proof. apply no_write_access. apply evaluate_write_free. Qed.
Theorem execute_no_write ev d fuel s : forallb (fun a => negb (is_write _ a)) (trace _ _ _ cell_eqb fuel s (execute_prog ev d)) = true.
Proof. apply no_write_access. apply execute_write_free. Qed.
End P.

(* the unrepaired Evaluate: two goroutines evaluating `s matches "a+"` both write the Converted cell of that node *)
Definition race_witness_ast : expr := EMatch {| stype := SelBexpr; spath := ["s"] |} OpMatches (Some "a+").
Definition race_witness_ev : evaluator := {| ev_ast := race_witness_ast; ev_tag := "bexpr"; ev_hook := None; ev_unknown := None; ev_src := "s matches ""a+""" |}.
Theorem unrepaired_evaluate_writes_shared_cell :
  let re := fun _ _ => Some true in
  let t := trace _ _ _ cell_eqb 10 (fun _ => tt) (evaluate_prog_unrepaired re race_witness_ev None) in
  existsb (fun a => match a with AWr _ (LConv "a+") => true | _ => false end) t = true
  /\ existsb (fun a => match a with ARd _ (LConv "a+") => true | _ => false end) t = true.
Proof. vm_compute. split; reflexivity. Qed.
Print Assumptions concurrent_evaluate.
Print Assumptions unrepaired_evaluate_writes_shared_cell.
