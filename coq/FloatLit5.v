(* A leading `+` is neutral for the float parser model: on any text that begins with a digit and holds no underscore - all the literal
   families of FloatLit2-4 - `+text` is read as `text`. *)
From Coq Require Import List ZArith String Ascii Bool NArith Lia.
Import ListNotations.
From Bexpr Require Import Base Strconv C02 RoundRat RoundGuards FloatLit FloatLit2 FloatLit3 FloatLit4.
Open Scope string_scope.
Open Scope Z_scope.

Theorem plus_sign_neutral u bits p ebits emin emaxe :
  (forall c t, parse_float_core (String c t) bits =
     let neg := b2z c =? 45 in let body := if (b2z c =? 43) || neg then t else String c t in
     if is_hex_b body then hex_tail body neg p ebits emin emaxe else dec_tail body neg p ebits emin emaxe) ->
  (exists d0 t, is_digit d0 /\ u = String (digit_char d0) t) -> has_us u = false ->
  parse_float (String "+" u) bits = parse_float u bits.
Proof.
  intros U Hu HU.
  pose proof (parse_float_unsigned_any false u bits p ebits emin emaxe U Hu HU) as R. cbn [sign_str append] in R. rewrite R.
  destruct Hu as (d0 & t & H0 & Eu). pose proof H0 as H0'. unfold is_digit in H0'.
  assert (NW : forall w0 w, (b2z w0 < 48 \/ 57 < b2z w0) -> String.eqb (lower_str u) (String w0 w) = false).
  { intros w0 w Hw. rewrite Eu. cbn [lower_str]. rewrite (b2z_digit d0 H0), lower_small by lia. fold (digit_char d0).
    cbn [String.eqb]. rewrite (digit_char_not w0 d0 H0 Hw). reflexivity. }
  unfold parse_float. destruct (bits =? 32); cbv beta iota zeta; change (b2z "+" =? 45) with false; change (b2z "+" =? 43) with true;
    cbn [orb negb]; cbv beta iota zeta; rewrite !NW by (vm_compute; right; reflexivity); cbn [orb andb];
    unfold parse_float_num; cbn [has_us]; change (b2z "+" =? 95) with false; cbn [orb]; rewrite HU;
    rewrite U; cbv zeta; change (b2z "+" =? 45) with false; change (b2z "+" =? 43) with true; cbn [orb]; reflexivity.
Qed.

Theorem plus_sign_neutral_both u :
  (exists d0 t, is_digit d0 /\ u = String (digit_char d0) t) -> has_us u = false ->
  parse_float (String "+" u) 64 = parse_float u 64 /\ parse_float (String "+" u) 32 = parse_float u 32.
Proof.
  intros Hu HU. split.
  - exact (plus_sign_neutral u 64 53 11 (-1074) 971 pfc_unfold64 Hu HU).
  - exact (plus_sign_neutral u 32 24 8 (-149) 104 pfc_unfold32 Hu HU).
Qed.

Example plus_example : parse_float "+0.1" 64 = parse_float "0.1" 64 /\ parse_float "+0x1p-2" 32 = parse_float "0x1p-2" 32.
Proof. split; vm_compute; reflexivity. Qed.
