From Coq Require Import List ZArith String Ascii Bool NArith Lia Permutation Sorted.
Import ListNotations.
From Bexpr Require Import Base Strconv Ast Univ Eval.
Open Scope string_scope.

Section P.
Variable re : string -> string -> option bool.
Notation eval := (eval re).

(* ---------- C03 on the repaired model ---------- *)
Definition val (o : outcome) : bool := match o with Out b _ => b | Panic => false end.
Definition is_panic (o : outcome) : bool := match o with Panic => true | _ => false end.

Lemma c03_and cfg ls a b d :
  eval cfg ls (EBin BAnd a b) d =
    let o := eval cfg ls a d in if is_panic o || is_err o || negb (val o) then o else eval cfg ls b d.
Proof. cbn [Eval.eval]. destruct (Eval.eval re cfg ls a d) as [r [e|]|]; cbn; try reflexivity; destruct r; reflexivity. Qed.

Lemma c03_or cfg ls a b d :
  eval cfg ls (EBin BOr a b) d =
    let o := eval cfg ls a d in if is_panic o || is_err o || val o then o else eval cfg ls b d.
Proof. cbn [Eval.eval]. destruct (Eval.eval re cfg ls a d) as [r [e|]|]; cbn; try reflexivity; destruct r; reflexivity. Qed.

(* `not` swaps true and false and passes an error through, with false *)
Lemma c03_not cfg ls a d : eval cfg ls (ENot a) d = negate (eval cfg ls a d).
Proof. cbn [Eval.eval]. destruct (Eval.eval re cfg ls a d) as [r [e|]|]; reflexivity. Qed.

Lemma negate_involutive_ok o : is_err o = false -> negate (negate o) = o.
Proof. destruct o as [b [e|]|]; cbn; try discriminate; intros _; try reflexivity. rewrite negb_involutive. reflexivity. Qed.

Corollary c03_double_negation cfg ls a d : is_err (eval cfg ls a d) = false ->
  eval cfg ls (ENot (ENot a)) d = eval cfg ls a d.
Proof. intros H. rewrite !c03_not. apply negate_involutive_ok. exact H. Qed.

(* an error in an operand the short-circuit never reaches is not reported *)
Corollary c03_unreached_error_silent cfg ls a b d :
  eval cfg ls a d = Out false None -> eval cfg ls (EBin BAnd a b) d = Out false None.
Proof. intros H. rewrite c03_and, H. reflexivity. Qed.

(* De Morgan, on outcomes *)
Lemma c03_de_morgan_and cfg ls a b d :
  eval cfg ls (ENot (EBin BAnd a b)) d = eval cfg ls (EBin BOr (ENot a) (ENot b)) d.
Proof.
  rewrite c03_not, c03_and, c03_or, !c03_not.
  destruct (Eval.eval re cfg ls a d) as [r [e|]|]; cbn; try reflexivity. destruct r; cbn; reflexivity.
Qed.

Lemma c03_de_morgan_or cfg ls a b d :
  eval cfg ls (ENot (EBin BOr a b)) d = eval cfg ls (EBin BAnd (ENot a) (ENot b)) d.
Proof.
  rewrite c03_not, c03_and, c03_or, !c03_not.
  destruct (Eval.eval re cfg ls a d) as [r [e|]|]; cbn; try reflexivity. destruct r; cbn; reflexivity.
Qed.

(* ---------- C04 ---------- *)
Definition neg_of (p : matchop) : matchop :=
  match p with OpEq => OpNeq | OpIn => OpNotIn | OpIsEmpty => OpIsNotEmpty | OpMatches => OpNotMatches | o => o end.
Definition positive (p : matchop) : bool := match p with OpEq | OpIn | OpIsEmpty | OpMatches => true | _ => false end.

Lemma c04_absent_table p : positive p = true -> disposition (neg_of p) = negb (disposition p).
Proof. destruct p; cbn; intros H; try discriminate; reflexivity. Qed.

Theorem c04_complement cfg ls s v d p : positive p = true ->
  eval cfg ls (EMatch s (neg_of p) v) d = negate (eval cfg ls (EMatch s p v) d).
Proof.
  intros Hp. cbn [Eval.eval].
  destruct (get_value cfg ls (spath s) d) as [[x|]|e|]; try reflexivity.
  - unfold match_op. destruct (json_narrow x) as [x'|e|]; try reflexivity.
    destruct p; try discriminate; reflexivity.
  - destruct p; try discriminate; reflexivity.
Qed.

(* with the repaired `not`, the wrapper form and the negative operator are the same test *)
Theorem c04_not_wrapper cfg ls s v d p : positive p = true ->
  eval cfg ls (ENot (EMatch s p v)) d = eval cfg ls (EMatch s (neg_of p) v) d.
Proof. intros Hp. rewrite c03_not, (c04_complement cfg ls s v d p Hp). reflexivity. Qed.

(* ---------- C06: the quantifier is the left-to-right fold of the connectives over the element bodies ---------- *)
Definition or3 (o : outcome) (k : unit -> outcome) : outcome :=
  match o with Panic => Panic | Out _ (Some e) => Out false (Some e) | Out true None => Out true None | Out false None => k tt end.
Definition and3 (o : outcome) (k : unit -> outcome) : outcome :=
  match o with Panic => Panic | Out _ (Some e) => Out false (Some e) | Out false None => Out false None | Out true None => k tt end.
Fixpoint fold3 (op : collop) (bodies : list (unit -> outcome)) : outcome :=
  match bodies with
  | [] => Out (coll_default op) None
  | b :: rest => (match op with CAny => or3 | CAll => and3 end) (b tt) (fun _ => fold3 op rest)
  end.
Fixpoint bodies_of (ev : locals -> outcome) (b : binding) (selpath : list string) (is_map : bool) (i : nat) (items : list string)
  : list (unit -> outcome) :=
  match items with [] => [] | k :: rest => (fun _ => ev (bind_elem b selpath is_map i k)) :: bodies_of ev b selpath is_map (S i) rest end.

Theorem c06_fold ev op b selpath is_map items : same_name b = false -> forall i,
  coll_loop ev op b selpath is_map i items = fold3 op (bodies_of ev b selpath is_map i items).
Proof.
  intros Hs. induction items as [|k rest IH]; intros i; cbn [coll_loop bodies_of fold3]; [reflexivity|].
  rewrite Hs. destruct (ev (bind_elem b selpath is_map i k)) as [r [e|]|]; destruct op; cbn; try reflexivity;
  destruct r; cbn; try reflexivity; apply IH.
Qed.

(* or3 / and3 are the C03 connectives: `A or B` evaluates exactly like or3 (eval A) (eval B) *)
Lemma c06_or3_is_or cfg ls a b d :
  eval cfg ls (EBin BOr a b) d = match eval cfg ls a d with Out true (Some e) => Out true (Some e) | o => or3 o (fun _ => eval cfg ls b d) end.
Proof. rewrite c03_or. destruct (Eval.eval re cfg ls a d) as [r [e|]|]; cbn; try reflexivity; try (destruct r; reflexivity). Qed.
End P.

(* ---------- C14: the order in which a map presents its keys is irrelevant once they are sorted ---------- *)
Lemma str_leb_total a : forall b, str_leb a b = true \/ str_leb b a = true.
Proof.
  induction a as [|x a IH]; intros [|y b]; cbn; auto.
  destruct (Z.ltb_spec (b2z x) (b2z y)); auto. destruct (Z.ltb_spec (b2z y) (b2z x)); auto; try apply IH.
Qed.
Lemma b2z_inj x y : b2z x = b2z y -> x = y.
Proof. unfold b2z. intros H. apply N2Z.inj in H. rewrite <- (ascii_N_embedding x), <- (ascii_N_embedding y), H. reflexivity. Qed.
Lemma str_leb_antisym a : forall b, str_leb a b = true -> str_leb b a = true -> a = b.
Proof.
  induction a as [|x a IH]; intros [|y b]; cbn; auto; try discriminate.
  destruct (Z.ltb_spec (b2z x) (b2z y)); destruct (Z.ltb_spec (b2z y) (b2z x)); try lia; try discriminate.
  intros H1 H2. f_equal; [apply b2z_inj; lia|apply IH; assumption].
Qed.
Lemma str_leb_trans a : forall b c, str_leb a b = true -> str_leb b c = true -> str_leb a c = true.
Proof.
  induction a as [|x a IH]; intros [|y b] [|z c]; cbn; auto; try discriminate.
  destruct (Z.ltb_spec (b2z x) (b2z y)); destruct (Z.ltb_spec (b2z y) (b2z z)); destruct (Z.ltb_spec (b2z x) (b2z z)); auto; try lia;
  destruct (Z.ltb_spec (b2z y) (b2z x)); destruct (Z.ltb_spec (b2z z) (b2z y)); destruct (Z.ltb_spec (b2z z) (b2z x)); try lia; try discriminate; auto.
  apply IH.
Qed.

Definition sleb a b : Prop := str_leb a b = true.
Lemma insert_sorted_perm k l : Permutation (k :: l) (insert_sorted k l).
Proof. induction l as [|h t IH]; cbn; auto. destruct (str_leb k h); auto. eapply perm_trans; [apply perm_swap|]. constructor. exact IH. Qed.
Lemma sort_keys_perm l : Permutation l (sort_keys l).
Proof. induction l as [|k l IH]; cbn; auto. eapply perm_trans; [|apply insert_sorted_perm]. constructor. exact IH. Qed.
Lemma insert_sorted_sorted k l : StronglySorted sleb l -> StronglySorted sleb (insert_sorted k l).
Proof.
  induction 1 as [|h t Hs IH Hh]; cbn; [repeat constructor|].
  destruct (str_leb k h) eqn:E.
  - constructor; [constructor; assumption|]. constructor; [exact E|].
    rewrite Forall_forall in *. intros x Hx. eapply str_leb_trans; [exact E|apply Hh; exact Hx].
  - constructor; [exact IH|]. destruct (str_leb_total k h) as [H|H]; [congruence|].
    rewrite Forall_forall in *. intros x Hx.
    apply (Permutation_in _ (Permutation_sym (insert_sorted_perm k t))) in Hx. destruct Hx as [<-|Hx]; [exact H|apply Hh; exact Hx].
Qed.
Lemma sort_keys_sorted l : StronglySorted sleb (sort_keys l).
Proof. induction l; cbn; [constructor|apply insert_sorted_sorted; assumption]. Qed.

Lemma sorted_perm_eq l : forall l', StronglySorted sleb l -> StronglySorted sleb l' -> Permutation l l' -> l = l'.
Proof.
  induction l as [|a l IH]; intros l' Hs Hs' Hp.
  - apply Permutation_nil in Hp. auto.
  - destruct l' as [|b l']; [apply Permutation_sym, Permutation_nil in Hp; discriminate|].
    inversion Hs as [|? ? Hsl Ha]; inversion Hs' as [|? ? Hsl' Hb]; subst.
    assert (a = b).
    { assert (In a (b :: l')) by (eapply Permutation_in; [exact Hp|left; reflexivity]).
      assert (In b (a :: l)) by (eapply Permutation_in; [apply Permutation_sym; exact Hp|left; reflexivity]).
      rewrite Forall_forall in Ha, Hb.
      destruct H as [->|Hin]; [reflexivity|]. destruct H0 as [->|Hin']; [reflexivity|].
      apply str_leb_antisym; [apply Ha; exact Hin'|apply Hb; exact Hin]. }
    subst b. f_equal. apply IH; auto. eapply Permutation_cons_inv; exact Hp.
Qed.

Theorem c14_sort_keys_order_free l l' : Permutation l l' -> sort_keys l = sort_keys l'.
Proof.
  intros Hp. apply sorted_perm_eq; try apply sort_keys_sorted.
  eapply perm_trans; [apply Permutation_sym, sort_keys_perm|]. eapply perm_trans; [exact Hp|apply sort_keys_perm].
Qed.

Print Assumptions c04_not_wrapper.
Print Assumptions c06_fold.
Print Assumptions c03_de_morgan_and.
Print Assumptions c14_sort_keys_order_free.
