(* C02 at the level of Evaluate: when the selector resolves to a scalar, `sel == lit` compares the literal, read in the
   value's own class (the strconv function, base and bit size tied to coerce.go by TieCoerce.v), with the value; `!=` is the
   negation; non-scalars are errors.  Together with the digit-list theorems of C02.v / C02b.v: a canonical decimal literal
   is true exactly of the value it denotes. *)
From Coq Require Import List ZArith String Bool NArith Lia.
Import ListNotations.
From Bexpr Require Import Base Strconv Ast Univ Eval C01 C02 C02b.
Open Scope string_scope.
Open Scope Z_scope.

Section E.
Variable re : string -> string -> option bool.

(* the selected value, after the single dereference Evaluate performs *)
Definition selects (cfg : config) (ls : locals) (s : selector) (d : iface) (v : iface) : Prop :=
  get_value cfg ls (spath s) d = Ok (GVal v).

Lemma eval_match_selected cfg ls s op raw d v : selects cfg ls s d v ->
  eval re cfg ls (EMatch s op raw) d = match_op re op raw v.
Proof. intros H. cbn [eval]. unfold selects in H. rewrite H. reflexivity. Qed.

(* plain (non-pointer, non json.Number) scalars *)
Definition plain (t : gtype) : Prop := is_json_number t = false /\ kind_of_type t <> KPtr.

Lemma match_op_eq_plain raw t x : plain t -> match_op re OpEq raw (Some (t, x)) = do_equal raw (Some (t, x)).
Proof.
  intros [Hj Hp]. unfold match_op, json_narrow.
  assert (E : (match x with VStr s => if is_json_number t then
                  match parse_int s 10 64 with POk z => Ok (Some (TInt I64, VInt z))
                  | PErr _ => match parse_float s 64 with POk b => Ok (Some (TF64, VF64 b)) | PErr _ => Err EJsonNumber end end
                  else Ok (Some (t, x)) | _ => Ok (Some (t, x)) end) = Ok (Some (t, x))).
  { destruct x; try reflexivity. rewrite Hj. reflexivity. }
  destruct x; try rewrite Hj; unfold r_indirect, kind_of; destruct (kind_of_type t) eqn:K; try reflexivity; congruence.
Qed.
Lemma match_op_neq_plain raw t x : plain t -> match_op re OpNeq raw (Some (t, x)) = negate (do_equal raw (Some (t, x))).
Proof.
  intros [Hj Hp]. unfold match_op, json_narrow.
  destruct x; try rewrite Hj; unfold r_indirect, kind_of; destruct (kind_of_type t) eqn:K; try reflexivity; congruence.
Qed.

Lemma jn_false t : sclass_of (kind_of_type t) <> SString -> is_json_number t = false.
Proof.
  intros H. destruct t as [| | | | | | | | | | |n u| | | | | |]; try reflexivity.
  destruct u; try reflexivity. exfalso. apply H. reflexivity.
Qed.
Lemma plain_of_class t c : sclass_of (kind_of_type t) = c -> c <> SString -> c <> SNone -> plain t.
Proof.
  intros Hc H1 H2. split; [apply jn_false; congruence|]. intros K. rewrite K in Hc. cbn in Hc. congruence.
Qed.

Local Transparent coerce.

Theorem c02_equal_int cfg ls s d t z lit : selects cfg ls s d (Some (t, VInt z)) -> sclass_of (kind_of_type t) = SInt ->
  eval re cfg ls (EMatch s OpEq (Some lit)) d =
    match parse_int lit 0 64 with POk y => Out (Z.eqb y z) None | PErr e => Out false (Some (perr_c e)) end.
Proof.
  intros Hs Hc. rewrite (eval_match_selected _ _ _ _ _ _ _ Hs).
  assert (Hp : plain t) by (apply (plain_of_class _ _ Hc); discriminate).
  rewrite (match_op_eq_plain _ _ _ Hp). unfold do_equal, coerce. cbn [kind_of]. rewrite Hc.
  destruct (parse_int lit 0 64); reflexivity.
Qed.

Theorem c02_equal_uint cfg ls s d t z lit : selects cfg ls s d (Some (t, VUint z)) -> sclass_of (kind_of_type t) = SUint ->
  eval re cfg ls (EMatch s OpEq (Some lit)) d =
    match parse_uint lit 0 64 with POk y => Out (Z.eqb y z) None | PErr e => Out false (Some (perr_c e)) end.
Proof.
  intros Hs Hc. rewrite (eval_match_selected _ _ _ _ _ _ _ Hs).
  assert (Hp : plain t) by (apply (plain_of_class _ _ Hc); discriminate).
  rewrite (match_op_eq_plain _ _ _ Hp). unfold do_equal, coerce. cbn [kind_of]. rewrite Hc.
  destruct (parse_uint lit 0 64); reflexivity.
Qed.

Theorem c02_equal_bool cfg ls s d t b lit : selects cfg ls s d (Some (t, VBool b)) -> sclass_of (kind_of_type t) = SBool ->
  eval re cfg ls (EMatch s OpEq (Some lit)) d =
    match parse_bool lit with POk y => Out (Bool.eqb y b) None | PErr e => Out false (Some (perr_c e)) end.
Proof.
  intros Hs Hc. rewrite (eval_match_selected _ _ _ _ _ _ _ Hs).
  assert (Hp : plain t) by (apply (plain_of_class _ _ Hc); discriminate).
  rewrite (match_op_eq_plain _ _ _ Hp). unfold do_equal, coerce. cbn [kind_of]. rewrite Hc.
  destruct (parse_bool lit); reflexivity.
Qed.

Theorem c02_equal_float64 cfg ls s d t x lit : selects cfg ls s d (Some (t, VF64 x)) -> sclass_of (kind_of_type t) = SF64 ->
  eval re cfg ls (EMatch s OpEq (Some lit)) d =
    match parse_float lit 64 with POk y => Out (feq y x 53 11) None | PErr e => Out false (Some (perr_c e)) end.
Proof.
  intros Hs Hc. rewrite (eval_match_selected _ _ _ _ _ _ _ Hs).
  assert (Hp : plain t) by (apply (plain_of_class _ _ Hc); discriminate).
  rewrite (match_op_eq_plain _ _ _ Hp). unfold do_equal, coerce. cbn [kind_of]. rewrite Hc.
  destruct (parse_float lit 64); reflexivity.
Qed.

Theorem c02_equal_float32 cfg ls s d t x lit : selects cfg ls s d (Some (t, VF32 x)) -> sclass_of (kind_of_type t) = SF32 ->
  eval re cfg ls (EMatch s OpEq (Some lit)) d =
    match parse_float lit 32 with POk y => Out (feq y x 24 8) None | PErr e => Out false (Some (perr_c e)) end.
Proof.
  intros Hs Hc. rewrite (eval_match_selected _ _ _ _ _ _ _ Hs).
  assert (Hp : plain t) by (apply (plain_of_class _ _ Hc); discriminate).
  rewrite (match_op_eq_plain _ _ _ Hp). unfold do_equal, coerce. cbn [kind_of]. rewrite Hc.
  destruct (parse_float lit 32); reflexivity.
Qed.

(* strings: the raw literal, byte for byte (also named string types; json.Number is narrowed first and excluded here) *)
Theorem c02_equal_string cfg ls s d t x lit : selects cfg ls s d (Some (t, VStr x)) -> sclass_of (kind_of_type t) = SString ->
  is_json_number t = false ->
  eval re cfg ls (EMatch s OpEq (Some lit)) d = Out (String.eqb lit x) None.
Proof.
  intros Hs Hc Hj. rewrite (eval_match_selected _ _ _ _ _ _ _ Hs).
  assert (Hp : plain t). { split; [exact Hj|]. intros K. rewrite K in Hc. discriminate. }
  rewrite (match_op_eq_plain _ _ _ Hp). unfold do_equal, coerce. cbn [kind_of]. rewrite Hc. reflexivity.
Qed.

(* != is the negation of == on every selected value *)
Theorem c02_not_equal cfg ls s d v lit : selects cfg ls s d v ->
  eval re cfg ls (EMatch s OpNeq (Some lit)) d = negate (eval re cfg ls (EMatch s OpEq (Some lit)) d).
Proof.
  intros Hs. rewrite !(eval_match_selected _ _ _ _ _ _ _ Hs). unfold match_op.
  destruct (json_narrow v); reflexivity.
Qed.

(* equality against a value that has no scalar class (nil, slice, map, struct, chan, func, complex, uintptr) is an error *)
Theorem c02_nonscalar_is_error cfg ls s d t x lit : selects cfg ls s d (Some (t, x)) -> plain t ->
  sclass_of (kind_of_type t) = SNone ->
  eval re cfg ls (EMatch s OpEq (Some lit)) d = Out false (Some ENoEquality).
Proof.
  intros Hs Hp Hc. rewrite (eval_match_selected _ _ _ _ _ _ _ Hs). rewrite (match_op_eq_plain _ _ _ Hp).
  unfold do_equal. cbn [kind_of]. rewrite Hc. reflexivity.
Qed.
Theorem c02_nil_is_error cfg ls s d lit : selects cfg ls s d None ->
  eval re cfg ls (EMatch s OpEq (Some lit)) d = Out false (Some ENoEquality).
Proof. intros Hs. rewrite (eval_match_selected _ _ _ _ _ _ _ Hs). reflexivity. Qed.

(* the literal that spells a number is true exactly of that number: canonical decimal numerals below 2^63 *)
Corollary c02_decimal_literal_int cfg ls s d t z ds : selects cfg ls s d (Some (t, VInt z)) -> sclass_of (kind_of_type t) = SInt ->
  canonical ds -> dval ds 0 < 2 ^ 63 ->
  eval re cfg ls (EMatch s OpEq (Some (dstr ds))) d = Out (Z.eqb (dval ds 0) z) None.
Proof. intros Hs Hc Hcan Hb. rewrite (c02_equal_int _ _ _ _ _ _ _ Hs Hc). rewrite (parse_int_dec_pos ds Hcan Hb). reflexivity. Qed.
Corollary c02_decimal_literal_out_of_range cfg ls s d t z ds : selects cfg ls s d (Some (t, VInt z)) -> sclass_of (kind_of_type t) = SInt ->
  canonical ds -> 2 ^ 63 <= dval ds 0 <= 2 ^ 64 - 1 ->
  eval re cfg ls (EMatch s OpEq (Some (dstr ds))) d = Out false (Some ECoerceRange).
Proof. intros Hs Hc Hcan Hb. rewrite (c02_equal_int _ _ _ _ _ _ _ Hs Hc). rewrite (parse_int_dec_overflow ds Hcan Hb). reflexivity. Qed.
End E.

(* ParseBool accepts exactly the twelve spellings *)
Definition go_parsebool_spellings : list (string * bool) :=
  [("1", true); ("t", true); ("T", true); ("TRUE", true); ("true", true); ("True", true);
   ("0", false); ("f", false); ("F", false); ("FALSE", false); ("false", false); ("False", false)].
Theorem parse_bool_table s b : parse_bool s = POk b <-> In (s, b) go_parsebool_spellings.
Proof.
  unfold parse_bool. split.
  - destruct (existsb (String.eqb s) ["1"; "t"; "T"; "TRUE"; "true"; "True"]) eqn:E1.
    + intros [= <-]. apply existsb_exists in E1. destruct E1 as [x [Hin Hx]]. apply String.eqb_eq in Hx. subst x.
      cbn in Hin. unfold go_parsebool_spellings. cbn. intuition (subst; auto 20).
    + destruct (existsb (String.eqb s) ["0"; "f"; "F"; "FALSE"; "false"; "False"]) eqn:E2; [|discriminate].
      intros [= <-]. apply existsb_exists in E2. destruct E2 as [x [Hin Hx]]. apply String.eqb_eq in Hx. subst x.
      cbn in Hin. unfold go_parsebool_spellings. cbn. intuition (subst; auto 20).
  - unfold go_parsebool_spellings. cbn. intros H.
    repeat (destruct H as [H|H]; [injection H as <- <-; reflexivity|]). destruct H.
Qed.
Print Assumptions c02_equal_int.
Print Assumptions parse_bool_table.
