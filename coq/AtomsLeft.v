(* Number literals as the value on the left of `in` / `not in` (AtomsSel.lval): with lval_of_qlit and lval_of_rlit this makes every
   literal style on which Selector fails at once - double-quoted, back-quoted, integer, negative, fractional - part of the family
   c16_final_parse ranges over for the membership operators. (A bare word on the left of `in` is read as a selector first and is
   covered by the correspondence only.) *)
From Coq Require Import List ZArith String Ascii Bool NArith Lia.
Import ListNotations.
From Bexpr Require Import Base Ast Unicode Peg Typing Actions GoGrammar Sem Term Lex Lex2 Lex3 Calc Calc2 Skel Top Atoms StrLit AtomsEq Spell C07 Ptr Coll AtomsIn Values Sels Num NumLit AtomsOp AtomsNotIn AtomsSel.
Open Scope string_scope.

Definition lval_of_number (sg ip fp : list cell) (Hsg : sign_part sg) (Hip : int_part ip) (Hfp : frac_part fp) : lval.
Proof.
  refine {| lv_v := of_number sg ip fp Hsg Hip Hfp |}.
  - intros k. cbn [of_number v_txt]. exact (selector_fails_on_number sg ip fp k Hsg Hip).
  - intros k. cbn [of_number v_txt]. destruct (num_head sg ip fp k Hsg Hip) as [c [rest [E Hc]]]. rewrite E. cbn. lia.
  - intros k. cbn [of_number v_txt]. destruct (num_head sg ip fp k Hsg Hip) as [c [rest [E Hc]]]. rewrite E. cbn. lia.
Defined.

(* the literal such an atom carries is the text of the number, and its rendering starts with that text *)
Lemma lval_of_number_lit sg ip fp Hsg Hip Hfp :
  v_lit (lv_v (lval_of_number sg ip fp Hsg Hip Hfp)) = cells_str (app sg (app ip fp)) /\
  v_txt (lv_v (lval_of_number sg ip fp Hsg Hip Hfp)) = app sg (app ip fp).
Proof. split; reflexivity. Qed.

Lemma lval_of_rlit_lit l : v_lit (lv_v (lval_of_rlit l)) = r_lit l /\ v_txt (lv_v (lval_of_rlit l)) = r_q l :: app (r_cs l) [r_q' l].
Proof. split; reflexivity. Qed.

(* the styles a left value can take: for each there is an lval with that text and that literal *)
Theorem left_values_exist :
  (forall l : qlit, exists v : lval, v_txt (lv_v v) = q_txt l /\ v_lit (lv_v v) = l_lit l) /\
  (forall l : rlit, exists v : lval, v_txt (lv_v v) = r_q l :: app (r_cs l) [r_q' l] /\ v_lit (lv_v v) = r_lit l) /\
  (forall sg ip fp, sign_part sg -> int_part ip -> frac_part fp ->
     exists v : lval, v_txt (lv_v v) = app sg (app ip fp) /\ v_lit (lv_v v) = cells_str (app sg (app ip fp))).
Proof.
  split; [|split].
  - intros l. exists (lval_of_qlit l). split; reflexivity.
  - intros l. exists (lval_of_rlit l). split; reflexivity.
  - intros sg ip fp Hsg Hip Hfp. exists (lval_of_number sg ip fp Hsg Hip Hfp). split; reflexivity.
Qed.

(* every such atom is read back as the membership test it renders: the instance of the atom obligation of c16_final_parse *)
Theorem left_value_membership_parse (a : matom) k : astop k ->
  spec (PRef "MatchExpression") (app (m_txt a) k) (VExpr (EMatch (s_val (m_sr a)) (if m_neg a then OpNotIn else OpIn) (Some (v_lit (lv_v (m_lit a)))))) k.
Proof. exact (m_parse a k). Qed.

(* concrete texts of the new styles, read by the engine on the regenerated table *)
Example raw_left_of_in : exists n,
  parse go_grammar None action_sem pred_sem 5000 "`x y` in m" = Accepted (VExpr (EMatch {| stype := SelBexpr; spath := ["m"] |} OpIn (Some "x y"))) n.
Proof. eexists. vm_compute. reflexivity. Qed.
Example number_left_of_not_in : exists n,
  parse go_grammar None action_sem pred_sem 5000 "-2.5 not in a.b" = Accepted (VExpr (EMatch {| stype := SelBexpr; spath := ["a"; "b"] |} OpNotIn (Some "-2.5"))) n.
Proof. eexists. vm_compute. reflexivity. Qed.
Print Assumptions left_value_membership_parse.
Print Assumptions left_values_exist.
