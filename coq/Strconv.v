From Coq Require Import List ZArith String Ascii Bool NArith.
Import ListNotations.
From Bexpr Require Import Base.
Open Scope string_scope.
Open Scope Z_scope.

Inductive perr := PSyntax | PRange.
Inductive pres (A : Type) := POk (a : A) | PErr (e : perr).
Arguments POk {A} a. Arguments PErr {A} e.

Definition lower (x : Z) : Z := if (65 <=? x) && (x <=? 90) then x + 32 else x.

(* strconv.underscoreOK *)
Fixpoint uok_loop (s : string) (hex : bool) (last : Z) : bool :=   (* last: 0 digit, 1 underscore, 2 other, 3 start *)
  match s with
  | "" => negb (last =? 1)
  | String c t =>
    let x := b2z c in
    if ((48 <=? x) && (x <=? 57)) || (hex && (97 <=? lower x) && (lower x <=? 102)) then uok_loop t hex 0
    else if x =? 95 then (if last =? 0 then uok_loop t hex 1 else false)
    else if last =? 1 then false else uok_loop t hex 2
  end.
Definition underscore_ok (s : string) : bool :=
  let s := match s with String c t => if (b2z c =? 45) || (b2z c =? 43) then t else s | _ => s end in
  match s with
  | String z (String p t) =>
      let lp := lower (b2z p) in
      if (b2z z =? 48) && ((lp =? 98) || (lp =? 111) || (lp =? 120)) then uok_loop t (lp =? 120) 0
      else uok_loop s false 3
  | _ => uok_loop s false 3
  end.

(* digit loop of ParseUint: stops at the first overflow *)
Fixpoint pu_loop (s : string) (base maxv : Z) (base0 : bool) (n : Z) (us : bool) : pres (Z * bool) :=
  match s with
  | "" => POk (n, us)
  | String c t =>
    let x := b2z c in
    if (x =? 95) && base0 then pu_loop t base maxv base0 n true else
    let d := if (48 <=? x) && (x <=? 57) then x - 48
             else if (97 <=? lower x) && (lower x <=? 122) then lower x - 97 + 10 else 99 in
    if base <=? d then PErr PSyntax else
    let n1 := n * base + d in
    if maxv <? n1 then PErr PRange else pu_loop t base maxv base0 n1 us
  end.

Definition parse_uint (s : string) (base0 : Z) (bits : Z) : pres Z :=
  match s with
  | "" => PErr PSyntax
  | String c0 t0 =>
    let maxv := 2 ^ bits - 1 in
    let '(base, digits) :=
      if base0 =? 0 then
        if b2z c0 =? 48 then
          match t0 with
          | String p (String _ _ as r) =>
              let lp := lower (b2z p) in
              if lp =? 98 then (2, stail t0) else if lp =? 111 then (8, stail t0) else if lp =? 120 then (16, stail t0) else (8, t0)
          | _ => (8, t0)
          end
        else (10, s)
      else (base0, s) in
    match pu_loop digits base maxv (base0 =? 0) 0 false with
    | POk (n, us) => if us && negb (underscore_ok s) then PErr PSyntax else POk n
    | PErr e => PErr e
    end
  end.

Definition parse_int (s : string) (base0 : Z) (bits : Z) : pres Z :=
  match s with
  | "" => PErr PSyntax
  | String c t =>
    let neg := b2z c =? 45 in
    let body := if (b2z c =? 43) || neg then t else s in
    match parse_uint body base0 bits with
    | PErr PSyntax => PErr PSyntax
    | PErr PRange => PErr PRange
    | POk un =>
      let cutoff := 2 ^ (bits - 1) in
      if negb neg && (cutoff <=? un) then PErr PRange
      else if neg && (cutoff <? un) then PErr PRange
      else POk (if neg then - un else un)
    end
  end.

Definition parse_bool (s : string) : pres bool :=
  if existsb (String.eqb s) ["1"; "t"; "T"; "TRUE"; "true"; "True"] then POk true
  else if existsb (String.eqb s) ["0"; "f"; "F"; "FALSE"; "false"; "False"] then POk false
  else PErr PSyntax.

(* ---- ParseFloat: decimal mantissa/exponent, correctly rounded (round half to even), to p bits / emin ---- *)
(* result as IEEE bit pattern *)
Fixpoint digits_val (s : string) (acc : Z) (nd : Z) : option (Z * Z * string) :=   (* value, count, rest *)
  match s with
  | String c t => let x := b2z c in if (48 <=? x) && (x <=? 57) then digits_val t (acc * 10 + (x - 48)) (nd + 1) else Some (acc, nd, s)
  | "" => Some (acc, nd, "")
  end.

(* round the positive rational n/d to a float with precision p, minimum exponent emin (of the ulp), max exponent emax;
   returns (mantissa, exponent) with value m * 2^e, or None for overflow *)
Definition round_rat (n d : Z) (p emin emaxe : Z) : option (Z * Z) :=
  if n =? 0 then Some (0, emin) else
  (* e such that 2^(p-1) <= n/d / 2^e < 2^p, approximately via log2 *)
  let e0 := Z.log2 n - Z.log2 d - p in
  let fix adjust (k : nat) (e : Z) : Z :=
    match k with O => e | S k' =>
      let q := if 0 <=? e then n / (d * 2 ^ e) else (n * 2 ^ (- e)) / d in
      if q <? 2 ^ (p - 1) then adjust k' (e - 1) else if 2 ^ p <=? q then adjust k' (e + 1) else e end in
  let e := Z.max (adjust 4%nat e0) emin in
  let num := if 0 <=? e then n else n * 2 ^ (- e) in
  let den := if 0 <=? e then d * 2 ^ e else d in
  let q := num / den in
  let r := num mod den in
  let q' := if (den <? 2 * r) || ((2 * r =? den) && Z.odd q) then q + 1 else q in
  let '(m, e') := if 2 ^ p <=? q' then (q' / 2, e + 1) else (q', e) in
  if emaxe <? e' then None else Some (m, e').

Definition float_bits (neg : bool) (me : option (Z * Z)) (p ebits : Z) : Z :=
  let bias := 2 ^ (ebits - 1) - 1 in
  let signbit := if neg then 2 ^ (p - 1 + ebits) else 0 in
  match me with
  | None => signbit + (2 ^ ebits - 1) * 2 ^ (p - 1)                        (* infinity *)
  | Some (m, e) =>
    if m <? 2 ^ (p - 1) then signbit + m                                      (* zero / subnormal: e = emin *)
    else signbit + (e + bias + (p - 1)) * 2 ^ (p - 1) + (m - 2 ^ (p - 1))
  end.

Fixpoint lower_str (s : string) : string := match s with "" => "" | String c t => String (z2b (lower (b2z c))) (lower_str t) end.

Fixpoint has_us (s : string) : bool := match s with "" => false | String c t => (b2z c =? 95) || has_us t end.
Fixpoint strip_us (s : string) : string := match s with "" => "" | String c t => if b2z c =? 95 then strip_us t else String c (strip_us t) end.

Fixpoint hexdigits_val (s : string) (acc : Z) (nd : Z) : Z * Z * string :=   (* value, count, rest *)
  match s with
  | String c t =>
      let x := lower (b2z c) in
      if (48 <=? x) && (x <=? 57) then hexdigits_val t (acc * 16 + (x - 48)) (nd + 1)
      else if (97 <=? x) && (x <=? 102) then hexdigits_val t (acc * 16 + (x - 87)) (nd + 1)
      else (acc, nd, s)
  | "" => (acc, nd, "")
  end.

(* exponent part after the exponent character: optional sign, at least one decimal digit, nothing after it *)
Definition exp_part (r : string) : option Z :=
  match r with
  | String sg r' =>
      let eneg := b2z sg =? 45 in
      let r'' := if (b2z sg =? 43) || eneg then r' else r in
      match digits_val r'' 0 0 with
      | Some (v, k, rr) => if (k =? 0) || negb (String.eqb rr "") then None else Some (if eneg then - v else v)
      | None => None end
  | "" => None
  end.

(* readFloat + atof (decimal) / atofHex, without underscores: exact value, then one correct rounding.
   Exponents beyond any representable magnitude are decided without computing the power. *)
(* the exact rational a literal denotes (decimal: mant * 10^e10, hexadecimal: mant * 2^e2), rounded once *)
Definition dec_round (mant e10 p emin emaxe : Z) : option (Z * Z) :=
  let '(n, d) := if 0 <=? e10 then (mant * 10 ^ e10, 1) else (mant, 10 ^ (- e10)) in round_rat n d p emin emaxe.
Definition hex_round (mant e2 p emin emaxe : Z) : option (Z * Z) :=
  let '(n, d) := if 0 <=? e2 then (mant * 2 ^ e2, 1) else (mant, 2 ^ (- e2)) in round_rat n d p emin emaxe.

Definition parse_float_core (s : string) (bits : Z) : pres Z :=
  let '(p, ebits) := if bits =? 32 then (24, 8) else (53, 11) in
  let bias := 2 ^ (ebits - 1) - 1 in
  let emin := 1 - bias - (p - 1) in
  let emaxe := bias - (p - 1) in
  let zero neg := POk (float_bits neg (Some (0, emin)) p ebits) in
  match s with
  | "" => PErr PSyntax
  | String c t =>
    let neg := b2z c =? 45 in
    let body := if (b2z c =? 43) || neg then t else s in
    let is_hex := match body with String z (String x (String _ _)) => (b2z z =? 48) && (lower (b2z x) =? 120) | _ => false end in
    if is_hex then
      let '(ip, ni, rest) := hexdigits_val (stail (stail body)) 0 0 in
      let '(fp, nf, rest2) :=
        match rest with
        | String dot r => if b2z dot =? 46 then hexdigits_val r 0 0 else (0, 0, rest)
        | "" => (0, 0, "") end in
      if (ni + nf =? 0) then PErr PSyntax else
      match rest2 with
      | String pc r =>
        if lower (b2z pc) =? 112 then
          match exp_part r with
          | None => PErr PSyntax
          | Some ex =>
            let mant := ip * 16 ^ nf + fp in
            let e2 := ex - 4 * nf in
            if mant =? 0 then zero neg
            else if 1100 <? e2 + Z.log2 mant then PErr PRange
            else if e2 + Z.log2 mant <? -1200 then zero neg
            else
              match hex_round mant e2 p emin emaxe with
              | None => PErr PRange
              | Some me => POk (float_bits neg (Some me) p ebits)
              end
          end
        else PErr PSyntax
      | "" => PErr PSyntax       (* a hexadecimal mantissa must have a p exponent *)
      end
    else
    match digits_val body 0 0 with
    | None => PErr PSyntax
    | Some (ip, ni, rest) =>
      let '(fp, nf, rest2) :=
        match rest with
        | String dot r => if b2z dot =? 46 then match digits_val r 0 0 with Some (v, k, r') => (v, k, r') | None => (0, 0, r) end else (0, 0, rest)
        | "" => (0, 0, "") end in
      if (ni + nf =? 0) then PErr PSyntax else
      let mant := ip * 10 ^ nf + fp in
      let exo :=
        match rest2 with
        | String e r => if lower (b2z e) =? 101 then exp_part r else None
        | "" => Some 0 end in
      match exo with
      | None => PErr PSyntax
      | Some ex =>
        let e10 := ex - nf in
        if mant =? 0 then zero neg
        else if 310 <? e10 then PErr PRange
        else if Z.log2 mant + 1 + 3 * e10 <? -1100 then zero neg
        else
          match dec_round mant e10 p emin emaxe with
          | None => PErr PRange
          | Some me => POk (float_bits neg (Some me) p ebits)
          end
      end
    end
  end.

(* underscores may separate digits (strconv.underscoreOK); they do not change the value *)
Definition parse_float_num (s : string) (bits : Z) : pres Z :=
  if has_us s then (if underscore_ok s then parse_float_core (strip_us s) bits else PErr PSyntax)
  else parse_float_core s bits.

Definition parse_float (s : string) (bits : Z) : pres Z :=
  let '(p, ebits) := if bits =? 32 then (24, 8) else (53, 11) in
  match s with
  | "" => PErr PSyntax
  | String c t =>
    let neg := b2z c =? 45 in
    let signed := (b2z c =? 43) || neg in
    let body := lower_str (if signed then t else s) in
    if String.eqb body "inf" || String.eqb body "infinity" then POk (float_bits neg None p ebits)
    else if String.eqb body "nan" && negb signed then POk (float_bits false None p ebits + 2 ^ (p - 2) + (if bits =? 32 then 0 else 1))
    else parse_float_num s bits
  end.

(* IEEE == on bit patterns *)
Definition f_is_nan (b p ebits : Z) : bool :=
  let ex := (b / 2 ^ (p - 1)) mod 2 ^ ebits in let fr := b mod 2 ^ (p - 1) in (ex =? 2 ^ ebits - 1) && negb (fr =? 0).
Definition feq (a b p ebits : Z) : bool :=
  if f_is_nan a p ebits || f_is_nan b p ebits then false
  else let mag x := x mod 2 ^ (p - 1 + ebits) in
       if (mag a =? 0) && (mag b =? 0) then true else a =? b.
