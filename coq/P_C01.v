(* Property C01 - Evaluate returns what the expression denotes. Core: the semantic laws of the documented semantics as theorems about the validated model (selector steps, operators, representation transparency). Statements only (proofs: C01.v). *)
From Coq Require Import List String ZArith NArith Bool. From Bexpr Require Import Base Strconv Ast Univ Eval C01. Import ListNotations.

Theorem step_map_hit :
  forall (cfg : config) (part : string) (t : gtype) (n : bool) (kvs : list (gval * gval)) (k v : gval),
  kind_of_type t = KMap ->
  coerce_key part (key_type t) = Ok k ->
  map_find (key_type t) k kvs = Some v -> get_step cfg part (Some (t, VMap n kvs)) = Ok (Some (elem_type t, v)).
Proof. exact C01.step_map_hit. Qed.
Print Assumptions step_map_hit.

Theorem step_map_miss :
  forall (cfg : config) (part : string) (t : gtype) (n : bool) (kvs : list (gval * gval)) (k : gval),
  kind_of_type t = KMap ->
  coerce_key part (key_type t) = Ok k -> map_find (key_type t) k kvs = None -> get_step cfg part (Some (t, VMap n kvs)) = Err ENotFound.
Proof. exact C01.step_map_miss. Qed.
Print Assumptions step_map_miss.

Theorem step_index :
  forall (cfg : config) (part : string) (t : gtype) (n : bool) (l : list gval) (i : Z) (x : gval),
  kind_of_type t = KSlice ->
  parse_int (weak_str part) 0 64 = POk i ->
  0 <= i -> nth_error l (Z.to_nat i) = Some x -> get_step cfg part (Some (t, VSlice n l)) = Ok (Some (elem_type t, x)).
Proof. exact C01.step_index. Qed.
Print Assumptions step_index.

Theorem step_index_out_of_range :
  forall (cfg : config) (part : string) (t : gtype) (n : bool) (l : list gval) (i : Z),
  kind_of_type t = KSlice ->
  parse_int (weak_str part) 0 64 = POk i ->
  i < 0 \/ Z.of_nat (Datatypes.length l) <= i -> get_step cfg part (Some (t, VSlice n l)) = Err EOutOfRange.
Proof. exact C01.step_index_out_of_range. Qed.
Print Assumptions step_index_out_of_range.

Theorem step_scalar_is_error :
  forall (cfg : config) (part : string) (t : gtype) (v : gval),
  kind_of_type t <> KInterface ->
  kind_of_type t <> KPtr ->
  match v with
  | VSlice _ _ | VArray _ | VMap _ _ | VStruct _ => False
  | _ => True
  end -> get_step cfg part (Some (t, v)) = Err EInvalidKind.
Proof. exact C01.step_scalar_is_error. Qed.
Print Assumptions step_scalar_is_error.

Theorem step_through_pointer :
  forall (cfg : config) (part : string) (t : gtype) (v : gval),
  kind_of_type t <> KInterface -> kind_of_type t <> KPtr -> get_step cfg part (Some (TPtr t, VPtr v)) = get_step cfg part (Some (t, v)).
Proof. exact C01.step_through_pointer. Qed.
Print Assumptions step_through_pointer.

Theorem step_through_iface :
  forall (cfg : config) (part : string) (dyn : gtype) (v : gval),
  dyn <> TIface -> kind_of_type dyn <> KInterface -> get_step cfg part (Some (TIface, VIface dyn v)) = get_step cfg part (Some (dyn, v)).
Proof. exact C01.step_through_iface. Qed.
Print Assumptions step_through_iface.

Theorem match_op_through_pointer :
  forall (re : string -> string -> option bool) (op : matchop) (raw : option string) (t : gtype) (v : gval),
  kind_of_type t <> KPtr -> is_json_number t = false -> match_op re op raw (Some (TPtr t, VPtr v)) = match_op re op raw (Some (t, v)).
Proof. exact C01.match_op_through_pointer. Qed.
Print Assumptions match_op_through_pointer.

Theorem do_equal_named :
  forall (raw : option string) (n : string) (u : gtype) (v : gval),
  is_json_number (TNamed n u) = false -> do_equal raw (Some (TNamed n u, v)) = do_equal raw (Some (u, v)).
Proof. exact C01.do_equal_named. Qed.
Print Assumptions do_equal_named.

Theorem equal_int_spec :
  forall (raw : string) (w : iw) (z : Z),
  do_equal (Some raw) (Some (TInt w, VInt z)) =
  match parse_int raw 0 64 with
  | POk y => Out (y =? z)%Z None
  | PErr e => Out false (Some (perr_c e))
  end.
Proof. exact C01.equal_int_spec. Qed.
Print Assumptions equal_int_spec.

Theorem equal_string_spec :
  forall raw s : string, do_equal (Some raw) (Some (TString, VStr s)) = Out (raw =? s) None.
Proof. exact C01.equal_string_spec. Qed.
Print Assumptions equal_string_spec.

Theorem in_string_spec :
  forall raw s : string, do_in (Some raw) (Some (TString, VStr s)) = Out (str_contains s raw) None.
Proof. exact C01.in_string_spec. Qed.
Print Assumptions in_string_spec.

Theorem is_empty_list_spec :
  forall (t : gtype) (n : bool) (l : list gval),
  kind_of_type t = KSlice -> do_is_empty (Some (t, VSlice n l)) = Out (Datatypes.length l =? 0)%nat None.
Proof. exact C01.is_empty_list_spec. Qed.
Print Assumptions is_empty_list_spec.


(* ---- ties to the constant tables regenerated from the Go sources (tools/gotables -> GoTables.v) ---- *)
From Coq Require Import List String ZArith NArith Bool. From Bexpr Require Import Base Strconv Ast Univ Eval Api Dump GoTables TableTie . Import ListNotations.

Theorem enum_order :
  go_enum_MatchOperator = map mop_go all_mops /\
  go_enum_BinaryOperator = ["BinaryOpAnd"; "BinaryOpOr"] /\ go_enum_UnaryOperator = ["UnaryOpNot"].
Proof. exact TableTie.enum_order. Qed.
Print Assumptions enum_order.


(* ---- JSON documents: Evaluate is the documented interpreter (Json.v, JsonOps.v, JsonEval.v) ---- *)
From Coq Require Import List String ZArith NArith Bool. From Bexpr Require Import Base Strconv Ast Univ Eval Typing Lexical LexEval Json JsonOps JsonEval. Import ListNotations.

Theorem get_json :
  forall (cfg : config) (path : list string) (j : json),
  hook cfg = None ->
  get cfg path (doc j) =
  match jwalk path j with
  | JFound x => Ok (doc x)
  | JNotFound => Err ENotFound
  | JOutOfRange => Err EOutOfRange
  | JBadIndex => Err EConvert
  | JInvalidKind => Err EInvalidKind
  end.
Proof. exact Json.get_json. Qed.
Print Assumptions get_json.

Theorem walk_example :
  jwalk ["a"; "b"; "1"] (JObj [("a", JObj [("b", JArr [JNum 0; JStr "x"])])]) = JFound (JStr "x").
Proof. exact Json.walk_example. Qed.
Print Assumptions walk_example.

Theorem match_op_json :
  forall (re : string -> string -> option bool) (op : matchop) (raw : option string) (j : json),
  (has_value op = true -> raw <> None) -> match_op re op raw (doc j) <> Panic /\ clean (match_op re op raw (doc j)) = jmatch re op raw j.
Proof. exact JsonOps.match_op_json. Qed.
Print Assumptions match_op_json.

Theorem json_eval :
  forall (re : string -> string -> option bool) (cfg : config) (e : expr) (root : json),
  hook cfg = None ->
  unknown cfg = None -> wf_ast e -> eval re cfg [] e (doc root) <> Panic /\ clean (eval re cfg [] e (doc root)) = jeval re None [] e root.
Proof. exact JsonEval.json_eval. Qed.
Print Assumptions json_eval.

Theorem json_eval_unknown :
  forall (re : string -> string -> option bool) (unk : option json) (cfg : config) (e : expr) (root : json),
  hook cfg = None ->
  unknown cfg = option_map doc unk ->
  wf_ast e -> eval re cfg [] e (doc root) <> Panic /\ clean (eval re cfg [] e (doc root)) = jeval re unk [] e root.
Proof. exact JsonEval.json_eval_unknown. Qed.
Print Assumptions json_eval_unknown.

Theorem json_eval_example :
  let root := JObj [("items", JArr [JObj [("n", JNum 0); ("tags", JArr [JStr "a"])]; JObj [("n", JNum 0)]]); ("name", JStr "x")] in
  let e :=
    EBin BAnd (EMatch {| stype := SelBexpr; spath := ["name"] |} OpEq (Some "x"))
      (EColl CAny {| stype := SelBexpr; spath := ["items"] |} {| bmode := BDefault; bdefault := "it"; bindex := ""; bvalue := "" |}
         (EMatch {| stype := SelBexpr; spath := ["it"; "tags"] |} OpIsEmpty None)) in
  jeval (fun _ _ : string => None) None [] e root = Some true.
Proof. exact JsonEval.json_eval_example. Qed.
Print Assumptions json_eval_example.
