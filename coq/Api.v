From Coq Require Import List ZArith String Ascii Bool NArith Lia.
Import ListNotations.
From Bexpr Require Import Base Strconv Ast Univ Eval.
Open Scope string_scope.

(* ---------- functional options (options.go) ---------- *)
Inductive opt :=
| OMaxExpr (n : N) | OTagName (s : string) | OHook (h : option (rv -> rv)) | OUnknown (v : iface)
| OLocal (name : string) (b : lbind) | ONil.
Record opts := { o_max : N; o_tag : string; o_hook : option (rv -> rv); o_unknown : option iface; o_locals : list (string * lbind) }.
Definition default_opts : opts := {| o_max := 0; o_tag := "bexpr"; o_hook := None; o_unknown := None; o_locals := [] |}.
Definition apply_opt (o : opts) (x : opt) : opts :=
  match x with
  | OMaxExpr n => {| o_max := n; o_tag := o_tag o; o_hook := o_hook o; o_unknown := o_unknown o; o_locals := o_locals o |}
  | OTagName s => {| o_max := o_max o; o_tag := s; o_hook := o_hook o; o_unknown := o_unknown o; o_locals := o_locals o |}
  | OHook h => {| o_max := o_max o; o_tag := o_tag o; o_hook := h; o_unknown := o_unknown o; o_locals := o_locals o |}
  | OUnknown v => {| o_max := o_max o; o_tag := o_tag o; o_hook := o_hook o; o_unknown := Some v; o_locals := o_locals o |}
  | OLocal n b => {| o_max := o_max o; o_tag := o_tag o; o_hook := o_hook o; o_unknown := o_unknown o; o_locals := app (o_locals o) [(n, b)] |}
  | ONil => o
  end.
Definition get_opts (l : list opt) : opts := fold_left apply_opt l default_opts.

Inductive okind := KMax | KTag | KHk | KUnk | KLoc | KNone.
Definition kind_of_opt (x : opt) : okind :=
  match x with OMaxExpr _ => KMax | OTagName _ => KTag | OHook _ => KHk | OUnknown _ => KUnk | OLocal _ _ => KLoc | ONil => KNone end.

(* ---------- Evaluator (bexpr.go) ---------- *)
Record evaluator := { ev_ast : expr; ev_tag : string; ev_hook : option (rv -> rv); ev_unknown : option iface; ev_src : string }.

Section Api.
Variable re : string -> string -> option bool.
Variable parse : option N -> string -> option expr.     (* grammar.Parse with an optional budget; None = error *)

Definition create (src : string) (os : list opt) : option evaluator :=
  let o := get_opts os in
  match parse (if N.eqb (o_max o) 0 then None else Some (o_max o)) src with
  | Some ast => Some {| ev_ast := ast; ev_tag := o_tag o; ev_hook := o_hook o; ev_unknown := o_unknown o; ev_src := src |}
  | None => None
  end.

(* Evaluate re-issues the stored settings as options on every call *)
Definition reissued (ev : evaluator) : list opt :=
  app [OTagName (ev_tag ev); OHook (ev_hook ev)] (match ev_unknown ev with Some u => [OUnknown u] | None => [] end).
Definition cfg_of (o : opts) : config := {| tagname := o_tag o; hook := o_hook o; unknown := o_unknown o |}.
Definition evaluate (ev : evaluator) (d : iface) : outcome :=
  let o := get_opts (reissued ev) in eval re (cfg_of o) (rev (o_locals o)) (ev_ast ev) d.
Definition expression (ev : evaluator) : string := ev_src ev.

(* ---------- Filter (filter.go), repaired ---------- *)
Inductive exres :=
| FSlice (t : gtype) (kept : list gval)
| FMap (t : gtype) (kept : list (gval * gval))
| FData (d : iface)              (* nil filter: the input itself *)
| FErr (e : option errc)         (* None = "Only slices, arrays and maps are filterable" *)
| FPanic.

Fixpoint filter_list (ev : evaluator) (et : gtype) (l : list gval) (acc : list gval) : list gval + (option errc + unit) :=
  match l with
  | [] => inl (rev acc)
  | x :: r => match evaluate ev (r_interface (Some (et, x))) with
              | Panic => inr (inr tt)
              | Out _ (Some e) => inr (inl (Some e))
              | Out true None => filter_list ev et r (x :: acc)
              | Out false None => filter_list ev et r acc
              end
  end.
Fixpoint filter_map (ev : evaluator) (et : gtype) (l : list (gval * gval)) (acc : list (gval * gval)) : list (gval * gval) + (option errc + unit) :=
  match l with
  | [] => inl (rev acc)
  | (k, x) :: r => match evaluate ev (r_interface (Some (et, x))) with
                   | Panic => inr (inr tt)
                   | Out _ (Some e) => inr (inl (Some e))
                   | Out true None => filter_map ev et r ((k, x) :: acc)
                   | Out false None => filter_map ev et r acc
                   end
  end.

Definition execute (f : option evaluator) (data : iface) : exres :=
  match f with
  | None => FData data
  | Some ev =>
    match data with
    | Some (t, VSlice _ l) =>
        match kind_of_type t with
        | KSlice => match filter_list ev (elem_type t) l [] with inl k => FSlice t k | inr (inl e) => FErr e | inr (inr _) => FPanic end
        | _ => FErr None end
    | Some (t, VArray l) =>
        match kind_of_type t with
        | KArray => match filter_list ev (elem_type t) l [] with inl k => FSlice (TSlice (elem_type t)) k | inr (inl e) => FErr e | inr (inr _) => FPanic end
        | _ => FErr None end
    | Some (t, VMap _ kvs) =>
        match kind_of_type t with
        | KMap => match filter_map ev (elem_type t) kvs [] with inl k => FMap t k | inr (inl e) => FErr e | inr (inr _) => FPanic end
        | _ => FErr None end
    | _ => FErr None
    end
  end.

(* ================= theorems ================= *)

(* C18: distinct options commute, the last of repeated options wins *)
Lemma apply_commute o x y : kind_of_opt x <> kind_of_opt y -> apply_opt (apply_opt o x) y = apply_opt (apply_opt o y) x.
Proof. destruct x, y; cbn; intros H; try reflexivity; congruence. Qed.

Lemma fold_apply_commute l : forall o x y, kind_of_opt x <> kind_of_opt y ->
  fold_left apply_opt l (apply_opt (apply_opt o x) y) = fold_left apply_opt l (apply_opt (apply_opt o y) x).
Proof. intros o x y H. rewrite (apply_commute o x y H). reflexivity. Qed.

Theorem c18_commute l x y r : kind_of_opt x <> kind_of_opt y ->
  get_opts (app l (x :: y :: r)) = get_opts (app l (y :: x :: r)).
Proof. intros H. unfold get_opts. rewrite !fold_left_app. cbn [fold_left]. apply fold_apply_commute. exact H. Qed.

Definition same_scalar_kind (x y : opt) : bool :=
  match x, y with OMaxExpr _, OMaxExpr _ | OTagName _, OTagName _ | OHook _, OHook _ | OUnknown _, OUnknown _ => true | _, _ => false end.
Lemma apply_last_wins o x y : same_scalar_kind x y = true -> apply_opt (apply_opt o x) y = apply_opt o y.
Proof. destruct x, y; cbn; intros H; try discriminate; reflexivity. Qed.
Theorem c18_last_wins l x y r : same_scalar_kind x y = true -> get_opts (app l (x :: y :: r)) = get_opts (app l (y :: r)).
Proof. intros H. unfold get_opts. rewrite !fold_left_app. cbn [fold_left]. rewrite (apply_last_wins _ x y H). reflexivity. Qed.

Theorem c18_nil_option_ignored l r : get_opts (app l (ONil :: r)) = get_opts (app l r).
Proof. unfold get_opts. rewrite !fold_left_app. reflexivity. Qed.

(* every creation-time setting reaches every Evaluate, and nothing else does *)
Theorem c18_reissue src os ev d : create src os = Some ev ->
  evaluate ev d = eval re {| tagname := o_tag (get_opts os); hook := o_hook (get_opts os); unknown := o_unknown (get_opts os) |} [] (ev_ast ev) d.
Proof.
  unfold create. destruct (parse _ src) as [ast|]; [|discriminate]. intros [= <-]. unfold evaluate, reissued. cbn [ev_tag ev_hook ev_unknown ev_ast].
  destruct (o_unknown (get_opts os)); reflexivity.
Qed.

(* neutral settings *)
Theorem c18_neutral_tag os : o_tag (get_opts os) = "bexpr" -> get_opts (app os [OTagName "bexpr"]) = get_opts os.
Proof. unfold get_opts. rewrite fold_left_app. cbn. intros H. destruct (fold_left apply_opt os default_opts); cbn in *. subst. reflexivity. Qed.
Theorem c18_neutral_budget_zero src os : o_max (get_opts os) = 0%N -> create src (app os [OMaxExpr 0]) = create src os.
Proof.
  intros H. unfold create, get_opts in *. rewrite fold_left_app. cbn [fold_left apply_opt o_max o_tag o_hook o_unknown].
  rewrite H. reflexivity.
Qed.
Theorem c18_default_tag : o_tag (get_opts []) = "bexpr" /\ o_max (get_opts []) = 0%N /\ o_unknown (get_opts []) = None.
Proof. repeat split. Qed.

(* C13: an evaluator carries no state: the outcome of a call does not depend on earlier calls; Expression() returns the source *)
Definition run_history (ev : evaluator) (calls : list iface) : list outcome := map (evaluate ev) calls.
Theorem c13_history_independent ev calls d : last (run_history ev (app calls [d])) Panic = evaluate ev d.
Proof. unfold run_history. rewrite map_app. cbn. apply last_last. Qed.
Theorem c13_expression src os ev : create src os = Some ev -> expression ev = src.
Proof. unfold create. destruct (parse _ src); [|discriminate]. intros [= <-]. reflexivity. Qed.

(* C17: Execute keeps exactly the elements on which Evaluate is true, in order *)
Definition is_true (o : outcome) : bool := match o with Out true None => true | _ => false end.
Definition clean (o : outcome) : bool := match o with Out _ None => true | _ => false end.

Lemma filter_list_spec ev et l : forall acc,
  forallb (fun x => clean (evaluate ev (r_interface (Some (et, x))))) l = true ->
  filter_list ev et l acc = inl (app (rev acc) (filter (fun x => is_true (evaluate ev (r_interface (Some (et, x))))) l)).
Proof.
  induction l as [|x l IH]; intros acc H; cbn [filter_list filter forallb] in *; [rewrite app_nil_r; reflexivity|].
  apply andb_prop in H. destruct H as [Hx Hl].
  destruct (evaluate ev (r_interface (Some (et, x)))) as [[|] [e|]|]; cbn in Hx; try discriminate; cbn [is_true].
  - rewrite (IH (x :: acc) Hl). cbn [rev]. rewrite <- app_assoc. reflexivity.
  - apply IH. exact Hl.
Qed.

Lemma filter_list_error ev et l : forall acc,
  forallb (fun x => clean (evaluate ev (r_interface (Some (et, x))))) l = false ->
  exists r, filter_list ev et l acc = inr r.
Proof.
  induction l as [|x l IH]; intros acc H; cbn [filter_list forallb] in *; [discriminate|].
  destruct (evaluate ev (r_interface (Some (et, x)))) as [[|] [e|]|]; cbn in H; eauto.
Qed.

Theorem c17_slice ev t n l : kind_of_type t = KSlice ->
  forallb (fun x => clean (evaluate ev (r_interface (Some (elem_type t, x))))) l = true ->
  execute (Some ev) (Some (t, VSlice n l)) =
    FSlice t (filter (fun x => is_true (evaluate ev (r_interface (Some (elem_type t, x))))) l).
Proof. intros Hk H. cbn [execute]. rewrite Hk, (filter_list_spec ev (elem_type t) l [] H). reflexivity. Qed.

Theorem c17_array_becomes_slice ev t l : kind_of_type t = KArray ->
  forallb (fun x => clean (evaluate ev (r_interface (Some (elem_type t, x))))) l = true ->
  execute (Some ev) (Some (t, VArray l)) =
    FSlice (TSlice (elem_type t)) (filter (fun x => is_true (evaluate ev (r_interface (Some (elem_type t, x))))) l).
Proof. intros Hk H. cbn [execute]. rewrite Hk, (filter_list_spec ev (elem_type t) l [] H). reflexivity. Qed.

Theorem c17_nil_filter data : execute None data = FData data.
Proof. reflexivity. Qed.

Theorem c17_non_container_is_error ev d :
  (match d with Some (_, VSlice _ _) | Some (_, VArray _) | Some (_, VMap _ _) => False | _ => True end) ->
  execute (Some ev) d = FErr None.
Proof. destruct d as [[t v]|]; [|reflexivity]. destruct v; cbn; try reflexivity; contradiction. Qed.

(* idempotence: filtering the result again changes nothing *)
Lemma filter_idem {A} (p : A -> bool) l : filter p (filter p l) = filter p l.
Proof. induction l as [|x l IH]; cbn; [reflexivity|]. destruct (p x) eqn:E; cbn; [rewrite E, IH|]; auto. Qed.

Theorem c17_idempotent ev t n l kept : kind_of_type t = KSlice ->
  forallb (fun x => clean (evaluate ev (r_interface (Some (elem_type t, x))))) l = true ->
  execute (Some ev) (Some (t, VSlice n l)) = FSlice t kept ->
  execute (Some ev) (Some (t, VSlice false kept)) = FSlice t kept.
Proof.
  intros Hk H He. rewrite (c17_slice ev t n l Hk H) in He. injection He as <-.
  rewrite c17_slice; [rewrite filter_idem; reflexivity|exact Hk|].
  rewrite forallb_forall in *. intros x Hx. apply filter_In in Hx. apply H. apply Hx.
Qed.
End Api.
Print Assumptions c18_commute.
Print Assumptions c17_idempotent.
Print Assumptions c13_history_independent.
