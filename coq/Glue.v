From Coq Require Import List ZArith String Ascii Bool NArith Lia.
Import ListNotations.
From Bexpr Require Import Base Strconv Ast Unicode Peg Typing Actions GoGrammar Univ Eval Api Budget C10 C16.
Open Scope string_scope.

(* ---------- C16: raw (backtick) literals ---------- *)
Definition bq : ascii := "`"%char.
Definition quote_raw (s : string) : string := String bq (s ++ String bq "").
Fixpoint no_byte (a : ascii) (s : string) : bool := match s with "" => true | String c t => negb (Ascii.eqb c a) && no_byte a t end.

Lemma drop_cr_id s : no_byte "013"%char s = true -> drop_cr s = s.
Proof.
  induction s as [|c t IH]; cbn; [reflexivity|]. intros H. apply andb_prop in H. destruct H as [Hc Ht].
  apply negb_true_iff in Hc. rewrite Hc, (IH Ht). reflexivity.
Qed.
Lemma strip_quotes_raw inner : strip_quotes (String bq (inner ++ String bq "")) = inner.
Proof.
  unfold strip_quotes.
  assert (H : forall a, String.length (a ++ String bq "") = S (String.length a)) by (induction a; cbn; auto).
  rewrite H. cbn [Nat.pred]. induction inner as [|x t IH]; cbn; [reflexivity|]. f_equal. exact IH.
Qed.
Theorem c16_raw_literal s : no_byte "013"%char s = true -> unquote (quote_raw s) = Some s.
Proof.
  intros H. unfold quote_raw, unquote. rewrite strip_quotes_raw. replace (Ascii.eqb bq "`"%char) with true by reflexivity.
  rewrite (drop_cr_id s H). reflexivity.
Qed.

(* ---------- C10 / C11: CreateEvaluator is glue around Parse ---------- *)
Definition the_parse (mx : option N) (fuel : nat) (src : string) : option expr :=
  match parse go_grammar mx action_sem pred_sem fuel src with Accepted (VExpr e) _ => Some e | _ => None end.

(* CreateEvaluator succeeds exactly when Parse accepts, and then holds Parse's tree and the source text *)
Theorem c10_create_agrees fuel src os :
  match create (fun mx s => the_parse mx fuel s) src os with
  | Some ev => exists n, parse go_grammar (if N.eqb (o_max (get_opts os)) 0 then None else Some (o_max (get_opts os))) action_sem pred_sem fuel src
                          = Accepted (VExpr (ev_ast ev)) n /\ ev_src ev = src /\ wf_ast (ev_ast ev)
  | None => forall e n, parse go_grammar (if N.eqb (o_max (get_opts os)) 0 then None else Some (o_max (get_opts os))) action_sem pred_sem fuel src
                          <> Accepted (VExpr e) n
  end.
Proof.
  unfold create, the_parse.
  destruct (parse go_grammar _ action_sem pred_sem fuel src) as [v n|k n m|] eqn:E; try (intros e n0; discriminate).
  destruct (c10_accepted_is_expression _ fuel src v n E) as [e [-> Hw]]. exists n. repeat split. exact Hw.
Qed.

(* ... and a budget at or above the parse's own step count changes nothing (C18 neutral budget, from C11) *)
Theorem c18_neutral_budget_large fuel src N0 n :
  pcount (parse go_grammar None action_sem pred_sem fuel src) = Some N0 -> (N0 <= n)%N ->
  the_parse (Some n) fuel src = the_parse None fuel src.
Proof.
  intros Hc Hn. unfold the_parse. destruct (parse_budget go_grammar action_sem pred_sem fuel src N0 Hc) as [H _]. rewrite (H n Hn). reflexivity.
Qed.

Print Assumptions c16_raw_literal.
Print Assumptions c10_create_agrees.
