(* C02 at the level of Evaluate for number literals against float fields: `sel == <number>` compares the field with the single rounding
   of the number the literal denotes (RoundRat: a nearest float of the field's width, ties to even). *)
From Coq Require Import List String ZArith NArith Bool Lia.
From Bexpr Require Import Base Strconv Ast Univ Eval C01 C02 C02c RoundRat RoundGuards FloatLit FloatLit2.
Import ListNotations.
Open Scope Z_scope.

Section C02d.
Variable re : string -> string -> option bool.

Theorem c02_float64_number_literal cfg ls s d t x sg ip fo :
  selects cfg ls s d (Some (t, VF64 x)) -> sclass_of (kind_of_type t) = SF64 ->
  ip <> [] -> Forall is_digit ip -> frac_ok fo ->
  let mant := dval (ip ++ frac_digits fo) 0 in
  let den := 10 ^ Z.of_nat (List.length (frac_digits fo)) in
  0 < mant ->
  eval re cfg ls (EMatch s OpEq (Some (number_text sg ip fo))) d =
  match round_rat mant den 53 (-1074) 971 with
  | Some me => Out (feq (float_bits sg (Some me) 53 11) x 53 11) None
  | None => Out false (Some (perr_c PRange)) end.
Proof.
  intros Hs Hc Hne Hip Hfo mant den Hpos.
  rewrite (c02_equal_float64 re cfg ls s d t x _ Hs Hc).
  rewrite (number_literal_float sg ip fo 64 53 11 (-1074) 971 ltac:(left; repeat split) Hne Hip Hfo Hpos).
  fold mant den. destruct (round_rat mant den 53 (-1074) 971); reflexivity.
Qed.

Theorem c02_float32_number_literal cfg ls s d t x sg ip fo :
  selects cfg ls s d (Some (t, VF32 x)) -> sclass_of (kind_of_type t) = SF32 ->
  ip <> [] -> Forall is_digit ip -> frac_ok fo ->
  let mant := dval (ip ++ frac_digits fo) 0 in
  let den := 10 ^ Z.of_nat (List.length (frac_digits fo)) in
  0 < mant ->
  eval re cfg ls (EMatch s OpEq (Some (number_text sg ip fo))) d =
  match round_rat mant den 24 (-149) 104 with
  | Some me => Out (feq (float_bits sg (Some me) 24 8) x 24 8) None
  | None => Out false (Some (perr_c PRange)) end.
Proof.
  intros Hs Hc Hne Hip Hfo mant den Hpos.
  rewrite (c02_equal_float32 re cfg ls s d t x _ Hs Hc).
  rewrite (number_literal_float sg ip fo 32 24 8 (-149) 104 ltac:(right; repeat split) Hne Hip Hfo Hpos).
  fold mant den. destruct (round_rat mant den 24 (-149) 104); reflexivity.
Qed.
End C02d.
