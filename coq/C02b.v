From Coq Require Import List ZArith String Ascii Bool NArith Lia.
Import ListNotations.
From Bexpr Require Import Base Strconv C02.
Open Scope string_scope.
Open Scope Z_scope.

(* numerals in base 2, 8 and 16 with Go's prefixes 0b / 0o / 0x *)
Definition is_digit_b (b d : Z) : Prop := 0 <= d < b.
Definition digit_char_b (d : Z) : ascii := z2b (if d <? 10 then 48 + d else 87 + d).      (* 0-9, a-f *)
Fixpoint dstr_b (ds : list Z) : string := match ds with [] => "" | d :: r => String (digit_char_b d) (dstr_b r) end.
Fixpoint dval_b (b : Z) (ds : list Z) (acc : Z) : Z := match ds with [] => acc | d :: r => dval_b b r (acc * b + d) end.

Lemma dval_b_ge b ds : 1 < b -> Forall (is_digit_b b) ds -> forall acc, 0 <= acc -> acc <= dval_b b ds acc.
Proof.
  intros Hb. induction 1 as [|d r Hd _ IH]; intros acc Ha; cbn [dval_b]; [lia|].
  unfold is_digit_b in Hd. specialize (IH (acc * b + d) ltac:(nia)). nia.
Qed.

Lemma pu_loop_base b maxv ds : 1 < b <= 16 -> Forall (is_digit_b b) ds -> forall acc us, 0 <= acc -> dval_b b ds acc <= maxv ->
  pu_loop (dstr_b ds) b maxv true acc us = POk (dval_b b ds acc, us).
Proof.
  intros Hb. induction 1 as [|d r Hd Hr IH]; intros acc us Ha Hm; cbn [dstr_b dval_b pu_loop] in *; [reflexivity|].
  unfold is_digit_b in Hd. unfold digit_char_b.
  pose proof (dval_b_ge b r ltac:(lia) Hr (acc * b + d) ltac:(nia)) as Hge.
  destruct (Z.ltb_spec d 10).
  - rewrite b2z_z2b by lia.
    replace (48 + d =? 95) with false by (symmetry; apply Z.eqb_neq; lia). cbn [andb].
    replace ((48 <=? 48 + d) && (48 + d <=? 57)) with true by (symmetry; apply andb_true_intro; split; apply Z.leb_le; lia).
    replace (48 + d - 48) with d by lia.
    replace (b <=? d) with false by (symmetry; apply Z.leb_gt; lia).
    replace (maxv <? acc * b + d) with false by (symmetry; apply Z.ltb_ge; lia).
    apply IH; [nia|exact Hm].
  - rewrite b2z_z2b by lia.
    replace (87 + d =? 95) with false by (symmetry; apply Z.eqb_neq; lia). cbn [andb].
    replace ((48 <=? 87 + d) && (87 + d <=? 57)) with false by (symmetry; apply andb_false_intro2; apply Z.leb_gt; lia).
    assert (El : lower (87 + d) = 87 + d) by (unfold lower; replace ((65 <=? 87 + d) && (87 + d <=? 90)) with false; [reflexivity|symmetry; apply andb_false_intro2; apply Z.leb_gt; lia]).
    rewrite El.
    replace ((97 <=? 87 + d) && (87 + d <=? 122)) with true by (symmetry; apply andb_true_intro; split; apply Z.leb_le; lia).
    replace (87 + d - 97 + 10) with d by lia.
    replace (b <=? d) with false by (symmetry; apply Z.leb_gt; lia).
    replace (maxv <? acc * b + d) with false by (symmetry; apply Z.ltb_ge; lia).
    apply IH; [nia|exact Hm].
Qed.

(* hexadecimal literals: 0x followed by at least one hex digit *)
Theorem parse_uint_hex ds bits : 0 < bits -> ds <> [] -> Forall (is_digit_b 16) ds -> dval_b 16 ds 0 <= 2 ^ bits - 1 ->
  parse_uint (String "0" (String "x" (dstr_b ds))) 0 bits = POk (dval_b 16 ds 0).
Proof.
  intros Hb Hne Hd Hm. destruct ds as [|d r]; [congruence|].
  unfold parse_uint. cbn [dstr_b].
  change (b2z "0"%char) with 48. change (b2z "x"%char) with 120.
  replace (0 =? 0) with true by reflexivity. replace (48 =? 48) with true by reflexivity.
  assert (El : lower 120 = 120) by reflexivity. rewrite El.
  replace (120 =? 98) with false by reflexivity. replace (120 =? 111) with false by reflexivity. replace (120 =? 120) with true by reflexivity.
  cbn [stail]. change (String (digit_char_b d) (dstr_b r)) with (dstr_b (d :: r)).
  rewrite (pu_loop_base 16 (2 ^ bits - 1) (d :: r) ltac:(lia) Hd 0 false ltac:(lia) Hm). reflexivity.
Qed.

Theorem parse_int_hex_pos ds : ds <> [] -> Forall (is_digit_b 16) ds -> dval_b 16 ds 0 < 2 ^ 63 ->
  parse_int (String "0" (String "x" (dstr_b ds))) 0 64 = POk (dval_b 16 ds 0).
Proof.
  intros Hne Hd Hm. unfold parse_int. change (b2z "0"%char) with 48.
  replace (48 =? 45) with false by reflexivity. replace (48 =? 43) with false by reflexivity. cbn [orb].
  change (2 ^ 63) with 9223372036854775808 in Hm.
  rewrite (parse_uint_hex ds 64 ltac:(lia) Hne Hd) by (change (2 ^ 64 - 1) with 18446744073709551615; lia).
  cbn [negb andb]. change (2 ^ (64 - 1)) with 9223372036854775808.
  replace (9223372036854775808 <=? dval_b 16 ds 0) with false by (symmetry; apply Z.leb_gt; lia). reflexivity.
Qed.

(* unsigned 64-bit decimal literals up to MaxUint64, and overflow beyond *)
Theorem parse_uint_dec_max ds : canonical ds -> dval ds 0 <= 2 ^ 64 - 1 -> parse_uint (dstr ds) 0 64 = POk (dval ds 0).
Proof. intros Hc Hm. apply parse_uint_dec; [lia|exact Hc|exact Hm]. Qed.

Example hex_examples : parse_int "0x7fffffffffffffff" 0 64 = POk 9223372036854775807 /\ parse_int "0x8000000000000000" 0 64 = PErr PRange
  /\ parse_uint "18446744073709551615" 0 64 = POk 18446744073709551615 /\ parse_uint "18446744073709551616" 0 64 = PErr PRange
  /\ parse_int "0b101" 0 64 = POk 5 /\ parse_int "0o17" 0 64 = POk 15 /\ parse_int "-0x10" 0 64 = POk (-16).
Proof. vm_compute. repeat split. Qed.
Print Assumptions parse_int_hex_pos.

(* octal (0o…) and binary (0b…) literals: the same lemma, other prefix *)
Theorem parse_uint_oct ds bits : 0 < bits -> ds <> [] -> Forall (is_digit_b 8) ds -> dval_b 8 ds 0 <= 2 ^ bits - 1 ->
  parse_uint (String "0" (String "o" (dstr_b ds))) 0 bits = POk (dval_b 8 ds 0).
Proof.
  intros Hb Hne Hd Hm. destruct ds as [|d r]; [congruence|].
  unfold parse_uint. cbn [dstr_b].
  change (b2z "0"%char) with 48. change (b2z "o"%char) with 111.
  replace (0 =? 0) with true by reflexivity. replace (48 =? 48) with true by reflexivity.
  assert (El : lower 111 = 111) by reflexivity. rewrite El.
  replace (111 =? 98) with false by reflexivity. replace (111 =? 111) with true by reflexivity.
  cbn [stail]. change (String (digit_char_b d) (dstr_b r)) with (dstr_b (d :: r)).
  rewrite (pu_loop_base 8 (2 ^ bits - 1) (d :: r) ltac:(lia) Hd 0 false ltac:(lia) Hm). reflexivity.
Qed.

Theorem parse_uint_bin ds bits : 0 < bits -> ds <> [] -> Forall (is_digit_b 2) ds -> dval_b 2 ds 0 <= 2 ^ bits - 1 ->
  parse_uint (String "0" (String "b" (dstr_b ds))) 0 bits = POk (dval_b 2 ds 0).
Proof.
  intros Hb Hne Hd Hm. destruct ds as [|d r]; [congruence|].
  unfold parse_uint. cbn [dstr_b].
  change (b2z "0"%char) with 48. change (b2z "b"%char) with 98.
  replace (0 =? 0) with true by reflexivity. replace (48 =? 48) with true by reflexivity.
  assert (El : lower 98 = 98) by reflexivity. rewrite El.
  replace (98 =? 98) with true by reflexivity.
  cbn [stail]. change (String (digit_char_b d) (dstr_b r)) with (dstr_b (d :: r)).
  rewrite (pu_loop_base 2 (2 ^ bits - 1) (d :: r) ltac:(lia) Hd 0 false ltac:(lia) Hm). reflexivity.
Qed.
Print Assumptions parse_uint_bin.
Example oct_bin_examples : parse_uint "0o17" 0 64 = POk 15 /\ parse_uint "0b101" 0 8 = POk 5 /\ parse_uint "017" 0 64 = POk 15.
Proof. repeat split; vm_compute; reflexivity. Qed.
