From Coq Require Import List ZArith String Bool NArith Lia.
Import ListNotations.
From Bexpr Require Import Base Ast Unicode Peg Budget.

(* Under a budget the engine always terminates: every parseExpr call ticks the counter, the counter is capped by the budget,
   and both the recursion depth and the number of repetition rounds are bounded by the number of ticks. No assumption on the grammar. *)
Section BT.
Variable g : list rule.
Variable n : N.
Variable action_sem : string -> frame -> string -> ares.
Variable pred_sem : string -> frame -> bool * bool.
Notation pe := (pe g (Some n) action_sem pred_sem).

Definition noof (r : res) : Prop := r <> OutOfFuel.
Definition bounded (r : res) : Prop := match r with Done _ _ s => (cnt s <= n)%N | _ => True end.
Definition progress (r : res) (c : N) : Prop := match r with Done _ _ s => (c < cnt s)%N | _ => True end.

Lemma bindr_noof r k : noof r -> (forall ok v s, r = Done ok v s -> noof (k ok v s)) -> noof (bindr r k).
Proof. unfold noof. destruct r as [ok v s|a s|]; cbn; intros H Hk; [apply (Hk ok v s eq_refl)|discriminate|congruence]. Qed.
Lemma bindr_bounded r k : (forall ok v s, bounded (k ok v s)) -> bounded (bindr r k).
Proof. destruct r; cbn; auto. Qed.

Section R.
Variable f : nat.                       (* fuel of the recursive calls *)
Variable r : pexpr -> st -> res.
Hypothesis Hno : forall e s, (cnt s <= n)%N -> (N.of_nat f + cnt s > n + 1)%N -> noof (r e s).
Hypothesis Hbd : forall e s, (cnt s <= n)%N -> bounded (r e s).
Hypothesis Hmo : forall e s, mono (r e s) (cnt s).
Hypothesis Hpr : forall e s, progress (r e s) (cnt s).

Lemma wf_noof e s : (cnt s <= n)%N -> (N.of_nat f + cnt s > n + 1)%N -> noof (with_frame (r e) s).
Proof. intros H1 H2. unfold with_frame. apply bindr_noof; [apply Hno; cbn; assumption|]. intros; unfold noof; discriminate. Qed.
Lemma wf_bounded e s : (cnt s <= n)%N -> bounded (with_frame (r e) s).
Proof. intros H. unfold with_frame. pose proof (Hbd e (set_fr s []) H) as Hb. destruct (r e (set_fr s [])); cbn in *; auto. Qed.
Lemma wf_mono e s : mono (with_frame (r e) s) (cnt s).
Proof. apply with_frame_mono. exact Hmo. Qed.
Lemma wf_progress e s : progress (with_frame (r e) s) (cnt s).
Proof. unfold with_frame. pose proof (Hpr e (set_fr s [])) as Hp. destruct (r e (set_fr s [])); cbn in *; auto. Qed.

Ltac use_done H := match type of H with ?x = Done _ _ ?s' => idtac end.

Lemma choice_noof alts : forall s, (cnt s <= n)%N -> (N.of_nat f + cnt s > n + 1)%N -> noof (choice r alts s).
Proof.
  induction alts as [|a alts IH]; intros s H1 H2; cbn [choice]; [unfold noof; discriminate|].
  apply bindr_noof; [apply wf_noof; assumption|]. intros [|] v s' E; [unfold noof; discriminate|].
  pose proof (wf_bounded a s H1) as Hb. pose proof (wf_mono a s) as Hm. rewrite E in Hb, Hm. cbn in Hb. unfold mono in Hm; cbn in Hm.
  apply IH; [exact Hb|lia].
Qed.
Lemma choice_bounded alts : forall s, (cnt s <= n)%N -> bounded (choice r alts s).
Proof.
  induction alts as [|a alts IH]; intros s H1; cbn [choice]; [exact H1|].
  pose proof (wf_bounded a s H1) as Hb. destruct (with_frame (r a) s) as [[|] v s'|x s'|]; cbn [bindr]; cbn in *; auto.
Qed.

Lemma seq_noof es start : forall acc s, (cnt s <= n)%N -> (N.of_nat f + cnt s > n + 1)%N -> noof (seq r es start acc s).
Proof.
  induction es as [|a es IH]; intros acc s H1 H2; cbn [seq]; [unfold noof; discriminate|].
  apply bindr_noof; [apply Hno; assumption|]. intros [|] v s' E; [|unfold noof; discriminate].
  pose proof (Hbd a s H1) as Hb. pose proof (Hmo a s) as Hm. rewrite E in Hb, Hm. cbn in Hb. unfold mono in Hm; cbn in Hm.
  apply IH; [exact Hb|lia].
Qed.
Lemma seq_bounded es start : forall acc s, (cnt s <= n)%N -> bounded (seq r es start acc s).
Proof.
  induction es as [|a es IH]; intros acc s H1; cbn [seq]; [exact H1|].
  pose proof (Hbd a s H1) as Hb. destruct (r a s) as [[|] v s'|x s'|]; cbn [bindr]; cbn in *; auto.
Qed.

(* repetition: each round makes progress, so k rounds need k ticks *)
Lemma star_noof b : forall k acc s, (cnt s <= n)%N -> (N.of_nat f + cnt s > n + 1)%N -> (N.of_nat k + cnt s > n + 1)%N ->
  noof (star r k b acc s).
Proof.
  induction k as [|k IH]; intros acc s H1 H2 H3; [lia|]. cbn [star].
  apply bindr_noof; [apply wf_noof; assumption|]. intros [|] v s' E; [|unfold noof; discriminate].
  pose proof (wf_bounded b s H1) as Hb. pose proof (wf_progress b s) as Hp. rewrite E in Hb, Hp. cbn in Hb, Hp.
  apply IH; [exact Hb|lia|lia].
Qed.
Lemma star_bounded b : forall k acc s, (cnt s <= n)%N -> bounded (star r k b acc s).
Proof.
  induction k as [|k IH]; intros acc s H1; cbn [star]; [exact I|].
  pose proof (wf_bounded b s H1) as Hb. destruct (with_frame (r b) s) as [[|] v s'|x s'|]; cbn [bindr]; cbn in *; auto.
Qed.

Lemma body_noof e s : (cnt s <= n)%N -> (N.of_nat f + cnt s > n + 1)%N -> noof (body g action_sem pred_sem r f e s).
Proof.
  intros H1 H2. destruct e; cbn [body];
    try (apply choice_noof; assumption); try (apply seq_noof; assumption); try (apply star_noof; assumption);
    try (apply bindr_noof; [first [apply wf_noof | apply Hno]; assumption|]; intros ok v s' E);
    try (unfold noof; discriminate).
  - destruct ok; [destruct (action_sem _ _ _)|]; unfold noof; discriminate.
  - destruct (pred_sem _ _) as [b e]; unfold noof; discriminate.
  - destruct (pred_sem _ _) as [b e]; unfold noof; discriminate.
  - destruct (inp s); unfold noof; discriminate.
  - destruct (inp s); [|destruct (class_match _ _)]; unfold noof; discriminate.
  - destruct (lit_go _ _ _) as [ok s']; destruct ok; unfold noof; discriminate.
  - destruct (find_rule g name); [apply wf_noof; assumption|unfold noof; discriminate].
  - destruct ok; [|unfold noof; discriminate].
    pose proof (wf_bounded e s H1) as Hb. pose proof (wf_mono e s) as Hm. rewrite E in Hb, Hm. cbn in Hb. unfold mono in Hm; cbn in Hm.
    apply star_noof; [exact Hb|lia|lia].
Qed.

Lemma body_bounded e s : (cnt s <= n)%N -> bounded (body g action_sem pred_sem r f e s).
Proof.
  intros H1. destruct e; cbn [body];
    try (apply choice_bounded; assumption); try (apply seq_bounded; assumption); try (apply star_bounded; assumption).
  - pose proof (Hbd e s H1) as Hb. destruct (r e s) as [[|] v s'|x s'|]; cbn [bindr]; cbn in *; auto. destruct (action_sem _ _ _); cbn; auto.
  - destruct (pred_sem _ _) as [b e]; destruct e; cbn; auto.
  - destruct (pred_sem _ _) as [b e]; destruct e; cbn; auto.
  - pose proof (wf_bounded e s H1) as Hb. destruct (with_frame (r e) s); cbn [bindr]; cbn in *; auto.
  - pose proof (wf_bounded e s H1) as Hb. destruct (with_frame (r e) s); cbn [bindr]; cbn in *; auto.
  - destruct (inp s); cbn; auto. rewrite cnt_advance. exact H1.
  - destruct (inp s); cbn; auto. destruct (class_match _ _); cbn; auto. rewrite cnt_advance. exact H1.
  - pose proof (cnt_lit_go s0 (inp s) s) as Hl. destruct (lit_go s0 (inp s) s) as [ok s']. cbn in Hl. destruct ok; cbn; lia.
  - pose proof (wf_bounded e s H1) as Hb. destruct (with_frame (r e) s) as [[|] v s'|x s'|]; cbn [bindr]; cbn in *; auto.
  - destruct (find_rule g name); [apply wf_bounded; assumption|cbn; auto].
  - pose proof (wf_bounded e s H1) as Hb. destruct (with_frame (r e) s) as [[|] v s'|x s'|]; cbn [bindr]; cbn in *; auto.
    apply star_bounded. exact Hb.
  - pose proof (wf_bounded e s H1) as Hb. destruct (with_frame (r e) s) as [[|] v s'|x s'|]; cbn [bindr]; cbn in *; auto.
Qed.
End R.

Lemma pe_progress fuel : forall e s, progress (pe fuel e s) (cnt s).
Proof.
  intros e s. destruct fuel as [|f]; [exact I|]. cbn [Peg.pe]. unfold step, tick. cbn.
  destruct (N.ltb_spec n (N.succ (cnt s))); [exact I|].
  pose proof (body_mono g action_sem pred_sem (pe f) (pe_mono g action_sem pred_sem (Some n) f) f e
                {| inp := inp s; cnt := N.succ (cnt s); nerr := nerr s; fr := fr s |}) as Hm.
  destruct (body _ _ _ _ _ _ _); cbn; auto. unfold mono in Hm. cbn in Hm. lia.
Qed.

Lemma pe_all fuel : (forall e s, (cnt s <= n)%N -> (N.of_nat fuel + cnt s > n + 1)%N -> noof (pe fuel e s)) /\
                    (forall e s, (cnt s <= n)%N -> bounded (pe fuel e s)).
Proof.
  induction fuel as [|f [IHn IHb]]; split; intros e s H1; try (intros H2; lia); try exact I.
  - intros H2. cbn [Peg.pe]. unfold step, tick. cbn. destruct (N.ltb_spec n (N.succ (cnt s))); [unfold noof; discriminate|].
    apply (body_noof f (pe f) IHn IHb (pe_mono g action_sem pred_sem (Some n) f) (pe_progress f)); cbn; lia.
  - cbn [Peg.pe]. unfold step, tick. cbn. destruct (N.ltb_spec n (N.succ (cnt s))); [exact I|].
    apply (body_bounded f (pe f) IHb); cbn; lia.
Qed.

(* C11: with a budget of n steps, fuel n+2 always suffices *)
Theorem budgeted_parse_terminates input fuel : (N.of_nat fuel > n + 1)%N ->
  parse g (Some n) action_sem pred_sem fuel input <> NoFuel.
Proof.
  intros Hf. unfold parse. destruct g as [|r0 rules] eqn:Eg; [discriminate|]. rewrite <- Eg.
  set (s0 := peek_err _ _).
  assert (H0 : cnt s0 = 0%N) by (unfold s0; rewrite cnt_peek_err; reflexivity).
  destruct (pe_all fuel) as [Hn _].
  assert (Hw : noof (with_frame (pe fuel (rexpr r0)) s0)).
  { unfold with_frame. apply bindr_noof; [apply Hn; cbn; lia|]. intros; unfold noof; discriminate. }
  destruct (with_frame (pe fuel (rexpr r0)) s0) as [[|] v s|[|] s|]; try discriminate; [destruct (Nat.eqb _ _); discriminate|].
  exfalso. apply Hw. reflexivity.
Qed.
End BT.
Print Assumptions budgeted_parse_terminates.
