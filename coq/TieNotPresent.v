(* see TableTie.v: one file per table, so that a table whose shape the extractor no longer recognises only affects
   the properties that speak about it *)
From Coq Require Import List String ZArith NArith Bool.
From Bexpr Require Import Base Strconv Ast Univ Eval Api Dump GoTables TableTie.
Import ListNotations.
Open Scope string_scope.

(* NotPresentDisposition *)
(* (how the cases are grouped is not prescribed: an operator's answer is its own clause's or the default clause's) *)
Lemma not_present_table : forall op, table_or_default (mop_go op) go_not_present = Some (bool_go (disposition op)).
Proof. intros []; reflexivity. Qed.
Lemma not_present_default : assoc "default" go_not_present = Some "false".
Proof. reflexivity. Qed.

