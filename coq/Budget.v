From Coq Require Import List ZArith String Bool NArith Lia.
Import ListNotations.
From Bexpr Require Import Base Ast Unicode Peg.

(* final counter of a run *)
Definition rcnt (r : res) : option N :=
  match r with Done _ _ s => Some (cnt s) | Abort _ s => Some (cnt s) | OutOfFuel => None end.

Definition is_max_abort (r : res) (c : N) : Prop := exists s, r = Abort AbMax s /\ cnt s = c.

(* what the budget-n run must return, given the unlimited run's result *)
Definition sim (n : N) (unl lim : res) : Prop :=
  match rcnt unl with
  | None => True
  | Some c => if (c <=? n)%N then lim = unl else is_max_abort lim (N.succ n)
  end.

Definition mono (r : res) (c : N) : Prop :=
  match rcnt r with Some c' => (c <= c')%N | None => True end.

Lemma sim_in n unl lim c : rcnt unl = Some c -> (c <= n)%N -> sim n unl lim -> lim = unl.
Proof. unfold sim. intros -> Hc. destruct (N.leb_spec c n); [auto|lia]. Qed.
Lemma sim_over n unl lim c : rcnt unl = Some c -> (n < c)%N -> sim n unl lim -> is_max_abort lim (N.succ n).
Proof. unfold sim. intros -> Hc. destruct (N.leb_spec c n); [lia|auto]. Qed.
Lemma sim_refl_in n r c : rcnt r = Some c -> (c <= n)%N -> sim n r r.
Proof. unfold sim. intros -> Hc. destruct (N.leb_spec c n); [auto|lia]. Qed.
Lemma sim_abort n unl s' : mono unl (N.succ n) -> cnt s' = N.succ n -> sim n unl (Abort AbMax s').
Proof. unfold sim, mono. destruct (rcnt unl) as [c|]; [|auto]. intros Hc Hs.
  destruct (N.leb_spec c n); [lia|]. exists s'. auto. Qed.
Lemma mono_trans r c c' : (c <= c')%N -> mono r c' -> mono r c.
Proof. unfold mono. destruct (rcnt r); [lia|auto]. Qed.

Lemma bindr_mono r k c : mono r c -> (forall ok v s, (c <= cnt s)%N -> mono (k ok v s) (cnt s)) -> mono (bindr r k) c.
Proof. destruct r as [ok v s|a s|]; cbn; auto. intros H Hk. eapply mono_trans; [|apply Hk]; unfold mono in H; cbn in H; lia. Qed.

Ltac fin := unfold mono; cbn; lia.

(* helpers that do not touch the counter *)
Lemma cnt_set_inp s i : cnt (set_inp s i) = cnt s. Proof. reflexivity. Qed.
Lemma cnt_add_err s : cnt (add_err s) = cnt s. Proof. reflexivity. Qed.
Lemma cnt_set_fr s f : cnt (set_fr s f) = cnt s. Proof. reflexivity. Qed.
Lemma cnt_bind_label s l v : cnt (bind_label s l v) = cnt s. Proof. reflexivity. Qed.
Lemma cnt_peek_err i s : cnt (peek_err i s) = cnt s. Proof. destruct i as [|c i]; cbn; [reflexivity|]. destruct (cvalid c); reflexivity. Qed.
Lemma cnt_advance s : cnt (advance s) = cnt s.
Proof. unfold advance. destruct (inp s); [reflexivity|]. rewrite cnt_peek_err. reflexivity. Qed.
Lemma cnt_lit_go l start : forall s, cnt (snd (lit_go l start s)) = cnt s.
Proof. induction l as [|c l IH]; intros s; cbn [lit_go]; [reflexivity|].
  destruct (inp s) as [|x i] eqn:E; [reflexivity|]. destruct (Z.eqb _ _); [|reflexivity]. rewrite IH. apply cnt_advance. Qed.

Section B.
Variable g : list rule.
Variable action_sem : string -> frame -> string -> ares.
Variable pred_sem : string -> frame -> bool * bool.

Section Mono.
Variable mx : option N.
Variable r : pexpr -> st -> res.
Hypothesis Hr : forall e s, mono (r e s) (cnt s).

Lemma with_frame_mono e s : mono (with_frame (r e) s) (cnt s).
Proof. unfold with_frame. apply bindr_mono; [apply (Hr e (set_fr s []))|]. intros; fin. Qed.

Lemma choice_mono alts : forall s, mono (choice r alts s) (cnt s).
Proof. induction alts as [|a alts IH]; intros s; cbn [choice]; [fin|].
  apply bindr_mono; [apply with_frame_mono|]. intros [|] v s' _; [fin|apply IH]. Qed.
Lemma seq_mono es start : forall acc s, mono (seq r es start acc s) (cnt s).
Proof. induction es as [|a es IH]; intros acc s; cbn [seq]; [fin|].
  apply bindr_mono; [apply Hr|]. intros [|] v s' _; [apply IH|fin]. Qed.
Lemma star_mono k b : forall acc s, mono (star r k b acc s) (cnt s).
Proof. induction k as [|k IH]; intros acc s; cbn [star]; [exact I|].
  apply bindr_mono; [apply with_frame_mono|]. intros [|] v s' _; [apply IH|fin]. Qed.

Lemma body_mono fuel e s : mono (body g action_sem pred_sem r fuel e s) (cnt s).
Proof.
  destruct e; cbn [body]; try apply choice_mono; try apply seq_mono; try apply star_mono;
    try (apply bindr_mono; [first [apply with_frame_mono | apply Hr]|]; intros ok v s' _).
  - destruct ok; [|fin]. destruct (action_sem _ _ _); fin.
  - destruct (pred_sem _ _) as [b e]. destruct e; fin.
  - destruct (pred_sem _ _) as [b e]. destruct e; fin.
  - fin.
  - fin.
  - destruct (inp s); [fin|]. unfold mono; cbn. rewrite cnt_advance. lia.
  - destruct (inp s); [fin|]. destruct (class_match _ _); [|fin]. unfold mono; cbn. rewrite cnt_advance. lia.
  - pose proof (cnt_lit_go s0 (inp s) s) as Hl. destruct (lit_go s0 (inp s) s) as [ok s']. cbn in Hl. destruct ok; unfold mono; cbn; lia.
  - destruct ok; fin.
  - destruct (find_rule g name); [apply with_frame_mono|fin].
  - destruct ok; [apply star_mono|fin].
  - fin.
Qed.

Lemma step_mono fuel e s : mono (step g mx action_sem pred_sem r fuel e s) (cnt s).
Proof. unfold step, tick. destruct mx as [m|].
  - cbn. destruct (N.ltb_spec m (N.succ (cnt s))); [fin|].
    eapply mono_trans; [|apply body_mono]. cbn; lia.
  - eapply mono_trans; [|apply body_mono]. cbn; lia.
Qed.
End Mono.

Lemma pe_mono mx fuel : forall e s, mono (pe g mx action_sem pred_sem fuel e s) (cnt s).
Proof. induction fuel as [|f IH]; intros e s; cbn [pe]; [exact I|]. apply step_mono. exact IH. Qed.

Section Sim.
Variable n : N.
Variable ru rl : pexpr -> st -> res.
Hypothesis Hmono : forall e s, mono (ru e s) (cnt s).
Hypothesis Hsim : forall e s, (cnt s <= n)%N -> sim n (ru e s) (rl e s).

(* generic: a sub-run related by sim, followed by continuations that agree below the budget *)
Lemma bindr_sim (xu xl : res) (c0 : N) (ku kl : bool -> pv -> st -> res) :
  sim n xu xl ->
  (forall ok v s', (cnt s' <= n)%N -> sim n (ku ok v s') (kl ok v s')) ->
  (forall ok v s', mono (ku ok v s') (cnt s')) ->
  sim n (bindr xu ku) (bindr xl kl).
Proof.
  intros H Hk Hkm.
  destruct xu as [ok v s1|a s1|] eqn:Eu; [| |exact I].
  - destruct (N.le_gt_cases (cnt s1) n) as [Hle|Hgt].
    + rewrite (sim_in n (Done ok v s1) _ (cnt s1) eq_refl Hle H). cbn [bindr]. apply Hk. exact Hle.
    + destruct (sim_over n (Done ok v s1) _ (cnt s1) eq_refl Hgt H) as [s' [-> Hc]]. cbn [bindr].
      apply sim_abort; [|exact Hc]. eapply mono_trans; [|apply Hkm]. lia.
  - destruct (N.le_gt_cases (cnt s1) n) as [Hle|Hgt].
    + rewrite (sim_in n (Abort a s1) _ (cnt s1) eq_refl Hle H). cbn [bindr].
      eapply sim_refl_in; [reflexivity|exact Hle].
    + destruct (sim_over n (Abort a s1) _ (cnt s1) eq_refl Hgt H) as [s' [-> Hc]]. cbn [bindr].
      apply sim_abort; [|exact Hc]. unfold mono; cbn; lia.
Qed.

Ltac here Hs := eapply sim_refl_in; [reflexivity|cbn; exact Hs].

Lemma with_frame_sim e s : (cnt s <= n)%N -> sim n (with_frame (ru e) s) (with_frame (rl e) s).
Proof.
  intros Hs. unfold with_frame. apply (bindr_sim _ _ 0%N); [apply Hsim; exact Hs| |].
  - intros ok v s' Hs'. here Hs'.
  - intros; fin.
Qed.

Lemma choice_sim alts : forall s, (cnt s <= n)%N -> sim n (choice ru alts s) (choice rl alts s).
Proof.
  induction alts as [|a alts IH]; intros s Hs; cbn [choice]; [here Hs|].
  apply (bindr_sim _ _ 0%N); [apply with_frame_sim; exact Hs| |].
  - intros [|] v s' Hs'; [here Hs'|apply IH; exact Hs'].
  - intros [|] v s'; [fin|apply choice_mono; exact Hmono].
Qed.
Lemma seq_sim es start : forall acc s, (cnt s <= n)%N -> sim n (seq ru es start acc s) (seq rl es start acc s).
Proof.
  induction es as [|a es IH]; intros acc s Hs; cbn [seq]; [here Hs|].
  apply (bindr_sim _ _ 0%N); [apply Hsim; exact Hs| |].
  - intros [|] v s' Hs'; [apply IH; exact Hs'|here Hs'].
  - intros [|] v s'; [apply seq_mono; exact Hmono|fin].
Qed.
Lemma star_sim k b : forall acc s, (cnt s <= n)%N -> sim n (star ru k b acc s) (star rl k b acc s).
Proof.
  induction k as [|k IH]; intros acc s Hs; cbn [star]; [exact I|].
  apply (bindr_sim _ _ 0%N); [apply with_frame_sim; exact Hs| |].
  - intros [|] v s' Hs'; [apply IH; exact Hs'|here Hs'].
  - intros [|] v s'; [apply star_mono; exact Hmono|fin].
Qed.

Lemma body_sim fuel e s : (cnt s <= n)%N ->
  sim n (body g action_sem pred_sem ru fuel e s) (body g action_sem pred_sem rl fuel e s).
Proof.
  intros Hs. destruct e; cbn [body];
    try (apply choice_sim; exact Hs); try (apply seq_sim; exact Hs); try (apply star_sim; exact Hs).
  - (* action *)
    apply (bindr_sim _ _ 0%N); [apply Hsim; exact Hs| |].
    + intros ok v s' Hs'. destruct ok; [|here Hs']. destruct (action_sem _ _ _); here Hs'.
    + intros ok v s'. destruct ok; [|fin]. destruct (action_sem _ _ _); fin.
  - destruct (pred_sem _ _) as [b e]. destruct e; here Hs.
  - destruct (pred_sem _ _) as [b e]. destruct e; here Hs.
  - apply (bindr_sim _ _ 0%N); [apply with_frame_sim; exact Hs| |]; [intros ok v s' Hs'; here Hs' | intros; fin].
  - apply (bindr_sim _ _ 0%N); [apply with_frame_sim; exact Hs| |]; [intros ok v s' Hs'; here Hs' | intros; fin].
  - destruct (inp s); [here Hs|]. eapply sim_refl_in; [reflexivity|]. cbn. rewrite cnt_advance. exact Hs.
  - destruct (inp s); [here Hs|]. destruct (class_match _ _); [|here Hs]. eapply sim_refl_in; [reflexivity|]. cbn. rewrite cnt_advance. exact Hs.
  - pose proof (cnt_lit_go s0 (inp s) s) as Hl. destruct (lit_go s0 (inp s) s) as [ok s']. cbn in Hl.
    destruct ok; (eapply sim_refl_in; [reflexivity|cbn; lia]).
  - apply (bindr_sim _ _ 0%N); [apply with_frame_sim; exact Hs| |].
    + intros ok v s' Hs'. destruct ok; here Hs'.
    + intros ok v s'. destruct ok; fin.
  - destruct (find_rule g name); [apply with_frame_sim; exact Hs|here Hs].
  - apply (bindr_sim _ _ 0%N); [apply with_frame_sim; exact Hs| |].
    + intros ok v s' Hs'. destruct ok; [apply star_sim; exact Hs'|here Hs'].
    + intros ok v s'. destruct ok; [apply star_mono; exact Hmono|fin].
  - apply (bindr_sim _ _ 0%N); [apply with_frame_sim; exact Hs| |]; [intros ok v s' Hs'; here Hs' | intros; fin].
Qed.

Lemma step_sim fuel e s : (cnt s <= n)%N ->
  sim n (step g None action_sem pred_sem ru fuel e s) (step g (Some n) action_sem pred_sem rl fuel e s).
Proof.
  intros Hs. unfold step, tick. cbn.
  destruct (N.ltb_spec n (N.succ (cnt s))) as [Hlt|Hge].
  - apply sim_abort; [|cbn; lia].
    eapply mono_trans; [|apply body_mono; exact Hmono]. cbn. lia.
  - apply body_sim. cbn. lia.
Qed.
End Sim.

Theorem pe_budget n fuel : forall e s, (cnt s <= n)%N ->
  sim n (pe g None action_sem pred_sem fuel e s) (pe g (Some n) action_sem pred_sem fuel e s).
Proof.
  induction fuel as [|f IH]; intros e s Hs; cbn [pe]; [exact I|].
  apply step_sim; auto. apply pe_mono.
Qed.

(* the statement at the level of parse(): same result when the budget suffices,
   max-expressions rejection after exactly n+1 steps otherwise *)
Definition pcount (r : presult) : option N :=
  match r with Accepted _ c => Some c | Rejected _ c _ => Some c | NoFuel => None end.

Definition finish (r : res) : presult :=
  match r with
  | Done true v s => if Nat.eqb (nerr s) 0 then Accepted v (cnt s) else Rejected (nerr s) (cnt s) false
  | Done false _ s => Rejected (if Nat.eqb (nerr s) 0 then 1%nat else nerr s) (cnt s) false
  | Abort AbMax s => Rejected (nerr s) (cnt s) true
  | Abort AbPanic s => Rejected (nerr s) (cnt s) false
  | OutOfFuel => NoFuel
  end.

Lemma parse_finish mx fuel input r0 rules : g = r0 :: rules ->
  parse g mx action_sem pred_sem fuel input =
  finish (with_frame (pe g mx action_sem pred_sem fuel (rexpr r0))
            (peek_err (utf8_cells input) {| inp := utf8_cells input; cnt := 0; nerr := 0; fr := [] |})).
Proof. intros E. unfold parse. rewrite E. cbn. destruct (with_frame _ _) as [[|] v s|[|] s|]; reflexivity. Qed.

Lemma pcount_finish r : pcount (finish r) = rcnt r.
Proof. destruct r as [[|] v s|[|] s|]; cbn; try reflexivity. destruct (Nat.eqb _ _); reflexivity. Qed.

Theorem parse_budget fuel input N0 :
  pcount (parse g None action_sem pred_sem fuel input) = Some N0 ->
  (forall n, (N0 <= n)%N -> parse g (Some n) action_sem pred_sem fuel input = parse g None action_sem pred_sem fuel input) /\
  (forall n, (n < N0)%N -> exists k, parse g (Some n) action_sem pred_sem fuel input = Rejected k (N.succ n) true).
Proof.
  destruct g as [|r0 rules] eqn:Eg.
  - cbn. intros [= <-]. split; intros n Hn; [reflexivity|lia].
  - rewrite <- Eg in *. intros Hc.
    assert (Hs : forall n, sim n
       (with_frame (pe g None action_sem pred_sem fuel (rexpr r0)) (peek_err (utf8_cells input) {| inp := utf8_cells input; cnt := 0; nerr := 0; fr := [] |}))
       (with_frame (pe g (Some n) action_sem pred_sem fuel (rexpr r0)) (peek_err (utf8_cells input) {| inp := utf8_cells input; cnt := 0; nerr := 0; fr := [] |}))).
    { intros n. apply with_frame_sim.
      - intros e s Hs. apply pe_budget. exact Hs.
      - rewrite cnt_peek_err. cbn. lia. }
    rewrite (parse_finish None fuel input r0 rules Eg) in Hc. rewrite pcount_finish in Hc.
    split; intros n Hn; rewrite !(parse_finish _ fuel input r0 rules Eg).
    + rewrite (sim_in _ _ _ _ Hc Hn (Hs n)). reflexivity.
    + destruct (sim_over _ _ _ _ Hc Hn (Hs n)) as [s' [-> Hcs]]. cbn. rewrite Hcs. eauto.
Qed.
End B.
Print Assumptions parse_budget.
