(* Property C18 - options act only on their own aspect, in any order, on every Evaluate. Statements only (proofs: Api.v, ApiMore.v, C18b.v, Glue.v, C05.v). *)
From Coq Require Import List String ZArith NArith Bool Permutation. From Bexpr Require Import Base Strconv Ast Univ Eval Api ApiMore C05 C18b Unicode Peg Budget. Import ListNotations.

Theorem c18_commute :
  forall (l : list opt) (x y : opt) (r : list opt), kind_of_opt x <> kind_of_opt y -> get_opts (l ++ x :: y :: r) = get_opts (l ++ y :: x :: r).
Proof. exact Api.c18_commute. Qed.
Print Assumptions c18_commute.

Theorem c18_last_wins :
  forall (l : list opt) (x y : opt) (r : list opt), same_scalar_kind x y = true -> get_opts (l ++ x :: y :: r) = get_opts (l ++ y :: r).
Proof. exact Api.c18_last_wins. Qed.
Print Assumptions c18_last_wins.

Theorem c18_nil_option_ignored :
  forall l r : list opt, get_opts (l ++ ONil :: r) = get_opts (l ++ r).
Proof. exact Api.c18_nil_option_ignored. Qed.
Print Assumptions c18_nil_option_ignored.

Theorem c18_reissue :
  forall (re : string -> string -> option bool) (parse : option N -> string -> option expr) (src : string) (os : list opt) 
    (ev : evaluator) (d : iface),
  create parse src os = Some ev ->
  evaluate re ev d =
  eval re {| tagname := o_tag (get_opts os); hook := o_hook (get_opts os); unknown := o_unknown (get_opts os) |} [] (ev_ast ev) d.
Proof. exact Api.c18_reissue. Qed.
Print Assumptions c18_reissue.

Theorem c18_neutral_tag :
  forall os : list opt, o_tag (get_opts os) = "bexpr" -> get_opts (os ++ [OTagName "bexpr"]) = get_opts os.
Proof. exact Api.c18_neutral_tag. Qed.
Print Assumptions c18_neutral_tag.

Theorem c18_neutral_budget_zero :
  forall (parse : option N -> string -> option expr) (src : string) (os : list opt),
  o_max (get_opts os) = 0%N -> create parse src (os ++ [OMaxExpr 0]) = create parse src os.
Proof. exact Api.c18_neutral_budget_zero. Qed.
Print Assumptions c18_neutral_budget_zero.

(* a budget at or above the parse's own step count changes nothing - for ANY grammar table, hence for the shipped one
   (the instance for the table regenerated from grammar.go is c11_budget in P_C11.v) *)
Theorem c18_neutral_budget_large :
  forall (g : list Peg.rule) asem psem (fuel : nat) (input : string) (N0 n : N),
  Budget.pcount (Peg.parse g None asem psem fuel input) = Some N0 -> (N0 <= n)%N ->
  Peg.parse g (Some n) asem psem fuel input = Peg.parse g None asem psem fuel input.
Proof. intros g asem psem fuel input N0 n Hc Hn. destruct (Budget.parse_budget g asem psem fuel input N0 Hc) as [H _]. exact (H n Hn). Qed.
Print Assumptions c18_neutral_budget_large.

Theorem c18_default_tag :
  o_tag (get_opts []) = "bexpr" /\ o_max (get_opts []) = 0%N /\ o_unknown (get_opts []) = None.
Proof. exact Api.c18_default_tag. Qed.
Print Assumptions c18_default_tag.

Theorem c18_neutral_hook_lookup :
  forall (tag : string) (unk : option iface) (parts : list string) (d : iface),
  get {| tagname := tag; hook := Some id_hook; unknown := unk |} parts d = get {| tagname := tag; hook := None; unknown := unk |} parts d.
Proof. exact ApiMore.c18_neutral_hook_lookup. Qed.
Print Assumptions c18_neutral_hook_lookup.

Theorem c05_unknown_neutral :
  forall (re : string -> string -> option bool) (cfg : config) (u : option iface) (e : expr),
  unknown cfg = None -> forall (ls : locals) (d : iface), all_resolve cfg ls e d -> eval re (with_unknown cfg u) ls e d = eval re cfg ls e d.
Proof. exact C05.c05_unknown_neutral. Qed.
Print Assumptions c05_unknown_neutral.

Theorem c18_hook_value_is_seen :
  forall (re : string -> string -> option bool) (cfg : config) (h : rv -> rv) (name : string) (op : matchop) (raw : option string) 
    (d nxt : rv) (v' : gtype * gval),
  hook cfg = Some h ->
  get_step cfg name d = Ok nxt ->
  h nxt = Some v' -> eval re cfg [] (EMatch {| stype := SelBexpr; spath := [name] |} op raw) d = match_op re op raw (r_interface (Some v')).
Proof. exact C18b.c18_hook_value_is_seen. Qed.
Print Assumptions c18_hook_value_is_seen.

Theorem c18_hook_nil_is_error :
  forall (re : string -> string -> option bool) (cfg : config) (h : rv -> rv) (name : string) (op : matchop) (raw : option string) (d nxt : rv),
  hook cfg = Some h ->
  get_step cfg name d = Ok nxt ->
  h nxt = None -> eval re cfg [] (EMatch {| stype := SelBexpr; spath := [name] |} op raw) d = Out false (Some EHookNil).
Proof. exact C18b.c18_hook_nil_is_error. Qed.
Print Assumptions c18_hook_nil_is_error.


(* ---- ties to the constant tables regenerated from the Go sources (tools/gotables -> GoTables.v) ---- *)
From Coq Require Import List String ZArith NArith Bool. From Bexpr Require Import Base Strconv Ast Univ Eval Api Dump GoTables TableTie TieDefaults. Import ListNotations.

Theorem default_options :
  default_field "withMaxExpressions" "0" = "0" /\ default_field "withTagName" "" = "bexpr" /\ default_field "withUnknown" "nil" = "nil"
  /\ default_field "withHookFn" "nil" = "nil" /\ default_field "withLocalVariables" "nil" = "nil"
  /\ o_max default_opts = 0%N /\ o_tag default_opts = "bexpr" /\ o_unknown default_opts = None.
Proof. exact TieDefaults.default_options. Qed.
Print Assumptions default_options.

