(* The small family of value-transformation hooks the harness uses (harness/p_eval.go: hookFn), as model functions,
   and the proof that each of them preserves well-typedness - so that c09_no_panic_hook applies to every configuration the
   correspondence runs. 0 = no hook. *)
From Coq Require Import List ZArith String Bool.
Import ListNotations.
From Bexpr Require Import Base Strconv Ast Univ Eval Wt.
Open Scope string_scope.

Definition unwrap_hook (v : rv) : rv :=            (* a struct named Wrap is replaced by its first field *)
  match v with
  | Some (TStruct "Wrap" (FD _ _ _ ft :: _), VStruct (x :: _)) => Some (ft, x)
  | _ => v
  end.
Definition const_hook (v : rv) : rv := Some (TInt I0, VInt 7).
Definition nil_hook (v : rv) : rv := None.          (* reflect.ValueOf(nil): rejected by the evaluator *)
(* a hook that rewrites scalars and leaves containers alone: plain strings are upper-cased (ASCII) *)
Definition upper (x : Z) : Z := if (97 <=? x)%Z && (x <=? 122)%Z then (x - 32)%Z else x.
Fixpoint upper_str (s : string) : string := match s with "" => "" | String c t => String (z2b (upper (b2z c))) (upper_str t) end.
Definition upcase_hook (v : rv) : rv :=
  match v with Some (TString, VStr s) => Some (TString, VStr (upper_str s)) | _ => v end.
Definition hook_of (n : nat) : option (rv -> rv) :=
  match n with
  | 0 => None | 1 => Some (fun v => v) | 2 => Some unwrap_hook | 3 => Some const_hook | 4 => Some nil_hook | _ => Some upcase_hook
  end%nat.

Lemma unwrap_hook_wt v : rwt v -> rwt (unwrap_hook v).
Proof.
  intros H. destruct v as [[t x]|]; [|exact I]. cbn [unwrap_hook].
  destruct t as [| | | | | | | | | | | | | | | | |nm fs]; try exact H.
  destruct (String.eqb nm "Wrap") eqn:En.
  - apply String.eqb_eq in En. subst nm. destruct fs as [|[fn fe ftags ft] fs']; [exact H|].
    destruct x as [| | | | | | | | | | | | | |vs]; try exact H. destruct vs as [|x0 vs']; [exact H|].
    cbn [rwt] in *. cbn in H. apply andb_prop in H. destruct H as [H _]. exact H.
  - assert (nm <> "Wrap") by (apply String.eqb_neq; exact En).
    (* the match on the literal name falls through *)
    unfold rwt in *. revert H. 
    destruct nm as [|c0 nm0]; [auto|].
    intros H. repeat match goal with |- context [match ?s with EmptyString => _ | String _ _ => _ end] => destruct s end; auto;
    repeat match goal with |- context [match ?a with Ascii.Ascii _ _ _ _ _ _ _ _ => _ end] => destruct a end;
    repeat match goal with |- context [if ?b then _ else _] => destruct b end; auto; exfalso; apply H0; reflexivity.
Qed.

Theorem hook_family_ok (cfg : config) (n : nat) : hook cfg = hook_of n -> hook_ok cfg.
Proof.
  unfold hook_ok. intros ->. destruct n as [|[|[|[|[|n]]]]]; cbn [hook_of]; [exact I|..]; intros v Hv.
  - exact Hv.
  - apply unwrap_hook_wt. exact Hv.
  - reflexivity.
  - exact I.
  - destruct v as [[t x]|]; [|exact I]. destruct t; try exact Hv. destruct x; exact Hv.
Qed.
Print Assumptions hook_family_ok.
