From Coq Require Import List ZArith String Ascii Bool NArith Lia.
Import ListNotations.
From Bexpr Require Import Base Strconv Ast Univ Eval Props C01.
Open Scope string_scope.

(* C16/C02, evaluator half of literal fidelity:  X == <literal denoting s>  is true of a document in which X is the string s. *)
Section E.
Variable re : string -> string -> option bool.
Definition cfg0 : config := {| tagname := ""; hook := None; unknown := None |}.
Definition doc (name s : string) : iface := Some (TMap TString TString, VMap false [(VStr name, VStr s)]).

Theorem literal_is_true name s :
  eval re cfg0 [] (EMatch {| stype := SelBexpr; spath := [name] |} OpEq (Some s)) (doc name s) = Out true None.
Proof.
  cbn [eval spath]. unfold get_value. cbn [resolve_locals]. unfold get. cbn [get_loop].
  unfold doc. rewrite (step_map_hit cfg0 name (TMap TString TString) false [(VStr name, VStr s)] (VStr name) (VStr s)); try reflexivity.
  - cbn [hook cfg0 get_loop]. cbn [r_interface elem_type under]. unfold match_op.
    cbn [json_narrow]. change (is_json_number TString) with false. cbv beta iota.
    change (r_indirect (Some (TString, VStr s))) with (Some (TString, VStr s)).
    rewrite equal_string_spec. rewrite String.eqb_refl. reflexivity.
  - cbn. rewrite String.eqb_refl. reflexivity.
Qed.
End E.
Print Assumptions literal_is_true.
