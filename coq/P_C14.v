(* Property C14 - results are deterministic, independent of Go map iteration order. Map order is modelled as an adversarial permutation of the entry list. Statements only (proofs: Props.v, Rel.v, C14b.v). *)
From Coq Require Import List String ZArith NArith Bool Permutation. From Bexpr Require Import Base Strconv Ast Univ Eval Props Rel Api C14b. Import ListNotations.

Theorem c14_sort_keys_order_free :
  forall l l' : list string, Permutation l l' -> sort_keys l = sort_keys l'.
Proof. exact Props.c14_sort_keys_order_free. Qed.
Print Assumptions c14_sort_keys_order_free.

Theorem c14_map_order_free :
  forall (re : string -> string -> option bool) (cfg : config) (e : expr) (t : gtype) (n : bool) (ka kb : list (gval * gval)),
  hook cfg = None ->
  kind_of_type (key_type t) = KString ->
  str_keyed ka -> NoDup (map skey ka) -> Permutation ka kb -> eval re cfg [] e (Some (t, VMap n ka)) = eval re cfg [] e (Some (t, VMap n kb)).
Proof. exact Rel.c14_map_order_free. Qed.
Print Assumptions c14_map_order_free.

Theorem c14_premise_met :
  let ka := [(VStr "a", VInt 1); (VStr "b", VInt 2)] in
  let kb := [(VStr "b", VInt 2); (VStr "a", VInt 1)] in str_keyed ka /\ NoDup (map skey ka) /\ Permutation ka kb /\ ka <> kb.
Proof. exact Rel.c14_premise_met. Qed.
Print Assumptions c14_premise_met.

Theorem c14_filter_order_free :
  forall (re : string -> string -> option bool) (ev : evaluator) (t : gtype) (n : bool) (ka kb : list (gval * gval)),
  kind_of_type t = KMap ->
  Permutation ka kb ->
  (exists ya yb : list (gval * gval),
     execute re (Some ev) (Some (t, VMap n ka)) = FMap t ya /\ execute re (Some ev) (Some (t, VMap n kb)) = FMap t yb /\ Permutation ya yb) \/
  is_failure (execute re (Some ev) (Some (t, VMap n ka))) /\ is_failure (execute re (Some ev) (Some (t, VMap n kb))).
Proof. exact C14b.c14_filter_order_free. Qed.
Print Assumptions c14_filter_order_free.

