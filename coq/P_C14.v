(* Property C14 - results are deterministic, independent of Go map iteration order. Map order is modelled as an adversarial permutation of the entry list. Statements only (proofs: Props.v, Rel.v, C14b.v). *)
From Coq Require Import List String ZArith NArith Bool Permutation. From Bexpr Require Import Base Strconv Ast Univ Eval KeyEq Props Rel Api C14b. Import ListNotations.

Theorem c14_sort_keys_order_free :
  forall l l' : list string, Permutation l l' -> sort_keys l = sort_keys l'.
Proof. exact Props.c14_sort_keys_order_free. Qed.
Print Assumptions c14_sort_keys_order_free.

Theorem c14_map_order_free :
  forall (re : string -> string -> option bool) (cfg : config) (e : expr) (t : gtype) (n : bool) (ka kb : list (gval * gval)),
  hook cfg = None ->
  kind_of_type (key_type t) = KString ->
  str_keyed ka -> NoDup (map skey ka) -> Permutation ka kb -> eval re cfg [] e (Some (t, VMap n ka)) = eval re cfg [] e (Some (t, VMap n kb)).
Proof. exact Rel.c14_map_order_free. Qed.
Print Assumptions c14_map_order_free.

Theorem c14_premise_met :
  let ka := [(VStr "a", VInt 1); (VStr "b", VInt 2)] in
  let kb := [(VStr "b", VInt 2); (VStr "a", VInt 1)] in str_keyed ka /\ NoDup (map skey ka) /\ Permutation ka kb /\ ka <> kb.
Proof. exact Rel.c14_premise_met. Qed.
Print Assumptions c14_premise_met.

Theorem c14_filter_order_free :
  forall (re : string -> string -> option bool) (ev : evaluator) (t : gtype) (n : bool) (ka kb : list (gval * gval)),
  kind_of_type t = KMap ->
  Permutation ka kb ->
  (exists ya yb : list (gval * gval),
     execute re (Some ev) (Some (t, VMap n ka)) = FMap t ya /\ execute re (Some ev) (Some (t, VMap n kb)) = FMap t yb /\ Permutation ya yb) \/
  is_failure (execute re (Some ev) (Some (t, VMap n ka))) /\ is_failure (execute re (Some ev) (Some (t, VMap n kb))).
Proof. exact C14b.c14_filter_order_free. Qed.
Print Assumptions c14_filter_order_free.



(* maps whose key type is not `string`, and reorderings at any depth (KeyEq.v: the lookup's key comparison is symmetric and transitive,
   so among pairwise unequal keys at most one entry answers; Rel.veq_pmap) *)
Open Scope string_scope.
Theorem map_find_perm :
  forall (kt : gtype) (k : gval) (ka kb : list (gval * gval)), keys_distinct kt ka -> Permutation ka kb -> map_find kt k ka = map_find kt k kb.
Proof. exact KeyEq.map_find_perm. Qed.
Print Assumptions map_find_perm.

Theorem c14_keyed_map_order_free :
  forall (re : string -> string -> option bool) (cfg : config) (e : expr) (t : gtype) (n : bool) (ka kb : list (gval * gval)),
  hook cfg = None ->
  type_eqb (key_type t) TString = false ->
  keys_distinct (key_type t) ka -> Permutation ka kb -> eval re cfg [] e (Some (t, VMap n ka)) = eval re cfg [] e (Some (t, VMap n kb)).
Proof. exact Rel.c14_keyed_map_order_free. Qed.
Print Assumptions c14_keyed_map_order_free.

Theorem c14_order_free_anywhere :
  forall (re : string -> string -> option bool) (cfg : config) (e : expr) (d1 d2 : iface),
  hook cfg = None -> rveq (if tagname cfg =? "" then "pointer" else tagname cfg) d1 d2 -> eval re cfg [] e d1 = eval re cfg [] e d2.
Proof. exact Rel.c14_order_free_anywhere. Qed.
Print Assumptions c14_order_free_anywhere.

Theorem c14_keyed_premise_met :
  let t := TMap (TInt I0) TString in
  let ka := [(VInt 1, VStr "a"); (VInt 2, VStr "b")] in
  let kb := [(VInt 2, VStr "b"); (VInt 1, VStr "a")] in
  type_eqb (key_type t) TString = false /\ keys_distinct (key_type t) ka /\ Permutation ka kb /\ ka <> kb.
Proof. exact Rel.c14_keyed_premise_met. Qed.
Print Assumptions c14_keyed_premise_met.

Theorem c14_nested_instance :
  forall tn : string,
  let tm := TMap TString (TInt I0) in
  let ti := TMap (TInt I0) TString in
  let t := TSlice TIface in
  rveq tn
    (Some
       (t,
        VSlice false
          [VIface tm (VMap false [(VStr "a", VInt 1); (VStr "b", VInt 2)]); VIface ti (VMap false [(VInt 1, VStr "x"); (VInt 2, VStr "y")])]))
    (Some
       (t,
        VSlice false
          [VIface tm (VMap false [(VStr "b", VInt 2); (VStr "a", VInt 1)]); VIface ti (VMap false [(VInt 2, VStr "y"); (VInt 1, VStr "x")])])).
Proof. exact Rel.c14_nested_instance. Qed.
Print Assumptions c14_nested_instance.


(* the code sorts the enumerated keys of a map by byte order, right after enumerating them, wherever it enumerates one on the evaluation path *)
From Bexpr Require Import GoTables TieOrder.
Theorem c14_code_visits_maps_in_key_order :
  forallb (fun r => negb (String.eqb (iter_file r) "evaluate.go") || String.eqb (iter_class r) "sorted-bytewise") GoTables.go_map_iteration = true
  /\ existsb (fun r => String.eqb (iter_file r) "evaluate.go" && String.eqb (iter_class r) "sorted-bytewise") GoTables.go_map_iteration = true.
Proof. exact (conj TieOrder.evaluation_visits_maps_in_key_order TieOrder.evaluation_enumerates_a_map). Qed.
Print Assumptions c14_code_visits_maps_in_key_order.

(* a call is a function of (expression, options, datum) only if evaluation leaves the evaluator's shared tree and the package state alone:
   no call on the evaluation path writes through a container it did not make itself, and no package-level variable is written *)
From Bexpr Require Import TieWrites.
Theorem c14_evaluation_path_mutates_only_its_own_containers :
  evaluation_path_shared_calls = [].
Proof. exact TieWrites.evaluation_path_mutates_only_its_own_containers. Qed.
Print Assumptions c14_evaluation_path_mutates_only_its_own_containers.
