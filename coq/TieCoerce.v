(* see TableTie.v: one file per table, so that a table whose shape the extractor no longer recognises only affects
   the properties that speak about it *)
From Coq Require Import List String ZArith NArith Bool.
From Bexpr Require Import Base Strconv Ast Univ Eval Api Dump GoTables TableTie.
Import ListNotations.
Open Scope string_scope.

(* kind -> coercion function and kind -> equality function: the model's scalar classes *)
Definition coerce_fn_of_class (c : sclass) : string :=
  match c with SBool => "CoerceBool" | SInt => "CoerceInt64" | SUint => "CoerceUint64" | SF32 => "CoerceFloat32" | SF64 => "CoerceFloat64"
             | SString | SNone => "<the literal as written>" end.
Lemma coercion_dispatch : forall k, table_or_default (kind_go k) go_coerce_of_kind = Some (coerce_fn_of_class (sclass_of k)).
Proof. intros []; reflexivity. Qed.
(* kind -> comparison function (the function from a reflect.Kind to a function value, found by its signature): kinds share a
   comparison function exactly when they are in one scalar class, and it is nil exactly for the kinds that are not scalars.
   The comparison functions' names are not prescribed. *)
Definition sclass_eqb (a b : sclass) : bool :=
  match a, b with SBool, SBool | SInt, SInt | SUint, SUint | SF32, SF32 | SF64, SF64 | SString, SString | SNone, SNone => true | _, _ => false end.
Definition ostr_eqb (a b : option string) : bool :=
  match a, b with Some x, Some y => String.eqb x y | None, None => true | _, _ => false end.
Lemma equality_dispatch : forall k1 k2,
  ostr_eqb (table_or_default (kind_go k1) go_equality_fn) (table_or_default (kind_go k2) go_equality_fn) = sclass_eqb (sclass_of k1) (sclass_of k2).
Proof. intros [] []; reflexivity. Qed.
Lemma equality_nil_for_non_scalars : forall k,
  ostr_eqb (table_or_default (kind_go k) go_equality_fn) (Some "nil") = sclass_eqb (sclass_of k) SNone.
Proof. intros []; reflexivity. Qed.

(* the strconv call behind each Coerce* function: function, base, bit size - what `coerce` calls *)
Lemma coerce_calls :
  assoc "CoerceInt64" go_coerce_calls = Some ("strconv.ParseInt", [0; 64]%Z)
  /\ assoc "CoerceUint64" go_coerce_calls = Some ("strconv.ParseUint", [0; 64]%Z)
  /\ assoc "CoerceBool" go_coerce_calls = Some ("strconv.ParseBool", []%Z)
  /\ assoc "CoerceFloat32" go_coerce_calls = Some ("strconv.ParseFloat", [32]%Z)
  /\ assoc "CoerceFloat64" go_coerce_calls = Some ("strconv.ParseFloat", [64]%Z).
Proof. repeat split; reflexivity. Qed.
Lemma coerce_uses_those_calls : forall k raw,
  coerce k raw = match sclass_of k with
                 | SBool => match parse_bool raw with POk b => Ok (LBool b) | PErr e => Err (perr_c e) end
                 | SInt => match parse_int raw 0 64 with POk z => Ok (LInt z) | PErr e => Err (perr_c e) end
                 | SUint => match parse_uint raw 0 64 with POk z => Ok (LUint z) | PErr e => Err (perr_c e) end
                 | SF32 => match parse_float raw 32 with POk z => Ok (LF32 z) | PErr e => Err (perr_c e) end
                 | SF64 => match parse_float raw 64 with POk z => Ok (LF64 z) | PErr e => Err (perr_c e) end
                 | _ => Ok (LStr raw) end.
Proof. reflexivity. Qed.

