(* the action code of the match, value and literal rules, as regenerated from grammar.go, equals the copy the action semantics was written against (C04) *)
From Coq Require Import List String Bool.
From Bexpr Require Import Base Ast Unicode Peg GoGrammar ActionsPinned ActionsPinBy.
Import ListNotations.
Open Scope string_scope.

Lemma match_actions_pinned : about match_rules go_actions = about match_rules pinned_actions.
Proof. vm_compute. reflexivity. Qed.
