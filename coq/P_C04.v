(* Property C04 - negated operators are exact complements; contains is in with operands flipped. Statements only (proofs: Props.v). *)
From Coq Require Import List String ZArith NArith Bool. From Bexpr Require Import Base Strconv Ast Univ Eval Props. Import ListNotations.

Theorem c04_absent_table :
  forall p : matchop, positive p = true -> disposition (neg_of p) = negb (disposition p).
Proof. exact Props.c04_absent_table. Qed.
Print Assumptions c04_absent_table.

Theorem c04_complement :
  forall (re : string -> string -> option bool) (cfg : config) (ls : locals) (s : selector) (v : option string) (d : iface) (p : matchop),
  positive p = true -> eval re cfg ls (EMatch s (neg_of p) v) d = negate (eval re cfg ls (EMatch s p v) d).
Proof. exact Props.c04_complement. Qed.
Print Assumptions c04_complement.

Theorem c04_not_wrapper :
  forall (re : string -> string -> option bool) (cfg : config) (ls : locals) (s : selector) (v : option string) (d : iface) (p : matchop),
  positive p = true -> eval re cfg ls (ENot (EMatch s p v)) d = eval re cfg ls (EMatch s (neg_of p) v) d.
Proof. exact Props.c04_not_wrapper. Qed.
Print Assumptions c04_not_wrapper.


(* ---- ties to the constant tables regenerated from the Go sources (tools/gotables -> GoTables.v) ---- *)
From Coq Require Import List String ZArith NArith Bool. From Bexpr Require Import Base Strconv Ast Univ Eval Api Dump GoTables TableTie TieNotPresent. Import ListNotations.

Theorem not_present_table :
  forall op : matchop, table_or_default (mop_go op) go_not_present = Some (bool_go (disposition op)).
Proof. exact TieNotPresent.not_present_table. Qed.
Print Assumptions not_present_table.


(* the kinds `is empty` / `is not empty` are defined on: doMatchIsEmpty's case labels (read from evaluate.go) against the model *)
From Bexpr Require Import TieKinds.

Theorem is_empty_kinds :
  forall k : kind, existsb (String.eqb (kind_go k)) go_is_empty_kinds = has_length k.
Proof. exact TieKinds.is_empty_kinds. Qed.
Print Assumptions is_empty_kinds.

Theorem do_is_empty_by_kind :
  forall v : rv,
  do_is_empty v =
  (if has_length (kind_of v) then match r_len v with
                                  | Some n => Out (n =? 0)%nat None
                                  | None => Panic
                                  end else Out false (Some ENoLen)).
Proof. exact TieKinds.do_is_empty_by_kind. Qed.
Print Assumptions do_is_empty_by_kind.
