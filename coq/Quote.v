From Coq Require Import List ZArith String Ascii Bool NArith.
Import ListNotations.
From Bexpr Require Import Base Unicode.
Open Scope string_scope.
Open Scope Z_scope.

(* strconv.Quote (what fmt's %q prints for a string) *)
Definition is_print (r : Z) : bool := existsb (fun '(lo, hi) => (lo <=? r) && (r <=? hi)) go_is_print.

Definition hexd (n : Z) : ascii := z2b (if n <? 10 then 48 + n else 87 + n).
Fixpoint hex_digits (k : nat) (v : Z) (acc : string) : string :=
  match k with O => acc | S k' => hex_digits k' (v / 16) (String (hexd (v mod 16)) acc) end.

Definition bs2 (c : ascii) : string := String "\"%char (String c "").

Definition quote_rune (c : cell) : string :=
  let r := crune c in
  if negb (cvalid c) then "\x" ++ hex_digits 2 (b2z (match cbytes c with String b _ => b | _ => zero end)) ""
  else if r =? 34 then bs2 (z2b 34)
  else if r =? 92 then bs2 "\"%char
  else if is_print r then cbytes c
  else if r =? 7 then "\a" else if r =? 8 then "\b" else if r =? 12 then "\f" else if r =? 10 then "\n"
  else if r =? 13 then "\r" else if r =? 9 then "\t" else if r =? 11 then "\v"
  else if (r <? 32) || (r =? 127) then "\x" ++ hex_digits 2 r ""
  else if r <? 65536 then "\u" ++ hex_digits 4 r ""
  else "\U" ++ hex_digits 8 r "".

Definition go_quote (s : string) : string :=
  String (z2b 34) (sconcat (map quote_rune (utf8_cells s)) ++ String (z2b 34) "").
