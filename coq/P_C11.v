(* Property C11 - WithMaxExpressions is an exact, monotone budget on parser work.
   Statements only; proofs in Budget.v (simulation "the limited run is a prefix of the unlimited run"),
   BudgetTerm.v (termination under a budget, any grammar), Glue.v. *)
From Coq Require Import List String NArith.
From Bexpr Require Import Base Ast Unicode Peg Actions GoGrammar Budget BudgetTerm Api C11b Canon ModelApi.

(* if the unlimited parse takes N0 steps: every budget n >= N0 gives exactly the unlimited result, and every budget
   n < N0 is rejected with the max-expressions flag after exactly n+1 steps *)
Theorem c11_budget : forall fuel input N0,
  pcount (parse go_grammar None action_sem pred_sem fuel input) = Some N0 ->
  (forall n, (N0 <= n)%N -> parse go_grammar (Some n) action_sem pred_sem fuel input = parse go_grammar None action_sem pred_sem fuel input) /\
  (forall n, (n < N0)%N -> exists k, parse go_grammar (Some n) action_sem pred_sem fuel input = Rejected k (N.succ n) true).
Proof. exact (parse_budget go_grammar action_sem pred_sem). Qed.
Print Assumptions c11_budget.

(* the same for ANY grammar table (the budget mechanism does not depend on the grammar) *)
Theorem c11_budget_any_grammar : forall g asem psem fuel input N0,
  pcount (parse g None asem psem fuel input) = Some N0 ->
  (forall n, (N0 <= n)%N -> parse g (Some n) asem psem fuel input = parse g None asem psem fuel input) /\
  (forall n, (n < N0)%N -> exists k, parse g (Some n) asem psem fuel input = Rejected k (N.succ n) true).
Proof. exact parse_budget. Qed.
Print Assumptions c11_budget_any_grammar.

(* adversarial input cannot make a limited parse run on: with budget n, recursion depth n+2 always suffices,
   for every grammar (left-recursive or not) and every input *)
Theorem c11_budgeted_parse_terminates : forall g n asem psem input fuel,
  (N.of_nat fuel > n + 1)%N -> parse g (Some n) asem psem fuel input <> NoFuel.
Proof. exact budgeted_parse_terminates. Qed.
Print Assumptions c11_budgeted_parse_terminates.

(* WithMaxExpressions(0) is no budget *)
Theorem c11_zero_is_unlimited : forall fuel src os, o_max (get_opts os) = 0%N ->
  create (fun mx s => the_parse mx fuel s) src os = create (fun mx s => the_parse mx fuel s) src (app os (cons (OMaxExpr 0) nil)).
Proof. exact C11b.c11_zero_is_unlimited. Qed.
Print Assumptions c11_zero_is_unlimited.

(* the executable entry point of the correspondence check *)
Theorem c11_model_parse_budget : forall s N0,
  pcount (model_parse None s) = Some N0 ->
  (forall n, (N0 <= n)%N -> model_parse (Some n) s = model_parse None s) /\
  (forall n, (n < N0)%N -> exists k, model_parse (Some n) s = Rejected k (N.succ n) true).
Proof. intros s N0. exact (parse_budget (canon_go go_grammar) action_sem pred_sem big_fuel s N0). Qed.
Print Assumptions c11_model_parse_budget.
