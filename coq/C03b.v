(* C03, consequences for chains: and/or group freely (the parser's right-nesting and any parenthesisation denote the same
   outcome), a chain is the left-to-right fold of its operands' outcomes, repeating an operand is idempotent, and a LATER
   repetition of an operand in a chain is redundant (an earlier one is not: it decides what is reached). *)
From Coq Require Import List ZArith String Bool.
Import ListNotations.
From Bexpr Require Import Base Strconv Ast Univ Eval Props.
Open Scope string_scope.

Section Chains.
Variable re : string -> string -> option bool.
Variables (cfg : config) (ls : locals) (d : iface).
Local Notation "'ev' e" := (eval re cfg ls e d) (at level 10, e at level 9).

Definition stops (op : binop) (o : outcome) : bool :=
  is_panic o || is_err o || (match op with BAnd => negb (val o) | BOr => val o end).

Lemma c03_bin op a b : ev (EBin op a b) = if stops op (ev a) then ev a else ev b.
Proof. destruct op; [apply c03_and|apply c03_or]. Qed.

Theorem c03_grouping_irrelevant op a b c : ev (EBin op (EBin op a b) c) = ev (EBin op a (EBin op b c)).
Proof.
  rewrite !c03_bin. destruct (stops op (ev a)) eqn:Ea; [rewrite Ea; reflexivity|]. reflexivity.
Qed.

Fixpoint chain (op : binop) (es : list expr) (last : expr) : expr :=
  match es with [] => last | e :: r => EBin op e (chain op r last) end.

Theorem c03_chain_is_fold op es last :
  ev (chain op es last) = fold_right (fun e k => if stops op (ev e) then ev e else k) (ev last) es.
Proof. induction es as [|e r IH]; [reflexivity|]. cbn [chain fold_right]. rewrite c03_bin, IH. reflexivity. Qed.

Theorem c03_idempotent op a : ev (EBin op a a) = ev a.
Proof. rewrite c03_bin. destruct (stops op (ev a)); reflexivity. Qed.

(* a or b or a = a or b; a and b and a = a and b *)
Theorem c03_later_repeat_is_redundant op a b : ev (EBin op a (EBin op b a)) = ev (EBin op a b).
Proof.
  rewrite !c03_bin. destruct (stops op (ev a)) eqn:Ea; [reflexivity|].
  destruct (stops op (ev b)) eqn:Eb; [reflexivity|].
  (* neither stops: both are clean and non-decisive, so the chain's value is a's, which equals b's *)
  unfold stops in Ea, Eb.
  destruct (ev a) as [va [ea|]|]; cbn in Ea; try discriminate.
  destruct (ev b) as [vb [eb|]|]; cbn in Eb; try discriminate.
  destruct op, va, vb; cbn in *; try discriminate; reflexivity.
Qed.
End Chains.

(* the earlier occurrence is NOT redundant: dropping it changes the outcome when it is the one that errors or decides *)
Example earlier_repeat_matters :
  let a := EMatch {| stype := SelBexpr; spath := ["a"] |} OpEq (Some "1") in
  let e := EMatch {| stype := SelBexpr; spath := ["a"] |} OpIsEmpty None in
  let d := Some (TMap TString TIface, VMap false [(VStr "a", VIface (TInt I0) (VInt 1))]) in
  let re := fun _ _ : string => None in
  let cfg := {| tagname := "bexpr"; hook := None; unknown := None |} in
  eval re cfg [] (EBin BOr a (EBin BOr e a)) d = Out true None /\ is_err (eval re cfg [] (EBin BOr e a) d) = true.
Proof. vm_compute. split; reflexivity. Qed.

Print Assumptions c03_grouping_irrelevant.
Print Assumptions c03_chain_is_fold.
Print Assumptions c03_later_repeat_is_redundant.
