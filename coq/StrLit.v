From Coq Require Import List ZArith String Ascii Bool NArith Lia.
Import ListNotations.
From Bexpr Require Import Base Ast Unicode Peg Typing Actions GoGrammar Sem Term Lex Lex2 Lex3 Calc Calc2 Skel.
Open Scope string_scope.

(* Double-quoted string literals and the Value rule, at the level of the grammar. *)

Definition not_dq (c : cell) : Prop := crune c <> 34%Z.

Lemma dsc_ok c rest : not_dq c -> pe_any (PRef "DoubleStringChar") (c :: rest) rest.
Proof.
  intros Hc. eapply pe_ok_any. eapply ref_any; [reflexivity|]. cbn [rexpr].
  apply seq_any. eapply seqs_any_cons.
  - eapply pe_ok_any. apply not_ok. exact (fails_f (head_not 34) _ (c :: rest) (fails_lit 34 []) Hc).
  - eapply seqs_any_cons; [eapply pe_ok_any; apply any_ok| apply seqs_any_nil].
Qed.

Lemma dsc_fails q rest : crune q = 34%Z -> fspecj (PRef "DoubleStringChar") (q :: rest).
Proof.
  intros Hq. eapply fref; [reflexivity|]. cbn [rexpr]. apply fseq. apply fseqs_here.
  eapply not_fails. eapply pe_ok_any. apply (lit_ok [34]%Z [q] rest). cbn. rewrite Hq. reflexivity.
Qed.

Lemma action_strlit f t : action_sem "StringLiteral2" f t = match unquote t with Some s => AVal (VStr s) | None => AErr (VStr "") end.
Proof. reflexivity. Qed.

Lemma text_between_prefix' (cs k : list cell) i : i = app cs k -> text_between i k = cells_str cs.
Proof. intros ->. apply text_between_prefix. Qed.

(* "body" : the value is what Unquote makes of the text *)
Theorem string_literal_spec q cs q' k lit :
  crune q = 34%Z -> crune q' = 34%Z -> Forall not_dq cs ->
  unquote (cells_str (q :: app cs [q'])) = Some lit ->
  spec (PRef "StringLiteral") (q :: app cs (q' :: k)) (VStr lit) k.
Proof.
  intros Hq Hq' Hcs Hu.
  eapply ref_ok; [reflexivity|]. cbn [rexpr]. apply spec_j. apply choice_ok. apply specc_here.
  eapply action_any.
  - apply choice_any. apply pec_next.
    + apply fseq. apply fseqs_here. refine (fails_f (head_not 96) _ (q :: app cs (q' :: k)) (fails_lit 96 []) _). cbn. rewrite Hq. discriminate.
    + apply pec_here. apply seq_any.
      eapply seqs_any_cons; [eapply pe_ok_any; apply (lit_ok [34]%Z [q] _); cbn; rewrite Hq; reflexivity|].
      eapply seqs_any_cons; [eapply pe_ok_any; apply (star_ok _ not_dq (q' :: k) dsc_ok (dsc_fails q' k Hq') cs Hcs)|].
      eapply seqs_any_cons; [eapply pe_ok_any; apply (lit_ok [34]%Z [q'] k); cbn; rewrite Hq'; reflexivity|].
      apply seqs_any_nil.
  - intros G. rewrite action_strlit.
    rewrite (text_between_prefix' (q :: app cs [q']) k); [rewrite Hu; reflexivity|].
    cbn [app]. rewrite <- app_assoc. reflexivity.
Qed.
Print Assumptions string_literal_spec.

(* ---- the Value rule on a quoted literal whose body does not start with a slash ---- *)
Section QuotedValue.
Variables (q x : cell) (rest : list cell).
Hypothesis Hq : crune q = 34%Z.
Hypothesis Hx47 : crune x <> 47%Z.
Hypothesis Hx34 : crune x <> 34%Z.
Let i := q :: x :: rest.

Lemma jps_fails : fspecj (PRef "JsonPointerSegment") (x :: rest).
Proof.
  eapply fref; [reflexivity|]. cbn [rexpr]. apply faction. apply fseq. apply fseqs_here.
  exact (fails_f (head_not 47) _ (x :: rest) (fails_lit 47 []) Hx47).
Qed.

Lemma selector_fails_on_quote : fspecj (PRef "Selector") i.
Proof.
  eapply fref; [reflexivity|]. cbn [rexpr]. apply fchoice. constructor; [|constructor; [|constructor]].
  - apply faction. apply fseq. apply fseqs_here. apply flabeled.
    eapply fref; [reflexivity|]. cbn [rexpr]. apply faction. apply fseq. apply fseqs_here.
    apply fclass. unfold i. cbn. rewrite Hq. reflexivity.
  - apply faction. apply fseq.
    eapply fseqs_later_any; [eapply pe_ok_any; apply (lit_ok [34]%Z [q] (x :: rest)); cbn; rewrite Hq; reflexivity|].
    eapply fseqs_later_any.
    + apply lab_any. eapply pe_ok_any.
      exact (star_ok (PRef "JsonPointerSegment") (fun _ => False) (x :: rest) (fun c r (H : False) => match H with end) jps_fails [] (Forall_nil _)).
    + apply fseqs_here. exact (fails_f (head_not 34) _ (x :: rest) (fails_lit 34 []) Hx34).
Qed.

Lemma iof_fails : fspecj (PRef "IntegerOrFloat") i.
Proof.
  eapply fref; [reflexivity|]. cbn [rexpr]. apply fseq. apply fseqs_here. apply fchoice.
  constructor; [|constructor; [|constructor]].
  - refine (fails_f (head_not 48) _ i (fails_lit 48 []) _). unfold i. cbn. rewrite Hq. discriminate.
  - apply fseq. apply fseqs_here. apply fclass. unfold i. cbn. rewrite Hq. reflexivity.
Qed.

Lemma minus_fails : fspecj (PLit [45]%Z false) i.
Proof. refine (fails_f (head_not 45) _ i (fails_lit 45 []) _). unfold i. cbn. rewrite Hq. discriminate. Qed.

Lemma number_fails_on_quote : fspecj (PRef "NumberLiteral") i.
Proof.
  eapply fref; [reflexivity|]. cbn [rexpr]. apply fchoice. constructor; [|constructor; [|constructor]].
  - apply faction. apply fseq. eapply fseqs_later; [apply (opt_none _ i minus_fails)|]. apply fseqs_here. apply iof_fails.
  - apply fseq. eapply fseqs_later; [apply (opt_none _ i minus_fails)|]. apply fseqs_here. apply iof_fails.
Qed.
End QuotedValue.

Theorem value_quoted_spec q x cs q' k lit :
  crune q = 34%Z -> crune q' = 34%Z -> crune x <> 47%Z -> Forall not_dq (x :: cs) ->
  unquote (cells_str (q :: app (x :: cs) [q'])) = Some lit ->
  spec (PRef "Value") (q :: app (x :: cs) (q' :: k)) (VMV lit) k.
Proof.
  intros Hq Hq' Hx Hcs Hu. inversion Hcs as [|? ? Hx34 _]; subst.
  eapply ref_ok; [reflexivity|]. cbn [rexpr]. apply spec_j. apply choice_ok.
  apply specc_next; [apply faction; apply flabeled; cbn [app]; apply (selector_fails_on_quote q x _ Hq Hx Hx34)|].
  apply specc_next; [apply faction; apply flabeled; cbn [app]; apply (number_fails_on_quote q x _ Hq)|].
  apply specc_here. eapply action_ok; [apply lab_ok; apply (string_literal_spec q (x :: cs) q' k lit Hq Hq' Hcs Hu)|].
  intros G. reflexivity.
Qed.
Print Assumptions value_quoted_spec.
