(* Property C07 - dotted, bracket-indexed and JSON-Pointer spellings of a path are interchangeable. Parser half: every mix of .name / .digits / ["literal"] and the pointer spelling is read as the same path (Spell.v, Ptr.v); evaluator half: eval consumes a selector only through its path (C07b.v). Statements only. *)
From Coq Require Import List String ZArith NArith Bool. From Bexpr Require Import Base Strconv Ast Unicode Peg Typing Actions GoGrammar Sem Calc Calc2 Lex Lex2 Lex3 Skel Top C07 Spell Ptr Univ Eval C07b C10 ActionsPinned ActionsPinBy ActionsPinSel. Import ListNotations.

Theorem c07_pointer_escapes :
  forall s : string, ptr_unescape (ptr_escape s) = s.
Proof. exact C07.c07_pointer_escapes. Qed.
Print Assumptions c07_pointer_escapes.

Theorem selector_mixed :
  forall (c : cell) (cs : list cell) (segs : list seg) (k : list cell),
  class_match cls_id_head (crune c) = true ->
  id_tail_ok cs ->
  Forall seg_ok segs ->
  seg_stop k ->
  no_dot_no_bracket k ->
  spec (PRef "Selector") (c :: cs ++ segs_cells segs k) (VSel {| stype := SelBexpr; spath := cells_str (c :: cs) :: map seg_part segs |}) k.
Proof. exact Spell.selector_mixed. Qed.
Print Assumptions selector_mixed.

Theorem c07_spellings_same_path :
  forall (c : cell) (cs : list cell) (segs1 segs2 : list seg) (k : list cell),
  class_match cls_id_head (crune c) = true ->
  id_tail_ok cs ->
  Forall seg_ok segs1 ->
  Forall seg_ok segs2 ->
  seg_stop k ->
  no_dot_no_bracket k ->
  map seg_part segs1 = map seg_part segs2 ->
  exists v : pv, spec (PRef "Selector") (c :: cs ++ segs_cells segs1 k) v k /\ spec (PRef "Selector") (c :: cs ++ segs_cells segs2 k) v k.
Proof. exact Spell.c07_spellings_same_path. Qed.
Print Assumptions c07_spellings_same_path.

Theorem three_spellings :
  seg_part (SNum (ac (Ascii.Ascii false false false false true true false false)) []) = "0" /\
  seg_ok (SNum (ac (Ascii.Ascii false false false false true true false false)) []) /\
  seg_part
    (SIdx (ac (Ascii.Ascii true true false true true false true false)) [] (ac (Ascii.Ascii false true false false false true false false))
       [ac (Ascii.Ascii false false false false true true false false)] (ac (Ascii.Ascii false true false false false true false false))
       [Atoms.sp] (ac (Ascii.Ascii true false true true true false true false)) "0") = "0" /\
  seg_ok
    (SIdx (ac (Ascii.Ascii true true false true true false true false)) [] (ac (Ascii.Ascii false true false false false true false false))
       [ac (Ascii.Ascii false false false false true true false false)] (ac (Ascii.Ascii false true false false false true false false))
       [Atoms.sp] (ac (Ascii.Ascii true false true true true false true false)) "0") /\
  seg_part
    (SDot (ac (Ascii.Ascii false true false false false true true false)) [ac (Ascii.Ascii false false false false true true false false)]) =
  "b0" /\
  seg_ok (SDot (ac (Ascii.Ascii false true false false false true true false)) [ac (Ascii.Ascii false false false false true true false false)]) /\
  seg_part
    (SIdx (ac (Ascii.Ascii true true false true true false true false)) [] (ac (Ascii.Ascii false false false false false true true false))
       [ac (Ascii.Ascii false false false false true true false false)] (ac (Ascii.Ascii false false false false false true true false))
       [Atoms.sp] (ac (Ascii.Ascii true false true true true false true false)) "0") = "0" /\
  seg_ok
    (SIdx (ac (Ascii.Ascii true true false true true false true false)) [] (ac (Ascii.Ascii false false false false false true true false))
       [ac (Ascii.Ascii false false false false true true false false)] (ac (Ascii.Ascii false false false false false true true false))
       [Atoms.sp] (ac (Ascii.Ascii true false true true true false true false)) "0").
Proof. exact Spell.three_spellings. Qed.
Print Assumptions three_spellings.

Theorem selector_pointer :
  forall (q : cell) (ps : list pseg) (q' : cell) (k : list cell),
  crune q = 34 ->
  crune q' = 34 ->
  Forall pseg_ok ps ->
  spec (PRef "Selector") (q :: psegs_cells ps (q' :: k)) (VSel {| stype := SelJsonPtr; spath := ptr_parts (map pseg_str ps) |}) k.
Proof. exact Ptr.selector_pointer. Qed.
Print Assumptions selector_pointer.

Theorem selector_pointer_parts :
  forall (q : cell) (ps : list pseg) (q' : cell) (k : list cell) (parts : list string),
  crune q = 34 ->
  crune q' = 34 ->
  Forall pseg_ok ps ->
  parts <> [] ->
  map pseg_str ps = map ptr_escape parts ->
  spec (PRef "Selector") (q :: psegs_cells ps (q' :: k)) (VSel {| stype := SelJsonPtr; spath := parts |}) k.
Proof. exact Ptr.selector_pointer_parts. Qed.
Print Assumptions selector_pointer_parts.

Theorem c07_eval_ignores_selector_type :
  forall (re : string -> string -> option bool) (cfg : config) (d : iface) (a b : expr) (ls : locals),
  same_paths a b -> eval re cfg ls a d = eval re cfg ls b d.
Proof. exact C07b.c07_eval_ignores_selector_type. Qed.
Print Assumptions c07_eval_ignores_selector_type.


(* a bracket part may be written in back quotes as well (seg_ok's quoted_body); a carriage return inside back quotes is dropped *)
Theorem raw_part_drops_cr :
  seg_ok
    (SIdx (ac (Ascii.Ascii true true false true true false true false)) [] (ac (Ascii.Ascii false false false false false true true false))
       [ac (Ascii.Ascii false true false false false true true false); ac (Ascii.ascii_of_nat 13)]
       (ac (Ascii.Ascii false false false false false true true false)) [] (ac (Ascii.Ascii true false true true true false true false)) "b").
Proof. exact Spell.raw_part_drops_cr. Qed.
Print Assumptions raw_part_drops_cr.

(* the selector rules' code blocks in grammar.go are the ones the action semantics above was written against *)
Theorem c07_selector_actions_as_modelled :
  about selector_rules GoGrammar.go_actions = about selector_rules ActionsPinned.pinned_actions.
Proof. exact ActionsPinSel.selector_actions_pinned. Qed.
Print Assumptions c07_selector_actions_as_modelled.
