(* C01, JSON documents: `jeval` is an interpreter of the documented semantics over JSON documents - selectors are resolved
   lexically and walked by key and index (jwalk), match operators have their documented meaning on JSON values (jmatch),
   not / and / or combine left to right with short-circuit, any / all fold over list elements in index order and over object
   members in sorted key order, an absent member of an object (selector of two or more parts) follows the table.
   With an unknown value configured (itself a JSON value), a selector that fails only because a member is absent from an
   object - at any depth - evaluates as if it had resolved to that value.
   Theorem json_eval_unknown: for every well-formed expression, every JSON document and every unknown value or none, Evaluate
   (the model of evaluate.go, no hook) never panics and returns exactly jeval's result (up to the error class); json_eval is
   the case without an unknown value. *)
From Coq Require Import List ZArith String Bool NArith Lia.
Import ListNotations.
From Bexpr Require Import Base Strconv Ast Univ Eval Typing Props Lexical Unroll LexEval Json JsonOps.
Open Scope string_scope.

Section JE.
Variable re : string -> string -> option bool.
Variable unk : option json.        (* the value given to WithUnknownValue, if any *)

(* a constant bound by a quantifier: a key (string) or an index (int) *)
Definition jint_match (op : matchop) (raw : option string) (z : Z) : option bool :=
  match op, raw with
  | OpEq, Some r => match parse_int r 0 64 with POk y => Some (Z.eqb y z) | PErr _ => None end
  | OpNeq, Some r => match parse_int r 0 64 with POk y => Some (negb (Z.eqb y z)) | PErr _ => None end
  | _, _ => None
  end.
Definition constmatch (op : matchop) (raw : option string) (v : iface) : option bool :=
  match v with
  | Some (TString, VStr k) => jmatch re op raw (JStr k)
  | Some (TInt I0, VInt z) => jint_match op raw z
  | _ => None
  end.
Definition const_ok (v : iface) : Prop :=
  match v with Some (TString, VStr _) | Some (TInt I0, VInt _) => True | _ => False end.
Definition env_ok (env : lenv) : Prop := Forall (fun nb => match snd nb with XConst v => const_ok v | _ => True end) env.

Inductive jsel := SErr | SAbsent | SConst (v : iface) | SVal (j : json).
Definition parent_is_object (p : list string) (root : json) : bool :=
  match jwalk (removelast p) root with JFound (JObj _) => true | _ => false end.
Definition jselect (env : lenv) (path : list string) (root : json) : jsel :=
  match lex_resolve env path with
  | Ok (inl v) => SConst v
  | Ok (inr p) =>
      match jwalk p root with
      | JFound x => SVal x
      | JNotFound =>
          match unk with
          | Some u => SVal u
          | None => if (2 <=? List.length p)%nat && parent_is_object p root then SAbsent else SErr
          end
      | _ => SErr end
  | _ => SErr
  end.

Fixpoint jloop (ev : locals -> option bool) (op : collop) (b : binding) (selpath : list string) (is_map : bool)
               (i : nat) (items : list string) : option bool :=
  match items with
  | [] => Some (coll_default op)
  | k :: rest =>
    if same_name b then None else
    match ev (bind_elem b selpath is_map i k) with
    | None => None
    | Some r => if decisive op r then Some r else jloop ev op b selpath is_map (S i) rest
    end
  end.

Fixpoint jeval (env : lenv) (e : expr) (root : json) {struct e} : option bool :=
  match e with
  | ENot a => option_map negb (jeval env a root)
  | EBin BAnd a b => match jeval env a root with Some true => jeval env b root | r => r end
  | EBin BOr a b => match jeval env a root with Some false => jeval env b root | r => r end
  | EMatch s op raw =>
      match jselect env (spath s) root with
      | SErr => None | SAbsent => Some (disposition op)
      | SConst v => constmatch op raw v | SVal x => jmatch re op raw x end
  | EColl op s b body =>
      match jselect env (spath s) root with
      | SErr | SConst _ => None
      | SAbsent => Some (coll_default op)
      | SVal (JArr l) => jloop (fun ext => jeval (lex_push ext env) body root) op b (spath s) false 0%nat (map (fun _ => "") l)
      | SVal (JObj kvs) => jloop (fun ext => jeval (lex_push ext env) body root) op b (spath s) true 0%nat (sort_keys (map fst kvs))
      | SVal _ => None
      end
  end.

(* ---- the lookup ---- *)
Lemma kind_doc_obj kvs : exists kvs', doc (JObj kvs) = Some (TMap TString TIface, VMap false kvs').
Proof. eexists. reflexivity. Qed.

Lemma not_present_json cfg p root : hook cfg = None ->
  not_present_ok cfg p (doc root) = (2 <=? List.length p)%nat && parent_is_object p root.
Proof.
  intros Hh. unfold not_present_ok, parent_is_object.
  destruct p as [|a [|b r]]; [reflexivity|reflexivity|].
  replace (2 <=? List.length (a :: b :: r))%nat with true by reflexivity. cbn [andb].
  rewrite (get_json cfg (removelast (a :: b :: r)) root Hh).
  destruct (jwalk (removelast (a :: b :: r)) root) as [x| | | |]; try reflexivity.
  destruct x; reflexivity.
Qed.

Lemma lex_resolve_np env path : lex_resolve env path <> RPanic.
Proof.
  unfold lex_resolve. destruct path as [|h t]; [discriminate|].
  destruct (lex_lookup env h) as [[q|v|]|]; try discriminate. destruct t; discriminate.
Qed.

Inductive gv_rel : result gv -> jsel -> Prop :=
| r_val x : gv_rel (Ok (GVal (doc x))) (SVal x)
| r_const v : gv_rel (Ok (GVal v)) (SConst v)
| r_abs : gv_rel (Ok GAbsent) SAbsent
| r_err e : gv_rel (Err e) SErr.

Lemma get_value_json cfg env path root : hook cfg = None -> unknown cfg = option_map doc unk ->
  gv_rel (lex_get_value cfg env path (doc root)) (jselect env path root).
Proof.
  intros Hh Hu. unfold lex_get_value, jselect.
  pose proof (lex_resolve_np env path) as Hnp.
  destruct (lex_resolve env path) as [[v|p]|e|]; [constructor| |constructor|congruence].
  rewrite (get_json cfg p root Hh), Hu, (not_present_json cfg p root Hh).
  destruct (jwalk p root) as [x| | | |]; try constructor.
  destruct unk as [u|]; cbn [option_map]; [constructor|].
  destruct ((2 <=? List.length p)%nat && parent_is_object p root); constructor.
Qed.

(* ---- environments only hold key / index constants ---- *)
Lemma lex_lookup_ok env h b : env_ok env -> lex_lookup env h = Some b -> match b with XConst v => const_ok v | _ => True end.
Proof.
  intros H. induction H as [|[n x] r Hx _ IH]; cbn [lex_lookup]; [discriminate|].
  destruct (String.eqb h n); [intros [= <-]; exact Hx|exact IH].
Qed.
Lemma lex_resolve_const_ok env path v : env_ok env -> lex_resolve env path = Ok (inl v) -> const_ok v.
Proof.
  intros He. unfold lex_resolve. destruct path as [|h t]; [discriminate|].
  destruct (lex_lookup env h) as [[q|c|]|] eqn:E; try discriminate.
  destruct t; [|discriminate]. intros [= <-]. exact (lex_lookup_ok env h (XConst c) He E).
Qed.
Lemma lex_conv_ok b env : env_ok env -> (match b with LConst v => const_ok v | LAlias _ => True end) ->
  match lex_conv b env with XConst v => const_ok v | _ => True end.
Proof.
  intros He Hb. destruct b as [p|v]; cbn [lex_conv]; [|exact Hb].
  destruct (lex_resolve env p) as [[v|q]|e|] eqn:E; try exact I. exact (lex_resolve_const_ok env p v He E).
Qed.
Lemma env_ok_push ext env : env_ok env -> Forall (fun nb => match snd nb with LConst v => const_ok v | LAlias _ => True end) ext ->
  env_ok (lex_push ext env).
Proof.
  intros He H. induction H as [|[n b] r Hb _ IH]; cbn [lex_push]; [exact He|].
  constructor; [|exact IH]. cbn [snd]. apply lex_conv_ok; [exact IH|exact Hb].
Qed.
Lemma bind_elem_consts b sp m i k : Forall (fun nb => match snd nb with LConst v => const_ok v | LAlias _ => True end) (bind_elem b sp m i k).
Proof.
  unfold bind_elem, opt_bind. destruct m;
  repeat (apply Forall_app; split); destruct (String.eqb _ ""); constructor; cbn; auto.
Qed.

(* ---- agreement ---- *)
Definition agrees (o : outcome) (r : option bool) : Prop := o <> Panic /\ clean o = r.

Lemma has_value_same op : has_value op = op_has_value op.
Proof. destruct op; reflexivity. Qed.

Local Transparent coerce.
Lemma int_const_match op raw z : (op_has_value op = true -> raw <> None) ->
  agrees (match_op re op raw (Some (TInt I0, VInt z))) (jint_match op raw z).
Proof.
  intros Hv. unfold match_op, json_narrow, r_indirect. cbn [kind_of kind_of_type under].
  assert (Hraw : op_has_value op = true -> exists r, raw = Some r).
  { intros H. destruct raw as [r|]; [eauto|]. exfalso. apply (Hv H). reflexivity. }
  destruct op; try (destruct (Hraw eq_refl) as [r ->]);
    cbn [do_equal do_in do_is_empty do_matches bytes_of kind_of kind_of_type under sclass_of coerce eq_fn negate jint_match clean perr_c];
    repeat match goal with |- context [match parse_int ?r ?b ?c with _ => _ end] => destruct (parse_int r b c) as [?|[|]] end;
    cbn; split; try discriminate; try reflexivity; destruct raw; reflexivity.
Qed.

Lemma const_match op raw v : const_ok v -> (op_has_value op = true -> raw <> None) ->
  agrees (match_op re op raw v) (constmatch op raw v).
Proof.
  intros Hc Hv. destruct v as [[t x]|]; [|contradiction].
  destruct t as [|w| | | | | | | | | | | | | | | |]; try contradiction; [destruct w; try contradiction|];
    destruct x as [|z|z| | |s0| | | | | | | | |]; try contradiction.
  - apply int_const_match. exact Hv.
  - cbn [constmatch]. change (Some (TString, VStr s0)) with (doc (JStr s0)). apply match_op_json. rewrite has_value_same. exact Hv.
Qed.

Lemma loop_agrees (ev : locals -> outcome) (jev : locals -> option bool) op b sp m :
  (forall i k, agrees (ev (bind_elem b sp m i k)) (jev (bind_elem b sp m i k))) ->
  forall items i, agrees (coll_loop ev op b sp m i items) (jloop jev op b sp m i items).
Proof.
  intros H. induction items as [|k r IH]; intros i; cbn [coll_loop jloop]; [split; [discriminate|reflexivity]|].
  destruct (same_name b); [split; [discriminate|reflexivity]|].
  destruct (H i k) as [Hp Hc]. destruct (ev (bind_elem b sp m i k)) as [x [e|]|]; cbn [clean] in Hc; try congruence.
  - rewrite <- Hc. split; [discriminate|reflexivity].
  - rewrite <- Hc. destruct (decisive op x); [split; [discriminate|reflexivity]|apply IH].
Qed.

Lemma keys_of_embed kvs :
  map (fun kv : gval * gval => match fst kv with VStr k => k | _ => "" end) (map (fun kv : string * json => (VStr (fst kv), embed (snd kv))) kvs) = map fst kvs.
Proof. rewrite map_map. apply map_ext. intros [k v]. reflexivity. Qed.

Theorem lex_eval_json cfg root : hook cfg = None -> unknown cfg = option_map doc unk ->
  forall e env, wf_ast e -> env_ok env -> agrees (lex_eval re cfg env e (doc root)) (jeval env e root).
Proof.
  intros Hh Hu. induction e as [a IHa|o a IHa b IHb|s op raw|o s bd inner IH]; intros env Hw He.
  - cbn [lex_eval jeval]. destruct Hw as [Hw _]. destruct (IHa env Hw He) as [Hp Hc].
    destruct (lex_eval re cfg env a (doc root)) as [x [e|]|]; cbn [clean] in Hc; try congruence; rewrite <- Hc; split; try discriminate; reflexivity.
  - destruct Hw as [Hwa Hwb]. destruct (IHa env Hwa He) as [Hp Hc]. pose proof (IHb env Hwb He) as Hb.
    destruct o; cbn [lex_eval jeval];
    destruct (lex_eval re cfg env a (doc root)) as [x [e|]|]; cbn [clean] in Hc; try congruence; rewrite <- Hc; cbn [is_err orb negb];
    try (split; [discriminate|reflexivity]); destruct x; cbn [negb]; try exact Hb; split; try discriminate; reflexivity.
  - cbn [lex_eval jeval]. cbn [wf_ast] in Hw.
    pose proof (get_value_json cfg env (spath s) root Hh Hu) as Hg.
    destruct (jselect env (spath s) root) eqn:Es; inversion Hg as [x Hx|v0 Hx|Hx|e0 Hx]; subst.
    + split; [discriminate|reflexivity].
    + split; [discriminate|reflexivity].
    + apply const_match; [|apply Hw].
      unfold jselect in Es. destruct (lex_resolve env (spath s)) as [[c|p]|e|] eqn:El; try discriminate.
      * injection Es as <-. exact (lex_resolve_const_ok env _ _ He El).
      * destruct (jwalk p root); try discriminate. destruct unk; [discriminate|]. destruct (_ && _); discriminate.
    + apply match_op_json. rewrite has_value_same. apply Hw.
  - cbn [lex_eval jeval]. cbn [wf_ast] in Hw.
    pose proof (get_value_json cfg env (spath s) root Hh Hu) as Hg.
    assert (Hbody : forall m i k, agrees (lex_eval re cfg (lex_push (bind_elem bd (spath s) m i k) env) inner (doc root))
                                         (jeval (lex_push (bind_elem bd (spath s) m i k) env) inner root)).
    { intros m i k. apply IH; [exact Hw|]. apply env_ok_push; [exact He|apply bind_elem_consts]. }
    destruct (jselect env (spath s) root) as [| |v|x] eqn:Es; inversion Hg as [x' Hx|v0 Hx|Hx|e0 Hx]; subst.
    + split; [discriminate|reflexivity].
    + split; [discriminate|reflexivity].
    + (* a key / index constant is not iterable *)
      assert (Hc : const_ok v).
      { unfold jselect in Es. destruct (lex_resolve env (spath s)) as [[c|p]|e|] eqn:El; try discriminate.
        - injection Es as <-. exact (lex_resolve_const_ok env _ _ He El).
        - destruct (jwalk p root); try discriminate. destruct unk; [discriminate|]. destruct (_ && _); discriminate. }
      destruct v as [[t y]|]; [|contradiction].
      destruct t as [|w| | | | | | | | | | | | | | | |]; try contradiction; [destruct w; try contradiction|];
        destruct y; try contradiction; split; try discriminate; reflexivity.
    + destruct x as [|b0|f|n|str|l|kvs]; try (split; [discriminate|reflexivity]).
      * (* list *)
        unfold doc, slot. cbn [embed r_interface kind_of kind_of_type under].
        rewrite map_map. apply loop_agrees. intros i k. apply Hbody.
      * (* object *)
        unfold doc, slot. cbn [embed r_interface kind_of kind_of_type under key_type type_eqb].
        rewrite keys_of_embed. apply loop_agrees. intros i k. apply Hbody.
Qed.

(* the statement for Evaluate itself: the evaluator on a JSON document is the documented interpreter *)
Theorem json_eval_unknown cfg e root : hook cfg = None -> unknown cfg = option_map doc unk -> wf_ast e ->
  eval re cfg [] e (doc root) <> Panic /\ clean (eval re cfg [] e (doc root)) = jeval [] e root.
Proof.
  intros Hh Hu Hw. rewrite (c06_lexical_scoping re cfg (doc root) e [] (Forall_nil _)). cbn [lexify].
  apply lex_eval_json; auto. constructor.
Qed.
End JE.

(* without an unknown value *)
Theorem json_eval re cfg e root : hook cfg = None -> unknown cfg = None -> wf_ast e ->
  eval re cfg [] e (doc root) <> Panic /\ clean (eval re cfg [] e (doc root)) = jeval re None [] e root.
Proof. intros Hh Hu Hw. exact (json_eval_unknown re None cfg e root Hh Hu Hw). Qed.

(* C05 on JSON documents, stated against the documented interpreter: with an unknown value u, an expression evaluates on a
   document in which a member is absent exactly as the interpreter says when every such selector stands for u *)
Corollary json_unknown_is_substitution re u cfg e root : hook cfg = None -> unknown cfg = Some (doc u) -> wf_ast e ->
  clean (eval re cfg [] e (doc root)) = jeval re (Some u) [] e root.
Proof. intros Hh Hu Hw. exact (proj2 (json_eval_unknown re (Some u) cfg e root Hh Hu Hw)). Qed.
Print Assumptions json_eval.
Print Assumptions json_eval_unknown.

(* non-vacuity: a document and an expression with a quantifier, an absent member and an error-free result *)
Example json_eval_example :
  let root := JObj [("items", JArr [JObj [("n", JNum 0); ("tags", JArr [JStr "a"])]; JObj [("n", JNum 0)]]); ("name", JStr "x")] in
  let e := EBin BAnd (EMatch {| stype := SelBexpr; spath := ["name"] |} OpEq (Some "x"))
                     (EColl CAny {| stype := SelBexpr; spath := ["items"] |} {| bmode := BDefault; bdefault := "it"; bindex := ""; bvalue := "" |}
                            (EMatch {| stype := SelBexpr; spath := ["it"; "tags"] |} OpIsEmpty None)) in
  jeval (fun _ _ => None) None [] e root = Some true.
Proof. vm_compute. reflexivity. Qed.

(* with the unknown value "x", an absent member compares equal to x - at the top level too, where without it the selector is an error *)
Example json_unknown_example :
  let root := JObj [("a", JObj [("b", JNum 0)])] in
  let sel p := {| stype := SelBexpr; spath := p |} in
  jeval (fun _ _ => None) (Some (JStr "x")) [] (EMatch (sel ["a"; "zz"]) OpEq (Some "x")) root = Some true /\
  jeval (fun _ _ => None) (Some (JStr "x")) [] (EMatch (sel ["zz"]) OpEq (Some "x")) root = Some true /\
  jeval (fun _ _ => None) None [] (EMatch (sel ["zz"]) OpEq (Some "x")) root = None /\
  jeval (fun _ _ => None) None [] (EMatch (sel ["a"; "zz"]) OpEq (Some "x")) root = Some false /\
  jeval (fun _ _ => None) (Some JNull) [] (EMatch (sel ["a"; "zz"]) OpEq (Some "x")) root = None.
Proof. vm_compute. repeat split. Qed.
