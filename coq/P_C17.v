(* Property C17 - Filter.Execute returns exactly the elements for which Evaluate is true. Statements only (proofs: Api.v, ApiMore.v). *)
From Coq Require Import List String ZArith NArith Bool Permutation. From Bexpr Require Import Base Strconv Ast Univ Eval Api ApiMore. Import ListNotations.

Theorem c17_slice :
  forall (re : string -> string -> option bool) (ev : evaluator) (t : gtype) (n : bool) (l : list gval),
  kind_of_type t = KSlice ->
  forallb (fun x : gval => clean (evaluate re ev (r_interface (Some (elem_type t, x))))) l = true ->
  execute re (Some ev) (Some (t, VSlice n l)) =
  FSlice t (filter (fun x : gval => is_true (evaluate re ev (r_interface (Some (elem_type t, x))))) l).
Proof. exact Api.c17_slice. Qed.
Print Assumptions c17_slice.

Theorem c17_array_becomes_slice :
  forall (re : string -> string -> option bool) (ev : evaluator) (t : gtype) (l : list gval),
  kind_of_type t = KArray ->
  forallb (fun x : gval => clean (evaluate re ev (r_interface (Some (elem_type t, x))))) l = true ->
  execute re (Some ev) (Some (t, VArray l)) =
  FSlice (TSlice (elem_type t)) (filter (fun x : gval => is_true (evaluate re ev (r_interface (Some (elem_type t, x))))) l).
Proof. exact Api.c17_array_becomes_slice. Qed.
Print Assumptions c17_array_becomes_slice.

Theorem c17_map :
  forall (re : string -> string -> option bool) (ev : evaluator) (t : gtype) (n : bool) (kvs : list (gval * gval)),
  kind_of_type t = KMap ->
  forallb (fun kv : gval * gval => clean (evaluate re ev (r_interface (Some (elem_type t, snd kv))))) kvs = true ->
  execute re (Some ev) (Some (t, VMap n kvs)) =
  FMap t (filter (fun kv : gval * gval => is_true (evaluate re ev (r_interface (Some (elem_type t, snd kv))))) kvs).
Proof. exact ApiMore.c17_map. Qed.
Print Assumptions c17_map.

Theorem c17_nil_filter :
  forall (re : string -> string -> option bool) (data : iface), execute re None data = FData data.
Proof. exact Api.c17_nil_filter. Qed.
Print Assumptions c17_nil_filter.

Theorem c17_non_container_is_error :
  forall (re : string -> string -> option bool) (ev : evaluator) (d : option (gtype * gval)),
  match d with
  | Some (_, VSlice _ _) | Some (_, VArray _) | Some (_, VMap _ _) => False
  | _ => True
  end -> execute re (Some ev) d = FErr None.
Proof. exact Api.c17_non_container_is_error. Qed.
Print Assumptions c17_non_container_is_error.

Theorem c17_error_propagates :
  forall (re : string -> string -> option bool) (ev : evaluator) (t : gtype) (n : bool) (l : list gval),
  kind_of_type t = KSlice ->
  forallb (fun x : gval => clean (evaluate re ev (r_interface (Some (elem_type t, x))))) l = false ->
  exists r : exres, execute re (Some ev) (Some (t, VSlice n l)) = r /\ match r with
                                                                       | FErr _ | FPanic => True
                                                                       | _ => False
                                                                       end.
Proof. exact ApiMore.c17_error_propagates. Qed.
Print Assumptions c17_error_propagates.

Theorem c17_idempotent :
  forall (re : string -> string -> option bool) (ev : evaluator) (t : gtype) (n : bool) (l kept : list gval),
  kind_of_type t = KSlice ->
  forallb (fun x : gval => clean (evaluate re ev (r_interface (Some (elem_type t, x))))) l = true ->
  execute re (Some ev) (Some (t, VSlice n l)) = FSlice t kept -> execute re (Some ev) (Some (t, VSlice false kept)) = FSlice t kept.
Proof. exact Api.c17_idempotent. Qed.
Print Assumptions c17_idempotent.

Theorem c17_partition :
  forall (re : string -> string -> option bool) (ev ev' : evaluator) (t : gtype) (n : bool) (l : list gval),
  (forall x : iface, evaluate re ev' x = negate (evaluate re ev x)) ->
  kind_of_type t = KSlice ->
  forallb (fun x : gval => clean (evaluate re ev (r_interface (Some (elem_type t, x))))) l = true ->
  exists yes no : list gval,
    execute re (Some ev) (Some (t, VSlice n l)) = FSlice t yes /\
    execute re (Some ev') (Some (t, VSlice n l)) = FSlice t no /\ Permutation l (yes ++ no).
Proof. exact ApiMore.c17_partition. Qed.
Print Assumptions c17_partition.


(* ---- static tie for "the input is not modified": Execute and the evaluation path write only to containers they made (TieWrites.v) ---- *)
From Bexpr Require Import GoTables TieWrites. Open Scope string_scope.

Theorem evaluation_path_mutates_only_its_own_containers :
  evaluation_path_shared_calls = [].
Proof. exact TieWrites.evaluation_path_mutates_only_its_own_containers. Qed.
Print Assumptions evaluation_path_mutates_only_its_own_containers.

Theorem evaluation_path_builds_fresh_containers :
  existsb (fun c => existsb (String.eqb (c_fn c)) go_eval_reachable && String.eqb (c_class c) "fresh") go_mutating_calls = true.
Proof. exact TieWrites.evaluation_path_builds_fresh_containers. Qed.
Print Assumptions evaluation_path_builds_fresh_containers.
