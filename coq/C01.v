From Coq Require Import List ZArith String Ascii Bool NArith Lia.
Import ListNotations.
From Bexpr Require Import Base Strconv Ast Univ Eval.
Open Scope string_scope.

Section C1.
Variable re : string -> string -> option bool.
Local Opaque coerce.

(* ---------- selectors walk the datum by key, field name/tag and index ---------- *)
Lemma strip_id n t v : kind_of_type t <> KInterface -> kind_of_type t <> KPtr ->
  strip_ptrs n (strip_iface (Some (t, v))) = Some (t, v).
Proof.
  intros Hi Hp. unfold strip_iface. cbn [kind_of].
  destruct (kind_of_type t) eqn:E; try congruence; destruct n; cbn [strip_ptrs kind_of]; rewrite ?E; reflexivity.
Qed.

Lemma step_map_hit cfg part t n kvs k v :
  kind_of_type t = KMap -> coerce_key part (key_type t) = Ok k -> map_find (key_type t) k kvs = Some v ->
  get_step cfg part (Some (t, VMap n kvs)) = Ok (Some (elem_type t, v)).
Proof. intros Hm Hk Hf. unfold get_step. rewrite strip_id by (rewrite Hm; discriminate). rewrite Hk, Hf. reflexivity. Qed.

Lemma step_map_miss cfg part t n kvs k :
  kind_of_type t = KMap -> coerce_key part (key_type t) = Ok k -> map_find (key_type t) k kvs = None ->
  get_step cfg part (Some (t, VMap n kvs)) = Err ENotFound.
Proof. intros Hm Hk Hf. unfold get_step. rewrite strip_id by (rewrite Hm; discriminate). rewrite Hk, Hf. reflexivity. Qed.

Lemma step_index cfg part t n l i x :
  kind_of_type t = KSlice ->
  parse_int (weak_str part) 0 64 = POk i -> (0 <= i)%Z -> nth_error l (Z.to_nat i) = Some x ->
  get_step cfg part (Some (t, VSlice n l)) = Ok (Some (elem_type t, x)).
Proof.
  intros Hs Hp Hi Hn. unfold get_step. rewrite strip_id by (rewrite Hs; discriminate). rewrite Hp.
  assert (Hlt : (i < Z.of_nat (List.length l))%Z).
  { assert (Z.to_nat i < List.length l)%nat by (apply nth_error_Some; congruence). lia. }
  replace ((i <? 0)%Z || (Z.of_nat (List.length l) <=? i)%Z) with false
    by (symmetry; apply orb_false_iff; split; [apply Z.ltb_ge; lia|apply Z.leb_gt; lia]).
  rewrite Hn. reflexivity.
Qed.

Lemma step_index_out_of_range cfg part t n l i :
  kind_of_type t = KSlice ->
  parse_int (weak_str part) 0 64 = POk i -> (i < 0 \/ Z.of_nat (List.length l) <= i)%Z ->
  get_step cfg part (Some (t, VSlice n l)) = Err EOutOfRange.
Proof.
  intros Hs Hp Hi. unfold get_step. rewrite strip_id by (rewrite Hs; discriminate). rewrite Hp.
  replace ((i <? 0)%Z || (Z.of_nat (List.length l) <=? i)%Z) with true; [reflexivity|].
  symmetry. apply orb_true_iff. destruct Hi; [left; apply Z.ltb_lt|right; apply Z.leb_le]; lia.
Qed.

Lemma step_scalar_is_error cfg part t v :
  kind_of_type t <> KInterface -> kind_of_type t <> KPtr ->
  match v with VStruct _ | VMap _ _ | VSlice _ _ | VArray _ => False | _ => True end ->
  get_step cfg part (Some (t, v)) = Err EInvalidKind.
Proof. intros Hi Hp H. unfold get_step. rewrite strip_id by assumption. destruct v; try contradiction; reflexivity. Qed.

(* ---------- representation transparency ---------- *)
(* a pointer on the way down is invisible *)
Lemma step_through_pointer cfg part t v : kind_of_type t <> KInterface -> kind_of_type t <> KPtr ->
  get_step cfg part (Some (TPtr t, VPtr v)) = get_step cfg part (Some (t, v)).
Proof.
  intros Hi Hp. unfold get_step. rewrite (strip_id 8 t v Hi Hp).
  unfold strip_iface. cbn [kind_of kind_of_type under strip_ptrs r_elem].
  destruct (kind_of_type t) eqn:E; try congruence; cbn [strip_ptrs kind_of]; rewrite ?E; reflexivity.
Qed.

(* an interface wrapper is invisible *)
Lemma step_through_iface cfg part dyn v : dyn <> TIface -> kind_of_type dyn <> KInterface ->
  get_step cfg part (Some (TIface, VIface dyn v)) = get_step cfg part (Some (dyn, v)).
Proof.
  intros _ Hk. unfold get_step. cbn [strip_iface kind_of kind_of_type under r_elem].
  unfold strip_iface at 1. cbn [kind_of]. destruct (kind_of_type dyn) eqn:E; try reflexivity. congruence.
Qed.

(* the operators look through exactly one pointer level ... *)
Lemma match_op_through_pointer op raw t v : kind_of_type t <> KPtr -> is_json_number t = false ->
  match_op re op raw (Some (TPtr t, VPtr v)) = match_op re op raw (Some (t, v)).
Proof.
  intros Hk Hj. unfold match_op.
  assert (E1 : json_narrow (Some (TPtr t, VPtr v)) = Ok (Some (TPtr t, VPtr v))) by reflexivity.
  assert (E2 : json_narrow (Some (t, v)) = Ok (Some (t, v))) by (unfold json_narrow; destruct v; try reflexivity; rewrite Hj; reflexivity).
  rewrite E1, E2.
  assert (E3 : r_indirect (Some (TPtr t, VPtr v)) = Some (t, v)) by reflexivity.
  assert (E4 : r_indirect (Some (t, v)) = Some (t, v)) by (unfold r_indirect; cbn [kind_of]; destruct (kind_of_type t); try reflexivity; congruence).
  rewrite E3, E4. reflexivity.
Qed.

(* ... and see a named scalar type exactly as its underlying type *)
Lemma kind_named n u : kind_of_type (TNamed n u) = kind_of_type u.
Proof. reflexivity. Qed.

Lemma do_equal_named raw n u v : is_json_number (TNamed n u) = false ->
  do_equal raw (Some (TNamed n u, v)) = do_equal raw (Some (u, v)).
Proof.
  intros _. unfold do_equal. cbn [kind_of]. rewrite kind_named.
  destruct (sclass_of (kind_of_type u)); try reflexivity; destruct raw; try reflexivity;
    destruct (coerce _ _); try reflexivity; destruct v; reflexivity.
Qed.

(* ---------- each operator compares in the selected value's own type (one instance per class) ---------- *)
Lemma equal_int_spec raw w z : do_equal (Some raw) (Some (TInt w, VInt z)) =
  match parse_int raw 0 64 with POk y => Out (Z.eqb y z) None | PErr e => Out false (Some (perr_c e)) end.
Proof.
  unfold do_equal. cbn [kind_of].
  assert (Hs : sclass_of (kind_of_type (TInt w)) = SInt) by (destruct w; reflexivity). rewrite Hs.
  Local Transparent coerce. unfold coerce. rewrite Hs. Local Opaque coerce.
  destruct (parse_int raw 0 64); reflexivity.
Qed.

Lemma equal_string_spec raw s : do_equal (Some raw) (Some (TString, VStr s)) = Out (String.eqb raw s) None.
Proof. Local Transparent coerce. reflexivity. Qed.

Lemma in_string_spec raw s : do_in (Some raw) (Some (TString, VStr s)) = Out (str_contains s raw) None.
Proof. reflexivity. Qed.

Lemma is_empty_list_spec t n l : kind_of_type t = KSlice -> do_is_empty (Some (t, VSlice n l)) = Out (Nat.eqb (List.length l) 0) None.
Proof. intros Hk. unfold do_is_empty. cbn [kind_of]. rewrite Hk. reflexivity. Qed.
End C1.
Print Assumptions equal_int_spec.
Print Assumptions step_index.
