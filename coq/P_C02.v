(* Property C02 - equality compares in the selected value's own type; bad literals are errors. Numerals are digit lists (most significant first), dval their positional value, canonical = no leading zero; integers are Z throughout, never floats. Statements only (proofs: C02.v, C02b.v, C01.v). *)
From Coq Require Import List String Ascii ZArith NArith Bool. From Bexpr Require Import Base Strconv Ast Univ Eval C01 C02 C02b RoundRat RoundGuards FloatLit FloatLit2. Import ListNotations. Open Scope Z_scope.

Theorem parse_int_dec_pos :
  forall ds : list Z, canonical ds -> dval ds 0 < 2 ^ 63 -> parse_int (dstr ds) 0 64 = POk (dval ds 0).
Proof. exact C02.parse_int_dec_pos. Qed.
Print Assumptions parse_int_dec_pos.

Theorem parse_int_dec_neg :
  forall ds : list Z,
  canonical ds ->
  dval ds 0 <= 2 ^ 63 -> parse_int (String (Ascii.Ascii true false true true false true false false) (dstr ds)) 0 64 = POk (- dval ds 0).
Proof. exact C02.parse_int_dec_neg. Qed.
Print Assumptions parse_int_dec_neg.

Theorem parse_int_dec_overflow :
  forall ds : list Z, canonical ds -> 2 ^ 63 <= dval ds 0 <= 2 ^ 64 - 1 -> parse_int (dstr ds) 0 64 = PErr PRange.
Proof. exact C02.parse_int_dec_overflow. Qed.
Print Assumptions parse_int_dec_overflow.

Theorem max_int64 :
  parse_int "9223372036854775807" 0 64 = POk 9223372036854775807 /\
  parse_int "-9223372036854775808" 0 64 = POk (-9223372036854775808) /\
  parse_int "9223372036854775808" 0 64 = PErr PRange /\ parse_int "9007199254740993" 0 64 = POk 9007199254740993.
Proof. exact C02.max_int64. Qed.
Print Assumptions max_int64.

Theorem parse_uint_dec_max :
  forall ds : list Z, canonical ds -> dval ds 0 <= 2 ^ 64 - 1 -> parse_uint (dstr ds) 0 64 = POk (dval ds 0).
Proof. exact C02b.parse_uint_dec_max. Qed.
Print Assumptions parse_uint_dec_max.

Theorem parse_uint_hex :
  forall (ds : list Z) (bits : Z),
  0 < bits ->
  ds <> [] ->
  Forall (is_digit_b 16) ds ->
  dval_b 16 ds 0 <= 2 ^ bits - 1 ->
  parse_uint
    (String (Ascii.Ascii false false false false true true false false)
       (String (Ascii.Ascii false false false true true true true false) (dstr_b ds))) 0 bits = POk (dval_b 16 ds 0).
Proof. exact C02b.parse_uint_hex. Qed.
Print Assumptions parse_uint_hex.

Theorem parse_int_hex_pos :
  forall ds : list Z,
  ds <> [] ->
  Forall (is_digit_b 16) ds ->
  dval_b 16 ds 0 < 2 ^ 63 ->
  parse_int
    (String (Ascii.Ascii false false false false true true false false)
       (String (Ascii.Ascii false false false true true true true false) (dstr_b ds))) 0 64 = POk (dval_b 16 ds 0).
Proof. exact C02b.parse_int_hex_pos. Qed.
Print Assumptions parse_int_hex_pos.

Theorem hex_examples :
  parse_int "0x7fffffffffffffff" 0 64 = POk 9223372036854775807 /\
  parse_int "0x8000000000000000" 0 64 = PErr PRange /\
  parse_uint "18446744073709551615" 0 64 = POk 18446744073709551615 /\
  parse_uint "18446744073709551616" 0 64 = PErr PRange /\
  parse_int "0b101" 0 64 = POk 5 /\ parse_int "0o17" 0 64 = POk 15 /\ parse_int "-0x10" 0 64 = POk (-16).
Proof. exact C02b.hex_examples. Qed.
Print Assumptions hex_examples.

Theorem parse_uint_oct :
  forall (ds : list Z) (bits : Z),
  0 < bits ->
  ds <> [] ->
  Forall (is_digit_b 8) ds ->
  dval_b 8 ds 0 <= 2 ^ bits - 1 ->
  parse_uint
    (String (Ascii.Ascii false false false false true true false false)
       (String (Ascii.Ascii true true true true false true true false) (dstr_b ds))) 0 bits = POk (dval_b 8 ds 0).
Proof. exact C02b.parse_uint_oct. Qed.
Print Assumptions parse_uint_oct.

Theorem parse_uint_bin :
  forall (ds : list Z) (bits : Z),
  0 < bits ->
  ds <> [] ->
  Forall (is_digit_b 2) ds ->
  dval_b 2 ds 0 <= 2 ^ bits - 1 ->
  parse_uint
    (String (Ascii.Ascii false false false false true true false false)
       (String (Ascii.Ascii false true false false false true true false) (dstr_b ds))) 0 bits = POk (dval_b 2 ds 0).
Proof. exact C02b.parse_uint_bin. Qed.
Print Assumptions parse_uint_bin.

Theorem oct_bin_examples :
  parse_uint "0o17" 0 64 = POk 15 /\ parse_uint "0b101" 0 8 = POk 5 /\ parse_uint "017" 0 64 = POk 15.
Proof. exact C02b.oct_bin_examples. Qed.
Print Assumptions oct_bin_examples.

Theorem equal_int_spec :
  forall (raw : string) (w : iw) (z : Z),
  do_equal (Some raw) (Some (TInt w, VInt z)) =
  match parse_int raw 0 64 with
  | POk y => Out (y =? z) None
  | PErr e => Out false (Some (perr_c e))
  end.
Proof. exact C01.equal_int_spec. Qed.
Print Assumptions equal_int_spec.

Theorem equal_string_spec :
  forall raw s : string, do_equal (Some raw) (Some (TString, VStr s)) = Out (raw =? s)%string None.
Proof. exact C01.equal_string_spec. Qed.
Print Assumptions equal_string_spec.

Theorem do_equal_named :
  forall (raw : option string) (n : string) (u : gtype) (v : gval),
  is_json_number (TNamed n u) = false -> do_equal raw (Some (TNamed n u, v)) = do_equal raw (Some (u, v)).
Proof. exact C01.do_equal_named. Qed.
Print Assumptions do_equal_named.

Theorem match_op_through_pointer :
  forall (re : string -> string -> option bool) (op : matchop) (raw : option string) (t : gtype) (v : gval),
  kind_of_type t <> KPtr -> is_json_number t = false -> match_op re op raw (Some (TPtr t, VPtr v)) = match_op re op raw (Some (t, v)).
Proof. exact C01.match_op_through_pointer. Qed.
Print Assumptions match_op_through_pointer.


(* ---- ties to the constant tables regenerated from the Go sources (tools/gotables -> GoTables.v) ---- *)
From Coq Require Import List String ZArith NArith Bool. From Bexpr Require Import Base Strconv Ast Univ Eval Api Dump GoTables TableTie TieCoerce. Import ListNotations.

Theorem coercion_dispatch :
  forall k : kind, table_or_default (kind_go k) go_coerce_of_kind = Some (coerce_fn_of_class (sclass_of k)).
Proof. exact TieCoerce.coercion_dispatch. Qed.
Print Assumptions coercion_dispatch.

Theorem equality_dispatch :
  forall k1 k2 : kind,
  ostr_eqb (table_or_default (kind_go k1) go_equality_fn) (table_or_default (kind_go k2) go_equality_fn) = sclass_eqb (sclass_of k1) (sclass_of k2).
Proof. exact TieCoerce.equality_dispatch. Qed.
Print Assumptions equality_dispatch.

Theorem equality_nil_for_non_scalars :
  forall k : kind, ostr_eqb (table_or_default (kind_go k) go_equality_fn) (Some "nil") = sclass_eqb (sclass_of k) SNone.
Proof. exact TieCoerce.equality_nil_for_non_scalars. Qed.
Print Assumptions equality_nil_for_non_scalars.

Theorem coerce_calls :
  assoc "CoerceInt64" go_coerce_calls = Some ("strconv.ParseInt", [0; 64]) /\
  assoc "CoerceUint64" go_coerce_calls = Some ("strconv.ParseUint", [0; 64]) /\
  assoc "CoerceBool" go_coerce_calls = Some ("strconv.ParseBool", []) /\
  assoc "CoerceFloat32" go_coerce_calls = Some ("strconv.ParseFloat", [32]) /\
  assoc "CoerceFloat64" go_coerce_calls = Some ("strconv.ParseFloat", [64]).
Proof. exact TieCoerce.coerce_calls. Qed.
Print Assumptions coerce_calls.

Theorem coerce_uses_those_calls :
  forall (k : kind) (raw : string),
  coerce k raw =
  match sclass_of k with
  | SBool => match parse_bool raw with
             | POk b => Ok (LBool b)
             | PErr e => Err (perr_c e)
             end
  | SInt => match parse_int raw 0 64 with
            | POk z => Ok (LInt z)
            | PErr e => Err (perr_c e)
            end
  | SUint => match parse_uint raw 0 64 with
             | POk z => Ok (LUint z)
             | PErr e => Err (perr_c e)
             end
  | SF32 => match parse_float raw 32 with
            | POk z => Ok (LF32 z)
            | PErr e => Err (perr_c e)
            end
  | SF64 => match parse_float raw 64 with
            | POk z => Ok (LF64 z)
            | PErr e => Err (perr_c e)
            end
  | _ => Ok (LStr raw)
  end.
Proof. exact TieCoerce.coerce_uses_those_calls. Qed.
Print Assumptions coerce_uses_those_calls.


(* ---- the property at the level of Evaluate (C02c.v) ---- *)
From Coq Require Import List String ZArith NArith Bool. From Bexpr Require Import Base Strconv Ast Univ Eval C01 C02 C02b C02c. Import ListNotations. Open Scope Z_scope.

Theorem c02_equal_int :
  forall (re : string -> string -> option bool) (cfg : config) (ls : locals) (s : selector) (d : iface) (t : gtype) (z : Z) (lit : string),
  selects cfg ls s d (Some (t, VInt z)) ->
  sclass_of (kind_of_type t) = SInt ->
  eval re cfg ls (EMatch s OpEq (Some lit)) d =
  match parse_int lit 0 64 with
  | POk y => Out (y =? z) None
  | PErr e => Out false (Some (perr_c e))
  end.
Proof. exact C02c.c02_equal_int. Qed.
Print Assumptions c02_equal_int.

Theorem c02_equal_uint :
  forall (re : string -> string -> option bool) (cfg : config) (ls : locals) (s : selector) (d : iface) (t : gtype) (z : Z) (lit : string),
  selects cfg ls s d (Some (t, VUint z)) ->
  sclass_of (kind_of_type t) = SUint ->
  eval re cfg ls (EMatch s OpEq (Some lit)) d =
  match parse_uint lit 0 64 with
  | POk y => Out (y =? z) None
  | PErr e => Out false (Some (perr_c e))
  end.
Proof. exact C02c.c02_equal_uint. Qed.
Print Assumptions c02_equal_uint.

Theorem c02_equal_bool :
  forall (re : string -> string -> option bool) (cfg : config) (ls : locals) (s : selector) (d : iface) (t : gtype) (b : bool) (lit : string),
  selects cfg ls s d (Some (t, VBool b)) ->
  sclass_of (kind_of_type t) = SBool ->
  eval re cfg ls (EMatch s OpEq (Some lit)) d =
  match parse_bool lit with
  | POk y => Out (eqb y b) None
  | PErr e => Out false (Some (perr_c e))
  end.
Proof. exact C02c.c02_equal_bool. Qed.
Print Assumptions c02_equal_bool.

Theorem c02_equal_float64 :
  forall (re : string -> string -> option bool) (cfg : config) (ls : locals) (s : selector) (d : iface) (t : gtype) (x : Z) (lit : string),
  selects cfg ls s d (Some (t, VF64 x)) ->
  sclass_of (kind_of_type t) = SF64 ->
  eval re cfg ls (EMatch s OpEq (Some lit)) d =
  match parse_float lit 64 with
  | POk y => Out (feq y x 53 11) None
  | PErr e => Out false (Some (perr_c e))
  end.
Proof. exact C02c.c02_equal_float64. Qed.
Print Assumptions c02_equal_float64.

Theorem c02_equal_float32 :
  forall (re : string -> string -> option bool) (cfg : config) (ls : locals) (s : selector) (d : iface) (t : gtype) (x : Z) (lit : string),
  selects cfg ls s d (Some (t, VF32 x)) ->
  sclass_of (kind_of_type t) = SF32 ->
  eval re cfg ls (EMatch s OpEq (Some lit)) d =
  match parse_float lit 32 with
  | POk y => Out (feq y x 24 8) None
  | PErr e => Out false (Some (perr_c e))
  end.
Proof. exact C02c.c02_equal_float32. Qed.
Print Assumptions c02_equal_float32.

Theorem c02_equal_string :
  forall (re : string -> string -> option bool) (cfg : config) (ls : locals) (s : selector) (d : iface) (t : gtype) (x lit : string),
  selects cfg ls s d (Some (t, VStr x)) ->
  sclass_of (kind_of_type t) = SString -> is_json_number t = false -> eval re cfg ls (EMatch s OpEq (Some lit)) d = Out (lit =? x)%string None.
Proof. exact C02c.c02_equal_string. Qed.
Print Assumptions c02_equal_string.

Theorem c02_not_equal :
  forall (re : string -> string -> option bool) (cfg : config) (ls : locals) (s : selector) (d v : iface) (lit : string),
  selects cfg ls s d v -> eval re cfg ls (EMatch s OpNeq (Some lit)) d = negate (eval re cfg ls (EMatch s OpEq (Some lit)) d).
Proof. exact C02c.c02_not_equal. Qed.
Print Assumptions c02_not_equal.

Theorem c02_nonscalar_is_error :
  forall (re : string -> string -> option bool) (cfg : config) (ls : locals) (s : selector) (d : iface) (t : gtype) (x : gval) (lit : string),
  selects cfg ls s d (Some (t, x)) ->
  plain t -> sclass_of (kind_of_type t) = SNone -> eval re cfg ls (EMatch s OpEq (Some lit)) d = Out false (Some ENoEquality).
Proof. exact C02c.c02_nonscalar_is_error. Qed.
Print Assumptions c02_nonscalar_is_error.

Theorem c02_nil_is_error :
  forall (re : string -> string -> option bool) (cfg : config) (ls : locals) (s : selector) (d : iface) (lit : string),
  selects cfg ls s d None -> eval re cfg ls (EMatch s OpEq (Some lit)) d = Out false (Some ENoEquality).
Proof. exact C02c.c02_nil_is_error. Qed.
Print Assumptions c02_nil_is_error.

Theorem c02_decimal_literal_int :
  forall (re : string -> string -> option bool) (cfg : config) (ls : locals) (s : selector) (d : iface) (t : gtype) (z : Z) (ds : list Z),
  selects cfg ls s d (Some (t, VInt z)) ->
  sclass_of (kind_of_type t) = SInt ->
  canonical ds -> dval ds 0 < 2 ^ 63 -> eval re cfg ls (EMatch s OpEq (Some (dstr ds))) d = Out (dval ds 0 =? z) None.
Proof. exact C02c.c02_decimal_literal_int. Qed.
Print Assumptions c02_decimal_literal_int.

Theorem c02_decimal_literal_out_of_range :
  forall (re : string -> string -> option bool) (cfg : config) (ls : locals) (s : selector) (d : iface) (t : gtype) (z : Z) (ds : list Z),
  selects cfg ls s d (Some (t, VInt z)) ->
  sclass_of (kind_of_type t) = SInt ->
  canonical ds -> 2 ^ 63 <= dval ds 0 <= 2 ^ 64 - 1 -> eval re cfg ls (EMatch s OpEq (Some (dstr ds))) d = Out false (Some ECoerceRange).
Proof. exact C02c.c02_decimal_literal_out_of_range. Qed.
Print Assumptions c02_decimal_literal_out_of_range.

Theorem parse_bool_table :
  forall (s : string) (b : bool), parse_bool s = POk b <-> In (s, b) go_parsebool_spellings.
Proof. exact C02c.parse_bool_table. Qed.
Print Assumptions parse_bool_table.


(* The nearest float of the field's width. The float parser model reads the literal as an exact positive rational n/d and rounds once
   (Strconv.round_rat n d p emin emax; p = 53, emin = -1074 for float64, p = 24, emin = -149 for float32). A float is a pair (m, e)
   denoting m * 2^e. The result is a canonical float of that format; no float of the format is closer to n/d; and when another is
   exactly as close the result's mantissa is even - IEEE 754 round-to-nearest, ties to even, for every positive rational, every
   precision and every exponent range. Distances are cross-multiplied (D n d m e = |m * 2^e - n/d| * d * pn e, with
   2^e = pp e / pn e), so the statements are about integers only. *)
Theorem round_rat_canonical :
  forall n d p emin emaxe m er : Z,
  0 < n -> 0 < d -> 1 <= p -> round_rat n d p emin emaxe = Some (m, er) ->
  0 <= m < 2 ^ p /\ emin <= er <= emaxe /\ (er = emin \/ 2 ^ (p - 1) <= m).
Proof. exact RoundRat.round_rat_canonical. Qed.
Print Assumptions round_rat_canonical.

Theorem round_rat_nearest :
  forall n d p emin emaxe m er m' e2 : Z,
  0 < n -> 0 < d -> 1 <= p -> round_rat n d p emin emaxe = Some (m, er) ->
  0 <= m' < 2 ^ p -> emin <= e2 ->
  D n d m er * pn e2 <= D n d m' e2 * pn er.
Proof. exact RoundRat.round_rat_nearest. Qed.
Print Assumptions round_rat_nearest.

Theorem round_rat_ties_to_even :
  forall n d p emin emaxe m er : Z,
  0 < n -> 0 < d -> 2 <= p -> round_rat n d p emin emaxe = Some (m, er) ->
  2 * D n d m er = d * pp er -> Z.even m = true.
Proof. exact RoundRat.round_rat_ties_to_even. Qed.
Print Assumptions round_rat_ties_to_even.

Theorem round_rat_instances :
  round_rat 1 10 53 (-1074) 971 = Some (7205759403792794, -56) /\
  round_rat 1 (2 ^ 1075) 53 (-1074) 971 = Some (0, -1074) /\ round_rat (2 ^ 1024) 1 53 (-1074) 971 = None.
Proof. exact (conj RoundRat.round_rat_tenth (conj RoundRat.round_rat_half_min_subnormal RoundRat.round_rat_overflow)). Qed.
Print Assumptions round_rat_instances.

(* The float parser model decides overflow and underflow of extreme literals from the size of the exponent, without computing the power.
   These guards are not a second semantics: for binary64 and binary32 (is_format) and every non-zero mantissa they select exactly what
   the single rounding of the exact rational gives (dec_round / hex_round are the calls parse_float_core makes). *)
Theorem decimal_guards_are_the_rounding :
  forall mant e10 p emin emaxe : Z,
  is_format p emin emaxe -> 0 < mant ->
  (if 310 <? e10 then None else if Z.log2 mant + 1 + 3 * e10 <? -1100 then Some (0, emin) else dec_round mant e10 p emin emaxe)
  = dec_round mant e10 p emin emaxe.
Proof. exact RoundGuards.decimal_guards_are_the_rounding. Qed.
Print Assumptions decimal_guards_are_the_rounding.

Theorem hex_guards_are_the_rounding :
  forall mant e2 p emin emaxe : Z,
  is_format p emin emaxe -> 0 < mant ->
  (if 1100 <? e2 + Z.log2 mant then None else if e2 + Z.log2 mant <? -1200 then Some (0, emin) else hex_round mant e2 p emin emaxe)
  = hex_round mant e2 p emin emaxe.
Proof. exact RoundGuards.hex_guards_are_the_rounding. Qed.
Print Assumptions hex_guards_are_the_rounding.

(* End to end for the main family of float literals: digits "." digits (digit lists ip, fp; dstr spells them, dval is their positional value).
   What the float parser model returns for such a literal, in the width of the selected value, is the bit pattern of a canonical float of
   that width that is a nearest one to the number the digits denote, dval (ip ++ fp) / 10^|fp|, with an even mantissa on a tie. *)
Theorem plain_decimal_nearest :
  forall (ip fp : list Z) (bits p ebits emin emaxe b : Z),
  (bits = 64 /\ p = 53 /\ ebits = 11 /\ emin = -1074 /\ emaxe = 971) \/ (bits = 32 /\ p = 24 /\ ebits = 8 /\ emin = -149 /\ emaxe = 104) ->
  ip <> [] -> Forall is_digit ip -> Forall is_digit fp ->
  let mant := dval (ip ++ fp) 0 in
  let den := 10 ^ Z.of_nat (List.length fp) in
  0 < mant ->
  parse_float (dstr ip ++ String "."%char (dstr fp)) bits = POk b ->
  exists m e, b = float_bits false (Some (m, e)) p ebits /\
    (0 <= m < 2 ^ p /\ emin <= e <= emaxe /\ (e = emin \/ 2 ^ (p - 1) <= m)) /\
    (forall m' e2, 0 <= m' < 2 ^ p -> emin <= e2 -> D mant den m e * pn e2 <= D mant den m' e2 * pn e) /\
    (2 * D mant den m e = den * pp e -> Z.even m = true).
Proof. exact FloatLit.plain_decimal_nearest. Qed.
Print Assumptions plain_decimal_nearest.

Theorem plain_decimal_instance :
  parse_float "0.1" 64 = POk 4591870180066957722 /\ "0.1"%string = (dstr [0] ++ String "."%char (dstr [1]))%string.
Proof. exact (conj FloatLit.tenth64 FloatLit.tenth_is_plain). Qed.
Print Assumptions plain_decimal_instance.

(* The same for EVERY number literal of the bexpr grammar - an optional minus, digits, an optional "." digits (number_text sg ip fo;
   fo = None: no fraction) - in either width: the bits the float parser model returns are those of a canonical float of the width that is
   a nearest one to the number the characters denote, ties to even, with the sign of the literal; every spelling of zero reads as +0 / -0. *)
Theorem number_literal_nearest :
  forall (sg : bool) (ip : list Z) (fo : option (list Z)) (bits p ebits emin emaxe b : Z),
  (bits = 64 /\ p = 53 /\ ebits = 11 /\ emin = -1074 /\ emaxe = 971) \/ (bits = 32 /\ p = 24 /\ ebits = 8 /\ emin = -149 /\ emaxe = 104) ->
  ip <> [] -> Forall is_digit ip -> frac_ok fo ->
  let mant := dval (ip ++ frac_digits fo) 0 in
  let den := 10 ^ Z.of_nat (List.length (frac_digits fo)) in
  0 < mant ->
  parse_float (number_text sg ip fo) bits = POk b ->
  exists m e, b = float_bits sg (Some (m, e)) p ebits /\
    (0 <= m < 2 ^ p /\ emin <= e <= emaxe /\ (e = emin \/ 2 ^ (p - 1) <= m)) /\
    (forall m' e2, 0 <= m' < 2 ^ p -> emin <= e2 -> D mant den m e * pn e2 <= D mant den m' e2 * pn e) /\
    (2 * D mant den m e = den * pp e -> Z.even m = true).
Proof. exact FloatLit2.number_literal_nearest. Qed.
Print Assumptions number_literal_nearest.

Theorem number_literal_zero :
  forall (sg : bool) (ip : list Z) (fo : option (list Z)) (bits p ebits emin emaxe : Z),
  (bits = 64 /\ p = 53 /\ ebits = 11 /\ emin = -1074 /\ emaxe = 971) \/ (bits = 32 /\ p = 24 /\ ebits = 8 /\ emin = -149 /\ emaxe = 104) ->
  ip <> [] -> Forall is_digit ip -> frac_ok fo -> dval (ip ++ frac_digits fo) 0 = 0 ->
  parse_float (number_text sg ip fo) bits = POk (float_bits sg (Some (0, emin)) p ebits).
Proof. exact FloatLit2.number_literal_zero. Qed.
Print Assumptions number_literal_zero.

Theorem number_literal_instances :
  (number_text true [1; 5] None = "-15" /\ number_text false [0] (Some [1]) = "0.1" /\ number_text true [1; 2; 3] (Some [4; 5; 6]) = "-123.456")%string /\
  parse_float "-15" 32 = POk 3245342720.
Proof. exact (conj FloatLit2.number_text_examples FloatLit2.minus_fifteen32). Qed.
Print Assumptions number_literal_instances.

(* ... and at the level of Evaluate: against a float field, `sel == <number literal>` compares the field (IEEE equality) with the single
   rounding of the number the literal denotes - by round_rat_nearest a nearest float of the field's width - and is a range error when
   that number overflows the width. *)
From Bexpr Require Import C02d.
Theorem c02_float64_number_literal :
  forall (re : string -> string -> option bool) (cfg : config) (ls : locals) (s : selector) (d : iface) (t : gtype) (x : Z)
    (sg : bool) (ip : list Z) (fo : option (list Z)),
  selects cfg ls s d (Some (t, VF64 x)) -> sclass_of (kind_of_type t) = SF64 ->
  ip <> [] -> Forall is_digit ip -> frac_ok fo ->
  let mant := dval (ip ++ frac_digits fo) 0 in
  let den := 10 ^ Z.of_nat (List.length (frac_digits fo)) in
  0 < mant ->
  eval re cfg ls (EMatch s OpEq (Some (number_text sg ip fo))) d =
  match round_rat mant den 53 (-1074) 971 with
  | Some me => Out (feq (float_bits sg (Some me) 53 11) x 53 11) None
  | None => Out false (Some (perr_c PRange)) end.
Proof. exact C02d.c02_float64_number_literal. Qed.
Print Assumptions c02_float64_number_literal.

Theorem c02_float32_number_literal :
  forall (re : string -> string -> option bool) (cfg : config) (ls : locals) (s : selector) (d : iface) (t : gtype) (x : Z)
    (sg : bool) (ip : list Z) (fo : option (list Z)),
  selects cfg ls s d (Some (t, VF32 x)) -> sclass_of (kind_of_type t) = SF32 ->
  ip <> [] -> Forall is_digit ip -> frac_ok fo ->
  let mant := dval (ip ++ frac_digits fo) 0 in
  let den := 10 ^ Z.of_nat (List.length (frac_digits fo)) in
  0 < mant ->
  eval re cfg ls (EMatch s OpEq (Some (number_text sg ip fo))) d =
  match round_rat mant den 24 (-149) 104 with
  | Some me => Out (feq (float_bits sg (Some me) 24 8) x 24 8) None
  | None => Out false (Some (perr_c PRange)) end.
Proof. exact C02d.c02_float32_number_literal. Qed.
Print Assumptions c02_float32_number_literal.

(* ... and for decimal literals with an exponent - [-] digits [. digits] (e|E) [+|-] digits, which only a quoted literal can spell:
   read as mant * 10^(exponent - |fraction|), rounded once; the statement of number_literal_nearest for n / d = dec_num / dec_den. *)
From Bexpr Require Import FloatLit3.
Theorem sci_literal_nearest :
  forall (sg : bool) (ip : list Z) (fo : option (list Z)) (ec : Ascii.ascii) (xsg : option bool) (xs : list Z) (bits p ebits emin emaxe b : Z),
  (bits = 64 /\ p = 53 /\ ebits = 11 /\ emin = -1074 /\ emaxe = 971) \/ (bits = 32 /\ p = 24 /\ ebits = 8 /\ emin = -149 /\ emaxe = 104) ->
  ip <> [] -> Forall is_digit ip -> frac_ok fo -> (ec = "e"%char \/ ec = "E"%char) -> xs <> [] -> Forall is_digit xs ->
  let mant := dval (ip ++ frac_digits fo) 0 in
  let e10 := exp_val xsg xs - Z.of_nat (List.length (frac_digits fo)) in
  let n := dec_num mant e10 in let d := dec_den e10 in
  0 < mant ->
  parse_float (sign_str sg ++ sci_body ip fo ec xsg xs) bits = POk b ->
  exists m e, b = float_bits sg (Some (m, e)) p ebits /\
    (0 <= m < 2 ^ p /\ emin <= e <= emaxe /\ (e = emin \/ 2 ^ (p - 1) <= m)) /\
    (forall m' e2, 0 <= m' < 2 ^ p -> emin <= e2 -> D n d m e * pn e2 <= D n d m' e2 * pn e) /\
    (2 * D n d m e = d * pp e -> Z.even m = true).
Proof. exact FloatLit3.sci_literal_nearest. Qed.
Print Assumptions sci_literal_nearest.

Theorem sci_literal_instances :
  (sign_str true ++ sci_body [1] (Some [5]) "e" (Some true) [3] = "-1.5e-3" /\ sign_str false ++ sci_body [2] None "E" None [1; 0] = "2E10")%string /\
  parse_float "-1.5e-3" 64 = POk 13787932388781358842.
Proof. exact FloatLit3.sci_examples. Qed.
Print Assumptions sci_literal_instances.

(* ... and for hexadecimal float literals - [-] 0x hexdigits [. hexdigits] p [+|-] digits: mant * 2^(exponent - 4 * |fraction|), rounded once.
   With number_literal_nearest and sci_literal_nearest this covers every spelling strconv.ParseFloat accepts except underscores, a leading
   `+`, upper-case hexadecimal digits and the words inf / infinity / nan. *)
From Bexpr Require Import C02b FloatLit4.
Theorem hex_literal_nearest :
  forall (sg : bool) (xc : Ascii.ascii) (hip : list Z) (fo : option (list Z)) (pc : Ascii.ascii) (xsg : option bool) (xs : list Z) (bits p ebits emin emaxe b : Z),
  (bits = 64 /\ p = 53 /\ ebits = 11 /\ emin = -1074 /\ emaxe = 971) \/ (bits = 32 /\ p = 24 /\ ebits = 8 /\ emin = -149 /\ emaxe = 104) ->
  (xc = "x"%char \/ xc = "X"%char) -> (pc = "p"%char \/ pc = "P"%char) ->
  hip <> [] -> Forall (is_digit_b 16) hip -> hfrac_ok fo -> xs <> [] -> Forall is_digit xs ->
  let mant := dval_b 16 (hip ++ frac_digits fo) 0 in
  let e2 := exp_val xsg xs - 4 * Z.of_nat (List.length (frac_digits fo)) in
  let n := hex_num mant e2 in let d := hex_den e2 in
  0 < mant ->
  parse_float (sign_str sg ++ hex_body xc hip fo pc xsg xs) bits = POk b ->
  exists m e, b = float_bits sg (Some (m, e)) p ebits /\
    (0 <= m < 2 ^ p /\ emin <= e <= emaxe /\ (e = emin \/ 2 ^ (p - 1) <= m)) /\
    (forall m' e', 0 <= m' < 2 ^ p -> emin <= e' -> D n d m e * pn e' <= D n d m' e' * pn e) /\
    (2 * D n d m e = d * pp e -> Z.even m = true).
Proof. exact FloatLit4.hex_literal_nearest. Qed.
Print Assumptions hex_literal_nearest.

Theorem hex_literal_instances :
  (sign_str false ++ hex_body "x" [1] (Some [8]) "p" (Some false) [3] = "0x1.8p+3" /\ sign_str true ++ hex_body "X" [15; 15] None "P" (Some true) [2] = "-0XffP-2")%string /\
  parse_float "0x1.8p+3" 64 = POk 4622945017495814144.
Proof. exact FloatLit4.hex_examples. Qed.
Print Assumptions hex_literal_instances.

(* A leading `+` changes nothing: on any text that begins with a digit and holds no underscore (every literal of the families above), `+text`
   is read as `text`, in either width - so number_literal_nearest, sci_literal_nearest and hex_literal_nearest extend to `+`-signed spellings. *)
From Bexpr Require Import FloatLit5.
Theorem plus_sign_neutral :
  forall u : string,
  (exists d0 t, is_digit d0 /\ u = String (digit_char d0) t) -> has_us u = false ->
  parse_float (String "+"%char u) 64 = parse_float u 64 /\ parse_float (String "+"%char u) 32 = parse_float u 32.
Proof. exact FloatLit5.plus_sign_neutral_both. Qed.
Print Assumptions plus_sign_neutral.
