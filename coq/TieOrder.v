(* see TableTie.v: the order in which the evaluator visits the entries of a map.  The model sorts the keys by byte order
   before the fold (Eval.sort_keys); go_map_iteration, regenerated from /repo on every run, says for every function of
   evaluate.go, filter.go and bexpr.go that enumerates a map through reflect (MapKeys, MapRange) whether the enumerated
   keys are sorted - by the statement right after the enumeration, unconditionally - with a comparison the extractor
   recognises as the byte order of the keys' String().  Anything else (no sort, a sort under a condition, a comparison of
   another form such as a case-folded or length-first one) stops these lemmas, and with them the properties whose model
   rests on the visiting order (C06, C14), whether or not an input that shows the difference is at hand. *)
From Coq Require Import List String Bool.
From Bexpr Require Import GoTables.
Import ListNotations.
Open Scope string_scope.

Definition iter_file (r : string * string * string) : string := fst (fst r).
Definition iter_class (r : string * string * string) : string := snd r.

(* every map enumeration on the evaluation path (evaluate.go) is followed by the byte-order sort *)
Lemma evaluation_visits_maps_in_key_order :
  forallb (fun r => negb (String.eqb (iter_file r) "evaluate.go") || String.eqb (iter_class r) "sorted-bytewise") go_map_iteration = true.
Proof. reflexivity. Qed.
(* and there is one: the statement is not about an empty table *)
Lemma evaluation_enumerates_a_map :
  existsb (fun r => String.eqb (iter_file r) "evaluate.go" && String.eqb (iter_class r) "sorted-bytewise") go_map_iteration = true.
Proof. reflexivity. Qed.
(* the table was read: no <unrecognised> marker *)
Lemma map_iteration_recognised : forallb (fun r => negb (String.eqb (iter_file r) "<unrecognised>")) go_map_iteration = true.
Proof. reflexivity. Qed.
