From Coq Require Import List ZArith String Ascii Bool NArith Lia.
Import ListNotations.
From Bexpr Require Import Base Strconv Ast Univ Eval Props Lexical Unroll.
Open Scope string_scope.

(* C06, scoping: the evaluator (binding stack searched innermost first, alias paths re-resolved outward) computes exactly
   what an interpreter with a LEXICAL environment computes (each name bound once, to a constant or to a path from the root). *)

Definition lex_conv (b : lbind) (env : lenv) : lexb :=
  match b with
  | LConst v => XConst v
  | LAlias p => match lex_resolve env p with Ok (inr q) => XRoot q | Ok (inl v) => XConst v | _ => XBad end
  end.
Fixpoint lex_push (ext : locals) (env : lenv) : lenv :=
  match ext with [] => env | (n, b) :: r => let env' := lex_push r env in (n, lex_conv b env') :: env' end.

Lemma lexify_app ext ls : lexify (app ext ls) = lex_push ext (lexify ls).
Proof.
  induction ext as [|[n b] r IH]; cbn [app lexify lex_push]; [reflexivity|].
  destruct b as [p|v]; cbn [lex_conv]; rewrite IH; reflexivity.
Qed.

Section L.
Variable re : string -> string -> option bool.

Definition lex_get_value (cfg : config) (env : lenv) (path : list string) (d : iface) : result gv :=
  match lex_resolve env path with
  | Err e => Err e | RPanic => RPanic
  | Ok (inl v) => Ok (GVal v)
  | Ok (inr p) =>
    match get cfg p d with
    | Ok v => Ok (GVal v)
    | Err ENotFound =>
        match unknown cfg with
        | Some u => Ok (GVal u)
        | None => if not_present_ok cfg p d then Ok GAbsent else Err ENotFound
        end
    | Err e => Err e
    | RPanic => RPanic
    end
  end.

Fixpoint lex_eval (cfg : config) (env : lenv) (e : expr) (d : iface) {struct e} : outcome :=
  match e with
  | ENot a => match lex_eval cfg env a d with Out b None => Out (negb b) None | Out _ (Some err) => Out false (Some err) | Panic => Panic end
  | EBin BAnd a b =>
      match lex_eval cfg env a d with
      | Out r err => if is_err (Out r err) || negb r then Out r err else lex_eval cfg env b d
      | Panic => Panic end
  | EBin BOr a b =>
      match lex_eval cfg env a d with
      | Out r err => if is_err (Out r err) || r then Out r err else lex_eval cfg env b d
      | Panic => Panic end
  | EMatch s op raw =>
      match lex_get_value cfg env (spath s) d with
      | Err e => Out false (Some e) | RPanic => Panic
      | Ok GAbsent => Out (disposition op) None
      | Ok (GVal v) => match_op re op raw v
      end
  | EColl op s b inner =>
      match lex_get_value cfg env (spath s) d with
      | Err e => Out false (Some e) | RPanic => Panic
      | Ok GAbsent => Out (coll_default op) None
      | Ok (GVal v) =>
        let ev := fun ext => lex_eval cfg (lex_push ext env) inner d in
        match kind_of v, v with
        | KMap, Some (t, VMap _ kvs) =>
            if type_eqb (key_type t) TString
            then coll_loop ev op b (spath s) true 0%nat (sort_keys (map (fun kv => match fst kv with VStr k => k | _ => "" end) kvs))
            else Out false (Some EKeyType)
        | (KSlice | KArray), Some (_, VSlice _ l) | (KSlice | KArray), Some (_, VArray l) =>
            coll_loop ev op b (spath s) false 0%nat (map (fun _ => "") l)
        | _, _ => Out false (Some ENotIterable)
        end
      end
  end.

Lemma get_value_lex cfg ls path d : alias_ok ls -> get_value cfg ls path d = lex_get_value cfg (lexify ls) path d.
Proof. intros H. unfold get_value, lex_get_value. rewrite (resolve_is_lexical ls H). reflexivity. Qed.

Theorem c06_lexical_scoping cfg d : forall e ls, alias_ok ls -> eval re cfg ls e d = lex_eval cfg (lexify ls) e d.
Proof.
  induction e as [a IHa|o a IHa b IHb|s op v|o s bd inner IH]; intros ls Hok.
  - cbn [Eval.eval lex_eval]. rewrite (IHa ls Hok). reflexivity.
  - cbn [Eval.eval lex_eval]. rewrite (IHa ls Hok), (IHb ls Hok). reflexivity.
  - cbn [Eval.eval lex_eval]. rewrite (get_value_lex cfg ls _ d Hok). reflexivity.
  - cbn [Eval.eval lex_eval]. rewrite (get_value_lex cfg ls _ d Hok).
    destruct (lex_get_value cfg (lexify ls) (spath s) d) as [[v|]|err|]; try reflexivity.
    assert (Hev : forall m i k, eval re cfg (app (bind_elem bd (spath s) m i k) ls) inner d
                                = lex_eval cfg (lex_push (bind_elem bd (spath s) m i k) (lexify ls)) inner d).
    { intros m i k. rewrite <- lexify_app. apply IH. apply alias_ok_app; [apply alias_ok_bind| exact Hok]. }
    destruct (kind_of v); try reflexivity; destruct v as [[t rv]|]; try reflexivity; destruct rv; try reflexivity.
    all: try (apply coll_loop_ext; intros i k; apply Hev).
    all: try (destruct (type_eqb (key_type t) TString); [apply coll_loop_ext; intros i k; apply Hev| reflexivity]).
Qed.
End L.
Print Assumptions c06_lexical_scoping.
