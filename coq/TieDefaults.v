(* see TableTie.v: one file per table, so that a table whose shape the extractor no longer recognises only affects
   the properties that speak about it *)
From Coq Require Import List String ZArith NArith Bool.
From Bexpr Require Import Base Strconv Ast Univ Eval Api Dump GoTables TableTie.
Import ListNotations.
Open Scope string_scope.

(* getDefaultOptions *)
Lemma default_options :
  go_default_options = [("withMaxExpressions", "0"); ("withTagName", "bexpr"); ("withUnknown", "nil")]
  /\ o_max default_opts = 0%N /\ o_tag default_opts = "bexpr" /\ o_unknown default_opts = None.
Proof. repeat split; reflexivity. Qed.
