(* see TableTie.v: one file per table, so that a table whose shape the extractor no longer recognises only affects
   the properties that speak about it *)
From Coq Require Import List String ZArith NArith Bool.
From Bexpr Require Import Base Strconv Ast Univ Eval Api Dump GoTables TableTie.
Import ListNotations.
Open Scope string_scope.

(* the defaults: the composite literal of type options in options.go; a field it does not mention has Go's zero value *)
Definition default_field (k zero : string) : string := match assoc k go_default_options with Some v => v | None => zero end.
Lemma default_options :
  default_field "withMaxExpressions" "0" = "0" /\ default_field "withTagName" "" = "bexpr" /\ default_field "withUnknown" "nil" = "nil"
  /\ default_field "withHookFn" "nil" = "nil" /\ default_field "withLocalVariables" "nil" = "nil"
  /\ o_max default_opts = 0%N /\ o_tag default_opts = "bexpr" /\ o_unknown default_opts = None.
Proof. repeat split; reflexivity. Qed.
