From Coq Require Import List ZArith String Ascii Bool NArith Lia.
Import ListNotations.
From Bexpr Require Import Base Ast Unicode Dump Quote.
Open Scope string_scope.

(* C19 with the validated model of strconv.Quote as the %q of the Value line *)
Theorem c19_dump_go ind e lvl : dump go_quote ind lvl e = render ind (lines go_quote lvl e).
Proof. apply c19_dump_spec. Qed.
Print Assumptions c19_dump_go.

Definition nl1 : string := String (ascii_of_nat 10) "".
Definition lit1 : string := "a""b\c" ++ nl1.

(* the text printed by the real ExpressionDump for  path == "a\x22b\x5cc\x0a"  (indent two blanks, level 1) *)
Example dump_matches_go :
  dump go_quote "  " 1 (EMatch {| stype := SelBexpr; spath := ["path"] |} OpEq (Some lit1))
  = "  Equal {" ++ nl1 ++ "    Selector: path" ++ nl1 ++ "    Value: ""a\""b\\c\n""" ++ nl1 ++ "  }" ++ nl1.
Proof. vm_compute. reflexivity. Qed.
