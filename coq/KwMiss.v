(* Keywords against arbitrary text: a literal fails exactly when the runes of the text stop matching it somewhere (not only at the
   first rune), and a keyword rule `kw _` fails on any text that is not the keyword followed by a blank. With these the atoms of
   the round-trip family need no side condition on the FIRST rune of an identifier (`name`, `items`, `count`, `metadata` are
   ordinary selectors): the only identifiers excluded are the keywords themselves. *)
From Coq Require Import List ZArith String Ascii Bool NArith Lia.
Import ListNotations.
From Bexpr Require Import Base Ast Unicode Peg Typing Actions GoGrammar Sem Term Lex Lex2 Lex3 Calc Calc2.
Open Scope string_scope.

(* the text departs from the literal l at some position (the cells read up to there, and the one looked at, are valid) *)
Fixpoint lit_miss (l : list Z) (i : list cell) : Prop :=
  match l with
  | [] => False
  | c :: l' => match i with
               | [] => True
               | x :: i' => crune x <> c \/
                            (crune x = c /\ match i' with y :: _ => cvalid y = true | [] => True end /\ lit_miss l' i')
               end
  end.

Lemma lit_go_miss l : forall s start, lit_miss l (inp s) ->
  exists s', lit_go l start s = (false, s') /\ inp s' = start /\ nerr s' = nerr s /\ fr s' = fr s.
Proof.
  induction l as [|c l IH]; intros s start H; [contradiction|].
  cbn [lit_go]. cbn [lit_miss] in H. destruct (inp s) as [|x i'] eqn:E.
  - exists (set_inp s start). cbn. auto.
  - destruct H as [Hne|[He [Hv Hm]]].
    + destruct (Z.eqb_spec (crune x) c) as [E1|E1]; [contradiction|]. exists (set_inp s start). cbn. auto.
    + rewrite He, Z.eqb_refl.
      assert (Ha : inp (advance s) = i' /\ nerr (advance s) = nerr s /\ fr (advance s) = fr s).
      { unfold advance. rewrite E. unfold peek_err. destruct i' as [|y r]; [cbn; auto|]. rewrite Hv. cbn. auto. }
      destruct Ha as [Hi [Hn Hf]].
      destruct (IH (advance s) start) as [s' [H1 [Hi' [Hn' Hf']]]]; [rewrite Hi; exact Hm|].
      exists s'. rewrite H1, Hi', Hn', Hf', Hn, Hf. auto.
Qed.

Lemma fails_lit_miss l : fails (lit_miss l) (PLit l false).
Proof.
  intros s H. set (s1 := tk s).
  destruct (lit_go_miss l s1 (inp s1) H) as [s' [H1 [Hi [Hn Hf]]]].
  assert (Hb : body go_grammar action_sem pred_sem no_rec 0 (PLit l false) s1 = Done false VNil s').
  { cbn [body]. rewrite H1. reflexivity. }
  exists VNil, s'. split.
  - apply sem_tick. fold s1. rewrite <- Hb. apply sb_leaf. reflexivity.
  - unfold clean. rewrite Hi, Hn, Hf. cbn. auto.
Qed.

(* like fails_f, with the validity of the text at hand *)
Lemma fails_fv P e i : fails P e -> (all_valid i -> P i) -> fspecj e i.
Proof. intros H Hp Hv. exact (fails_f P e i H (Hp Hv) Hv). Qed.

(* the text is not the keyword followed by a blank: it departs from the keyword, or what follows the keyword is not a blank *)
Definition kw_miss (kw : list Z) (i : list cell) : Prop :=
  lit_miss kw i \/ exists txt r, i = app txt r /\ map crune txt = kw /\ ws_free r.

Lemma kw_miss_fseqs kw es i : (all_valid i -> kw_miss kw i) -> fseqs (PLit kw false :: PRef "_" :: es) i.
Proof.
  intros H Hv. destruct (H Hv) as [Hm|[txt [r [E [Hk Hr]]]]].
  - exact (fseqs_here _ _ _ (fails_f _ _ _ (fails_lit_miss kw) Hm) Hv).
  - subst i. refine (fseqs_later _ _ _ r [] (lit_ok kw txt r Hk) _ Hv).
    apply fseqs_here. exact (fails_f _ _ _ fails_ws Hr).
Qed.

(* after optional-but-present blanks: the shape of every keyword operator  _ kw _ ... *)
Definition stop_kwl (kw : list Z) (k : list cell) : Prop :=
  ws_free k \/ exists x w rest, k = x :: app w rest /\ is_ws x /\ Forall is_ws w /\ ws_free rest /\ (all_valid rest -> kw_miss kw rest).

Lemma stop_kwl_fseqs kw es k : stop_kwl kw k -> fseqs (PRef "_" :: PLit kw false :: PRef "_" :: es) k.
Proof.
  intros [H|[x [w [rest [E [Hx [Hw [Hr Hm]]]]]]]].
  - apply fseqs_here. exact (fails_f _ _ _ fails_ws H).
  - subst k. eapply fseqs_later; [exact (ws_plus_ok x w rest Hx Hw Hr)|].
    apply kw_miss_fseqs. exact Hm.
Qed.

(* ---- an identifier against a keyword made of identifier runes ---- *)
Definition id_rune (z : Z) : Prop := class_match cls_id_tail z = true.

Lemma id_rune_not_ws c : id_rune (crune c) -> class_match cls_ws (crune c) = false.
Proof.
  unfold id_rune, class_match. cbn. rewrite !orb_false_r. intros H.
  repeat (apply orb_false_iff; split); apply Z.eqb_neq; intros E; rewrite E in H; cbn in H; discriminate.
Qed.

(* cs: identifier runes; R: what follows, not starting with an identifier rune. Either the text departs from kw / continues past it
   with something that is not a blank, or the identifier IS the keyword and a blank follows. *)
Lemma ident_vs_kw kw : Forall id_rune kw -> forall cs R, Forall (fun c => id_rune (crune c)) cs -> id_stop R -> all_valid (app cs R) ->
  kw_miss kw (app cs R) \/ (map crune cs = kw /\ exists x r, R = x :: r /\ is_ws x).
Proof.
  intros Hkw. induction kw as [|z kw IH]; intros cs R Hcs HR Hv.
  - (* keyword exhausted *)
    destruct cs as [|c cs].
    + cbn [app]. destruct R as [|x r].
      * left. right. exists [], []. repeat split.
      * destruct (class_match cls_ws (crune x)) eqn:Ex.
        -- right. split; [reflexivity|]. exists x, r. split; [reflexivity| exact Ex].
        -- left. right. exists [], (x :: r). repeat split. exact Ex.
    + left. right. exists [], (app (c :: cs) R). repeat split. cbn. apply id_rune_not_ws. exact (Forall_inv Hcs).
  - inversion Hkw as [|? ? Hz Hkw']; subst.
    destruct cs as [|c cs].
    + (* identifier exhausted before the keyword: the next cell is not an identifier rune, the keyword's next rune is *)
      cbn [app]. left. left. destruct R as [|x r]; [exact I|]. cbn [lit_miss]. left.
      intros E. change (class_match cls_id_tail (crune x) = false) in HR. unfold id_rune in Hz. rewrite <- E in Hz. rewrite Hz in HR. discriminate.
    + cbn [app] in *. inversion Hcs as [|? ? Hc Hcs']; subst. inversion Hv as [|? ? Hvc Hv']; subst.
      destruct (Z.eq_dec (crune c) z) as [E|E].
      * destruct (IH Hkw' cs R Hcs' HR Hv') as [[Hm|[txt [r [E2 [Hk Hr]]]]]|[Hk Hx]].
        -- left. left. cbn [lit_miss]. right. split; [exact E|]. split; [|exact Hm].
           destruct (app cs R) as [|y yr]; [exact I|]. exact (Forall_inv Hv').
        -- left. right. exists (c :: txt), r. cbn [app map]. rewrite E2, Hk, E. repeat split. exact Hr.
        -- right. split; [cbn [map]; rewrite Hk, E; reflexivity| exact Hx].
      * left. left. cbn [lit_miss]. left. exact E.
Qed.
