(* C20: the shipped generated parser is the one the shipped grammar describes.
   GoGrammar.v is produced by tools/gogrammar from grammar/grammar.go (the table `g` and the on*/callon* functions),
   PegGrammar.v by tools/pegread from grammar/grammar.peg; the two readers share no code.  Both files are regenerated
   from /repo on every run, so these equalities are re-checked by the kernel against the current sources. *)
From Coq Require Import List String Bool.
From Bexpr Require Import Base Ast Unicode Peg GoGrammar PegGrammar ActionsPinned Canon.
Import ListNotations.
Open Scope string_scope.

(* every rule, alternative, sequence, label, predicate, repetition, literal, class and reference *)
Lemma tables_equal : peg_grammar = go_grammar.
Proof. reflexivity. Qed.

(* every action: name, the labels it receives, and the token stream of its code *)
Definition go_actions_as_called : list (string * list string * list string) :=
  map (fun a => match a with (n, _, ls, ts) => (n, ls, ts) end) go_actions.
Lemma actions_equal : peg_actions = go_actions_as_called.
Proof. reflexivity. Qed.

(* the generated wrappers pass exactly the labels the action function names as parameters *)
Fixpoint strs_eqb (a b : list string) : bool :=
  match a, b with [] , [] => true | x :: a', y :: b' => String.eqb x y && strs_eqb a' b' | _, _ => false end.
Lemma strs_eqb_eq a : forall b, strs_eqb a b = true -> a = b.
Proof.
  induction a as [|x a IH]; intros [|y b] H; simpl in H; try discriminate; [reflexivity|].
  apply andb_prop in H. destruct H as [H1 H2]. apply String.eqb_eq in H1. apply IH in H2. subst. reflexivity.
Qed.
Definition wrappers_ok := forallb (fun a => match a with (_, ps, ls, _) => strs_eqb ps ls end) go_actions.
Lemma wrappers_pass_params : forall n ps ls ts, In (n, ps, ls, ts) go_actions -> ps = ls.
Proof.
  intros n ps ls ts H.
  assert (W : wrappers_ok = true) by (vm_compute; reflexivity).
  unfold wrappers_ok in W. rewrite forallb_forall in W. apply W in H. apply strs_eqb_eq. exact H.
Qed.

(* code_ids (Canon.v) lists the code blocks of an expression in the order pigeon emits their functions *)
Definition table_code_ids (g : list rule) : list string := flat_map (fun r => code_ids (rexpr r)) g.
Lemma actions_one_to_one :
  table_code_ids go_grammar = map (fun a => match a with (n, _, _, _) => n end) go_actions
  /\ NoDup (table_code_ids go_grammar).
Proof.
  split; [reflexivity|].
  assert (D : forall l : list string, (fix nd (l : list string) : bool :=
              match l with [] => true | x :: t => negb (existsb (String.eqb x) t) && nd t end) l = true -> NoDup l).
  { induction l as [|x t IH]; intro H; [constructor|].
    apply andb_prop in H. destruct H as [H1 H2]. constructor; [|apply IH; exact H2].
    intro Hin. apply negb_true_iff in H1. assert (E : existsb (String.eqb x) t = true).
    { apply existsb_exists. exists x. split; [exact Hin | apply String.eqb_refl]. }
    rewrite E in H1. discriminate. }
  apply D. vm_compute. reflexivity.
Qed.

(* every generated wrapper callon<name> calls its own action function on<name> *)
Lemma wrappers_call_their_action : go_wrapper_mismatches = [].
Proof. reflexivity. Qed.

(* literal matchers: the `want` string (used in error messages only) is the quoted literal *)
Lemma wants_are_quoted_literals : go_want_mismatches = [].
Proof. reflexivity. Qed.

(* every rule reference resolves, and rule names are unique *)
Fixpoint refs (e : pexpr) : list string :=
  match e with
  | PRef n => [n]
  | PAction _ e' | PAnd e' | PNot e' | PLabeled _ e' | PStar e' | PPlus e' | POpt e' => refs e'
  | PChoice l | PSeq l => flat_map refs l
  | _ => []
  end.
Definition refs_resolve (g : list rule) : bool :=
  forallb (fun r => forallb (fun n => match find_rule g n with Some _ => true | None => false end) (refs (rexpr r))) g.
Lemma references_resolve : refs_resolve go_grammar = true.
Proof. vm_compute. reflexivity. Qed.
