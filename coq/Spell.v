From Coq Require Import List ZArith String Ascii Bool NArith Lia.
Import ListNotations.
From Bexpr Require Import Base Ast Unicode Peg Typing Actions GoGrammar Sem Term Lex Lex2 Lex3 Calc Calc2 Skel Atoms StrLit RawLit.
Open Scope string_scope.

(* C07, parser half: a selector whose parts are spelled, each independently, as .name, .digits or ["literal"]
   is read as the list of its parts. *)

Definition cls_digit := {| cc_val := "[0-9]"; cc_chars := []; cc_ranges := [48; 57]%Z; cc_classes := []; cc_ignore_case := false; cc_inverted := false |}.
Definition is_digit (c : cell) : Prop := class_match cls_digit (crune c) = true.
Definition digit_stop (k : list cell) : Prop := class_miss cls_digit k.

Lemma plus_class_ok cc c w k : class_match cc (crune c) = true -> Forall (fun c => class_match cc (crune c) = true) w ->
  class_miss cc k -> pe_ok (PPlus (PClass cc)) (c :: app w k) k [].
Proof.
  intros Hc Hw Hk Hv. inversion Hv as [|? ? _ Hv1]; subst.
  split; [exact (proj2 (proj1 (Forall_app _ _ _) Hv1))|]. intros s E.
  destruct (semw_class_hit cc (tk s) c (app w k) E Hv1 Hc) as [s1 [H1 [Hi1 [Hn1 Hf1]]]].
  destruct (semr_class cc k Hk w [VBytes (cbytes c)] s1 Hi1 Hv1 Hw) as [v [s2 [H2 [Hi2 [Hn2 Hf2]]]]].
  exists v, s2. split.
  - apply sem_tick. eapply sb_plus_ok; [exact H1| exact H2].
  - unfold step_to. cbn. rewrite Hi2, Hn2, Hf2, Hn1, Hf1. auto.
Qed.

Lemma ident_spec c cs K : class_match cls_id_head (crune c) = true -> id_tail_ok cs -> id_stop K ->
  spec (PRef "Identifier") (c :: app cs K) (VStr (cells_str (c :: cs))) K.
Proof.
  intros Hh Ht Hk Hv. inversion Hv as [|? ? _ Hv1]; subst. split; [exact (proj2 (proj1 (Forall_app _ _ _) Hv1))|].
  intros s E. destruct (sem_identifier c cs K s E Hv1 Hh Ht Hk) as [s' [H1 H2]]. exists s'. split; [exact H1| exact H2].
Qed.

Lemma fails_index_expression' : fails (head_not 91) (PRef "IndexExpression").
Proof.
  eapply fails_ref; [reflexivity|]. cbn [rexpr].
  apply fails_choice. repeat constructor.
  - apply fails_action. apply fails_seq_first. apply fails_lit1.
  - apply fails_seq_first. apply fails_lit1.
  - apply fails_seq_first. apply fails_lit1.
Qed.

Lemma digit_not_letter z : class_match cls_digit z = true -> class_match cls_id_head z = false.
Proof.
  unfold class_match. cbn. rewrite !orb_false_r. intros H.
  apply andb_true_iff in H. destruct H as [H1 H2]. apply Z.leb_le in H1. apply Z.leb_le in H2.
  apply orb_false_iff. split; apply andb_false_iff.
  - left. apply Z.leb_gt. lia.
  - left. apply Z.leb_gt. lia.
Qed.

Definition dotc' := dotc.

(* .name *)
Lemma seg_dot_spec c cs K : class_match cls_id_head (crune c) = true -> id_tail_ok cs -> id_stop K ->
  spec (PRef "SelectorOrIndex") (dotc :: c :: app cs K) (VStr (cells_str (c :: cs))) K.
Proof.
  intros Hh Ht Hk. eapply ref_ok; [reflexivity|]. cbn [rexpr]. apply spec_j. apply choice_ok. apply specc_here.
  eapply action_ok.
  - apply seq_ok. eapply seqs_cons; [apply (lit_ok [46]%Z [dotc] _ eq_refl)|].
    eapply seqs_cons; [apply lab_ok; apply (ident_spec c cs K Hh Ht Hk)|]. apply seqs_nil.
  - intros G. reflexivity.
Qed.

(* .digits *)
Lemma seg_num_spec d ds K : is_digit d -> Forall is_digit ds -> digit_stop K ->
  spec (PRef "SelectorOrIndex") (dotc :: d :: app ds K) (VStr (cells_str (d :: ds))) K.
Proof.
  intros Hd Hds Hk. eapply ref_ok; [reflexivity|]. cbn [rexpr]. apply spec_j. apply choice_ok.
  apply specc_next.
  { apply faction. apply fseq. eapply fseqs_later; [apply (lit_ok [46]%Z [dotc] _ eq_refl)|].
    apply fseqs_here. apply flabeled. eapply fref; [reflexivity|]. cbn [rexpr]. apply faction. apply fseq. apply fseqs_here.
    apply fclass. cbn. exact (digit_not_letter _ Hd). }
  apply specc_next.
  { apply faction. apply flabeled. refine (fails_f (head_not 91) _ _ fails_index_expression' _). cbn. discriminate. }
  apply specc_here. eapply action_any.
  - apply seq_any. eapply seqs_any_cons; [eapply pe_ok_any; apply (lit_ok [46]%Z [dotc] _ eq_refl)|].
    eapply seqs_any_cons; [apply lab_any; eapply pe_ok_any; apply (plus_class_ok cls_digit d ds K Hd Hds Hk)|].
    apply seqs_any_nil.
  - intros G.
    rewrite (text_between_prefix' (dotc :: d :: ds) K); [reflexivity|]. cbn [app]. reflexivity.
Qed.

(* ["literal"] and [`literal`] *)
Definition quoted_body (q : cell) (cs : list cell) (q' : cell) : Prop :=
  (crune q = 34%Z /\ crune q' = 34%Z /\ Forall not_dq cs) \/ (crune q = 96%Z /\ crune q' = 96%Z /\ Forall not_bq cs).
Lemma quoted_body_spec q cs q' k lit : quoted_body q cs q' -> unquote (cells_str (q :: app cs [q'])) = Some lit ->
  spec (PRef "StringLiteral") (q :: app cs (q' :: k)) (VStr lit) k.
Proof.
  intros [[Hq [Hq' Hcs]]|[Hq [Hq' Hcs]]] Hu; [exact (string_literal_spec q cs q' k lit Hq Hq' Hcs Hu)| exact (raw_literal_spec q cs q' k lit Hq Hq' Hcs Hu)].
Qed.
Lemma quoted_body_head q cs q' : quoted_body q cs q' -> class_match cls_ws (crune q) = false.
Proof. intros [[Hq _]|[Hq _]]; rewrite Hq; reflexivity. Qed.

Lemma seg_idx_spec lb w1 q cs q' w2 rb lit K :
  crune lb = 91%Z -> crune rb = 93%Z -> Forall is_ws w1 -> Forall is_ws w2 ->
  quoted_body q cs q' -> unquote (cells_str (q :: app cs [q'])) = Some lit ->
  spec (PRef "SelectorOrIndex") (lb :: app w1 (q :: app cs (q' :: app w2 (rb :: K)))) (VStr lit) K.
Proof.
  intros Hlb Hrb Hw1 Hw2 Hqb Hu.
  eapply ref_ok; [reflexivity|]. cbn [rexpr]. apply spec_j. apply choice_ok.
  apply specc_next.
  { apply faction. apply fseq. apply fseqs_here. refine (fails_f (head_not 46) _ _ (fails_lit 46 []) _). cbn. rewrite Hlb. discriminate. }
  apply specc_here. eapply action_ok.
  - apply lab_ok. eapply ref_ok; [reflexivity|]. cbn [rexpr]. apply spec_j. apply choice_ok. apply specc_here.
    eapply action_ok with (v' := VStr lit).
    + apply seq_ok.
      eapply seqs_cons; [apply (lit_ok [91]%Z [lb] _); cbn; rewrite Hlb; reflexivity|].
      eapply seqs_cons; [apply (ws_opt_ok w1 _ Hw1); cbn; exact (quoted_body_head q cs q' Hqb)|].
      eapply seqs_cons; [apply lab_ok; apply (quoted_body_spec q cs q' _ lit Hqb Hu)|].
      eapply seqs_cons; [apply (ws_opt_ok w2 _ Hw2); cbn; rewrite Hrb; reflexivity|].
      eapply seqs_cons; [apply (lit_ok [93]%Z [rb] K); cbn; rewrite Hrb; reflexivity|]. apply seqs_nil.
    + intros G. reflexivity.
  - intros G. reflexivity.
Qed.
Print Assumptions seg_idx_spec.

(* ---- parts, each in its own spelling ---- *)
Inductive seg :=
| SDot (c : cell) (cs : list cell)
| SNum (d : cell) (ds : list cell)
| SIdx (lb : cell) (w1 : list cell) (q : cell) (cs : list cell) (q' : cell) (w2 : list cell) (rb : cell) (lit : string).

Definition seg_ok (sg : seg) : Prop :=
  match sg with
  | SDot c cs => class_match cls_id_head (crune c) = true /\ id_tail_ok cs
  | SNum d ds => is_digit d /\ Forall is_digit ds
  | SIdx lb w1 q cs q' w2 rb lit =>
      crune lb = 91%Z /\ crune rb = 93%Z /\ Forall is_ws w1 /\ Forall is_ws w2 /\ quoted_body q cs q' /\
      unquote (cells_str (q :: app cs [q'])) = Some lit
  end.
Definition seg_cells (sg : seg) (K : list cell) : list cell :=
  match sg with
  | SDot c cs => dotc :: c :: app cs K
  | SNum d ds => dotc :: d :: app ds K
  | SIdx lb w1 q cs q' w2 rb _ => lb :: app w1 (q :: app cs (q' :: app w2 (rb :: K)))
  end.
Definition seg_part (sg : seg) : string :=
  match sg with SDot c cs => cells_str (c :: cs) | SNum d ds => cells_str (d :: ds) | SIdx _ _ _ _ _ _ _ lit => lit end.
Definition seg_stop (K : list cell) : Prop := id_stop K /\ digit_stop K.
Fixpoint segs_cells (segs : list seg) (k : list cell) : list cell :=
  match segs with [] => k | sg :: r => seg_cells sg (segs_cells r k) end.

Lemma seg_spec sg K : seg_ok sg -> seg_stop K -> spec (PRef "SelectorOrIndex") (seg_cells sg K) (VStr (seg_part sg)) K.
Proof.
  intros Hok [Hi Hd]. destruct sg as [c cs|d ds|lb w1 q cs q' w2 rb lit]; cbn [seg_ok seg_cells seg_part] in *.
  - destruct Hok as [Hh Ht]. apply seg_dot_spec; assumption.
  - destruct Hok as [H1 H2]. apply seg_num_spec; assumption.
  - destruct Hok as [H1 [H2 [H3 [H4 [H5 H6]]]]]. apply seg_idx_spec; assumption.
Qed.

Lemma seg_stop_head sg K : seg_ok sg -> seg_stop (seg_cells sg K).
Proof.
  intros Hok. destruct sg as [c cs|d ds|lb w1 q cs q' w2 rb lit]; cbn [seg_cells]; try (split; reflexivity).
  destruct Hok as [Hlb _]. split; cbn; rewrite Hlb; reflexivity.
Qed.

Lemma segs_stop segs k : Forall seg_ok segs -> seg_stop k -> seg_stop (segs_cells segs k).
Proof. intros H Hk. destruct H as [|sg r Hs _]; [exact Hk|]. cbn [segs_cells]. apply seg_stop_head. exact Hs. Qed.

Lemma semr_segs k : seg_stop k -> no_dot_no_bracket k ->
  forall segs acc s, Forall seg_ok segs -> inp s = segs_cells segs k -> all_valid (segs_cells segs k) ->
  all_valid k /\ exists s', SEMR (PRef "SelectorOrIndex") acc s
      (Done true (VList (rev (app (rev (map (fun sg => VStr (seg_part sg)) segs)) acc))) s') /\ keeps s s' k.
Proof.
  intros Hk Hk2. induction segs as [|sg r IH]; intros acc s Hok E Hv.
  - cbn [segs_cells map rev app] in *. split; [exact Hv|].
    destruct (fails_selector_or_index (set_fr s [])) as [v [s1 [H1 [Hi [Hn Hf]]]]]; [cbn; rewrite E; exact Hk2|].
    exists (set_fr s1 (fr s)). split; [eapply sr_stop; exact (L_w _ s false v s1 H1)|].
    unfold keeps. cbn. rewrite Hi, Hn. cbn. auto.
  - inversion Hok as [|? ? Hs Hr]; subst. cbn [segs_cells] in E, Hv.
    destruct (seg_spec sg (segs_cells r k) Hs (segs_stop r k Hr Hk) Hv) as [Hv' Hspec].
    destruct (Hspec (set_fr s []) E) as [s1 [H1 [Hi [Hn Hf]]]].
    assert (E1 : inp (set_fr s1 (fr s)) = segs_cells r k) by exact Hi.
    destruct (IH (VStr (seg_part sg) :: acc) _ Hr E1 Hv') as [Hvk [s2 [H2 [Hi2 [Hn2 Hf2]]]]].
    split; [exact Hvk|]. exists s2. split.
    + eapply sr_more; [exact (L_w _ s true _ s1 H1)|]. cbn [map rev]. rewrite <- app_assoc. exact H2.
    + unfold keeps. rewrite Hi2, Hn2, Hf2. cbn. rewrite Hn. cbn. auto.
Qed.

Lemma star_segs segs k : Forall seg_ok segs -> seg_stop k -> no_dot_no_bracket k ->
  spec (PStar (PRef "SelectorOrIndex")) (segs_cells segs k) (VList (map (fun sg => VStr (seg_part sg)) segs)) k.
Proof.
  intros Hok Hk Hk2 Hv.
  split; [exact (proj1 (semr_segs k Hk Hk2 segs [] {| inp := segs_cells segs k; cnt := 0; nerr := 0; fr := [] |} Hok eq_refl Hv))|].
  intros s E. destruct (semr_segs k Hk Hk2 segs [] (tk s) Hok E Hv) as [_ [s1 [H1 H2]]].
  rewrite app_nil_r, rev_involutive in H1.
  exists s1. split; [apply sem_tick; apply sb_star; exact H1| exact H2].
Qed.

(* C07: every mix of spellings yields the list of parts *)
Theorem selector_mixed c cs segs k :
  class_match cls_id_head (crune c) = true -> id_tail_ok cs -> Forall seg_ok segs -> seg_stop k -> no_dot_no_bracket k ->
  spec (PRef "Selector") (c :: app cs (segs_cells segs k))
       (VSel {| stype := SelBexpr; spath := cells_str (c :: cs) :: map seg_part segs |}) k.
Proof.
  intros Hh Ht Hok Hk Hk2.
  eapply ref_ok; [reflexivity|]. cbn [rexpr]. apply spec_j. apply choice_ok. apply specc_here.
  eapply action_ok.
  - apply seq_ok.
    eapply seqs_cons; [apply lab_ok; apply (ident_spec c cs _ Hh Ht (proj1 (segs_stop segs k Hok Hk)))|].
    eapply seqs_cons; [apply lab_ok; apply (star_segs segs k Hok Hk Hk2)|]. apply seqs_nil.
  - intros G.
    change (action_sem "Selector2" _ _)
      with (match as_strs (VList (map (fun sg => VStr (seg_part sg)) segs)) with
            | Some r => AVal (VSel {| stype := SelBexpr; spath := cells_str (c :: cs) :: r |}) | None => APanic end).
    rewrite <- (map_map seg_part VStr), as_strs_map. reflexivity.
Qed.

Corollary c07_spellings_same_path c cs segs1 segs2 k :
  class_match cls_id_head (crune c) = true -> id_tail_ok cs -> Forall seg_ok segs1 -> Forall seg_ok segs2 ->
  seg_stop k -> no_dot_no_bracket k -> map seg_part segs1 = map seg_part segs2 ->
  exists v, spec (PRef "Selector") (c :: app cs (segs_cells segs1 k)) v k /\ spec (PRef "Selector") (c :: app cs (segs_cells segs2 k)) v k.
Proof.
  intros Hh Ht H1 H2 Hk Hk2 E. eexists. split; [apply selector_mixed; assumption|]. rewrite E. apply selector_mixed; assumption.
Qed.
Print Assumptions c07_spellings_same_path.

(* the same part in three spellings *)
Definition ac (b : ascii) : cell := {| crune := b2z b; cbytes := String b ""; cvalid := true |}.
Example three_spellings :
  seg_part (SNum (ac "0") []) = "0" /\ seg_ok (SNum (ac "0") []) /\
  seg_part (SIdx (ac "[") [] (ac """") [ac "0"] (ac """") [sp] (ac "]") "0") = "0" /\
  seg_ok (SIdx (ac "[") [] (ac """") [ac "0"] (ac """") [sp] (ac "]") "0") /\
  seg_part (SDot (ac "b") [ac "0"]) = "b0" /\ seg_ok (SDot (ac "b") [ac "0"]) /\
  seg_part (SIdx (ac "[") [] (ac "`") [ac "0"] (ac "`") [sp] (ac "]") "0") = "0" /\
  seg_ok (SIdx (ac "[") [] (ac "`") [ac "0"] (ac "`") [sp] (ac "]") "0").
Proof.
  assert (Hsp : Forall is_ws [sp]) by (constructor; [reflexivity| constructor]).
  split; [reflexivity|]. split; [split; [reflexivity| constructor]|]. split; [reflexivity|].
  split.
  { cbn [seg_ok]. split; [reflexivity|]. split; [reflexivity|]. split; [constructor|]. split; [exact Hsp|].
    split; [|reflexivity]. left. split; [reflexivity|]. split; [reflexivity|]. constructor; [cbn; discriminate| constructor]. }
  split; [reflexivity|]. split.
  { cbn [seg_ok]. split; [reflexivity|]. constructor; [reflexivity| constructor]. }
  split; [reflexivity|].
  cbn [seg_ok]. split; [reflexivity|]. split; [reflexivity|]. split; [constructor|]. split; [exact Hsp|].
  split; [|reflexivity]. right. split; [reflexivity|]. split; [reflexivity|]. constructor; [cbn; discriminate| constructor].
Qed.

(* a carriage return inside back quotes is not part of the part (Go's raw-string rule): a[`b<CR>`] names the part b *)
Example raw_part_drops_cr :
  seg_ok (SIdx (ac "[") [] (ac "`") [ac "b"; ac (ascii_of_nat 13)] (ac "`") [] (ac "]") "b").
Proof.
  cbn [seg_ok]. split; [reflexivity|]. split; [reflexivity|]. split; [constructor|]. split; [constructor|].
  split; [|vm_compute; reflexivity]. right. split; [reflexivity|]. split; [reflexivity|].
  constructor; [cbn; discriminate|]. constructor; [cbn; discriminate| constructor].
Qed.
