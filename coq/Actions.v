From Coq Require Import List ZArith String Ascii Bool.
Import ListNotations.
From Bexpr Require Import Base Ast Unicode Peg Typing.
Open Scope string_scope.

Definition selector_string (s : selector) : string :=
  match spath s with
  | [] => ""
  | p => match stype s with SelBexpr => sjoin "." p | SelJsonPtr => sjoin "/" p end
  end.

Definition as_strs (v : pv) : option (list string) :=    (* rest.([]interface{}) with each v.(string); VNil = the nil check *)
  match v with
  | VNil => Some []
  | VList l => fold_right (fun x acc => match x, acc with VStr s, Some r => Some (s :: r) | _, _ => None end) (Some []) l
  | _ => None
  end.

Definition mk_binding m d i v := {| bmode := m; bdefault := d; bindex := i; bvalue := v |}.

Definition act := (frame -> string -> ares).
Record action := { aname : string; aparams : list (string * vty); aret : vty; arun : act }.

Definition ret_label (l : string) : act := fun f _ => AVal (lookup f l).
Definition const (v : pv) : act := fun _ _ => AVal v.
Definition bin (op : binop) : act := fun f _ =>
  match lookup f "left", lookup f "right" with VExpr l, VExpr r => AVal (VExpr (EBin op l r)) | _, _ => APanic end.
Definition match3 : act := fun f _ =>
  match lookup f "selector", lookup f "operator", lookup f "value" with
  | VSel s, VMOp o, VMV raw => AVal (VExpr (EMatch s o (Some raw))) | _, _, _ => APanic end.

Definition actions : list action := [
  {| aname := "Input2"; aparams := [("expr", TExpr)]; aret := TExpr; arun := ret_label "expr" |};
  {| aname := "Input17"; aparams := [("expr", TExpr)]; aret := TExpr; arun := ret_label "expr" |};
  {| aname := "OrExpression2"; aparams := [("left", TExpr); ("right", TExpr)]; aret := TExpr; arun := bin BOr |};
  {| aname := "OrExpression11"; aparams := [("expr", TExpr)]; aret := TExpr; arun := ret_label "expr" |};
  {| aname := "OrExpression14"; aparams := [("expr", TExpr)]; aret := TExpr; arun := ret_label "expr" |};
  {| aname := "AndExpression2"; aparams := [("left", TExpr); ("right", TExpr)]; aret := TExpr; arun := bin BAnd |};
  {| aname := "AndExpression11"; aparams := [("expr", TExpr)]; aret := TExpr; arun := ret_label "expr" |};
  {| aname := "NotExpression2"; aparams := [("expr", TExpr)]; aret := TExpr; arun := fun f _ =>
       match lookup f "expr" with VExpr (ENot e) => AVal (VExpr e) | VExpr e => AVal (VExpr (ENot e)) | _ => APanic end |};
  {| aname := "NotExpression8"; aparams := [("expr", TExpr)]; aret := TExpr; arun := ret_label "expr" |};
  {| aname := "CollectionExpression1"; aparams := [("op", TCOp); ("selector", TSel); ("binding", TBind); ("expr", TExpr)]; aret := TExpr;
     arun := fun f _ => match lookup f "op", lookup f "selector", lookup f "binding", lookup f "expr" with
                        | VCOp o, VSel s, VBind b, VExpr e => AVal (VExpr (EColl o s b e)) | _, _, _, _ => APanic end |};
  {| aname := "CollectionIdentifiers2"; aparams := [("id1", TStr); ("id2", TStr)]; aret := TBind; arun := fun f _ =>
       match lookup f "id1", lookup f "id2" with VStr a, VStr b => AVal (VBind (mk_binding BIndexAndValue "" a b)) | _, _ => APanic end |};
  {| aname := "CollectionIdentifiers13"; aparams := [("id1", TStr)]; aret := TBind; arun := fun f _ =>
       match lookup f "id1" with VStr a => AVal (VBind (mk_binding BIndex "" a "")) | _ => APanic end |};
  {| aname := "CollectionIdentifiers23"; aparams := [("id2", TStr)]; aret := TBind; arun := fun f _ =>
       match lookup f "id2" with VStr b => AVal (VBind (mk_binding BValue "" "" b)) | _ => APanic end |};
  {| aname := "CollectionIdentifiers33"; aparams := [("id", TStr)]; aret := TBind; arun := fun f _ =>
       match lookup f "id" with VStr a => AVal (VBind (mk_binding BDefault a "" "")) | _ => APanic end |};
  {| aname := "CollectionOpAny1"; aparams := []; aret := TCOp; arun := const (VCOp CAny) |};
  {| aname := "CollectionOpAll1"; aparams := []; aret := TCOp; arun := const (VCOp CAll) |};
  {| aname := "ParenthesizedExpression2"; aparams := [("expr", TExpr)]; aret := TExpr; arun := ret_label "expr" |};
  {| aname := "ParenthesizedExpression12"; aparams := [("expr", TExpr)]; aret := TExpr; arun := ret_label "expr" |};
  {| aname := "MatchSelectorOpValue1"; aparams := [("selector", TSel); ("operator", TMOpV); ("value", TMV)]; aret := TExpr; arun := match3 |};
  {| aname := "MatchSelectorOp1"; aparams := [("selector", TSel); ("operator", TMOpN)]; aret := TExpr; arun := fun f _ =>
       match lookup f "selector", lookup f "operator" with VSel s, VMOp o => AVal (VExpr (EMatch s o None)) | _, _ => APanic end |};
  {| aname := "MatchValueOpSelector2"; aparams := [("selector", TSel); ("operator", TMOpV); ("value", TMV)]; aret := TExpr; arun := match3 |};
  {| aname := "MatchEqual1"; aparams := []; aret := TMOpV; arun := const (VMOp OpEq) |};
  {| aname := "MatchNotEqual1"; aparams := []; aret := TMOpV; arun := const (VMOp OpNeq) |};
  {| aname := "MatchIsEmpty1"; aparams := []; aret := TMOpN; arun := const (VMOp OpIsEmpty) |};
  {| aname := "MatchIsNotEmpty1"; aparams := []; aret := TMOpN; arun := const (VMOp OpIsNotEmpty) |};
  {| aname := "MatchIn1"; aparams := []; aret := TMOpV; arun := const (VMOp OpIn) |};
  {| aname := "MatchNotIn1"; aparams := []; aret := TMOpV; arun := const (VMOp OpNotIn) |};
  {| aname := "MatchContains1"; aparams := []; aret := TMOpV; arun := const (VMOp OpIn) |};
  {| aname := "MatchNotContains1"; aparams := []; aret := TMOpV; arun := const (VMOp OpNotIn) |};
  {| aname := "MatchMatches1"; aparams := []; aret := TMOpV; arun := const (VMOp OpMatches) |};
  {| aname := "MatchNotMatches1"; aparams := []; aret := TMOpV; arun := const (VMOp OpNotMatches) |};
  {| aname := "Selector2"; aparams := [("first", TStr); ("rest", TList TStr)]; aret := TSel; arun := fun f _ =>
       match lookup f "first", as_strs (lookup f "rest") with
       | VStr a, Some r => AVal (VSel {| stype := SelBexpr; spath := a :: r |}) | _, _ => APanic end |};
  {| aname := "Selector9"; aparams := [("ptrsegs", TList TStr)]; aret := TSel; arun := fun f _ =>
       match as_strs (lookup f "ptrsegs") with
       | Some segs => AVal (VSel {| stype := SelJsonPtr; spath := ptr_parts segs |}) | None => APanic end |};
  {| aname := "JsonPointerSegment1"; aparams := []; aret := TStr; arun := fun _ text => AVal (VStr (stail text)) |};
  {| aname := "Identifier1"; aparams := []; aret := TStr; arun := fun _ text => AVal (VStr text) |};
  {| aname := "SelectorOrIndex2"; aparams := [("ident", TStr)]; aret := TStr; arun := ret_label "ident" |};
  {| aname := "SelectorOrIndex7"; aparams := [("expr", TStr)]; aret := TStr; arun := ret_label "expr" |};
  {| aname := "SelectorOrIndex10"; aparams := []; aret := TStr; arun := fun _ text => AVal (VStr (stail text)) |};
  {| aname := "IndexExpression2"; aparams := [("lit", TStr)]; aret := TStr; arun := ret_label "lit" |};
  {| aname := "Value2"; aparams := [("selector", TSel)]; aret := TMV; arun := fun f text =>
       match lookup f "selector" with
       | VSel s => match stype s with
                   | SelJsonPtr => AVal (VMV (strip_quotes text))      (* a quoted value keeps its own text (repair of D9) *)
                   | SelBexpr => AVal (VMV (selector_string s)) end
       | _ => APanic end |};
  {| aname := "Value5"; aparams := [("n", TStr)]; aret := TMV; arun := fun f _ => match lookup f "n" with VStr s => AVal (VMV s) | _ => APanic end |};
  {| aname := "Value8"; aparams := [("s", TStr)]; aret := TMV; arun := fun f _ => match lookup f "s" with VStr s => AVal (VMV s) | _ => APanic end |};
  {| aname := "NumberLiteral2"; aparams := []; aret := TStr; arun := fun _ text => AVal (VStr text) |};
  {| aname := "StringLiteral2"; aparams := []; aret := TStr; arun := fun _ text =>
       match unquote text with Some s => AVal (VStr s) | None => AErr (VStr "") end |}
].

Fixpoint find_action (l : list action) (id : string) : option action :=
  match l with [] => None | a :: l' => if String.eqb (aname a) id then Some a else find_action l' id end.

Definition action_sem (id : string) (f : frame) (text : string) : ares :=
  match find_action actions id with Some a => arun a f text | None => AVal VNil end.
Definition act_params (id : string) : list (string * vty) :=
  match find_action actions id with Some a => aparams a | None => [] end.
Definition act_ret (id : string) : vty :=
  match find_action actions id with Some a => aret a | None => TAny end.

(* every code predicate of this grammar is `return false, errors.New(...)` *)
Definition pred_sem (id : string) (f : frame) : bool * bool := (false, true).
