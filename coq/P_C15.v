(* Property C15 - the parser accepts exactly the bexpr language and builds the prescribed tree.
   The reference is the declarative big-step PEG semantics `sem` (Sem.v) of the table read from grammar.peg;
   the engine model (a transcription of the pigeon runtime, tied to the real parser by the correspondence check with
   step counts) is proved sound and complete for it.  Statements only. *)
From Coq Require Import List String NArith.
From Bexpr Require Import Base Ast Unicode Peg Typing Actions GoGrammar PegGrammar C20 Sem FuelMono GrammarTypes ActionsPinned ActionsPin ModelApi.

Theorem c15_engine_sound : forall fuel e s x,
  pe peg_grammar None action_sem pred_sem fuel e s = x -> x <> OutOfFuel -> sem peg_grammar action_sem pred_sem e s x.
Proof. exact (engine_sound peg_grammar action_sem pred_sem). Qed.
Print Assumptions c15_engine_sound.

Theorem c15_engine_complete : forall e s x,
  sem peg_grammar action_sem pred_sem e s x -> exists f0, forall f, (f0 <= f)%nat -> pe peg_grammar None action_sem pred_sem f e s = x.
Proof. exact (engine_complete peg_grammar action_sem pred_sem). Qed.
Print Assumptions c15_engine_complete.

(* the result of a parse does not depend on the amount of fuel once there is enough: "the tree for s" is well defined *)
Theorem c15_fuel_independent : forall mx f1 f2 e s,
  pe peg_grammar mx action_sem pred_sem f1 e s <> OutOfFuel -> pe peg_grammar mx action_sem pred_sem f2 e s <> OutOfFuel ->
  pe peg_grammar mx action_sem pred_sem f1 e s = pe peg_grammar mx action_sem pred_sem f2 e s.
Proof. intros mx. exact (pe_fuel_agree peg_grammar mx action_sem pred_sem). Qed.
Print Assumptions c15_fuel_independent.

(* the parser compiled from grammar.go runs the same table *)
Theorem c15_same_table : forall mx fuel s,
  parse go_grammar mx action_sem pred_sem fuel s = parse peg_grammar mx action_sem pred_sem fuel s.
Proof. intros. rewrite tables_equal. reflexivity. Qed.
Print Assumptions c15_same_table.

(* every action only uses labels that are in its frame, with values of the types it asserts *)
Theorem c15_grammar_typed : grammar_typed go_grammar rule_ty act_params act_ret = true.
Proof. exact go_grammar_typed. Qed.
Print Assumptions c15_grammar_typed.

(* the action code is the code the action semantics was written against *)
Theorem c15_actions_pinned : go_actions = pinned_actions.
Proof. exact actions_pinned. Qed.
Print Assumptions c15_actions_pinned.

(* part of what "the language" is: a number literal may be followed by any blank (space, tab, carriage return, line feed), by a closing
   parenthesis, by a closing brace, or by the end of the text - the look-ahead rule AfterNumbers of the grammar read from /repo holds there *)
From Coq Require Import ZArith. From Bexpr Require Import Lex Calc Skel Num NumFollow.
Theorem c15_what_may_follow_a_number :
  (forall (c : cell) (k : list cell),
     List.In (crune c) (32 :: 9 :: 13 :: 10 :: 41 :: 125 :: nil)%Z -> Lex.all_valid (c :: k) ->
     Calc.pe_ok (PRef "AfterNumbers"%string) (c :: k) (c :: k) nil)
  /\ Calc.pe_ok (PRef "AfterNumbers"%string) nil nil nil.
Proof. exact (conj NumFollow.number_followers NumFollow.number_at_the_end). Qed.
Print Assumptions c15_what_may_follow_a_number.
