(* Hexadecimal float literals - [-] 0x hexdigits [. hexdigits] p [+|-] digits (lower-case digits; x or X, p or P) - which only a quoted literal
   can spell: the float parser model reads them as mant * 2^(exponent - 4 * |fraction|) and rounds once. Same statement as number_literal_nearest. *)
From Coq Require Import List ZArith String Ascii Bool NArith Lia.
Import ListNotations.
From Bexpr Require Import Base Strconv C02 C02b RoundRat RoundGuards FloatLit FloatLit2 FloatLit3.
Open Scope string_scope.
Open Scope Z_scope.

Lemma parse_float_unsigned_any sg u bits p ebits emin emaxe :
  (forall c t, parse_float_core (String c t) bits =
     let neg := b2z c =? 45 in let body := if (b2z c =? 43) || neg then t else String c t in
     if is_hex_b body then hex_tail body neg p ebits emin emaxe else dec_tail body neg p ebits emin emaxe) ->
  (exists d0 t, is_digit d0 /\ u = String (digit_char d0) t) -> has_us u = false ->
  parse_float (sign_str sg ++ u) bits = if is_hex_b u then hex_tail u sg p ebits emin emaxe else dec_tail u sg p ebits emin emaxe.
Proof.
  intros U Hu HU.
  destruct Hu as (d0 & t & H0 & Eu). pose proof H0 as H0'. unfold is_digit in H0'.
  assert (NW : forall w0 w, (b2z w0 < 48 \/ 57 < b2z w0) -> String.eqb (lower_str u) (String w0 w) = false).
  { intros w0 w Hw. rewrite Eu. cbn [lower_str]. rewrite (b2z_digit d0 H0), lower_small by lia. fold (digit_char d0).
    cbn [String.eqb]. rewrite (digit_char_not w0 d0 H0 Hw). reflexivity. }
  destruct sg; cbn [sign_str append].
  - (* a leading minus *)
    unfold parse_float. destruct (bits =? 32); cbv beta iota zeta; change (b2z "-" =? 45) with true; change (b2z "-" =? 43) with false;
      cbn [orb negb]; cbv beta iota zeta; rewrite !NW by (vm_compute; right; reflexivity); cbn [orb andb];
      unfold parse_float_num; cbn [has_us]; change (b2z "-" =? 95) with false; cbn [orb]; rewrite HU;
      rewrite U; cbv zeta; change (b2z "-" =? 45) with true; change (b2z "-" =? 43) with false; cbn [orb]; reflexivity.
  - (* no sign: the first byte is a digit *)
    assert (E1 : (b2z (digit_char d0) =? 45) = false) by (rewrite (b2z_digit d0 H0); apply eqb_false; lia).
    assert (E2 : (b2z (digit_char d0) =? 43) = false) by (rewrite (b2z_digit d0 H0); apply eqb_false; lia).
    pose proof HU as HU'. pose proof NW as NW'. rewrite Eu in HU' |- *.
    unfold parse_float. destruct (bits =? 32); cbv beta iota zeta; rewrite E1, E2; cbn [orb negb]; cbv beta iota zeta;
      rewrite <- Eu; rewrite !NW by (vm_compute; right; reflexivity); cbn [orb andb];
      unfold parse_float_num; rewrite HU; rewrite Eu, U; cbv zeta; rewrite E1, E2; cbn [orb]; reflexivity.
Qed.


Definition hstops (rest : string) : Prop :=
  match rest with "" => True | String c _ => let x := lower (b2z c) in (x < 48 \/ 57 < x) /\ (x < 97 \/ 102 < x) end.

Lemma hexdigits_val_dstr ds rest : Forall (is_digit_b 16) ds -> hstops rest -> forall acc nd,
  hexdigits_val (dstr_b ds ++ rest) acc nd = (dval_b 16 ds acc, nd + Z.of_nat (List.length ds), rest).
Proof.
  intros Hd Hs. induction Hd as [|d r Hd0 _ IH]; intros acc nd.
  - cbn [dstr_b append dval_b List.length]. replace (nd + Z.of_nat 0) with nd by lia.
    destruct rest as [|c r]; cbn [hexdigits_val]; [reflexivity|]. cbn [hstops] in Hs. cbv zeta in Hs. destruct Hs as [H1 H2].
    replace ((48 <=? lower (b2z c)) && (lower (b2z c) <=? 57)) with false
      by (symmetry; apply andb_false_iff; destruct H1 as [H|H]; [left|right]; apply Z.leb_gt; exact H).
    replace ((97 <=? lower (b2z c)) && (lower (b2z c) <=? 102)) with false
      by (symmetry; apply andb_false_iff; destruct H2 as [H|H]; [left|right]; apply Z.leb_gt; exact H).
    reflexivity.
  - cbn [dstr_b append dval_b List.length hexdigits_val]. unfold is_digit_b in Hd0. unfold digit_char_b.
    destruct (Z.ltb_spec d 10) as [L|L].
    + rewrite b2z_z2b by lia. rewrite lower_small by lia.
      replace ((48 <=? 48 + d) && (48 + d <=? 57)) with true by (symmetry; apply andb_true_intro; split; apply Z.leb_le; lia).
      replace (48 + d - 48) with d by lia. rewrite IH. f_equal. f_equal. lia.
    + rewrite b2z_z2b by lia.
      assert (El : lower (87 + d) = 87 + d) by (unfold lower; replace ((65 <=? 87 + d) && (87 + d <=? 90)) with false; [reflexivity|symmetry; apply andb_false_intro2; apply Z.leb_gt; lia]).
      rewrite El.
      replace ((48 <=? 87 + d) && (87 + d <=? 57)) with false by (symmetry; apply andb_false_intro2; apply Z.leb_gt; lia).
      replace ((97 <=? 87 + d) && (87 + d <=? 102)) with true by (symmetry; apply andb_true_intro; split; apply Z.leb_le; lia).
      replace (87 + d - 87) with d by lia. rewrite IH. f_equal. f_equal. lia.
Qed.

Lemma dval_b_shift ds : forall acc, dval_b 16 ds acc = acc * 16 ^ Z.of_nat (List.length ds) + dval_b 16 ds 0.
Proof.
  induction ds as [|d r IH]; intros acc; cbn [dval_b List.length].
  - change (16 ^ Z.of_nat 0) with 1. lia.
  - rewrite (IH (acc * 16 + d)), (IH (0 * 16 + d)). rewrite Nat2Z.inj_succ, Z.pow_succ_r by lia. ring.
Qed.

Lemma dval_b_app a b : forall acc, dval_b 16 (a ++ b) acc = dval_b 16 b (dval_b 16 a acc).
Proof. induction a as [|d r IH]; intros acc; cbn [dval_b app]; [reflexivity|apply IH]. Qed.

Definition hfrac_str (fo : option (list Z)) : string := match fo with Some fp => String "." (dstr_b fp) | None => "" end.
Definition hfrac_ok (fo : option (list Z)) : Prop := Forall (is_digit_b 16) (frac_digits fo).
(* the mantissa and exponent part after 0x *)
Definition hex_rest (hip : list Z) (fo : option (list Z)) (pc : ascii) (xsg : option bool) (xs : list Z) : string :=
  dstr_b hip ++ (hfrac_str fo ++ String pc (xsign_str xsg ++ dstr xs)).
Definition hex_body (xc : ascii) (hip : list Z) (fo : option (list Z)) (pc : ascii) (xsg : option bool) (xs : list Z) : string :=
  String "0" (String xc (hex_rest hip fo pc xsg xs)).

Lemma hex_tail_spec xc hip fo pc xsg xs neg p ebits emin emaxe :
  hip <> [] -> Forall (is_digit_b 16) hip -> hfrac_ok fo -> lower (b2z pc) = 112 -> xs <> [] -> Forall is_digit xs ->
  let mant := dval_b 16 (hip ++ frac_digits fo) 0 in
  let e2 := exp_val xsg xs - 4 * Z.of_nat (List.length (frac_digits fo)) in
  hex_tail (hex_body xc hip fo pc xsg xs) neg p ebits emin emaxe =
  if mant =? 0 then POk (float_bits neg (Some (0, emin)) p ebits)
  else if 1100 <? e2 + Z.log2 mant then PErr PRange
  else if e2 + Z.log2 mant <? -1200 then POk (float_bits neg (Some (0, emin)) p ebits)
  else match hex_round mant e2 p emin emaxe with None => PErr PRange | Some me => POk (float_bits neg (Some me) p ebits) end.
Proof.
  intros Hne Hip Hfo Hpc Hxne Hxs mant e2.
  assert (Hlen : 0 < Z.of_nat (List.length hip)) by (destruct hip; [contradiction|cbn [List.length]; lia]).
  pose proof (exp_part_spec xsg xs Hxne Hxs) as HX.
  assert (Hps : hstops (String pc (xsign_str xsg ++ dstr xs))) by (cbn [hstops]; cbv zeta; rewrite Hpc; lia).
  assert (Hdot : hstops (String "." (dstr_b (frac_digits fo) ++ String pc (xsign_str xsg ++ dstr xs)))) by (cbn [hstops]; cbv zeta; rewrite dot_code; vm_compute; repeat split; left; reflexivity).
  unfold hex_body, hex_rest, hex_tail. cbn [stail]. destruct fo as [fp|]; cbn [hfrac_str frac_digits append] in *.
  - rewrite (hexdigits_val_dstr hip _ Hip Hdot). cbv beta iota zeta. rewrite dot_code. change (46 =? 46) with true. cbv beta iota zeta.
    rewrite (hexdigits_val_dstr fp _ Hfo Hps). cbv beta iota zeta.
    replace (0 + Z.of_nat (List.length hip) + (0 + Z.of_nat (List.length fp)) =? 0) with false by (symmetry; apply Z.eqb_neq; lia).
    rewrite Hpc. change (112 =? 112) with true. cbv beta iota zeta. rewrite HX. cbv beta iota zeta.
    assert (Em : dval_b 16 hip 0 * 16 ^ (0 + Z.of_nat (List.length fp)) + dval_b 16 fp 0 = mant).
    { unfold mant. rewrite dval_b_app, (dval_b_shift fp (dval_b 16 hip 0)). rewrite Z.add_0_l. reflexivity. }
    rewrite Em. replace (exp_val xsg xs - 4 * (0 + Z.of_nat (List.length fp))) with e2 by (unfold e2; lia). reflexivity.
  - rewrite (hexdigits_val_dstr hip _ Hip Hps). cbv beta iota zeta.
    destruct (Z.eqb_spec (b2z pc) 46) as [E46|_]; [rewrite E46 in Hpc; vm_compute in Hpc; discriminate|]. cbv beta iota zeta.
    replace (0 + Z.of_nat (List.length hip) + 0 =? 0) with false by (symmetry; apply Z.eqb_neq; lia).
    rewrite Hpc. change (112 =? 112) with true. cbv beta iota zeta. rewrite HX. cbv beta iota zeta.
    change (16 ^ 0) with 1. unfold mant. rewrite app_nil_r. replace (dval_b 16 hip 0 * 1 + 0) with (dval_b 16 hip 0) by lia.
    replace (exp_val xsg xs - 4 * 0) with e2 by (unfold e2; cbn [List.length]; lia). reflexivity.
Qed.

Lemma has_us_dstr_b_app ds rest : Forall (is_digit_b 16) ds -> has_us (dstr_b ds ++ rest) = has_us rest.
Proof.
  induction 1 as [|d r Hd _ IH]; cbn [dstr_b append has_us]; [reflexivity|].
  unfold is_digit_b in Hd. unfold digit_char_b. destruct (Z.ltb_spec d 10); rewrite b2z_z2b by lia.
  - rewrite (eqb_false (48 + d) 95) by lia. cbn [orb]. exact IH.
  - rewrite (eqb_false (87 + d) 95) by lia. cbn [orb]. exact IH.
Qed.

Lemma hex_body_shape xc hip fo pc xsg xs :
  hip <> [] -> Forall (is_digit_b 16) hip -> hfrac_ok fo -> lower (b2z xc) = 120 -> lower (b2z pc) = 112 -> Forall is_digit xs ->
  (exists d0 t, is_digit d0 /\ hex_body xc hip fo pc xsg xs = String (digit_char d0) t) /\
  has_us (hex_body xc hip fo pc xsg xs) = false /\ is_hex_b (hex_body xc hip fo pc xsg xs) = true.
Proof.
  intros Hne Hip Hfo Hxc Hpc Hxs. unfold hex_body, hex_rest.
  assert (N95 : forall c k, lower (b2z c) = k -> k <> 95 -> (b2z c =? 95) = false).
  { intros c k E Hk. destruct (Z.eqb_spec (b2z c) 95) as [E95|_]; [rewrite E95 in E; vm_compute in E; congruence|reflexivity]. }
  assert (Hexp : has_us (String pc (xsign_str xsg ++ dstr xs)) = false).
  { cbn [has_us]. rewrite (N95 pc 112 Hpc ltac:(lia)). cbn [orb].
    assert (T : has_us (dstr xs) = false) by (pose proof (has_us_dstr_app xs "" Hxs) as T; rewrite app_empty in T; exact T).
    destruct xsg as [[|]|]; cbn [xsign_str append has_us]; [change (b2z "-" =? 95) with false|change (b2z "+" =? 95) with false|]; cbn [orb]; exact T. }
  split; [|split].
  - exists 0, (String xc (dstr_b hip ++ (hfrac_str fo ++ String pc (xsign_str xsg ++ dstr xs)))). split; [unfold is_digit; lia|reflexivity].
  - cbn [has_us]. change (b2z "0" =? 95) with false. rewrite (N95 xc 120 Hxc ltac:(lia)). cbn [orb].
    rewrite (has_us_dstr_b_app hip _ Hip). destruct fo as [fp|]; cbn [hfrac_str append].
    + cbn [has_us]. rewrite dot_code. change (46 =? 95) with false. cbn [orb]. rewrite (has_us_dstr_b_app fp _ Hfo). exact Hexp.
    + exact Hexp.
  - destruct hip as [|h0 hip']; [contradiction|]. cbn [dstr_b append is_hex_b]. change (b2z "0" =? 48) with true. rewrite Hxc. reflexivity.
Qed.

(* the rational a hexadecimal literal denotes *)
Definition hex_num (mant e2 : Z) : Z := if 0 <=? e2 then mant * 2 ^ e2 else mant.
Definition hex_den (e2 : Z) : Z := if 0 <=? e2 then 1 else 2 ^ (- e2).

Lemma hex_round_nd mant e2 p emin emaxe : hex_round mant e2 p emin emaxe = round_rat (hex_num mant e2) (hex_den e2) p emin emaxe.
Proof. unfold hex_round, hex_num, hex_den. destruct (0 <=? e2); reflexivity. Qed.

Theorem hex_literal_nearest sg xc hip fo pc xsg xs bits p ebits emin emaxe b :
  (bits = 64 /\ p = 53 /\ ebits = 11 /\ emin = -1074 /\ emaxe = 971) \/ (bits = 32 /\ p = 24 /\ ebits = 8 /\ emin = -149 /\ emaxe = 104) ->
  (xc = "x"%char \/ xc = "X"%char) -> (pc = "p"%char \/ pc = "P"%char) ->
  hip <> [] -> Forall (is_digit_b 16) hip -> hfrac_ok fo -> xs <> [] -> Forall is_digit xs ->
  let mant := dval_b 16 (hip ++ frac_digits fo) 0 in
  let e2 := exp_val xsg xs - 4 * Z.of_nat (List.length (frac_digits fo)) in
  let n := hex_num mant e2 in let d := hex_den e2 in
  0 < mant ->
  parse_float (sign_str sg ++ hex_body xc hip fo pc xsg xs) bits = POk b ->
  exists m e, b = float_bits sg (Some (m, e)) p ebits /\
    (0 <= m < 2 ^ p /\ emin <= e <= emaxe /\ (e = emin \/ 2 ^ (p - 1) <= m)) /\
    (forall m' e', 0 <= m' < 2 ^ p -> emin <= e' -> D n d m e * pn e' <= D n d m' e' * pn e) /\
    (2 * D n d m e = d * pp e -> Z.even m = true).
Proof.
  intros F Hxcs Hpcs Hne Hip Hfo Hxne Hxs mant e2 n d Hpos H.
  assert (Hxc : lower (b2z xc) = 120) by (destruct Hxcs as [->| ->]; reflexivity).
  assert (Hpc : lower (b2z pc) = 112) by (destruct Hpcs as [->| ->]; reflexivity).
  assert (Hfmt : is_format p emin emaxe) by (destruct F as [(_ & -> & _ & -> & ->)|(_ & -> & _ & -> & ->)]; [left|right]; repeat split).
  assert (U : forall c t, parse_float_core (String c t) bits =
     let neg := b2z c =? 45 in let body := if (b2z c =? 43) || neg then t else String c t in
     if is_hex_b body then hex_tail body neg p ebits emin emaxe else dec_tail body neg p ebits emin emaxe).
  { destruct F as [(-> & -> & -> & -> & ->)|(-> & -> & -> & -> & ->)]; [exact pfc_unfold64|exact pfc_unfold32]. }
  destruct (hex_body_shape xc hip fo pc xsg xs Hne Hip Hfo Hxc Hpc Hxs) as (S1 & S2 & S3).
  rewrite (parse_float_unsigned_any sg _ bits p ebits emin emaxe U S1 S2) in H. rewrite S3 in H.
  rewrite (hex_tail_spec xc hip fo pc xsg xs sg p ebits emin emaxe Hne Hip Hfo Hpc Hxne Hxs) in H. cbv zeta in H. fold mant e2 in H.
  rewrite (eqb_false mant 0) in H by lia.
  assert (Hn : 0 < n).
  { unfold n, hex_num. destruct (Z.leb_spec 0 e2) as [L|L]; [|exact Hpos]. pose proof (Z.pow_pos_nonneg 2 e2 ltac:(lia) L). nia. }
  assert (Hd : 0 < d) by (unfold d, hex_den; destruct (Z.leb_spec 0 e2) as [L|L]; [lia|apply Z.pow_pos_nonneg; lia]).
  assert (R : exists m e, round_rat n d p emin emaxe = Some (m, e) /\ b = float_bits sg (Some (m, e)) p ebits).
  { pose proof (hex_round_nd mant e2 p emin emaxe) as Hr. fold n d in Hr.
    destruct (Z.ltb_spec 1100 (e2 + Z.log2 mant)) as [O|O]; [discriminate|].
    destruct (Z.ltb_spec (e2 + Z.log2 mant) (-1200)) as [G|G].
    - pose proof (hex_underflow_guard mant e2 p emin emaxe Hfmt Hpos G) as Z0. rewrite Hr in Z0. exists 0, emin. split; [exact Z0|congruence].
    - rewrite Hr in H. destruct (round_rat n d p emin emaxe) as [[m e]|]; [|discriminate]. exists m, e. split; [reflexivity|congruence]. }
  destruct R as (m & e & R & ->). exists m, e.
  assert (Hp : 2 <= p) by (destruct F as [(_ & -> & _)|(_ & -> & _)]; lia).
  split; [reflexivity|split; [|split]].
  - apply (round_rat_canonical n d p emin emaxe m e Hn Hd ltac:(lia) R).
  - intros m' e' Hm He'. apply (round_rat_nearest n d p emin emaxe m e m' e' Hn Hd ltac:(lia) R Hm He').
  - apply (round_rat_ties_to_even n d p emin emaxe m e Hn Hd Hp R).
Qed.

Example hex_examples :
  (sign_str false ++ hex_body "x" [1] (Some [8]) "p" (Some false) [3] = "0x1.8p+3" /\ sign_str true ++ hex_body "X" [15; 15] None "P" (Some true) [2] = "-0XffP-2")%string /\
  parse_float "0x1.8p+3" 64 = POk 4622945017495814144.
Proof. split; [split; reflexivity|vm_compute; reflexivity]. Qed.
