From Coq Require Import List String.
From Bexpr Require Import Base Ast Unicode Peg GoGrammar ActionsPinned.
Lemma actions_pinned : go_actions = pinned_actions.
Proof. reflexivity. Qed.
