From Coq Require Import List String.
From Bexpr Require Import Base Ast Unicode Peg GoGrammar PegGrammar ActionsPinned Canon.
Lemma canon_go_id : canon_go go_grammar = go_grammar.
Proof. vm_compute. reflexivity. Qed.
Lemma canon_peg_id : canon_peg peg_grammar = peg_grammar.
Proof. vm_compute. reflexivity. Qed.
