From Coq Require Import List ZArith String Ascii Bool NArith.
Import ListNotations.
From Bexpr Require Import Base Strconv.
Open Scope string_scope.

Inductive iw := I0 | I8 | I16 | I32 | I64.
Inductive uw := U0 | U8 | U16 | U32 | U64.

Inductive gtype :=
| TBool | TInt (w:iw) | TUint (w:uw) | TUintptr | TF32 | TF64 | TString
| TComplex | TChan | TFunc | TUnsafe
| TNamed (name:string) (u:gtype)
| TPtr (t:gtype) | TIface
| TSlice (t:gtype) | TArray (n:nat) (t:gtype) | TMap (k v:gtype)
| TStruct (name:string) (fs:list fdecl)
with fdecl := FD (name:string) (exported:bool) (tags:list (string*string)) (t:gtype).

Inductive gval :=
| VBool (b:bool) | VInt (z:Z) | VUint (z:Z) | VF32 (bits:Z) | VF64 (bits:Z) | VStr (s:string)
| VOpaque | VNilPtr | VPtr (v:gval) | VNilIface | VIface (dyn:gtype) (v:gval)
| VSlice (isnil:bool) (l:list gval) | VArray (l:list gval)
| VMap (isnil:bool) (kvs:list (gval*gval)) | VStruct (fs:list gval).

Definition rv := option (gtype * gval).      (* reflect.Value; None = zero Value *)
Definition iface := option (gtype * gval).   (* interface{}; None = nil; the type is never TIface *)

Inductive kind := KInvalid | KBool | KInt | KInt8 | KInt16 | KInt32 | KInt64 | KUint | KUint8 | KUint16 | KUint32 | KUint64
 | KUintptr | KFloat32 | KFloat64 | KComplex | KArray | KChan | KFunc | KInterface | KMap | KPtr | KSlice | KString | KStruct | KUnsafe.

Fixpoint under (t : gtype) : gtype := match t with TNamed _ u => under u | _ => t end.

Definition kind_of_type (t : gtype) : kind :=
  match under t with
  | TBool => KBool
  | TInt I0 => KInt | TInt I8 => KInt8 | TInt I16 => KInt16 | TInt I32 => KInt32 | TInt I64 => KInt64
  | TUint U0 => KUint | TUint U8 => KUint8 | TUint U16 => KUint16 | TUint U32 => KUint32 | TUint U64 => KUint64
  | TUintptr => KUintptr | TF32 => KFloat32 | TF64 => KFloat64 | TString => KString
  | TComplex => KComplex | TChan => KChan | TFunc => KFunc | TUnsafe => KUnsafe
  | TNamed _ _ => KInvalid
  | TPtr _ => KPtr | TIface => KInterface | TSlice _ => KSlice | TArray _ _ => KArray | TMap _ _ => KMap
  | TStruct _ _ => KStruct
  end.
Definition kind_of (v : rv) : kind := match v with None => KInvalid | Some (t, _) => kind_of_type t end.

(* scalar classes used by the equality / coercion tables *)
Inductive sclass := SBool | SInt | SUint | SF32 | SF64 | SString | SNone.
Definition sclass_of (k : kind) : sclass :=
  match k with
  | KBool => SBool
  | KInt | KInt8 | KInt16 | KInt32 | KInt64 => SInt
  | KUint | KUint8 | KUint16 | KUint32 | KUint64 => SUint
  | KFloat32 => SF32 | KFloat64 => SF64 | KString => SString
  | _ => SNone end.

Definition bits_of (k : kind) : Z :=
  match k with KInt8 | KUint8 => 8 | KInt16 | KUint16 => 16 | KInt32 | KUint32 | KFloat32 => 32 | _ => 64 end.

(* type equality (decidable), needed for interface comparison and exact-type tests *)
Definition iw_n w := match w with I0 => 0 | I8 => 1 | I16 => 2 | I32 => 3 | I64 => 4 end%nat.
Definition uw_n w := match w with U0 => 0 | U8 => 1 | U16 => 2 | U32 => 3 | U64 => 4 end%nat.
Fixpoint type_eqb (a b : gtype) {struct a} : bool :=
  match a, b with
  | TBool, TBool | TUintptr, TUintptr | TF32, TF32 | TF64, TF64 | TString, TString
  | TComplex, TComplex | TChan, TChan | TFunc, TFunc | TUnsafe, TUnsafe | TIface, TIface => true
  | TInt x, TInt y => Nat.eqb (iw_n x) (iw_n y)
  | TUint x, TUint y => Nat.eqb (uw_n x) (uw_n y)
  | TNamed n _, TNamed m _ => String.eqb n m
  | TPtr x, TPtr y | TSlice x, TSlice y => type_eqb x y
  | TArray n x, TArray m y => Nat.eqb n m && type_eqb x y
  | TMap k v, TMap k' v' => type_eqb k k' && type_eqb v v'
  | TStruct n _, TStruct m _ => String.eqb n m      (* struct types are identified by name in the harness universe *)
  | _, _ => false
  end.

(* == on two values of the same comparable type, as Go's interface comparison does for map keys *)
Definition key_eqb (t : gtype) (a b : gval) : bool :=
  match a, b with
  | VBool x, VBool y => Bool.eqb x y
  | VInt x, VInt y | VUint x, VUint y => Z.eqb x y
  | VF32 x, VF32 y => feq x y 24 8
  | VF64 x, VF64 y => feq x y 53 11
  | VStr x, VStr y => String.eqb x y
  | _, _ => false
  end.

(* ---- reflect-style operations; None in an option result = Go panics ---- *)
Definition r_elem (v : rv) : rv :=
  match v with
  | Some (_, VIface dyn x) => Some (dyn, x)
  | Some (t, VPtr x) => match under t with TPtr t' => Some (t', x) | _ => None end
  | _ => None
  end.
Definition r_indirect (v : rv) : rv := match kind_of v with KPtr => r_elem v | _ => v end.

Fixpoint strip_ptrs (fuel : nat) (v : rv) : rv :=
  match fuel with O => v | S f => match kind_of v with KPtr => strip_ptrs f (r_elem v) | _ => v end end.
Definition strip_iface (v : rv) : rv := match kind_of v with KInterface => r_elem v | _ => v end.

Definition r_interface (v : rv) : iface :=       (* valid values only *)
  match v with
  | Some (t, VNilIface) => None
  | Some (t, VIface dyn x) => Some (dyn, x)
  | _ => v
  end.

Definition elem_type (t : gtype) : gtype :=
  match under t with TSlice e | TArray _ e | TPtr e => e | TMap _ e => e | _ => TIface end.
Definition key_type (t : gtype) : gtype := match under t with TMap k _ => k | _ => TIface end.
Fixpoint deref_type (t : gtype) : gtype := match t with TPtr e => deref_type e | _ => t end.   (* no named pointer types in the universe *)

Definition r_elems (v : rv) : option (list rv) :=     (* Index(i) for all i, slices and arrays *)
  match v with
  | Some (t, VSlice _ l) | Some (t, VArray l) => Some (map (fun x => Some (elem_type t, x)) l)
  | _ => None end.

Definition r_len (v : rv) : option nat :=
  match v with
  | Some (_, VSlice _ l) | Some (_, VArray l) => Some (List.length l)
  | Some (_, VMap _ kvs) => Some (List.length kvs)
  | Some (_, VStr s) => Some (String.length s)
  | Some (t, x) =>
      match kind_of_type t, x with
      | KChan, _ => Some 0%nat
      | KPtr, _ => match under (elem_type t) with TArray n _ => Some n | _ => None end
      | _, _ => None end
  | None => None
  end.
