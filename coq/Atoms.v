From Coq Require Import List ZArith String Ascii Bool NArith Lia.
Import ListNotations.
From Bexpr Require Import Base Ast Unicode Peg Typing Actions GoGrammar Sem Term Lex Lex2 Lex3 Calc Calc2 Skel NoHdr.
Open Scope string_scope.

(* A concrete atom family for the skeleton theorem: dotted-selector is [not] empty. *)

Lemma dotted_valid dot segs k : all_valid (dotted dot segs k) -> all_valid k.
Proof.
  induction segs as [|i r IH]; cbn; intros H; [exact H|].
  inversion H as [|? ? _ H1]; subst. inversion H1 as [|? ? _ H2]; subst.
  apply IH. exact (proj2 (proj1 (Forall_app _ _ _) H2)).
Qed.

Lemma selector_spec dot i segs k : crune dot = 46%Z -> sel_stop k -> ident_ok i -> Forall ident_ok segs ->
  spec (PRef "Selector") (fst i :: app (snd i) (dotted dot segs k))
       (VSel {| stype := SelBexpr; spath := ident_str i :: map ident_str segs |}) k.
Proof.
  intros Hd Hk Hi Hs Hv. inversion Hv as [|? ? _ Hv1]; subst. split.
  - exact (dotted_valid dot segs k (proj2 (proj1 (Forall_app _ _ _) Hv1))).
  - intros s E. destruct (sem_selector_dotted dot i segs k s Hd Hk E Hv1 Hi Hs) as [s' [H1 H2]].
    exists s'. split; [exact H1| exact H2].
Qed.

Definition sp : cell := {| crune := 32; cbytes := " "; cvalid := true |}.
Definition dotc : cell := {| crune := 46; cbytes := "."; cvalid := true |}.
Definition K_is := lit_cells [105; 115]%Z.
Definition K_empty := lit_cells [101; 109; 112; 116; 121]%Z.

Definition op_tail (neg : bool) (k : list cell) : list cell :=
  sp :: app K_is (sp :: if neg then app K_not (sp :: app K_empty k) else app K_empty k).

Lemma is_ws_sp : is_ws sp. Proof. reflexivity. Qed.

Lemma op_tail_stop_kw c neg k : c <> 105%Z -> stop_kw c (op_tail neg k).
Proof.
  intros Hc. right. exists sp, [], (app K_is (sp :: if neg then app K_not (sp :: app K_empty k) else app K_empty k)).
  repeat split; try constructor. cbn. congruence.
Qed.

Lemma op_value_fails neg k :
  fspecj (PChoice [PRef "MatchEqual"; PRef "MatchNotEqual"; PRef "MatchContains"; PRef "MatchNotContains";
                   PRef "MatchMatches"; PRef "MatchNotMatches"]) (op_tail neg k).
Proof.
  apply fchoice. repeat constructor.
  - eapply fref; [reflexivity|]. cbn [rexpr]. apply faction. apply fseq.
    eapply fseqs_later; [apply (ws_opt_ok [sp] _ (Forall_cons _ is_ws_sp (Forall_nil _))); reflexivity|].
    apply fseqs_here. refine (fails_f _ _ _ (fails_lit 61 [61]%Z) _). cbn. discriminate.
  - eapply fref; [reflexivity|]. cbn [rexpr]. apply faction. apply fseq.
    eapply fseqs_later; [apply (ws_opt_ok [sp] _ (Forall_cons _ is_ws_sp (Forall_nil _))); reflexivity|].
    apply fseqs_here. refine (fails_f _ _ _ (fails_lit 33 [61]%Z) _). cbn. discriminate.
  - eapply fref; [reflexivity|]. cbn [rexpr]. apply faction. apply fseq. apply stop_kw_fseqs. apply op_tail_stop_kw. discriminate.
  - eapply fref; [reflexivity|]. cbn [rexpr]. apply faction. apply fseq. apply stop_kw_fseqs. apply op_tail_stop_kw. discriminate.
  - eapply fref; [reflexivity|]. cbn [rexpr]. apply faction. apply fseq. apply stop_kw_fseqs. apply op_tail_stop_kw. discriminate.
  - eapply fref; [reflexivity|]. cbn [rexpr]. apply faction. apply fseq. apply stop_kw_fseqs. apply op_tail_stop_kw. discriminate.
Qed.

Lemma ws_sp k : ws_free k -> pe_ok (PRef "_") (sp :: k) k [].
Proof. intros H. exact (ws_plus_ok sp [] k is_ws_sp (Forall_nil _) H). Qed.

Lemma is_empty_spec k : spec (PRef "MatchIsEmpty") (op_tail false k) (VMOp OpIsEmpty) k.
Proof.
  eapply ref_ok; [reflexivity|]. cbn [rexpr]. eapply action_ok.
  - apply seq_ok. unfold op_tail.
    eapply seqs_cons; [apply ws_sp; reflexivity|].
    eapply seqs_cons; [apply (lit_ok [105; 115]%Z K_is _ eq_refl)|].
    eapply seqs_cons; [apply ws_sp; reflexivity|].
    eapply seqs_cons; [apply (lit_ok [101; 109; 112; 116; 121]%Z K_empty _ eq_refl)|]. apply seqs_nil.
  - intros G. reflexivity.
Qed.

Lemma is_empty_fails k : fspecj (PRef "MatchIsEmpty") (op_tail true k).
Proof.
  eapply fref; [reflexivity|]. cbn [rexpr]. apply faction. apply fseq. unfold op_tail.
  eapply fseqs_later; [apply ws_sp; reflexivity|].
  eapply fseqs_later; [apply (lit_ok [105; 115]%Z K_is _ eq_refl)|].
  eapply fseqs_later; [apply ws_sp; reflexivity|].
  apply fseqs_here. refine (fails_f _ _ _ (fails_lit 101 [109; 112; 116; 121]%Z) _). cbn. discriminate.
Qed.

Lemma is_not_empty_spec k : spec (PRef "MatchIsNotEmpty") (op_tail true k) (VMOp OpIsNotEmpty) k.
Proof.
  eapply ref_ok; [reflexivity|]. cbn [rexpr]. eapply action_ok.
  - apply seq_ok. unfold op_tail.
    eapply seqs_cons; [apply ws_sp; reflexivity|].
    eapply seqs_cons; [apply (lit_ok [105; 115]%Z K_is _ eq_refl)|].
    eapply seqs_cons; [apply ws_sp; reflexivity|].
    eapply seqs_cons; [apply (lit_ok [110; 111; 116]%Z K_not _ eq_refl)|].
    eapply seqs_cons; [apply ws_sp; reflexivity|].
    eapply seqs_cons; [apply (lit_ok [101; 109; 112; 116; 121]%Z K_empty _ eq_refl)|]. apply seqs_nil.
  - intros G. reflexivity.
Qed.

Definition op_of (neg : bool) : matchop := if neg then OpIsNotEmpty else OpIsEmpty.

Lemma op_spec neg k : spec (PChoice [PRef "MatchIsEmpty"; PRef "MatchIsNotEmpty"]) (op_tail neg k) (VMOp (op_of neg)) k.
Proof.
  apply choice_ok. destruct neg.
  - apply specc_next; [apply is_empty_fails|]. apply specc_here. apply spec_j. apply is_not_empty_spec.
  - apply specc_here. apply spec_j. apply is_empty_spec.
Qed.

Lemma op_tail_sel_stop neg k : sel_stop (op_tail neg k).
Proof. repeat split; cbn; discriminate. Qed.

Record atom := { a_first : ident; a_rest : list ident; a_neg : bool;
                 a_ok1 : ident_ok a_first; a_ok2 : Forall ident_ok a_rest; a_not_n : crune (fst a_first) <> 110%Z }.
Definition a_sel (a : atom) : selector := {| stype := SelBexpr; spath := ident_str (a_first a) :: map ident_str (a_rest a) |}.
Definition aexp (a : atom) : expr := EMatch (a_sel a) (op_of (a_neg a)) None.
Definition atxt (a : atom) : list cell := fst (a_first a) :: app (snd (a_first a)) (dotted dotc (a_rest a) (op_tail (a_neg a) [])).

Lemma dotted_app dot segs k1 k2 : app (dotted dot segs k1) k2 = dotted dot segs (app k1 k2).
Proof. induction segs as [|i r IH]; cbn; [reflexivity|]. rewrite <- app_assoc, IH. reflexivity. Qed.

Lemma op_tail_app neg k : app (op_tail neg []) k = op_tail neg k.
Proof. destruct neg; reflexivity. Qed.

Lemma atxt_app a k : app (atxt a) k = fst (a_first a) :: app (snd (a_first a)) (dotted dotc (a_rest a) (op_tail (a_neg a) k)).
Proof. unfold atxt. cbn [app]. rewrite <- app_assoc, dotted_app, op_tail_app. reflexivity. Qed.

Lemma atom_parse a k : astop k -> spec (PRef "MatchExpression") (app (atxt a) k) (VExpr (aexp a)) k.
Proof.
  intros _. rewrite atxt_app.
  pose proof (selector_spec dotc (a_first a) (a_rest a) (op_tail (a_neg a) k) eq_refl (op_tail_sel_stop _ _) (a_ok1 a) (a_ok2 a)) as Hsel.
  eapply ref_ok; [reflexivity|]. cbn [rexpr]. apply spec_j. apply choice_ok.
  apply specc_next.
  - eapply fref; [reflexivity|]. cbn [rexpr]. apply faction. apply fseq.
    eapply fseqs_later; [apply lab_ok; exact Hsel|].
    apply fseqs_here. apply flabeled. apply op_value_fails.
  - apply specc_here. apply spec_j. eapply ref_ok; [reflexivity|]. cbn [rexpr].
    eapply action_ok.
    + apply seq_ok. eapply seqs_cons; [apply lab_ok; exact Hsel|].
      eapply seqs_cons; [apply lab_ok; apply op_spec|]. apply seqs_nil.
    + intros G. reflexivity.
Qed.

Lemma head_letter c : class_match cls_id_head (crune c) = true -> crune c <> 40%Z /\ class_match cls_ws (crune c) = false.
Proof.
  intros H. unfold class_match in *. cbn in *.
  repeat rewrite orb_false_r in *. split.
  - intros E. rewrite E in H. discriminate.
  - destruct (Z.eqb_spec (crune c) 32) as [E|_]; [rewrite E in H; discriminate|].
    destruct (Z.eqb_spec (crune c) 9) as [E|_]; [rewrite E in H; discriminate|].
    destruct (Z.eqb_spec (crune c) 13) as [E|_]; [rewrite E in H; discriminate|].
    destruct (Z.eqb_spec (crune c) 10) as [E|_]; [rewrite E in H; discriminate|]. reflexivity.
Qed.

Lemma atom_not_paren a k : head_not 40 (app (atxt a) k).
Proof. rewrite atxt_app. cbn. exact (proj1 (head_letter _ (proj1 (a_ok1 a)))). Qed.
Lemma atom_head a k : ws_free (app (atxt a) k).
Proof. rewrite atxt_app. cbn. exact (proj2 (head_letter _ (proj1 (a_ok1 a)))). Qed.
Lemma atom_not_not a k : fspecj not_alt1 (app (atxt a) k).
Proof.
  rewrite atxt_app. apply faction. apply fseq. apply fseqs_here.
  refine (fails_f _ _ _ (fails_lit 110 [111; 116]%Z) _). cbn. exact (a_not_n a).
Qed.

(* the skeleton theorem, instantiated: no hypotheses left *)
Definition c16_skeleton_is_empty := skeleton_round_trip atom atxt aexp atom_parse atom_not_paren atom_not_not atom_head
  Empty_set htxt0 hop0 hsel0 hbind0 hdr_parse0 hdr_and_fails0 hdr_head0.
Check c16_skeleton_is_empty.
Print Assumptions c16_skeleton_is_empty.
